#!/usr/bin/env python3
# seed_record.py ID "caught-by obligation ids ; or MISSED..." [status]
# writes /verif/seeded/ID/meta.json from the author's meta and my confirmation log
import json,sys,os,re
i=sys.argv[1]; det=sys.argv[2]; status=sys.argv[3] if len(sys.argv)>3 else 'caught'
d='/verif/seeded/'+i
a={}
try: a=json.load(open(d+'/meta_from_author.json'))
except Exception: pass
log=open(d+'/confirm.log').read() if os.path.exists(d+'/confirm.log') else ''
m=re.search(r'^%s: (demo_without.*)$'%i,log,re.M)
meta={
 'property': i[:3],
 'round': 2 if len(i)>3 else 1,
 'summary': a.get('summary',''),
 'needs_to_manifest': a.get('needs_to_manifest',''),
 'files_changed': a.get('files_changed',[]),
 'origin': 'written by a fresh sub-agent that was given only the property record and its own scratch worktree (nothing from /verif)',
 'confirmed_by_me': {
   'how': 'seed_confirm.sh in a scratch worktree of /repo HEAD: demo on the unchanged tree, go build with the patch, demo with the patch, existing tests of the touched packages with the patch',
   'result': m.group(1) if m else 'see confirm.log',
 },
 'checks': {'status': status, 'detail': det, 'how': 'git -C /repo apply patch.diff; bin/gnoverif check <id>; git -C /repo checkout -- . (seed_eval.sh)'},
}
json.dump(meta,open(d+'/meta.json','w'),indent=1)
print('recorded',i,status)
