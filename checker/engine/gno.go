package engine

import (
	"fmt"
	"go/ast"
	"go/parser"
	"go/token"
	"go/types"
	"os"
	"path/filepath"
	"sort"
	"strings"

	"golang.org/x/tools/go/packages"
)

type fakeImporter struct{ pkgs map[string]*types.Package }

func (fi *fakeImporter) Import(path string) (*types.Package, error) {
	if p, ok := fi.pkgs[path]; ok {
		return p, nil
	}
	name := path[strings.LastIndexByte(path, '/')+1:]
	p := types.NewPackage(path, name)
	p.MarkComplete()
	fi.pkgs[path] = p
	return p, nil
}

// LoadGno parses the non-test .gno files of each directory (relative to the
// repo root) as Go syntax and type-checks them with an importer that yields
// empty packages: package-local names (functions, methods, fields, locals)
// resolve exactly, imported names do not (errors are ignored). The result is a
// Prog whose packages have PkgPath "gno:<dir>", so function names render as
// "gno:<dir>.(*T).M".
func LoadGno(dirs ...string) (*Prog, error) {
	repo := RepoDir()
	fset := token.NewFileSet()
	p := &Prog{Fset: fset, ByPath: map[string]*packages.Package{}, Repo: repo, fns: map[types.Object]*Fn{}}
	fi := &fakeImporter{pkgs: map[string]*types.Package{}}
	for _, d := range dirs {
		abs := filepath.Join(repo, d)
		ents, err := os.ReadDir(abs)
		if err != nil {
			return nil, err
		}
		var files []*ast.File
		var names []string
		for _, e := range ents {
			n := e.Name()
			if !strings.HasSuffix(n, ".gno") || strings.HasSuffix(n, "_test.gno") || strings.HasSuffix(n, "_filetest.gno") {
				continue
			}
			names = append(names, n)
		}
		sort.Strings(names)
		for _, n := range names {
			path := filepath.Join(abs, n)
			var src any
			if GlobalOverlay != nil {
				if b, ok := GlobalOverlay[path]; ok {
					src = b
				}
			}
			f, err := parser.ParseFile(fset, path, src, parser.ParseComments|parser.SkipObjectResolution)
			if err != nil {
				return nil, fmt.Errorf("parse %s: %w", path, err)
			}
			files = append(files, f)
		}
		if len(files) == 0 {
			return nil, fmt.Errorf("no .gno files in %s", d)
		}
		info := &types.Info{
			Types: map[ast.Expr]types.TypeAndValue{}, Defs: map[*ast.Ident]types.Object{}, Uses: map[*ast.Ident]types.Object{},
			Selections: map[*ast.SelectorExpr]*types.Selection{}, Implicits: map[ast.Node]types.Object{}, Scopes: map[ast.Node]*types.Scope{},
			Instances: map[*ast.Ident]types.Instance{},
		}
		conf := types.Config{Importer: fi, Error: func(error) {}, DisableUnusedImportCheck: true}
		pkgPath := "gno:" + d
		tp, _ := conf.Check(pkgPath, fset, files, info)
		pk := &packages.Package{ID: pkgPath, Name: files[0].Name.Name, PkgPath: pkgPath, Fset: fset, Syntax: files, Types: tp, TypesInfo: info}
		p.Pkgs = append(p.Pkgs, pk)
		p.ByPath[pkgPath] = pk
	}
	p.index()
	return p, nil
}

// LoadGno on a Ctx records the packages in evidence.
func (c *Ctx) LoadGno(dirs ...string) *Prog {
	p, err := LoadGno(dirs...)
	if err != nil {
		c.Undecided("load-gno", strings.Join(dirs, ","), err.Error())
		return nil
	}
	if c.Prog == nil {
		c.Prog = p
	}
	for _, pk := range p.Pkgs {
		c.Packages = append(c.Packages, pk.PkgPath)
	}
	c.nfuncs += len(p.allFns)
	return p
}
