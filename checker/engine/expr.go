package engine

import (
	"go/ast"
	"go/token"
	"go/types"

	"golang.org/x/tools/go/cfg"
)

// Gate is a branching condition on which reaching a target depends.
type Gate struct {
	Cond   ast.Expr
	OnTrue bool // target reachable only via the true branch
	Block  *cfg.Block
	Tag    ast.Expr // non-nil when Cond is a case expression of a tagged switch
}

// Full returns the condition in full: for a tagged-switch case `tag == expr`
// (so `switch x.Cmp(y) { case 0: }` reads like `if x.Cmp(y) == 0`), else Cond.
func (g Gate) Full() ast.Expr {
	if g.Tag != nil {
		return &ast.BinaryExpr{X: g.Tag, OpPos: g.Cond.Pos(), Op: token.EQL, Y: g.Cond}
	}
	return g.Cond
}

// Gates returns every conditional block that dominates the target and of which
// exactly one branch can reach the target (without re-entering the condition).
func (g *Graph) Gates(target *Site) []Gate {
	var out []Gate
	for _, c := range g.CFG.Blocks {
		cond := g.CondOf(c)
		if cond == nil {
			continue
		}
		if c == target.Block || !g.BlockDominates(c, target.Block) {
			continue
		}
		avoid := g.iterationAvoid(c, target.Block)
		t := c.Succs[0] == target.Block || g.Reach(c.Succs[0], target.Block, avoid)
		f := c.Succs[1] == target.Block || g.Reach(c.Succs[1], target.Block, avoid)
		if t != f {
			out = append(out, Gate{Cond: cond, OnTrue: t, Block: c, Tag: g.TagOf(cond)})
		}
	}
	return out
}

// Conjuncts flattens e on op (token.LAND or token.LOR), stripping parens.
func Conjuncts(e ast.Expr, op token.Token) []ast.Expr {
	e = ast.Unparen(e)
	if b, ok := e.(*ast.BinaryExpr); ok && b.Op == op {
		return append(Conjuncts(b.X, op), Conjuncts(b.Y, op)...)
	}
	return []ast.Expr{e}
}

// Atoms returns the leaf boolean sub-expressions of a condition (splitting on
// &&, || and stripping ! and parens).
func Atoms(e ast.Expr) []ast.Expr {
	e = ast.Unparen(e)
	switch x := e.(type) {
	case *ast.BinaryExpr:
		if x.Op == token.LAND || x.Op == token.LOR {
			return append(Atoms(x.X), Atoms(x.Y)...)
		}
	case *ast.UnaryExpr:
		if x.Op == token.NOT {
			return Atoms(x.X)
		}
	}
	return []ast.Expr{e}
}

// ObjOf resolves an identifier or selector expression to its object.
func ObjOf(info *types.Info, e ast.Expr) types.Object {
	switch x := ast.Unparen(e).(type) {
	case *ast.Ident:
		return info.ObjectOf(x)
	case *ast.SelectorExpr:
		return info.ObjectOf(x.Sel)
	}
	return nil
}

// Mentions reports whether e contains an identifier resolving to obj.
func Mentions(info *types.Info, e ast.Node, obj types.Object) bool {
	if e == nil || obj == nil {
		return false
	}
	found := false
	ast.Inspect(e, func(n ast.Node) bool {
		if id, ok := n.(*ast.Ident); ok && info.ObjectOf(id) == obj {
			found = true
		}
		return !found
	})
	return found
}

// MentionsName reports whether e contains an identifier or selector with the given name.
func MentionsName(e ast.Node, name string) bool {
	if e == nil {
		return false
	}
	found := false
	ast.Inspect(e, func(n ast.Node) bool {
		if id, ok := n.(*ast.Ident); ok && id.Name == name {
			found = true
		}
		return !found
	})
	return found
}

// IsLenOf reports whether e is len(x) with x resolving to obj.
func IsLenOf(info *types.Info, e ast.Expr, obj types.Object) bool {
	c, ok := ast.Unparen(e).(*ast.CallExpr)
	if !ok || len(c.Args) != 1 {
		return false
	}
	id, ok := c.Fun.(*ast.Ident)
	if !ok {
		return false
	}
	if b, ok := info.Uses[id].(*types.Builtin); !ok || b.Name() != "len" {
		return false
	}
	return ObjOf(info, c.Args[0]) == obj
}

// Negate returns the comparison operator equivalent to !(a op b).
func Negate(op token.Token) token.Token {
	switch op {
	case token.LSS:
		return token.GEQ
	case token.LEQ:
		return token.GTR
	case token.GTR:
		return token.LEQ
	case token.GEQ:
		return token.LSS
	case token.EQL:
		return token.NEQ
	case token.NEQ:
		return token.EQL
	}
	return token.ILLEGAL
}

// Flip returns op' such that (a op b) == (b op' a).
func Flip(op token.Token) token.Token {
	switch op {
	case token.LSS:
		return token.GTR
	case token.LEQ:
		return token.GEQ
	case token.GTR:
		return token.LSS
	case token.GEQ:
		return token.LEQ
	}
	return op
}

// IsBuiltinCall reports whether call is a call of the named builtin.
func IsBuiltinCall(info *types.Info, call *ast.CallExpr, name string) bool {
	id, ok := ast.Unparen(call.Fun).(*ast.Ident)
	if !ok {
		return false
	}
	b, ok := info.Uses[id].(*types.Builtin)
	return ok && b.Name() == name
}

// iterationAvoid returns the blocks a "does this branch reach the target"
// search must not pass through: the condition block itself, and the head/post
// blocks of every loop whose body contains both the condition and the target —
// a branch that reaches the target only by going round the loop again (e.g.
// `if bad { continue }`) does not reach it in this iteration.
func (g *Graph) iterationAvoid(c, target *cfg.Block) map[*cfg.Block]bool {
	avoid := map[*cfg.Block]bool{c: true}
	cp, tp := blockPos(c), blockPos(target)
	if !cp.IsValid() || !tp.IsValid() {
		return avoid
	}
	for _, b := range g.CFG.Blocks {
		var body *ast.BlockStmt
		switch b.Kind {
		case cfg.KindForLoop, cfg.KindForPost, cfg.KindForBody:
			if fs, ok := b.Stmt.(*ast.ForStmt); ok {
				if b.Kind == cfg.KindForBody && (fs.Cond != nil || fs.Post != nil) {
					continue // the head is a separate ForLoop/ForPost block
				}
				body = fs.Body
			}
		case cfg.KindRangeLoop:
			if rs, ok := b.Stmt.(*ast.RangeStmt); ok {
				body = rs.Body
			}
		}
		if body == nil || b == target {
			continue
		}
		if body.Pos() <= cp && cp < body.End() && body.Pos() <= tp && tp < body.End() {
			avoid[b] = true
		}
	}
	return avoid
}

func blockPos(b *cfg.Block) token.Pos {
	if len(b.Nodes) > 0 {
		return b.Nodes[0].Pos()
	}
	return token.NoPos
}

// ReachableAfterInIteration is ReachableAfter restricted to one iteration of
// the loops that contain both sites: paths that go round such a loop again
// (through its head or post block) do not count.
func (g *Graph) ReachableAfterInIteration(a, b *Site) bool {
	if a.Block == b.Block && (a.Idx < b.Idx || (a.Idx == b.Idx && a.Ord < b.Ord)) {
		return true
	}
	avoid := g.iterationAvoid(a.Block, b.Block)
	delete(avoid, a.Block)
	for _, s := range a.Block.Succs {
		if s == b.Block || g.Reach(s, b.Block, avoid) {
			return true
		}
	}
	return false
}
