package engine

import (
	"go/ast"
	"go/constant"
	"go/token"
	"go/types"
	"sort"
	"strings"
)

// Ref is one syntactic reference to an object inside a function body.
type Ref struct {
	Fn     *Fn
	Ident  *ast.Ident
	IsCall bool // the reference is the callee of a call expression
}

// RefsTo returns every reference (call or value use) to objects satisfying
// pred, over all function bodies of the initial packages. References outside
// any function body (package-level initialisers) are reported with Fn == nil.
func (p *Prog) RefsTo(pred func(types.Object) bool) []Ref {
	var out []Ref
	for _, pk := range p.Pkgs {
		info := pk.TypesInfo
		for _, file := range pk.Syntax {
			// map idents to enclosing fn by position
			callees := map[*ast.Ident]bool{}
			ast.Inspect(file, func(n ast.Node) bool {
				if c, ok := n.(*ast.CallExpr); ok {
					switch f := ast.Unparen(c.Fun).(type) {
					case *ast.Ident:
						callees[f] = true
					case *ast.SelectorExpr:
						callees[f.Sel] = true
					case *ast.IndexExpr:
						switch g := f.X.(type) {
						case *ast.Ident:
							callees[g] = true
						case *ast.SelectorExpr:
							callees[g.Sel] = true
						}
					}
				}
				return true
			})
			ast.Inspect(file, func(n ast.Node) bool {
				id, ok := n.(*ast.Ident)
				if !ok {
					return true
				}
				o := info.Uses[id]
				if o == nil {
					return true
				}
				if f, ok := o.(*types.Func); ok {
					o = f.Origin()
				}
				if v, ok := o.(*types.Var); ok {
					o = v.Origin()
				}
				if !pred(o) {
					return true
				}
				out = append(out, Ref{Fn: p.EnclosingFn(pk.PkgPath, id.Pos()), Ident: id, IsCall: callees[id]})
				return true
			})
		}
	}
	return out
}

// EnclosingFn returns the innermost function body containing pos.
func (p *Prog) EnclosingFn(pkgPath string, pos token.Pos) *Fn {
	var best *Fn
	for _, f := range p.allFns {
		if f.Pkg.PkgPath != pkgPath {
			continue
		}
		if f.Body.Pos() <= pos && pos < f.Body.End() {
			if best == nil || (best.Body.Pos() <= f.Body.Pos() && f.Body.End() <= best.Body.End()) {
				best = f
			}
		}
	}
	return best
}

// RefsToFunc returns references to functions whose rendered name matches.
func (p *Prog) RefsToFunc(pats ...string) []Ref {
	return p.RefsTo(func(o types.Object) bool {
		f, ok := o.(*types.Func)
		return ok && MatchName(FuncName(f), pats...)
	})
}

// CallerSet renders the set of root function names referencing the matched
// functions, as a sorted slice.
func CallerSet(refs []Ref) []string {
	m := map[string]bool{}
	for _, r := range refs {
		if r.Fn == nil {
			m["<package-level>"] = true
		} else {
			m[r.Fn.Root().Name] = true
		}
	}
	var out []string
	for k := range m {
		out = append(out, k)
	}
	sort.Strings(out)
	return out
}

// FieldName renders a struct field as "pkg.Type.field" given its owner.
func (p *Prog) Field(q string) *types.Var {
	i := strings.LastIndexByte(q, '.')
	if i < 0 {
		return nil
	}
	n := p.Named(q[:i])
	if n == nil {
		return nil
	}
	st, ok := n.Underlying().(*types.Struct)
	if !ok {
		return nil
	}
	for j := 0; j < st.NumFields(); j++ {
		if st.Field(j).Name() == q[i+1:] {
			return st.Field(j)
		}
	}
	return nil
}

// Write is one syntactic write whose target involves a given field.
type Write struct {
	Fn     *Fn
	Node   ast.Node // AssignStmt, IncDecStmt, CompositeLit KeyValue, UnaryExpr(&), CallExpr(delete/clear/append...)
	Direct bool     // the field itself is assigned (x.f = v, x.f++, T{f: v}); false: an element/sub-field (x.f[i] = v, x.f.g = v)
	Kind   string   // "assign", "incdec", "lit", "addr", "delete", "clear"
}

// FieldWrites finds all writes to the field (direct or through it) in the
// initial packages. Address-of (&x.f) is reported as Kind "addr" because the
// pointer may be written through elsewhere.
func (p *Prog) FieldWrites(field *types.Var) []Write {
	var out []Write
	if field == nil {
		return nil
	}
	field = field.Origin()
	for _, f := range p.allFns {
		info := f.Info()
		isField := func(e ast.Expr) bool {
			se, ok := ast.Unparen(e).(*ast.SelectorExpr)
			if !ok {
				return false
			}
			v, ok := info.Uses[se.Sel].(*types.Var)
			return ok && v.Origin() == field
		}
		// classify lhs: direct, via, or none
		var classify func(e ast.Expr) (hit, direct bool)
		classify = func(e ast.Expr) (bool, bool) {
			e = ast.Unparen(e)
			if isField(e) {
				return true, true
			}
			switch x := e.(type) {
			case *ast.IndexExpr:
				h, _ := classify(x.X)
				return h, false
			case *ast.SliceExpr:
				h, _ := classify(x.X)
				return h, false
			case *ast.StarExpr:
				h, _ := classify(x.X)
				return h, false
			case *ast.SelectorExpr:
				// x.f.g = v : write through f only if f is not a pointer (embedded struct value)
				if h, _ := classify(x.X); h {
					if _, isPtr := info.TypeOf(x.X).Underlying().(*types.Pointer); !isPtr {
						return true, false
					}
				}
			}
			return false, false
		}
		inspectBody(f, func(n ast.Node) {
			switch x := n.(type) {
			case *ast.AssignStmt:
				for _, l := range x.Lhs {
					if h, d := classify(l); h {
						out = append(out, Write{Fn: f, Node: x, Direct: d, Kind: "assign"})
					}
				}
			case *ast.IncDecStmt:
				if h, d := classify(x.X); h {
					out = append(out, Write{Fn: f, Node: x, Direct: d, Kind: "incdec"})
				}
			case *ast.RangeStmt:
				for _, l := range []ast.Expr{x.Key, x.Value} {
					if l != nil {
						if h, d := classify(l); h {
							out = append(out, Write{Fn: f, Node: x, Direct: d, Kind: "assign"})
						}
					}
				}
			case *ast.UnaryExpr:
				if x.Op == token.AND {
					if h, d := classify(x.X); h {
						out = append(out, Write{Fn: f, Node: x, Direct: d, Kind: "addr"})
					}
				}
			case *ast.CallExpr:
				if id, ok := ast.Unparen(x.Fun).(*ast.Ident); ok && len(x.Args) > 0 {
					if b, ok := info.Uses[id].(*types.Builtin); ok && (b.Name() == "delete" || b.Name() == "clear" || b.Name() == "copy") {
						if h, _ := classify(x.Args[0]); h {
							out = append(out, Write{Fn: f, Node: x, Direct: false, Kind: b.Name()})
						}
					}
				}
			case *ast.CompositeLit:
				for _, el := range x.Elts {
					kv, ok := el.(*ast.KeyValueExpr)
					if !ok {
						continue
					}
					if id, ok := kv.Key.(*ast.Ident); ok {
						if v, ok := info.Uses[id].(*types.Var); ok && v.Origin() == field {
							out = append(out, Write{Fn: f, Node: kv, Direct: true, Kind: "lit"})
						}
					}
				}
			}
		})
	}
	return out
}

// inspectBody walks a function body without descending into nested literals.
func inspectBody(f *Fn, visit func(ast.Node)) {
	ast.Inspect(f.Body, func(n ast.Node) bool {
		if n == nil {
			return false
		}
		if _, ok := n.(*ast.FuncLit); ok {
			return false
		}
		visit(n)
		return true
	})
}

// InspectBody is the exported form of inspectBody.
func InspectBody(f *Fn, visit func(ast.Node)) { inspectBody(f, visit) }

// WriterSet renders the sorted set of root functions performing the writes.
func WriterSet(ws []Write, filter func(Write) bool) []string {
	m := map[string]bool{}
	for _, w := range ws {
		if filter == nil || filter(w) {
			m[w.Fn.Root().Name] = true
		}
	}
	var out []string
	for k := range m {
		out = append(out, k)
	}
	sort.Strings(out)
	return out
}

// EnumConsts lists the package-level constants of the named type, sorted by value.
func (p *Prog) EnumConsts(q string) []*types.Const {
	n := p.Named(q)
	if n == nil {
		return nil
	}
	var out []*types.Const
	sc := n.Obj().Pkg().Scope()
	for _, name := range sc.Names() {
		if c, ok := sc.Lookup(name).(*types.Const); ok && types.Identical(c.Type(), n) {
			out = append(out, c)
		}
	}
	sort.Slice(out, func(i, j int) bool {
		return constant.Compare(out[i].Val(), token.LSS, out[j].Val())
	})
	return out
}

// Implementers lists the named non-interface types declared in the given
// package (module-relative path) that implement iface (by value or pointer).
func (p *Prog) Implementers(pkgRel string, iface *types.Interface) []*types.Named {
	pk := p.ByPath[ModPrefix+pkgRel]
	if pk == nil || iface == nil {
		return nil
	}
	var out []*types.Named
	sc := pk.Types.Scope()
	for _, name := range sc.Names() {
		tn, ok := sc.Lookup(name).(*types.TypeName)
		if !ok || tn.IsAlias() {
			continue
		}
		n, ok := tn.Type().(*types.Named)
		if !ok || types.IsInterface(n) || n.TypeParams().Len() > 0 {
			continue
		}
		if types.Implements(n, iface) || types.Implements(types.NewPointer(n), iface) {
			out = append(out, n)
		}
	}
	return out
}

// Iface returns the underlying interface of a named type "pkg.Name".
func (p *Prog) Iface(q string) *types.Interface {
	n := p.Named(q)
	if n == nil {
		return nil
	}
	i, _ := n.Underlying().(*types.Interface)
	return i
}

// SwitchInfo describes the cases of a switch statement.
type SwitchInfo struct {
	Stmt       ast.Stmt
	Tag        ast.Expr
	Consts     map[string]*ast.CaseClause // constant name -> clause (expression switches)
	Types      map[string]*ast.CaseClause // rendered type -> clause (type switches)
	HasDefault bool
	Default    *ast.CaseClause
}

// Switches returns the switch / type-switch statements directly in f's body
// (not in nested literals), in source order.
func (f *Fn) Switches() []*SwitchInfo {
	info := f.Info()
	var out []*SwitchInfo
	inspectBody(f, func(n ast.Node) {
		switch s := n.(type) {
		case *ast.SwitchStmt:
			si := &SwitchInfo{Stmt: s, Tag: s.Tag, Consts: map[string]*ast.CaseClause{}}
			for _, c := range s.Body.List {
				cc := c.(*ast.CaseClause)
				if cc.List == nil {
					si.HasDefault, si.Default = true, cc
				}
				for _, e := range cc.List {
					var id *ast.Ident
					switch x := ast.Unparen(e).(type) {
					case *ast.Ident:
						id = x
					case *ast.SelectorExpr:
						id = x.Sel
					}
					if id != nil {
						if k, ok := info.Uses[id].(*types.Const); ok {
							si.Consts[k.Name()] = cc
							continue
						}
						if v, ok := info.Uses[id].(*types.Var); ok {
							si.Consts[v.Name()] = cc
						}
					}
				}
			}
			out = append(out, si)
		case *ast.TypeSwitchStmt:
			si := &SwitchInfo{Stmt: s, Types: map[string]*ast.CaseClause{}}
			switch a := s.Assign.(type) {
			case *ast.AssignStmt:
				si.Tag = a.Rhs[0]
			case *ast.ExprStmt:
				si.Tag = a.X
			}
			for _, c := range s.Body.List {
				cc := c.(*ast.CaseClause)
				if cc.List == nil {
					si.HasDefault, si.Default = true, cc
				}
				for _, e := range cc.List {
					t := info.TypeOf(e)
					if t == nil {
						continue
					}
					si.Types[TypeName(t)] = cc
				}
			}
			out = append(out, si)
		}
	})
	return out
}

// TypeName renders a type with module-relative package qualifiers.
func TypeName(t types.Type) string {
	return types.TypeString(t, func(p *types.Package) string { return Rel(p.Path()) })
}

// ClauseTerminates reports whether a case clause body unconditionally ends in
// panic / return (used for "default: panic" exhaustiveness idioms).
func (f *Fn) ClausePanics(cc *ast.CaseClause) bool {
	if cc == nil || len(cc.Body) == 0 {
		return false
	}
	last := cc.Body[len(cc.Body)-1]
	es, ok := last.(*ast.ExprStmt)
	if !ok {
		return false
	}
	call, ok := es.X.(*ast.CallExpr)
	if !ok {
		return false
	}
	return !f.Prog.MayReturn(f.Info(), call)
}

// SortedKeys returns the sorted keys of a string-keyed map.
func SortedKeys[V any](m map[string]V) []string {
	var out []string
	for k := range m {
		out = append(out, k)
	}
	sort.Strings(out)
	return out
}

// SetDiff returns elements of a not in b.
func SetDiff(a, b []string) []string {
	m := map[string]bool{}
	for _, x := range b {
		m[x] = true
	}
	var out []string
	for _, x := range a {
		if !m[x] {
			out = append(out, x)
		}
	}
	return out
}
