package engine

import (
	"encoding/json"
	"fmt"
	"go/token"
	"os"
	"path/filepath"
	"sort"
	"strings"
	"time"
)

// VerifDir is where evidence, replay files and known findings live.
func VerifDir() string {
	if d := os.Getenv("VERIF_DIR"); d != "" {
		return d
	}
	return "/verif"
}

// Obligation is one rule instance examined by a check.
type Obligation struct {
	Rule   string `json:"rule"`
	Key    string `json:"key"` // stable identity: resolved construct, never a line number
	Where  string `json:"where"`
	OK     bool   `json:"ok"`
	Detail string `json:"detail,omitempty"`
	Undec  bool   `json:"undecided,omitempty"`
}

func (o Obligation) ID() string { return o.Rule + " " + o.Key }

// Ctx collects the obligations of one property check.
type Ctx struct {
	Prop     string
	Tier     string
	Prog     *Prog
	Obs      []Obligation
	floors   []string
	Packages []string
	Assume   []string
	Explain  string
	Quiet    bool
	NoEvid   bool // replay / --only runs must not overwrite the property's evidence file
	start    time.Time
	nfuncs   int
}

func NewCtx(prop, tier string) *Ctx {
	return &Ctx{Prop: prop, Tier: tier, start: time.Now()}
}

// Load loads packages and records them for the evidence file. On failure the
// error becomes an undecided obligation and nil is returned.
func (c *Ctx) Load(rel ...string) *Prog {
	return c.LoadOverlay(nil, rel...)
}

var GlobalOverlay map[string][]byte

func (c *Ctx) LoadOverlay(ov map[string][]byte, rel ...string) *Prog {
	if ov == nil {
		ov = GlobalOverlay
	}
	p, err := Load(ov, rel...)
	if err != nil {
		c.Undecided("load", strings.Join(rel, ","), err.Error())
		return nil
	}
	c.Prog = p
	for _, pk := range p.Pkgs {
		c.Packages = append(c.Packages, Rel(pk.PkgPath))
	}
	c.nfuncs += len(p.allFns)
	return p
}

// Check records a decided obligation.
func (c *Ctx) Check(rule, key string, pos token.Pos, ok bool, detail string) bool {
	where := "-"
	if c.Prog != nil {
		where = c.Prog.Pos(pos)
	}
	c.Obs = append(c.Obs, Obligation{Rule: rule, Key: key, Where: where, OK: ok, Detail: detail})
	return ok
}

// CheckAt is Check with a pre-rendered location (for .gno files etc.).
func (c *Ctx) CheckAt(rule, key, where string, ok bool, detail string) bool {
	c.Obs = append(c.Obs, Obligation{Rule: rule, Key: key, Where: where, OK: ok, Detail: detail})
	return ok
}

// Undecided records an obligation the analysis could not decide; it fails the check.
func (c *Ctx) Undecided(rule, key, detail string) {
	c.Obs = append(c.Obs, Obligation{Rule: rule, Key: key, Where: "-", OK: false, Undec: true, Detail: "UNDECIDED: " + detail})
}

// Floor asserts that a rule matched at least min instances (a rule that
// matches nothing passes vacuously forever — treated as a failure).
func (c *Ctx) Floor(rule string, got, min int) {
	ok := got >= min
	c.Obs = append(c.Obs, Obligation{Rule: "floor", Key: rule, Where: "-", OK: ok,
		Detail: fmt.Sprintf("instances found %d, confirmed floor %d", got, min)})
}

// MustFunc resolves an anchored function or records an undecided obligation.
func (c *Ctx) MustFunc(name string) *Fn {
	if c.Prog == nil {
		return nil
	}
	f := c.Prog.Func(name)
	if f == nil {
		c.Undecided("anchor", name, "anchored function not found in the loaded packages (renamed or moved?)")
	}
	return f
}

// ---- known findings ----

type KnownFinding struct {
	Property string `json:"property"`
	Key      string `json:"key"`    // "<rule> <construct>"
	Status   string `json:"status"` // "known" or "fixed"
	What     string `json:"what"`
	Commit   string `json:"commit,omitempty"`
}

func loadKnown() []KnownFinding {
	var out struct {
		Findings []KnownFinding `json:"findings"`
	}
	b, err := os.ReadFile(filepath.Join(VerifDir(), "known_findings.json"))
	if err != nil {
		return nil
	}
	if json.Unmarshal(b, &out) != nil {
		return nil
	}
	return out.Findings
}

// Result of finishing a check.
type Result struct {
	Violations []Obligation
	Known      []Obligation
}

// Finish prints the verdict lines, writes replay files and the evidence file,
// and returns the process exit code.
func (c *Ctx) Finish() int {
	known := map[string]KnownFinding{}
	for _, k := range loadKnown() {
		if k.Property == c.Prop && k.Status == "known" {
			known[k.Key] = k
		}
	}
	var viol, kn []Obligation
	discharged := 0
	distinct := map[string]bool{}
	for _, o := range c.Obs {
		distinct[o.ID()] = true
		if o.OK {
			discharged++
			continue
		}
		if _, ok := known[o.ID()]; ok {
			kn = append(kn, o)
			continue
		}
		viol = append(viol, o)
	}
	vd := VerifDir()
	os.MkdirAll(filepath.Join(vd, "evidence", "replay"), 0o755)
	old, _ := filepath.Glob(filepath.Join(vd, "evidence", "replay", c.Prop+"-*.json"))
	for _, f := range old {
		os.Remove(f)
	}
	printed := map[string]bool{}
	for _, o := range kn {
		if printed[o.ID()] {
			continue
		}
		printed[o.ID()] = true
		fmt.Printf("KNOWN-FINDING: property=%s %s at %s — %s\n", c.Prop, o.ID(), o.Where, known[o.ID()].What)
	}
	for i, o := range viol {
		rp := filepath.Join(vd, "evidence", "replay", fmt.Sprintf("%s-%d.json", c.Prop, i+1))
		b, _ := json.MarshalIndent(map[string]any{"property": c.Prop, "tier": c.Tier, "obligation": o,
			"replay_cmd": fmt.Sprintf("%s/bin/gnoverif check %s --only %q", vd, c.Prop, o.ID())}, "", " ")
		os.WriteFile(rp, b, 0o644)
		if !c.Quiet {
			fmt.Printf("  %s: %s [%s] %s\n", o.Where, o.ID(), c.Prop, o.Detail)
		}
		fmt.Printf("VIOLATION property=%s replay=%s\n", c.Prop, rp)
	}
	// evidence
	rules := map[string]int{}
	for _, o := range c.Obs {
		rules[o.Rule]++
	}
	var samples []any
	seenRule := map[string]int{}
	for _, o := range c.Obs {
		if seenRule[o.Rule] < 3 && len(samples) < 40 {
			seenRule[o.Rule]++
			samples = append(samples, o)
		}
	}
	for _, o := range append(append([]Obligation{}, viol...), kn...) {
		samples = append(samples, o)
	}
	sort.Strings(c.Packages)
	pk := c.Packages[:0:0]
	for i, p := range c.Packages {
		if i == 0 || p != c.Packages[i-1] {
			pk = append(pk, p)
		}
	}
	ev := map[string]any{
		"property_id": c.Prop,
		"tier":        c.Tier,
		"seed":        0,
		"level":       "other",
		"coverage": map[string]any{
			"explanation":         c.Explain,
			"obligations":         len(c.Obs),
			"discharged":          discharged,
			"evaluations":         len(c.Obs),
			"distinct_nontrivial": len(distinct),
			"rule":                "one evaluation per rule instance (rule + resolved construct) found in /repo's working tree at check time; distinct = distinct rule+construct keys; every instance is non-trivial (it names a real construct of the code)",
			"samples":             samples,
			"rules":               rules,
			"packages_analysed":   pk,
			"functions_analysed":  c.nfuncs,
			"known_findings":      len(kn),
			"exhaustive":          true,
			"checker_cmd":         fmt.Sprintf("bin/gnoverif check %s --tier %s", c.Prop, c.Tier),
		},
		"assumptions": append([]string{
			"go/types + go/cfg (golang.org/x/tools v0.50.0) model the source faithfully; && / || short-circuit and panics from runtime faults are not modelled in the CFG",
			"only the structural clause named in coverage.explanation is decided, not the behaviour of the property as a whole",
		}, c.Assume...),
		"wall_s":     time.Since(c.start).Seconds(),
		"violations": len(viol),
	}
	b, _ := json.MarshalIndent(ev, "", " ")
	os.MkdirAll(filepath.Join(vd, "evidence"), 0o755)
	if c.NoEvid {
		// partial run: leave the evidence of the last full run in place
	} else if err := os.WriteFile(filepath.Join(vd, "evidence", c.Prop+".json"), b, 0o644); err != nil {
		fmt.Println("cannot write evidence:", err)
		return 2
	}
	if !c.Quiet {
		fmt.Printf("%s tier=%s obligations=%d discharged=%d known=%d violations=%d packages=%d functions=%d wall=%.1fs\n",
			c.Prop, c.Tier, len(c.Obs), discharged, len(kn), len(viol), len(pk), c.nfuncs, time.Since(c.start).Seconds())
	}
	if len(viol) > 0 {
		return 1
	}
	return 0
}

// Failing returns the IDs of all failing obligations (for self-tests).
func (c *Ctx) Failing() []string {
	var out []string
	for _, o := range c.Obs {
		if !o.OK {
			out = append(out, o.ID())
		}
	}
	return out
}
