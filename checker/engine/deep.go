package engine

import (
	"go/ast"
	"go/token"
	"go/types"
)

// DeepSite is a site of f's own body (Outer) through which a matching node is
// reached: either Outer itself matches (Inner == Outer), or Outer is a call of
// a function of the loaded program whose body (transitively, bounded depth)
// contains the matching node Inner. Chain lists the helper functions entered.
// This makes rules robust against the most common behaviour-preserving
// refactor, "extract a block into a helper".
type DeepSite struct {
	Outer *Site
	Inner *Site
	Chain []*Fn
}

// DeepFind returns, for every node of f's body (not nested literals) that
// satisfies match, a DeepSite; and for every static call to a function with a
// body in the loaded program, the DeepSites found inside it (depth-limited),
// re-rooted at the call site in f.
func (f *Fn) DeepFind(depth int, match func(fn *Fn, n ast.Node) bool) []DeepSite {
	return f.deepFind(depth, match, map[*Fn]bool{})
}

func (f *Fn) deepFind(depth int, match func(fn *Fn, n ast.Node) bool, busy map[*Fn]bool) []DeepSite {
	if busy[f] {
		return nil
	}
	busy[f] = true
	defer delete(busy, f)
	var out []DeepSite
	inspectBody(f, func(n ast.Node) {
		if match(f, n) {
			if s := f.SiteOf(n); s != nil {
				out = append(out, DeepSite{Outer: s, Inner: s})
			}
			return
		}
		call, ok := n.(*ast.CallExpr)
		if !ok || depth <= 0 {
			return
		}
		s := f.SiteOf(call)
		if s == nil {
			return
		}
		callee, _ := s.Callee.(*types.Func)
		h := f.Prog.FnOf(callee)
		if h == nil || h == f {
			return
		}
		for _, in := range h.deepFind(depth-1, match, busy) {
			out = append(out, DeepSite{Outer: s, Inner: in.Inner, Chain: append([]*Fn{h}, in.Chain...)})
		}
	})
	return out
}

// DeepCallsTo is DeepFind for calls whose resolved callee matches pats.
func (f *Fn) DeepCallsTo(depth int, pats ...string) []DeepSite {
	return f.DeepFind(depth, func(fn *Fn, n ast.Node) bool {
		call, ok := n.(*ast.CallExpr)
		if !ok {
			return false
		}
		s := fn.SiteOf(call)
		return s != nil && MatchName(s.CalleeName(), pats...)
	})
}

// Outers returns the outer sites of a list of deep sites.
func Outers(ds []DeepSite) []*Site {
	var out []*Site
	for _, d := range ds {
		out = append(out, d.Outer)
	}
	return out
}

// DeepGates returns the gates of the outer site in f followed by the gates of
// each inner step inside the helpers (conditions are in the respective
// function's own variables).
func (d DeepSite) DeepGates() []Gate {
	out := d.Outer.Fn.Graph().Gates(d.Outer)
	if d.Inner != d.Outer {
		// gates inside every helper on the chain: the call to the next helper, and finally the inner site
		cur := d.Chain
		for i, h := range cur {
			if i == len(cur)-1 {
				out = append(out, h.Graph().Gates(d.Inner)...)
			} else {
				next := cur[i+1]
				for _, s := range h.Calls() {
					if fn, _ := s.Callee.(*types.Func); fn != nil && h.Prog.FnOf(fn) == next {
						out = append(out, h.Graph().Gates(s)...)
					}
				}
			}
		}
	}
	return out
}

// UnexpectedCallers is the helper-transparent form of a who-may-call table.
// refs are the references to the protected function(s); allowed is the frozen
// table of root function names. A referrer that is not in the table is still
// accepted when it is an unexported function or method of a loaded package all
// of whose own referrers are accepted (recursively, bounded depth): extracting
// a block that calls the protected function into a private helper of an
// allowed caller does not widen who may reach it. Returned: the referrers that
// are neither allowed nor such helpers.
func (p *Prog) UnexpectedCallers(refs []Ref, allowed []string) []string {
	ok := map[string]bool{}
	for _, a := range allowed {
		ok[a] = true
	}
	var accepted func(fn *Fn, depth int, busy map[*Fn]bool) bool
	accepted = func(fn *Fn, depth int, busy map[*Fn]bool) bool {
		root := fn.Root()
		if ok[root.Name] {
			return true
		}
		if depth <= 0 || root.Obj == nil || root.Obj.Exported() || busy[root] {
			return false
		}
		busy[root] = true
		defer delete(busy, root)
		rs := p.RefsTo(func(o types.Object) bool { return o == types.Object(root.Obj) })
		if len(rs) == 0 {
			return false
		}
		for _, r := range rs {
			if r.Fn == nil || !accepted(r.Fn, depth-1, busy) {
				return false
			}
		}
		return true
	}
	bad := map[string]bool{}
	for _, r := range refs {
		if r.Fn == nil {
			bad["<package-level>"] = true
			continue
		}
		if !accepted(r.Fn, 3, map[*Fn]bool{}) {
			bad[r.Fn.Root().Name] = true
		}
	}
	return SortedKeys(bad)
}

// GatesWithHelpers returns g.Gates(target) and, for every gate that tests on its
// success side the error result (err == nil) or the bool result of a call to a
// function h of the loaded program, the gates of h's success return — imported
// only when that is sound: an error helper must have exactly one `return …, nil`
// and every other return must yield a syntactically non-nil error (a composite
// literal, &T{…}, or a call of errors.New / fmt.Errorf / a New…Error
// constructor); a bool helper must have exactly one `return true` and otherwise
// `return false`. Imported conditions are in h's own variables (Gate.In = h).
// This keeps "a guard block moved into a helper returning error/bool" from
// hiding the guard.
func (f *Fn) GatesWithHelpers(target *Site, depth int) []HGate {
	var out []HGate
	g := f.Graph()
	for _, gt := range g.Gates(target) {
		out = append(out, HGate{Gate: gt, In: f})
		if depth <= 0 {
			continue
		}
		call, wantTrue := f.successCallOf(gt)
		if call == nil {
			continue
		}
		cs := f.SiteOf(call)
		if cs == nil {
			continue
		}
		fo, _ := cs.Callee.(*types.Func)
		if fo == nil {
			continue
		}
		h := f.Prog.FnOf(fo)
		if h == nil || h.Body == nil {
			continue
		}
		ret := h.soleSuccessReturn(wantTrue)
		if ret == nil {
			continue
		}
		out = append(out, h.GatesWithHelpers(ret, depth-1)...)
	}
	return out
}

// HGate is a Gate together with the function whose variables its condition uses.
type HGate struct {
	Gate
	In *Fn
}

// successCallOf: the gate holds exactly when the call's error result is nil
// (wantTrue=false → error helper) or the call's bool result is true.
func (f *Fn) successCallOf(gt Gate) (call *ast.CallExpr, boolHelper bool) {
	info := f.Info()
	cond := ast.Unparen(gt.Cond)
	onTrue := gt.OnTrue
	for {
		u, ok := cond.(*ast.UnaryExpr)
		if !ok || u.Op != token.NOT {
			break
		}
		cond, onTrue = ast.Unparen(u.X), !onTrue
	}
	if c, ok := cond.(*ast.CallExpr); ok {
		if onTrue {
			if tv, ok := info.Types[c]; ok && tv.Type != nil {
				if b, ok := tv.Type.Underlying().(*types.Basic); ok && b.Kind() == types.Bool {
					return c, true
				}
			}
		}
		return nil, false
	}
	b, ok := cond.(*ast.BinaryExpr)
	if !ok || (b.Op != token.EQL && b.Op != token.NEQ) {
		return nil, false
	}
	var v ast.Expr
	switch {
	case isNilIdent(b.Y):
		v = b.X
	case isNilIdent(b.X):
		v = b.Y
	default:
		return nil, false
	}
	// success side: v == nil
	if (b.Op == token.EQL) != onTrue {
		return nil, false
	}
	id, ok := ast.Unparen(v).(*ast.Ident)
	if !ok {
		return nil, false
	}
	obj := info.ObjectOf(id)
	if obj == nil || !isErrorType(obj.Type()) {
		return nil, false
	}
	// the assignment feeding the test: the if's Init, or the statement right before the if
	var found *ast.CallExpr
	fromAssign := func(st ast.Stmt) *ast.CallExpr {
		as, ok := st.(*ast.AssignStmt)
		if !ok || len(as.Rhs) != 1 {
			return nil
		}
		c, ok := ast.Unparen(as.Rhs[0]).(*ast.CallExpr)
		if !ok {
			return nil
		}
		if l, ok := as.Lhs[len(as.Lhs)-1].(*ast.Ident); ok && info.ObjectOf(l) == obj {
			return c
		}
		return nil
	}
	InspectBody(f, func(n ast.Node) {
		switch x := n.(type) {
		case *ast.IfStmt:
			if x.Cond == gt.Cond && x.Init != nil {
				if c := fromAssign(x.Init); c != nil {
					found = c
				}
			}
		case *ast.BlockStmt:
			for i, st := range x.List {
				if is, ok := st.(*ast.IfStmt); ok && is.Cond == gt.Cond && is.Init == nil && i > 0 {
					if c := fromAssign(x.List[i-1]); c != nil {
						found = c
					}
				}
			}
		}
	})
	return found, false
}

func isNilIdent(e ast.Expr) bool {
	id, ok := ast.Unparen(e).(*ast.Ident)
	return ok && id.Name == "nil"
}

func isErrorType(t types.Type) bool {
	n, ok := t.(*types.Named)
	return ok && n.Obj().Pkg() == nil && n.Obj().Name() == "error"
}

// soleSuccessReturn: see GatesWithHelpers.
func (h *Fn) soleSuccessReturn(boolHelper bool) *Site {
	var succ []*ast.ReturnStmt
	sound := true
	InspectBody(h, func(n ast.Node) {
		r, ok := n.(*ast.ReturnStmt)
		if !ok {
			return
		}
		if len(r.Results) == 0 {
			sound = false // named results: not analysed
			return
		}
		last := ast.Unparen(r.Results[len(r.Results)-1])
		if boolHelper {
			if id, ok := last.(*ast.Ident); ok && (id.Name == "true" || id.Name == "false") {
				if id.Name == "true" {
					succ = append(succ, r)
				}
				return
			}
			sound = false
			return
		}
		if isNilIdent(last) {
			succ = append(succ, r)
			return
		}
		switch x := last.(type) {
		case *ast.CompositeLit:
			return
		case *ast.UnaryExpr:
			if _, ok := x.X.(*ast.CompositeLit); ok && x.Op == token.AND {
				return
			}
		case *ast.CallExpr:
			name := ""
			switch fx := x.Fun.(type) {
			case *ast.SelectorExpr:
				name = fx.Sel.Name
			case *ast.Ident:
				name = fx.Name
			}
			if name == "New" || name == "Errorf" || (len(name) > 3 && name[:3] == "New") || (len(name) > 3 && name[:3] == "Err") {
				return
			}
		}
		sound = false
	})
	if !sound || len(succ) != 1 {
		return nil
	}
	return h.SiteOf(succ[0])
}
