package engine

import (
	"go/ast"
	"go/types"
)

// DeepSite is a site of f's own body (Outer) through which a matching node is
// reached: either Outer itself matches (Inner == Outer), or Outer is a call of
// a function of the loaded program whose body (transitively, bounded depth)
// contains the matching node Inner. Chain lists the helper functions entered.
// This makes rules robust against the most common behaviour-preserving
// refactor, "extract a block into a helper".
type DeepSite struct {
	Outer *Site
	Inner *Site
	Chain []*Fn
}

// DeepFind returns, for every node of f's body (not nested literals) that
// satisfies match, a DeepSite; and for every static call to a function with a
// body in the loaded program, the DeepSites found inside it (depth-limited),
// re-rooted at the call site in f.
func (f *Fn) DeepFind(depth int, match func(fn *Fn, n ast.Node) bool) []DeepSite {
	return f.deepFind(depth, match, map[*Fn]bool{})
}

func (f *Fn) deepFind(depth int, match func(fn *Fn, n ast.Node) bool, busy map[*Fn]bool) []DeepSite {
	if busy[f] {
		return nil
	}
	busy[f] = true
	defer delete(busy, f)
	var out []DeepSite
	inspectBody(f, func(n ast.Node) {
		if match(f, n) {
			if s := f.SiteOf(n); s != nil {
				out = append(out, DeepSite{Outer: s, Inner: s})
			}
			return
		}
		call, ok := n.(*ast.CallExpr)
		if !ok || depth <= 0 {
			return
		}
		s := f.SiteOf(call)
		if s == nil {
			return
		}
		callee, _ := s.Callee.(*types.Func)
		h := f.Prog.FnOf(callee)
		if h == nil || h == f {
			return
		}
		for _, in := range h.deepFind(depth-1, match, busy) {
			out = append(out, DeepSite{Outer: s, Inner: in.Inner, Chain: append([]*Fn{h}, in.Chain...)})
		}
	})
	return out
}

// DeepCallsTo is DeepFind for calls whose resolved callee matches pats.
func (f *Fn) DeepCallsTo(depth int, pats ...string) []DeepSite {
	return f.DeepFind(depth, func(fn *Fn, n ast.Node) bool {
		call, ok := n.(*ast.CallExpr)
		if !ok {
			return false
		}
		s := fn.SiteOf(call)
		return s != nil && MatchName(s.CalleeName(), pats...)
	})
}

// Outers returns the outer sites of a list of deep sites.
func Outers(ds []DeepSite) []*Site {
	var out []*Site
	for _, d := range ds {
		out = append(out, d.Outer)
	}
	return out
}

// DeepGates returns the gates of the outer site in f followed by the gates of
// each inner step inside the helpers (conditions are in the respective
// function's own variables).
func (d DeepSite) DeepGates() []Gate {
	out := d.Outer.Fn.Graph().Gates(d.Outer)
	if d.Inner != d.Outer {
		// gates inside every helper on the chain: the call to the next helper, and finally the inner site
		cur := d.Chain
		for i, h := range cur {
			if i == len(cur)-1 {
				out = append(out, h.Graph().Gates(d.Inner)...)
			} else {
				next := cur[i+1]
				for _, s := range h.Calls() {
					if fn, _ := s.Callee.(*types.Func); fn != nil && h.Prog.FnOf(fn) == next {
						out = append(out, h.Graph().Gates(s)...)
					}
				}
			}
		}
	}
	return out
}

// UnexpectedCallers is the helper-transparent form of a who-may-call table.
// refs are the references to the protected function(s); allowed is the frozen
// table of root function names. A referrer that is not in the table is still
// accepted when it is an unexported function or method of a loaded package all
// of whose own referrers are accepted (recursively, bounded depth): extracting
// a block that calls the protected function into a private helper of an
// allowed caller does not widen who may reach it. Returned: the referrers that
// are neither allowed nor such helpers.
func (p *Prog) UnexpectedCallers(refs []Ref, allowed []string) []string {
	ok := map[string]bool{}
	for _, a := range allowed {
		ok[a] = true
	}
	var accepted func(fn *Fn, depth int, busy map[*Fn]bool) bool
	accepted = func(fn *Fn, depth int, busy map[*Fn]bool) bool {
		root := fn.Root()
		if ok[root.Name] {
			return true
		}
		if depth <= 0 || root.Obj == nil || root.Obj.Exported() || busy[root] {
			return false
		}
		busy[root] = true
		defer delete(busy, root)
		rs := p.RefsTo(func(o types.Object) bool { return o == types.Object(root.Obj) })
		if len(rs) == 0 {
			return false
		}
		for _, r := range rs {
			if r.Fn == nil || !accepted(r.Fn, depth-1, busy) {
				return false
			}
		}
		return true
	}
	bad := map[string]bool{}
	for _, r := range refs {
		if r.Fn == nil {
			bad["<package-level>"] = true
			continue
		}
		if !accepted(r.Fn, 3, map[*Fn]bool{}) {
			bad[r.Fn.Root().Name] = true
		}
	}
	return SortedKeys(bad)
}
