package engine

import (
	"go/ast"
	"go/types"
)

// DeepSite is a site of f's own body (Outer) through which a matching node is
// reached: either Outer itself matches (Inner == Outer), or Outer is a call of
// a function of the loaded program whose body (transitively, bounded depth)
// contains the matching node Inner. Chain lists the helper functions entered.
// This makes rules robust against the most common behaviour-preserving
// refactor, "extract a block into a helper".
type DeepSite struct {
	Outer *Site
	Inner *Site
	Chain []*Fn
}

// DeepFind returns, for every node of f's body (not nested literals) that
// satisfies match, a DeepSite; and for every static call to a function with a
// body in the loaded program, the DeepSites found inside it (depth-limited),
// re-rooted at the call site in f.
func (f *Fn) DeepFind(depth int, match func(fn *Fn, n ast.Node) bool) []DeepSite {
	return f.deepFind(depth, match, map[*Fn]bool{})
}

func (f *Fn) deepFind(depth int, match func(fn *Fn, n ast.Node) bool, busy map[*Fn]bool) []DeepSite {
	if busy[f] {
		return nil
	}
	busy[f] = true
	defer delete(busy, f)
	var out []DeepSite
	inspectBody(f, func(n ast.Node) {
		if match(f, n) {
			if s := f.SiteOf(n); s != nil {
				out = append(out, DeepSite{Outer: s, Inner: s})
			}
			return
		}
		call, ok := n.(*ast.CallExpr)
		if !ok || depth <= 0 {
			return
		}
		s := f.SiteOf(call)
		if s == nil {
			return
		}
		callee, _ := s.Callee.(*types.Func)
		h := f.Prog.FnOf(callee)
		if h == nil || h == f {
			return
		}
		for _, in := range h.deepFind(depth-1, match, busy) {
			out = append(out, DeepSite{Outer: s, Inner: in.Inner, Chain: append([]*Fn{h}, in.Chain...)})
		}
	})
	return out
}

// DeepCallsTo is DeepFind for calls whose resolved callee matches pats.
func (f *Fn) DeepCallsTo(depth int, pats ...string) []DeepSite {
	return f.DeepFind(depth, func(fn *Fn, n ast.Node) bool {
		call, ok := n.(*ast.CallExpr)
		if !ok {
			return false
		}
		s := fn.SiteOf(call)
		return s != nil && MatchName(s.CalleeName(), pats...)
	})
}

// Outers returns the outer sites of a list of deep sites.
func Outers(ds []DeepSite) []*Site {
	var out []*Site
	for _, d := range ds {
		out = append(out, d.Outer)
	}
	return out
}

// DeepGates returns the gates of the outer site in f followed by the gates of
// each inner step inside the helpers (conditions are in the respective
// function's own variables).
func (d DeepSite) DeepGates() []Gate {
	out := d.Outer.Fn.Graph().Gates(d.Outer)
	if d.Inner != d.Outer {
		// gates inside every helper on the chain: the call to the next helper, and finally the inner site
		cur := d.Chain
		for i, h := range cur {
			if i == len(cur)-1 {
				out = append(out, h.Graph().Gates(d.Inner)...)
			} else {
				next := cur[i+1]
				for _, s := range h.Calls() {
					if fn, _ := s.Callee.(*types.Func); fn != nil && h.Prog.FnOf(fn) == next {
						out = append(out, h.Graph().Gates(s)...)
					}
				}
			}
		}
	}
	return out
}
