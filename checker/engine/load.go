package engine

import (
	"fmt"
	"go/ast"
	"go/token"
	"go/types"
	"os"
	"path/filepath"
	"sort"
	"strings"

	"golang.org/x/tools/go/packages"
	"golang.org/x/tools/go/ssa"
	"golang.org/x/tools/go/ssa/ssautil"
)

// ModPrefix is the import-path prefix of the analysed module; every name the
// checker prints or matches is relative to it ("tm2/pkg/sdk.BaseApp").
const ModPrefix = "github.com/gnolang/gno/"

const GoBin = "/opt/veriftools/go1.26.8/bin"

// RepoDir returns the tree under analysis (VERIF_REPO overrides, default /repo).
func RepoDir() string {
	if d := os.Getenv("VERIF_REPO"); d != "" {
		return d
	}
	return "/repo"
}

// Prog is a loaded, type-checked set of packages of /repo's current working tree.
type Prog struct {
	Fset    *token.FileSet
	Pkgs    []*packages.Package          // initial packages (with syntax)
	ByPath  map[string]*packages.Package // every package incl. deps, by full path
	Repo    string
	fns     map[types.Object]*Fn
	allFns  []*Fn
	noRet   map[*types.Func]bool
	ssaProg *ssa.Program
	ssaPkgs []*ssa.Package
}

func init() {
	// go/packages resolves the "go" binary through this process's PATH.
	os.Setenv("PATH", GoBin+":"+os.Getenv("PATH"))
	os.Unsetenv("GOWORK")
}

func env() []string {
	var out []string
	for _, kv := range os.Environ() {
		k := kv[:strings.IndexByte(kv+"=", '=')]
		switch k {
		case "GOWORK", "GOFLAGS", "GOPROXY", "GOSUMDB", "GOTOOLCHAIN", "PATH":
			continue
		}
		out = append(out, kv)
	}
	out = append(out,
		"GOWORK=off", "GOFLAGS=-mod=mod", "GOPROXY=off", "GOSUMDB=off", "GOTOOLCHAIN=local",
		"PATH="+os.Getenv("PATH"))
	return out
}

// Load type-checks the given package patterns (relative to the module root,
// e.g. "tm2/pkg/sdk", "tm2/pkg/db/...") from the working tree. Test files are
// not loaded: the properties speak about production code.
func Load(overlay map[string][]byte, rel ...string) (*Prog, error) {
	repo := RepoDir()
	var pats []string
	for _, r := range rel {
		pats = append(pats, "./"+strings.TrimPrefix(r, "./"))
	}
	fset := token.NewFileSet()
	cfg := &packages.Config{
		Mode:    packages.LoadSyntax | packages.NeedModule,
		Dir:     repo,
		Fset:    fset,
		Env:     env(),
		Overlay: overlay,
		Tests:   false,
	}
	pkgs, err := packages.Load(cfg, pats...)
	if err != nil {
		return nil, fmt.Errorf("packages.Load: %w", err)
	}
	if len(pkgs) == 0 {
		return nil, fmt.Errorf("no packages matched %v", pats)
	}
	p := &Prog{Fset: fset, Pkgs: pkgs, ByPath: map[string]*packages.Package{}, Repo: repo,
		fns: map[types.Object]*Fn{}}
	var errs []string
	packages.Visit(pkgs, nil, func(pk *packages.Package) {
		p.ByPath[pk.PkgPath] = pk
		if strings.HasPrefix(pk.PkgPath, ModPrefix) {
			for _, e := range pk.Errors {
				errs = append(errs, e.Error())
			}
		}
	})
	if len(errs) > 0 {
		if len(errs) > 5 {
			errs = errs[:5]
		}
		return nil, fmt.Errorf("type-check errors: %s", strings.Join(errs, "; "))
	}
	sort.Slice(p.Pkgs, func(i, j int) bool { return p.Pkgs[i].PkgPath < p.Pkgs[j].PkgPath })
	p.index()
	return p, nil
}

// Rel strips the module prefix from an import path or qualified name.
func Rel(s string) string { return strings.ReplaceAll(s, ModPrefix, "") }

// Pkg returns an initial package by module-relative path.
func (p *Prog) Pkg(rel string) *packages.Package {
	for _, pk := range p.Pkgs {
		if pk.PkgPath == ModPrefix+rel {
			return pk
		}
	}
	return nil
}

// Pos renders a position relative to the repo root.
func (p *Prog) Pos(pos token.Pos) string {
	if !pos.IsValid() {
		return "-"
	}
	po := p.Fset.Position(pos)
	f, err := filepath.Rel(p.Repo, po.Filename)
	if err != nil {
		f = po.Filename
	}
	return fmt.Sprintf("%s:%d", f, po.Line)
}

// Fn is one function body: a declared function/method or a function literal.
type Fn struct {
	Prog   *Prog
	Pkg    *packages.Package
	Obj    *types.Func   // nil for literals
	Decl   *ast.FuncDecl // nil for literals
	Lit    *ast.FuncLit  // nil for declarations
	Parent *Fn           // enclosing function for literals
	Name   string        // "tm2/pkg/sdk.(*BaseApp).runTx" or "...runTx$1"
	Body   *ast.BlockStmt
	Type   *ast.FuncType
	Lits   []*Fn
	g      *Graph
}

func (f *Fn) Info() *types.Info { return f.Pkg.TypesInfo }
func (f *Fn) Pos() token.Pos {
	if f.Decl != nil {
		return f.Decl.Pos()
	}
	return f.Lit.Pos()
}

// Root returns the enclosing declared function.
func (f *Fn) Root() *Fn {
	for f.Parent != nil {
		f = f.Parent
	}
	return f
}

// FuncName renders a *types.Func as "pkg.Func" / "pkg.(*T).M" / "pkg.(T).M"
// with the module prefix removed.
func FuncName(fn *types.Func) string {
	if fn == nil {
		return "<nil>"
	}
	fn = fn.Origin()
	sig, _ := fn.Type().(*types.Signature)
	pk := ""
	if fn.Pkg() != nil {
		pk = Rel(fn.Pkg().Path())
	}
	if sig != nil && sig.Recv() != nil {
		t := sig.Recv().Type()
		ptr := ""
		if pt, ok := t.(*types.Pointer); ok {
			t = pt.Elem()
			ptr = "*"
		}
		tn := "?"
		switch tt := t.(type) {
		case *types.Named:
			tn = tt.Obj().Name()
			if tt.Obj().Pkg() != nil {
				pk = Rel(tt.Obj().Pkg().Path())
			}
		case *types.Alias:
			tn = tt.Obj().Name()
		case *types.Interface:
			tn = "interface"
		}
		return fmt.Sprintf("%s.(%s%s).%s", pk, ptr, tn, fn.Name())
	}
	return pk + "." + fn.Name()
}

func (p *Prog) index() {
	for _, pk := range p.Pkgs {
		for _, file := range pk.Syntax {
			for _, d := range file.Decls {
				fd, ok := d.(*ast.FuncDecl)
				if !ok || fd.Body == nil {
					continue
				}
				obj, _ := pk.TypesInfo.Defs[fd.Name].(*types.Func)
				if obj == nil {
					continue
				}
				f := &Fn{Prog: p, Pkg: pk, Obj: obj, Decl: fd, Name: FuncName(obj), Body: fd.Body, Type: fd.Type}
				p.fns[obj] = f
				p.allFns = append(p.allFns, f)
				p.indexLits(f)
			}
			// package-level var initialisers with function literals
			for _, d := range file.Decls {
				gd, ok := d.(*ast.GenDecl)
				if !ok {
					continue
				}
				n := 0
				ast.Inspect(gd, func(x ast.Node) bool {
					if fl, ok := x.(*ast.FuncLit); ok {
						n++
						f := &Fn{Prog: p, Pkg: pk, Lit: fl, Name: fmt.Sprintf("%s.init$%s:%d", Rel(pk.PkgPath), filepath.Base(p.Fset.Position(fl.Pos()).Filename), p.Fset.Position(fl.Pos()).Line), Body: fl.Body, Type: fl.Type}
						p.allFns = append(p.allFns, f)
						p.indexLits(f)
						return false
					}
					return true
				})
			}
		}
	}
}

func (p *Prog) indexLits(parent *Fn) {
	n := 0
	var walk func(root ast.Node, owner *Fn)
	walk = func(root ast.Node, owner *Fn) {
		ast.Inspect(root, func(x ast.Node) bool {
			fl, ok := x.(*ast.FuncLit)
			if !ok {
				return true
			}
			n++
			f := &Fn{Prog: p, Pkg: parent.Pkg, Lit: fl, Parent: owner, Name: fmt.Sprintf("%s$%d", parent.Root().Name, n), Body: fl.Body, Type: fl.Type}
			owner.Lits = append(owner.Lits, f)
			p.allFns = append(p.allFns, f)
			walk(fl.Body, f)
			return false
		})
	}
	walk(parent.Body, parent)
}

// Funcs returns every function body (declarations and literals) of the initial packages.
func (p *Prog) Funcs() []*Fn { return p.allFns }

// FuncsIn returns the function bodies of one package (module-relative path).
func (p *Prog) FuncsIn(rel string) []*Fn {
	var out []*Fn
	for _, f := range p.allFns {
		if f.Pkg.PkgPath == ModPrefix+rel {
			out = append(out, f)
		}
	}
	return out
}

// Func finds a declared function by its rendered name, e.g.
// "tm2/pkg/sdk.(*BaseApp).runTx". Returns nil if absent.
func (p *Prog) Func(name string) *Fn {
	for _, f := range p.allFns {
		if f.Name == name {
			return f
		}
	}
	return nil
}

// FnOf returns the Fn of a types.Func declared in an initial package.
func (p *Prog) FnOf(obj *types.Func) *Fn {
	if obj == nil {
		return nil
	}
	return p.fns[obj.Origin()]
}

// LitsOf returns all literals nested (at any depth) in f.
func (f *Fn) AllLits() []*Fn {
	var out []*Fn
	for _, l := range f.Lits {
		out = append(out, l)
		out = append(out, l.AllLits()...)
	}
	return out
}

// Named looks up a package-level type by module-relative "pkg.Type".
func (p *Prog) Named(q string) *types.Named {
	i := strings.LastIndexByte(q, '.')
	if i < 0 {
		return nil
	}
	pk := p.ByPath[ModPrefix+q[:i]]
	if pk == nil {
		pk = p.ByPath[q[:i]]
	}
	if pk == nil || pk.Types == nil {
		return nil
	}
	o := pk.Types.Scope().Lookup(q[i+1:])
	if o == nil {
		return nil
	}
	n, _ := types.Unalias(o.Type()).(*types.Named)
	return n
}

// Object looks up any package-level object "pkg.Name".
func (p *Prog) Object(q string) types.Object {
	i := strings.LastIndexByte(q, '.')
	if i < 0 {
		return nil
	}
	pk := p.ByPath[ModPrefix+q[:i]]
	if pk == nil {
		pk = p.ByPath[q[:i]]
	}
	if pk == nil || pk.Types == nil {
		return nil
	}
	return pk.Types.Scope().Lookup(q[i+1:])
}

// SSA builds (once) SSA form for the initial packages.
func (p *Prog) SSA() *ssa.Program {
	if p.ssaProg == nil {
		prog, pkgs := ssautil.Packages(p.Pkgs, ssa.InstantiateGenerics)
		prog.Build()
		p.ssaProg, p.ssaPkgs = prog, pkgs
	}
	return p.ssaProg
}

// SSAFunc returns the SSA function of a declared Fn.
func (p *Prog) SSAFunc(f *Fn) *ssa.Function {
	prog := p.SSA()
	if f.Obj != nil {
		return prog.FuncValue(f.Obj)
	}
	// literal: find among parent's AnonFuncs by position
	par := p.SSAFunc(f.Parent)
	if par == nil {
		return nil
	}
	for _, a := range par.AnonFuncs {
		if a.Pos() == f.Lit.Type.Func {
			return a
		}
	}
	return nil
}
