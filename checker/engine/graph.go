package engine

import (
	"go/ast"
	"go/token"
	"go/types"
	"strings"

	"golang.org/x/tools/go/cfg"
	"golang.org/x/tools/go/types/typeutil"
)

// Graph is the control-flow graph of one function body with dominators.
type Graph struct {
	Fn     *Fn
	CFG    *cfg.CFG
	idom   []int // immediate dominator by block index (-1 for entry/unreachable)
	sites  []*Site
	byNode map[ast.Node]*Site
	// caseTag maps each case expression of a tagged `switch tag { case e: }` to
	// its tag, so that the branching condition can be presented as `tag == e`.
	caseTag map[ast.Expr]ast.Expr
}

// CondOf returns the branching condition of a two-successor block, or nil.
// For a case of a tagged switch this is the bare case expression; Gate.Tag /
// Gate.Full give the tag and the synthesised `tag == expr`.
func (g *Graph) CondOf(b *cfg.Block) ast.Expr {
	if !b.Live || len(b.Succs) != 2 || len(b.Nodes) == 0 {
		return nil
	}
	cond, ok := b.Nodes[len(b.Nodes)-1].(ast.Expr)
	if !ok {
		return nil
	}
	if g.caseTag == nil {
		g.caseTag = map[ast.Expr]ast.Expr{}
		inspectBody(g.Fn, func(n ast.Node) {
			sw, ok := n.(*ast.SwitchStmt)
			if !ok || sw.Tag == nil {
				return
			}
			for _, cl := range sw.Body.List {
				for _, e := range cl.(*ast.CaseClause).List {
					g.caseTag[e] = sw.Tag
				}
			}
		})
	}
	return cond
}

// TagOf returns the tag expression when cond is a case expression of a tagged
// switch (go/cfg records only the case expression as the branching node), else nil.
func (g *Graph) TagOf(cond ast.Expr) ast.Expr {
	if g.caseTag == nil {
		return nil
	}
	return g.caseTag[cond]
}

// Site is one AST node of interest (normally a call) located in the CFG.
type Site struct {
	Fn       *Fn
	Node     ast.Node      // the call/expr/stmt itself
	Call     *ast.CallExpr // non-nil for calls
	Callee   types.Object  // resolved callee (may be nil for dynamic calls)
	Block    *cfg.Block
	Idx      int  // index of the enclosing CFG node inside Block.Nodes
	Ord      int  // evaluation order inside the function (post-order)
	Deferred bool // inside a defer statement's call (runs at function exit)
	InGo     bool
	Top      ast.Node // the CFG node that contains it
}

func (s *Site) Pos() token.Pos { return s.Node.Pos() }

// CalleeName renders the resolved callee ("pkg.(*T).M"), or "" when dynamic.
func (s *Site) CalleeName() string {
	switch o := s.Callee.(type) {
	case *types.Func:
		return FuncName(o)
	case *types.Builtin:
		return "builtin." + o.Name()
	case *types.Var:
		if o.IsField() {
			return "field." + o.Name()
		}
		return "var." + o.Name()
	case *types.TypeName:
		return "conv." + o.Name()
	}
	return ""
}

// FunText renders the callee expression as written ("led.balances.Set"); use
// it only where types cannot resolve the callee (.gno imports).
func (s *Site) FunText() string {
	if s.Call == nil {
		return ""
	}
	return types.ExprString(s.Call.Fun)
}

var stdNoReturn = map[string]bool{
	"os.Exit": true, "log.Fatal": true, "log.Fatalf": true, "log.Fatalln": true,
	"log.Panic": true, "log.Panicf": true, "log.Panicln": true, "runtime.Goexit": true,
	"log.(*Logger).Fatal": true, "log.(*Logger).Fatalf": true, "log.(*Logger).Panicf": true,
}

// MayReturn reports whether a call can return normally: false for panic,
// the std no-return table, and repo functions computed to have no reachable return.
func (p *Prog) MayReturn(info *types.Info, call *ast.CallExpr) bool {
	switch o := typeutil.Callee(info, call).(type) {
	case *types.Builtin:
		return o.Name() != "panic"
	case *types.Func:
		if stdNoReturn[FuncName(o)] {
			return false
		}
		if p.NoReturn(o) {
			return false
		}
	}
	return true
}

// NoReturn computes (memoised, recursion-safe) whether a repo function never
// returns normally: every live exit block ends in a no-return call.
func (p *Prog) NoReturn(o *types.Func) bool {
	o = o.Origin()
	if p.noRet == nil {
		p.noRet = map[*types.Func]bool{}
	}
	if v, ok := p.noRet[o]; ok {
		return v
	}
	f := p.fns[o]
	if f == nil {
		return false
	}
	p.noRet[o] = false // recursion guard
	g := cfg.New(f.Body, func(c *ast.CallExpr) bool { return p.MayReturn(f.Info(), c) })
	v := g.NoReturn()
	p.noRet[o] = v
	return v
}

// Graph builds (once) the CFG, dominators and call-site index of f.
func (f *Fn) Graph() *Graph {
	if f.g != nil {
		return f.g
	}
	g := &Graph{Fn: f, byNode: map[ast.Node]*Site{}}
	g.CFG = cfg.New(f.Body, func(c *ast.CallExpr) bool { return f.Prog.MayReturn(f.Info(), c) })
	g.dominators()
	ord := 0
	for _, b := range g.CFG.Blocks {
		for i, n := range b.Nodes {
			g.collect(b, i, n, &ord)
		}
	}
	f.g = g
	return g
}

func (g *Graph) collect(b *cfg.Block, idx int, top ast.Node, ord *int) {
	info := g.Fn.Info()
	var walk func(n ast.Node, deferred, ingo bool)
	walk = func(n ast.Node, deferred, ingo bool) {
		if n == nil {
			return
		}
		switch x := n.(type) {
		case *ast.FuncLit:
			return
		case *ast.DeferStmt:
			// args evaluated now, call at exit
			walkChildren(x.Call, func(c ast.Node) { walk(c, false, false) })
			g.addCall(b, idx, top, x.Call, info, ord, true, false)
			return
		case *ast.GoStmt:
			walkChildren(x.Call, func(c ast.Node) { walk(c, false, false) })
			g.addCall(b, idx, top, x.Call, info, ord, false, true)
			return
		case *ast.RangeStmt:
			// go/cfg puts the RangeStmt node itself in a block for key/value
			// assignment; only X belongs to it, the body has its own blocks.
			walk(x.X, deferred, ingo)
			return
		case *ast.CallExpr:
			walkChildren(x, func(c ast.Node) { walk(c, deferred, ingo) })
			g.addCall(b, idx, top, x, info, ord, deferred, ingo)
			return
		}
		walkChildren(n, func(c ast.Node) { walk(c, deferred, ingo) })
	}
	walk(top, false, false)
}

func walkChildren(n ast.Node, f func(ast.Node)) {
	first := true
	ast.Inspect(n, func(c ast.Node) bool {
		if first {
			first = false
			return true
		}
		if c != nil {
			f(c)
		}
		return false
	})
}

func (g *Graph) addCall(b *cfg.Block, idx int, top ast.Node, call *ast.CallExpr, info *types.Info, ord *int, deferred, ingo bool) {
	*ord++
	s := &Site{Fn: g.Fn, Node: call, Call: call, Callee: typeutil.Callee(info, call), Block: b, Idx: idx, Ord: *ord, Deferred: deferred, InGo: ingo, Top: top}
	g.sites = append(g.sites, s)
	g.byNode[call] = s
}

// Calls returns every call site in the function body (not in nested literals).
func (f *Fn) Calls() []*Site { return f.Graph().sites }

// CallsTo returns call sites whose resolved callee name matches any pattern.
// A pattern is an exact rendered name, or ends in "*" for a prefix match, or
// starts with "." to match any method/function of that bare name (".Set").
func (f *Fn) CallsTo(pats ...string) []*Site {
	var out []*Site
	for _, s := range f.Calls() {
		if MatchName(s.CalleeName(), pats...) {
			out = append(out, s)
		}
	}
	return out
}

// CallsToDeep is CallsTo over f and all nested function literals.
func (f *Fn) CallsToDeep(pats ...string) []*Site {
	out := f.CallsTo(pats...)
	for _, l := range f.AllLits() {
		out = append(out, l.CallsTo(pats...)...)
	}
	return out
}

func MatchName(name string, pats ...string) bool {
	if name == "" {
		return false
	}
	for _, p := range pats {
		switch {
		case p == name:
			return true
		case strings.HasSuffix(p, "*") && strings.HasPrefix(name, p[:len(p)-1]):
			return true
		case strings.HasPrefix(p, ".") && strings.HasSuffix(name, p) :
			return true
		}
	}
	return false
}

// SiteOf locates an arbitrary AST node (statement or expression) that is, or
// is nested inside, a CFG node of f. Returns nil if not found (e.g. dead code).
func (f *Fn) SiteOf(n ast.Node) *Site {
	g := f.Graph()
	if s, ok := g.byNode[n]; ok {
		return s
	}
	for _, b := range g.CFG.Blocks {
		for i, top := range b.Nodes {
			if top.Pos() <= n.Pos() && n.End() <= top.End() {
				if rs, ok := top.(*ast.RangeStmt); ok && !(rs.X.Pos() <= n.Pos() && n.End() <= rs.X.End()) && n != top {
					// inside the range body: belongs to a more specific block
					if rs.Body != nil && rs.Body.Pos() <= n.Pos() && n.End() <= rs.Body.End() {
						continue
					}
				}
				// order: place after all calls that end before n ends
				ord := 0
				for _, s := range g.sites {
					if s.Block == b && s.Idx == i && s.Node.End() <= n.End() && s.Ord > ord {
						ord = s.Ord
					}
					if (s.Block != b || s.Idx < i) && s.Block == b && s.Ord > ord {
						ord = s.Ord
					}
				}
				s := &Site{Fn: f, Node: n, Block: b, Idx: i, Ord: ord, Top: top}
				if c, ok := n.(*ast.CallExpr); ok {
					s.Call = c
					s.Callee = typeutil.Callee(f.Info(), c)
				}
				return s
			}
		}
	}
	return nil
}

func (g *Graph) dominators() {
	n := len(g.CFG.Blocks)
	preds := make([][]int, n)
	for _, b := range g.CFG.Blocks {
		for _, s := range b.Succs {
			preds[s.Index] = append(preds[s.Index], int(b.Index))
		}
	}
	// reverse post-order
	var order []int
	seen := make([]bool, n)
	var dfs func(i int)
	dfs = func(i int) {
		seen[i] = true
		for _, s := range g.CFG.Blocks[i].Succs {
			if !seen[s.Index] {
				dfs(int(s.Index))
			}
		}
		order = append(order, i)
	}
	if n > 0 {
		dfs(0)
	}
	rpo := make([]int, n)
	for i := range rpo {
		rpo[i] = -1
	}
	for k, b := range order {
		rpo[b] = len(order) - 1 - k
	}
	idom := make([]int, n)
	for i := range idom {
		idom[i] = -1
	}
	if n == 0 {
		g.idom = idom
		return
	}
	idom[0] = 0
	intersect := func(a, b int) int {
		for a != b {
			for rpo[a] > rpo[b] {
				a = idom[a]
			}
			for rpo[b] > rpo[a] {
				b = idom[b]
			}
		}
		return a
	}
	for changed := true; changed; {
		changed = false
		for k := len(order) - 1; k >= 0; k-- {
			b := order[k]
			if b == 0 {
				continue
			}
			nd := -1
			for _, p := range preds[b] {
				if idom[p] == -1 {
					continue
				}
				if nd == -1 {
					nd = p
				} else {
					nd = intersect(p, nd)
				}
			}
			if nd != idom[b] {
				idom[b] = nd
				changed = true
			}
		}
	}
	g.idom = idom
}

// BlockDominates reports whether block a dominates block b.
func (g *Graph) BlockDominates(a, b *cfg.Block) bool {
	if !a.Live || !b.Live {
		return false
	}
	x := int(b.Index)
	for {
		if x == int(a.Index) {
			return true
		}
		if x == 0 || g.idom[x] == -1 {
			return false
		}
		x = g.idom[x]
	}
}

// Dominates: every path from entry to b executes a first. Deferred call sites
// never dominate (they run at exit); use the defer's registration via SiteOf
// on the DeferStmt if registration order is what matters.
func (g *Graph) Dominates(a, b *Site) bool {
	if a.Deferred || a.InGo {
		return false
	}
	if a.Block == b.Block {
		if a.Idx != b.Idx {
			return a.Idx < b.Idx
		}
		return a.Ord < b.Ord || (a.Ord == b.Ord && a.Node.End() <= b.Node.Pos())
	}
	return g.BlockDominates(a.Block, b.Block)
}

// Reach reports whether block `to` is reachable from block `from` (following
// at least zero edges) without entering any block in `avoid`.
func (g *Graph) Reach(from, to *cfg.Block, avoid map[*cfg.Block]bool) bool {
	if avoid[from] {
		return false
	}
	seen := map[*cfg.Block]bool{from: true}
	stack := []*cfg.Block{from}
	for len(stack) > 0 {
		b := stack[len(stack)-1]
		stack = stack[:len(stack)-1]
		if b == to {
			return true
		}
		for _, s := range b.Succs {
			if !seen[s] && !avoid[s] {
				seen[s] = true
				stack = append(stack, s)
			}
		}
	}
	return false
}

// ReachableAfter reports whether site b can execute after site a on some path.
func (g *Graph) ReachableAfter(a, b *Site) bool {
	if a.Block == b.Block && (a.Idx < b.Idx || (a.Idx == b.Idx && a.Ord < b.Ord)) {
		return true
	}
	for _, s := range a.Block.Succs {
		if g.Reach(s, b.Block, nil) {
			return true
		}
	}
	return false
}

// MustPass reports whether every path from entry to target executes at least
// one of the guard sites first.
func (g *Graph) MustPass(target *Site, guards []*Site) bool {
	avoid := map[*cfg.Block]bool{}
	for _, s := range guards {
		if s.Deferred || s.InGo {
			continue
		}
		if s.Block == target.Block {
			if s.Idx < target.Idx || (s.Idx == target.Idx && s.Ord < target.Ord) {
				return true
			}
			continue
		}
		avoid[s.Block] = true
	}
	if !target.Block.Live {
		return true
	}
	return !g.Reach(g.CFG.Blocks[0], target.Block, avoid)
}

// GuardResult describes how a guard call's verdict gates a target.
type GuardResult struct {
	OK     bool
	Cond   ast.Expr // the branching condition that consumes the verdict
	OnTrue bool     // target is reachable only when Cond is true
	Why    string
}

// CheckedGuard decides whether the verdict of `guard` (a call whose results
// are tested) actually gates `target`: there is a conditional block C,
// dominated by the guard and dominating the target, whose condition mentions a
// variable assigned from the guard's call (or the call itself), and exactly one
// branch of C can reach the target. A guard whose result is dropped, or tested
// with both branches reaching the target, is not effective.
func (g *Graph) CheckedGuard(guard, target *Site) GuardResult {
	if !g.Dominates(guard, target) {
		return GuardResult{Why: "guard call does not dominate target"}
	}
	info := g.Fn.Info()
	vars := map[types.Object]bool{}
	// variables defined/assigned from the guard call
	switch st := guard.Top.(type) {
	case *ast.AssignStmt:
		for _, r := range st.Rhs {
			if containsNode(r, guard.Node) {
				for _, l := range st.Lhs {
					if id, ok := l.(*ast.Ident); ok && id.Name != "_" {
						if o := info.ObjectOf(id); o != nil {
							vars[o] = true
						}
					}
				}
			}
		}
	case *ast.ValueSpec:
		for _, id := range st.Names {
			if o := info.ObjectOf(id); o != nil && id.Name != "_" {
				vars[o] = true
			}
		}
	}
	mentions := func(e ast.Expr) bool {
		if containsNode(e, guard.Node) {
			return true
		}
		found := false
		ast.Inspect(e, func(n ast.Node) bool {
			if id, ok := n.(*ast.Ident); ok && vars[info.ObjectOf(id)] {
				found = true
			}
			return !found
		})
		return found
	}
	for _, c := range g.CFG.Blocks {
		cond := g.CondOf(c)
		if cond == nil || !mentions(cond) {
			continue
		}
		if !(c == guard.Block || g.BlockDominates(guard.Block, c)) {
			continue
		}
		if c == guard.Block && guard.Idx > len(c.Nodes)-1 {
			continue
		}
		if !(c == target.Block || g.BlockDominates(c, target.Block)) {
			continue
		}
		if c == target.Block {
			// target in the same block as the condition: executes before the branch
			if target.Idx < len(c.Nodes)-1 {
				continue
			}
		}
		avoid := g.iterationAvoid(c, target.Block)
		t := c.Succs[0] == target.Block || g.Reach(c.Succs[0], target.Block, avoid)
		f := c.Succs[1] == target.Block || g.Reach(c.Succs[1], target.Block, avoid)
		if t != f {
			return GuardResult{OK: true, Cond: cond, OnTrue: t}
		}
	}
	if len(vars) == 0 {
		return GuardResult{Why: "guard result is not bound to a variable or tested"}
	}
	return GuardResult{Why: "no branch on the guard's result separates the target from the failing path"}
}

func containsNode(root, n ast.Node) bool {
	if root == nil || n == nil {
		return false
	}
	return root.Pos() <= n.Pos() && n.End() <= root.End()
}

// CondGates decides whether a branching condition satisfying `pred` gates the
// target (exactly one branch reaches it). Used for comparison guards such as
// `if part.Index >= ps.total { return }`.
func (g *Graph) CondGates(target *Site, pred func(ast.Expr) bool) GuardResult {
	for _, c := range g.CFG.Blocks {
		cond := g.CondOf(c)
		if cond == nil || !pred(cond) {
			continue
		}
		if c == target.Block {
			continue
		}
		if !g.BlockDominates(c, target.Block) {
			continue
		}
		avoid := g.iterationAvoid(c, target.Block)
		t := c.Succs[0] == target.Block || g.Reach(c.Succs[0], target.Block, avoid)
		f := c.Succs[1] == target.Block || g.Reach(c.Succs[1], target.Block, avoid)
		if t != f {
			return GuardResult{OK: true, Cond: cond, OnTrue: t}
		}
	}
	return GuardResult{Why: "no dominating condition of the required form gates the target"}
}

// Exits returns the live blocks that leave the function normally (return).
func (g *Graph) ReturnBlocks() []*cfg.Block {
	var out []*cfg.Block
	for _, b := range g.CFG.Blocks {
		if b.Live && b.Return() != nil {
			out = append(out, b)
		}
	}
	return out
}

// ExprString is types.ExprString.
func ExprString(e ast.Expr) string { return types.ExprString(e) }
