package main

import (
	"fmt"
	"go/ast"
	"os"

	"gnoverif/engine"
)

func main() {
	p, err := engine.Load(nil, os.Args[1:]...)
	if err != nil {
		panic(err)
	}
	for _, f := range p.Funcs() {
		info := f.Info()
		engine.InspectBody(f, func(n ast.Node) {
			as, ok := n.(*ast.AssignStmt)
			if !ok {
				return
			}
			for i, r := range as.Rhs {
				call, ok := r.(*ast.CallExpr)
				if !ok || !engine.IsBuiltinCall(info, call, "append") || len(call.Args) == 0 || i >= len(as.Lhs) {
					continue
				}
				src := engine.ObjOf(info, call.Args[0])
				if src == nil {
					continue // literal, call result, slice expr...
				}
				if engine.ObjOf(info, as.Lhs[i]) == src && engine.ExprString(as.Lhs[i]) == engine.ExprString(call.Args[0]) {
					continue
				}
				fmt.Printf("APPENDALIAS %s | %s | %s = %s\n", p.Pos(as.Pos()), f.Name, engine.ExprString(as.Lhs[i]), engine.ExprString(call))
			}
		})
	}
}
