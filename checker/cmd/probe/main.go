package main

import (
	"fmt"
	"go/ast"
	"go/token"
	"go/types"
	"os"

	"gnoverif/engine"
)

func main() {
	p, err := engine.Load(nil, os.Args[1:]...)
	if err != nil {
		panic(err)
	}
	for _, f := range p.Funcs() {
		info := f.Info()
		isPkgVar := func(e ast.Expr) *types.Var {
			for {
				switch x := ast.Unparen(e).(type) {
				case *ast.IndexExpr:
					e = x.X
					continue
				case *ast.SelectorExpr:
					if v, ok := info.Uses[x.Sel].(*types.Var); ok && !v.IsField() && v.Parent() == v.Pkg().Scope() {
						return v
					}
					e = x.X
					continue
				case *ast.StarExpr:
					e = x.X
					continue
				case *ast.Ident:
					if v, ok := info.ObjectOf(x).(*types.Var); ok && !v.IsField() && v.Pkg() != nil && v.Parent() == v.Pkg().Scope() {
						return v
					}
				}
				return nil
			}
		}
		engine.InspectBody(f, func(n ast.Node) {
			switch x := n.(type) {
			case *ast.AssignStmt:
				if x.Tok == token.DEFINE {
					return
				}
				for _, l := range x.Lhs {
					if v := isPkgVar(l); v != nil {
						fmt.Printf("GLOBALWRITE %s | %s | %s.%s\n", p.Pos(x.Pos()), f.Root().Name, engine.Rel(v.Pkg().Path()), v.Name())
					}
				}
			case *ast.IncDecStmt:
				if v := isPkgVar(x.X); v != nil {
					fmt.Printf("GLOBALWRITE %s | %s | %s.%s\n", p.Pos(x.Pos()), f.Root().Name, engine.Rel(v.Pkg().Path()), v.Name())
				}
			}
		})
	}
}
