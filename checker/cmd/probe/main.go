package main

import (
	"fmt"
	"go/ast"
	"go/types"
	"os"
	"strings"

	"gnoverif/engine"
)

func main() {
	p, err := engine.Load(nil, os.Args[1:]...)
	if err != nil {
		panic(err)
	}
	for _, f := range p.Funcs() {
		engine.InspectBody(f, func(n ast.Node) {
			switch x := n.(type) {
			case *ast.RangeStmt:
				t := f.Info().TypeOf(x.X)
				if t == nil {
					return
				}
				if _, ok := t.Underlying().(*types.Map); ok {
					fmt.Printf("MAPRANGE %s | %s | %s\n", p.Pos(x.Pos()), f.Name, engine.ExprString(x.X))
				}
			case *ast.GoStmt:
				fmt.Printf("GO %s | %s\n", p.Pos(x.Pos()), f.Name)
			case *ast.SelectStmt:
				fmt.Printf("SELECT %s | %s\n", p.Pos(x.Pos()), f.Name)
			}
		})
		for _, s := range f.Calls() {
			n := s.CalleeName()
			if strings.HasPrefix(n, "time.Now") || strings.HasPrefix(n, "time.Since") || strings.HasPrefix(n, "math/rand") || strings.HasPrefix(n, "crypto/rand") || strings.HasPrefix(n, "os.Getenv") || strings.HasPrefix(n, "os.LookupEnv") || strings.HasPrefix(n, "runtime.Num") || strings.HasPrefix(n, "os.Hostname") || strings.HasPrefix(n, "os.Getpid") {
				fmt.Printf("SRC %s | %s | %s\n", p.Pos(s.Pos()), f.Name, n)
			}
		}
	}
}
