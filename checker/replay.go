package main

import (
	"encoding/json"
	"fmt"
	"os"
)

func replay(path string) int {
	b, err := os.ReadFile(path)
	if err != nil {
		fmt.Fprintln(os.Stderr, err)
		return 2
	}
	var r struct {
		Property   string `json:"property"`
		Tier       string `json:"tier"`
		Obligation struct {
			Rule string `json:"rule"`
			Key  string `json:"key"`
		} `json:"obligation"`
	}
	if err := json.Unmarshal(b, &r); err != nil {
		fmt.Fprintln(os.Stderr, err)
		return 2
	}
	return run(r.Property, r.Tier, r.Obligation.Rule+" "+r.Obligation.Key)
}
