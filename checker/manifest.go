package main

import (
	"strings"
	"bufio"
	"encoding/json"
	"fmt"
	"os"
	"path/filepath"
	"sort"

	"gnoverif/checks"
	"gnoverif/engine"
)

const baselineCmd = `for m in $(cat /w/out/gomods.txt); do MF=$(cd /repo/$m && . /w/out/goenv.sh && gomodflag); (cd /repo/$m && go test $MF -json -vet=off -count=1 -timeout 25m ./...); done`

func manifest() int {
	var all []string
	f, err := os.Open(filepath.Join(engine.VerifDir(), "properties.jsonl"))
	if err != nil {
		fmt.Fprintln(os.Stderr, err)
		return 2
	}
	sc := bufio.NewScanner(f)
	sc.Buffer(make([]byte, 1<<20), 1<<24)
	for sc.Scan() {
		var p struct {
			ID string `json:"id"`
		}
		if json.Unmarshal(sc.Bytes(), &p) == nil && p.ID != "" {
			all = append(all, p.ID)
		}
	}
	sort.Strings(all)
	var cks []any
	na := []any{}
	var served []string
	for _, id := range all {
		if _, ok := checks.Registry[id]; !ok {
			r := checks.NotApplicable[id]
			if r == "" {
				r = "no static rule for this property is implemented in this build yet (see DESIGN.md §2 for the planned clause); nothing is claimed"
			}
			na = append(na, map[string]string{"property_id": id, "reason": r})
			continue
		}
		m := checks.Metas[id]
		if ex := checks.MetaExtras[id]; len(ex) > 0 {
			m.Text += " Additional rules (added after independently seeded changes showed gaps): " + strings.Join(ex, "; ") + "."
		}
		served = append(served, id)
		cks = append(cks, map[string]any{
			"property_id":         id,
			"quick_cmd":           "bin/gnoverif check " + id + " --tier quick",
			"thorough_cmd":        "bin/gnoverif check " + id + " --tier thorough",
			"evidence_file":       "/verif/evidence/" + id + ".json",
			"replay_cmd_template": "bin/gnoverif replay {path}",
			"engine":              "gnoverif",
			"level_claimed": map[string]string{
				"category":   "other",
				"text":       m.Text,
				"design_ref": m.Ref,
			},
			"level_note": m.Note,
			"technique":  m.Technique,
		})
	}
	out := map[string]any{
		"version":   1,
		"setup_cmd": "sh /verif/setup.sh",
		"hooks": map[string]any{
			"guard":            "verif",
			"enable":           "none needed: the checker reads /repo's source; no instrumentation is compiled into gnolang/gno",
			"baseline_off_cmd": baselineCmd,
			"source_commits":   []string{},
			"add_only":         true,
		},
		"engines": []any{map[string]any{
			"name":              "gnoverif",
			"path":              "/verif/checker",
			"serves_properties": served,
			"kind_free_text":    "custom static analyser (go/packages + go/types + go/cfg dominators/reachability, go/ssa where a value must be identified; .gno files via go/parser) with per-property rule tables",
		}},
		"checks":         cks,
		"not_applicable": na,
		"notes":          "Every check decides a structural clause (named in level_claimed.text) that is a necessary condition of the property, from /repo's working tree at run time; nothing is executed. known_findings.json lists genuine defects (fixed or recorded). `bin/gnoverif selftest` tests the checker on overlay mutants and is not property evidence.",
	}
	b, _ := json.MarshalIndent(out, "", " ")
	fmt.Println(string(b))
	return 0
}
