// Command gnoverif decides structural clauses of the given properties by
// static analysis of /repo's current working tree. See /verif/DESIGN.md.
package main

import (
	"fmt"
	"os"
	"runtime/debug"
	"sort"
	"strings"

	"gnoverif/checks"
	"gnoverif/engine"
)

func usage() {
	fmt.Fprintln(os.Stderr, "usage: gnoverif check <Cnn> [--tier quick|thorough] [--only <rule key>] | list | selftest [Cnn...]")
	os.Exit(2)
}

func main() {
	if len(os.Args) < 2 {
		usage()
	}
	switch os.Args[1] {
	case "list":
		var ids []string
		for id := range checks.Registry {
			ids = append(ids, id)
		}
		sort.Strings(ids)
		fmt.Println(strings.Join(ids, "\n"))
	case "check":
		if len(os.Args) < 3 {
			usage()
		}
		id := os.Args[2]
		tier := os.Getenv("VERIF_TIER")
		only := ""
		for i := 3; i < len(os.Args); i++ {
			switch os.Args[i] {
			case "--tier":
				i++
				tier = os.Args[i]
			case "--only":
				i++
				only = os.Args[i]
			}
		}
		if tier != "thorough" {
			tier = "quick"
		}
		os.Exit(run(id, tier, only))
	case "replay":
		if len(os.Args) < 3 {
			usage()
		}
		os.Exit(replay(os.Args[2]))
	case "manifest":
		os.Exit(manifest())
	case "selftest":
		os.Exit(selftest(os.Args[2:]))
	default:
		usage()
	}
}

func run(id, tier, only string) int {
	if _, ok := checks.Registry[id]; !ok {
		fmt.Fprintf(os.Stderr, "no check registered for %s\n", id)
		return 2
	}
	c := engine.NewCtx(id, tier)
	func() {
		defer func() {
			if r := recover(); r != nil {
				c.Undecided("analyser-panic", id, fmt.Sprintf("%v\n%s", r, debug.Stack()))
			}
		}()
		checks.Run(id, c)
	}()
	if only != "" {
		c.NoEvid = true
		var keep []engine.Obligation
		for _, o := range c.Obs {
			if o.ID() == only {
				keep = append(keep, o)
			}
		}
		c.Obs = keep
	}
	return c.Finish()
}
