package checks

import (
	"go/ast"
	"go/token"
	"go/types"
	"strconv"
	"strings"

	"gnoverif/engine"
)

// C51 — grc20 (.gno): conservation, allowance bound, failing operations change nothing.
func init() {
	register("C51", c51)
	meta("C51", Meta{
		Text:      "Decides on the .gno sources (package-local names resolved; avl/overflow/chain callees matched by their written selector) the structural necessary conditions: (no-fail-after-write) in every PrivateLedger operation no error return is reachable after a ledger write — a direct store to balances/allowances/totalSupply, or a successful call of another writing ledger method, whose own failure return is the only one allowed after it; (guarded-write) every write is gated by amount >= 0 and by the sufficiency test on the balance/allowance read with the same key; (paired-update) Mint/Burn change totalSupply and the holder's balance by the same amount in the same direction on every success path, Transfer credits and debits the same amount and never touches totalSupply; (checked-arith) int64 arithmetic goes through overflow.Add64p/Sub64p or is bounded by an explicit MaxInt64 test; (who-may-write) only Mint/Burn write totalSupply, only Transfer/Mint/Burn the balances, only Approve/SpendAllowance the allowances; (spend-then-move) TransferFrom moves exactly the amount whose allowance it spent, for the same owner; (teller-identity) tellers pass the authenticated account as from/owner/spender after the readonly and IsCurrent tests. Level 'other'.",
		Note:      "Assumes a Gno panic (overflow.*p, avl) aborts the whole transaction, so only error *returns* can leave partial effects. Not covered: arithmetic correctness of overflow.*, avl behaviour (C50), realm-level wrappers that panic on error, event contents.",
		Technique: "R-GNO: go/cfg reachability (no error return after write), gate atoms, who-may-write tables, operand identity",
		Ref:       "DESIGN.md §2 C51",
	})
	const tf = "examples/gno.land/p/demo/tokens/grc20/token.gno"
	const lf = "examples/gno.land/p/demo/tokens/grc20/tellers.gno"
	mutants("C51",
		Mutant{"transfer-writes-before-check", tf, "\tif fromBalance < amount {\n\t\treturn ErrInsufficientBalance\n\t}\n\n\tvar (\n\t\tnewToBalance", "\tled.balances.Set(string(to), toBalance)\n\tif fromBalance < amount {\n\t\treturn ErrInsufficientBalance\n\t}\n\n\tvar (\n\t\tnewToBalance", "no-fail-after-write gno:examples/gno.land/p/demo/tokens/grc20.(*PrivateLedger).Transfer returns"},
		Mutant{"burn-balance-test-dropped", tf, "\tif currentBalance < amount {\n\t\treturn ErrInsufficientBalance\n\t}\n\n\tled.totalSupply = overflow.Sub64p", "\tif currentBalance < amount && amount > 1 {\n\t\treturn ErrInsufficientBalance\n\t}\n\n\tled.totalSupply = overflow.Sub64p", "guarded-write"},
		Mutant{"negative-mint", tf, "\tif amount < 0 {\n\t\treturn ErrInvalidAmount\n\t}\n\n\t// limit amount", "\t// limit amount", "guarded-write"},
		Mutant{"allowance-test-off-by-one", tf, "if currentAllowance < amount {", "if currentAllowance+1 < amount {", "guarded-write"},
		Mutant{"mint-forgets-supply", tf, "\tled.totalSupply += amount\n", "", "paired-update"},
		Mutant{"burn-supply-direction", tf, "led.totalSupply = overflow.Sub64p(led.totalSupply, amount)", "led.totalSupply = overflow.Add64p(led.totalSupply, amount)", "paired-update"},
		Mutant{"transfer-credits-double", tf, "newToBalance   = overflow.Add64p(toBalance, amount)", "newToBalance   = overflow.Add64p(overflow.Add64p(toBalance, amount), amount)", "paired-update"},
		Mutant{"unchecked-subtraction", tf, "newFromBalance = overflow.Sub64p(fromBalance, amount)", "newFromBalance = fromBalance - amount", "checked-arith"},
		Mutant{"approve-mints", tf, "\tled.allowances.Set(allowanceKey(owner, spender), amount)\n", "\tled.allowances.Set(allowanceKey(owner, spender), amount)\n\tled.totalSupply = amount\n", "who-may-write"},
		Mutant{"transferfrom-other-amount", tf, "if err := led.Transfer(owner, to, amount); err != nil {", "if err := led.Transfer(owner, to, led.balanceOf(owner)); err != nil {", "spend-then-move"},
		Mutant{"refix-transferfrom-returns-after-spend", tf, "\t\t// Unreachable; abort rather than keep the allowance spent.\n\t\tpanic(err)", "\t\treturn err", "no-fail-after-write gno:examples/gno.land/p/demo/tokens/grc20.(*PrivateLedger).TransferFrom returns"},
		Mutant{"teller-spender-is-owner", lf, "return ft.Token.ledger.TransferFrom(owner, spender, to, amount)", "return ft.Token.ledger.TransferFrom(owner, owner, to, amount)", "teller-identity"},
		Mutant{"teller-skips-realm-check", lf, "\tif !rlm.IsCurrent() {\n\t\treturn ErrSpoofedRealm\n\t}\n\tspender := ft.accountFn(0, rlm)", "\tspender := ft.accountFn(0, rlm)", "teller-identity"},
	)
}

const c51Pkg = "gno:examples/gno.land/p/demo/tokens/grc20"

type c51Write struct {
	site   *engine.Site
	what   string // "balances", "allowances", "totalSupply", or "call:<method>"
	node   ast.Node
	direct bool
	key    ast.Expr // for tree writes: the key argument, in the anchored function's own variables (nil if unresolved)
}

func c51(c *engine.Ctx) {
	c.Explain = "Structural clauses on the .gno GRC20 ledger: no-fail-after-write (no error return reachable after a direct ledger write, nor after a successful call of another writing ledger method except that call's own failure return); guarded-write (amount >= 0 and balance/allowance sufficiency gate every write); paired-update (supply and balance move together in Mint/Burn, credit = debit in Transfer); checked-arith; who-may-write tables; spend-then-move (TransferFrom); teller-identity. Assumes panics abort the transaction. Not covered: overflow/avl internals, realm wrappers, events."
	p := c.LoadGno("examples/gno.land/p/demo/tokens/grc20")
	if p == nil {
		return
	}
	L := c51Pkg + ".(*PrivateLedger)."
	ops := []string{"SpendAllowance", "Transfer", "TransferFrom", "Approve", "Mint", "Burn"}
	fns := map[string]*engine.Fn{}
	for _, o := range ops {
		fns[o] = c.MustFunc(L + o)
	}

	// writers: methods containing a direct write (closed under calls below)
	writes := map[string][]c51Write{}
	opFn := map[*engine.Fn]bool{}
	for _, o := range ops {
		if fns[o] != nil {
			opFn[fns[o]] = true
		}
	}
	for _, o := range ops {
		if fns[o] != nil {
			writes[o] = c51DeepWrites(fns[o], opFn)
		}
	}
	isWriter := map[string]bool{}
	for changed := true; changed; {
		changed = false
		for _, o := range ops {
			f := fns[o]
			if f == nil || isWriter[o] {
				continue
			}
			w := len(writes[o]) > 0
			for _, s := range f.Calls() {
				for _, o2 := range ops {
					if s.CalleeName() == L+o2 && isWriter[o2] {
						w = true
					}
				}
			}
			if w {
				isWriter[o] = true
				changed = true
			}
		}
	}

	// ---- no-fail-after-write
	nn := 0
	for _, o := range ops {
		f := fns[o]
		if f == nil {
			continue
		}
		info := f.Info()
		g := f.Graph()
		all := append([]c51Write{}, writes[o]...)
		for _, s := range f.Calls() {
			for _, o2 := range ops {
				if s.CalleeName() == L+o2 && isWriter[o2] {
					all = append(all, c51Write{site: s, what: "call:" + o2, node: s.Call})
				}
			}
		}
		nn++
		var bad []string
		for _, r := range cjReturns(f) {
			if len(r.Results) != 1 || isNil(r.Results[0]) {
				continue
			}
			rs := f.SiteOf(r)
			if rs == nil {
				continue
			}
			for _, w := range all {
				if !g.ReachableAfter(w.site, rs) {
					continue
				}
				if !w.direct {
					// the call's own failure return is fine: a failed ledger operation wrote nothing (its own obligation)
					own := false
					if objs := cjAssignedFrom(f, w.site); len(objs) == 1 && objs[0] != nil {
						for _, gt := range g.Gates(rs) {
							if cjErrNotNilGate(info, gt, objs[0]) {
								own = true
							}
						}
					}
					if own {
						continue
					}
					// `return led.X(...)` forwarding the call's own verdict
					if call, ok := ast.Unparen(r.Results[0]).(*ast.CallExpr); ok && call == w.site.Call {
						continue
					}
				}
				bad = append(bad, "`"+engine.ExprString(r.Results[0])+"` at "+p.Pos(r.Pos())+" after "+w.what+" at "+p.Pos(w.node.Pos()))
			}
		}
		c.Check("no-fail-after-write", f.Name+" returns", f.Pos(), len(bad) == 0, "an error return is reachable after the ledger was modified (the operation fails but leaves its partial effect): "+join(bad))
	}
	c.Floor("no-fail-after-write", nn, 6)

	// ---- guarded-write
	ngw := 0
	suff := map[string][2]string{ // op -> (reader method, role of the debited account = first parameter)
		"Transfer":       {"balanceOf", "from"},
		"Burn":           {"balanceOf", "holder"},
		"SpendAllowance": {"allowance", "owner"},
	}
	for _, o := range ops {
		f := fns[o]
		if f == nil {
			continue
		}
		info := f.Info()
		amount := c51Last(f)
		for _, w := range writes[o] {
			ngw++
			atoms := cjBoundAtoms(f, w.site, amount)
			okNeg := atoms["<0"]
			c.Check("guarded-write", f.Name+" "+w.what+" write: amount >= 0", w.node.Pos(), okNeg, "the write must be unreachable when amount < 0")
			sp, need := suff[o]
			if !need {
				continue
			}
			// variable read through the reader with the debited account as first argument
			var bal types.Object
			for _, s := range f.CallsTo(c51Pkg + ".(PrivateLedger)." + sp[0]) {
				if len(s.Call.Args) >= 1 && engine.ObjOf(info, s.Call.Args[0]) == paramObj(f, 0) {
					if objs := cjAssignedFrom(f, s); len(objs) == 1 {
						bal = objs[0]
					}
				}
			}
			if bal == nil {
				// var ( x = led.balanceOf(from) ) inside a GenDecl
				engine.InspectBody(f, func(n ast.Node) {
					vs, ok := n.(*ast.ValueSpec)
					if !ok || len(vs.Names) != 1 || len(vs.Values) != 1 {
						return
					}
					if call, ok := vs.Values[0].(*ast.CallExpr); ok {
						if s := f.SiteOf(call); s != nil && s.CalleeName() == c51Pkg+".(PrivateLedger)."+sp[0] && len(call.Args) >= 1 && engine.ObjOf(info, call.Args[0]) == paramObj(f, 0) {
							bal = info.ObjectOf(vs.Names[0])
						}
					}
				})
			}
			ok := false
			if bal != nil {
				for _, ft := range cjFactsAt(f, w.site) {
					x, op, y, isCmp := cjCmpFact(ft)
					if !isCmp || ft.Fn != f {
						continue
					}
					if op == token.LEQ { // amount <= bal
						x, y, op = y, x, token.GEQ
					}
					if op == token.GEQ && engine.ObjOf(info, x) == bal && engine.ObjOf(info, y) == amount {
						ok = true
					}
				}
			}
			c.Check("guarded-write", f.Name+" "+w.what+" write: sufficient "+sp[0], w.node.Pos(), ok, "the write must be unreachable when "+sp[0]+"("+sp[1]+") < amount (tested alone, on the value read with the debited key)")
		}
	}
	c.Floor("guarded-write", ngw, 10)

	// ---- paired-update
	npu := 0
	type delta struct{ add, sub int }
	for _, o := range []string{"Mint", "Burn", "Transfer"} {
		f := fns[o]
		if f == nil {
			continue
		}
		info := f.Info()
		g := f.Graph()
		amount := c51Last(f)
		// count Add64p(_, amount) / Sub64p(_, amount) feeding balances and supply
		var supply, bal delta
		nested := false
		for _, s := range f.Calls() {
			ft := s.FunText()
			if ft != "overflow.Add64p" && ft != "overflow.Sub64p" || len(s.Call.Args) != 2 {
				continue
			}
			if engine.ObjOf(info, s.Call.Args[1]) != amount {
				continue
			}
			if _, isCall := ast.Unparen(s.Call.Args[0]).(*ast.CallExpr); isCall {
				nested = true
			}
			onSupply := false
			if se, ok := ast.Unparen(s.Call.Args[0]).(*ast.SelectorExpr); ok && se.Sel.Name == "totalSupply" {
				if as, ok := s.Top.(*ast.AssignStmt); ok && len(as.Lhs) == 1 {
					if l, ok := as.Lhs[0].(*ast.SelectorExpr); ok && l.Sel.Name == "totalSupply" {
						onSupply = true
					}
				}
			}
			d := &bal
			if onSupply {
				d = &supply
			}
			if ft == "overflow.Add64p" {
				d.add++
			} else {
				d.sub++
			}
		}
		engine.InspectBody(f, func(n ast.Node) {
			as, ok := n.(*ast.AssignStmt)
			if !ok || len(as.Lhs) != 1 {
				return
			}
			if l, ok := as.Lhs[0].(*ast.SelectorExpr); ok && l.Sel.Name == "totalSupply" && engine.ObjOf(info, as.Rhs[0]) == amount {
				switch as.Tok {
				case token.ADD_ASSIGN:
					supply.add++
				case token.SUB_ASSIGN:
					supply.sub++
				}
			}
		})
		var want [2]delta
		switch o {
		case "Mint":
			want = [2]delta{{1, 0}, {1, 0}}
		case "Burn":
			want = [2]delta{{0, 1}, {0, 1}}
		case "Transfer":
			want = [2]delta{{0, 0}, {1, 1}}
		}
		npu++
		c.Check("paired-update", f.Name+" deltas", f.Pos(), supply == want[0] && bal == want[1] && !nested,
			"expected supply(+"+cjItoa(want[0].add)+",-"+cjItoa(want[0].sub)+") balance(+"+cjItoa(want[1].add)+",-"+cjItoa(want[1].sub)+") each by exactly `amount`; found supply(+"+cjItoa(supply.add)+",-"+cjItoa(supply.sub)+") balance(+"+cjItoa(bal.add)+",-"+cjItoa(bal.sub)+")")
		// every success return passes all the writes
		var kinds []string
		switch o {
		case "Mint", "Burn":
			kinds = []string{"totalSupply", "balances"}
		case "Transfer":
			kinds = []string{"balances:to", "balances:from"}
		}
		for _, r := range cjReturns(f) {
			if len(r.Results) != 1 || !isNil(r.Results[0]) {
				continue
			}
			rs := f.SiteOf(r)
			for _, k := range kinds {
				var sites []*engine.Site
				for _, w := range writes[o] {
					switch {
					case k == w.what:
						sites = append(sites, w.site)
					case strings.HasPrefix(k, "balances:") && w.what == "balances":
						idx := map[string]int{"from": 0, "to": 1}[k[len("balances:"):]]
						if w.key != nil && engine.Mentions(info, w.key, paramObj(f, idx)) {
							sites = append(sites, w.site)
						}
					}
				}
				npu++
				c.Check("paired-update", f.Name+" success passes "+k+" write", r.Pos(), rs != nil && len(sites) > 0 && g.MustPass(rs, sites), "every successful return must have updated "+k)
			}
		}
	}
	c.Floor("paired-update", npu, 9)

	// ---- checked-arith
	nca := 0
	nOverflow := 0
	for _, f := range p.Funcs() {
		if f.Obj == nil || !strings.Contains(f.Name, "PrivateLedger") {
			continue
		}
		info := f.Info()
		for _, s := range f.Calls() {
			if strings.HasPrefix(s.FunText(), "overflow.") {
				nOverflow++
			}
		}
		isI64 := func(e ast.Expr) bool {
			t := info.TypeOf(e)
			if t == nil {
				return false
			}
			b, ok := t.Underlying().(*types.Basic)
			return ok && b.Kind() == types.Int64
		}
		engine.InspectBody(f, func(n ast.Node) {
			var x, y ast.Expr
			var node ast.Node
			switch e := n.(type) {
			case *ast.BinaryExpr:
				if e.Op != token.ADD && e.Op != token.SUB && e.Op != token.MUL {
					return
				}
				x, y, node = e.X, e.Y, e
			case *ast.AssignStmt:
				if e.Tok != token.ADD_ASSIGN && e.Tok != token.SUB_ASSIGN && e.Tok != token.MUL_ASSIGN {
					return
				}
				x, y, node = e.Lhs[0], e.Rhs[0], e
			case *ast.IncDecStmt:
				x, y, node = e.X, e.X, e
			default:
				return
			}
			if !isI64(x) && !isI64(y) {
				return
			}
			if be, isBin := node.(*ast.BinaryExpr); isBin && be.Op == token.SUB && engine.ExprString(x) == "math.MaxInt64" {
				return // the head-room computation `MaxInt64 - v` (v >= 0) cannot overflow; it is a bound, not a stored amount
			}
			nca++
			// allowed only under an explicit MaxInt64 bound on the same target: a fact `y <= B` holds where B is
			// (a single-definition local holding) overflow.Sub64p(math.MaxInt64, x)
			ok := false
			same := func(a, b ast.Expr) bool {
				if oa, ob := engine.ObjOf(info, a), engine.ObjOf(info, b); oa != nil && oa == ob {
					if _, isSel := ast.Unparen(a).(*ast.SelectorExpr); !isSel {
						return true
					}
				}
				return engine.ExprString(a) == engine.ExprString(b)
			}
			if s := f.SiteOf(node); s != nil {
				for _, ft := range cjFactsAt(f, s) {
					l, op, r, isCmp := cjCmpFact(ft)
					if !isCmp || ft.Fn != f {
						continue
					}
					if op == token.GEQ { // B >= y
						l, r, op = r, l, token.LEQ
					}
					if op != token.LEQ || !same(l, y) {
						continue
					}
					bound := ast.Unparen(cjResolveLocal(f, r))
					if call, isCall := bound.(*ast.CallExpr); isCall && len(call.Args) == 2 {
						if engine.ExprString(call.Fun) == "overflow.Sub64p" && engine.ExprString(call.Args[0]) == "math.MaxInt64" && same(call.Args[1], x) {
							ok = true
						}
					}
					if be, isBin := bound.(*ast.BinaryExpr); isBin && be.Op == token.SUB && engine.ExprString(be.X) == "math.MaxInt64" && same(be.Y, x) {
						ok = true
					}
				}
			}
			c.Check("checked-arith", f.Name+" native int64 arithmetic `"+engine.ExprString(x)+" … "+engine.ExprString(y)+"`", node.Pos(), ok, "int64 arithmetic in the ledger must use overflow.Add64p/Sub64p or be bounded by `y > overflow.Sub64p(math.MaxInt64, x)`")
		})
	}
	c.Check("checked-arith", "overflow helper call sites", token.NoPos, nOverflow >= 7, "found "+cjItoa(nOverflow)+" overflow.* calls in PrivateLedger methods; 7 confirmed")
	c.Floor("checked-arith", nca, 1)

	// ---- who-may-write
	tables := map[string][]string{
		"totalSupply": {"Mint", "Burn"},
		"balances":    {"Transfer", "Mint", "Burn"},
		"allowances":  {"SpendAllowance", "Approve"},
	}
	refs := map[string][]engine.Ref{}
	for _, f := range p.Funcs() {
		for _, w := range c51DirectWrites(f) {
			refs[w.what] = append(refs[w.what], engine.Ref{Fn: f})
		}
	}
	// a private helper all of whose callers are allowed writers is not a new writer
	for what, allowed := range tables {
		var full []string
		for _, a := range allowed {
			full = append(full, L+a)
		}
		bad := p.UnexpectedCallers(refs[what], full)
		c.Check("who-may-write", what, token.NoPos, len(bad) == 0 && len(refs[what]) > 0, "unexpected writers: "+join(bad)+"; allowed: "+join(allowed))
	}
	c.Floor("who-may-write", len(tables), 3)

	// ---- spend-then-move
	ns := 0
	if f := fns["TransferFrom"]; f != nil {
		info := f.Info()
		g := f.Graph()
		sp := f.CallsTo(L + "SpendAllowance")
		tr := f.CallsTo(L + "Transfer")
		ns++
		ok := len(sp) == 1 && len(tr) == 1
		why := "expected exactly one SpendAllowance and one Transfer call"
		if ok {
			a, b := sp[0].Call.Args, tr[0].Call.Args
			same := func(x, y ast.Expr) bool {
				ox, oy := engine.ObjOf(info, x), engine.ObjOf(info, y)
				return ox != nil && ox == oy
			}
			ok = len(a) == 3 && len(b) == 3 && same(a[0], b[0]) && same(a[2], b[2]) &&
				engine.ObjOf(info, a[0]) == paramObj(f, 0) && engine.ObjOf(info, a[1]) == paramObj(f, 1) && engine.ObjOf(info, a[2]) == paramObj(f, 3) && engine.ObjOf(info, b[1]) == paramObj(f, 2)
			why = "Transfer(owner, to, amount) must move exactly the (owner, amount) whose allowance SpendAllowance(owner, spender, amount) spent"
			if ok {
				r := g.CheckedGuard(sp[0], tr[0])
				ok = r.OK && len(engine.Atoms(r.Cond)) == 1
				if !ok {
					why = "Transfer is not gated by SpendAllowance's nil error"
				}
			}
		}
		c.Check("spend-then-move", f.Name, f.Pos(), ok, why)
	}
	c.Floor("spend-then-move", ns, 1)

	// ---- teller-identity
	nt := 0
	T := c51Pkg + ".(*fnTeller)."
	for _, it := range []struct {
		m   string
		pos int
	}{{"Transfer", 0}, {"Approve", 0}, {"TransferFrom", 1}} {
		f := c.MustFunc(T + it.m)
		if f == nil {
			continue
		}
		info := f.Info()
		g := f.Graph()
		calls := f.CallsTo(L + it.m)
		nt++
		if len(calls) != 1 {
			c.Check("teller-identity", f.Name, f.Pos(), false, "expected one call of the ledger operation")
			continue
		}
		call := calls[0]
		// the authenticated account
		var acct types.Object
		var acctSite *engine.Site
		for _, s := range f.Calls() {
			if strings.HasSuffix(s.FunText(), ".accountFn") {
				if objs := cjAssignedFrom(f, s); len(objs) == 1 {
					acct, acctSite = objs[0], s
				}
			}
		}
		okArg := acct != nil && len(call.Call.Args) > it.pos && engine.ObjOf(info, call.Call.Args[it.pos]) == acct
		// the other arguments are the teller's own parameters, in order
		k := 0
		for i, a := range call.Call.Args {
			if i == it.pos {
				continue
			}
			// parameters after (_ int, rlm realm)
			if po := paramObj(f, 2+k); po == nil || engine.ObjOf(info, a) != po {
				okArg = false
			}
			k++
		}
		c.Check("teller-identity", f.Name+" passes the authenticated account", call.Pos(), okArg, "the ledger call must receive accountFn(…) as the acting account and the teller's own parameters otherwise")
		// gates: accountFn == nil → ErrReadonly ; !rlm.IsCurrent() → ErrSpoofedRealm
		okRO, okCur := false, false
		target := call
		if acctSite != nil {
			target = acctSite
		}
		for _, gt := range g.Gates(target) {
			t := engine.ExprString(gt.Cond)
			if !gt.OnTrue && strings.HasSuffix(t, ".accountFn == nil") {
				okRO = true
			}
			if !gt.OnTrue && isNot(gt.Cond) && strings.HasSuffix(t, ".IsCurrent()") && engine.Mentions(info, gt.Cond, paramObj(f, 1)) {
				okCur = true
			}
		}
		nt++
		c.Check("teller-identity", f.Name+" readonly and realm tests first", call.Pos(), okRO && okCur, "accountFn == nil and !rlm.IsCurrent() must both return before the account is resolved")
	}
	c.Floor("teller-identity", nt, 6)
}

func cjItoa(n int) string { return strconv.Itoa(n) }

// c51DirectWrites lists the direct ledger writes of f: calls whose written
// selector ends in .balances.Set/.Remove or .allowances.Set/.Remove, and
// assignments to a totalSupply field.
func c51DirectWrites(f *engine.Fn) []c51Write {
	var out []c51Write
	for _, s := range f.Calls() {
		ft := s.FunText()
		for _, tree := range []string{"balances", "allowances"} {
			if strings.HasSuffix(ft, "."+tree+".Set") || strings.HasSuffix(ft, "."+tree+".Remove") {
				out = append(out, c51Write{site: s, what: tree, node: s.Call, direct: true})
			}
		}
	}
	engine.InspectBody(f, func(n ast.Node) {
		var lhs []ast.Expr
		switch x := n.(type) {
		case *ast.AssignStmt:
			lhs = x.Lhs
		case *ast.IncDecStmt:
			lhs = []ast.Expr{x.X}
		default:
			return
		}
		for _, l := range lhs {
			if se, ok := ast.Unparen(l).(*ast.SelectorExpr); ok && se.Sel.Name == "totalSupply" {
				if s := f.SiteOf(n); s != nil {
					out = append(out, c51Write{site: s, what: "totalSupply", node: n, direct: true})
				}
			}
		}
	})
	return out
}

// c51Last returns the last parameter (the amount of every ledger operation).
func c51Last(f *engine.Fn) types.Object {
	var last types.Object
	for i := 0; i < 8; i++ {
		if po := paramObj(f, i); po != nil {
			last = po
		}
	}
	return last
}

// c51DeepWrites lists the ledger writes of f including those performed by private helpers it calls
// (but not those of other ledger operations, which are treated as calls that may fail). The site is
// the statement of f through which the write happens; key is the tree key in f's own variables.
func c51DeepWrites(f *engine.Fn, ops map[*engine.Fn]bool) []c51Write {
	kind := func(fn *engine.Fn, n ast.Node) string {
		switch x := n.(type) {
		case *ast.CallExpr:
			ft := engine.ExprString(x.Fun)
			for _, tree := range []string{"balances", "allowances"} {
				if strings.HasSuffix(ft, "."+tree+".Set") || strings.HasSuffix(ft, "."+tree+".Remove") {
					return tree
				}
			}
		case *ast.AssignStmt:
			for _, l := range x.Lhs {
				if se, ok := ast.Unparen(l).(*ast.SelectorExpr); ok && se.Sel.Name == "totalSupply" {
					return "totalSupply"
				}
			}
		case *ast.IncDecStmt:
			if se, ok := ast.Unparen(x.X).(*ast.SelectorExpr); ok && se.Sel.Name == "totalSupply" {
				return "totalSupply"
			}
		}
		return ""
	}
	var out []c51Write
	for _, d := range f.DeepFind(2, func(fn *engine.Fn, n ast.Node) bool { return kind(fn, n) != "" }) {
		through := false
		for _, h := range d.Chain {
			if ops[h] {
				through = true
			}
		}
		if through {
			continue
		}
		w := c51Write{site: d.Outer, what: kind(d.Inner.Fn, d.Inner.Node), node: d.Outer.Node, direct: true}
		if call, ok := d.Inner.Node.(*ast.CallExpr); ok && len(call.Args) >= 1 {
			if e, in := cjChainArg(f, d, c51StripStringConv(call.Args[0])); in == f {
				w.key = e
			}
		}
		out = append(out, w)
	}
	return out
}

// c51StripStringConv removes a string(x) conversion (address -> string keys).
func c51StripStringConv(e ast.Expr) ast.Expr {
	if call, ok := ast.Unparen(e).(*ast.CallExpr); ok && len(call.Args) == 1 {
		if id, ok := call.Fun.(*ast.Ident); ok && id.Name == "string" {
			return call.Args[0]
		}
	}
	return e
}
