package checks

// helpers_treeG.go — shared machinery of the tree checks (C23, C24, C25, C26,
// C30): an SSA value-origin ("freshness") analysis for copy-on-write node
// types, and small CFG helpers on top of the engine.

import (
	"fmt"
	"go/ast"
	"go/token"
	"go/types"
	"os"
	"sort"
	"strings"

	"golang.org/x/tools/go/cfg"
	"golang.org/x/tools/go/ssa"
	"golang.org/x/tools/go/ssa/ssautil"

	"gnoverif/engine"
)

// ---------------------------------------------------------------------------
// R-FRESH: every store into node memory is on a value that is fresh in the
// storing function (allocated there, or returned by a clone/constructor), or
// on a parameter — in which case every in-package caller must pass a fresh
// value (checked transitively), or on a child slot of a fresh parent that the
// caller provably filled with a fresh clone (slot contracts).
// ---------------------------------------------------------------------------

type tgFreshCfg struct {
	Pkg          string            // module-relative package path
	NodeTypes    []string          // bare names of the copy-on-write struct types
	PartTypes    []string          // struct types stored by value inside nodes (pointer methods mutate node memory)
	ExemptFields map[string]string // "Type.field" -> reason (bookkeeping / memo fields, not version content)
	Producers    map[string][]int  // rendered function -> result indices that are fresh nodes
	CarrierType  string            // struct type carrying a fresh node in CarrierField ("splitResult")
	CarrierField string            // "right"
	CarrierProd  map[string][]int  // rendered function -> result indices that are carriers
	SlotField    string            // array field of in-memory children ("childNodes"); "" = no slot tracking
	SlotSetter   string            // rendered method that installs a child ("…(*InnerNode).setChild")
	DirtyGate    map[string]int    // rendered function (literals as Parent$N) -> parameter index whose writes are allowed behind a `nodeKey == nil` gate
	KeyField     string            // "nodeKey"
	KeyGetter    string            // method name reading it ("GetNodeKey"), "" if none
	EvictFields  map[string]bool   // "Type.field": storing nil drops an in-memory cache pointer
	EvictOK      map[string]string // rendered function -> reason nil-stores to EvictFields are allowed there without a gate
	ContentSlice map[string]bool   // "Type.field" whose element bytes must never be written in place
	Iface        string            // bare name of the node interface ("Node"), "" if none
	MemoFields   map[string]bool   // "Type.field": a memo that may be filled on any node, but only on the `field == nil` side of a test of it
}

type tgOriginKind int

const (
	tgFreshO tgOriginKind = iota
	tgParamO
	tgSlotO
	tgUnknownO
)

type tgOrigin struct {
	Kind   tgOriginKind
	Param  int       // tgParamO
	Parent ssa.Value // tgSlotO: the pointer whose slot array is read
	Index  ssa.Value // tgSlotO
	Why    string    // tgUnknownO
}

type tgSlotReq struct{ Parent, Idx, Off int }

type tgWrite struct {
	Instr ssa.Instruction
	Base  ssa.Value
	Field string // "Type.field" at node level, or "Type.*"
	IsNil bool   // the stored value is the nil constant
	Deep  bool   // element bytes of a content slice are written in place
}

type tgFresh struct {
	c        *engine.Ctx
	p        *engine.Prog
	cfg      tgFreshCfg
	pkg      *ssa.Package
	fns      []*ssa.Function
	name     map[*ssa.Function]string
	tracked  map[*types.Named]string // node + part types -> bare name
	isNode   map[*types.Named]bool
	contract map[*ssa.Function]map[int]bool
	slots    map[*ssa.Function]map[tgSlotReq]bool
	writes   map[*ssa.Function][]tgWrite
	changed  bool
	// results
	NWrites, NArgs, NSlots int
}

func tgNewFresh(c *engine.Ctx, p *engine.Prog, cfg tgFreshCfg) *tgFresh {
	a := &tgFresh{c: c, p: p, cfg: cfg, name: map[*ssa.Function]string{}, tracked: map[*types.Named]string{}, isNode: map[*types.Named]bool{},
		contract: map[*ssa.Function]map[int]bool{}, slots: map[*ssa.Function]map[tgSlotReq]bool{}, writes: map[*ssa.Function][]tgWrite{}}
	prog := p.SSA()
	pk := p.ByPath[engine.ModPrefix+cfg.Pkg]
	if pk == nil {
		c.Undecided("anchor", cfg.Pkg, "package not loaded")
		return nil
	}
	a.pkg = prog.Package(pk.Types)
	if a.pkg == nil {
		c.Undecided("anchor", cfg.Pkg, "no SSA package")
		return nil
	}
	for _, n := range cfg.NodeTypes {
		t := p.Named(cfg.Pkg + "." + n)
		if t == nil {
			c.Undecided("anchor", cfg.Pkg+"."+n, "node type not found")
			return nil
		}
		a.tracked[t] = n
		a.isNode[t] = true
	}
	for _, n := range cfg.PartTypes {
		t := p.Named(cfg.Pkg + "." + n)
		if t == nil {
			c.Undecided("anchor", cfg.Pkg+"."+n, "part type not found")
			return nil
		}
		a.tracked[t] = n
	}
	for fn := range ssautil.AllFunctions(prog) {
		if fn.Pkg != a.pkg || fn.Synthetic != "" || len(fn.Blocks) == 0 {
			continue
		}
		a.fns = append(a.fns, fn)
		a.name[fn] = tgFnName(fn)
	}
	sort.Slice(a.fns, func(i, j int) bool { return a.name[a.fns[i]] < a.name[a.fns[j]] })
	return a
}

func tgFnName(fn *ssa.Function) string {
	if fn == nil {
		return "<nil>"
	}
	if fn.Parent() != nil {
		root := fn
		for root.Parent() != nil {
			root = root.Parent()
		}
		suffix := fn.Name()
		if i := strings.IndexByte(suffix, '$'); i >= 0 {
			suffix = suffix[i:]
		}
		return tgFnName(root) + suffix
	}
	if o, ok := fn.Object().(*types.Func); ok {
		return engine.FuncName(o)
	}
	return fn.String()
}

func tgDeref(t types.Type) types.Type {
	if p, ok := t.Underlying().(*types.Pointer); ok {
		return p.Elem()
	}
	return t
}

func (a *tgFresh) trackedName(t types.Type) (string, bool) {
	n, ok := types.Unalias(tgDeref(t)).(*types.Named)
	if !ok {
		return "", false
	}
	s, ok := a.tracked[n.Origin()]
	return s, ok
}

// nodeBase peels FieldAddr/IndexAddr from a store address up to the outermost
// pointer into tracked memory.
func (a *tgFresh) nodeBase(addr ssa.Value) (base ssa.Value, field string, deep bool, ok bool) {
	cur := addr
	for {
		switch v := cur.(type) {
		case *ssa.FieldAddr:
			if tn, is := a.trackedName(v.X.Type()); is {
				st := tgDeref(v.X.Type()).Underlying().(*types.Struct)
				base, field, ok = v.X, tn+"."+st.Field(v.Field).Name(), true
			}
			cur = v.X
			continue
		case *ssa.IndexAddr:
			// x[i] where x is a loaded slice: a write into the slice's shared backing array
			if ld, isLoad := v.X.(*ssa.UnOp); isLoad && ld.Op == token.MUL {
				if b, f, _, k := a.nodeBase(ld.X); k {
					return b, f, true, true
				}
				return nil, "", false, false
			}
			cur = v.X
			continue
		}
		break
	}
	if !ok {
		if tn, is := a.trackedName(addr.Type()); is {
			if _, isPtr := addr.Type().Underlying().(*types.Pointer); isPtr {
				return addr, tn + ".*", false, true
			}
		}
	}
	return base, field, false, ok
}

func tgIsNilConst(v ssa.Value) bool {
	c, ok := v.(*ssa.Const)
	return ok && c.Value == nil
}

func (a *tgFresh) collectWrites(fn *ssa.Function) []tgWrite {
	var out []tgWrite
	for _, b := range fn.Blocks {
		for _, in := range b.Instrs {
			switch x := in.(type) {
			case *ssa.Store:
				if base, f, deep, ok := a.nodeBase(x.Addr); ok {
					out = append(out, tgWrite{Instr: in, Base: base, Field: f, IsNil: tgIsNilConst(x.Val), Deep: deep})
				}
			case *ssa.Call:
				if bi, ok := x.Call.Value.(*ssa.Builtin); ok && (bi.Name() == "copy" || bi.Name() == "clear") && len(x.Call.Args) > 0 {
					dst := x.Call.Args[0]
					if sl, ok := dst.(*ssa.Slice); ok {
						if base, f, _, ok := a.nodeBase(sl.X); ok {
							out = append(out, tgWrite{Instr: in, Base: base, Field: f})
						} else if ld, isLoad := sl.X.(*ssa.UnOp); isLoad && ld.Op == token.MUL {
							if base, f, _, ok := a.nodeBase(ld.X); ok {
								out = append(out, tgWrite{Instr: in, Base: base, Field: f, Deep: true})
							}
						}
					} else if ld, isLoad := dst.(*ssa.UnOp); isLoad && ld.Op == token.MUL {
						if base, f, _, ok := a.nodeBase(ld.X); ok {
							out = append(out, tgWrite{Instr: in, Base: base, Field: f, Deep: true})
						}
					}
				}
			}
		}
	}
	return out
}

func (a *tgFresh) staticCallee(cc *ssa.CallCommon) *ssa.Function {
	if cc.IsInvoke() {
		return nil
	}
	switch v := cc.Value.(type) {
	case *ssa.Function:
		return v
	case *ssa.MakeClosure:
		f, _ := v.Fn.(*ssa.Function)
		return f
	}
	return nil
}

func (a *tgFresh) producerIdx(m map[string][]int, call *ssa.Call) ([]int, bool) {
	f := a.staticCallee(&call.Call)
	if f == nil {
		return nil, false
	}
	idx, ok := m[tgFnName(f)]
	return idx, ok
}

func tgHas(xs []int, i int) bool {
	if len(xs) == 0 {
		return i == 0
	}
	for _, x := range xs {
		if x == i {
			return true
		}
	}
	return false
}

func (a *tgFresh) roots(v ssa.Value, seen map[ssa.Value]bool) []tgOrigin {
	if seen[v] {
		return nil
	}
	seen[v] = true
	unk := func(f string, args ...any) []tgOrigin {
		return []tgOrigin{{Kind: tgUnknownO, Why: fmt.Sprintf(f, args...)}}
	}
	switch x := v.(type) {
	case *ssa.Alloc:
		return []tgOrigin{{Kind: tgFreshO}}
	case *ssa.Const:
		return []tgOrigin{{Kind: tgFreshO}}
	case *ssa.Parameter:
		for i, p := range x.Parent().Params {
			if p == x {
				return []tgOrigin{{Kind: tgParamO, Param: i}}
			}
		}
		return unk("parameter %s not found", x.Name())
	case *ssa.Call:
		if idx, ok := a.producerIdx(a.cfg.Producers, x); ok && tgHas(idx, 0) {
			return []tgOrigin{{Kind: tgFreshO}}
		}
		if f := a.staticCallee(&x.Call); f != nil {
			return unk("result of %s", tgFnName(f))
		}
		return unk("result of a dynamic call")
	case *ssa.Extract:
		switch t := x.Tuple.(type) {
		case *ssa.Call:
			if idx, ok := a.producerIdx(a.cfg.Producers, t); ok && tgHas(idx, x.Index) {
				return []tgOrigin{{Kind: tgFreshO}}
			}
			if f := a.staticCallee(&t.Call); f != nil {
				return unk("result #%d of %s", x.Index, tgFnName(f))
			}
			return unk("result of a dynamic call")
		case *ssa.TypeAssert:
			if x.Index == 0 {
				return a.roots(t.X, seen)
			}
		}
		return unk("tuple element")
	case *ssa.TypeAssert:
		return a.roots(x.X, seen)
	case *ssa.MakeInterface:
		return a.roots(x.X, seen)
	case *ssa.ChangeInterface:
		return a.roots(x.X, seen)
	case *ssa.ChangeType:
		return a.roots(x.X, seen)
	case *ssa.FieldAddr:
		return a.roots(x.X, seen)
	case *ssa.IndexAddr:
		return a.roots(x.X, seen)
	case *ssa.Phi:
		var out []tgOrigin
		for _, e := range x.Edges {
			out = append(out, a.roots(e, seen)...)
		}
		return out
	case *ssa.UnOp:
		if x.Op != token.MUL {
			return unk("unary %s", x.Op)
		}
		switch ad := x.X.(type) {
		case *ssa.IndexAddr:
			if fa, ok := ad.X.(*ssa.FieldAddr); ok && a.cfg.SlotField != "" {
				if tn, is := a.trackedName(fa.X.Type()); is && a.isNodeName(tn) {
					st := tgDeref(fa.X.Type()).Underlying().(*types.Struct)
					if st.Field(fa.Field).Name() == a.cfg.SlotField {
						return []tgOrigin{{Kind: tgSlotO, Parent: fa.X, Index: ad.Index}}
					}
				}
			}
			return unk("element loaded from memory")
		case *ssa.FieldAddr:
			// carrier struct holding a fresh node
			if n, ok := types.Unalias(tgDeref(ad.X.Type())).(*types.Named); ok && a.cfg.CarrierType != "" && n.Obj().Name() == a.cfg.CarrierType && n.Obj().Pkg() == a.pkg.Pkg {
				st := n.Underlying().(*types.Struct)
				if st.Field(ad.Field).Name() == a.cfg.CarrierField {
					if al, ok := ad.X.(*ssa.Alloc); ok {
						return a.carrierAlloc(al, seen)
					}
				}
			}
			if tn, is := a.trackedName(ad.X.Type()); is {
				st := tgDeref(ad.X.Type()).Underlying().(*types.Struct)
				return unk("loaded from field %s.%s", tn, st.Field(ad.Field).Name())
			}
			return unk("loaded from a struct field")
		case *ssa.Alloc:
			// escaped local: union of everything stored into it
			var out []tgOrigin
			n := 0
			for _, r := range *ad.Referrers() {
				if st, ok := r.(*ssa.Store); ok && st.Addr == ad {
					n++
					out = append(out, a.roots(st.Val, seen)...)
				}
			}
			if n == 0 {
				return unk("local never assigned")
			}
			return out
		case *ssa.FreeVar:
			return unk("captured variable %s", ad.Name())
		}
		return unk("loaded from memory")
	case *ssa.FreeVar:
		return unk("captured variable %s", x.Name())
	}
	return unk("%T", v)
}

func (a *tgFresh) isNodeName(bare string) bool {
	for _, n := range a.cfg.NodeTypes {
		if n == bare {
			return true
		}
	}
	return false
}

// carrierAlloc: a local carrier struct; every whole-struct store into it must
// come from a carrier producer.
func (a *tgFresh) carrierAlloc(al *ssa.Alloc, seen map[ssa.Value]bool) []tgOrigin {
	n := 0
	for _, r := range *al.Referrers() {
		switch st := r.(type) {
		case *ssa.Store:
			if st.Addr != al {
				continue
			}
			n++
			ex, ok := st.Val.(*ssa.Extract)
			if !ok {
				return []tgOrigin{{Kind: tgUnknownO, Why: "carrier assigned from a non-producer"}}
			}
			call, ok := ex.Tuple.(*ssa.Call)
			if !ok {
				return []tgOrigin{{Kind: tgUnknownO, Why: "carrier assigned from a non-producer"}}
			}
			idx, ok := a.producerIdx(a.cfg.CarrierProd, call)
			if !ok || !tgHas(idx, ex.Index) {
				return []tgOrigin{{Kind: tgUnknownO, Why: "carrier assigned from a non-producer"}}
			}
		case *ssa.FieldAddr:
			for _, rr := range *st.Referrers() {
				if s2, ok := rr.(*ssa.Store); ok && s2.Addr == st {
					tst := tgDeref(al.Type()).Underlying().(*types.Struct)
					if tst.Field(st.Field).Name() == a.cfg.CarrierField {
						for _, o := range a.roots(s2.Val, seen) {
							if o.Kind != tgFreshO {
								return []tgOrigin{{Kind: tgUnknownO, Why: "carrier field overwritten with a non-fresh node"}}
							}
						}
					}
				}
			}
		}
	}
	if n == 0 {
		return []tgOrigin{{Kind: tgUnknownO, Why: "carrier never assigned"}}
	}
	return []tgOrigin{{Kind: tgFreshO}}
}

// normIdx normalises an index value to base + constant offset.
func tgNormIdx(v ssa.Value) (ssa.Value, int, bool) {
	off := 0
	for i := 0; i < 8; i++ {
		switch x := v.(type) {
		case *ssa.BinOp:
			if c, ok := x.Y.(*ssa.Const); ok && c.Value != nil && (x.Op == token.ADD || x.Op == token.SUB) {
				k := int(c.Int64())
				if x.Op == token.SUB {
					k = -k
				}
				off += k
				v = x.X
				continue
			}
			if c, ok := x.X.(*ssa.Const); ok && c.Value != nil && x.Op == token.ADD {
				off += int(c.Int64())
				v = x.Y
				continue
			}
			return nil, 0, false
		case *ssa.Convert:
			v = x.X
			continue
		case *ssa.ChangeType:
			v = x.X
			continue
		}
		break
	}
	return v, off, true
}

func tgParamIndex(v ssa.Value) int {
	p, ok := v.(*ssa.Parameter)
	if !ok {
		return -1
	}
	for i, q := range p.Parent().Params {
		if q == p {
			return i
		}
	}
	return -1
}

// dirtyBlocks returns the blocks in which `param.nodeKey == nil` is known to
// hold (dominated by the nil-side successor of a test of the key), and those
// in which it is known to be non-nil.
func (a *tgFresh) keyGateBlocks(fn *ssa.Function, param int) (dirty, persisted []*ssa.BasicBlock) {
	return a.fieldGateBlocks(fn, param, a.cfg.KeyField, a.cfg.KeyGetter)
}

// fieldGateBlocks is keyGateBlocks for an arbitrary pointer/slice field of the parameter.
func (a *tgFresh) fieldGateBlocks(fn *ssa.Function, param int, keyField, keyGetter string) (dirty, persisted []*ssa.BasicBlock) {
	if param < 0 || param >= len(fn.Params) {
		return
	}
	pv := fn.Params[param]
	isKeyOf := func(v ssa.Value) bool {
		switch x := v.(type) {
		case *ssa.UnOp:
			if x.Op != token.MUL {
				return false
			}
			fa, ok := x.X.(*ssa.FieldAddr)
			if !ok {
				return false
			}
			st, ok := tgDeref(fa.X.Type()).Underlying().(*types.Struct)
			if !ok || st.Field(fa.Field).Name() != keyField {
				return false
			}
			for _, o := range a.roots(fa.X, map[ssa.Value]bool{}) {
				if o.Kind != tgParamO || o.Param != param {
					return false
				}
			}
			return true
		case *ssa.Call:
			if keyGetter == "" {
				return false
			}
			cc := &x.Call
			if cc.IsInvoke() {
				return cc.Method.Name() == keyGetter && cc.Value == ssa.Value(pv)
			}
			if f := a.staticCallee(cc); f != nil && f.Name() == keyGetter && len(cc.Args) > 0 {
				for _, o := range a.roots(cc.Args[0], map[ssa.Value]bool{}) {
					if o.Kind != tgParamO || o.Param != param {
						return false
					}
				}
				return true
			}
		}
		return false
	}
	for _, b := range fn.Blocks {
		if len(b.Instrs) == 0 {
			continue
		}
		ifi, ok := b.Instrs[len(b.Instrs)-1].(*ssa.If)
		if !ok {
			continue
		}
		bo, ok := ifi.Cond.(*ssa.BinOp)
		if !ok || (bo.Op != token.NEQ && bo.Op != token.EQL) {
			continue
		}
		var other ssa.Value
		switch {
		case isKeyOf(bo.X):
			other = bo.Y
		case isKeyOf(bo.Y):
			other = bo.X
		default:
			continue
		}
		if !tgIsNilConst(other) {
			continue
		}
		nilSide, nonNil := b.Succs[0], b.Succs[1]
		if bo.Op == token.NEQ {
			nilSide, nonNil = b.Succs[1], b.Succs[0]
		}
		if len(nilSide.Preds) == 1 {
			dirty = append(dirty, nilSide)
		}
		if len(nonNil.Preds) == 1 {
			persisted = append(persisted, nonNil)
		}
	}
	return
}

func tgDominatedByAny(bs []*ssa.BasicBlock, b *ssa.BasicBlock) bool {
	for _, d := range bs {
		if d.Dominates(b) {
			return true
		}
	}
	return false
}

func (a *tgFresh) addContract(fn *ssa.Function, i int) {
	if a.contract[fn] == nil {
		a.contract[fn] = map[int]bool{}
	}
	if !a.contract[fn][i] {
		a.contract[fn][i] = true
		a.changed = true
	}
}

func (a *tgFresh) addSlot(fn *ssa.Function, r tgSlotReq) {
	if a.slots[fn] == nil {
		a.slots[fn] = map[tgSlotReq]bool{}
	}
	if !a.slots[fn][r] {
		a.slots[fn][r] = true
		a.changed = true
	}
}

type tgVerdict struct {
	ok  bool
	why string
}

// judgeValue decides whether writing through v inside fn is allowed; it may
// extend fn's contracts (parameters / slots the callers must provide fresh).
func (a *tgFresh) judgeValue(fn *ssa.Function, v ssa.Value, at ssa.Instruction, allowGate bool) tgVerdict {
	rs := a.roots(v, map[ssa.Value]bool{})
	if len(rs) == 0 {
		return tgVerdict{false, "value has no resolvable origin"}
	}
	var notes []string
	for _, o := range rs {
		switch o.Kind {
		case tgFreshO:
			notes = append(notes, "fresh")
		case tgParamO:
			if gp, isGate := a.cfg.DirtyGate[a.name[fn]]; allowGate && isGate && gp == o.Param {
				dirty, _ := a.keyGateBlocks(fn, gp)
				if tgDominatedByAny(dirty, at.Block()) {
					notes = append(notes, "unsaved node (behind the "+a.cfg.KeyField+"==nil gate)")
					continue
				}
				return tgVerdict{false, "write through parameter " + fn.Params[o.Param].Name() + " is not behind the `" + a.cfg.KeyField + " == nil` gate"}
			}
			a.addContract(fn, o.Param)
			notes = append(notes, "parameter "+fn.Params[o.Param].Name()+" (callers checked)")
		case tgSlotO:
			// parent must itself be param/fresh, index must normalise to param+k
			pp := -1
			for _, po := range a.roots(o.Parent, map[ssa.Value]bool{}) {
				if po.Kind != tgParamO {
					return tgVerdict{false, "child slot of a parent that is not a parameter"}
				}
				if pp >= 0 && pp != po.Param {
					return tgVerdict{false, "child slot of an ambiguous parent"}
				}
				pp = po.Param
			}
			base, off, ok := tgNormIdx(o.Index)
			qi := tgParamIndex(base)
			if !ok || qi < 0 || pp < 0 {
				return tgVerdict{false, "child slot index is not parameter+constant"}
			}
			a.addSlot(fn, tgSlotReq{pp, qi, off})
			notes = append(notes, fmt.Sprintf("child slot %s.%s[%s%+d] (callers checked)", fn.Params[pp].Name(), a.cfg.SlotField, fn.Params[qi].Name(), off))
		default:
			return tgVerdict{false, "node is not fresh here: " + o.Why}
		}
	}
	return tgVerdict{true, strings.Join(tgUniq(notes), "; ")}
}

func tgUniq(xs []string) []string {
	m := map[string]bool{}
	var out []string
	for _, x := range xs {
		if !m[x] {
			m[x] = true
			out = append(out, x)
		}
	}
	return out
}

// Run computes contracts to a fixpoint and then emits obligations.
func (a *tgFresh) Run(ruleWrite, ruleArg, ruleSlot, ruleBytes string) {
	for _, fn := range a.fns {
		a.writes[fn] = a.collectWrites(fn)
	}
	for iter := 0; iter < 20; iter++ {
		a.changed = false
		a.pass(false, ruleWrite, ruleArg, ruleSlot, ruleBytes)
		if !a.changed {
			break
		}
	}
	a.pass(true, ruleWrite, ruleArg, ruleSlot, ruleBytes)
}

func (a *tgFresh) exemptField(f string) bool {
	_, ok := a.cfg.ExemptFields[f]
	return ok
}

func (a *tgFresh) pass(emit bool, ruleWrite, ruleArg, ruleSlot, ruleBytes string) {
	type agg struct {
		ok   bool
		why  []string
		pos  token.Pos
		seen bool
	}
	for _, fn := range a.fns {
		// ---- writes
		byField := map[string]*agg{}
		var order []string
		for _, w := range a.writes[fn] {
			if w.Deep {
				if emit && a.cfg.ContentSlice[w.Field] {
					a.c.Check(ruleBytes, a.name[fn]+" "+w.Field, w.Instr.Pos(), false, "bytes of a stored "+w.Field+" element are written in place (slices are shared between copy-on-write clones)")
				}
				continue
			}
			if a.exemptField(w.Field) {
				continue
			}
			var v tgVerdict
			if a.cfg.MemoFields[w.Field] {
				fname := w.Field[strings.IndexByte(w.Field, '.')+1:]
				allFresh, pi := true, -1
				for _, o := range a.roots(w.Base, map[ssa.Value]bool{}) {
					if o.Kind != tgFreshO {
						allFresh = false
					}
					if o.Kind == tgParamO {
						pi = o.Param
					}
				}
				empty, _ := a.fieldGateBlocks(fn, pi, fname, "")
				switch {
				case allFresh:
					v = tgVerdict{true, "fresh"}
				case pi >= 0 && tgDominatedByAny(empty, w.Instr.Block()):
					v = tgVerdict{true, "memo filled only when empty (behind the `" + fname + " == nil` test)"}
				default:
					v = tgVerdict{false, "memo field " + w.Field + " is overwritten on a node that is not fresh and not behind a `" + fname + " != nil → return` test"}
				}
			} else if w.IsNil && a.cfg.EvictFields[w.Field] {
				// dropping an in-memory cache pointer: allowed on persisted nodes or in listed functions
				if _, ok := a.cfg.EvictOK[a.name[fn]]; ok {
					v = tgVerdict{true, "cache pointer dropped: " + a.cfg.EvictOK[a.name[fn]]}
				} else {
					rs := a.roots(w.Base, map[ssa.Value]bool{})
					pi := -1
					for _, o := range rs {
						if o.Kind == tgParamO {
							pi = o.Param
						}
					}
					_, pers := a.keyGateBlocks(fn, pi)
					if pi >= 0 && tgDominatedByAny(pers, w.Instr.Block()) {
						v = tgVerdict{true, "cache pointer dropped on a persisted node (" + a.cfg.KeyField + " != nil)"}
					} else {
						v = a.judgeValue(fn, w.Base, w.Instr, true)
					}
				}
			} else {
				v = a.judgeValue(fn, w.Base, w.Instr, true)
			}
			g := byField[w.Field]
			if g == nil {
				g = &agg{ok: true, pos: w.Instr.Pos()}
				byField[w.Field] = g
				order = append(order, w.Field)
			}
			if !v.ok {
				if g.ok {
					g.pos = w.Instr.Pos()
				}
				g.ok = false
			}
			g.why = append(g.why, v.why)
		}
		if emit {
			for _, f := range order {
				g := byField[f]
				why := tgUniq(g.why)
				if !g.ok {
					var bad []string
					for _, w := range why {
						if strings.Contains(w, "not ") || strings.Contains(w, "ambiguous") || strings.Contains(w, "no resolvable") {
							bad = append(bad, w)
						}
					}
					if len(bad) > 0 {
						why = bad
					}
				}
				a.NWrites++
				a.c.Check(ruleWrite, a.name[fn]+" writes "+f, g.pos, g.ok, strings.Join(why, " | "))
			}
		}
		// ---- calls
		for _, b := range fn.Blocks {
			for _, in := range b.Instrs {
				var cc *ssa.CallCommon
				switch x := in.(type) {
				case *ssa.Call:
					cc = &x.Call
				case *ssa.Defer:
					cc = &x.Call
				case *ssa.Go:
					cc = &x.Call
				default:
					continue
				}
				a.checkCall(fn, in, cc, emit, ruleArg, ruleSlot)
			}
		}
	}
}

func (a *tgFresh) calleesOf(cc *ssa.CallCommon) (fs []*ssa.Function, args []ssa.Value) {
	if cc.IsInvoke() {
		// interface dispatch on the node interface: every node type's method
		if a.cfg.Iface == "" {
			return nil, nil
		}
		n, ok := types.Unalias(cc.Value.Type()).(*types.Named)
		if !ok || n.Obj().Name() != a.cfg.Iface || n.Obj().Pkg() != a.pkg.Pkg {
			return nil, nil
		}
		prog := a.pkg.Prog
		for t := range a.isNode {
			ms := prog.MethodSets.MethodSet(types.NewPointer(t))
			if sel := ms.Lookup(a.pkg.Pkg, cc.Method.Name()); sel != nil {
				if f := prog.MethodValue(sel); f != nil {
					// wrappers delegate to the declared method
					if f.Synthetic != "" {
						if o, ok := sel.Obj().(*types.Func); ok {
							if d := prog.FuncValue(o); d != nil {
								f = d
							}
						}
					}
					fs = append(fs, f)
				}
			}
		}
		return fs, append([]ssa.Value{cc.Value}, cc.Args...)
	}
	if f := a.staticCallee(cc); f != nil && f.Pkg == a.pkg {
		return []*ssa.Function{f}, cc.Args
	}
	return nil, nil
}

func (a *tgFresh) checkCall(fn *ssa.Function, in ssa.Instruction, cc *ssa.CallCommon, emit bool, ruleArg, ruleSlot string) {
	fs, args := a.calleesOf(cc)
	for _, g := range fs {
		var idxs []int
		for i := range a.contract[g] {
			idxs = append(idxs, i)
		}
		sort.Ints(idxs)
		for _, i := range idxs {
			if i >= len(args) {
				continue
			}
			v := a.judgeValue(fn, args[i], in, true)
			if emit {
				a.NArgs++
				a.c.Check(ruleArg, a.name[fn]+" -> "+a.name[g]+"("+g.Params[i].Name()+")", in.Pos(), v.ok, v.why)
			}
		}
		var reqs []tgSlotReq
		for r := range a.slots[g] {
			reqs = append(reqs, r)
		}
		sort.Slice(reqs, func(i, j int) bool {
			if reqs[i].Off != reqs[j].Off {
				return reqs[i].Off < reqs[j].Off
			}
			return reqs[i].Idx < reqs[j].Idx
		})
		for _, r := range reqs {
			if r.Parent >= len(args) || r.Idx >= len(args) {
				continue
			}
			v := a.judgeSlot(fn, in, args[r.Parent], args[r.Idx], r.Off)
			if emit {
				a.NSlots++
				a.c.Check(ruleSlot, fmt.Sprintf("%s -> %s slot[%s%+d]", a.name[fn], a.name[g], g.Params[r.Idx].Name(), r.Off), in.Pos(), v.ok, v.why)
			}
		}
	}
}

// judgeSlot: the caller must have installed a fresh clone into
// parent.<SlotField>[idx+off] before this call (a dominating call of the slot
// setter with an equal normalised index and a fresh child), or pass the
// obligation on to its own callers.
func (a *tgFresh) judgeSlot(fn *ssa.Function, at ssa.Instruction, parent, idx ssa.Value, off int) tgVerdict {
	base, k, ok := tgNormIdx(idx)
	if !ok {
		return tgVerdict{false, "slot index is not base+constant"}
	}
	k += off
	for _, b := range fn.Blocks {
		for pos, in := range b.Instrs {
			call, ok := in.(*ssa.Call)
			if !ok {
				continue
			}
			f := a.staticCallee(&call.Call)
			if f == nil || tgFnName(f) != a.cfg.SlotSetter || len(call.Call.Args) < 3 {
				continue
			}
			if call.Call.Args[0] != parent {
				continue
			}
			b2, k2, ok := tgNormIdx(call.Call.Args[1])
			if !ok || b2 != base || k2 != k {
				continue
			}
			// dominance
			if b == at.Block() {
				ati := -1
				for j, x := range b.Instrs {
					if x == at {
						ati = j
					}
				}
				if pos >= ati {
					continue
				}
			} else if !b.Dominates(at.Block()) {
				continue
			}
			fresh := true
			for _, o := range a.roots(call.Call.Args[2], map[ssa.Value]bool{}) {
				if o.Kind != tgFreshO {
					fresh = false
				}
			}
			if fresh {
				return tgVerdict{true, "slot filled by a dominating " + a.cfg.SlotSetter + " with a fresh clone"}
			}
			return tgVerdict{false, "slot is filled by " + a.cfg.SlotSetter + " with a node that is not a fresh clone"}
		}
	}
	// pass on to callers
	pp := -1
	for _, po := range a.roots(parent, map[ssa.Value]bool{}) {
		if po.Kind != tgParamO {
			return tgVerdict{false, "no dominating " + a.cfg.SlotSetter + "(…, fresh clone) for this slot and the parent is not a parameter"}
		}
		pp = po.Param
	}
	qi := tgParamIndex(base)
	if pp < 0 || qi < 0 {
		return tgVerdict{false, "no dominating " + a.cfg.SlotSetter + "(…, fresh clone) for this slot"}
	}
	a.addSlot(fn, tgSlotReq{pp, qi, k})
	return tgVerdict{true, fmt.Sprintf("required of the callers: %s[%s%+d] fresh", a.cfg.SlotField, fn.Params[qi].Name(), k)}
}

// ContractFuncs lists the functions that require a fresh argument, rendered
// "name(param,…)".
func (a *tgFresh) ContractFuncs() []string {
	var out []string
	for fn, m := range a.contract {
		if len(m) == 0 {
			continue
		}
		var ps []string
		var idx []int
		for i := range m {
			idx = append(idx, i)
		}
		sort.Ints(idx)
		for _, i := range idx {
			ps = append(ps, fn.Params[i].Name())
		}
		out = append(out, a.name[fn]+"("+strings.Join(ps, ",")+")")
	}
	sort.Strings(out)
	return out
}

// ContractNames returns the bare rendered names of functions with a contract.
func (a *tgFresh) ContractNames() []string {
	var out []string
	for fn, m := range a.contract {
		if len(m) > 0 || len(a.slots[fn]) > 0 {
			out = append(out, a.name[fn])
		}
	}
	sort.Strings(out)
	return out
}

// ---------------------------------------------------------------------------
// CFG helpers on the engine's graph
// ---------------------------------------------------------------------------

// tgAfterMustPass: every path from site `from` to a return whose statement
// satisfies isTarget passes one of the sites `via` (after `from`).
// Returns the offending return statement, if any.
func tgAfterMustPass(f *engine.Fn, from *engine.Site, via []*engine.Site, isTarget func(*ast.ReturnStmt) bool) (bool, *ast.ReturnStmt) {
	g := f.Graph()
	viaIn := func(b *cfg.Block, afterIdx int, afterOrd int) bool {
		for _, s := range via {
			if s.Deferred || s.InGo || s.Block != b {
				continue
			}
			if s.Idx > afterIdx || (s.Idx == afterIdx && s.Ord > afterOrd) {
				return true
			}
		}
		return false
	}
	// same block after from
	if viaIn(from.Block, from.Idx, from.Ord) {
		return true, nil
	}
	seen := map[*cfg.Block]bool{}
	var bad *ast.ReturnStmt
	var walk func(b *cfg.Block, first bool)
	walk = func(b *cfg.Block, first bool) {
		if bad != nil {
			return
		}
		if !first {
			if seen[b] {
				return
			}
			seen[b] = true
			if viaIn(b, -1, -1) {
				// a via site anywhere in the block: the return (last node) comes after it
				return
			}
		}
		if r := b.Return(); r != nil && isTarget(r) {
			bad = r
			return
		}
		for _, s := range b.Succs {
			walk(s, false)
		}
	}
	walk(from.Block, true)
	_ = g
	return bad == nil, bad
}

// tgReturnsNilErr reports whether the last result of the return statement is
// the nil identifier (a success return). Bare returns are not success returns.
func tgReturnsNilErr(r *ast.ReturnStmt) bool {
	if len(r.Results) == 0 {
		return false
	}
	return isNil(r.Results[len(r.Results)-1])
}

// tgFieldAssigns returns the assignment sites in f (not in nested literals)
// whose left-hand side is exactly <recv>.<field> for the given struct field.
func tgFieldAssigns(f *engine.Fn, field *types.Var) []*engine.Site {
	var out []*engine.Site
	if field == nil {
		return nil
	}
	info := f.Info()
	engine.InspectBody(f, func(n ast.Node) {
		as, ok := n.(*ast.AssignStmt)
		if !ok {
			return
		}
		for _, l := range as.Lhs {
			if se, ok := ast.Unparen(l).(*ast.SelectorExpr); ok {
				if v, ok := info.Uses[se.Sel].(*types.Var); ok && v.Origin() == field.Origin() {
					if s := f.SiteOf(as); s != nil {
						out = append(out, s)
					}
				}
			}
		}
	})
	return out
}

// tgRHSFor returns the right-hand side assigned to <x>.<field> in an assignment.
func tgRHSFor(f *engine.Fn, as *ast.AssignStmt, field *types.Var) ast.Expr {
	info := f.Info()
	for i, l := range as.Lhs {
		if se, ok := ast.Unparen(l).(*ast.SelectorExpr); ok {
			if v, ok := info.Uses[se.Sel].(*types.Var); ok && v.Origin() == field.Origin() {
				if len(as.Rhs) == len(as.Lhs) {
					return as.Rhs[i]
				}
				if len(as.Rhs) == 1 {
					return as.Rhs[0]
				}
			}
		}
	}
	return nil
}

// tgReturnSites lists the return statements of f (not nested literals) as sites.
func tgReturnSites(f *engine.Fn) []*engine.Site {
	var out []*engine.Site
	engine.InspectBody(f, func(n ast.Node) {
		if r, ok := n.(*ast.ReturnStmt); ok {
			if s := f.SiteOf(r); s != nil {
				out = append(out, s)
			}
		}
	})
	return out
}

// tgSelField resolves e to a struct field if e is a selector of one.
func tgSelField(info *types.Info, e ast.Expr) *types.Var {
	se, ok := ast.Unparen(e).(*ast.SelectorExpr)
	if !ok {
		return nil
	}
	v, ok := info.Uses[se.Sel].(*types.Var)
	if !ok || !v.IsField() {
		return nil
	}
	return v.Origin()
}

// tgGateOn reports whether target is gated by a condition for which pred
// holds; returns the gate.
func tgGateOn(f *engine.Fn, target *engine.Site, pred func(ast.Expr) bool) (engine.Gate, bool) {
	for _, gt := range f.Graph().Gates(target) {
		if pred(gt.Cond) {
			return gt, true
		}
	}
	return engine.Gate{}, false
}

// tgMentionsField reports whether e mentions the struct field.
func tgMentionsField(info *types.Info, e ast.Node, field *types.Var) bool {
	if field == nil || e == nil {
		return false
	}
	found := false
	ast.Inspect(e, func(n ast.Node) bool {
		if id, ok := n.(*ast.Ident); ok {
			if v, ok := info.Uses[id].(*types.Var); ok && v.Origin() == field.Origin() {
				found = true
			}
		}
		return !found
	})
	return found
}

// tgCallersOf renders the root functions that reference the named functions,
// and reports references that are not direct calls.
func tgCallersOf(p *engine.Prog, pats ...string) (callers []string, nonCalls []string) {
	refs := p.RefsToFunc(pats...)
	for _, r := range refs {
		if !r.IsCall {
			n := "<package-level>"
			if r.Fn != nil {
				n = r.Fn.Root().Name
			}
			nonCalls = append(nonCalls, n)
		}
	}
	return engine.CallerSet(refs), nonCalls
}

func tgSetEq(a, b []string) (missing, extra []string) {
	return engine.SetDiff(b, a), engine.SetDiff(a, b)
}

// tgDebug prints every obligation when TG_DEBUG is set (authoring aid only).
func tgDebug(c *engine.Ctx) {
	if os.Getenv("TG_DEBUG") == "" {
		return
	}
	for _, o := range c.Obs {
		fmt.Printf("    [%v] %s | %s | %s\n", o.OK, o.ID(), o.Where, o.Detail)
	}
}

// ---------------------------------------------------------------------------
// Parallel arrays (tgPar*): several array fields of a node type are indexed
// by the same slot number (InnerNode: childNodes/children/childHashes/
// childSizes; LeafNode: keys/valueHashes/valueKeys). Whatever moves, clears
// or copies one of them must do the same to the others, at the same index and
// from the same source.
// ---------------------------------------------------------------------------

type tgParGroup struct {
	Type   string   // bare struct name
	Fields []string // parallel fields, first one is the reference
}

type tgParKind int

const (
	tgParElem  tgParKind = iota // dst ← same field of some node at some index
	tgParZero                   // dst ← nil / 0 / T{}
	tgParSize                   // dst ← nodeSize(e)
	tgParHash                   // dst ← e.Hash()
	tgParSet                    // dst ← e (a node value), incl. setChild
	tgParArith                  // ++ -- += -= or a sum of elements
	tgParOther
)

type tgParWrite struct {
	Field   string
	Base    string // canonical base ("l", "parent", or "local:allSizes")
	Idx     string // canonical index
	Kind    tgParKind
	SrcBase string // Elem
	SrcIdx  string // Elem
	Val     string // Size/Hash/Set: canonical text of e; if e resolves to a reference-field element: "@base[idx]"
	Op      token.Token
	Amount  string   // Arith: canonical amount ("@l[l.numKeys]" when it resolves to a size element)
	Reads   []string // Arith sum: "base[idx]" elements read
	Pos     token.Pos
	Text    string
}

type tgParCopy struct {
	DstField, SrcField string // group field names when the side is a node field ("" otherwise)
	DstBase, SrcBase   string
	DstLo, DstHi       string // "" = open
	SrcLo, SrcHi       string
	Pos                token.Pos
	Text               string
}

type tgParFn struct {
	f       *engine.Fn
	info    *types.Info
	defs    map[types.Object]ast.Expr // single-definition locals
	writes  []tgParWrite
	copies  []tgParCopy
	operand map[string]bool   // "base[idx]" of reference-field reads into locals / getChild / setChild
	alias   map[string]string // local slice canonical base -> group field it mirrors
}

func tgParAnalyse(f *engine.Fn, owner func(*types.Var) string, groups []tgParGroup) *tgParFn {
	a := &tgParFn{f: f, info: f.Info(), defs: map[types.Object]ast.Expr{}, operand: map[string]bool{}, alias: map[string]string{}}
	// single-definition locals (incl. type-switch bindings and comma-ok asserts)
	count := map[types.Object]int{}
	engine.InspectBody(f, func(n ast.Node) {
		switch x := n.(type) {
		case *ast.AssignStmt:
			for i, l := range x.Lhs {
				id, ok := l.(*ast.Ident)
				if !ok {
					continue
				}
				o := a.info.ObjectOf(id)
				if o == nil {
					continue
				}
				count[o]++
				if len(x.Lhs) == len(x.Rhs) && (x.Tok == token.DEFINE || x.Tok == token.ASSIGN) {
					a.defs[o] = x.Rhs[i]
				} else {
					count[o] += 10 // tuple assignment / op-assign: not a simple definition
				}
			}
		case *ast.IncDecStmt:
			if id, ok := x.X.(*ast.Ident); ok {
				if o := a.info.ObjectOf(id); o != nil {
					count[o] += 10
				}
			}
		case *ast.RangeStmt:
			for _, e := range []ast.Expr{x.Key, x.Value} {
				if id, ok := e.(*ast.Ident); ok {
					if o := a.info.ObjectOf(id); o != nil {
						count[o] += 10
					}
				}
			}
		case *ast.TypeSwitchStmt:
			if as, ok := x.Assign.(*ast.AssignStmt); ok && len(as.Lhs) == 1 && len(as.Rhs) == 1 {
				if ta, ok := as.Rhs[0].(*ast.TypeAssertExpr); ok {
					// each clause has its own implicit object
					for _, cl := range x.Body.List {
						if o := a.info.Implicits[cl]; o != nil {
							count[o]++
							a.defs[o] = ta.X
						}
					}
				}
			}
		}
	})
	for o, n := range count {
		if n != 1 {
			delete(a.defs, o)
		}
	}
	fieldOf := func(e ast.Expr) (field string, base ast.Expr, ok bool) {
		se, isSel := ast.Unparen(e).(*ast.SelectorExpr)
		if !isSel {
			return "", nil, false
		}
		v, isVar := a.info.Uses[se.Sel].(*types.Var)
		if !isVar || !v.IsField() {
			return "", nil, false
		}
		ow := owner(v)
		for _, g := range groups {
			if g.Type != ow {
				continue
			}
			for _, fl := range g.Fields {
				if fl == v.Name() {
					return ow + "." + fl, se.X, true
				}
			}
		}
		return "", nil, false
	}
	// element reference X.F[E] (after resolving locals)
	var elemOf func(e ast.Expr, depth int) (field, base, idx string, ok bool)
	elemOf = func(e ast.Expr, depth int) (string, string, string, bool) {
		e = ast.Unparen(e)
		if depth > 6 {
			return "", "", "", false
		}
		switch x := e.(type) {
		case *ast.Ident:
			if d, ok := a.defs[a.info.ObjectOf(x)]; ok {
				return elemOf(d, depth+1)
			}
		case *ast.TypeAssertExpr:
			return elemOf(x.X, depth+1)
		case *ast.IndexExpr:
			if fl, b, ok := fieldOf(x.X); ok {
				return fl, a.base(b), a.lin(x.Index), true
			}
			if id, ok := ast.Unparen(x.X).(*ast.Ident); ok {
				if fl, ok := a.alias["local:"+id.Name]; ok {
					return fl, "local:" + id.Name, a.lin(x.Index), true
				}
			}
		}
		return "", "", "", false
	}
	valText := func(e ast.Expr, ref map[string]bool) string {
		if fl, b, i, ok := elemOf(e, 0); ok && ref[fl] {
			return "@" + b + "[" + i + "]"
		}
		return a.canon(e)
	}
	refField := map[string]bool{}
	for _, g := range groups {
		refField[g.Type+"."+g.Fields[0]] = true
	}
	// pass 1: copies (also discovers local aliases)
	sliceParts := func(e ast.Expr) (field, base, lo, hi string, ok bool) {
		e = ast.Unparen(e)
		for d := 0; d < 4; d++ {
			if id, isId := e.(*ast.Ident); isId {
				if def, has := a.defs[a.info.ObjectOf(id)]; has {
					if _, isSl := ast.Unparen(def).(*ast.SliceExpr); isSl {
						e = ast.Unparen(def)
						continue
					}
				}
			}
			break
		}
		lo, hi = "0", ""
		if sl, isSl := e.(*ast.SliceExpr); isSl {
			if sl.Low != nil {
				lo = a.lin(sl.Low)
			}
			if sl.High != nil {
				hi = a.lin(sl.High)
			}
			e = ast.Unparen(sl.X)
		}
		if fl, b, isF := fieldOf(e); isF {
			return fl, a.base(b), lo, hi, true
		}
		if id, isId := e.(*ast.Ident); isId {
			return "", "local:" + id.Name, lo, hi, true
		}
		return "", "", "", "", false
	}
	engine.InspectBody(f, func(n ast.Node) {
		call, ok := n.(*ast.CallExpr)
		if !ok || !engine.IsBuiltinCall(a.info, call, "copy") || len(call.Args) != 2 {
			return
		}
		df, db, dlo, dhi, ok1 := sliceParts(call.Args[0])
		sf, sb, slo, shi, ok2 := sliceParts(call.Args[1])
		if !ok1 || !ok2 || (df == "" && sf == "") {
			return
		}
		a.copies = append(a.copies, tgParCopy{DstField: df, SrcField: sf, DstBase: db, SrcBase: sb, DstLo: dlo, DstHi: dhi, SrcLo: slo, SrcHi: shi, Pos: call.Pos(), Text: engine.ExprString(call)})
		if df == "" && sf != "" {
			a.alias[db] = sf
		}
		if sf == "" && df != "" {
			a.alias[sb] = df
		}
	})
	// pass 2: writes and operand reads
	classify := func(field string, rhs ast.Expr) tgParWrite {
		w := tgParWrite{Kind: tgParOther}
		r := ast.Unparen(rhs)
		if fl, b, i, ok := elemOf(r, 0); ok && fl == field {
			w.Kind, w.SrcBase, w.SrcIdx = tgParElem, b, i
			return w
		}
		// resolve a local once for the remaining shapes
		if id, ok := r.(*ast.Ident); ok {
			if id.Name == "nil" {
				w.Kind = tgParZero
				return w
			}
			if d, ok := a.defs[a.info.ObjectOf(id)]; ok {
				if _, isCall := ast.Unparen(d).(*ast.CallExpr); isCall {
					r = ast.Unparen(d)
				}
			}
		}
		switch x := r.(type) {
		case *ast.BasicLit:
			if x.Value == "0" {
				w.Kind = tgParZero
				return w
			}
		case *ast.CompositeLit:
			if len(x.Elts) == 0 {
				w.Kind = tgParZero
				return w
			}
		case *ast.CallExpr:
			if s := f.SiteOf(x); s != nil {
				switch {
				case strings.HasSuffix(s.CalleeName(), ".nodeSize") && len(x.Args) == 1:
					w.Kind, w.Val = tgParSize, valText(x.Args[0], refField)
					return w
				case strings.HasSuffix(s.CalleeName(), ".Hash") && len(x.Args) == 0:
					if se, ok := ast.Unparen(x.Fun).(*ast.SelectorExpr); ok {
						w.Kind, w.Val = tgParHash, valText(se.X, refField)
						return w
					}
				}
			}
		case *ast.BinaryExpr:
			if x.Op == token.ADD || x.Op == token.SUB {
				var reads []string
				all := true
				for _, opd := range []ast.Expr{x.X, x.Y} {
					if fl, b, i, ok := elemOf(opd, 0); ok && fl == field {
						reads = append(reads, b+"["+i+"]")
					} else {
						all = false
					}
				}
				if all {
					w.Kind, w.Op, w.Reads = tgParArith, x.Op, reads
					return w
				}
			}
		}
		if refField[field] {
			w.Kind, w.Val = tgParSet, valText(rhs, refField)
		}
		return w
	}
	dstOf := func(l ast.Expr) (field, base, idx string, ok bool) {
		ix, isIx := ast.Unparen(l).(*ast.IndexExpr)
		if !isIx {
			return "", "", "", false
		}
		if fl, b, isF := fieldOf(ix.X); isF {
			return fl, a.base(b), a.lin(ix.Index), true
		}
		if id, isId := ast.Unparen(ix.X).(*ast.Ident); isId {
			if fl, has := a.alias["local:"+id.Name]; has {
				return fl, "local:" + id.Name, a.lin(ix.Index), true
			}
		}
		return "", "", "", false
	}
	engine.InspectBody(f, func(n ast.Node) {
		switch x := n.(type) {
		case *ast.AssignStmt:
			for i, l := range x.Lhs {
				fl, b, ixs, ok := dstOf(l)
				if !ok {
					// operand read into a local: v := X.ref[E]
					if _, isId := l.(*ast.Ident); isId && len(x.Lhs) == len(x.Rhs) {
						if ix, isIx := ast.Unparen(x.Rhs[i]).(*ast.IndexExpr); isIx {
							if rf, rb, isF := fieldOf(ix.X); isF && refField[rf] {
								a.operand[a.base(rb)+"["+a.lin(ix.Index)+"]"] = true
							}
						}
					}
					continue
				}
				var w tgParWrite
				switch {
				case x.Tok == token.ADD_ASSIGN || x.Tok == token.SUB_ASSIGN:
					w = tgParWrite{Kind: tgParArith, Op: x.Tok}
					if len(x.Rhs) == len(x.Lhs) {
						if sf, sb, si, ok := elemOf(x.Rhs[i], 0); ok && sf == fl {
							w.Amount = "@" + sb + "[" + si + "]"
						} else {
							w.Amount = a.canon(x.Rhs[i])
						}
					}
				case len(x.Rhs) == len(x.Lhs):
					w = classify(fl, x.Rhs[i])
				default:
					w = tgParWrite{Kind: tgParOther}
				}
				w.Field, w.Base, w.Idx, w.Pos, w.Text = fl, b, ixs, x.Pos(), engine.ExprString(l)
				a.writes = append(a.writes, w)
			}
		case *ast.IncDecStmt:
			if fl, b, ixs, ok := dstOf(x.X); ok {
				a.writes = append(a.writes, tgParWrite{Field: fl, Base: b, Idx: ixs, Kind: tgParArith, Op: x.Tok, Amount: "1", Pos: x.Pos(), Text: engine.ExprString(x.X)})
			}
		case *ast.CallExpr:
			se, ok := ast.Unparen(x.Fun).(*ast.SelectorExpr)
			if !ok {
				return
			}
			s := f.SiteOf(x)
			if s == nil {
				return
			}
			switch {
			case strings.HasSuffix(s.CalleeName(), ").setChild") && len(x.Args) == 2:
				b, ixs := a.base(se.X), a.lin(x.Args[0])
				a.operand[b+"["+ixs+"]"] = true
				for _, g := range groups {
					if g.Type == "InnerNode" {
						a.writes = append(a.writes, tgParWrite{Field: g.Type + "." + g.Fields[0], Base: b, Idx: ixs, Kind: tgParSet, Val: valText(x.Args[1], refField), Pos: x.Pos(), Text: engine.ExprString(x)})
					}
				}
			case strings.HasSuffix(s.CalleeName(), ").getChild") && len(x.Args) == 1:
				a.operand[a.base(se.X)+"["+a.lin(x.Args[0])+"]"] = true
			}
		}
	})
	return a
}

func (a *tgParFn) base(e ast.Expr) string {
	e = ast.Unparen(e)
	if id, ok := e.(*ast.Ident); ok {
		return id.Name
	}
	return engine.ExprString(e)
}

// canon renders a value expression after resolving single-definition locals
// that are plain aliases (idents, type assertions, selectors).
func (a *tgParFn) canon(e ast.Expr) string {
	for d := 0; d < 6; d++ {
		e = ast.Unparen(e)
		switch x := e.(type) {
		case *ast.TypeAssertExpr:
			e = x.X
			continue
		case *ast.Ident:
			if def, ok := a.defs[a.info.ObjectOf(x)]; ok {
				switch ast.Unparen(def).(type) {
				case *ast.Ident, *ast.TypeAssertExpr, *ast.SelectorExpr, *ast.IndexExpr:
					e = def
					continue
				}
			}
		}
		break
	}
	return engine.ExprString(e)
}

// lin normalises an integer index expression to a canonical linear form
// (sum of symbolic terms plus a constant), resolving single-definition
// locals, conversions, constants and NumChildren() (= numKeys + 1).
func (a *tgParFn) lin(e ast.Expr) string {
	terms := map[string]int{}
	k := 0
	var add func(e ast.Expr, sign, depth int)
	add = func(e ast.Expr, sign, depth int) {
		e = ast.Unparen(e)
		if tv, ok := a.info.Types[e]; ok && tv.Value != nil {
			if v, isInt := constantInt(tv); isInt {
				k += sign * v
				return
			}
		}
		if depth > 8 {
			terms[engine.ExprString(e)] += sign
			return
		}
		switch x := e.(type) {
		case *ast.Ident:
			if def, ok := a.defs[a.info.ObjectOf(x)]; ok {
				if t := a.info.TypeOf(def); t != nil {
					if b, isBasic := t.Underlying().(*types.Basic); isBasic && b.Info()&types.IsInteger != 0 {
						add(def, sign, depth+1)
						return
					}
				}
			}
			terms[x.Name] += sign
		case *ast.BinaryExpr:
			switch x.Op {
			case token.ADD:
				add(x.X, sign, depth+1)
				add(x.Y, sign, depth+1)
				return
			case token.SUB:
				add(x.X, sign, depth+1)
				add(x.Y, -sign, depth+1)
				return
			}
			terms[engine.ExprString(e)] += sign
		case *ast.CallExpr:
			if tv, ok := a.info.Types[x.Fun]; ok && tv.IsType() && len(x.Args) == 1 {
				add(x.Args[0], sign, depth+1)
				return
			}
			if se, ok := ast.Unparen(x.Fun).(*ast.SelectorExpr); ok && se.Sel.Name == "NumChildren" && len(x.Args) == 0 {
				terms[a.base(se.X)+".numKeys"] += sign
				k += sign
				return
			}
			terms[engine.ExprString(e)] += sign
		case *ast.SelectorExpr:
			terms[a.base(x.X)+"."+x.Sel.Name] += sign
		default:
			terms[engine.ExprString(e)] += sign
		}
	}
	add(e, 1, 0)
	var names []string
	for n, c := range terms {
		if c != 0 {
			names = append(names, n)
		}
	}
	sort.Strings(names)
	out := ""
	for _, n := range names {
		c := terms[n]
		switch {
		case c == 1:
			out += "+" + n
		case c == -1:
			out += "-" + n
		default:
			out += fmt.Sprintf("%+d*%s", c, n)
		}
	}
	if k != 0 || out == "" {
		out += fmt.Sprintf("%+d", k)
	}
	return strings.TrimPrefix(out, "+")
}

func constantInt(tv types.TypeAndValue) (int, bool) {
	if tv.Value == nil {
		return 0, false
	}
	s := tv.Value.ExactString()
	n, neg, any := 0, false, false
	for i, ch := range s {
		if i == 0 && ch == '-' {
			neg = true
			continue
		}
		if ch < '0' || ch > '9' {
			return 0, false
		}
		n = n*10 + int(ch-'0')
		any = true
	}
	if neg {
		n = -n
	}
	return n, any
}

// tgLinAddConst returns the canonical form of lin+k for a canonical lin string
// whose constant part is the trailing "+n"/"-n" (or the whole string).
func tgLinSplit(s string) (sym string, k int) {
	i := strings.LastIndexAny(s, "+-")
	if i < 0 {
		// pure constant or pure symbol
		n, neg, ok := 0, false, len(s) > 0
		for _, ch := range s {
			if ch < '0' || ch > '9' {
				ok = false
			}
			n = n*10 + int(ch-'0')
		}
		_ = neg
		if ok {
			return "", n
		}
		return s, 0
	}
	tail := s[i+1:]
	n, ok := 0, len(tail) > 0
	for _, ch := range tail {
		if ch < '0' || ch > '9' {
			ok = false
			break
		}
		n = n*10 + int(ch-'0')
	}
	if !ok {
		return s, 0
	}
	if s[i] == '-' {
		n = -n
	}
	return s[:i], n
}

// tgLinJoin is the inverse of tgLinSplit.
func tgLinJoin(sym string, k int) string {
	switch {
	case sym == "":
		return fmt.Sprintf("%d", k)
	case k == 0:
		return sym
	default:
		return fmt.Sprintf("%s%+d", sym, k)
	}
}

// tgParMentions: f mentions a field of one of the grouped node types or calls setChild (cheap pre-filter).
func tgParMentions(f *engine.Fn, owner func(*types.Var) string) bool {
	found := false
	info := f.Info()
	ast.Inspect(f.Body, func(n ast.Node) bool {
		if found {
			return false
		}
		if id, ok := n.(*ast.Ident); ok {
			if v, ok := info.Uses[id].(*types.Var); ok && v.IsField() && owner(v) != "" {
				found = true
			}
			if id.Name == "setChild" {
				found = true
			}
		}
		return true
	})
	return found
}

// ---------------------------------------------------------------------------
// Facts that hold at a site (robust against if/else ⇄ early-return, `a || b`
// split into consecutive ifs, swapped comparison operands, extracted helpers).
// ---------------------------------------------------------------------------

// tgFact: expression E is known to be true (Pos) or false (!Pos) at a site of Fn.
type tgFact struct {
	E   ast.Expr
	Pos bool
	Fn  *engine.Fn
}

func tgNormFact(e ast.Expr, pos bool, f *engine.Fn) tgFact {
	for {
		e = ast.Unparen(e)
		u, ok := e.(*ast.UnaryExpr)
		if !ok || u.Op != token.NOT {
			break
		}
		e, pos = u.X, !pos
	}
	return tgFact{E: e, Pos: pos, Fn: f}
}

// tgFactsOfCond splits a condition known to be true/false into the atoms that
// necessarily hold: true && → each conjunct true; false || → each disjunct false.
func tgFactsOfCond(f *engine.Fn, cond ast.Expr, holds bool) []tgFact {
	n := tgNormFact(cond, holds, f)
	op := token.LAND
	if !n.Pos {
		op = token.LOR
	}
	parts := engine.Conjuncts(n.E, op)
	if len(parts) == 1 {
		return []tgFact{n}
	}
	var out []tgFact
	for _, p := range parts {
		out = append(out, tgFactsOfCond(f, p, n.Pos)...)
	}
	return out
}

// tgGateFacts returns the facts implied by the gates of site s in f.
func tgGateFacts(f *engine.Fn, s *engine.Site) []tgFact {
	var out []tgFact
	for _, gt := range f.Graph().Gates(s) {
		out = append(out, tgFactsOfCond(f, gt.Cond, gt.OnTrue)...)
	}
	return out
}

// tgDisjuncts: the atoms of which at least one holds, given the fact
// (true `a || b` → a, b positive; false `a && b` → a, b negative).
func tgDisjuncts(ft tgFact) []tgFact {
	op := token.LOR
	if !ft.Pos {
		op = token.LAND
	}
	parts := engine.Conjuncts(ft.E, op)
	if len(parts) == 1 {
		return []tgFact{ft}
	}
	var out []tgFact
	for _, p := range parts {
		out = append(out, tgDisjuncts(tgNormFact(p, ft.Pos, ft.Fn))...)
	}
	return out
}

// tgFactCmp decomposes a comparison fact into (x, effective operator, y):
// the operator is negated when the fact is negative.
func tgFactCmp(ft tgFact) (x ast.Expr, op token.Token, y ast.Expr, ok bool) {
	b, isB := ast.Unparen(ft.E).(*ast.BinaryExpr)
	if !isB {
		return nil, token.ILLEGAL, nil, false
	}
	op = b.Op
	if !ft.Pos {
		op = engine.Negate(op)
	}
	if op == token.ILLEGAL {
		return nil, op, nil, false
	}
	return b.X, op, b.Y, true
}

// tgFactIsNil reports whether the fact says "obj is nil" (wantNil) or "obj is not nil".
func tgFactIsNil(ft tgFact, obj types.Object, wantNil bool) bool {
	x, op, y, ok := tgFactCmp(ft)
	if !ok || obj == nil || (op != token.EQL && op != token.NEQ) {
		return false
	}
	info := ft.Fn.Info()
	var other ast.Expr
	switch {
	case engine.ObjOf(info, x) == obj:
		other = y
	case engine.ObjOf(info, y) == obj:
		other = x
	default:
		return false
	}
	return isNil(other) && (op == token.EQL) == wantNil
}

// tgFactBool reports whether the fact says that the boolean variable obj is `want`.
func tgFactBool(ft tgFact, obj types.Object, want bool) bool {
	id, ok := ast.Unparen(ft.E).(*ast.Ident)
	return ok && obj != nil && ft.Fn.Info().ObjectOf(id) == obj && ft.Pos == want
}

// tgFactOrd reports whether the fact implies `lhs op rhs` for one of the
// accepted operators, where lhs/rhs are recognised by the predicates; operand
// order is normalised.
func tgFactOrd(ft tgFact, isL, isR func(ast.Expr) bool, accept ...token.Token) bool {
	x, op, y, ok := tgFactCmp(ft)
	if !ok {
		return false
	}
	if !(isL(x) && isR(y)) {
		if isL(y) && isR(x) {
			op = engine.Flip(op)
		} else {
			return false
		}
	}
	for _, a := range accept {
		if a == op {
			return true
		}
	}
	return false
}

// tgLevel is one function on a chain of helper calls; Call is the call
// expression in Parent.F that enters F.
type tgLevel struct {
	F      *engine.Fn
	Parent *tgLevel
	Call   *ast.CallExpr
	Site   *engine.Site // site of Call in Parent.F
}

// tgResolveObj follows a helper parameter to the object passed at the call
// site, up to the outermost level; other objects are returned with their level.
func tgResolveObj(l *tgLevel, o types.Object) (types.Object, *tgLevel) {
	for l != nil && l.Parent != nil && o != nil {
		idx := -1
		k := 0
		for _, fld := range l.F.Type.Params.List {
			for _, nm := range fld.Names {
				if l.F.Info().ObjectOf(nm) == o {
					idx = k
				}
				k++
			}
		}
		if idx < 0 || idx >= len(l.Call.Args) {
			return o, l
		}
		o = engine.ObjOf(l.Parent.F.Info(), l.Call.Args[idx])
		l = l.Parent
	}
	return o, l
}

// tgResolveExpr is tgResolveObj for an argument expression: a helper
// parameter is replaced by the argument expression of the enclosing call.
func tgResolveExpr(l *tgLevel, e ast.Expr) (ast.Expr, *tgLevel) {
	for l != nil && l.Parent != nil {
		o := engine.ObjOf(l.F.Info(), e)
		if _, isId := ast.Unparen(e).(*ast.Ident); !isId || o == nil {
			return e, l
		}
		idx, k := -1, 0
		for _, fld := range l.F.Type.Params.List {
			for _, nm := range fld.Names {
				if l.F.Info().ObjectOf(nm) == o {
					idx = k
				}
				k++
			}
		}
		if idx < 0 || idx >= len(l.Call.Args) {
			return e, l
		}
		e, l = l.Call.Args[idx], l.Parent
	}
	return e, l
}

// tgChainFacts: gate facts of site s in level l plus the gate facts of every
// enclosing call site up the chain.
func tgChainFacts(l *tgLevel, s *engine.Site) []tgFact {
	out := tgGateFacts(l.F, s)
	for l.Parent != nil {
		out = append(out, tgGateFacts(l.Parent.F, l.Site)...)
		l = l.Parent
	}
	return out
}

// tgExportedContract: derived contract functions that are exported (callable
// from other packages) — the only ones that need an explicit allow-list.
func (a *tgFresh) ExportedContracts() []string {
	var out []string
	for fn, m := range a.contract {
		if len(m) == 0 && len(a.slots[fn]) == 0 {
			continue
		}
		if o, ok := fn.Object().(*types.Func); ok && o.Exported() {
			out = append(out, a.name[fn])
		}
	}
	sort.Strings(out)
	return out
}

// tgTableCallers is a who-may-call table closed under private helpers: every
// referrer of the functions matching pats must be an allowed root or an
// unexported function all of whose own referrers are accepted; references
// that are not direct calls are rejected; at least one reference must exist.
func tgTableCallers(c *engine.Ctx, p *engine.Prog, rule, key string, allowed []string, pats ...string) {
	refs := p.RefsToFunc(pats...)
	var nonCalls []string
	for _, r := range refs {
		if !r.IsCall {
			n := "<package-level>"
			if r.Fn != nil {
				n = r.Fn.Root().Name
			}
			nonCalls = append(nonCalls, n)
		}
	}
	bad := p.UnexpectedCallers(refs, allowed)
	c.Check(rule, key, token.NoPos, len(bad) == 0 && len(nonCalls) == 0 && len(refs) > 0,
		"callers: "+join(engine.CallerSet(refs))+"; not allowed (nor private helpers of allowed callers): "+join(bad)+"; used as a value in: "+join(tgUniq(nonCalls)))
}

// tgTableWriters is the who-may-write counterpart for field writes.
func tgTableWriters(c *engine.Ctx, p *engine.Prog, rule, key string, ws []engine.Write, filter func(engine.Write) bool, allowed []string) {
	var refs []engine.Ref
	for _, w := range ws {
		if filter == nil || filter(w) {
			refs = append(refs, engine.Ref{Fn: w.Fn, IsCall: true})
		}
	}
	bad := p.UnexpectedCallers(refs, allowed)
	c.Check(rule, key, token.NoPos, len(bad) == 0 && len(refs) > 0,
		"writers: "+join(engine.WriterSet(ws, filter))+"; not allowed (nor private helpers of allowed writers): "+join(bad))
}

// tgTableObjUsers: every function using the package-level object is allowed
// (or a private helper of an allowed one).
func tgTableObjUsers(c *engine.Ctx, p *engine.Prog, rule, key string, o types.Object, allowed []string) {
	refs := p.RefsTo(func(x types.Object) bool { return o != nil && x == o })
	bad := p.UnexpectedCallers(refs, allowed)
	c.Check(rule, key, token.NoPos, o != nil && len(bad) == 0 && len(refs) > 0, "users: "+join(engine.CallerSet(refs))+"; not allowed: "+join(bad))
}

// tgPoisoningHelper: the call site s calls an unexported function of the
// loaded program whose every failing return is dominated by an assignment to
// the `poisoned` field (or itself returns such a helper's error). Returns the
// number of failing returns found (for floors).
func tgPoisoningHelper(p *engine.Prog, s *engine.Site, poisF *types.Var, depth int) (int, bool) {
	fn, _ := s.Callee.(*types.Func)
	h := p.FnOf(fn)
	if h == nil || fn.Exported() || depth <= 0 {
		return 0, false
	}
	pois := tgFieldAssigns(h, poisF)
	g := h.Graph()
	n := 0
	for _, r := range tgReturnSites(h) {
		rs := r.Node.(*ast.ReturnStmt)
		if !tgFailureReturn(h, rs) {
			continue
		}
		ok := false
		for _, a := range pois {
			if g.Dominates(a, r) {
				ok = true
			}
		}
		k := 1
		if !ok {
			if call, isCall := ast.Unparen(rs.Results[len(rs.Results)-1]).(*ast.CallExpr); isCall {
				if cs := h.SiteOf(call); cs != nil {
					k, ok = tgPoisoningHelper(p, cs, poisF, depth-1)
				}
			}
		}
		if !ok {
			return 0, false
		}
		n += k
	}
	return n, n > 0
}

// tgLoadedRoot: expression e (in fn) denotes the node loaded from the node DB
// through the version's root reference: a local all of whose assignments are
// nil or loader(k) with k a local assigned only from rootRef(...). A missing
// initialiser (`var x *T`) counts as nil.
func tgLoadedRoot(fn *engine.Fn, e ast.Expr, loader, rootRef string) (bool, string) {
	info := fn.Info()
	o, isVar := engine.ObjOf(info, e).(*types.Var)
	if _, isId := ast.Unparen(e).(*ast.Ident); !isId || !isVar || o.IsField() {
		// a direct call is fine too
		if call, ok := ast.Unparen(e).(*ast.CallExpr); ok {
			return tgLoaderCall(fn, call, loader, rootRef)
		}
		return false, "not a local variable or loader call"
	}
	n := 0
	ok, why := true, ""
	engine.InspectBody(fn, func(nd ast.Node) {
		as, isAs := nd.(*ast.AssignStmt)
		if !isAs {
			return
		}
		for i, l := range as.Lhs {
			if engine.ObjOf(info, l) != types.Object(o) {
				continue
			}
			n++
			var rhs ast.Expr
			if len(as.Rhs) == len(as.Lhs) {
				rhs = as.Rhs[i]
			} else if len(as.Rhs) == 1 && i == 0 {
				rhs = as.Rhs[0]
			}
			if rhs == nil {
				ok, why = false, "assigned from a tuple position that is not the loaded node"
				continue
			}
			if isNil(rhs) {
				continue
			}
			call, isCall := ast.Unparen(rhs).(*ast.CallExpr)
			if !isCall {
				ok, why = false, "assigned `"+engine.ExprString(rhs)+"`"
				continue
			}
			if k, w := tgLoaderCall(fn, call, loader, rootRef); !k {
				ok, why = false, w
			}
		}
	})
	if n == 0 {
		return false, "variable is never assigned"
	}
	return ok, why
}

func tgLoaderCall(fn *engine.Fn, call *ast.CallExpr, loader, rootRef string) (bool, string) {
	info := fn.Info()
	s := fn.SiteOf(call)
	if s == nil || s.CalleeName() != loader || len(call.Args) != 1 {
		return false, "`" + engine.ExprString(call) + "` is not " + loader
	}
	// the key comes from the root reference of the version
	if kc, ok := ast.Unparen(call.Args[0]).(*ast.CallExpr); ok {
		if ks := fn.SiteOf(kc); ks != nil && ks.CalleeName() == rootRef {
			return true, ""
		}
		return false, "key is not the version's root reference"
	}
	ko := engine.ObjOf(info, call.Args[0])
	if ko == nil {
		return false, "key is not a local variable"
	}
	n, ok := 0, true
	engine.InspectBody(fn, func(nd ast.Node) {
		as, isAs := nd.(*ast.AssignStmt)
		if !isAs {
			return
		}
		for i, l := range as.Lhs {
			if engine.ObjOf(info, l) != ko {
				continue
			}
			n++
			var rhs ast.Expr
			if len(as.Rhs) == len(as.Lhs) {
				rhs = as.Rhs[i]
			} else if len(as.Rhs) == 1 && i == 0 {
				rhs = as.Rhs[0]
			}
			c2, isCall := rhs.(*ast.CallExpr)
			if rhs == nil || !isCall {
				ok = false
				continue
			}
			if ks := fn.SiteOf(c2); ks == nil || ks.CalleeName() != rootRef {
				ok = false
			}
		}
	})
	if n == 0 || !ok {
		return false, "the loader key does not come (only) from " + rootRef
	}
	return true, ""
}
