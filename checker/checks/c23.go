package checks

import (
	"go/ast"
	"go/token"
	"go/types"
	"sort"
	"strings"

	"gnoverif/engine"
)

// C23 — the B+ tree is a versioned ordered map: saved versions never change
// (copy-on-write discipline), the working root is replaced only by an
// operation that succeeded, late failures poison the session, rollback
// restores the last saved root.
func init() {
	register("C23", c23)
	meta("C23", Meta{
		Text:      "Decides structural necessary conditions of 'a saved version never changes / rollback restores the last saved version': (1) copy-on-write discipline over the whole bptree package by SSA value-origin analysis — every store into InnerNode/LeafNode/MiniMerkle memory is on a node allocated or cloned in that function, on a parameter all of whose in-package callers pass such a node (transitively), on a child slot the caller filled with a fresh clone by a dominating setChild (remove path), or — saveNode only — behind the `nodeKey == nil` gate; no byte of a stored key is written in place; (2) the functions that require a fresh argument are referenced only by direct calls inside the package; nodeKey/root/lastSaved have a closed writer set; (3) Set/Remove publish the new root only behind the error test of treeInsert/treeRemove, every error return after publication is dominated by `t.poisoned = err`, and Set/Remove/SaveVersion test `poisoned` before anything else; (4) SaveVersion moves lastSaved/version only behind a successful Commit (or adopts the persisted root on the idempotent path), its deferred closure discards the batch unless committed and poisons on error; Rollback assigns root from lastSaved and clears the batch; loadVersionDiscovered performs no session write before its last fallible read; (5) parallel arrays — InnerNode.childNodes/children/childHashes/childSizes and LeafNode.keys/valueHashes/valueKeys are indexed by the same slot: in every function of the package each element move or clear of one array is mirrored on the others with the same destination and the same source index (indices normalised to linear forms after resolving single-definition locals, conversions and NumChildren()); a size or hash stored at a slot is computed from the node installed at that slot; subtree sizes are adjusted only at slots the function operated on, by the size stored at the slot the moved child came from; copies into/out of staging arrays use identical offsets across the group, equal lengths, and tile the staging array without gaps; redistributeLeft is the mirror image of redistributeRight (which end is read/written, sign of the parent size adjustments). Level 'other': code-shape conditions, not the ordered-map behaviour.",
		Note:      "Not covered: ordered-map semantics of search/split/merge/redistribute, iterator positions within a leaf (only what may end a range and the hand-over to the neighbouring leaf are decided), pruning correctness (dual-walk), remaining index arithmetic: loop bounds of the shift loops, the separator-key array of inner nodes (offset index space), agreement between innerInsert's re-wiring of childNodes from the staging array (splitIdx) and splitInner's split point, upper bounds of copies into staging arrays beyond the no-gap test, pointer/ref duality (childNodes vs children) beyond 'the other one is set when this one is cleared'. Index comparison is flow-insensitive (numKeys is assumed not to change between the definition of an index local and its uses in one group of statements). Slot contracts assume nothing overwrites a child slot between the dominating setChild and the mutator call. Fields nodeKey and ndb are bookkeeping (closed writer set checked separately). In-place library effects (sort, slices.Delete) on node arrays are not modelled (none occur today). Thorough tier additionally closes the caller table of the exported node mutators over tm2/..., gno.land/..., gnovm/... (≈60 s).",
		Technique: "go/ssa value-origin (freshness) analysis with interprocedural parameter and child-slot contracts; go/cfg dominance and reachability; who-may-write tables",
		Ref:       "DESIGN.md §2 C23, §9 (R-FRESH remove path)",
	})
	const rm = "tm2/pkg/bptree/remove.go"
	const ins = "tm2/pkg/bptree/insert.go"
	const mt = "tm2/pkg/bptree/mutable_tree.go"
	mutants("C23",
		Mutant{"insert-no-child-clone", ins, "\t// COW-clone the child\n\tchild = cloneNode(child)\n\tinner.setChild(childIdx, child)\n\n\t// Recurse", "\tinner.setChild(childIdx, child)\n\n\t// Recurse", "fresh-arg tm2/pkg/bptree.innerInsert -> tm2/pkg/bptree.nodeInsert"},
		Mutant{"remove-root-not-cloned", rm, "\troot = cloneNode(root)\n\tres, err := nodeRemove(root, key)", "\tres, err := nodeRemove(root, key)", "fresh-arg tm2/pkg/bptree.(*MutableTree).Remove -> tm2/pkg/bptree.treeRemove(root)"},
		Mutant{"merge-sibling-not-cloned", rm, "\t\tleftClone := cloneNode(left)\n\t\tparent.setChild(childIdx-1, leftClone)\n\t\tmerge(parent, childIdx-1)", "\t\tparent.setChild(childIdx-1, left)\n\t\tmerge(parent, childIdx-1)", "slot-fresh tm2/pkg/bptree.fixUnderflow -> tm2/pkg/bptree.merge"},
		Mutant{"redistribute-wrong-slot", rm, "\t\t\tparent.setChild(childIdx-1, leftClone)\n\t\t\tredistributeRight(parent, childIdx-1) // move from left to child", "\t\t\tparent.setChild(childIdx, leftClone)\n\t\t\tredistributeRight(parent, childIdx-1) // move from left to child", "slot-fresh tm2/pkg/bptree.innerRemove -> tm2/pkg/bptree.fixUnderflow slot[childIdx-1]"},
		Mutant{"getchild-memoises", "tm2/pkg/bptree/node.go", "\t\treturn nil, fmt.Errorf(\"loading child node %x: %w\", n.children[idx], err)\n\t}\n\treturn child, nil", "\t\treturn nil, fmt.Errorf(\"loading child node %x: %w\", n.children[idx], err)\n\t}\n\tn.childNodes[idx] = child\n\treturn child, nil", "fresh-arg"},
		Mutant{"lookup-writes-leaf", mt, "\t\t\tpos, found := searchLeaf(n, key)\n\t\t\tif !found {\n\t\t\t\treturn n, Hash{}, nil, false, nil\n\t\t\t}\n\t\t\treturn n, n.valueHashes[pos], n.valueKeys[pos], true, nil", "\t\t\tpos, found := searchLeaf(n, key)\n\t\t\tif !found {\n\t\t\t\treturn n, Hash{}, nil, false, nil\n\t\t\t}\n\t\t\tn.numKeys += 0\n\t\t\treturn n, n.valueHashes[pos], n.valueKeys[pos], true, nil", "fresh-"},
		Mutant{"key-bytes-in-place", rm, "\t\tparent.keys[idx] = copyKey(r.keys[0])\n\t\tparent.childSizes[idx]--", "\t\tcopy(parent.keys[idx], r.keys[0])\n\t\tparent.childSizes[idx]--", "no-inplace-bytes"},
		Mutant{"set-publishes-on-error", mt, "\tnewRoot, updated, oldValueKey, err := treeInsert(t.root, key, valueHash, vk)\n\tif err != nil {", "\tnewRoot, updated, oldValueKey, err := treeInsert(t.root, key, valueHash, vk)\n\tif err != nil && newRoot == nil {", "publish-gated"},
		Mutant{"remove-late-failure-not-poisoned", mt, "\tif err := t.ndb.deleteFastIndex(key); err != nil {\n\t\tt.poisoned = err\n\t\treturn val, true, err", "\tif err := t.ndb.deleteFastIndex(key); err != nil {\n\t\treturn val, true, err", "poison-late-failure"},
		Mutant{"remove-skips-poison-test", mt, "func (t *MutableTree) Remove(key []byte) ([]byte, bool, error) {\n\tif t.poisoned != nil {", "func (t *MutableTree) Remove(key []byte) ([]byte, bool, error) {\n\tif t.poisoned != nil && key == nil {", "poison-entry"},
		Mutant{"lastsaved-before-commit", mt, "\tcommitted = true\n\n\tt.version = version\n\tt.lastSaved = t.root\n", "\tcommitted = true\n\n\tt.version = version\n", "save-order"},
		Mutant{"lastsaved-moved-up", mt, "\t// Commit batch (nodes + root + orphan list, atomically)\n\tif err := t.ndb.Commit(); err != nil {", "\tt.lastSaved = t.root\n\t// Commit batch (nodes + root + orphan list, atomically)\n\tif err := t.ndb.Commit(); err != nil {", "save-order"},
		Mutant{"rollback-keeps-root", mt, "\tt.root = t.lastSaved\n\tif t.root != nil {\n\t\tt.size = nodeSize(t.root)\n\t} else {\n\t\tt.size = 0\n\t}\n\t// Rollback restores", "\tif t.root != nil {\n\t\tt.size = nodeSize(t.root)\n\t} else {\n\t\tt.size = 0\n\t}\n\t// Rollback restores", "rollback-restores"},
		Mutant{"load-discards-before-read", mt, "\troot, err := t.loadNode(nkBytes)\n\tif err != nil {\n\t\treturn 0, fmt.Errorf(\"loading root: %w\", err)\n\t}\n\n\t// Reads succeeded", "\tt.ndb.DiscardBatch()\n\troot, err := t.loadNode(nkBytes)\n\tif err != nil {\n\t\treturn 0, fmt.Errorf(\"loading root: %w\", err)\n\t}\n\n\t// Reads succeeded", "load-atomic"},
		Mutant{"savenode-ungated", mt, "\tif node.GetNodeKey() != nil {\n\t\treturn nil // already saved\n\t}\n\n\t// For inner nodes", "\tif node.GetNodeKey() != nil && version < 0 {\n\t\treturn nil // already saved\n\t}\n\n\t// For inner nodes", "fresh-write tm2/pkg/bptree.(*MutableTree).saveNode"},
		Mutant{"moved-size-wrong-slot", rm, "\t\tmovedSize := l.childSizes[lastChildIdx]", "\t\tmovedSize := l.childSizes[lastKeyIdx]", "parallel-move tm2/pkg/bptree.redistributeRight InnerNode"},
		Mutant{"seeded-childsizes-drift", rm, "\t\tlastChildIdx := int(l.numKeys)\n\t\tmovedSize := l.childSizes[lastChildIdx]", "\t\tlastChildIdx := lastKeyIdx + 1\n\t\tmovedSize := l.childSizes[lastKeyIdx]", "moved-amount tm2/pkg/bptree.redistributeRight"},
		Mutant{"moved-size-wrong-end-left", rm, "\t\tmovedSize := r.childSizes[0]", "\t\tmovedSize := r.childSizes[1]", "moved-amount tm2/pkg/bptree.redistributeLeft"},
		Mutant{"merge-shift-forgets-sizes", rm, "\t\tparent.childSizes[i] = parent.childSizes[i+1]\n", "", "parallel-move tm2/pkg/bptree.merge InnerNode"},
		Mutant{"size-adjusted-at-wrong-slot", rm, "\t\tparent.childSizes[idx+1]++", "\t\tparent.childSizes[idx+2]++", "size-adjust tm2/pkg/bptree.redistributeRight"},
		Mutant{"staging-sizes-offset", ins, "\tcopy(allSizes[childIdx+2:], inner.childSizes[childIdx+1:B])", "\tcopy(allSizes[childIdx+2:], inner.childSizes[childIdx+2:B])", "parallel-copy tm2/pkg/bptree.innerInsert InnerNode copy ranges"},
		Mutant{"size-of-wrong-node", ins, "\t\tinner.childSizes[childIdx+1] = nodeSize(sr.right)", "\t\tinner.childSizes[childIdx+1] = nodeSize(child)", "derived-at-slot tm2/pkg/bptree.innerInsert"},
		Mutant{"left-appends-over-last-child", rm, "\t\tlnc := l.NumChildren()", "\t\tlnc := l.NumChildren() - 1", "mirror redistributeRight/redistributeLeft InnerNode.childNodes"},
		Mutant{"seeded-seeklast-gives-up-at-leaf-edge", "tm2/pkg/bptree/iterator.go", "\t\t\t\tif found {\n\t\t\t\t\tit.leafIdx = pos - 1 // end is exclusive\n", "\t\t\t\tif found && pos == 0 {\n\t\t\t\t\tit.valid = false\n\t\t\t\t\treturn\n\t\t\t\t} else if found {\n\t\t\t\t\tit.leafIdx = pos - 1 // end is exclusive\n", "iter-invalidate-reason"},
		Mutant{"next-stops-at-leaf-end", "tm2/pkg/bptree/iterator.go", "\t\tif it.leafIdx >= int(it.leaf.numKeys) {\n\t\t\tit.nextLeaf()", "\t\tif it.leafIdx >= int(it.leaf.numKeys) {\n\t\t\tit.valid = false", "iter-"},
		Mutant{"staging-gap", ins, "\tcopy(allVK[pos+1:], leaf.valueKeys[pos:B])", "\tcopy(allVK[pos+2:], leaf.valueKeys[pos:B])", "staging-tiling tm2/pkg/bptree.leafInsert allVK"},
	)
}

func tgBptreeFreshCfg() tgFreshCfg {
	const P = "tm2/pkg/bptree."
	return tgFreshCfg{
		Pkg:       "tm2/pkg/bptree",
		NodeTypes: []string{"InnerNode", "LeafNode"},
		PartTypes: []string{"MiniMerkle"},
		ExemptFields: map[string]string{
			"InnerNode.nodeKey": "record identity, assigned once at save (writer set checked by rule key-writers)",
			"LeafNode.nodeKey":  "record identity, assigned once at save (writer set checked by rule key-writers)",
			"InnerNode.ndb":     "loader handle, not version content",
		},
		Producers: map[string][]int{
			P + "cloneNode":          nil,
			P + "(*InnerNode).Clone": nil,
			P + "(*LeafNode).Clone":  nil,
			P + "splitLeaf":          {0},
			P + "splitInner":         {0},
		},
		CarrierType:  "splitResult",
		CarrierField: "right",
		CarrierProd:  map[string][]int{P + "splitLeaf": {1}, P + "splitInner": {1}},
		SlotField:    "childNodes",
		SlotSetter:   P + "(*InnerNode).setChild",
		DirtyGate:    map[string]int{P + "(*MutableTree).saveNode": 1},
		KeyField:     "nodeKey",
		KeyGetter:    "GetNodeKey",
		ContentSlice: map[string]bool{"InnerNode.keys": true, "LeafNode.keys": true, "LeafNode.valueKeys": true, "InnerNode.children": true},
		Iface:        "Node",
	}
}

func c23(c *engine.Ctx) {
	c.Explain = "Decides, for tm2/pkg/bptree: (1) R-FRESH — every store into node memory is on a node that is fresh in the storing function, a parameter whose in-package callers all pass fresh nodes, a child slot filled by a dominating setChild(fresh clone), or (saveNode) behind the nodeKey==nil gate; stored key bytes are never written in place; (2) mutators with a freshness contract are only called directly and only inside the package; closed writer sets for nodeKey, MutableTree.root and lastSaved; (3) publish-gated / poison-late-failure / poison-entry in Set, Remove, SaveVersion; (4) SaveVersion ordering (lastSaved/version after a checked Commit, deferred discard+poison), Rollback restores from lastSaved, loadVersionDiscovered writes nothing before its last fallible read; (5) iterator — every `it.valid = false` sits under a reason that ends a range (failed load, bound comparison, absent root, unknown node type, stack exhausted, Close), and seekFirst/seekLast/Next hand over to nextLeaf/prevLeaf when the position runs off the leaf. Not covered: ordered-map behaviour, iterator positions within a leaf, pruning correctness, index arithmetic of split/merge."
	p := c.Load("tm2/pkg/bptree", "tm2/pkg/store/bptree")
	if p == nil {
		return
	}
	const P = "tm2/pkg/bptree."
	const T = P + "(*MutableTree)."

	// ---- (5) iterator: what may end a range
	c23Iter(c, p)

	// ---- (1) R-FRESH
	a := tgNewFresh(c, p, tgBptreeFreshCfg())
	if a != nil {
		a.Run("fresh-write", "fresh-arg", "slot-fresh", "no-inplace-bytes")
		c.Floor("fresh-write", a.NWrites, 60)
		c.Floor("fresh-arg", a.NArgs, 30)
		c.Floor("slot-fresh", a.NSlots, 7)
		// (2) contract functions: closed set, direct calls only, inside the package
		// the set is DERIVED (a private helper that forwards its parameter to a mutator is itself a
		// mutator whose callers are checked); only exported mutators need an explicit allow-list
		wantExported := []string{
			P + "(*InnerNode).RebuildMiniMerkle", P + "(*LeafNode).RebuildMiniMerkle",
			P + "(*MiniMerkle).Build", P + "(*MiniMerkle).Clear", P + "(*MiniMerkle).SetSlot",
		}
		got := a.ContractNames()
		extra := engine.SetDiff(a.ExportedContracts(), wantExported)
		c.Check("contract-set", "tm2/pkg/bptree exported mutators requiring a fresh node", token.NoPos, len(extra) == 0 && len(got) >= 8,
			"functions that write through a parameter (derived): "+join(got)+"; exported and not in the allow-list: "+join(extra))
		n := 0
		for _, name := range got {
			callers, nonCalls := tgCallersOf(p, name)
			outside := []string{}
			for _, cl := range callers {
				if !strings.HasPrefix(cl, P) {
					outside = append(outside, cl)
				}
			}
			n++
			c.Check("contract-callers", name, token.NoPos, len(nonCalls) == 0 && len(outside) == 0,
				"referenced from "+join(callers)+"; as a value in: "+join(nonCalls)+"; outside the package: "+join(outside))
		}
		c.Floor("contract-callers", n, 8)
	}

	// ---- key-writers / root-writers
	for _, tn := range []string{"InnerNode", "LeafNode"} {
		fld := p.Field(P + tn + ".nodeKey")
		if fld == nil {
			c.Undecided("anchor", P+tn+".nodeKey", "field not found")
			continue
		}
		tgTableWriters(c, p, "key-writers", P+tn+".nodeKey", p.FieldWrites(fld), nil, []string{P + "(*" + tn + ").Clone", P + "(*" + tn + ").SetNodeKey", P + "read" + tn})
	}
	{
		tgTableCallers(c, p, "key-writers", "SetNodeKey callers", []string{T + "saveNode"}, P+"(*InnerNode).SetNodeKey", P+"(*LeafNode).SetNodeKey", P+"(Node).SetNodeKey")
	}
	rootF, lastF, sizeF, verF, poisF := p.Field(P+"MutableTree.root"), p.Field(P+"MutableTree.lastSaved"), p.Field(P+"MutableTree.size"), p.Field(P+"MutableTree.version"), p.Field(P+"MutableTree.poisoned")
	for nm, f := range map[string]*types.Var{"root": rootF, "lastSaved": lastF, "size": sizeF, "version": verF, "poisoned": poisF} {
		if f == nil {
			c.Undecided("anchor", P+"MutableTree."+nm, "field not found")
			return
		}
	}
	{
		tgTableWriters(c, p, "root-writers", P+"MutableTree.root", p.FieldWrites(rootF), nil, []string{T + "Set", T + "Remove", T + "SaveVersion", T + "Rollback", T + "loadVersionDiscovered", P + "(*Importer).Commit"})
		tgTableWriters(c, p, "root-writers", P+"MutableTree.lastSaved", p.FieldWrites(lastF), nil, []string{T + "SaveVersion", T + "loadVersionDiscovered"})
	}

	// ---- (3) Set / Remove
	for _, nm := range []struct{ fn, op string }{{"Set", P + "treeInsert"}, {"Remove", P + "treeRemove"}} {
		f := c.MustFunc(T + nm.fn)
		if f == nil {
			continue
		}
		g := f.Graph()
		info := f.Info()
		rootW := tgFieldAssigns(f, rootF)
		c.Floor("publish-gated "+nm.fn, len(rootW), 1)
		ops := f.CallsTo(nm.op)
		c.Floor("publish-gated "+nm.fn+" op", len(ops), 1)
		// publish-gated: a root write whose RHS comes from the tree operation is behind its err test
		for _, w := range rootW {
			as := w.Node.(*ast.AssignStmt)
			rhs := tgRHSFor(f, as, rootF)
			fromOp := false
			for _, op := range ops {
				if opAs, ok := op.Top.(*ast.AssignStmt); ok && len(opAs.Lhs) > 0 {
					if o := engine.ObjOf(info, opAs.Lhs[0]); o != nil && engine.Mentions(info, rhs, o) {
						fromOp = true
						r := g.CheckedGuard(op, w)
						ok := r.OK && tgIsErrTest(info, r.Cond) && !r.OnTrue && len(engine.Atoms(r.Cond)) == 1
						why := "root is published only on the `err == nil` side of " + nm.op
						if !ok {
							why = "publication is not gated by a plain `err != nil → return` test of " + nm.op
							if r.OK {
								why += " (condition `" + engine.ExprString(r.Cond) + "`)"
							}
						}
						c.Check("publish-gated", f.Name+" root = result of "+nm.op, w.Pos(), ok, why)
					}
				}
			}
			if !fromOp {
				// the empty-tree path of Set: root assigned from a node built in this function
				o := engine.ObjOf(info, rhs)
				_, isVar := o.(*types.Var)
				c.Check("publish-gated", f.Name+" root = locally built node", w.Pos(), isVar && !tgMentionsField(info, rhs, rootF), "root assigned from `"+engine.ExprString(rhs)+"`")
			}
		}
		// poison-late-failure
		pois := tgFieldAssigns(f, poisF)
		n := 0
		for _, r := range tgReturnSites(f) {
			rs := r.Node.(*ast.ReturnStmt)
			if tgReturnsNilErr(rs) {
				continue
			}
			after := false
			for _, w := range rootW {
				if g.ReachableAfter(w, r) {
					after = true
				}
			}
			if !after {
				continue
			}
			n++
			ok := false
			for _, a := range pois {
				if g.Dominates(a, r) {
					for _, w := range rootW {
						if g.ReachableAfter(w, a) {
							ok = true
						}
					}
				}
			}
			if !ok {
				// the error comes from a private helper that poisons the session on every failure:
				// `return x, t.helper(...)` or `if err := t.helper(...); err != nil { return x, err }`
				last := rs.Results[len(rs.Results)-1]
				if call, isCall := ast.Unparen(last).(*ast.CallExpr); isCall {
					if s := f.SiteOf(call); s != nil {
						if k, poisons := tgPoisoningHelper(p, s, poisF, 2); poisons {
							ok = true
							n += k - 1
						}
					}
				} else {
					for _, s := range f.Calls() {
						k, poisons := tgPoisoningHelper(p, s, poisF, 2)
						if !poisons {
							continue
						}
						if res := g.CheckedGuard(s, r); res.OK && tgIsErrTest(info, res.Cond) && res.OnTrue {
							after := false
							for _, w := range rootW {
								if g.ReachableAfter(w, s) {
									after = true
								}
							}
							if after {
								ok = true
								n += k - 1
							}
						}
					}
				}
			}
			c.Check("poison-late-failure", f.Name+" error return after publication: "+tgRetKey(rs), r.Pos(), ok, "an error return reachable after `t.root = …` must be dominated by `t.poisoned = err`")
		}
		min := 2
		if nm.fn == "Set" {
			min = 4
		}
		c.Floor("poison-late-failure "+nm.fn, n, min)
	}
	// poison-entry
	for _, fnm := range []string{"Set", "Remove", "SaveVersion"} {
		f := c.MustFunc(T + fnm)
		if f == nil {
			continue
		}
		info := f.Info()
		bad := ""
		n := 0
		for _, s := range f.Calls() {
			if s.Deferred {
				continue
			}
			n++
			gt, ok := tgGateOn(f, s, func(e ast.Expr) bool {
				b, isb := ast.Unparen(e).(*ast.BinaryExpr)
				return isb && b.Op == token.NEQ && tgSelField(info, b.X) == poisF.Origin() && isNil(b.Y)
			})
			if !ok {
				bad = "call `" + s.CalleeName() + "` does not depend on the `t.poisoned != nil` test"
				break
			}
			_ = gt
		}
		// and the poisoned branch returns a non-nil error
		c.Check("poison-entry", f.Name, f.Pos(), bad == "" && n > 0, "every call in the function is behind a plain `t.poisoned != nil` test"+tgIf(bad != "", ": "+bad))
		// writes to session fields are behind it too
		for _, fld := range []*types.Var{rootF, sizeF} {
			for _, w := range tgFieldAssigns(f, fld) {
				_, ok := tgGateOn(f, w, func(e ast.Expr) bool {
					b, isb := ast.Unparen(e).(*ast.BinaryExpr)
					return isb && b.Op == token.NEQ && tgSelField(info, b.X) == poisF.Origin() && isNil(b.Y)
				})
				c.Check("poison-entry", f.Name+" write "+fld.Name(), w.Pos(), ok, "session write must be behind the poisoned test")
			}
		}
	}

	// ---- (4) SaveVersion ordering
	if f := c.MustFunc(T + "SaveVersion"); f != nil {
		g := f.Graph()
		info := f.Info()
		commits := f.CallsTo(P + "(*nodeDB).Commit")
		c.Floor("save-order commit", len(commits), 1)
		existsGate := func(s *engine.Site) bool {
			gt, ok := tgGateOn(f, s, func(e ast.Expr) bool {
				id, isId := ast.Unparen(e).(*ast.Ident)
				return isId && id.Name == "exists"
			})
			return ok && gt.OnTrue
		}
		behindCommit := func(s *engine.Site) bool {
			for _, cm := range commits {
				if r := g.CheckedGuard(cm, s); r.OK && tgIsErrTest(info, r.Cond) && !r.OnTrue {
					return true
				}
			}
			return false
		}
		nLast := 0
		for _, fld := range []*types.Var{lastF, verF} {
			nMain := 0
			for _, w := range tgFieldAssigns(f, fld) {
				if existsGate(w) {
					// idempotent path: adopts the persisted root
					if fld == lastF {
						rhs := tgRHSFor(f, w.Node.(*ast.AssignStmt), fld)
						o := engine.ObjOf(info, rhs)
						okAdopt := false
						for _, ld := range f.CallsTo(T + "loadNode") {
							if as, ok := ld.Top.(*ast.AssignStmt); ok && len(as.Lhs) > 0 && engine.ObjOf(info, as.Lhs[0]) == o && o != nil {
								okAdopt = true
							}
						}
						// root and lastSaved are assigned the same local
						c.Check("save-order", f.Name+" idempotent path adopts the persisted root", w.Pos(), okAdopt, "lastSaved on the version-exists path must be the node loaded from the persisted root reference")
					}
					continue
				}
				nMain++
				if fld == lastF {
					nLast++
				}
				ok := behindCommit(w)
				c.Check("save-order", f.Name+" "+fld.Name()+" after checked Commit", w.Pos(), ok, "`t."+fld.Name()+" = …` must be reachable only after ndb.Commit() returned nil")
				if fld == lastF {
					rhs := tgRHSFor(f, w.Node.(*ast.AssignStmt), fld)
					c.Check("save-order", f.Name+" lastSaved = root", w.Pos(), tgSelField(info, rhs) == rootF.Origin(), "lastSaved must become the working root that was just saved")
				}
			}
			c.Floor("save-order "+fld.Name(), nMain, 1)
		}
		// committed flag
		var committed types.Object
		engine.InspectBody(f, func(n ast.Node) {
			if as, ok := n.(*ast.AssignStmt); ok && as.Tok == token.DEFINE && len(as.Lhs) == 1 {
				if id, ok := as.Lhs[0].(*ast.Ident); ok && id.Name == "committed" {
					committed = info.ObjectOf(id)
				}
			}
		})
		nSet := 0
		if committed != nil {
			engine.InspectBody(f, func(n ast.Node) {
				as, ok := n.(*ast.AssignStmt)
				if !ok || as.Tok != token.ASSIGN || len(as.Lhs) != 1 || engine.ObjOf(info, as.Lhs[0]) != committed {
					return
				}
				nSet++
				s := f.SiteOf(as)
				c.Check("save-order", f.Name+" committed = true after checked Commit", as.Pos(), s != nil && behindCommit(s), "the flag that suppresses DiscardBatch must only be set after a successful Commit")
			})
		}
		c.Floor("save-order committed", nSet, 1)
		// deferred closure: discards unless committed, poisons on error
		okDefer := false
		why := "no deferred closure found"
		for _, l := range f.Lits {
			ds := l.CallsTo(P + "(*nodeDB).DiscardBatch")
			pw := tgFieldAssigns(l, poisF)
			if len(ds) == 0 || len(pw) == 0 {
				continue
			}
			isDeferred := false
			engine.InspectBody(f, func(n ast.Node) {
				if d, ok := n.(*ast.DeferStmt); ok && ast.Unparen(d.Call.Fun) == ast.Expr(l.Lit) {
					// registered before anything else can fail: it dominates every return
					if s := f.SiteOf(d); s != nil {
						isDeferred = true
						for _, r := range tgReturnSites(f) {
							rs := r.Node.(*ast.ReturnStmt)
							if tgReturnsNilErr(rs) || g.Dominates(s, r) {
								continue
							}
							// the poisoned-entry return precedes the defer by design
							if _, pe := tgGateOn(f, r, func(e ast.Expr) bool {
								b, isb := ast.Unparen(e).(*ast.BinaryExpr)
								return isb && b.Op == token.NEQ && tgSelField(info, b.X) == poisF.Origin() && isNil(b.Y)
							}); pe {
								continue
							}
							isDeferred = false
						}
					}
				}
			})
			gd, okd := tgGateOn(l, ds[0], func(e ast.Expr) bool { return committed != nil && engine.Mentions(info, e, committed) })
			gp, okp := tgGateOn(l, pw[0], func(e ast.Expr) bool {
				b, isb := ast.Unparen(e).(*ast.BinaryExpr)
				return isb && b.Op == token.NEQ && isNil(b.Y) && engine.MentionsName(b.X, "err")
			})
			okDefer = isDeferred && okd && isNot(gd.Cond) && gd.OnTrue && okp && gp.OnTrue
			why = "deferred closure discards the batch when !committed and sets poisoned when err != nil; registered before every failing return"
			if !okDefer {
				why = "the deferred closure must (a) be registered before every error return, (b) DiscardBatch under `!committed`, (c) set t.poisoned under `err != nil`"
			}
		}
		c.Check("save-order", f.Name+" deferred discard+poison", f.Pos(), okDefer, why)
		// error returns must be explicit (named err read by the defer): no bare returns
		bare := 0
		for _, r := range tgReturnSites(f) {
			if len(r.Node.(*ast.ReturnStmt).Results) == 0 {
				bare++
			}
		}
		c.Check("save-order", f.Name+" no bare returns", f.Pos(), bare == 0, "the poison-setter reads the named result; bare returns would bypass it")
		_ = nLast
	}

	// Rollback
	if f := c.MustFunc(T + "Rollback"); f != nil {
		info := f.Info()
		ws := tgFieldAssigns(f, rootF)
		ok := len(ws) == 1
		if ok {
			rhs := tgRHSFor(f, ws[0].Node.(*ast.AssignStmt), rootF)
			ok = tgSelField(info, rhs) == lastF.Origin()
			// unconditional
			ok = ok && len(f.Graph().Gates(ws[0])) == 0
		}
		c.Check("rollback-restores", f.Name+" root = lastSaved", f.Pos(), ok, "Rollback must unconditionally assign t.root from t.lastSaved (exactly one root write)")
		ds := f.CallsTo(P + "(*nodeDB).DiscardBatch")
		okd := len(ds) == 1 && len(f.Graph().Gates(ds[0])) == 0
		c.Check("rollback-restores", f.Name+" DiscardBatch", f.Pos(), okd, "Rollback must unconditionally drop the staged batch")
		// size recomputed from the restored root
		okS := false
		for _, w := range tgFieldAssigns(f, sizeF) {
			rhs := tgRHSFor(f, w.Node.(*ast.AssignStmt), sizeF)
			if call, isCall := ast.Unparen(rhs).(*ast.CallExpr); isCall && len(call.Args) == 1 && tgSelField(info, call.Args[0]) == rootF.Origin() {
				if len(ws) == 1 && f.Graph().Dominates(ws[0], w) {
					okS = true
				}
			}
		}
		c.Check("rollback-restores", f.Name+" size from restored root", f.Pos(), okS, "size must be recomputed from t.root after it was restored")
		pc := tgFieldAssigns(f, poisF)
		okP := len(pc) == 1 && isNil(tgRHSFor(f, pc[0].Node.(*ast.AssignStmt), poisF)) && len(ws) == 1 && f.Graph().Dominates(ws[0], pc[0])
		c.Check("rollback-restores", f.Name+" poison cleared after restore", f.Pos(), okP, "poisoned may be cleared only after the root was restored")
	}

	// loadVersionDiscovered: no error return after the first session write / DiscardBatch
	if f := c.MustFunc(T + "loadVersionDiscovered"); f != nil {
		g := f.Graph()
		var effects []*engine.Site
		effects = append(effects, f.CallsTo(P+"(*nodeDB).DiscardBatch", T+"resetSession")...)
		for _, fld := range []*types.Var{rootF, lastF, sizeF, verF, poisF} {
			effects = append(effects, tgFieldAssigns(f, fld)...)
		}
		c.Floor("load-atomic", len(effects), 14)
		n := 0
		for _, r := range tgReturnSites(f) {
			rs := r.Node.(*ast.ReturnStmt)
			if tgReturnsNilErr(rs) {
				continue
			}
			n++
			bad := ""
			for _, e := range effects {
				if g.ReachableAfter(e, r) {
					bad = engine.ExprString(tgStmtExpr(e.Node))
				}
			}
			c.Check("load-atomic", f.Name+" error return "+tgRetKey(rs), r.Pos(), bad == "", "a failing load must leave the session untouched"+tgIf(bad != "", "; this error return is reachable after `"+bad+"`"))
		}
		c.Floor("load-atomic returns", n, 2)
		// poison cleared only together with a full session replacement
		for _, w := range tgFieldAssigns(f, poisF) {
			ok := false
			for _, rw := range tgFieldAssigns(f, rootF) {
				if rw.Block == w.Block {
					ok = true
				}
			}
			c.Check("load-atomic", f.Name+" poison cleared with root replaced", w.Pos(), ok, "poisoned = nil must accompany a root replacement in the same straight-line block")
		}
	}
	// poisoned = nil only in Rollback / loadVersionDiscovered
	{
		tgTableWriters(c, p, "poison-clear", P+"MutableTree.poisoned = nil", p.FieldWrites(poisF), func(w engine.Write) bool {
			as, ok := w.Node.(*ast.AssignStmt)
			if !ok {
				return false
			}
			rhs := tgRHSFor(w.Fn, as, poisF)
			return rhs != nil && isNil(rhs)
		}, []string{T + "Rollback", T + "loadVersionDiscovered"})
	}

	// ---- (5) parallel arrays
	c23Parallel(c, p)

	// ---- thorough: the exported mutators of the exported node types are not used anywhere else in the module
	if c.Tier == "thorough" {
		if wide := c.Load("tm2/...", "gno.land/...", "gnovm/..."); wide != nil {
			exported := []string{
				P + "(*InnerNode).RebuildMiniMerkle", P + "(*LeafNode).RebuildMiniMerkle", P + "(*InnerNode).SetNodeKey", P + "(*LeafNode).SetNodeKey", P + "(Node).SetNodeKey",
				P + "(*MiniMerkle).Build", P + "(*MiniMerkle).Clear", P + "(*MiniMerkle).SetSlot",
			}
			for _, name := range exported {
				callers, _ := tgCallersOf(wide, name)
				var outside []string
				for _, cl := range callers {
					if !strings.HasPrefix(cl, P) {
						outside = append(outside, cl)
					}
				}
				c.Check("contract-callers-module", name, token.NoPos, len(outside) == 0, "references outside tm2/pkg/bptree in tm2/..., gno.land/..., gnovm/...: "+join(outside))
			}
		}
	}
	tgDebug(c)
}

func tgIf(b bool, s string) string {
	if b {
		return s
	}
	return ""
}

// tgIsErrTest: cond is `<x> != nil` where x is an error-typed identifier.
func tgIsErrTest(info *types.Info, cond ast.Expr) bool {
	b, ok := ast.Unparen(cond).(*ast.BinaryExpr)
	if !ok || b.Op != token.NEQ || !isNil(b.Y) {
		return false
	}
	t := info.TypeOf(b.X)
	return t != nil && t.String() == "error"
}

// tgRetKey renders a return statement by its result expressions (stable under
// line moves; two textually identical returns share a key, which is fine: the
// obligation then requires both to be discharged).
func tgRetKey(r *ast.ReturnStmt) string {
	var parts []string
	for _, e := range r.Results {
		parts = append(parts, engine.ExprString(e))
	}
	return "return " + strings.Join(parts, ", ")
}

func tgStmtExpr(n ast.Node) ast.Expr {
	switch x := n.(type) {
	case *ast.AssignStmt:
		return x.Lhs[0]
	case ast.Expr:
		return x
	case *ast.ExprStmt:
		return x.X
	}
	return &ast.Ident{Name: "?"}
}

// c23Parallel applies the parallel-array rules (helpers_treeG.go, tgPar*) to
// every function of tm2/pkg/bptree.
func c23Parallel(c *engine.Ctx, p *engine.Prog) {
	const P = "tm2/pkg/bptree."
	groups := []tgParGroup{
		{Type: "InnerNode", Fields: []string{"childNodes", "children", "childHashes", "childSizes"}},
		{Type: "LeafNode", Fields: []string{"keys", "valueHashes", "valueKeys"}},
	}
	named := map[string]*types.Named{}
	for _, g := range groups {
		n := p.Named(P + g.Type)
		if n == nil {
			c.Undecided("anchor", P+g.Type, "type not found")
			return
		}
		named[g.Type] = n
	}
	owner := func(v *types.Var) string {
		for name, n := range named {
			st := n.Underlying().(*types.Struct)
			for i := 0; i < st.NumFields(); i++ {
				if st.Field(i) == v.Origin() {
					return name
				}
			}
		}
		return ""
	}
	isLocal := func(b string) bool { return strings.HasPrefix(b, "local:") }
	fns := map[string]*tgParFn{}
	nMove, nDerived, nAdjust, nAmount, nCopy, nTile := 0, 0, 0, 0, 0, 0
	for _, f := range p.FuncsIn("tm2/pkg/bptree") {
		if !tgParMentions(f, owner) {
			continue
		}
		a := tgParAnalyse(f, owner, groups)
		fns[f.Name] = a
		if len(a.writes) == 0 && len(a.copies) == 0 {
			continue
		}
		for _, g := range groups {
			ref := g.Type + "." + g.Fields[0]
			sizes := g.Type + ".childSizes"
			// ---- parallel-move: element moves and clears agree across the group
			sets := map[string]map[string]bool{}
			pos := token.NoPos
			hasNonZeroAt := func(field, base, idx string) bool {
				for _, w := range a.writes {
					if w.Field == field && w.Base == base && w.Idx == idx && w.Kind != tgParZero && w.Kind != tgParElem {
						return true
					}
				}
				return false
			}
			for _, w := range a.writes {
				if !strings.HasPrefix(w.Field, g.Type+".") || isLocal(w.Base) || (w.Kind != tgParElem && w.Kind != tgParZero) {
					continue
				}
				if w.Kind == tgParElem && isLocal(w.SrcBase) {
					continue // re-wiring from a staging array (not covered: agreement with splitInner's split point)
				}
				if w.Kind == tgParZero && g.Type == "InnerNode" {
					// pointer/ref duality: exactly one of childNodes[i] / children[i] is authoritative
					dual := ""
					switch w.Field {
					case "InnerNode.childNodes":
						dual = "InnerNode.children"
					case "InnerNode.children":
						dual = "InnerNode.childNodes"
					}
					if dual != "" && hasNonZeroAt(dual, w.Base, w.Idx) {
						continue
					}
				}
				e := w.Base + "[" + w.Idx + "] <- "
				if w.Kind == tgParZero {
					e += "zero"
				} else {
					e += w.SrcBase + "[" + w.SrcIdx + "]"
				}
				if sets[w.Field] == nil {
					sets[w.Field] = map[string]bool{}
				}
				sets[w.Field][e] = true
				if pos == token.NoPos {
					pos = w.Pos
				}
			}
			if len(sets) > 0 {
				nMove++
				var diff []string
				refSet := sets[ref]
				for _, fl := range g.Fields {
					cur := sets[g.Type+"."+fl]
					for e := range refSet {
						if !cur[e] {
							diff = append(diff, fl+" lacks `"+e+"`")
						}
					}
					for e := range cur {
						if !refSet[e] {
							diff = append(diff, fl+" has `"+e+"` but "+g.Fields[0]+" does not")
						}
					}
				}
				sort.Strings(diff)
				c.Check("parallel-move", f.Name+" "+g.Type+" slots", pos, len(diff) == 0,
					"every move/clear of one of "+strings.Join(g.Fields, "/")+" must be mirrored on the others with the same destination and source index"+tgIf(len(diff) > 0, ": "+strings.Join(diff, "; ")))
			}
			if g.Type != "InnerNode" {
				continue
			}
			// ---- derived-at-slot: nodeSize(e) / e.Hash() stored at slot D describe the node that is at slot D
			for _, w := range a.writes {
				if (w.Kind != tgParSize && w.Kind != tgParHash) || !strings.HasPrefix(w.Field, "InnerNode.") {
					continue
				}
				nDerived++
				ok := false
				if strings.HasPrefix(w.Val, "@") {
					ok = w.Val == "@"+w.Base+"["+w.Idx+"]"
				} else {
					for _, s := range a.writes {
						if s.Field == ref && s.Kind == tgParSet && s.Val == w.Val && s.Idx == w.Idx {
							ok = true
						}
					}
				}
				c.Check("derived-at-slot", f.Name+" "+w.Text+" = f("+w.Val+")", w.Pos, ok, "a size/hash stored at child slot "+w.Base+"["+w.Idx+"] must be computed from the node installed at that same slot"+tgIf(!ok, " (`"+w.Val+"` is not)"))
			}
			// ---- size-adjust / moved-amount
			crossSrc := map[string]bool{}
			for _, w := range a.writes {
				if w.Field == ref && w.Kind == tgParElem && w.Base != w.SrcBase {
					crossSrc["@"+w.SrcBase+"["+w.SrcIdx+"]"] = true
				}
			}
			for _, w := range a.writes {
				if w.Field != sizes || w.Kind != tgParArith || isLocal(w.Base) {
					continue
				}
				nAdjust++
				ok := a.operand[w.Base+"["+w.Idx+"]"]
				for _, r := range w.Reads {
					if !a.operand[r] {
						ok = false
					}
				}
				c.Check("size-adjust", f.Name+" "+w.Text+" "+w.Op.String(), w.Pos, ok, "a subtree size may only be adjusted at a slot whose child this function read, loaded or installed (operands: "+join(engine.SortedKeys(a.operand))+")")
				if strings.HasPrefix(w.Amount, "@") {
					nAmount++
					c.Check("moved-amount", f.Name+" "+w.Text+" "+w.Op.String()+" "+w.Amount, w.Pos, crossSrc[w.Amount], "the amount moved between sibling sizes must be the size stored at the slot the moved child is taken from (moved children come from: "+join(engine.SortedKeys(crossSrc))+")")
				}
			}
		}
		// ---- parallel-copy and tiling
		if len(a.copies) > 0 {
			for _, g := range groups {
				perField := map[string]map[string]bool{}
				var pos token.Pos
				for _, cp := range a.copies {
					fl := cp.DstField
					if fl == "" {
						fl = cp.SrcField
					}
					if !strings.HasPrefix(fl, g.Type+".") {
						continue
					}
					e := "dst[" + cp.DstLo + ":] <- src[" + cp.SrcLo + ":"
					if cp.DstField != "" {
						e += cp.SrcHi
					}
					e += "]"
					if perField[fl] == nil {
						perField[fl] = map[string]bool{}
					}
					perField[fl][e] = true
					pos = cp.Pos
					// equal lengths when both ends are closed
					if cp.DstHi != "" && cp.SrcHi != "" {
						ds, dk := tgLinSplit(cp.DstHi)
						dls, dlk := tgLinSplit(cp.DstLo)
						ss, sk := tgLinSplit(cp.SrcHi)
						sls, slk := tgLinSplit(cp.SrcLo)
						if ds == ss && (dls == sls || (dls == "" && sls == "")) {
							nCopy++
							c.Check("parallel-copy", f.Name+" "+cp.Text+" lengths", cp.Pos, dk-dlk == sk-slk, "copy source and destination ranges must have the same length")
						}
					}
				}
				if len(perField) >= 2 {
					nCopy++
					var names []string
					for fl := range perField {
						names = append(names, fl)
					}
					sort.Strings(names)
					first := strings.Join(engine.SortedKeys(perField[names[0]]), " | ")
					ok := true
					detail := ""
					for _, fl := range names {
						cur := strings.Join(engine.SortedKeys(perField[fl]), " | ")
						detail += fl + ": " + cur + "; "
						if cur != first {
							ok = false
						}
					}
					c.Check("parallel-copy", f.Name+" "+g.Type+" copy ranges", pos, ok, "the parallel arrays must be copied with identical offsets: "+detail)
				}
			}
			// tiling of local staging arrays
			type piece struct{ lo, hi string }
			locals := map[string][]piece{}
			for _, cp := range a.copies {
				if cp.DstField == "" {
					locals[cp.DstBase] = append(locals[cp.DstBase], piece{cp.DstLo, cp.DstHi})
				}
			}
			for _, w := range a.writes {
				if isLocal(w.Base) {
					s, k := tgLinSplit(w.Idx)
					hi := tgLinJoin(s, k+1)
					locals[w.Base] = append(locals[w.Base], piece{w.Idx, hi})
				}
			}
			for _, name := range engine.SortedKeys(locals) {
				ps := locals[name]
				nTile++
				cur, done, gap := "0", false, ""
				for step := 0; step < len(ps)+1 && !done; step++ {
					cs, ck := tgLinSplit(cur)
					best, bestK, found := "", 0, false
					for _, pc := range ps {
						ls, lk := tgLinSplit(pc.lo)
						if !(ls == cs && lk <= ck) {
							continue
						}
						if pc.hi == "" {
							done, found = true, true
							break
						}
						hs, hk := tgLinSplit(pc.hi)
						if hs == cs && hk <= ck {
							continue
						}
						if !found || (hs == best && hk > bestK) || (cs == "" && hs != "") {
							best, bestK, found = hs, hk, true
						}
					}
					if !found {
						gap = cur
						break
					}
					if !done {
						cur = tgLinJoin(best, bestK)
					}
				}
				c.Check("staging-tiling", f.Name+" "+strings.TrimPrefix(name, "local:"), f.Pos(), done && gap == "", "the staging array must be filled without a gap from index 0 to its end"+tgIf(gap != "", "; nothing fills index "+gap)+tgIf(!done && gap == "", "; no open-ended tail copy"))
			}
		}
	}
	c.Floor("parallel-move", nMove, 8)
	c.Floor("derived-at-slot", nDerived, 14)
	c.Floor("size-adjust", nAdjust, 7)
	c.Floor("moved-amount", nAmount, 4)
	c.Floor("parallel-copy", nCopy, 6)
	c.Floor("staging-tiling", nTile, 7)

	// ---- mirror: redistributeLeft is the mirror image of redistributeRight
	rr, rl := fns[P+"redistributeRight"], fns[P+"redistributeLeft"]
	if rr == nil || rl == nil {
		c.Undecided("anchor", P+"redistributeRight/redistributeLeft", "function not found")
		return
	}
	nMirror := 0
	for _, ref := range []string{"InnerNode.childNodes", "LeafNode.keys"} {
		cross := func(a *tgParFn) []tgParWrite {
			var out []tgParWrite
			for _, w := range a.writes {
				if w.Field == ref && w.Kind == tgParElem && w.Base != w.SrcBase {
					out = append(out, w)
				}
			}
			return out
		}
		cr, cl := cross(rr), cross(rl)
		nMirror++
		ok := len(cr) == 1 && len(cl) == 1
		why := "each direction must move exactly one " + ref + " entry between the siblings"
		if ok {
			r, l := cr[0], cl[0]
			ls, lk := tgLinSplit(l.Idx)
			rs, rk := tgLinSplit(r.SrcIdx)
			ok = r.SrcBase == l.Base && r.Base == l.SrcBase && r.Idx == "0" && l.SrcIdx == "0" && ls == rs && lk == rk+1
			why = "Right: " + r.Base + "[" + r.Idx + "] <- " + r.SrcBase + "[" + r.SrcIdx + "]; Left: " + l.Base + "[" + l.Idx + "] <- " + l.SrcBase + "[" + l.SrcIdx + "]; Right must take the donor's LAST entry to the receiver's slot 0, Left the donor's slot 0 to one past the receiver's last entry (= Right's source index + 1)"
		}
		c.Check("mirror", "redistributeRight/redistributeLeft "+ref, rr.f.Pos(), ok, why)
	}
	// parent size adjustments are opposite within a function and swapped between the two
	ops := func(a *tgParFn) map[string][]string {
		m := map[string][]string{}
		for _, w := range a.writes {
			if w.Field == "InnerNode.childSizes" && w.Kind == tgParArith && w.Base == "parent" {
				dir := "+"
				if w.Op == token.SUB_ASSIGN || w.Op == token.DEC {
					dir = "-"
				}
				m[w.Idx] = append(m[w.Idx], dir)
			}
		}
		return m
	}
	or, ol := ops(rr), ops(rl)
	nMirror++
	okOps := len(or) == 2 && len(ol) == 2
	for idx, ds := range or {
		for _, d := range ds {
			if d != "-" && idx == "idx" || d != "+" && idx == "idx+1" {
				okOps = false
			}
		}
		if len(ol[idx]) != len(ds) {
			okOps = false
		}
	}
	for idx, ds := range ol {
		for _, d := range ds {
			if d != "+" && idx == "idx" || d != "-" && idx == "idx+1" {
				okOps = false
			}
		}
	}
	c.Check("mirror", "redistributeRight/redistributeLeft parent size adjustments", rr.f.Pos(), okOps, "Right must shrink parent.childSizes[idx] and grow [idx+1]; Left the opposite; both in the leaf and the inner case")
	c.Floor("mirror", nMirror, 3)
}
