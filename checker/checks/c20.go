package checks

import (
	"fmt"
	"go/ast"
	"go/token"
	"go/types"
	"path/filepath"
	"reflect"
	"sort"
	"strings"

	"gnoverif/engine"
)

// C20 — amino: the generated (genproto2) codec and the reflection codec describe
// the same wire table for every generated type.
func init() {
	register("C20", c20)
	meta("C20", Meta{
		Text:      "For every type that has generated MarshalBinary2/SizeBinary2/UnmarshalBinary2 methods in a pb3_gen.go file, decides that the field table the reflection codec derives from the Go struct (field numbers assigned in declaration order to exported, non-skipped fields, `_ amino:\"reserved\"` consuming a number; wire type from the field's (repr) kind and binary tag) equals the table hard-coded in the generated encoder (field key number + Typ3 per field, strictly descending emission order), the generated decoder (case number, Typ3 test, assigned field, reserved stubs, no extra case), and the generated sizer (same fields, key-size literal matching the field number); that every generated decoder rejects non-increasing field numbers and unknown fields; that every generated type is registered for the fast path and vice versa; and that every slice/index of the input in amino's primitive decoders is protected by a length test. Level 'other': table agreement is a necessary condition of byte equality, not byte equality itself.",
		Note:      "Not covered: value-level byte equality of the two encoders (zero-value elision, nested list framing, time/duration bodies), JSON, the reflection decoder's own checks, decoders' behaviour on truncated nested bodies. The Go-side table is a re-implementation of parseStructInfoWLocked/typeToTyp3 (mirror, cross-checked three ways against generated code).",
		Technique: "go/types struct walk mirrored against AST tables extracted from generated code (R-SIB four-way), dominating-gate test on slice bounds (R-PANIC)",
		Ref:       "DESIGN.md §2 C20",
	})
	mutants("C20",
		Mutant{"stale-generated-field-added", "tm2/pkg/std/account.go", "\tSequence      uint64         `json:\"sequence\" yaml:\"sequence\"`\n}", "\tSequence      uint64         `json:\"sequence\" yaml:\"sequence\"`\n\tNonce2 uint64\n}", "unmarshal-field tm2/pkg/std.BaseAccount.Nonce2"},
		Mutant{"marshal-wrong-fieldnum", "tm2/pkg/std/pb3_gen.go", "offset = amino.PrependFieldNumberAndTyp3(buf, offset, 5, amino.Typ3Varint)\n\t\t\t} else {\n\t\t\t\toffset = before\n\t\t\t}\n\t\t}\n\t}\n\tif goo.AccountNumber != 0 {", "offset = amino.PrependFieldNumberAndTyp3(buf, offset, 6, amino.Typ3Varint)\n\t\t\t} else {\n\t\t\t\toffset = before\n\t\t\t}\n\t\t}\n\t}\n\tif goo.AccountNumber != 0 {", "marshal-field tm2/pkg/std.BaseAccount.Sequence"},
		Mutant{"unmarshal-swapped-target", "tm2/pkg/std/pb3_gen.go", "\t\t\tbz = bz[n:]\n\t\t\tgoo.Sequence = uint64(v)\n\t\tdefault:\n\t\t\treturn fmt.Errorf(\"unknown field number %d for BaseAccount\", fnum)", "\t\t\tbz = bz[n:]\n\t\t\tgoo.AccountNumber = uint64(v)\n\t\tdefault:\n\t\t\treturn fmt.Errorf(\"unknown field number %d for BaseAccount\", fnum)", "unmarshal-field tm2/pkg/std.BaseAccount.Sequence"},
		Mutant{"order-check-weakened", "tm2/pkg/std/pb3_gen.go", "\t\tif fnum <= lastFieldNum {\n\t\t\treturn fmt.Errorf(\"encountered fieldNum: %v, but we have already seen fnum: %v\", fnum, lastFieldNum)\n\t\t}\n\t\tlastFieldNum = fnum\n\t\tbz = bz[n:]\n\t\tswitch fnum {\n\t\tcase 1:\n\t\t\tif typ3 != amino.Typ3ByteLength {\n\t\t\t\treturn fmt.Errorf(\"field 1: expected typ3 %v, got %v\", amino.Typ3ByteLength, typ3)\n\t\t\t}\n\t\t\tvar repr string\n\t\t\tv, n, err := amino.DecodeString(bz)\n\t\t\tif err != nil {\n\t\t\t\treturn err\n\t\t\t}\n\t\t\tbz = bz[n:]\n\t\t\trepr = string(v)\n\t\t\tif err := goo.Address.UnmarshalAmino(repr); err != nil {\n\t\t\t\treturn err\n\t\t\t}\n\t\tcase 2:\n\t\t\tif typ3 != amino.Typ3ByteLength {\n\t\t\t\treturn fmt.Errorf(\"field 2: expected typ3 %v, got %v\", amino.Typ3ByteLength, typ3)\n\t\t\t}\n\t\t\tvar repr string\n\t\t\tv, n, err := amino.DecodeString(bz)\n\t\t\tif err != nil {\n\t\t\t\treturn err\n\t\t\t}\n\t\t\tbz = bz[n:]\n\t\t\trepr = string(v)\n\t\t\tif err := goo.Coins.UnmarshalAmino(repr); err != nil {\n\t\t\t\treturn err\n\t\t\t}\n\t\tcase 3:\n\t\t\tif typ3 != amino.Typ3ByteLength {\n\t\t\t\treturn fmt.Errorf(\"field 3: expected typ3 %v, got %v\", amino.Typ3ByteLength, typ3)\n\t\t\t}\n\t\t\tfbz, n, err := amino.DecodeByteSlice(bz)\n\t\t\tif err != nil {\n\t\t\t\treturn err\n\t\t\t}\n\t\t\tbz = bz[n:]\n\t\t\tif len(fbz) > 0 {\n\t\t\t\tif err := cdc.UnmarshalAnyBinary2(fbz, &goo.PubKey, anyDepth); err != nil {", "\t\tif fnum < lastFieldNum {\n\t\t\treturn fmt.Errorf(\"encountered fieldNum: %v, but we have already seen fnum: %v\", fnum, lastFieldNum)\n\t\t}\n\t\tlastFieldNum = fnum\n\t\tbz = bz[n:]\n\t\tswitch fnum {\n\t\tcase 1:\n\t\t\tif typ3 != amino.Typ3ByteLength {\n\t\t\t\treturn fmt.Errorf(\"field 1: expected typ3 %v, got %v\", amino.Typ3ByteLength, typ3)\n\t\t\t}\n\t\t\tvar repr string\n\t\t\tv, n, err := amino.DecodeString(bz)\n\t\t\tif err != nil {\n\t\t\t\treturn err\n\t\t\t}\n\t\t\tbz = bz[n:]\n\t\t\trepr = string(v)\n\t\t\tif err := goo.Address.UnmarshalAmino(repr); err != nil {\n\t\t\t\treturn err\n\t\t\t}\n\t\tcase 2:\n\t\t\tif typ3 != amino.Typ3ByteLength {\n\t\t\t\treturn fmt.Errorf(\"field 2: expected typ3 %v, got %v\", amino.Typ3ByteLength, typ3)\n\t\t\t}\n\t\t\tvar repr string\n\t\t\tv, n, err := amino.DecodeString(bz)\n\t\t\tif err != nil {\n\t\t\t\treturn err\n\t\t\t}\n\t\t\tbz = bz[n:]\n\t\t\trepr = string(v)\n\t\t\tif err := goo.Coins.UnmarshalAmino(repr); err != nil {\n\t\t\t\treturn err\n\t\t\t}\n\t\tcase 3:\n\t\t\tif typ3 != amino.Typ3ByteLength {\n\t\t\t\treturn fmt.Errorf(\"field 3: expected typ3 %v, got %v\", amino.Typ3ByteLength, typ3)\n\t\t\t}\n\t\t\tfbz, n, err := amino.DecodeByteSlice(bz)\n\t\t\tif err != nil {\n\t\t\t\treturn err\n\t\t\t}\n\t\t\tbz = bz[n:]\n\t\t\tif len(fbz) > 0 {\n\t\t\t\tif err := cdc.UnmarshalAnyBinary2(fbz, &goo.PubKey, anyDepth); err != nil {", "unmarshal-order tm2/pkg/std.BaseAccount"},
		Mutant{"tag-changes-wire-type", "tm2/pkg/std/account.go", "\tAccountNumber uint64         `json:\"account_number\" yaml:\"account_number\"`", "\tAccountNumber uint64         `json:\"account_number\" yaml:\"account_number\" binary:\"fixed64\"`", "tm2/pkg/std.BaseAccount.AccountNumber"},
		Mutant{"registration-dropped", "tm2/pkg/std/pb3_gen.go", "\tamino.RegisterGenproto2Type(reflect.TypeOf((*GasPrice)(nil)).Elem())\n", "", "registered tm2/pkg/std.GasPrice"},
		Mutant{"decoder-length-check-weakened", "tm2/pkg/amino/decoder.go", "\tif count > uint64(len(bz)) {", "\tif count > uint64(len(bz))+1 {", "slice-guard tm2/pkg/amino.DecodeByteSlice"},
		Mutant{"decoder-fixed-size-check", "tm2/pkg/amino/decoder.go", "func DecodeUint64(bz []byte) (u uint64, n int, err error) {\n\tconst size int = 8\n\tif len(bz) < size {", "func DecodeUint64(bz []byte) (u uint64, n int, err error) {\n\tconst size int = 8\n\tif len(bz) < size-1 {", "slice-guard tm2/pkg/amino.DecodeUint64"},
	)
}

// c20Field is one row of a wire table.
type c20Field struct {
	Name string
	Num  int
	Typ3 string // "Typ3Varint", "Typ38Byte", "Typ3ByteLength", "Typ34Byte"
}

const c20Amino = "tm2/pkg/amino"

func c20(c *engine.Ctx) {
	c.Explain = "Decides, for every type with generated genproto2 methods (pb3_gen.go), that four tables agree: (go) the field numbering and wire types the reflection codec derives from the Go struct, re-derived here from go/types by the rules of parseStructInfoWLocked/parseFieldOptions/typeToTyp3; (marshal) the field key number and Typ3 each per-field statement of MarshalBinary2 emits, in strictly descending order; (unmarshal) the case number, Typ3 test and assigned field of UnmarshalBinary2's field switch, its reserved stubs, absence of extra cases; (size) the fields SizeBinary2 covers and the key-size literal it adds. Also: every generated struct decoder rejects fnum <= lastFieldNum and unknown field numbers; implicit-struct (non-struct) types use field 1 on both sides with the same Typ3; AminoMarshaler types decode into the repr type MarshalAmino returns; generated types and RegisterGenproto2Type calls are in bijection with the three methods present; every index/slice of the input in tm2/pkg/amino/decoder.go is dominated by a sufficient length test. Not covered: byte-level equality of values, JSON, nested list framing, reflection decoder internals."
	var files []string
	for _, f := range ceWalkFiles("pb3_gen.go", "tm2", "gnovm", "gno.land") {
		// tm2/pkg/amino/tests holds the codec's own fuzz/fixture types (write_empty,
		// unsafe floats, inline reprs); they are not chain types and use generator
		// shapes no production type uses. Not analysed.
		if filepath.Dir(f) != "tm2/pkg/amino/tests" {
			files = append(files, f)
		}
	}
	c.Floor("pb3-files", len(files), 21)
	if len(files) == 0 {
		c.Undecided("pb3-files", "walk", "no pb3_gen.go found")
		return
	}
	pats := []string{c20Amino}
	for _, f := range files {
		pats = append(pats, filepath.Dir(f))
	}
	p := c.Load(pats...)
	if p == nil {
		return
	}

	type triple struct {
		named   *types.Named
		m, s, u *engine.Fn
		reg     bool
		regPos  token.Pos
	}
	all := map[string]*triple{}
	get := func(n *types.Named) *triple {
		k := engine.TypeName(n)
		if all[k] == nil {
			all[k] = &triple{named: n}
		}
		return all[k]
	}
	for _, f := range p.Funcs() {
		if f.Decl == nil || ceFileOf(p, f.Pos()) != "pb3_gen.go" {
			continue
		}
		if f.Decl.Recv == nil {
			if f.Decl.Name.Name == "init" {
				for _, s := range f.CallsTo(c20Amino + ".RegisterGenproto2Type") {
					n := c20RegisteredType(f.Info(), s.Call)
					if n == nil {
						c.Undecided("registered", f.Name, "RegisterGenproto2Type argument is not reflect.TypeOf((*T)(nil)).Elem()")
						continue
					}
					t := get(n)
					t.reg, t.regPos = true, s.Pos()
				}
			}
			continue
		}
		n, _ := ceRecvNamed(f)
		if n == nil {
			continue
		}
		switch f.Decl.Name.Name {
		case "MarshalBinary2":
			get(n).m = f
		case "SizeBinary2":
			get(n).s = f
		case "UnmarshalBinary2":
			get(n).u = f
		}
	}
	names := engine.SortedKeys(all)
	c.Floor("generated-types", len(names), 281)

	nStruct, nImplicit, nAM, nFields := 0, 0, 0, 0
	for _, name := range names {
		t := all[name]
		pos := t.regPos
		if t.m != nil {
			pos = t.m.Pos()
		}
		// registration / method triple
		var miss []string
		if t.m == nil {
			miss = append(miss, "MarshalBinary2")
		} else if _, ptr := ceRecvNamed(t.m); ptr {
			miss = append(miss, "MarshalBinary2 has a pointer receiver (bare values miss the fast path)")
		}
		if t.s == nil {
			miss = append(miss, "SizeBinary2")
		} else if _, ptr := ceRecvNamed(t.s); ptr {
			miss = append(miss, "SizeBinary2 has a pointer receiver")
		}
		if t.u == nil {
			miss = append(miss, "UnmarshalBinary2")
		} else if _, ptr := ceRecvNamed(t.u); !ptr {
			miss = append(miss, "UnmarshalBinary2 has a value receiver (decodes into a copy)")
		}
		if !t.reg {
			miss = append(miss, "no RegisterGenproto2Type call (fast path never taken; reflection codec used silently)")
		}
		c.Check("registered", name, pos, len(miss) == 0, strings.Join(miss, "; "))
		if t.m == nil || t.s == nil || t.u == nil {
			continue
		}

		isAM, reprT := c20AminoRepr(t.named)
		st, isStruct := t.named.Underlying().(*types.Struct)
		switch {
		case isAM:
			nAM++
			c20CheckAminoMarshaler(c, name, t.named, reprT, t.m, t.s, t.u)
		case isStruct:
			nStruct++
			tab, reserved, probs := c20GoTable(st)
			if len(probs) > 0 {
				c.Undecided("go-table", name, strings.Join(probs, "; "))
				continue
			}
			nFields += len(tab)
			c20CheckStruct(c, name, tab, reserved, t.m, ceRecvObj(t.m), t.s, ceRecvObj(t.s), t.u, ceRecvObj(t.u))
		default:
			nImplicit++
			typ3, ok := c20Typ3(t.named, reflect.StructTag(""))
			if !ok {
				c.Undecided("go-table", name, "wire type of "+name+" not derivable")
				continue
			}
			c20CheckImplicit(c, name, typ3, c20IsList(t.named), t.m, t.u)
		}
	}
	c.Floor("struct-types", nStruct, 262)
	c.Floor("struct-fields", nFields, 768)
	c.Floor("implicit-types", nImplicit, 12)
	c.Floor("aminomarshaler-types", nAM, 7)

	c20SliceGuards(c, p)
}

// c20RegisteredType extracts T from amino.RegisterGenproto2Type(reflect.TypeOf((*T)(nil)).Elem()).
func c20RegisteredType(info *types.Info, call *ast.CallExpr) *types.Named {
	if len(call.Args) != 1 {
		return nil
	}
	var found *types.Named
	ast.Inspect(call.Args[0], func(n ast.Node) bool {
		ce, ok := n.(*ast.CallExpr)
		if !ok || len(ce.Args) != 1 || !isNil(ce.Args[0]) {
			return true
		}
		if pt, ok := info.TypeOf(ce.Fun).(*types.Pointer); ok {
			if nn, ok := types.Unalias(pt.Elem()).(*types.Named); ok {
				found = nn
			}
		}
		return true
	})
	// the outer shape must be <x>.Elem()
	if se, ok := ast.Unparen(call.Args[0]).(*ast.CallExpr); !ok || ceCallName(info, se) != "reflect.(Type).Elem" {
		return nil
	}
	return found
}

// c20AminoRepr: does T (value method set) have MarshalAmino, and what does it return.
func c20AminoRepr(t types.Type) (bool, types.Type) {
	ms := types.NewMethodSet(t)
	for i := 0; i < ms.Len(); i++ {
		m := ms.At(i)
		if m.Obj().Name() == "MarshalAmino" {
			sig := m.Obj().Type().(*types.Signature)
			if sig.Results().Len() >= 1 {
				return true, sig.Results().At(0).Type()
			}
			return true, nil
		}
	}
	return false, nil
}

func c20IsNamed(t types.Type, pkg, name string) bool {
	n, ok := types.Unalias(t).(*types.Named)
	return ok && n.Obj().Pkg() != nil && n.Obj().Pkg().Path() == pkg && n.Obj().Name() == name
}

func c20IsList(t types.Type) bool {
	switch t.Underlying().(type) {
	case *types.Slice, *types.Array:
		return true
	}
	return false
}

// c20Typ3 mirrors typeToTyp3(info.ReprType.Type, fopts) for a field type.
func c20Typ3(t types.Type, tag reflect.StructTag) (string, bool) {
	for {
		pt, ok := types.Unalias(t).(*types.Pointer)
		if !ok {
			break
		}
		t = pt.Elem()
	}
	if ok, r := c20AminoRepr(t); ok {
		if r == nil {
			return "", false
		}
		t = r
	}
	fixed64, fixed32 := false, false
	for _, tk := range strings.Split(tag.Get("binary"), ",") {
		switch tk {
		case "fixed64":
			fixed64 = true
		case "fixed32":
			fixed32 = true
		}
	}
	if c20IsNamed(t, "time", "Time") || c20IsNamed(t, "time", "Duration") {
		return "Typ3ByteLength", true
	}
	switch u := t.Underlying().(type) {
	case *types.Interface, *types.Array, *types.Slice, *types.Struct, *types.Map:
		return "Typ3ByteLength", true
	case *types.Basic:
		switch u.Kind() {
		case types.String:
			return "Typ3ByteLength", true
		case types.Int64, types.Uint64:
			if fixed64 {
				return "Typ38Byte", true
			}
			return "Typ3Varint", true
		case types.Int32, types.Uint32:
			if fixed32 {
				return "Typ34Byte", true
			}
			return "Typ3Varint", true
		case types.Int, types.Uint:
			if fixed64 {
				return "Typ38Byte", true
			}
			if fixed32 {
				return "Typ34Byte", true
			}
			return "Typ3Varint", true
		case types.Int16, types.Int8, types.Uint16, types.Uint8, types.Bool:
			return "Typ3Varint", true
		case types.Float64:
			return "Typ38Byte", true
		case types.Float32:
			return "Typ34Byte", true
		}
	}
	return "", false
}

// c20GoTable mirrors parseStructInfoWLocked: numbering of exported, non-skipped
// fields in declaration order; `_` fields tagged amino:"reserved" consume a number.
func c20GoTable(st *types.Struct) (tab []c20Field, reserved []int, problems []string) {
	next := 1
	for i := 0; i < st.NumFields(); i++ {
		f := st.Field(i)
		tag := reflect.StructTag(st.Tag(i))
		if f.Name() == "_" {
			if tag.Get("amino") != "reserved" {
				problems = append(problems, fmt.Sprintf("blank field #%d lacks amino:\"reserved\" (codec panics at registration)", i))
				continue
			}
			reserved = append(reserved, next)
			next++
			continue
		}
		if !f.Exported() {
			continue
		}
		if tag.Get("json") == "-" {
			continue
		}
		typ3, ok := c20Typ3(f.Type(), tag)
		if !ok {
			problems = append(problems, "field "+f.Name()+": wire type of "+engine.TypeName(f.Type())+" not derivable")
			continue
		}
		tab = append(tab, c20Field{Name: f.Name(), Num: next, Typ3: typ3})
		next++
	}
	return
}

type c20Key struct {
	Num  int
	Typ3 string
}

// c20KeyCalls returns the (number, Typ3) arguments of every
// amino.PrependFieldNumberAndTyp3 call under root, in source order.
func c20KeyCalls(info *types.Info, root ast.Node) (keys []c20Key, bad bool) {
	ast.Inspect(root, func(n ast.Node) bool {
		call, ok := n.(*ast.CallExpr)
		if !ok || ceCallName(info, call) != c20Amino+".PrependFieldNumberAndTyp3" {
			return true
		}
		if len(call.Args) != 4 {
			bad = true
			return true
		}
		num, ok1 := ceIntConst(info, call.Args[2])
		t3 := c20Typ3Name(info, call.Args[3])
		if !ok1 || t3 == "" {
			bad = true
			return true
		}
		keys = append(keys, c20Key{int(num), t3})
		return true
	})
	return
}

// c20Typ3Name returns the name of an amino.Typ3 constant expression.
func c20Typ3Name(info *types.Info, e ast.Expr) string {
	if k, ok := engine.ObjOf(info, e).(*types.Const); ok && k.Pkg() != nil && engine.Rel(k.Pkg().Path()) == c20Amino && strings.HasPrefix(k.Name(), "Typ3") {
		return k.Name()
	}
	return ""
}

func c20KeySize(num int, typ3 string) int {
	v := uint64(num) << 3
	n := 1
	for v >= 0x80 {
		v >>= 7
		n++
	}
	return n
}

// c20CheckStruct checks marshal/size/unmarshal tables of a struct body whose
// fields are accessed through mRecv/sRecv/uRecv.
func c20CheckStruct(c *engine.Ctx, name string, tab []c20Field, reserved []int, m *engine.Fn, mRecv types.Object, s *engine.Fn, sRecv types.Object, u *engine.Fn, uRecv types.Object) {
	byName := map[string]c20Field{}
	for _, f := range tab {
		byName[f.Name] = f
	}
	// ---- marshal ----
	{
		info := m.Info()
		seen := map[string]bool{}
		prev := 1 << 30
		ordered := true
		stmts := m.Body.List
		for si := 0; si < len(stmts); si++ {
			var st ast.Node = stmts[si]
			fs := ceDirectFields(info, st, mRecv)
			keys, bad := c20KeyCalls(info, st)
			if len(fs) == 0 && len(keys) == 0 {
				continue
			}
			// write_empty shape: `offset = PrependX(.., goo.F)` followed by a bare key statement
			if len(fs) == 1 && len(keys) == 0 && si+1 < len(stmts) {
				if k2, b2 := c20KeyCalls(info, stmts[si+1]); len(k2) == 1 && len(ceDirectFields(info, stmts[si+1], mRecv)) == 0 {
					keys, bad = k2, b2
					si++
				}
			}
			fl := ceKeys(fs)
			if len(fl) != 1 || strings.HasPrefix(fl[0], "^") {
				c.Check("marshal-field", name+" <statement over "+join(fl)+">", st.Pos(), false, "a top-level encoder statement must encode exactly one direct field")
				continue
			}
			fname := fl[0]
			want, ok := byName[fname]
			key := name + "." + fname
			if !ok {
				c.Check("marshal-field", key, st.Pos(), false, "encoder writes a field the reflection codec does not encode (unexported, json:\"-\" or absent)")
				continue
			}
			if seen[fname] {
				c.Check("marshal-field", key, st.Pos(), false, "field encoded by two statements")
				continue
			}
			seen[fname] = true
			why := ""
			switch {
			case bad:
				why = "non-constant field key arguments"
			case len(keys) == 0:
				why = "no field key is emitted"
			default:
				hasOwn := false
				for _, k := range keys {
					if k == (c20Key{want.Num, want.Typ3}) {
						hasOwn = true
					} else if k != (c20Key{1, "Typ3ByteLength"}) {
						why = fmt.Sprintf("emits key (%d,%s); the reflection codec uses (%d,%s)", k.Num, k.Typ3, want.Num, want.Typ3)
					}
				}
				if why == "" && !hasOwn {
					why = fmt.Sprintf("never emits key (%d,%s)", want.Num, want.Typ3)
				}
				if last := keys[len(keys)-1]; why == "" && last != (c20Key{want.Num, want.Typ3}) {
					why = fmt.Sprintf("outermost (last prepended) key is (%d,%s), want (%d,%s)", last.Num, last.Typ3, want.Num, want.Typ3)
				}
			}
			c.Check("marshal-field", key, st.Pos(), why == "", why)
			if want.Num >= prev {
				ordered = false
			}
			prev = want.Num
		}
		for _, f := range tab {
			if !seen[f.Name] {
				c.Check("marshal-field", name+"."+f.Name, m.Pos(), false, fmt.Sprintf("field #%d of the Go struct is not encoded by the generated encoder (stale pb3_gen.go?)", f.Num))
			}
		}
		c.Check("marshal-order", name, m.Pos(), ordered, "backward encoder must emit fields in strictly descending field-number order (decoders reject non-increasing numbers)")
	}
	// ---- size ----
	{
		info := s.Info()
		var acc types.Object // the accumulator returned
		engine.InspectBody(s, func(n ast.Node) {
			if r, ok := n.(*ast.ReturnStmt); ok && len(r.Results) == 2 && isNil(r.Results[1]) {
				if o := engine.ObjOf(info, r.Results[0]); o != nil {
					acc = o
				}
			}
		})
		seen := map[string]bool{}
		anon := 0
		for _, st := range s.Body.List {
			fs := ceDirectFields(info, st, sRecv)
			if len(fs) == 0 {
				if as, ok := st.(*ast.AssignStmt); ok && len(as.Lhs) == 1 && acc != nil && engine.ObjOf(info, as.Lhs[0]) == acc {
					anon++ // fixed-size field sized without naming it (`s += 1 + 8`)
				}
				continue
			}
			fl := ceKeys(fs)
			if len(fl) != 1 || strings.HasPrefix(fl[0], "^") {
				c.Check("size-field", name+" <statement over "+join(fl)+">", st.Pos(), false, "a top-level sizer statement must size exactly one direct field")
				continue
			}
			fname := fl[0]
			want, ok := byName[fname]
			key := name + "." + fname
			if !ok {
				c.Check("size-field", key, st.Pos(), false, "sizer counts a field the reflection codec does not encode")
				continue
			}
			if seen[fname] {
				c.Check("size-field", key, st.Pos(), false, "field sized twice")
				continue
			}
			seen[fname] = true
			why := ""
			adds := 0
			if acc == nil {
				why = "accumulator not identified"
			}
			ast.Inspect(st, func(n ast.Node) bool {
				as, ok := n.(*ast.AssignStmt)
				if !ok || len(as.Lhs) != 1 || engine.ObjOf(info, as.Lhs[0]) != acc || acc == nil {
					return true
				}
				if as.Tok != token.ADD_ASSIGN {
					why = "size accumulator is overwritten, not added to"
					return true
				}
				adds++
				lead := ceFlattenAdd(as.Rhs[0])[0]
				v, isc := ceIntConst(info, lead)
				if _, lit := ast.Unparen(lead).(*ast.BasicLit); !isc || !lit {
					why = "size addition does not start with the key-size literal"
				} else if int(v) != c20KeySize(want.Num, want.Typ3) {
					why = fmt.Sprintf("key size %d added for field number %d (needs %d)", v, want.Num, c20KeySize(want.Num, want.Typ3))
				}
				return true
			})
			if why == "" && adds == 0 {
				why = "statement never adds to the size"
			}
			c.Check("size-field", key, st.Pos(), why == "", why)
		}
		var missing []string
		for _, f := range tab {
			if !seen[f.Name] {
				missing = append(missing, f.Name)
			}
		}
		for _, fn := range missing {
			if anon == len(missing) {
				c.Undecided("size-field", name+"."+fn, "sizer has constant additions that name no field; cannot attribute them")
			} else {
				c.Check("size-field", name+"."+fn, s.Pos(), false, "field of the Go struct is not counted by SizeBinary2 (buffer too small / stale pb3_gen.go)")
			}
		}
	}
	// ---- unmarshal ----
	c20CheckUnmarshalSwitch(c, name, tab, reserved, u, uRecv)
}

func c20CheckUnmarshalSwitch(c *engine.Ctx, name string, tab []c20Field, reserved []int, u *engine.Fn, uRecv types.Object) {
	info := u.Info()
	// the field loop: a top-level `for` whose body holds fnum,typ3,... := DecodeFieldNumberAndTyp3 and `switch fnum`
	var loop *ast.ForStmt
	var sw *ast.SwitchStmt
	var fnumObj, typ3Obj types.Object
	var declIdx, swIdx int
	for _, st := range u.Body.List {
		fs, ok := st.(*ast.ForStmt)
		if !ok {
			continue
		}
		var fo, to types.Object
		di := -1
		for i, bs := range fs.Body.List {
			if as, ok := bs.(*ast.AssignStmt); ok && len(as.Rhs) == 1 && len(as.Lhs) == 4 {
				if call, ok := as.Rhs[0].(*ast.CallExpr); ok && ceCallName(info, call) == c20Amino+".DecodeFieldNumberAndTyp3" {
					fo, to, di = engine.ObjOf(info, as.Lhs[0]), engine.ObjOf(info, as.Lhs[1]), i
				}
			}
			if s, ok := bs.(*ast.SwitchStmt); ok && fo != nil && s.Tag != nil && engine.ObjOf(info, s.Tag) == fo {
				loop, sw, fnumObj, typ3Obj, declIdx, swIdx = fs, s, fo, to, di, i
			}
		}
	}
	if sw == nil {
		c.Undecided("unmarshal-field", name, "field-number switch of the generated decoder not found")
		return
	}
	// order check: between the decode and the switch an `if fnum <= last { return err }` and `last = fnum`
	{
		why := "no `fnum <= lastFieldNum` rejection before the field switch"
		var lastObj types.Object
		ifIdx, asIdx := -1, -1
		for i := declIdx + 1; i < swIdx; i++ {
			switch x := loop.Body.List[i].(type) {
			case *ast.IfStmt:
				b, ok := ast.Unparen(x.Cond).(*ast.BinaryExpr)
				if !ok || x.Init != nil {
					continue
				}
				l, r, op := b.X, b.Y, b.Op
				if engine.ObjOf(info, r) == fnumObj {
					l, r, op = r, l, engine.Flip(op)
				}
				if engine.ObjOf(info, l) != fnumObj {
					continue
				}
				lo, isVar := engine.ObjOf(info, r).(*types.Var)
				if !isVar || lo.Parent() == nil || lo.Parent() == info.Scopes[loop.Body] {
					continue
				}
				if op != token.LEQ {
					why = "order test is `fnum " + op.String() + " last` — duplicate/out-of-order field numbers are accepted"
					continue
				}
				if !ceReturnsNonNilLast(x.Body.List) {
					why = "order test does not return an error"
					continue
				}
				lastObj, ifIdx = lo, i
			case *ast.AssignStmt:
				if len(x.Lhs) == 1 && len(x.Rhs) == 1 && x.Tok == token.ASSIGN && lastObj != nil && engine.ObjOf(info, x.Lhs[0]) == lastObj && engine.ObjOf(info, x.Rhs[0]) == fnumObj {
					asIdx = i
				}
			}
		}
		ok := ifIdx >= 0 && asIdx > ifIdx
		if ifIdx >= 0 && asIdx < 0 {
			why = "lastFieldNum is never advanced to fnum before the switch"
		}
		if ok {
			// no other write to lastFieldNum
			n := 0
			ast.Inspect(u.Body, func(nd ast.Node) bool {
				if as, ok := nd.(*ast.AssignStmt); ok {
					for _, l := range as.Lhs {
						if engine.ObjOf(info, l) == lastObj {
							n++
						}
					}
				}
				return true
			})
			if n != 1 {
				ok, why = false, "lastFieldNum is written at more than one place"
			}
		}
		c.Check("unmarshal-order", name, sw.Pos(), ok, why)
	}
	byNum := map[int]c20Field{}
	for _, f := range tab {
		byNum[f.Num] = f
	}
	isReserved := map[int]bool{}
	for _, r := range reserved {
		isReserved[r] = true
	}
	seen := map[int]bool{}
	hasDefault := false
	for _, cs := range sw.Body.List {
		cc := cs.(*ast.CaseClause)
		if cc.List == nil {
			hasDefault = true
			c.Check("unmarshal-default", name, cc.Pos(), ceReturnsNonNilLast(cc.Body), "unknown field numbers must be rejected with an error (the reflection decoder rejects them)")
			continue
		}
		for _, e := range cc.List {
			v, ok := ceIntConst(info, e)
			if !ok {
				c.Undecided("unmarshal-field", name, "non-constant case in field switch")
				continue
			}
			num := int(v)
			body := &ast.BlockStmt{List: cc.Body}
			fs := ceKeys(ceDirectFields(info, body, uRecv))
			if seen[num] {
				continue // duplicate case would not type-check
			}
			seen[num] = true
			if isReserved[num] {
				c.Check("unmarshal-reserved", fmt.Sprintf("%s #%d", name, num), cc.Pos(), len(fs) == 0, "reserved field number stub must not assign any field; assigns "+join(fs))
				continue
			}
			want, ok := byNum[num]
			if !ok {
				c.Check("unmarshal-extra", fmt.Sprintf("%s case %d", name, num), cc.Pos(), false, "decoder accepts a field number the reflection codec does not know (assigns "+join(fs)+")")
				continue
			}
			key := name + "." + want.Name
			why := ""
			if len(fs) != 1 || fs[0] != want.Name {
				why = fmt.Sprintf("case %d must decode into field %s only; touches %s", num, want.Name, join(fs))
			}
			// Typ3 test: an `if typ3 != amino.X { return err }` at clause top level before any use of the field
			got := ""
			for _, st := range cc.Body {
				if is, ok := st.(*ast.IfStmt); ok && is.Init == nil {
					if b, ok := ast.Unparen(is.Cond).(*ast.BinaryExpr); ok && b.Op == token.NEQ && engine.ObjOf(info, b.X) == typ3Obj {
						if t3 := c20Typ3Name(info, b.Y); t3 != "" && ceReturnsNonNilLast(is.Body.List) {
							got = t3
						}
					}
					break
				}
				if len(ceDirectFields(info, st, uRecv)) > 0 {
					break
				}
			}
			if why == "" && got == "" {
				why = "case does not start by rejecting a mismatching wire type (`if typ3 != amino.X { return err }`)"
			}
			if why == "" && got != want.Typ3 {
				why = fmt.Sprintf("decoder expects %s; the reflection codec encodes field %s as %s", got, want.Name, want.Typ3)
			}
			c.Check("unmarshal-field", key, cc.Pos(), why == "", why)
		}
	}
	for _, f := range tab {
		if !seen[f.Num] {
			c.Check("unmarshal-field", name+"."+f.Name, sw.Pos(), false, fmt.Sprintf("no case %d: field of the Go struct is rejected as unknown by the generated decoder (stale pb3_gen.go?)", f.Num))
		}
	}
	for _, r := range reserved {
		if !seen[r] {
			c.Check("unmarshal-reserved", fmt.Sprintf("%s #%d", name, r), sw.Pos(), false, "no skip stub for reserved field number")
		}
	}
	if !hasDefault {
		c.Check("unmarshal-default", name, sw.Pos(), false, "field switch has no default: unknown field numbers are silently accepted")
	}
}

// c20ReprVar finds the local `repr` variable of a generated AminoMarshaler/implicit method.
func c20ReprVar(f *engine.Fn) types.Object {
	var out types.Object
	for _, st := range f.Body.List {
		switch x := st.(type) {
		case *ast.AssignStmt:
			if x.Tok == token.DEFINE && len(x.Lhs) >= 1 {
				if id, ok := x.Lhs[0].(*ast.Ident); ok && id.Name == "repr" {
					out = f.Info().ObjectOf(id)
				}
			}
		case *ast.DeclStmt:
			if gd, ok := x.Decl.(*ast.GenDecl); ok {
				for _, sp := range gd.Specs {
					if vs, ok := sp.(*ast.ValueSpec); ok {
						for _, id := range vs.Names {
							if id.Name == "repr" {
								out = f.Info().ObjectOf(id)
							}
						}
					}
				}
			}
		}
		if out != nil {
			return out
		}
	}
	return nil
}

func c20CheckAminoMarshaler(c *engine.Ctx, name string, named *types.Named, reprT types.Type, m, s, u *engine.Fn) {
	if reprT == nil {
		c.Undecided("repr-type", name, "MarshalAmino has no result")
		return
	}
	mr, sr, ur := c20ReprVar(m), c20ReprVar(s), c20ReprVar(u)
	ok := mr != nil && ur != nil && types.Identical(mr.Type(), reprT) && types.Identical(ur.Type(), reprT)
	why := ""
	if !ok {
		why = "generated code must encode the value MarshalAmino returns and decode into the same repr type (" + engine.TypeName(reprT) + ")"
	}
	// decoder must hand repr to UnmarshalAmino
	if ok && len(u.CallsTo(".UnmarshalAmino")) == 0 {
		ok, why = false, "decoder never calls UnmarshalAmino"
	}
	c.Check("repr-type", name, m.Pos(), ok, why)
	if !ok {
		return
	}
	if st, isStruct := reprT.Underlying().(*types.Struct); isStruct {
		tab, _, probs := c20GoTable(st)
		if len(probs) > 0 {
			c.Undecided("go-table", name, strings.Join(probs, "; "))
			return
		}
		// the encoder inlines the repr struct's fields; the decoder delegates to repr's own decoder
		byName := map[string]c20Field{}
		for _, f := range tab {
			byName[f.Name] = f
		}
		info := m.Info()
		seen := map[string]bool{}
		for _, stmt := range m.Body.List {
			fs := ceKeys(ceDirectFields(info, stmt, mr))
			if len(fs) == 0 {
				continue
			}
			keys, _ := c20KeyCalls(info, stmt)
			good := len(fs) == 1 && len(keys) > 0
			if good {
				w, has := byName[fs[0]]
				good = has && keys[len(keys)-1] == (c20Key{w.Num, w.Typ3})
				seen[fs[0]] = true
			}
			c.Check("marshal-field", name+"(repr)."+join(fs), stmt.Pos(), good, "repr struct field must be emitted under the number/Typ3 of the repr struct's table")
		}
		for _, f := range tab {
			if !seen[f.Name] {
				c.Check("marshal-field", name+"(repr)."+f.Name, m.Pos(), false, "repr struct field not encoded")
			}
		}
		deleg := len(u.CallsTo(".UnmarshalBinary2", c20Amino+".(*Codec).Unmarshal", c20Amino+".(*Codec).UnmarshalReflect")) > 0
		c.Check("unmarshal-delegates", name, u.Pos(), deleg, "struct repr must be decoded by the repr type's own decoder")
		_ = sr
		return
	}
	typ3, ok3 := c20Typ3(reprT, reflect.StructTag(""))
	if !ok3 {
		c.Undecided("go-table", name, "wire type of repr "+engine.TypeName(reprT)+" not derivable")
		return
	}
	c20CheckImplicit(c, name, typ3, c20IsList(reprT), m, u)
}

// c20CheckImplicit: non-struct (repr) types are framed as an implicit struct with
// a single field number 1 — or, for lists of ByteLength elements, as repeated
// field-1 entries; both sides must use number 1 and the same Typ3.
func c20CheckImplicit(c *engine.Ctx, name, typ3 string, isList bool, m, u *engine.Fn) {
	info := m.Info()
	keys, bad := c20KeyCalls(info, m.Body)
	why := ""
	if bad {
		why = "non-constant key arguments"
	}
	mt := map[string]bool{}
	for _, k := range keys {
		if k.Num != 1 {
			why = fmt.Sprintf("implicit struct encoded under field number %d (reflection codec uses 1)", k.Num)
		}
		mt[k.Typ3] = true
	}
	if !isList {
		if len(keys) == 0 {
			why = "no field key emitted"
		} else if last := keys[len(keys)-1]; last.Typ3 != typ3 && why == "" {
			why = "encoder emits " + last.Typ3 + "; reflection codec uses " + typ3
		}
	}
	c.Check("implicit-key", name+" marshal", m.Pos(), why == "", why)
	// decoder: delegating to the reflection decoder is fine; otherwise every
	// `fnum != K` test uses K == 1 and every typ3 test names a Typ3 the encoder emits.
	ui := u.Info()
	if len(u.CallsTo(c20Amino+".(*Codec).UnmarshalReflect", c20Amino+".(*Codec).Unmarshal")) > 0 {
		c.Check("implicit-key", name+" unmarshal", u.Pos(), true, "delegates to the reflection decoder")
		return
	}
	why = ""
	nNum, nTyp := 0, 0
	ast.Inspect(u.Body, func(n ast.Node) bool {
		b, ok := n.(*ast.BinaryExpr)
		if !ok || b.Op != token.NEQ {
			return true
		}
		if id, ok := ast.Unparen(b.X).(*ast.Ident); ok {
			switch id.Name {
			case "fnum":
				nNum++
				if v, ok := ceIntConst(ui, b.Y); !ok || v != 1 {
					why = "decoder expects a field number other than 1"
				}
			case "typ3":
				nTyp++
				t3 := c20Typ3Name(ui, b.Y)
				if t3 == "" || (len(mt) > 0 && !mt[t3]) || (!isList && t3 != typ3) {
					why = "decoder expects " + t3 + " where the encoder emits " + join(ceKeys(mt))
				}
			}
		}
		return true
	})
	if len(keys) > 0 && (nNum == 0 || nTyp == 0) && why == "" {
		why = "decoder does not test field number and wire type of the implicit field"
	}
	c.Check("implicit-key", name+" unmarshal", u.Pos(), why == "", why)
}

// c20SliceGuards: R-PANIC over tm2/pkg/amino/decoder.go — every index/slice of a
// []byte parameter is dominated by a length test that makes it in-range, or uses
// a byte count just returned by a decoder for that same buffer.
func c20SliceGuards(c *engine.Ctx, p *engine.Prog) {
	n := 0
	for _, f := range p.FuncsIn(c20Amino) {
		if f.Decl == nil || ceFileOf(p, f.Pos()) != "decoder.go" {
			continue
		}
		info := f.Info()
		params := map[types.Object]bool{}
		for _, fl := range f.Type.Params.List {
			for _, nm := range fl.Names {
				if o := info.ObjectOf(nm); o != nil {
					if sl, ok := o.Type().Underlying().(*types.Slice); ok {
						if b, ok := sl.Elem().Underlying().(*types.Basic); ok && b.Kind() == types.Uint8 {
							params[o] = true
						}
					}
				}
			}
		}
		if len(params) == 0 {
			continue
		}
		g := f.Graph()
		idx := 0
		engine.InspectBody(f, func(nd ast.Node) {
			var base ast.Expr
			var bounds []ast.Expr
			exclusive := false // index needs len > i ; slice bound needs len >= b
			switch x := nd.(type) {
			case *ast.IndexExpr:
				base, bounds, exclusive = x.X, []ast.Expr{x.Index}, true
			case *ast.SliceExpr:
				base = x.X
				for _, b := range []ast.Expr{x.Low, x.High, x.Max} {
					if b != nil {
						bounds = append(bounds, b)
					}
				}
			default:
				return
			}
			bo := engine.ObjOf(info, base)
			if bo == nil || !params[bo] {
				return
			}
			site := f.SiteOf(nd)
			for _, b := range bounds {
				idx++
				n++
				key := fmt.Sprintf("%s %s[%s]#%d", f.Name, bo.Name(), engine.ExprString(b), idx)
				if site == nil {
					c.Undecided("slice-guard", key, "site not located in CFG")
					continue
				}
				ok, why := c20BoundOK(f, g, site, bo, b, exclusive)
				c.Check("slice-guard", key, nd.Pos(), ok, why)
			}
		})
	}
	c.Floor("slice-guard", n, 14)
}

func c20BoundOK(f *engine.Fn, g *engine.Graph, site *engine.Site, buf types.Object, bound ast.Expr, exclusive bool) (bool, string) {
	info := f.Info()
	need := int64(-1)
	if v, ok := ceIntConst(info, bound); ok {
		if v == 0 && !exclusive {
			return true, "constant 0 bound"
		}
		need = v
		if exclusive {
			need = v + 1
		}
	}
	bv := engine.ObjOf(info, bound)
	// (c) bound is the byte count returned by a decoder applied to the same buffer
	if need < 0 && bv != nil {
		fromDecoder := false
		engine.InspectBody(f, func(nd ast.Node) {
			as, ok := nd.(*ast.AssignStmt)
			if !ok || len(as.Rhs) != 1 {
				return
			}
			call, ok := as.Rhs[0].(*ast.CallExpr)
			if !ok || len(call.Args) < 1 || engine.ObjOf(info, call.Args[0]) != buf {
				return
			}
			cn := ceCallName(info, call)
			if !(strings.HasPrefix(cn, c20Amino+".Decode") || strings.HasPrefix(cn, c20Amino+".decode") || cn == "encoding/binary.Uvarint" || cn == "encoding/binary.Varint") {
				return
			}
			// the consumed-byte count is the result just before the error (amino
			// decoders) resp. the last result (encoding/binary)
			ni := len(as.Lhs) - 2
			if strings.HasPrefix(cn, "encoding/binary.") {
				ni = len(as.Lhs) - 1
			}
			if ni >= 1 && ni < len(as.Lhs) && engine.ObjOf(info, as.Lhs[ni]) == bv {
				if st := f.SiteOf(as); st != nil && g.Dominates(st, site) {
					fromDecoder = true
				}
			}
		})
		if fromDecoder {
			return true, "bound is the consumed-byte count a decoder returned for this buffer"
		}
	}
	// (a)/(b) a dominating gate on the failing branch of which we are not
	for _, gt := range g.Gates(site) {
		var atoms []ast.Expr
		if gt.OnTrue {
			atoms = engine.Conjuncts(gt.Cond, token.LAND)
		} else {
			atoms = engine.Conjuncts(gt.Cond, token.LOR)
		}
		for _, a := range atoms {
			b, ok := ast.Unparen(a).(*ast.BinaryExpr)
			if !ok {
				continue
			}
			l, r, op := b.X, b.Y, b.Op
			if c20IsLenOf(info, r, buf) {
				l, r, op = r, l, engine.Flip(op)
			}
			if !c20IsLenOf(info, l, buf) {
				continue
			}
			if !gt.OnTrue {
				op = engine.Negate(op)
			}
			// now: `len(buf) op r` holds at the site
			if need >= 0 {
				k, isc := ceIntConst(info, r)
				if !isc {
					continue
				}
				switch op {
				case token.GEQ:
					if k >= need {
						return true, fmt.Sprintf("len(%s) >= %d holds", buf.Name(), k)
					}
				case token.GTR:
					if k+1 >= need {
						return true, fmt.Sprintf("len(%s) > %d holds", buf.Name(), k)
					}
				case token.NEQ:
					if k == 0 && need <= 1 {
						return true, "len != 0 holds"
					}
				}
				return false, fmt.Sprintf("length test `%s` leaves len(%s) possibly < %d", engine.ExprString(gt.Cond), buf.Name(), need)
			}
			if bv != nil && c20Strip(info, r) == bv && !exclusive && (op == token.GEQ || op == token.GTR) {
				if ceExprIsBare(info, r, bv) {
					return true, "len(" + buf.Name() + ") >= " + bv.Name() + " holds"
				}
			}
			if bv != nil && engine.Mentions(info, r, bv) {
				return false, "length test `" + engine.ExprString(gt.Cond) + "` does not bound " + bv.Name() + " by len(" + buf.Name() + ")"
			}
		}
	}
	return false, "no dominating length test protects this index/slice"
}

// c20IsLenOf: len(buf) possibly wrapped in an integer conversion.
func c20IsLenOf(info *types.Info, e ast.Expr, buf types.Object) bool {
	e = ast.Unparen(e)
	if engine.IsLenOf(info, e, buf) {
		return true
	}
	if call, ok := e.(*ast.CallExpr); ok && len(call.Args) == 1 {
		if tv, ok := info.Types[call.Fun]; ok && tv.IsType() {
			return engine.IsLenOf(info, call.Args[0], buf)
		}
	}
	return false
}

// c20Strip returns the variable of e, looking through one integer conversion.
func c20Strip(info *types.Info, e ast.Expr) types.Object {
	e = ast.Unparen(e)
	if call, ok := e.(*ast.CallExpr); ok && len(call.Args) == 1 {
		if tv, ok := info.Types[call.Fun]; ok && tv.IsType() {
			e = call.Args[0]
		}
	}
	return engine.ObjOf(info, e)
}

// ceExprIsBare: e is exactly the variable (optionally converted), no arithmetic.
func ceExprIsBare(info *types.Info, e ast.Expr, v types.Object) bool {
	return c20Strip(info, e) == v
}

var _ = sort.Strings
