package checks

import (
	"go/ast"
	"go/constant"
	"go/token"
	"go/types"

	"golang.org/x/tools/go/cfg"

	"gnoverif/engine"
)

// C25 — Merkle proofs: the verifiers return success only behind their hash
// comparisons; failure sentinels are not compared as hashes; domain prefixes
// are distinct; the ics23 verdict is returned unmodified.
func init() {
	register("C25", c25)
	meta("C25", Meta{
		Text:      "Thin claim. Decides on all paths of the verifier functions: (1) SimpleProof.Verify returns nil only behind both bytes.Equal tests (leaf hash recomputed from the leaf argument; computed root vs expected root) and — because computeHashFromAunts signals a malformed proof by returning nil — behind a test that the computed root is not that sentinel; (2) computeHashFromAunts hashes only behind the index/total range test and the aunt-count tests; (3) leaf and inner domain prefixes are distinct constants, each hashing function uses only its own, nobody writes them (crypto/merkle and bptree, incl. BptreeSpec and the generated InnerOps); (4) the bptree CommitmentOp.Run returns a root only behind ics23.VerifyMembership/VerifyNonMembership called with BptreeSpec, the calculated root, the op's own key and proof; ImmutableTree.Verify(Non)Membership return the ics23 verdict unmodified; (5) ProofOperators.Verify, SimpleValueOp.Run, MultiStoreProofOp.Run, TxProof.Validate and PartSet.AddPart accept only behind their comparison / Verify call. Level 'other': necessary code-shape conditions of soundness.",
		Note:      "Not covered: soundness/completeness proper (collision resistance, second-preimage reasoning over the tree shape, ics23 library internals, non-membership neighbour selection), amino decoding of proofs, IAVL proof code.",
		Technique: "go/cfg checked-guard analysis (result of a comparison gates the success return with the right polarity), constant evaluation, reference tables",
		Ref:       "DESIGN.md §2 C25",
	})
	const sp = "tm2/pkg/crypto/merkle/simple_proof.go"
	mutants("C25",
		Mutant{"leafhash-test-dropped", sp, "\tif !bytes.Equal(sp.LeafHash, leafHash) {\n\t\treturn errors.New(\"invalid leaf hash", "\tif !bytes.Equal(sp.LeafHash, leafHash) && sp.Total > 1<<40 {\n\t\treturn errors.New(\"invalid leaf hash", "simple-verify tm2/pkg/crypto/merkle.(*SimpleProof).Verify leaf-hash comparison"},
		Mutant{"root-test-inverted", sp, "\tif !bytes.Equal(computedHash, rootHash) {", "\tif bytes.Equal(computedHash, rootHash) && len(rootHash) == 0 {", "simple-verify tm2/pkg/crypto/merkle.(*SimpleProof).Verify root comparison"},
		Mutant{"nil-root-sentinel-unchecked", sp, "\tif computedHash == nil {", "\tif computedHash == nil && sp.Total < 0 {", "simple-verify-sentinel"},
		Mutant{"leaf-not-rehashed", sp, "\tleafHash := leafHash(leaf)\n\tif sp.Total < 0 {", "\tleafHash := sp.LeafHash\n\t_ = leaf\n\tif sp.Total < 0 {", "simple-verify tm2/pkg/crypto/merkle.(*SimpleProof).Verify leaf hash recomputed"},
		Mutant{"range-test-weakened", sp, "\tif index >= total || index < 0 || total <= 0 {\n\t\treturn nil\n\t}", "\tif index > total || index < 0 || total <= 0 {\n\t\treturn nil\n\t}", "range-before-hash"},
		Mutant{"aunt-count-unchecked", sp, "\t\tif len(innerHashes) != 0 {\n\t\t\treturn nil\n\t\t}\n\t\treturn leafHash", "\t\treturn leafHash", "aunt-count"},
		Mutant{"same-prefix", "tm2/pkg/crypto/merkle/hash.go", "\tinnerPrefix = []byte{1}", "\tinnerPrefix = []byte{0}", "prefix-distinct"},
		Mutant{"bptree-domain-collision", "tm2/pkg/bptree/const.go", "\tDomainInner byte = 0x01", "\tDomainInner byte = 0x00", "prefix-distinct"},
		Mutant{"ics23-verdict-ignored", "tm2/pkg/store/bptree/store.go", "\t\tif !ics23.VerifyMembership(bp.BptreeSpec, root, op.Proof, op.Key, args[0]) {", "\t\tif !ics23.VerifyMembership(bp.BptreeSpec, root, op.Proof, op.Key, args[0]) && len(op.Key) == 0 {", "ics23-verdict"},
		Mutant{"ics23-wrong-key", "tm2/pkg/store/bptree/store.go", "\t\tif !ics23.VerifyNonMembership(bp.BptreeSpec, root, op.Proof, op.Key) {", "\t\tif !ics23.VerifyNonMembership(bp.BptreeSpec, root, op.Proof, op.Proof.GetNonexist().Key) {", "ics23-verdict"},
		Mutant{"multistore-hash-unchecked", "tm2/pkg/store/rootmulti/proof.go", "\t\t\tif bytes.Equal(value, si.Core.CommitID.Hash) {", "\t\t\tif bytes.Equal(value, si.Core.CommitID.Hash) || len(value) == 0 {", "op-accepts"},
		Mutant{"addpart-proof-unchecked", "tm2/pkg/bft/types/part_set.go", "\tif part.Proof.Verify(ps.Hash(), part.Bytes) != nil {\n\t\treturn false, ErrPartSetInvalidProof\n\t}", "\tif part.Proof.Verify(ps.Hash(), part.Bytes) != nil && ps.count > 0 {\n\t\treturn false, ErrPartSetInvalidProof\n\t}", "op-accepts"},
	)
}

// tgEqualGuard: the target is reached only when a bytes.Equal call satisfying
// pick is true (plain test, not weakened by other atoms).
func tgEqualGuard(f *engine.Fn, target *engine.Site, pick func(call *ast.CallExpr) bool) (bool, string) {
	g := f.Graph()
	seen := false
	for _, s := range f.CallsTo("bytes.Equal") {
		if !pick(s.Call) {
			continue
		}
		seen = true
		r := g.CheckedGuard(s, target)
		if !r.OK {
			continue
		}
		if len(engine.Atoms(r.Cond)) != 1 {
			return false, "comparison is combined with another condition: `" + engine.ExprString(r.Cond) + "`"
		}
		if isNot(r.Cond) == r.OnTrue {
			return false, "success is reached when the comparison FAILS (`" + engine.ExprString(r.Cond) + "`)"
		}
		return true, "reached only when `" + engine.ExprString(s.Call) + "` holds"
	}
	if !seen {
		return false, "no such bytes.Equal comparison in the function"
	}
	return false, "the comparison does not gate the success return"
}

func tgSuccessReturns(f *engine.Fn) []*engine.Site {
	var out []*engine.Site
	for _, r := range tgReturnSites(f) {
		if tgReturnsNilErr(r.Node.(*ast.ReturnStmt)) {
			out = append(out, r)
		}
	}
	return out
}

// tgAssignedFromCall: local object o is assigned (anywhere in f) only from
// calls whose resolved name matches pats; returns false if any other assignment exists.
func tgAssignedFromCall(f *engine.Fn, o types.Object, pats ...string) bool {
	if o == nil {
		return false
	}
	info := f.Info()
	n, ok := 0, true
	engine.InspectBody(f, func(nd ast.Node) {
		as, isAs := nd.(*ast.AssignStmt)
		if !isAs {
			return
		}
		for i, l := range as.Lhs {
			if engine.ObjOf(info, l) != o {
				continue
			}
			n++
			var rhs ast.Expr
			if len(as.Rhs) == len(as.Lhs) {
				rhs = as.Rhs[i]
			} else if len(as.Rhs) == 1 {
				rhs = as.Rhs[0]
			}
			call, isCall := ast.Unparen(rhs).(*ast.CallExpr)
			if !isCall {
				ok = false
				continue
			}
			s := f.SiteOf(call)
			if s == nil || !engine.MatchName(s.CalleeName(), pats...) {
				ok = false
			}
		}
	})
	return n > 0 && ok
}

func c25(c *engine.Ctx) {
	c.Explain = "Thin claim: decides that each proof verifier reaches its success return only behind its hash comparison(s) with the right polarity and unweakened, that the nil failure sentinel of computeHashFromAunts is excluded before it is compared as a hash, that hashing happens only behind the range/aunt-count tests, that leaf/inner domain prefixes are distinct and used by the right function only, and that the bptree proof op returns the ics23 verdict unmodified for its own key, proof and BptreeSpec. Not covered: soundness/completeness proper (hash-function reasoning), ics23 internals, IAVL proofs."
	p := c.Load("tm2/pkg/crypto/merkle", "tm2/pkg/bptree", "tm2/pkg/store/bptree", "tm2/pkg/store/rootmulti", "tm2/pkg/bft/types")
	if p == nil {
		return
	}
	const M = "tm2/pkg/crypto/merkle."

	// ---- (1) SimpleProof.Verify
	if f := c.MustFunc(M + "(*SimpleProof).Verify"); f != nil {
		info := f.Info()
		rootP, leafP := paramObj(f, 0), paramObj(f, 1)
		succ := tgSuccessReturns(f)
		c.Floor("simple-verify", len(succ), 1)
		var computed types.Object
		for _, s := range f.CallsTo(M + "(*SimpleProof).ComputeRootHash") {
			if as, ok := s.Top.(*ast.AssignStmt); ok && len(as.Lhs) == 1 {
				computed = engine.ObjOf(info, as.Lhs[0])
			}
		}
		for _, r := range succ {
			ok, why := tgEqualGuard(f, r, func(call *ast.CallExpr) bool {
				return engine.MentionsName(call, "LeafHash")
			})
			c.Check("simple-verify", f.Name+" leaf-hash comparison gates success", r.Pos(), ok, why)
			// the other operand is leafHash(leaf)
			okL := false
			for _, s := range f.CallsTo("bytes.Equal") {
				if !engine.MentionsName(s.Call, "LeafHash") {
					continue
				}
				for _, a := range s.Call.Args {
					if o := engine.ObjOf(info, a); o != nil {
						if _, isVar := o.(*types.Var); isVar && !o.(*types.Var).IsField() {
							if tgAssignedFromCall(f, o, M+"leafHash") {
								for _, lh := range f.CallsTo(M + "leafHash") {
									if len(lh.Call.Args) == 1 && engine.ObjOf(info, lh.Call.Args[0]) == leafP {
										okL = true
									}
								}
							}
						}
					}
				}
			}
			c.Check("simple-verify", f.Name+" leaf hash recomputed from the leaf argument", r.Pos(), okL, "sp.LeafHash must be compared with leafHash(leaf), not with data from the proof")
			ok2, why2 := tgEqualGuard(f, r, func(call *ast.CallExpr) bool {
				return engine.Mentions(info, call, rootP) && computed != nil && engine.Mentions(info, call, computed)
			})
			c.Check("simple-verify", f.Name+" root comparison gates success", r.Pos(), ok2, why2)
			// sentinel: computeHashFromAunts returns nil for malformed proofs; nil equals an empty expected root
			okS := false
			whyS := "ComputeRootHash() returns nil for a malformed proof (Total<=0, Index>=Total, wrong aunt count) and bytes.Equal(nil, emptyRoot) is true: the computed root (or the expected root) must be tested for emptiness before success"
			for _, gt := range f.Graph().Gates(r) {
				if _, isCall := ast.Unparen(tgStripNot(gt.Cond)).(*ast.CallExpr); isCall {
					continue // the bytes.Equal tests themselves
				}
				for _, a := range engine.Atoms(gt.Cond) {
					b, isB := ast.Unparen(a).(*ast.BinaryExpr)
					if !isB {
						continue
					}
					mentions := (computed != nil && engine.Mentions(info, b, computed)) || engine.Mentions(info, b, rootP)
					emptiness := isNil(b.Y) || isNil(b.X) || tgIsLenCall(info, b.X) || tgIsLenCall(info, b.Y)
					if mentions && emptiness {
						// success must lie on the non-empty side
						nonEmptyWhenTrue := b.Op == token.NEQ || b.Op == token.GTR
						if len(engine.Atoms(gt.Cond)) == 1 && nonEmptyWhenTrue == gt.OnTrue {
							okS, whyS = true, "success only when `"+engine.ExprString(gt.Cond)+"` is "+tgBoolStr(gt.OnTrue)
						}
					}
				}
			}
			c.Check("simple-verify-sentinel", f.Name+" result of ComputeRootHash", r.Pos(), okS, whyS)
		}
	}

	// ---- (2) computeHashFromAunts
	if f := c.MustFunc(M + "computeHashFromAunts"); f != nil {
		info := f.Info()
		idx, tot, lh, ih := paramObj(f, 0), paramObj(f, 1), paramObj(f, 2), paramObj(f, 3)
		var targets []*engine.Site
		targets = append(targets, f.CallsTo(M+"innerHash", M+"computeHashFromAunts")...)
		// the base-case return of the leaf hash
		var baseRet []*engine.Site
		for _, r := range tgReturnSites(f) {
			rs := r.Node.(*ast.ReturnStmt)
			if len(rs.Results) == 1 && engine.ObjOf(info, rs.Results[0]) == lh {
				baseRet = append(baseRet, r)
			}
		}
		targets = append(targets, baseRet...)
		c.Floor("range-before-hash", len(targets), 5)
		cmp := func(e ast.Expr, x types.Object, op token.Token, y types.Object, yZero bool) bool {
			b, ok := ast.Unparen(e).(*ast.BinaryExpr)
			if !ok {
				return false
			}
			match := func(l, r ast.Expr, o token.Token) bool {
				if o != op || engine.ObjOf(info, l) != x {
					return false
				}
				if yZero {
					tv := info.Types[r]
					return tv.Value != nil && constant.Sign(tv.Value) == 0
				}
				return engine.ObjOf(info, r) == y
			}
			return match(b.X, b.Y, b.Op) || match(b.Y, b.X, engine.Flip(b.Op))
		}
		for _, t := range targets {
			need := map[string]bool{"index >= total": false, "index < 0": false, "total <= 0": false}
			for _, gt := range f.Graph().Gates(t) {
				if gt.OnTrue {
					continue
				}
				for _, a := range engine.Conjuncts(gt.Cond, token.LOR) {
					switch {
					case cmp(a, idx, token.GEQ, tot, false):
						need["index >= total"] = true
					case cmp(a, idx, token.LSS, nil, true):
						need["index < 0"] = true
					case cmp(a, tot, token.LEQ, nil, true) || cmp(a, tot, token.LSS, nil, true) && false:
						need["total <= 0"] = true
					}
				}
			}
			var missing []string
			for _, k := range engine.SortedKeys(need) {
				if !need[k] {
					missing = append(missing, k)
				}
			}
			c.Check("range-before-hash", f.Name+" "+tgTargetKey(t), t.Pos(), len(missing) == 0, "hashing must be behind the failing side of `index >= total || index < 0 || total <= 0`; missing: "+join(missing))
		}
		// aunt-count: base case requires no aunts left; inner case requires at least one
		lenIs := func(e ast.Expr, op token.Token) bool {
			b, ok := ast.Unparen(e).(*ast.BinaryExpr)
			if !ok || b.Op != op || !engine.IsLenOf(info, b.X, ih) {
				return false
			}
			tv := info.Types[b.Y]
			return tv.Value != nil && constant.Sign(tv.Value) == 0
		}
		n := 0
		for _, r := range baseRet {
			n++
			gt, ok := tgGateOn(f, r, func(e ast.Expr) bool { return lenIs(e, token.NEQ) })
			c.Check("aunt-count", f.Name+" base case returns the leaf hash only with no aunts left", r.Pos(), ok && !gt.OnTrue, "`return leafHash` must be on the false side of `len(innerHashes) != 0`")
		}
		for _, t := range f.CallsTo(M + "innerHash") {
			n++
			gt, ok := tgGateOn(f, t, func(e ast.Expr) bool { return lenIs(e, token.EQL) })
			c.Check("aunt-count", f.Name+" inner case consumes an aunt only if one is left", t.Pos(), ok && !gt.OnTrue, "innerHash must be on the false side of `len(innerHashes) == 0`")
		}
		c.Floor("aunt-count", n, 3)
	}

	// ---- (3) prefixes
	{
		pk := p.Pkg("tm2/pkg/crypto/merkle")
		vals := map[string]constant.Value{}
		if pk != nil {
			for _, file := range pk.Syntax {
				ast.Inspect(file, func(n ast.Node) bool {
					vs, ok := n.(*ast.ValueSpec)
					if !ok {
						return true
					}
					for i, nm := range vs.Names {
						if (nm.Name == "leafPrefix" || nm.Name == "innerPrefix") && i < len(vs.Values) {
							if cl, ok := vs.Values[i].(*ast.CompositeLit); ok && len(cl.Elts) == 1 {
								vals[nm.Name] = pk.TypesInfo.Types[cl.Elts[0]].Value
							}
						}
					}
					return true
				})
			}
		}
		ok := vals["leafPrefix"] != nil && vals["innerPrefix"] != nil && !constant.Compare(vals["leafPrefix"], token.EQL, vals["innerPrefix"])
		c.Check("prefix-distinct", M+"leafPrefix vs innerPrefix", token.NoPos, ok, "one-byte domain prefixes must be present and different")
		for _, nm := range []string{"leafPrefix", "innerPrefix"} {
			o := p.Object(M + nm)
			users := map[string]bool{}
			written := ""
			for _, r := range p.RefsTo(func(x types.Object) bool { return x == o && o != nil }) {
				if r.Fn == nil {
					continue
				}
				users[r.Fn.Root().Name] = true
				// any use other than as first argument of append is suspicious
				okUse := false
				engine.InspectBody(r.Fn, func(n ast.Node) {
					if call, isCall := n.(*ast.CallExpr); isCall && engine.IsBuiltinCall(r.Fn.Info(), call, "append") && len(call.Args) > 0 && call.Args[0] == ast.Expr(r.Ident) {
						okUse = true
					}
				})
				if !okUse {
					written = r.Fn.Name
				}
			}
			want := M + "leafHash"
			if nm == "innerPrefix" {
				want = M + "innerHash"
			}
			us := engine.SortedKeys(users)
			c.Check("prefix-distinct", M+nm+" used only by "+want, token.NoPos, o != nil && len(us) == 1 && us[0] == want && written == "", "users: "+join(us)+tgIf(written != "", "; non-append use in "+written))
		}
		// bptree domains
		var dv []constant.Value
		for _, nm := range []string{"DomainLeaf", "DomainInner", "DomainEmpty"} {
			k, _ := p.Object("tm2/pkg/bptree." + nm).(*types.Const)
			if k == nil {
				c.Undecided("anchor", "tm2/pkg/bptree."+nm, "constant not found")
				continue
			}
			dv = append(dv, k.Val())
		}
		if len(dv) == 3 {
			ok := !constant.Compare(dv[0], token.EQL, dv[1]) && !constant.Compare(dv[0], token.EQL, dv[2]) && !constant.Compare(dv[1], token.EQL, dv[2])
			c.Check("prefix-distinct", "tm2/pkg/bptree.DomainLeaf/DomainInner/DomainEmpty", token.NoPos, ok, "domain separators must be pairwise distinct")
		}
		uses := func(fn string, want string, forbid ...string) {
			f := c.MustFunc(fn)
			if f == nil {
				return
			}
			has := engine.MentionsName(f.Body, want)
			bad := ""
			for _, x := range forbid {
				if engine.MentionsName(f.Body, x) {
					bad = x
				}
			}
			c.Check("prefix-distinct", fn+" uses "+want+" only", f.Pos(), has && bad == "", "must mention "+want+tgIf(bad != "", " and not "+bad))
		}
		uses("tm2/pkg/bptree.HashLeafSlotFromValueHash", "DomainLeaf", "DomainInner", "DomainEmpty")
		uses("tm2/pkg/bptree.HashInner", "DomainInner", "DomainLeaf", "DomainEmpty")
		uses("tm2/pkg/bptree.miniMerkleInnerOps", "DomainInner", "DomainLeaf", "DomainEmpty")
		// BptreeSpec: leaf prefix literal {DomainLeaf}
		if pk := p.Pkg("tm2/pkg/bptree"); pk != nil {
			okSpec := false
			for _, file := range pk.Syntax {
				ast.Inspect(file, func(n ast.Node) bool {
					vs, ok := n.(*ast.ValueSpec)
					if !ok || len(vs.Names) != 1 || vs.Names[0].Name != "BptreeSpec" {
						return true
					}
					ast.Inspect(vs, func(m ast.Node) bool {
						kv, ok := m.(*ast.KeyValueExpr)
						if !ok {
							return true
						}
						if id, ok := kv.Key.(*ast.Ident); ok && id.Name == "Prefix" {
							if cl, ok := kv.Value.(*ast.CompositeLit); ok && len(cl.Elts) == 1 {
								if eid, ok := cl.Elts[0].(*ast.Ident); ok && eid.Name == "DomainLeaf" {
									okSpec = true
								}
							}
						}
						return true
					})
					return false
				})
			}
			c.Check("prefix-distinct", "tm2/pkg/bptree.BptreeSpec.LeafSpec.Prefix = {DomainLeaf}", token.NoPos, okSpec, "the ics23 leaf spec must use the leaf domain separator")
		}
	}

	// ---- (4) ics23 verdict
	const SB = "tm2/pkg/store/bptree."
	const ICS = "github.com/cosmos/ics23/go."
	specObj := p.Object("tm2/pkg/bptree.BptreeSpec")
	if f := c.MustFunc(SB + "(CommitmentOp).Run"); f != nil {
		info := f.Info()
		g := f.Graph()
		succ := tgSuccessReturns(f)
		// the verification may sit in Run itself or in a private helper it calls (helper-transparent)
		ds := f.DeepCallsTo(2, ICS+"VerifyMembership", ICS+"VerifyNonMembership")
		c.Floor("ics23-verdict", len(ds), 2)
		c.Floor("ics23-verdict returns", len(succ), 1)
		keyF := p.Field(SB + "CommitmentOp.Key")
		proofF := p.Field(SB + "CommitmentOp.Proof")
		var rootVar types.Object
		for _, s := range f.CallsTo(ICS + "(*CommitmentProof).Calculate") {
			if as, ok := s.Top.(*ast.AssignStmt); ok && len(as.Lhs) >= 1 {
				if se, ok := ast.Unparen(s.Call.Fun).(*ast.SelectorExpr); ok && tgSelField(info, se.X) == proofF {
					rootVar = engine.ObjOf(info, as.Lhs[0])
				}
			}
		}
		// build the level chain of a deep site
		levelOf := func(d engine.DeepSite) *tgLevel {
			l := &tgLevel{F: f}
			cur := f
			for _, h := range d.Chain {
				var site *engine.Site
				for _, s := range cur.Calls() {
					if fn, _ := s.Callee.(*types.Func); fn != nil && p.FnOf(fn) == h {
						if cur != f || s == d.Outer {
							site = s
						}
					}
				}
				if site == nil {
					return nil
				}
				l = &tgLevel{F: h, Parent: l, Call: site.Call, Site: site}
				cur = h
			}
			return l
		}
		for _, r := range succ {
			okPass := g.MustPass(r, engine.Outers(ds))
			// inside a helper every success return must itself pass a verification
			for _, d := range ds {
				if l := levelOf(d); l != nil && l.Parent != nil {
					var inner []*engine.Site
					for _, d2 := range ds {
						if l2 := levelOf(d2); l2 != nil && l2.F == l.F {
							inner = append(inner, d2.Inner)
						}
					}
					for _, hr := range tgSuccessReturns(l.F) {
						if !l.F.Graph().MustPass(hr, inner) {
							okPass = false
						}
					}
				}
			}
			c.Check("ics23-verdict", f.Name+" success passes an ics23 verification", r.Pos(), okPass, "every path to the success return must call VerifyMembership or VerifyNonMembership (directly or in a helper whose own success returns all pass one)")
			// the returned root is the calculated one
			rs := r.Node.(*ast.ReturnStmt)
			c.Check("ics23-verdict", f.Name+" returns the calculated root", r.Pos(), rootVar != nil && len(rs.Results) > 0 && engine.Mentions(info, rs.Results[0], rootVar), "the op must hand the root calculated from its own proof to the next operator")
			for _, d := range ds {
				v := d.Inner
				name := v.CalleeName()[len(ICS):]
				l := levelOf(d)
				if l == nil {
					c.Check("ics23-verdict", f.Name+" verdict of "+name+" gates success", v.Pos(), false, "helper chain could not be followed")
					continue
				}
				ok := true
				why := "success only when the ics23 verdict is true"
				verdict := func(fn *engine.Fn, target *engine.Site) {
					res := tgCondCallGate(fn, v, target)
					if !(res.OK && len(engine.Atoms(res.Cond)) == 1 && isNot(res.Cond) != res.OnTrue) {
						ok = false
						why = "the ics23 verdict does not (alone, with the right polarity) gate the success return"
						if res.OK {
							why += ": `" + engine.ExprString(res.Cond) + "`"
						}
					}
				}
				if l.Parent == nil {
					verdict(f, r)
				} else {
					n := 0
					for _, hr := range tgSuccessReturns(l.F) {
						if l.F.Graph().ReachableAfter(v, hr) {
							n++
							verdict(l.F, hr)
						}
					}
					if n == 0 {
						ok, why = false, "the helper has no success return after the verification"
					}
					// every helper on the chain reports failure as an error that the caller tests
					for x := l; x.Parent != nil; x = x.Parent {
						var targets []*engine.Site
						if x.Parent.F == f {
							targets = []*engine.Site{r}
						} else {
							targets = tgSuccessReturns(x.Parent.F)
						}
						for _, t := range targets {
							if !tgErrChecked(x.Parent.F, x.Site, t) {
								ok, why = false, "the error of helper "+x.F.Name+" is not tested before success"
							}
						}
					}
				}
				c.Check("ics23-verdict", f.Name+" verdict of "+name+" gates success", v.Pos(), ok, why)
				// arguments, with helper parameters resolved to the arguments passed by Run
				a := v.Call.Args
				recvField := func(e ast.Expr, fld *types.Var) bool {
					x := l
					se, isSel := ast.Unparen(e).(*ast.SelectorExpr)
					if !isSel || fld == nil || tgSelField(x.F.Info(), e) != fld {
						return false
					}
					base := engine.ObjOf(x.F.Info(), se.X)
					for {
						if x.F.Decl == nil || x.F.Decl.Recv == nil || len(x.F.Decl.Recv.List) == 0 || len(x.F.Decl.Recv.List[0].Names) == 0 {
							return false
						}
						if base == nil || x.F.Info().ObjectOf(x.F.Decl.Recv.List[0].Names[0]) != base {
							return false
						}
						if x.Parent == nil {
							return true
						}
						cs, isSel := ast.Unparen(x.Call.Fun).(*ast.SelectorExpr)
						if !isSel {
							return false
						}
						base = engine.ObjOf(x.Parent.F.Info(), cs.X)
						x = x.Parent
					}
				}
				okA := len(a) >= 4 && specObj != nil && engine.ObjOf(l.F.Info(), a[0]) == specObj
				if okA {
					ro, rl := tgResolveObj(l, engine.ObjOf(l.F.Info(), a[1]))
					okA = rootVar != nil && ro == rootVar && rl.Parent == nil
				}
				okA = okA && recvField(a[2], proofF) && recvField(a[3], keyF)
				if okA && len(a) == 5 {
					ix, isIx := ast.Unparen(a[4]).(*ast.IndexExpr)
					okA = false
					if isIx {
						if tv := l.F.Info().Types[ix.Index]; tv.Value != nil && tv.Value.String() == "0" {
							ao, al := tgResolveObj(l, engine.ObjOf(l.F.Info(), ix.X))
							okA = ao == paramObj(f, 0) && al.Parent == nil
						}
					}
				}
				c.Check("ics23-verdict", f.Name+" arguments of "+name, v.Pos(), okA, "must be (bptree.BptreeSpec, calculated root, op.Proof, op.Key[, args[0]])")
			}
		}
	}
	for _, nm := range []string{"VerifyMembership", "VerifyNonMembership"} {
		f := c.MustFunc("tm2/pkg/bptree.(*ImmutableTree)." + nm)
		if f == nil {
			continue
		}
		info := f.Info()
		n := 0
		for _, r := range tgSuccessReturns(f) {
			rs := r.Node.(*ast.ReturnStmt)
			n++
			call, isCall := ast.Unparen(rs.Results[0]).(*ast.CallExpr)
			ok := false
			if isCall {
				if s := f.SiteOf(call); s != nil && s.CalleeName() == ICS+nm && len(call.Args) >= 4 {
					ok = engine.ObjOf(info, call.Args[0]) == specObj && engine.ObjOf(info, call.Args[2]) == paramObj(f, 0) && engine.ObjOf(info, call.Args[3]) == paramObj(f, 1) &&
						tgAssignedFromCall(f, engine.ObjOf(info, call.Args[1]), "tm2/pkg/bptree.(*ImmutableTree).Hash")
				}
			}
			c.Check("ics23-verdict", f.Name+" returns the ics23 verdict unmodified", r.Pos(), ok, "the nil-error return must be `ics23."+nm+"(BptreeSpec, t.Hash(), proof, key…), nil`")
		}
		c.Floor("ics23-verdict "+nm, n, 1)
	}

	// ---- (5) other acceptors
	type acc struct {
		fn   string
		what string
		pick func(f *engine.Fn, call *ast.CallExpr) bool
	}
	accs := []acc{
		{M + "(ProofOperators).Verify", "calculated root equals the trusted root", func(f *engine.Fn, call *ast.CallExpr) bool {
			return engine.Mentions(f.Info(), call, paramObj(f, 0))
		}},
		{M + "(SimpleValueOp).Run", "recomputed kv hash equals the proof's leaf hash", func(f *engine.Fn, call *ast.CallExpr) bool {
			return engine.MentionsName(call, "LeafHash")
		}},
		{"tm2/pkg/store/rootmulti.(MultiStoreProofOp).Run", "sub-store hash equals the value proven by the previous op", func(f *engine.Fn, call *ast.CallExpr) bool {
			return engine.MentionsName(call, "Hash") && engine.MentionsName(call, "value")
		}},
	}
	n := 0
	for _, a := range accs {
		f := c.MustFunc(a.fn)
		if f == nil {
			continue
		}
		for _, r := range tgSuccessReturns(f) {
			n++
			ok, why := tgEqualGuard(f, r, func(call *ast.CallExpr) bool { return a.pick(f, call) })
			c.Check("op-accepts", f.Name+" "+a.what, r.Pos(), ok, why)
		}
	}
	if f := c.MustFunc(M + "(ProofOperators).Verify"); f != nil {
		// all key-path parts consumed
		info := f.Info()
		for _, r := range tgSuccessReturns(f) {
			n++
			gt, ok := tgGateOn(f, r, func(e ast.Expr) bool {
				b, isB := ast.Unparen(e).(*ast.BinaryExpr)
				if !isB || b.Op != token.NEQ {
					return false
				}
				call, isCall := ast.Unparen(b.X).(*ast.CallExpr)
				return isCall && engine.IsBuiltinCall(info, call, "len") && engine.MentionsName(call, "keys")
			})
			c.Check("op-accepts", f.Name+" key path fully consumed", r.Pos(), ok && !gt.OnTrue, "success must be on the false side of `len(keys) != 0`")
		}
	}
	// TxProof.Validate and PartSet.AddPart: accept only if SimpleProof.Verify returned nil
	if f := c.MustFunc("tm2/pkg/bft/types.(TxProof).Validate"); f != nil {
		g := f.Graph()
		vs := f.CallsTo(M + "(*SimpleProof).Verify")
		for _, r := range tgSuccessReturns(f) {
			n++
			ok := false
			for _, v := range vs {
				if res := g.CheckedGuard(v, r); res.OK && len(engine.Atoms(res.Cond)) == 1 && tgIsNilCmp(res.Cond, token.NEQ) && !res.OnTrue {
					ok = true
				}
			}
			c.Check("op-accepts", f.Name+" Proof.Verify gates success", r.Pos(), ok, "success must be on the false side of a plain `Verify(...) != nil` test")
			ok2, why2 := tgEqualGuard(f, r, func(call *ast.CallExpr) bool { return engine.Mentions(f.Info(), call, paramObj(f, 0)) })
			c.Check("op-accepts", f.Name+" data hash equals the proof's root", r.Pos(), ok2, why2)
		}
	}
	if f := c.MustFunc("tm2/pkg/bft/types.(*PartSet).AddPart"); f != nil {
		g := f.Graph()
		vs := f.CallsTo(M + "(*SimpleProof).Verify")
		partsF := p.Field("tm2/pkg/bft/types.PartSet.parts")
		k := 0
		for _, w := range p.FieldWrites(partsF) {
			if w.Fn != f || w.Direct {
				continue
			}
			k++
			n++
			s := f.SiteOf(w.Node)
			ok := false
			for _, v := range vs {
				if s == nil {
					break
				}
				if res := g.CheckedGuard(v, s); res.OK && len(engine.Atoms(res.Cond)) == 1 && tgIsNilCmp(res.Cond, token.NEQ) && !res.OnTrue {
					// verified against the set's own hash and the part's own bytes
					ok = len(v.Call.Args) == 2 && engine.MentionsName(v.Call.Args[0], "Hash") && engine.MentionsName(v.Call.Args[1], "Bytes")
				}
			}
			c.Check("op-accepts", f.Name+" part stored only after Proof.Verify", w.Node.Pos(), ok, "ps.parts[i] = part must be on the false side of a plain `part.Proof.Verify(ps.Hash(), part.Bytes) != nil` test")
		}
		c.Floor("op-accepts AddPart", k, 1)
	}
	c.Floor("op-accepts", n, 6)
	tgDebug(c)
}

// tgCondCallGate: the call is (part of) a branching condition; exactly one
// branch of that condition can reach the target. Unlike CheckedGuard the call
// need not dominate the target (it may sit in one case of a switch).
func tgCondCallGate(f *engine.Fn, call, target *engine.Site) engine.GuardResult {
	g := f.Graph()
	b := call.Block
	if len(b.Succs) != 2 || len(b.Nodes) == 0 {
		return engine.GuardResult{Why: "the call is not a branching condition"}
	}
	cond, ok := b.Nodes[len(b.Nodes)-1].(ast.Expr)
	if !ok || !(cond.Pos() <= call.Node.Pos() && call.Node.End() <= cond.End()) {
		return engine.GuardResult{Why: "the call's result is not tested directly"}
	}
	avoid := map[*cfg.Block]bool{b: true}
	t := b.Succs[0] == target.Block || g.Reach(b.Succs[0], target.Block, avoid)
	fl := b.Succs[1] == target.Block || g.Reach(b.Succs[1], target.Block, avoid)
	if t != fl {
		return engine.GuardResult{OK: true, Cond: cond, OnTrue: t}
	}
	return engine.GuardResult{Why: "both branches of the test reach the target"}
}

func tgStripNot(e ast.Expr) ast.Expr {
	if u, ok := ast.Unparen(e).(*ast.UnaryExpr); ok && u.Op == token.NOT {
		return u.X
	}
	return e
}

func tgIsLenCall(info *types.Info, e ast.Expr) bool {
	call, ok := ast.Unparen(e).(*ast.CallExpr)
	return ok && engine.IsBuiltinCall(info, call, "len")
}

func tgBoolStr(b bool) string {
	if b {
		return "true"
	}
	return "false"
}

func tgIsNilCmp(e ast.Expr, op token.Token) bool {
	b, ok := ast.Unparen(e).(*ast.BinaryExpr)
	return ok && b.Op == op && (isNil(b.Y) || isNil(b.X))
}

// tgTargetKey names a call or return target without positions.
func tgTargetKey(s *engine.Site) string {
	if s.Call != nil {
		// distinguish the two recursive/inner calls by their first argument
		arg := ""
		if len(s.Call.Args) > 0 {
			arg = engine.ExprString(s.Call.Args[0])
		}
		return "call " + s.CalleeName() + "(" + arg + ", …)"
	}
	if r, ok := s.Node.(*ast.ReturnStmt); ok {
		return tgRetKey(r)
	}
	return "site"
}
