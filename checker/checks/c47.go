package checks

import (
	"bytes"
	"fmt"
	"go/ast"
	"go/printer"
	"go/token"
	"go/types"
	"strings"

	"golang.org/x/tools/go/ssa"

	"gnoverif/engine"
)

// C47 — authenticated ciphers: xsalsa20symmetric and xchacha20poly1305 wrappers.
func init() {
	register("C47", c47)
	meta("C47", Meta{
		Text:      "Decides the wrapper-level necessary conditions; Poly1305/XSalsa20/ChaCha20 themselves are library code and not analysed. DecryptSymmetric returns plaintext only on secretbox.Open's true verdict and returns the buffer Open wrote; its length guard admits exactly the lengths that are safe to slice AND every length EncryptSymmetric can produce (minimum = nonceLen+Overhead, the sealed empty plaintext); writer and reader agree on the nonce/box layout. xchacha20poly1305.Open returns either (nil, error) or the library's own (plaintext, error) pair; Seal and Open test len(nonce) == NonceSize before slicing, derive sub-key and sub-nonce with identical operands (HChaCha20 inputs, 16/8 split, 4 zero bytes) and pass dst/AD through. Level 'other'.",
		Note:      "Not covered: that tampering is detected (the MAC's property), HChaCha20 round function correctness (vector tests), nonce uniqueness/randomness.",
		Technique: "go/ssa verdict gating, constant length-threshold comparison between writer and reader, sibling argument comparison",
		Ref:       "DESIGN.md §2 C47",
	})
	const sf = "tm2/pkg/crypto/xsalsa20symmetric/symmetric.go"
	const xf = "tm2/pkg/crypto/xchacha20poly1305/xchachapoly.go"
	mutants("C47",
		Mutant{"tag-verdict-weakened", sf, "if !ok {", "if !ok && len(plaintext) == 0 {", "open-verdict"},
		Mutant{"returns-other-buffer", sf, "return plaintext, nil", "return ciphertext[nonceLen+secretbox.Overhead:], nil", "open-verdict"},
		Mutant{"length-guard-too-low", sf, "if len(ciphertext) < secretbox.Overhead+nonceLen {", "if len(ciphertext) < nonceLen {", "len-guard-safe"},
		Mutant{"refix-rejects-sealed-empty", sf, "if len(ciphertext) < secretbox.Overhead+nonceLen {", "if len(ciphertext) <= secretbox.Overhead+nonceLen {", "len-guard-accepts-sealed"},
		Mutant{"box-offset", sf, "secretbox.Open(plaintext[:0], ciphertext[nonceLen:], ", "secretbox.Open(plaintext[:0], ciphertext[nonceLen-1:], ", "layout-mirror"},
		Mutant{"library-error-swallowed", xf, "return chacha20poly1305.Open(dst, subNonce[:], ciphertext, additionalData)", "out, _ := chacha20poly1305.Open(dst, subNonce[:], ciphertext, additionalData)\n\treturn out, nil", "open-forwards"},
		Mutant{"nonce-length-one-sided", xf, "if len(nonce) != NonceSize {\n\t\treturn nil, fmt.Errorf(", "if len(nonce) < NonceSize {\n\t\treturn nil, fmt.Errorf(", "nonce-len-guard"},
		Mutant{"open-subnonce-offset", xf, "copy(subNonce[4:], nonce[16:])\n\n\treturn chacha20poly1305.Open(", "copy(subNonce[4:], nonce[15:])\n\n\treturn chacha20poly1305.Open(", "seal-open-mirror"},
		Mutant{"open-drops-ad", xf, "return chacha20poly1305.Open(dst, subNonce[:], ciphertext, additionalData)", "return chacha20poly1305.Open(dst, subNonce[:], ciphertext, nil)", "seal-open-mirror"},
		Mutant{"hnonce-width", xf, "copy(hNonce[:], nonce[:16])\n\n\tHChaCha20(&subKey, &hNonce, &c.key)\n\n\t// This can't error because we always provide a correctly sized key\n\tchacha20poly1305, _ := chacha20poly1305.New(subKey[:])\n\n\tcopy(subNonce[4:], nonce[16:])\n\n\treturn chacha20poly1305.Seal(", "copy(hNonce[:], nonce[:12])\n\n\tHChaCha20(&subKey, &hNonce, &c.key)\n\n\t// This can't error because we always provide a correctly sized key\n\tchacha20poly1305, _ := chacha20poly1305.New(subKey[:])\n\n\tcopy(subNonce[4:], nonce[16:])\n\n\treturn chacha20poly1305.Seal(", "xchacha-constants"},
	)
}

func c47(c *engine.Ctx) {
	c.Explain = "Wrapper-level clauses: open-verdict (plaintext only on secretbox.Open's true verdict; the buffer returned is the one Open wrote); len-guard-safe / len-guard-accepts-sealed (DecryptSymmetric's length guard vs the constants nonceLen+secretbox.Overhead and the minimum length EncryptSymmetric produces); layout-mirror (nonce at [0:nonceLen), box after it, on both sides); open-forwards (xchacha Open returns the library's verdict); nonce-len-guard (exact nonce length test dominates every nonce slice in Seal and Open); seal-open-mirror (identical key/nonce derivation operands and dst/AD pass-through); xchacha-constants (16-byte HChaCha20 nonce part, 4 zero bytes + last 8 nonce bytes). Not covered: MAC/cipher mathematics, HChaCha20 rounds."
	p := c.Load("tm2/pkg/crypto/xsalsa20symmetric", "tm2/pkg/crypto/xchacha20poly1305")
	if p == nil {
		return
	}
	c47salsa(c, p)
	c47chacha(c, p)
}

// cjLinear evaluates v as (constant part, number of len(<param>) terms); ok=false if anything else occurs.
func cjLinear(v ssa.Value) (k int64, lens int, ok bool) {
	switch x := v.(type) {
	case *ssa.Const:
		kk, isK := cjConstInt(x)
		return kk, 0, isK
	case *ssa.BinOp:
		if x.Op != token.ADD {
			return 0, 0, false
		}
		a, la, oa := cjLinear(x.X)
		b, lb, ob := cjLinear(x.Y)
		return a + b, la + lb, oa && ob
	case *ssa.Call:
		if _, isLen := cjIsLenCall(x); isLen {
			return 0, 1, true
		}
		n := cjCalleeName(x)
		if strings.HasPrefix(n, "tm2/pkg/overflow.Add") && len(x.Call.Args) == 2 {
			a, la, oa := cjLinear(x.Call.Args[0])
			b, lb, ob := cjLinear(x.Call.Args[1])
			return a + b, la + lb, oa && ob
		}
	case *ssa.Convert:
		return cjLinear(x.X)
	}
	return 0, 0, false
}

func c47salsa(c *engine.Ctx, p *engine.Prog) {
	const S = "tm2/pkg/crypto/xsalsa20symmetric."
	const SB = "golang.org/x/crypto/nacl/secretbox."
	encF, decF := c.MustFunc(S+"EncryptSymmetric"), c.MustFunc(S+"DecryptSymmetric")
	enc, dec := cjSSA(c, p, encF), cjSSA(c, p, decF)
	nonceLen, ok1 := cjIntConst(p, S+"nonceLen")
	overhead, ok2 := cjIntConst(p, SB+"Overhead")
	if !ok1 || !ok2 {
		c.Undecided("anchor", S+"nonceLen / secretbox.Overhead", "constants not found")
		return
	}
	need := nonceLen + overhead

	// open-verdict
	nv := 0
	var open *ssa.Call
	if dec != nil {
		open = cjFirstCall(dec, SB+"Open")
		if open == nil {
			c.Undecided("open-verdict", decF.Name, "secretbox.Open call not found")
		} else {
			okv := cjResult(open, 1)
			for _, ret := range cjSuccessReturns(dec) {
				nv++
				c.Check("open-verdict", decF.Name+" success only when authenticated", ret.Pos(), okv != nil && cjGated(okv, ret.Block()), "the success return must be dominated by the true edge of secretbox.Open's verdict, tested alone")
				out, _ := open.Call.Args[0].(*ssa.Slice)
				c.Check("open-verdict", decF.Name+" returns the opened buffer", ret.Pos(), out != nil && out.X == ret.Results[0], "the value returned must be the buffer handed to secretbox.Open as output")
			}
			// every use of the verdict-less result path: no other non-error return
			for _, b := range dec.Blocks {
				if r, ok := b.Instrs[len(b.Instrs)-1].(*ssa.Return); ok && !cjIsNilConst(r.Results[0]) && !cjIsNilConst(r.Results[1]) {
					c.Check("open-verdict", decF.Name+" no plaintext with an error", r.Pos(), false, "a return hands out bytes together with an error")
				}
			}
		}
	}
	c.Floor("open-verdict", nv, 1)

	// length guard
	ng := 0
	if dec != nil && open != nil {
		ct := dec.Params[0]
		// find the guard: If on BinOp(len(ct), K) one edge of which dominates the Open call
		minAccepted := int64(-1)
		found := 0
		for _, b := range dec.Blocks {
			i, ok := b.Instrs[len(b.Instrs)-1].(*ssa.If)
			if !ok {
				continue
			}
			bo, ok := i.Cond.(*ssa.BinOp)
			if !ok {
				continue
			}
			op := bo.Op
			x, y := bo.X, bo.Y
			if lx, isLen := cjIsLenCall(y); isLen && lx == ssa.Value(ct) {
				x, y = y, x
				op = engine.Flip(op)
			}
			lx, isLen := cjIsLenCall(x)
			k, isK := cjConstInt(y)
			if !isLen || lx != ssa.Value(ct) || !isK {
				continue
			}
			var acc token.Token
			switch {
			case cjEdgeDominates(b, 0, open.Block()):
				acc = op
			case cjEdgeDominates(b, 1, open.Block()):
				acc = engine.Negate(op)
			default:
				continue
			}
			var m int64
			switch acc {
			case token.GTR:
				m = k + 1
			case token.GEQ:
				m = k
			default:
				continue // an upper bound or equality: not the minimum-length guard
			}
			found++
			if m > minAccepted {
				minAccepted = m
			}
		}
		ng++
		if found == 0 {
			c.Check("len-guard-safe", decF.Name+" minimum length", decF.Pos(), false, "no lower-bound test on len(ciphertext) dominates secretbox.Open")
		} else {
			c.Check("len-guard-safe", decF.Name+" minimum length", open.Pos(), minAccepted >= need,
				fmt.Sprintf("accepted minimum length %d must be >= nonceLen+Overhead = %d (else slicing / make(len-…) panics)", minAccepted, need))
			// writer minimum
			if enc != nil {
				wmin := int64(-1)
				for _, b := range enc.Blocks {
					for _, in := range b.Instrs {
						ms, ok := in.(*ssa.MakeSlice)
						if !ok {
							continue
						}
						// the slice that is returned
						returned := false
						for _, bb := range enc.Blocks {
							if r, ok := bb.Instrs[len(bb.Instrs)-1].(*ssa.Return); ok && len(r.Results) == 1 && r.Results[0] == ssa.Value(ms) {
								returned = true
							}
						}
						if !returned {
							continue
						}
						if k, lens, ok := cjLinear(ms.Len); ok && lens <= 1 {
							wmin = k
						}
					}
				}
				ng++
				if wmin < 0 {
					c.Undecided("len-guard-accepts-sealed", encF.Name, "cannot evaluate the length of the ciphertext EncryptSymmetric allocates")
				} else {
					c.Check("len-guard-accepts-sealed", decF.Name+" accepts every EncryptSymmetric output", open.Pos(), minAccepted <= wmin,
						fmt.Sprintf("EncryptSymmetric produces ciphertexts of length %d + len(plaintext) (minimum %d for the empty plaintext) but DecryptSymmetric rejects every length below %d: the sealed empty plaintext cannot be opened", wmin, wmin, minAccepted))
				}
			}
		}
	}
	c.Floor("len-guard-safe", ng, 2)

	// layout-mirror
	nl := 0
	isK := func(v ssa.Value, want int64) bool {
		if v == nil {
			return want == 0
		}
		k, ok := cjConstInt(v)
		return ok && k == want
	}
	if enc != nil {
		if seal := cjFirstCall(enc, SB+"Seal"); seal != nil {
			nl++
			out, _ := seal.Call.Args[0].(*ssa.Slice)
			okOut := out != nil && isK(out.Low, nonceLen) && isK(out.High, nonceLen)
			// nonce copied to the front of the same buffer
			okNonce := false
			if out != nil {
				for _, cp := range cjSSACalls(enc, "builtin.copy") {
					if cp.Call.Args[0] == out.X {
						okNonce = true
					}
				}
			}
			c.Check("layout-mirror", encF.Name+" nonce || box", seal.Pos(), okOut && okNonce, "the box must be appended at offset nonceLen of the buffer whose front holds the nonce")
		}
	}
	if dec != nil && open != nil {
		nl++
		box, _ := open.Call.Args[1].(*ssa.Slice)
		okBox := box != nil && box.X == ssa.Value(dec.Params[0]) && isK(box.Low, nonceLen) && box.High == nil
		okNonce := false
		for _, b := range dec.Blocks {
			for _, in := range b.Instrs {
				if sl, ok := in.(*ssa.Slice); ok && sl.X == ssa.Value(dec.Params[0]) && sl.Low == nil && isK(sl.High, nonceLen) {
					okNonce = true
				}
			}
		}
		c.Check("layout-mirror", decF.Name+" nonce || box", open.Pos(), okBox && okNonce, "the nonce must be ciphertext[:nonceLen] and the box ciphertext[nonceLen:]")
	}
	c.Floor("layout-mirror", nl, 2)
}

func c47chacha(c *engine.Ctx, p *engine.Prog) {
	const X = "tm2/pkg/crypto/xchacha20poly1305."
	sealF, openF := c.MustFunc(X+"(*xchacha20poly1305).Seal"), c.MustFunc(X+"(*xchacha20poly1305).Open")
	nsz, ok := cjIntConst(p, X+"NonceSize")
	if !ok {
		c.Undecided("anchor", X+"NonceSize", "constant not found")
		return
	}
	// open-forwards
	nf := 0
	if sf := cjSSA(c, p, openF); sf != nil {
		for _, b := range sf.Blocks {
			r, ok := b.Instrs[len(b.Instrs)-1].(*ssa.Return)
			if !ok || len(r.Results) != 2 {
				continue
			}
			nf++
			okr, why := false, "a return must be (nil, non-nil error) or exactly the (plaintext, error) pair of the library's AEAD.Open"
			if cjIsNilConst(r.Results[0]) && !cjIsNilConst(r.Results[1]) {
				okr = true
			}
			e0, i0 := r.Results[0].(*ssa.Extract)
			e1, i1 := r.Results[1].(*ssa.Extract)
			if i0 && i1 && e0.Tuple == e1.Tuple && e0.Index == 0 && e1.Index == 1 {
				if call, isCall := e0.Tuple.(*ssa.Call); isCall && cjCalleeName(call) == "crypto/cipher.(AEAD).Open" {
					okr = true
				}
			}
			c.Check("open-forwards", openF.Name+" return", r.Pos(), okr, why)
		}
	}
	c.Floor("open-forwards", nf, 3)

	// nonce-len-guard (the slices may sit in a private helper that receives the nonce: the guard may be at any level of the chain)
	nn := 0
	for _, f := range []*engine.Fn{sealF, openF} {
		sf := cjSSA(c, p, f)
		if sf == nil {
			continue
		}
		if len(sf.Params) < 3 {
			c.Undecided("nonce-len-guard", f.Name, "parameter nonce (AEAD argument #2) not found")
			continue
		}
		var walk func(fn *ssa.Function, nonce ssa.Value, guarded bool, depth int, via string)
		walk = func(fn *ssa.Function, nonce ssa.Value, guarded bool, depth int, via string) {
			gateAt := func(b *ssa.BasicBlock) bool {
				return cjCmpGate(fn, b, token.EQL, func(v ssa.Value) bool { x, ok := cjIsLenCall(v); return ok && x == nonce }, func(v ssa.Value) bool { k, ok := cjConstInt(v); return ok && k == nsz })
			}
			for _, b := range fn.Blocks {
				for _, in := range b.Instrs {
					switch x := in.(type) {
					case *ssa.Slice:
						if x.X != nonce {
							continue
						}
						nn++
						c.Check("nonce-len-guard", f.Name+via+" "+x.String(), x.Pos(), guarded || gateAt(b), "every slice of the nonce must be dominated by len(nonce) == NonceSize (exact), in the function or in its caller")
					case *ssa.Call:
						h := cjBody(x)
						if h == nil || depth <= 0 || h.Pkg != sf.Pkg {
							continue
						}
						for k, a := range x.Call.Args {
							if a == nonce && k < len(h.Params) {
								walk(h, h.Params[k], guarded || gateAt(b), depth-1, via+" via "+h.Name())
							}
						}
					}
				}
			}
		}
		walk(sf, sf.Params[2], false, 2, "")
	}
	c.Floor("nonce-len-guard", nn, 4)

	// seal-open-mirror
	nmir := 0
	if sealF != nil && openF != nil {
		type row struct{ name, args string }
		collect := func(f *engine.Fn) ([]row, *engine.Site) {
			var rows []row
			var last *engine.Site
			for _, d := range f.DeepFind(2, func(fn *engine.Fn, n ast.Node) bool {
				call, ok := n.(*ast.CallExpr)
				if !ok {
					return false
				}
				st := fn.SiteOf(call)
				if st == nil {
					return false
				}
				nm := st.CalleeName()
				return nm == "builtin.copy" || nm == X+"HChaCha20" || strings.HasSuffix(nm, "chacha20poly1305.New") || nm == "crypto/cipher.(AEAD).Seal" || nm == "crypto/cipher.(AEAD).Open"
			}) {
				n := d.Inner.CalleeName()
				switch {
				case n == "crypto/cipher.(AEAD).Seal", n == "crypto/cipher.(AEAD).Open":
					if d.Inner == d.Outer {
						last = d.Inner
					}
				default:
					// arguments are rendered with the helper's nonce parameter mapped back to the caller's
					var args []string
					for _, a := range d.Inner.Call.Args {
						args = append(args, c47Render(f, d, a))
					}
					rows = append(rows, row{n, strings.Join(args, ", ")})
				}
			}
			return rows, last
		}
		rs, ls := collect(sealF)
		ro, lo := collect(openF)
		nmir++
		same := len(rs) == len(ro) && len(rs) >= 4
		detail := "key/nonce derivation calls must be identical in Seal and Open"
		if same {
			for i := range rs {
				if rs[i] != ro[i] {
					same = false
					detail = fmt.Sprintf("Seal has %s(%s), Open has %s(%s)", rs[i].name, rs[i].args, ro[i].name, ro[i].args)
				}
			}
		}
		c.Check("seal-open-mirror", "Seal/Open sub-key and sub-nonce derivation", openF.Pos(), same, detail)
		nmir++
		okLast := ls != nil && lo != nil && ls.CalleeName() == "crypto/cipher.(AEAD).Seal" && lo.CalleeName() == "crypto/cipher.(AEAD).Open" && len(ls.Call.Args) == 4 && len(lo.Call.Args) == 4
		if okLast {
			as, ao := cjArgTexts(ls.Call), cjArgTexts(lo.Call)
			okLast = as[0] == ao[0] && as[1] == ao[1] && as[3] == ao[3] &&
				engine.ObjOf(sealF.Info(), ls.Call.Args[0]) == paramObj(sealF, 0) && engine.ObjOf(openF.Info(), lo.Call.Args[0]) == paramObj(openF, 0) &&
				engine.ObjOf(sealF.Info(), ls.Call.Args[2]) == paramObj(sealF, 2) && engine.ObjOf(openF.Info(), lo.Call.Args[2]) == paramObj(openF, 2) &&
				engine.ObjOf(sealF.Info(), ls.Call.Args[3]) == paramObj(sealF, 3) && engine.ObjOf(openF.Info(), lo.Call.Args[3]) == paramObj(openF, 3)
			// the AEAD used is the one built from the sub-key, and is called in a return
			_, r1 := ls.Top.(*ast.ReturnStmt)
			_, r2 := lo.Top.(*ast.ReturnStmt)
			okLast = okLast && r1 && r2
		}
		c.Check("seal-open-mirror", "Seal/Open final AEAD call operands", openF.Pos(), okLast, "both must return aead.Seal/Open(dst, subNonce[:], text, additionalData) with their own parameters")
	}
	c.Floor("seal-open-mirror", nmir, 2)

	// xchacha-constants (on Seal, through helpers; the mirror rule carries them to Open)
	nc := 0
	if sealF != nil {
		var got []string
		for _, ds := range sealF.DeepCallsTo(2, "builtin.copy") {
			s := ds.Inner
			info := s.Fn.Info()
			dst, d := ast.Unparen(s.Call.Args[0]).(*ast.SliceExpr)
			src, sr := ast.Unparen(s.Call.Args[1]).(*ast.SliceExpr)
			if !d || !sr {
				continue
			}
			f := func(e ast.Expr) string {
				if e == nil {
					return "_"
				}
				if k, ok := cjConstOf(info, e); ok {
					return fmt.Sprint(k)
				}
				return "?"
			}
			al := int64(-1)
			if t := info.TypeOf(dst.X); t != nil {
				if a, ok := t.Underlying().(*types.Array); ok {
					al = a.Len()
				}
			}
			from := "other"
			if e, in := cjChainArg(sealF, ds, src.X); in == sealF && engine.ObjOf(sealF.Info(), e) == paramObj(sealF, 1) && paramObj(sealF, 1) != nil {
				from = "nonce"
			}
			got = append(got, fmt.Sprintf("[%d](%s:%s)<-%s(%s:%s)", al, f(dst.Low), f(dst.High), from, f(src.Low), f(src.High)))
		}
		nc++
		want := []string{"[16](_:_)<-nonce(_:16)", "[12](4:_)<-nonce(16:_)"}
		c.Check("xchacha-constants", sealF.Name+" nonce split", sealF.Pos(), strings.Join(got, " ") == strings.Join(want, " ") && nsz == 24,
			"XChaCha20: HChaCha20 takes nonce[:16]; the 12-byte IETF nonce is 4 zero bytes || nonce[16:24]; got "+strings.Join(got, " "))
	}
	c.Floor("xchacha-constants", nc, 1)
}

// c47Render prints an argument of a (possibly helper-resident) call with the
// helper's parameters replaced by what the anchored function passes and the
// anchored function's own parameters by their position.
func c47Render(f *engine.Fn, d engine.DeepSite, e ast.Expr) string {
	in := d.Inner.Fn
	info := in.Info()
	name := func(id *ast.Ident) string {
		obj := info.ObjectOf(id)
		if obj == nil {
			return id.Name
		}
		var x ast.Expr = id
		host := in
		if in != f {
			x, host = cjChainArg(f, d, id)
		}
		if host == f {
			o := engine.ObjOf(f.Info(), x)
			for k := 0; k < 6; k++ {
				if po := paramObj(f, k); po != nil && po == o {
					return fmt.Sprintf("param#%d", k)
				}
			}
			if rv := cjRecv(f); rv != nil && rv == o {
				return "recv"
			}
			if x != ast.Expr(id) {
				return "<" + engine.ExprString(x) + ">"
			}
		}
		if rv := cjRecv(in); rv != nil && rv == obj {
			return "recv"
		}
		return id.Name
	}
	var buf bytes.Buffer
	printer.Fprint(&buf, token.NewFileSet(), c50Rewrite(e, info, false, name))
	return buf.String()
}
