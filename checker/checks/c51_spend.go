package checks

import (
	"go/ast"

	"gnoverif/engine"
)

// C51 extra — spending an allowance always records the spend. Every successful
// exit of PrivateLedger.SpendAllowance other than the `amount == 0` no-op passes
// a write of the allowances tree (Set of the reduced value, or Remove when it
// reaches zero). A success path that skips the write — e.g. an "unlimited
// approval" shortcut for an allowance of MaxInt64 — lets TransferFrom move
// tokens while the allowance stays put.
// (Added after an independently seeded second-round change returned nil before
// the write when the current allowance equals math.MaxInt64.)
func init() {
	extend("C51", c51Spend)
	mutants("C51",
		Mutant{"spend-unlimited-shortcut", "examples/gno.land/p/demo/tokens/grc20/token.gno", "	key := allowanceKey(owner, spender)\n\tnewAllowance := overflow.Sub64p(currentAllowance, amount)\n", "	if currentAllowance == 1<<63-1 {\n\t\treturn nil\n\t}\n\tkey := allowanceKey(owner, spender)\n\tnewAllowance := overflow.Sub64p(currentAllowance, amount)\n", "spend-recorded"},
	)
	metaExtra("C51", "spend-recorded: every success exit of SpendAllowance except the amount==0 no-op passes a write of the allowances tree")
}

func c51Spend(c *engine.Ctx) {
	if c.Prog == nil {
		return
	}
	const name = "gno:examples/gno.land/p/demo/tokens/grc20.(*PrivateLedger).SpendAllowance"
	f := c.MustFunc(name)
	if f == nil {
		return
	}
	g := f.Graph()
	info := f.Info()
	amount := paramObj(f, 2)
	var writes []*engine.Site
	for _, s := range f.Calls() {
		sel, ok := s.Call.Fun.(*ast.SelectorExpr)
		if !ok || (sel.Sel.Name != "Set" && sel.Sel.Name != "Remove") {
			continue
		}
		if inner, ok := ast.Unparen(sel.X).(*ast.SelectorExpr); ok && inner.Sel.Name == "allowances" {
			writes = append(writes, s)
		}
	}
	c.Floor("spend-recorded writes", len(writes), 1)
	n := 0
	engine.InspectBody(f, func(x ast.Node) {
		r, ok := x.(*ast.ReturnStmt)
		if !ok || len(r.Results) != 1 {
			return
		}
		id, ok := ast.Unparen(r.Results[0]).(*ast.Ident)
		if !ok || id.Name != "nil" {
			return
		}
		st := f.SiteOf(r)
		if st == nil {
			return
		}
		// the no-op exit: gated by `amount == 0` alone
		for _, gt := range g.Gates(st) {
			if b, ok := ast.Unparen(gt.Cond).(*ast.BinaryExpr); ok && gt.OnTrue && b.Op.String() == "==" && engine.ObjOf(info, b.X) == amount && isZeroLit(b.Y) {
				return
			}
		}
		n++
		c.Check("spend-recorded", f.Name+" success exit passes the allowance write", r.Pos(), g.MustPass(st, writes),
			"a success return of SpendAllowance (amount > 0) is reachable without Set/Remove on led.allowances: tokens can be spent while the allowance stays unchanged")
	})
	c.Floor("spend-recorded", n, 1)
}
