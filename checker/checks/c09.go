package checks

import (
	"go/ast"
	"go/token"
	"go/types"
	"strings"

	"golang.org/x/tools/go/cfg"

	"gnoverif/engine"
)

// C09 — realm storage usage and deposits are accounted exactly.
func init() {
	register("C09", c09)
	meta("C09", Meta{
		Text:      "Decides that the storage-accounting plumbing is paired on every path: each Store.SetObject/DelObject result is added to / subtracted from the sumDiff of the realm owning the object (own realm iff oid.PkgID == rlm.ID, else the realm returned by touchForeignRealm for that PkgID); sumDiff is written only there and drained only by FinalizeRealmTransaction into RealmStorageDiffs at the owner's path, after all saves/deletes; Realm.Deposit/Storage are written only by lock/refundStorageDeposit, by the very amounts moved by the dominating, error-checked bank transfer and the very byte diff that was priced; the price comes from the params value read by the handler before the machine runs; per-message diff maps are reset (getGnoTransactionStore→ClearObjectCache) and seeded (ContextWithParamsAccum) by each of the three handlers, which all settle on their success path and return the settlement error; a too-small deposit limit leaves an error; full release refunds the whole deposit; settlement iterates sorted realm paths; params meta is flushed and the realm record saved only after the transfer succeeded; every SDKParams setter feeds the keeper's byte delta for the same key to the accumulator.",
		Note:      "Not covered: that the recorded usage EQUALS the byte total in the store (LastObjectSize bookkeeping inside SetObject, amino sizes), the arithmetic of proportional refunds, the params keeper's own delta computation. Assumes overflow.Addp/Subp/Mulp are exact-or-panic.",
		Technique: "result-use + ownership-routing rule on go/cfg, who-may-write tables, argument provenance (single definition), sibling rule over the three message handlers, checked-guard dominance",
		Ref:       "DESIGN.md §2 C09",
	})
	mutants("C09",
		Mutant{"foreign-save-charged-to-self", "gnovm/pkg/gnolang/realm.go", "\t\tfr := rlm.touchForeignRealm(store, oid.PkgID)\n\t\tfr.sumDiff += delta", "\t\tfr := rlm.touchForeignRealm(store, oid.PkgID)\n\t\t_ = fr\n\t\trlm.sumDiff += delta", "diff-routing"},
		Mutant{"delete-not-credited", "gnovm/pkg/gnolang/realm.go", "\t\t\trlm.sumDiff -= delta\n", "\t\t\t_ = delta\n", "diff-routing"},
		Mutant{"delete-sign", "gnovm/pkg/gnolang/realm.go", "\t\t\tfr.sumDiff -= delta", "\t\t\tfr.sumDiff += delta", "diff-routing"},
		Mutant{"foreign-diff-dropped-at-finalize", "gnovm/pkg/gnolang/realm.go", "\t\trealmDiffs[fr.Path] += fr.sumDiff\n", "", "diff-drain"},
		Mutant{"foreign-diff-to-caller-path", "gnovm/pkg/gnolang/realm.go", "\t\trealmDiffs[fr.Path] += fr.sumDiff\n", "\t\trealmDiffs[rlm.Path] += fr.sumDiff\n", "diff-drain"},
		Mutant{"storage-counts-price", "gno.land/pkg/sdk/vm/keeper.go", "rlm.Storage = overflow.Addp(rlm.Storage, uint64(diff))", "rlm.Storage = overflow.Addp(rlm.Storage, uint64(requiredDeposit))", "counter-pairing"},
		Mutant{"deposit-before-transfer", "gno.land/pkg/sdk/vm/keeper.go", "\tstorageDepositAddr := gno.DeriveStorageDepositCryptoAddr(rlm.Path)\n\td := std.Coins{std.Coin{Denom: ugnot.Denom, Amount: depositUnlocked}}\n", "\tstorageDepositAddr := gno.DeriveStorageDepositCryptoAddr(rlm.Path)\n\td := std.Coins{std.Coin{Denom: ugnot.Denom, Amount: depositUnlocked}}\n\trlm.Deposit = overflow.Subp(rlm.Deposit, uint64(released))\n", "counter-pairing"},
		Mutant{"current-price", "gno.land/pkg/sdk/vm/keeper.go", "\tprice := std.MustParseCoin(params.StoragePrice)", "\tprice := std.MustParseCoin(vm.GetParams(ctx).StoragePrice)", "price-at-start"},
		Mutant{"run-params-after-exec", "gno.land/pkg/sdk/vm/keeper.go", "\terr = vm.processStorageDeposit(ctx, caller, msg.MaxDeposit, gnostore, params)\n\tif err != nil {\n\t\treturn \"\", err\n\t}\n\t// Log the telemetry\n\tlogTelemetry(\n\t\tm2.GasMeter.GasConsumed(),", "\tparams = vm.GetParams(ctx)\n\terr = vm.processStorageDeposit(ctx, caller, msg.MaxDeposit, gnostore, params)\n\tif err != nil {\n\t\treturn \"\", err\n\t}\n\t// Log the telemetry\n\tlogTelemetry(\n\t\tm2.GasMeter.GasConsumed(),", "handler-settles"},
		Mutant{"limit-check-dropped", "gno.land/pkg/sdk/vm/keeper.go", "\t\t\tif depositAmt < requiredDeposit {", "\t\t\tif depositAmt < requiredDeposit && depositAmt < 0 {", "deposit-limit"},
		Mutant{"limit-not-consumed", "gno.land/pkg/sdk/vm/keeper.go", "\t\t\tdepositAmt -= requiredDeposit\n", "", "deposit-limit"},
		Mutant{"full-release-partial-refund", "gno.land/pkg/sdk/vm/keeper.go", "\t\t\tif rlm.Storage == uint64(released) {", "\t\t\tif rlm.Storage == uint64(released) && price.Amount == 0 {", "full-release"},
		Mutant{"flush-before-lock", "gno.land/pkg/sdk/vm/keeper.go", "\t\t\terr := vm.lockStorageDeposit(ctx, caller, rlm, requiredDeposit, diff)\n", "\t\t\tFlushParamsRealmAccum(ctx, vm.prmk, rlmPath)\n\t\t\terr := vm.lockStorageDeposit(ctx, caller, rlm, requiredDeposit, diff)\n", "flush-after-transfer"},
		Mutant{"setbytes-delta-dropped", "gno.land/pkg/sdk/vm/builtins.go", "\t\tdiff := prm.pmk.SetBytes(prm.ctx, key, value)\n\t\trecordParamsDelta(prm.ctx, prm.pmk, key, diff)", "\t\tdiff := prm.pmk.SetBytes(prm.ctx, key, value)\n\t\t_ = diff", "params-delta"},
		Mutant{"map-order-settlement", "gno.land/pkg/sdk/vm/keeper.go", "\tslices.SortFunc(sortedRealm, strings.Compare)\n", "", "sorted-settlement"},
	)
}

const c09G = "gnovm/pkg/gnolang"

func c09(c *engine.Ctx) {
	c.Explain = "Decides the pairing of the storage-accounting plumbing (see manifest text): result-use and ownership routing of SetObject/DelObject deltas, single drain of sumDiff at finalize, writer tables for sumDiff/Deposit/Storage/realmStorageDiffs, pairing of counter updates with the checked bank transfer and with the priced diff, start-of-message price, per-message reset/seed in the three handlers, deposit-limit failure, full-release refund, sorted settlement, flush/save after success, SDKParams delta feed. Not covered: equality of the counter with the actual byte total."
	p := c.Load(c09G, c08VM)
	if p == nil {
		return
	}
	c09routing(c, p)
	c09drain(c, p)
	c09counters(c, p)
	c09settle(c, p)
	c09handlers(c, p)
	c09paramsDelta(c, p)
}

// sumDiffUpdate describes `X.sumDiff op= v`.
type c09upd struct {
	site *engine.Site
	base types.Object
	op   token.Token
	rhs  ast.Expr
}

func c09sumDiffUpdates(f *engine.Fn, field *types.Var) []c09upd {
	var out []c09upd
	info := f.Info()
	engine.InspectBody(f, func(n ast.Node) {
		as, ok := n.(*ast.AssignStmt)
		if !ok || len(as.Lhs) != 1 || len(as.Rhs) != 1 {
			return
		}
		se, ok := ast.Unparen(as.Lhs[0]).(*ast.SelectorExpr)
		if !ok {
			return
		}
		if v, ok := info.Uses[se.Sel].(*types.Var); !ok || v.Origin() != field {
			return
		}
		s := f.SiteOf(as)
		if s == nil {
			return
		}
		out = append(out, c09upd{s, engine.ObjOf(info, se.X), as.Tok, as.Rhs[0]})
	})
	return out
}

func c09routing(c *engine.Ctx, p *engine.Prog) {
	sumDiff := p.Field(c09G + ".Realm.sumDiff")
	if sumDiff == nil {
		c.Undecided("anchor", c09G+".Realm.sumDiff", "field not found")
		return
	}
	type inst struct {
		callee string
		op     token.Token
	}
	n := 0
	for _, in := range []inst{{"SetObject", token.ADD_ASSIGN}, {"DelObject", token.SUB_ASSIGN}} {
		refs := p.RefsToFunc(c09G+".(Store)."+in.callee, c09G+".(*defaultStore)."+in.callee)
		for _, r := range refs {
			if r.Fn == nil || !r.IsCall {
				kcAt(c, p, "diff-routing", in.callee+" used as a value", r.Ident.Pos(), false, "the size delta must be consumed at the call")
				continue
			}
			f := r.Fn
			var site *engine.Site
			for _, s := range f.Calls() {
				if s.Call != nil && s.Call.Fun.Pos() <= r.Ident.Pos() && r.Ident.End() <= s.Call.Fun.End() {
					site = s
				}
			}
			if site == nil {
				continue
			}
			n++
			key := f.Name + " " + in.callee
			info := f.Info()
			g := f.Graph()
			recv := kcRecv(f)
			// result bound
			as, ok := site.Top.(*ast.AssignStmt)
			if !ok || len(as.Lhs) != 1 || ast.Unparen(as.Rhs[0]) != site.Call {
				kcAt(c, p, "diff-routing", key+" result used", site.Pos(), false, "the returned size is not bound to a variable")
				continue
			}
			delta := engine.ObjOf(info, as.Lhs[0])
			if delta == nil || as.Lhs[0].(*ast.Ident).Name == "_" {
				kcAt(c, p, "diff-routing", key+" result used", site.Pos(), false, "the returned size is discarded")
				continue
			}
			if rhs, okd := kcDefs(f, delta); !okd || len(rhs) != 1 {
				kcAt(c, p, "diff-routing", key+" result used", site.Pos(), false, "the delta variable is reassigned")
				continue
			}
			objArg := engine.ObjOf(info, kcArg(site, 0))
			wantSign := 1
			if in.op == token.SUB_ASSIGN {
				wantSign = -1
			}
			// sign of an expression relative to the delta variable: +1 for delta, -1 for -delta, 0 otherwise
			signOf := func(e ast.Expr) int {
				e = ast.Unparen(e)
				if id, isID := e.(*ast.Ident); isID && info.ObjectOf(id) == delta {
					return 1
				}
				if u, isU := e.(*ast.UnaryExpr); isU && u.Op == token.SUB {
					if id, isID := ast.Unparen(u.X).(*ast.Ident); isID && info.ObjectOf(id) == delta {
						return -1
					}
				}
				return 0
			}
			type accrual struct {
				pos    token.Pos
				base   ast.Expr // realm credited, in f's terms
				sign   int
				facts  []kcFact // in f's terms
				direct *engine.Site
			}
			var accs []accrual
			bad := ""
			updBlocks := map[*cfg.Block]bool{}
			covered := false
			for _, u := range c09sumDiffUpdates(f, sumDiff) {
				if !g.Dominates(site, u.site) {
					continue
				}
				sg := signOf(u.rhs)
				if sg == 0 {
					bad = "sumDiff updated with `" + engine.ExprString(u.rhs) + "`, not the returned delta"
					continue
				}
				switch u.op {
				case token.ADD_ASSIGN:
				case token.SUB_ASSIGN:
					sg = -sg
				default:
					bad = "sumDiff is overwritten"
					continue
				}
				lhs := u.site.Node.(*ast.AssignStmt).Lhs[0].(*ast.SelectorExpr)
				accs = append(accs, accrual{u.site.Pos(), lhs.X, sg, kcFacts(g, u.site), u.site})
				updBlocks[u.site.Block] = true
			}
			// accrual delegated to a helper that receives the delta
			for _, s2 := range f.Calls() {
				if s2 == site || s2.Call == nil || !g.Dominates(site, s2) {
					continue
				}
				callee, _ := s2.Callee.(*types.Func)
				h := p.FnOf(callee)
				if h == nil || h == f {
					continue
				}
				passes := false
				for _, a := range s2.Call.Args {
					if signOf(a) != 0 {
						passes = true
					}
				}
				if !passes {
					continue
				}
				kcSubstInfo = info
				m := kcBindCall(h, s2.Call, nil)
				hb := map[*cfg.Block]bool{}
				for _, u := range c09sumDiffUpdates(h, sumDiff) {
					kcSubstInfo = info
					sg := signOf(kcSubst(u.rhs, m))
					if sg == 0 {
						bad = h.Name + " updates sumDiff with `" + engine.ExprString(u.rhs) + "`, not the delta it was given"
						continue
					}
					switch u.op {
					case token.ADD_ASSIGN:
					case token.SUB_ASSIGN:
						sg = -sg
					default:
						bad = "sumDiff is overwritten"
						continue
					}
					lhs := u.site.Node.(*ast.AssignStmt).Lhs[0].(*ast.SelectorExpr)
					var facts []kcFact
					for _, ft := range kcFacts(h.Graph(), u.site) {
						kcSubstInfo = info
						facts = append(facts, kcFact{kcSubst(ft.Expr, m), ft.Val})
					}
					kcSubstInfo = info
					accs = append(accs, accrual{u.site.Pos(), kcSubst(lhs.X, m), sg, facts, nil})
					hb[u.site.Block] = true
				}
				// inside the helper every normal path performs one of the updates
				hcov := len(hb) > 0
				hg := h.Graph()
				for _, ex := range kcNormalExits(h) {
					if !hb[ex.Block] && hg.Reach(hg.CFG.Blocks[0], ex.Block, hb) {
						hcov = false
					}
				}
				if hcov && kcMustFollow(f, site, s2) {
					covered = true
				}
			}
			var own, foreign int
			for _, a := range accs {
				var eq, neq bool
				var oidObj types.Object
				for _, ft := range a.facts {
					x, y, op, okc := kcCmp(ft)
					if !okc || !kcSelOf(info, y, recv, "ID") {
						continue
					}
					xs, isSel := ast.Unparen(kcResolve(f, x)).(*ast.SelectorExpr)
					if !isSel || xs.Sel.Name != "PkgID" || !kcIsIdent(xs.X) {
						continue
					}
					oidObj = engine.ObjOf(info, xs.X)
					if op == token.EQL {
						eq = true
					}
					if op == token.NEQ {
						neq = true
					}
				}
				oidOK := false
				if oidObj != nil {
					defs, okd := kcDefs(f, oidObj)
					oidOK = okd && len(defs) > 0
					for _, d := range defs {
						x, isM := kcMethodCallOn(d, "GetObjectID")
						if !isM || engine.ObjOf(info, x) != objArg || objArg == nil {
							oidOK = false
						}
					}
				}
				if a.sign != wantSign {
					bad = "the size delta is applied with the wrong sign (" + in.callee + " must move sumDiff by " + itoa(wantSign) + "×delta)"
					continue
				}
				baseObj := engine.ObjOf(info, a.base)
				switch {
				case eq && oidOK && kcIsIdent(a.base) && baseObj == recv:
					own++
				case neq && oidOK && !(kcIsIdent(a.base) && baseObj == recv):
					call := kcIsCallTo(info, kcResolve(f, a.base), c09G+".(*Realm).touchForeignRealm")
					okF := false
					if call != nil && len(call.Args) == 2 {
						if xs, isSel := ast.Unparen(kcResolve(f, call.Args[1])).(*ast.SelectorExpr); isSel && xs.Sel.Name == "PkgID" && engine.ObjOf(info, xs.X) == oidObj {
							okF = true
						}
					}
					if okF {
						foreign++
					} else {
						bad = "foreign branch credits `" + engine.ExprString(a.base) + "` which is not touchForeignRealm(store, oid.PkgID)"
					}
				default:
					bad = "update of `" + engine.ExprString(a.base) + ".sumDiff` is not on the branch matching the owner test oid.PkgID == rlm.ID of the saved object"
				}
			}
			ok2 := bad == "" && own == 1 && foreign == 1
			why := bad
			if why == "" && !ok2 {
				why = "expected exactly one own-realm and one foreign-realm sumDiff update fed by the delta (own " + itoa(own) + ", foreign " + itoa(foreign) + ")"
			}
			// every normal path after the call performs one of the updates
			if ok2 && !covered {
				if len(updBlocks) == 0 {
					ok2, why = false, "a path from the store call to the function's exit skips the sumDiff update"
				}
				for _, ex := range kcNormalExits(f) {
					for _, s := range site.Block.Succs {
						if !updBlocks[site.Block] && g.Reach(s, ex.Block, updBlocks) {
							ok2, why = false, "a path from the store call to the function's exit skips the sumDiff update"
						}
					}
				}
			}
			kcAt(c, p, "diff-routing", key, site.Pos(), ok2, why)
		}
	}
	c.Floor("diff-routing", n, 2)

	// who writes sumDiff
	ws := p.FieldWrites(sumDiff)
	R := c09G + ".(*Realm)."
	allowed := []string{R + "saveObject", R + "removeDeletedObjects", R + "FinalizeRealmTransaction"}
	writers := engine.WriterSet(ws, nil)
	extra := kcUnacceptedCallers(p, writers, allowed)
	c.CheckAt("who-may-write", c09G+".Realm.sumDiff", "-", len(extra) == 0, "writers: "+join(writers)+"; not in the confirmed table (nor private helpers of it): "+join(extra))
	c.Floor("who-may-write sumDiff", len(ws), 4)
}

func c09drain(c *engine.Ctx, p *engine.Prog) {
	sumDiff := p.Field(c09G + ".Realm.sumDiff")
	f := c.MustFunc(c09G + ".(*Realm).FinalizeRealmTransaction")
	if f == nil || sumDiff == nil {
		return
	}
	info := f.Info()
	g := f.Graph()
	recv := kcRecv(f)
	// readers of sumDiff outside compound updates
	rd := p.RefsTo(func(o types.Object) bool { v, ok := o.(*types.Var); return ok && v.Origin() == sumDiff })
	readers := engine.CallerSet(rd)
	R := c09G + ".(*Realm)."
	extra := kcUnacceptedCallers(p, readers, []string{R + "saveObject", R + "removeDeletedObjects", R + "FinalizeRealmTransaction"})
	c.CheckAt("diff-drain", "sumDiff referenced only by save/remove/finalize", "-", len(extra) == 0, "referrers: "+join(readers))

	// each reset X.sumDiff = 0 is immediately preceded by realmDiffs[X.Path] += X.sumDiff
	resets := 0
	var drainSites []*engine.Site
	for _, u := range c09sumDiffUpdates(f, sumDiff) {
		if u.op != token.ASSIGN {
			kcAt(c, p, "diff-drain", f.Name+" unexpected sumDiff update", u.site.Pos(), false, "finalize may only reset sumDiff to 0 after draining it")
			continue
		}
		resets++
		key := f.Name + " drain of owner"
		if u.base == recv {
			key = f.Name + " drain of own realm"
		} else {
			key = f.Name + " drain of touched foreign realm"
		}
		ok, why := false, "no `realmDiffs[X.Path] += X.sumDiff` on the same realm precedes the reset"
		if lit, isLit := ast.Unparen(u.rhs).(*ast.BasicLit); !isLit || lit.Value != "0" {
			kcAt(c, p, "diff-drain", key, u.site.Pos(), false, "sumDiff reset to a non-zero value")
			continue
		}
		engine.InspectBody(f, func(n ast.Node) {
			as, isAs := n.(*ast.AssignStmt)
			if !isAs || as.Tok != token.ADD_ASSIGN || len(as.Lhs) != 1 {
				return
			}
			ix, isIx := ast.Unparen(as.Lhs[0]).(*ast.IndexExpr)
			if !isIx {
				return
			}
			mobj := engine.ObjOf(info, ix.X)
			if mobj == nil {
				return
			}
			md := kcSingleDef(f, mobj)
			mc, _ := md.(*ast.CallExpr)
			if mc == nil {
				return
			}
			if ms, isSel := mc.Fun.(*ast.SelectorExpr); !isSel || ms.Sel.Name != "RealmStorageDiffs" {
				return
			}
			if !kcSelOf(info, as.Rhs[0], u.base, "sumDiff") {
				return
			}
			s := f.SiteOf(as)
			if s == nil || !g.Dominates(s, u.site) || s.Block != u.site.Block {
				return
			}
			if !kcSelOf(info, ix.Index, u.base, "Path") {
				why = "diff of realm `" + u.base.Name() + "` is drained into the entry `" + engine.ExprString(ix.Index) + "`"
				return
			}
			ok = true
			drainSites = append(drainSites, s)
		})
		kcAt(c, p, "diff-drain", key, u.site.Pos(), ok, why)
		// foreign: base is the range value over rlm.touchedForeignRealms
		if u.base != recv {
			inRange := false
			engine.InspectBody(f, func(n ast.Node) {
				rs, isR := n.(*ast.RangeStmt)
				if !isR || rs.Value == nil {
					return
				}
				if engine.ObjOf(info, rs.Value) == u.base && kcSelOf(info, rs.X, recv, "touchedForeignRealms") {
					inRange = true
				}
			})
			// or: fr := rlm.touchedForeignRealms[k] for k ranging over a slice that
			// collects every key of the map (deterministic, sorted iteration)
			if d := kcSingleDef(f, u.base); d != nil && !inRange {
				if ix, isIx := ast.Unparen(d).(*ast.IndexExpr); isIx && kcSelOf(info, ix.X, recv, "touchedForeignRealms") {
					ko := engine.ObjOf(info, ix.Index)
					var keys types.Object
					engine.InspectBody(f, func(n ast.Node) {
						if rs, isR := n.(*ast.RangeStmt); isR && rs.Value != nil && engine.ObjOf(info, rs.Value) == ko && ko != nil &&
							rs.Body.Pos() <= u.site.Pos() && u.site.Pos() < rs.Body.End() {
							keys = engine.ObjOf(info, rs.X)
						}
					})
					if keys != nil {
						engine.InspectBody(f, func(n ast.Node) {
							rs, isR := n.(*ast.RangeStmt)
							if !isR || rs.Key == nil || rs.Value != nil || !kcSelOf(info, rs.X, recv, "touchedForeignRealms") || len(rs.Body.List) != 1 {
								return
							}
							as, isAs := rs.Body.List[0].(*ast.AssignStmt)
							if !isAs || len(as.Lhs) != 1 || engine.ObjOf(info, as.Lhs[0]) != keys {
								return
							}
							if ap, isCall := ast.Unparen(as.Rhs[0]).(*ast.CallExpr); isCall && engine.IsBuiltinCall(info, ap, "append") && len(ap.Args) == 2 &&
								engine.ObjOf(info, ap.Args[0]) == keys && engine.ObjOf(info, ap.Args[1]) == engine.ObjOf(info, rs.Key) {
								inRange = true
							}
						})
					}
				}
			}
			kcAt(c, p, "diff-drain", f.Name+" foreign drain ranges over touchedForeignRealms", u.site.Pos(), inRange, "")
		}
	}
	c.Floor("diff-drain", resets, 2)
	// the drain comes after all saving/deleting and on every normal path
	for _, callee := range []string{"saveUnsavedObjects", "removeDeletedObjects"} {
		cs := f.CallsTo(c09G + ".(*Realm)." + callee)
		c.Floor("diff-drain after "+callee, len(cs), 1)
		for _, cs1 := range cs {
			ok := len(drainSites) > 0
			for _, d := range drainSites {
				if !g.Dominates(cs1, d) {
					ok = false
				}
			}
			kcAt(c, p, "diff-drain", f.Name+" drain after "+callee, cs1.Pos(), ok, "the drain must run after "+callee)
			if len(drainSites) > 0 {
				// own drain must be on every normal path after the call
				own := drainSites[0]
				kcAt(c, p, "diff-drain", f.Name+" drain reached after "+callee, cs1.Pos(), kcMustFollow(f, cs1, own), "every normally returning path must drain")
			}
		}
	}
	// touchedForeignRealms: inserted only by touchForeignRealm
	if tf := p.Field(c09G + ".Realm.touchedForeignRealms"); tf != nil {
		ws := engine.WriterSet(p.FieldWrites(tf), nil)
		ex := kcUnacceptedCallers(p, ws, []string{R + "touchForeignRealm", R + "FinalizeRealmTransaction"})
		c.CheckAt("who-may-write", c09G+".Realm.touchedForeignRealms", "-", len(ex) == 0, "writers: "+join(ws))
	} else {
		c.Undecided("anchor", c09G+".Realm.touchedForeignRealms", "field not found")
	}
	// realmStorageDiffs field: replaced only by constructors / per-message reset
	if rf := p.Field(c09G + ".defaultStore.realmStorageDiffs"); rf != nil {
		D := c09G + ".(*defaultStore)."
		ws := engine.WriterSet(p.FieldWrites(rf), nil)
		ex := kcUnacceptedCallers(p, ws, []string{c09G + ".NewStore", D + "BeginTransaction", D + "ClearObjectCache"})
		c.CheckAt("who-may-write", c09G+".defaultStore.realmStorageDiffs", "-", len(ex) == 0, "writers: "+join(ws))
	} else {
		c.Undecided("anchor", c09G+".defaultStore.realmStorageDiffs", "field not found")
	}
	refs := p.RefsToFunc(c09G+".(Store).RealmStorageDiffs", c09G+".(*defaultStore).RealmStorageDiffs")
	kcCallerTable(c, p, "who-may-call", c09G+".(Store).RealmStorageDiffs", refs,
		[]string{R + "FinalizeRealmTransaction", c08VM + ".(*VMKeeper).processStorageDeposit"},
		[]string{R + "FinalizeRealmTransaction", c08VM + ".(*VMKeeper).processStorageDeposit"})
}

func c09counters(c *engine.Ctx, p *engine.Prog) {
	V := c08VM + ".(*VMKeeper)."
	for _, fld := range []string{"Deposit", "Storage"} {
		fv := p.Field(c09G + ".Realm." + fld)
		if fv == nil {
			c.Undecided("anchor", c09G+".Realm."+fld, "field not found")
			continue
		}
		ws := p.FieldWrites(fv)
		writers := engine.WriterSet(ws, func(w engine.Write) bool {
			// generated amino decoders rebuild the record from the store
			file := p.Fset.Position(w.Fn.Pos()).Filename
			return !strings.HasSuffix(file, "pb3_gen.go")
		})
		extra := kcUnacceptedCallers(p, writers, []string{V + "lockStorageDeposit", V + "refundStorageDeposit"})
		c.CheckAt("who-may-write", c09G+".Realm."+fld, "-", len(extra) == 0, "writers: "+join(writers))
		c.Floor("who-may-write "+fld, len(ws), 2)
	}
	type spec struct {
		fn, helper        string
		amtParam, szParam string
	}
	for _, sp := range []spec{{"lockStorageDeposit", "Addp", "requiredDeposit", "diff"}, {"refundStorageDeposit", "Subp", "depositUnlocked", "released"}} {
		f := c.MustFunc(V + sp.fn)
		if f == nil {
			continue
		}
		info := f.Info()
		g := f.Graph()
		rlm := kcParam(f, "rlm")
		amt, sz := kcParam(f, sp.amtParam), kcParam(f, sp.szParam)
		if rlm == nil || amt == nil || sz == nil {
			c.Undecided("counter-pairing", f.Name, "expected parameters rlm/"+sp.amtParam+"/"+sp.szParam+" not found")
			continue
		}
		tr := f.CallsTo(c08VM + ".(BankKeeperI).SendCoinsUnrestricted")
		c.Floor("counter-pairing transfer "+sp.fn, len(tr), 1)
		if len(tr) != 1 {
			continue
		}
		t := tr[0]
		// the coins moved carry Amount: <amt>
		coins := kcResolve(f, kcArg(t, 3))
		okAmt := false
		nAmt := 0
		ast.Inspect(coins, func(n ast.Node) bool {
			if kv, isKV := n.(*ast.KeyValueExpr); isKV {
				if k, isID := kv.Key.(*ast.Ident); isID && k.Name == "Amount" {
					nAmt++
					okAmt = engine.ObjOf(info, kv.Value) == amt && kcIsIdent(kv.Value)
				}
			}
			return true
		})
		kcAt(c, p, "counter-pairing", f.Name+" transfer amount", t.Pos(), okAmt && nAmt == 1, "the bank transfer must move exactly the "+sp.amtParam+" parameter")
		for _, o := range []types.Object{amt, sz, rlm} {
			if rhs, okd := kcDefs(f, o); !okd || len(rhs) != 0 {
				kcAt(c, p, "counter-pairing", f.Name+" parameter "+o.Name()+" unmodified", f.Pos(), false, "parameter is reassigned")
			}
		}
		for fld, val := range map[string]types.Object{"Deposit": amt, "Storage": sz} {
			n := 0
			engine.InspectBody(f, func(nd ast.Node) {
				as, isAs := nd.(*ast.AssignStmt)
				if !isAs || len(as.Lhs) != 1 || !kcSelOf(info, as.Lhs[0], rlm, fld) {
					return
				}
				n++
				key := f.Name + " rlm." + fld
				s := f.SiteOf(as)
				ok, why := false, ""
				call, isCall := ast.Unparen(as.Rhs[0]).(*ast.CallExpr)
				if as.Tok == token.ASSIGN && isCall && len(call.Args) == 2 && kcIsCallTo(info, call, "tm2/pkg/overflow.Addp", "tm2/pkg/overflow.Subp") != nil {
					se, _ := call.Fun.(*ast.SelectorExpr)
					switch {
					case se == nil || se.Sel.Name != sp.helper:
						why = "counter changed with " + engine.ExprString(call.Fun) + ", expected overflow." + sp.helper
					case !kcSelOf(info, call.Args[0], rlm, fld):
						why = "first operand is not rlm." + fld
					case engine.ObjOf(info, kcStripConv(info, call.Args[1])) != val:
						why = "rlm." + fld + " changes by `" + engine.ExprString(call.Args[1]) + "`, expected " + val.Name()
					default:
						ok = true
					}
				} else {
					why = "unrecognised update form `" + engine.ExprString(as.Rhs[0]) + "`"
				}
				if ok && s != nil {
					r := g.CheckedGuard(t, s)
					if !r.OK {
						ok, why = false, "counter is updated without the bank transfer having succeeded: "+r.Why
					} else if !c09errNilSide(r) {
						ok, why = false, "counter is updated on the transfer's error path"
					}
				}
				kcAt(c, p, "counter-pairing", key, as.Pos(), ok, why)
			})
			c.Floor("counter-pairing "+sp.fn+" "+fld, n, 1)
		}
	}
}

// c09errNilSide: the guard's condition is `err != nil` with the target on the
// false branch, or `err == nil` on the true branch.
func c09errNilSide(r engine.GuardResult) bool {
	b, ok := ast.Unparen(r.Cond).(*ast.BinaryExpr)
	if !ok || !(isNil(b.Y) || isNil(b.X)) {
		return false
	}
	return (b.Op == token.NEQ && !r.OnTrue) || (b.Op == token.EQL && r.OnTrue)
}

func c09settle(c *engine.Ctx, p *engine.Prog) {
	V := c08VM + ".(*VMKeeper)."
	f := c.MustFunc(V + "processStorageDeposit")
	if f == nil {
		return
	}
	info := f.Info()
	g := f.Graph()
	params := kcParam(f, "params")
	locks := f.CallsTo(V + "lockStorageDeposit")
	refunds := f.CallsTo(V + "refundStorageDeposit")
	c.Floor("settlement lock", len(locks), 1)
	c.Floor("settlement refund", len(refunds), 1)

	// price-at-start: requiredDeposit = Mulp(diff, price.Amount), price from params.StoragePrice (the parameter)
	for _, l := range locks {
		req := kcArg(l, 3)
		dif := kcArg(l, 4)
		ok, why := false, ""
		def := kcResolve(f, req)
		call := kcIsCallTo(info, def, "tm2/pkg/overflow.Mulp")
		switch {
		case call == nil || len(call.Args) != 2:
			why = "required deposit is `" + engine.ExprString(def) + "`, expected overflow.Mulp(diff, price.Amount)"
		case !kcSameObj(info, call.Args[0], dif):
			why = "the bytes priced (`" + engine.ExprString(call.Args[0]) + "`) are not the bytes recorded (`" + engine.ExprString(dif) + "`)"
		default:
			se, isSel := ast.Unparen(call.Args[1]).(*ast.SelectorExpr)
			if !isSel || se.Sel.Name != "Amount" {
				why = "price operand is not <price>.Amount"
				break
			}
			pd := kcResolve(f, se.X)
			pc := kcIsCallTo(info, pd, "tm2/pkg/std.MustParseCoin", "tm2/pkg/std.ParseCoin")
			if pc == nil || len(pc.Args) != 1 || !kcSelOf(info, pc.Args[0], params, "StoragePrice") {
				why = "price is `" + engine.ExprString(pd) + "`, expected MustParseCoin(params.StoragePrice) of the params parameter"
				break
			}
			if rhs, okd := kcDefs(f, params); !okd || len(rhs) != 0 {
				why = "params parameter is reassigned"
				break
			}
			ok = true
		}
		kcAt(c, p, "price-at-start", f.Name+" lock priced with start-of-message params", l.Pos(), ok, why)
		// diff is realmDiffs[rlmPath] and the realm is GetPackageRealm(rlmPath)
		okr := false
		dd := kcResolve(f, dif)
		rl := kcResolve(f, kcArg(l, 2))
		if ix, isIx := ast.Unparen(dd).(*ast.IndexExpr); isIx {
			if rc, isCall := rl.(*ast.CallExpr); isCall && len(rc.Args) == 1 && kcSameObj(info, rc.Args[0], ix.Index) {
				if se, isSel := rc.Fun.(*ast.SelectorExpr); isSel && se.Sel.Name == "GetPackageRealm" {
					okr = true
				}
			}
		}
		kcAt(c, p, "price-at-start", f.Name+" lock charges the realm whose diff it is", l.Pos(), okr, "rlm must be GetPackageRealm(path) and diff realmDiffs[path] for the same path")

		// deposit-limit
		var limOK bool
		var depObj types.Object
		for _, ft := range kcFacts(g, l) {
			x, y, op, okc := kcCmp(ft)
			if okc && op == token.GEQ && kcSameObj(info, y, req) && kcIsIdent(x) {
				limOK, depObj = true, engine.ObjOf(info, x)
			}
			if okc && op == token.LEQ && kcSameObj(info, x, req) && kcIsIdent(y) {
				limOK, depObj = true, engine.ObjOf(info, y)
			}
		}
		kcAt(c, p, "deposit-limit", f.Name+" lock only within the remaining limit", l.Pos(), limOK, "lockStorageDeposit must be reachable only when remaining deposit limit >= required deposit (un-weakened)")
		if limOK {
			// remaining limit decreases by the required deposit after a successful lock
			dec := false
			engine.InspectBody(f, func(n ast.Node) {
				as, isAs := n.(*ast.AssignStmt)
				if !isAs || as.Tok != token.SUB_ASSIGN || len(as.Lhs) != 1 || engine.ObjOf(info, as.Lhs[0]) != depObj || !kcSameObj(info, as.Rhs[0], req) {
					return
				}
				if s := f.SiteOf(as); s != nil && g.Dominates(l, s) {
					if r := g.CheckedGuard(l, s); r.OK && c09errNilSide(r) {
						dec = true
					}
				}
			})
			kcAt(c, p, "deposit-limit", f.Name+" limit consumed by each lock", l.Pos(), dec, "`limit -= requiredDeposit` must follow every successful lock (several realms share one limit)")
			// the failing branch leaves an error that is returned
			errVar := c09errAccumulator(f)
			okErr := false
			if errVar != nil {
				// a nil return must be gated by errVar == nil
				okErr = true
				nn := 0
				for _, ex := range kcNormalExits(f) {
					rs, isRet := ex.Node.(*ast.ReturnStmt)
					if !isRet || len(rs.Results) != 1 || !isNil(rs.Results[0]) {
						continue
					}
					// skip returns that precede the loop (CheckTx guard)
					if !g.ReachableAfter(l, ex) {
						continue
					}
					nn++
					gated := false
					for _, ft := range kcFacts(g, ex) {
						x, y, op, okc := kcCmp(ft)
						if okc && op == token.EQL && engine.ObjOf(info, x) == errVar && isNil(y) {
							gated = true
						}
					}
					if !gated {
						okErr = false
					}
				}
				if nn == 0 {
					okErr = false
				}
				// on the limit-exceeded branch the accumulator is assigned
				assigned := false
				engine.InspectBody(f, func(n ast.Node) {
					as, isAs := n.(*ast.AssignStmt)
					if !isAs || len(as.Lhs) != 1 || engine.ObjOf(info, as.Lhs[0]) != errVar {
						return
					}
					s := f.SiteOf(as)
					if s == nil {
						return
					}
					for _, ft := range kcFacts(g, s) {
						x, y, op, okc := kcCmp(ft)
						if okc && op == token.LSS && engine.ObjOf(info, x) == depObj && kcSameObj(info, y, req) {
							if call, isCall := ast.Unparen(as.Rhs[0]).(*ast.CallExpr); isCall && (kcIsCallTo(info, call, "errors.Join") != nil || kcIsCallTo(info, call, "fmt.Errorf") != nil) {
								assigned = true
							}
						}
					}
				})
				okErr = okErr && assigned
			}
			kcAt(c, p, "deposit-limit", f.Name+" exceeded limit fails the message", l.Pos(), okErr, "when limit < required an error must be accumulated and no `return nil` may be reachable with it set")
		}
	}

	// full-release
	for _, r := range refunds {
		unl := kcArg(r, 3)
		rel := kcArg(r, 4)
		rlmObj := engine.ObjOf(info, kcArg(r, 2))
		uo := engine.ObjOf(info, unl)
		ok, why := false, "no assignment depositUnlocked = int64(rlm.Deposit) under rlm.Storage == uint64(released)"
		// candidate places where the refund becomes the whole deposit, with the
		// gates under which that happens (all expressed in f's terms)
		gateOK := func(gates []engine.Gate) bool {
			hit := false
			for _, gt := range gates {
				if !gt.OnTrue {
					continue
				}
				cj := engine.Conjuncts(gt.Cond, token.LAND)
				mentions := false
				for _, e := range cj {
					if kcCmpAny(e, func(x, y ast.Expr, op token.Token) bool {
						return op == token.EQL && kcSelOf(info, x, rlmObj, "Storage") && kcSameObj(info, y, rel)
					}) {
						mentions = true
					}
				}
				if mentions && len(cj) == 1 {
					hit = true
				} else if mentions {
					why = "full-release test is weakened: `" + engine.ExprString(gt.Cond) + "`"
				}
			}
			return hit
		}
		if uo != nil {
			engine.InspectBody(f, func(n ast.Node) {
				as, isAs := n.(*ast.AssignStmt)
				if !isAs || len(as.Lhs) != 1 || engine.ObjOf(info, as.Lhs[0]) != uo {
					return
				}
				if !kcSelOf(info, kcStripConv(info, as.Rhs[0]), rlmObj, "Deposit") {
					return
				}
				s := f.SiteOf(as)
				if s == nil || !g.Dominates(s, r) && !g.ReachableAfter(s, r) {
					return
				}
				if gateOK(kcGates(g, s)) {
					ok = true
				}
			})
			// or: the refund is computed by an in-program helper that returns the
			// whole deposit exactly when all storage is released
			if d := kcPlainDef(f, uo); d != nil && !ok {
				if call, isCall := ast.Unparen(d).(*ast.CallExpr); isCall {
					var callee *types.Func
					switch fn := ast.Unparen(call.Fun).(type) {
					case *ast.Ident:
						callee, _ = info.Uses[fn].(*types.Func)
					case *ast.SelectorExpr:
						callee, _ = info.Uses[fn.Sel].(*types.Func)
					}
					if h := p.FnOf(callee); h != nil && h != f {
						kcSubstInfo = info
						m := kcBindCall(h, call, nil)
						engine.InspectBody(h, func(n ast.Node) {
							rs, isRet := n.(*ast.ReturnStmt)
							if !isRet || len(rs.Results) != 1 {
								return
							}
							kcSubstInfo = info
							val := kcSubst(rs.Results[0], m)
							if !kcSelOf(info, kcStripConv(info, val), rlmObj, "Deposit") {
								return
							}
							st := h.SiteOf(rs)
							if st == nil {
								return
							}
							var gates []engine.Gate
							for _, gt := range kcGates(h.Graph(), st) {
								kcSubstInfo = info
								gates = append(gates, engine.Gate{Cond: kcSubst(gt.Cond, m), OnTrue: gt.OnTrue, Block: gt.Block})
							}
							if gateOK(gates) {
								ok = true
							}
						})
					}
				}
			}
		}
		kcAt(c, p, "full-release", f.Name+" releasing all storage refunds the whole deposit", r.Pos(), ok, why)
		// released == -diff of this realm
		rd := kcResolve(f, rel)
		okn := false
		if u, isU := ast.Unparen(rd).(*ast.UnaryExpr); isU && u.Op == token.SUB {
			dd := kcResolve(f, u.X)
			rl := kcResolve(f, kcArg(r, 2))
			if ix, isIx := ast.Unparen(dd).(*ast.IndexExpr); isIx {
				if rc, isCall := rl.(*ast.CallExpr); isCall && len(rc.Args) == 1 && kcSameObj(info, rc.Args[0], ix.Index) {
					okn = true
				}
			}
		}
		kcAt(c, p, "full-release", f.Name+" released bytes are minus the realm's diff", r.Pos(), okn, "released must be -realmDiffs[path] of the refunded realm")
	}

	// flush-after-transfer + realm saved
	fl := f.CallsTo(c08VM + ".FlushParamsRealmAccum")
	c.Floor("flush-after-transfer", len(fl), 2)
	sets := f.CallsTo(c09G + ".(Store).SetPackageRealm")
	for _, s := range fl {
		ok, why := false, "no successful lock/refund dominates the flush"
		for _, t := range append(append([]*engine.Site{}, locks...), refunds...) {
			if r := g.CheckedGuard(t, s); r.OK && c09errNilSide(r) {
				ok = true
			}
		}
		kcAt(c, p, "flush-after-transfer", f.Name+" FlushParamsRealmAccum", s.Pos(), ok, why)
		saved := false
		for _, st := range sets {
			if kcMustFollow(f, s, st) {
				saved = true
			}
		}
		kcAt(c, p, "flush-after-transfer", f.Name+" realm record saved after settlement", s.Pos(), saved, "gnostore.SetPackageRealm(rlm) must follow every successful lock/refund")
	}
	// every lock/refund is followed (on success) by a flush
	for _, t := range append(append([]*engine.Site{}, locks...), refunds...) {
		has := false
		for _, s := range fl {
			if r := g.CheckedGuard(t, s); r.OK && c09errNilSide(r) {
				has = true
			}
		}
		kcAt(c, p, "flush-after-transfer", f.Name+" "+t.CalleeName()+" followed by flush", t.Pos(), has, "")
	}

	// sorted settlement
	for _, t := range append(append([]*engine.Site{}, locks...), refunds...) {
		ok, why := false, "lock/refund is not inside a loop over a sorted slice"
		engine.InspectBody(f, func(n ast.Node) {
			rs, isR := n.(*ast.RangeStmt)
			if !isR || !(rs.Body.Pos() <= t.Pos() && t.Pos() < rs.Body.End()) {
				return
			}
			tt := info.TypeOf(rs.X)
			if tt == nil {
				return
			}
			if _, isMap := tt.Underlying().(*types.Map); isMap {
				why = "settlement iterates a map (non-deterministic order)"
				return
			}
			xo := engine.ObjOf(info, rs.X)
			rsite := f.SiteOf(rs.X)
			for _, sc := range f.CallsTo("slices.SortFunc", "slices.Sort", "sort.Strings", "slices.SortStableFunc") {
				if xo != nil && engine.ObjOf(info, kcArg(sc, 0)) == xo && rsite != nil && g.Dominates(sc, rsite) {
					ok = true
				}
			}
			if !ok {
				why = "the slice iterated is not sorted before the loop"
			}
		})
		kcAt(c, p, "sorted-settlement", f.Name+" "+t.CalleeName(), t.Pos(), ok, why)
	}

	// params byte deltas merged into the realm diffs before settlement
	merged := false
	engine.InspectBody(f, func(n ast.Node) {
		rs, isR := n.(*ast.RangeStmt)
		if !isR || kcIsCallTo(info, rs.X, c08VM+".ParamsRealmDiffs") == nil || rs.Key == nil || rs.Value == nil {
			return
		}
		for _, st := range rs.Body.List {
			as, isAs := st.(*ast.AssignStmt)
			if !isAs || as.Tok != token.ADD_ASSIGN {
				continue
			}
			ix, isIx := ast.Unparen(as.Lhs[0]).(*ast.IndexExpr)
			if !isIx || !kcSameObj(info, ix.Index, rs.Key) || !kcSameObj(info, as.Rhs[0], rs.Value) {
				continue
			}
			md := kcResolve(f, ix.X)
			if mc, isCall := md.(*ast.CallExpr); isCall {
				if se, isSel := mc.Fun.(*ast.SelectorExpr); isSel && se.Sel.Name == "RealmStorageDiffs" {
					s := f.SiteOf(as)
					if s != nil && len(locks) > 0 && !g.ReachableAfter(locks[0], s) {
						merged = true
					}
				}
			}
		}
	})
	kcAt(c, p, "params-delta", f.Name+" merges ParamsRealmDiffs into the realm diffs", f.Pos(), merged, "chain-params byte deltas must be added to RealmStorageDiffs()[realm] before settlement")
}

// c09errAccumulator finds the local error variable declared `var x error`.
func c09errAccumulator(f *engine.Fn) types.Object {
	var out types.Object
	engine.InspectBody(f, func(n ast.Node) {
		vs, ok := n.(*ast.ValueSpec)
		if !ok || len(vs.Names) != 1 || len(vs.Values) != 0 {
			return
		}
		if id, ok := vs.Type.(*ast.Ident); ok && id.Name == "error" && out == nil {
			out = f.Info().ObjectOf(vs.Names[0])
		}
	})
	return out
}

func c09handlers(c *engine.Ctx, p *engine.Prog) {
	V := c08VM + ".(*VMKeeper)."
	run := map[string][]string{
		"AddPackage": {c09G + ".(*Machine).RunMemPackage"},
		"Call":       {c09G + ".(*Machine).Eval"},
		"Run":        {c09G + ".(*Machine).RunMemPackage", c09G + ".(*Machine).RunMainMaybeCrossing"},
	}
	for _, h := range []string{"AddPackage", "Call", "Run"} {
		f := c.MustFunc(V + h)
		if f == nil {
			continue
		}
		info := f.Info()
		g := f.Graph()
		key := f.Name
		ps := f.CallsTo(V + "processStorageDeposit")
		c.Floor("handler-settles "+h, len(ps), 1)
		if len(ps) == 0 {
			continue
		}
		execs := f.CallsToDeep(run[h]...)
		c.Floor("handler-settles exec "+h, len(execs), len(run[h]))
		for _, s := range ps {
			// params argument: single definition vm.GetParams(ctx), before any machine run
			po := engine.ObjOf(info, kcArg(s, 4))
			ok, why := false, ""
			var defSite *engine.Site
			if po == nil || !kcIsIdent(kcArg(s, 4)) {
				why = "params argument is not a local variable"
			} else if d := kcSingleDef(f, po); d == nil {
				why = "params variable has more than one definition (must be read once, before the machine runs)"
			} else if kcIsCallTo(info, d, V+"GetParams") == nil {
				why = "params is `" + engine.ExprString(d) + "`, expected vm.GetParams(ctx)"
			} else {
				defSite = f.SiteOf(d)
				ok = defSite != nil && defSite.Fn == f
				if !ok {
					why = "params definition not located in the handler body"
				}
			}
			if ok {
				for _, e := range execs {
					if e.Fn == f {
						if !g.Dominates(defSite, e) {
							ok, why = false, "params are read after/without dominating the machine run"
						}
					} else {
						// run inside a closure: the closure literal must come after the read
						lit := e.Fn
						for lit.Parent != nil && lit.Parent != f {
							lit = lit.Parent
						}
						ls := f.SiteOf(lit.Lit)
						if ls == nil || !g.Dominates(defSite, ls) {
							ok, why = false, "params are read after/without dominating the machine run (closure)"
						}
					}
				}
			}
			kcAt(c, p, "handler-settles", key+" params read before execution", s.Pos(), ok, why)

			// settlement after execution
			after := true
			for _, e := range execs {
				if e.Fn == f && !g.Dominates(e, s) {
					after = false
				}
				if e.Fn != f {
					lit := e.Fn
					for lit.Parent != nil && lit.Parent != f {
						lit = lit.Parent
					}
					if ls := f.SiteOf(lit.Lit); ls == nil || !g.Dominates(ls, s) {
						after = false
					}
				}
			}
			kcAt(c, p, "handler-settles", key+" settles after execution", s.Pos(), after, "processStorageDeposit must be dominated by the machine run")

			// error returned
			r := engine.GuardResult{}
			retOK := false
			for _, ex := range kcNormalExits(f) {
				rs, isRet := ex.Node.(*ast.ReturnStmt)
				if !isRet || !g.Dominates(s, ex) {
					continue
				}
				if rr := g.CheckedGuard(s, ex); rr.OK && !c09errNilSide(rr) {
					// exit on the err != nil side: must return err (or named result)
					last := ast.Expr(nil)
					if len(rs.Results) > 0 {
						last = rs.Results[len(rs.Results)-1]
					}
					if last == nil || engine.MentionsName(last, "err") {
						retOK = true
					}
					r = rr
				}
			}
			_ = r
			kcAt(c, p, "handler-settles", key+" settlement error fails the message", s.Pos(), retOK, "the error of processStorageDeposit must be tested and returned")

			// gnostore argument comes from getGnoTransactionStore (per-message reset)
			gs := kcResolve(f, kcArg(s, 3))
			kcAt(c, p, "handler-settles", key+" store from getGnoTransactionStore", s.Pos(), kcIsCallTo(info, gs, V+"getGnoTransactionStore") != nil,
				"the store whose RealmStorageDiffs are settled must be obtained through getGnoTransactionStore (which resets them per message); got `"+engine.ExprString(gs)+"`")

			// accumulator seeded before NewSDKParams captures ctx
			seeds := f.CallsTo(c08VM + ".ContextWithParamsAccum")
			news := f.CallsTo(c08VM + ".NewSDKParams")
			okSeed := len(seeds) == 1 && len(news) >= 1
			if okSeed {
				as, isAs := seeds[0].Top.(*ast.AssignStmt)
				ctxObj := kcParam(f, "ctx")
				okSeed = isAs && len(as.Lhs) == 1 && engine.ObjOf(info, as.Lhs[0]) == ctxObj && as.Tok == token.ASSIGN
				for _, nw := range news {
					if !g.Dominates(seeds[0], nw) || engine.ObjOf(info, kcArg(nw, 1)) != ctxObj {
						okSeed = false
					}
				}
				if !g.Dominates(seeds[0], s) || engine.ObjOf(info, kcArg(s, 0)) != ctxObj {
					okSeed = false
				}
			}
			kcAt(c, p, "handler-settles", key+" params accumulator seeded on ctx before NewSDKParams and settlement", s.Pos(), okSeed, "ctx = ContextWithParamsAccum(ctx) must dominate NewSDKParams(…, ctx) and processStorageDeposit(ctx, …)")
		}
	}
	// getGnoTransactionStore resets, ClearObjectCache replaces the map
	if f := c.MustFunc(V + "getGnoTransactionStore"); f != nil {
		cl := f.CallsTo(c09G+".(TransactionStore).ClearObjectCache", c09G+".(Store).ClearObjectCache", c09G+".(*defaultStore).ClearObjectCache")
		ok := len(cl) > 0
		for _, s := range cl {
			for _, ex := range kcNormalExits(f) {
				if !f.Graph().Dominates(s, ex) {
					ok = false
				}
			}
		}
		kcAt(c, p, "handler-settles", f.Name+" resets per-message state", f.Pos(), ok, "getGnoTransactionStore must call ClearObjectCache on every path")
	}
	if f := c.MustFunc(c09G + ".(*defaultStore).ClearObjectCache"); f != nil {
		rf := p.Field(c09G + ".defaultStore.realmStorageDiffs")
		ok := false
		for _, w := range p.FieldWrites(rf) {
			if w.Fn == f && w.Direct && w.Kind == "assign" {
				if as, isAs := w.Node.(*ast.AssignStmt); isAs && len(as.Rhs) == 1 && engine.IsBuiltinCall(f.Info(), ast.Unparen(as.Rhs[0]).(*ast.CallExpr), "make") {
					ok = true
				}
			}
		}
		kcAt(c, p, "handler-settles", f.Name+" replaces realmStorageDiffs by an empty map", f.Pos(), ok, "")
	}
}

func c09paramsDelta(c *engine.Ctx, p *engine.Prog) {
	n := 0
	for _, m := range []string{"SetString", "SetBool", "SetInt64", "SetUint64", "SetBytes", "SetStrings"} {
		f := c.MustFunc(c08VM + ".(*SDKParams)." + m)
		if f == nil {
			continue
		}
		keyP := kcParam(f, "key")
		sets := f.CallsToDeep("." + m)
		var hit bool
		for _, s := range sets {
			if s.Fn == f && s.CalleeName() == c08VM+".(*SDKParams)."+m {
				continue
			}
			if !strings.Contains(s.CalleeName(), "ParamsKeeperI") {
				continue
			}
			n++
			hit = true
			fn := s.Fn
			info := fn.Info()
			g := fn.Graph()
			ok, why := false, "the keeper's byte delta is not passed to recordParamsDelta"
			as, isAs := s.Top.(*ast.AssignStmt)
			if isAs && len(as.Lhs) == 1 && ast.Unparen(as.Rhs[0]) == s.Call {
				d := engine.ObjOf(info, as.Lhs[0])
				for _, r := range fn.CallsTo(c08VM + ".recordParamsDelta") {
					if g.Dominates(s, r) && kcMustFollow(fn, s, r) && engine.ObjOf(info, kcArg(r, 3)) == d && d != nil &&
						engine.ObjOf(info, kcArg(r, 2)) == keyP && engine.ObjOf(info, kcArg(s, 1)) == keyP {
						ok = true
					}
				}
			}
			kcAt(c, p, "params-delta", f.Name, s.Pos(), ok, why)
		}
		if !hit {
			kcAt(c, p, "params-delta", f.Name, f.Pos(), false, "no call of the params keeper's "+m+" found")
		}
	}
	c.Floor("params-delta", n, 6)
}
