package checks

import (
	"go/ast"
	"go/constant"
	"go/token"
	"go/types"
	"sort"
	"strings"

	"golang.org/x/tools/go/cfg"

	"gnoverif/engine"
)

// Helpers of gnovmB's checks (C07, C10, C11, C12). All names carry the gb prefix.

// gbDefs is a flow-insensitive table "local variable -> expressions it was
// defined/assigned from", over a whole declared function including its literals.
type gbDefs struct {
	info *types.Info
	defs map[types.Object][]ast.Expr
}

func gbCollectDefs(f *engine.Fn) *gbDefs {
	root := f.Root()
	d := &gbDefs{info: f.Info(), defs: map[types.Object][]ast.Expr{}}
	add := func(l ast.Expr, r ast.Expr) {
		id, ok := ast.Unparen(l).(*ast.Ident)
		if !ok || id.Name == "_" {
			return
		}
		if o := d.info.ObjectOf(id); o != nil {
			d.defs[o] = append(d.defs[o], r)
		}
	}
	ast.Inspect(root.Body, func(n ast.Node) bool {
		switch x := n.(type) {
		case *ast.AssignStmt:
			if len(x.Lhs) == len(x.Rhs) {
				for i := range x.Lhs {
					add(x.Lhs[i], x.Rhs[i])
				}
			} else if len(x.Rhs) == 1 {
				for i := range x.Lhs {
					add(x.Lhs[i], x.Rhs[0])
				}
			}
		case *ast.ValueSpec:
			if len(x.Names) == len(x.Values) {
				for i := range x.Names {
					add(x.Names[i], x.Values[i])
				}
			} else if len(x.Values) == 1 {
				for i := range x.Names {
					add(x.Names[i], x.Values[0])
				}
			}
		case *ast.RangeStmt:
			if x.Key != nil {
				add(x.Key, x.X)
			}
			if x.Value != nil {
				add(x.Value, x.X)
			}
		case *ast.TypeSwitchStmt:
			if as, ok := x.Assign.(*ast.AssignStmt); ok && len(as.Rhs) == 1 {
				for _, c := range x.Body.List {
					if o := d.info.Implicits[c]; o != nil {
						d.defs[o] = append(d.defs[o], as.Rhs[0])
					}
				}
			}
		}
		return true
	})
	return d
}

// gbChain is what an access path expression is derived from: the variables on
// its (transitive) value path and the calls met on the way.
type gbChain struct {
	objs  map[types.Object]bool
	calls []*ast.CallExpr
}

// gbContextType: method calls on these receivers yield values that are not
// "part of" the receiver (m.PopValue(), m.Alloc.NewX()).
func gbContextType(t types.Type) bool {
	if t == nil {
		return false
	}
	s := engine.TypeName(t)
	return strings.HasSuffix(s, "gnolang.Machine") || strings.HasSuffix(s, "gnolang.Allocator")
}

// roots follows e along value paths only: selectors, index/slice, deref, &,
// type assertion, conversions and method calls (through the receiver).
func (d *gbDefs) roots(e ast.Expr) *gbChain {
	ch := &gbChain{objs: map[types.Object]bool{}}
	var walk func(e ast.Expr)
	walk = func(e ast.Expr) {
		switch x := ast.Unparen(e).(type) {
		case *ast.Ident:
			o := d.info.ObjectOf(x)
			if o == nil || ch.objs[o] {
				return
			}
			if _, ok := o.(*types.Var); !ok {
				return
			}
			ch.objs[o] = true
			for _, r := range d.defs[o] {
				walk(r)
			}
		case *ast.SelectorExpr:
			if id, ok := x.X.(*ast.Ident); ok {
				if _, isPkg := d.info.ObjectOf(id).(*types.PkgName); isPkg {
					return
				}
			}
			walk(x.X)
		case *ast.IndexExpr:
			walk(x.X)
		case *ast.SliceExpr:
			walk(x.X)
		case *ast.StarExpr:
			walk(x.X)
		case *ast.UnaryExpr:
			if x.Op == token.AND {
				walk(x.X)
			}
		case *ast.TypeAssertExpr:
			walk(x.X)
		case *ast.CallExpr:
			ch.calls = append(ch.calls, x)
			if tv, ok := d.info.Types[x.Fun]; ok && tv.IsType() && len(x.Args) == 1 {
				walk(x.Args[0])
				return
			}
			if sel, ok := ast.Unparen(x.Fun).(*ast.SelectorExpr); ok {
				if s := d.info.Selections[sel]; s != nil && s.Kind() == types.MethodVal {
					if !gbContextType(d.info.TypeOf(sel.X)) {
						walk(sel.X)
					}
				}
			}
		}
	}
	walk(e)
	return ch
}

// gbHeadIdent returns the leading identifier object of a selector/index chain.
func gbHeadIdent(info *types.Info, e ast.Expr) types.Object {
	for {
		switch x := ast.Unparen(e).(type) {
		case *ast.Ident:
			return info.ObjectOf(x)
		case *ast.SelectorExpr:
			e = x.X
		case *ast.IndexExpr:
			e = x.X
		case *ast.StarExpr:
			e = x.X
		case *ast.UnaryExpr:
			e = x.X
		case *ast.TypeAssertExpr:
			e = x.X
		default:
			return nil
		}
	}
}

func gbCalleeName(info *types.Info, call *ast.CallExpr) string {
	var id *ast.Ident
	switch f := ast.Unparen(call.Fun).(type) {
	case *ast.Ident:
		id = f
	case *ast.SelectorExpr:
		id = f.Sel
	default:
		return ""
	}
	switch o := info.Uses[id].(type) {
	case *types.Func:
		return engine.FuncName(o)
	case *types.Builtin:
		return "builtin." + o.Name()
	}
	return ""
}

// gbNative finds the function literal registered by defNative("<name>", …)
// inside gnolang.makeUverseNode — keyed by the native's name, not by position.
func gbNative(p *engine.Prog, name string) *engine.Fn {
	root := p.Func("gnovm/pkg/gnolang.makeUverseNode")
	if root == nil {
		return nil
	}
	var lit *ast.FuncLit
	ast.Inspect(root.Body, func(n ast.Node) bool {
		call, ok := n.(*ast.CallExpr)
		if !ok || len(call.Args) < 4 {
			return true
		}
		if id, ok := call.Fun.(*ast.Ident); !ok || id.Name != "defNative" {
			return true
		}
		tv := root.Info().Types[call.Args[0]]
		if tv.Value == nil || tv.Value.Kind() != constant.String || constant.StringVal(tv.Value) != name {
			return true
		}
		if fl, ok := call.Args[len(call.Args)-1].(*ast.FuncLit); ok {
			lit = fl
		}
		return true
	})
	if lit == nil {
		return nil
	}
	for _, l := range root.AllLits() {
		if l.Lit == lit {
			return l
		}
	}
	return nil
}

// gbFnKey is a position-free key for a function body: declared name, or
// "uverse native <name>" for the natives of makeUverseNode.
func gbFnKey(p *engine.Prog, f *engine.Fn, natives map[*engine.Fn]string) string {
	if n, ok := natives[f]; ok {
		return "uverse-native(" + n + ")"
	}
	return f.Name
}

func gbNatives(p *engine.Prog, names ...string) (map[*engine.Fn]string, map[string]*engine.Fn) {
	by := map[*engine.Fn]string{}
	byName := map[string]*engine.Fn{}
	for _, n := range names {
		if f := gbNative(p, n); f != nil {
			by[f] = n
			byName[n] = f
		}
	}
	return by, byName
}

// gbAssignedVars: the variables bound from the call at site s (lhs of the
// assignment / value spec whose rhs contains the call).
func gbAssignedVars(f *engine.Fn, s *engine.Site) []types.Object {
	info := f.Info()
	var out []types.Object
	switch st := s.Top.(type) {
	case *ast.AssignStmt:
		for _, r := range st.Rhs {
			if r.Pos() <= s.Node.Pos() && s.Node.End() <= r.End() {
				for _, l := range st.Lhs {
					if id, ok := l.(*ast.Ident); ok {
						out = append(out, info.ObjectOf(id))
					} else {
						out = append(out, nil)
					}
				}
			}
		}
	case *ast.DeclStmt:
		if gd, ok := st.Decl.(*ast.GenDecl); ok {
			for _, sp := range gd.Specs {
				if vs, ok := sp.(*ast.ValueSpec); ok {
					for _, id := range vs.Names {
						out = append(out, info.ObjectOf(id))
					}
				}
			}
		}
	}
	return out
}

// gbSoleCond: cond (parens stripped) is exactly the call node, or exactly an
// identifier (a variable bound to the guard's result); not negated, not combined.
func gbSoleCond(cond ast.Expr, call ast.Node) (ast.Expr, bool) {
	e := ast.Unparen(cond)
	if e == call {
		return e, true
	}
	if c, ok := e.(*ast.CallExpr); ok && c == call {
		return e, true
	}
	if _, ok := e.(*ast.Ident); ok {
		return e, true
	}
	return e, false
}

// gbReachAvoid: is `to` reachable from `from` without passing any block in avoid
// (from itself is allowed to be in avoid only if it is not the start).
func gbReachAvoid(g *engine.Graph, from, to *cfg.Block, avoid map[*cfg.Block]bool) bool {
	return g.Reach(from, to, avoid)
}

// gbBlockOf returns the CFG block holding node n (via SiteOf), or nil.
func gbBlockOf(f *engine.Fn, n ast.Node) *cfg.Block {
	if s := f.SiteOf(n); s != nil {
		return s.Block
	}
	return nil
}

// gbEnclosingClause returns the case clause of sw that contains pos.
func gbEnclosingClause(body *ast.BlockStmt, pos token.Pos) *ast.CaseClause {
	for _, c := range body.List {
		if cc, ok := c.(*ast.CaseClause); ok && cc.Pos() <= pos && pos < cc.End() {
			return cc
		}
	}
	return nil
}

func gbSorted(m map[string]bool) []string {
	var out []string
	for k := range m {
		out = append(out, k)
	}
	sort.Strings(out)
	return out
}

// gbConstInt evaluates a constant integer expression via go/types.
func gbConstInt(info *types.Info, e ast.Expr) (int64, bool) {
	tv, ok := info.Types[e]
	if !ok || tv.Value == nil {
		return 0, false
	}
	v := constant.ToInt(tv.Value)
	if v.Kind() != constant.Int {
		return 0, false
	}
	return constant.Int64Val(v)
}

// gbIsPanicStmt: statement is a call that never returns.
func gbIsNoReturnStmt(f *engine.Fn, s ast.Stmt) bool {
	es, ok := s.(*ast.ExprStmt)
	if !ok {
		return false
	}
	call, ok := es.X.(*ast.CallExpr)
	if !ok {
		return false
	}
	return !f.Prog.MayReturn(f.Info(), call)
}

// gbSitesIn returns the call sites of f matching pats whose node lies in [lo,hi).
func gbSitesIn(f *engine.Fn, lo, hi token.Pos, pats ...string) []*engine.Site {
	var out []*engine.Site
	for _, s := range f.CallsTo(pats...) {
		if lo <= s.Pos() && s.Pos() < hi {
			out = append(out, s)
		}
	}
	return out
}

type cfgBlock = cfg.Block

// gbEntryBlock returns the CFG block that executes first inside stmt (the
// block of the earliest CFG node lying within stmt's source range).
func gbEntryBlock(f *engine.Fn, stmt ast.Node) *cfg.Block {
	g := f.Graph()
	var best *cfg.Block
	bestPos := token.NoPos
	for _, b := range g.CFG.Blocks {
		if !b.Live {
			continue
		}
		for _, n := range b.Nodes {
			if stmt.Pos() <= n.Pos() && n.End() <= stmt.End() {
				if best == nil || n.Pos() < bestPos {
					best, bestPos = b, n.Pos()
				}
			}
		}
	}
	return best
}

// ---------------------------------------------------------------------------
// Facts: polarity-aware reading of gates (robust to if/else inversion, nested
// ifs vs &&, early-return forms, swapped operands).

// gbFact is a boolean expression known to be true (Pos) or false (!Pos) at a site.
type gbFact struct {
	E   ast.Expr
	Pos bool
}

// gbSplitFact decomposes (e is pos) into atomic facts: strips ! and parens,
// splits && on the true side and || on the false side. Unsplittable compounds
// (¬(a&&b), (a||b)) are kept whole.
func gbSplitFact(e ast.Expr, pos bool, out *[]gbFact) {
	e = ast.Unparen(e)
	switch x := e.(type) {
	case *ast.UnaryExpr:
		if x.Op == token.NOT {
			gbSplitFact(x.X, !pos, out)
			return
		}
	case *ast.BinaryExpr:
		if (x.Op == token.LAND && pos) || (x.Op == token.LOR && !pos) {
			gbSplitFact(x.X, pos, out)
			gbSplitFact(x.Y, pos, out)
			return
		}
	}
	*out = append(*out, gbFact{e, pos})
}

// gbFactsOf turns gates into atomic facts and then resolves compounds:
// ¬(a && b && c) with a, b known true yields ¬c; (a || b) with a known false yields b.
func gbFactsOf(gates []engine.Gate) []gbFact {
	var fs []gbFact
	for _, gt := range gates {
		gbSplitFact(gt.Full(), gt.OnTrue, &fs)
	}
	key := func(e ast.Expr) string { return types.ExprString(ast.Unparen(e)) }
	for changed, rounds := true, 0; changed && rounds < 4; rounds++ {
		changed = false
		known := map[string]bool{} // expr text -> truth
		has := map[string]bool{}
		for _, f := range fs {
			known[key(f.E)] = f.Pos
			has[key(f.E)] = true
		}
		for _, f := range fs {
			bx, ok := ast.Unparen(f.E).(*ast.BinaryExpr)
			if !ok {
				continue
			}
			var parts []gbFact
			switch {
			case bx.Op == token.LAND && !f.Pos: // not all true
				var lits []gbFact
				gbSplitFact(bx, true, &lits)
				for _, l := range lits { // l.Pos is the polarity needed for the conjunct to be true
					k := key(l.E)
					if has[k] && known[k] == l.Pos {
						continue // conjunct established true
					}
					parts = append(parts, l)
				}
				if len(parts) == 1 {
					nf := gbFact{parts[0].E, !parts[0].Pos}
					if !has[key(nf.E)] {
						fs = append(fs, nf)
						changed = true
					}
				}
			case bx.Op == token.LOR && f.Pos: // at least one true
				var lits []gbFact
				gbSplitFact(bx, false, &lits) // l.Pos is polarity for the disjunct to be false
				for _, l := range lits {
					k := key(l.E)
					if has[k] && known[k] == l.Pos {
						continue // disjunct established false
					}
					parts = append(parts, l)
				}
				if len(parts) == 1 {
					nf := gbFact{parts[0].E, !parts[0].Pos}
					if !has[key(nf.E)] {
						fs = append(fs, nf)
						changed = true
					}
				}
			}
		}
	}
	return fs
}

// gbEq reads a fact as an (in)equality: x == y holds (equal=true) or x != y holds.
func gbEq(f gbFact) (x, y ast.Expr, equal, ok bool) {
	bx, isB := ast.Unparen(f.E).(*ast.BinaryExpr)
	if !isB {
		return nil, nil, false, false
	}
	switch bx.Op {
	case token.EQL:
		return bx.X, bx.Y, f.Pos, true
	case token.NEQ:
		return bx.X, bx.Y, !f.Pos, true
	}
	return nil, nil, false, false
}

// gbCmp reads a fact as an ordering "x op y" that HOLDS, normalised to one of
// GTR / GEQ with operands possibly swapped (so x > y or x >= y).
func gbCmp(f gbFact) (x, y ast.Expr, op token.Token, ok bool) {
	bx, isB := ast.Unparen(f.E).(*ast.BinaryExpr)
	if !isB {
		return nil, nil, token.ILLEGAL, false
	}
	o := bx.Op
	switch o {
	case token.LSS, token.LEQ, token.GTR, token.GEQ:
	default:
		return nil, nil, token.ILLEGAL, false
	}
	if !f.Pos {
		o = engine.Negate(o)
	}
	x, y = bx.X, bx.Y
	if o == token.LSS || o == token.LEQ {
		x, y = y, x
		o = engine.Flip(o)
	}
	return x, y, o, true
}

// gbFactCall: the fact is (the truth value of) a call; returns the call.
func gbFactCall(f gbFact) (*ast.CallExpr, bool) {
	c, ok := ast.Unparen(f.E).(*ast.CallExpr)
	return c, ok
}

// gbResolveLocal replaces an identifier that has exactly one definition in
// the function by its defining expression (repeatedly, bounded).
func (d *gbDefs) resolveLocal(e ast.Expr) ast.Expr {
	for i := 0; i < 4; i++ {
		id, ok := ast.Unparen(e).(*ast.Ident)
		if !ok {
			return e
		}
		o := d.info.ObjectOf(id)
		if o == nil || len(d.defs[o]) != 1 {
			return e
		}
		e = d.defs[o][0]
	}
	return e
}

// gbAllExitsPassDeep: every normal exit of f executes a node satisfying match,
// directly or inside an in-program helper whose own normal exits all pass it.
// allow may bless exits. Returns the offending exit block (nil = ok) and the
// number of direct/deep sites found.
func gbAllExitsPassDeep(f *engine.Fn, depth int, match func(fn *engine.Fn, n ast.Node) bool, allow func(fn *engine.Fn, b *cfgBlock) bool) (*cfgBlock, int) {
	var sites []*engine.Site
	engine.InspectBody(f, func(n ast.Node) {
		if match(f, n) {
			if s := f.SiteOf(n); s != nil {
				sites = append(sites, s)
			}
			return
		}
		call, ok := n.(*ast.CallExpr)
		if !ok || depth <= 0 {
			return
		}
		s := f.SiteOf(call)
		if s == nil || s.Deferred || s.InGo {
			return
		}
		callee, _ := s.Callee.(*types.Func)
		h := f.Prog.FnOf(callee)
		if h == nil || h == f {
			return
		}
		if ex, n := gbAllExitsPassDeep(h, depth-1, match, nil); ex == nil && n > 0 {
			sites = append(sites, s)
		}
	})
	var al func(b *cfgBlock) bool
	if allow != nil {
		al = func(b *cfgBlock) bool { return allow(f, b) }
	}
	return gbExitWithout(f, sites, al), len(sites)
}

// gbExitFacts: facts holding at the end of block b of f.
func gbExitFacts(f *engine.Fn, b *cfgBlock) []gbFact {
	if len(b.Nodes) == 0 {
		return nil
	}
	st := f.SiteOf(b.Nodes[len(b.Nodes)-1])
	if st == nil {
		return nil
	}
	return gbFactsOf(f.Graph().Gates(st))
}

// gbIsNilCmp: fact is `x == nil` holding (isNil=true) or `x != nil` holding.
func gbIsNilCmp(f gbFact) (x ast.Expr, isNilHolds, ok bool) {
	a, b, eq, ok2 := gbEq(f)
	if !ok2 {
		return nil, false, false
	}
	if isNil(b) {
		return a, eq, true
	}
	if isNil(a) {
		return b, eq, true
	}
	return nil, false, false
}
