package checks

import (
	"go/ast"
	"go/token"
	"go/types"

	"gnoverif/engine"
)

// C43 — multiplexed connection (tm2/pkg/p2p/conn/connection.go).
func init() {
	register("C43", c43)
	meta("C43", Meta{
		Text:      "Decides structural necessary conditions of the multiplexed-connection property: Channel.recvPacketMsg appends a packet only after the capacity test on len(recving)+len(packet.Bytes), releases the buffer only on EOF == 1 and resets it before returning; MConnection.recvRoutine calls onReceive only in one place, with the packet's own channel id and the non-nil completed message of the channel looked up by that id, after the checked packet decode, channel lookup and recvPacketMsg error; every error path (decode error, unknown channel, recvPacketMsg error, unknown packet type) leaves the loop without reaching onReceive; nextPacketMsg cuts at most maxPacketMsgPayloadSize bytes, sets EOF exactly when the remaining bytes fit, advances by exactly the bytes cut and writes the cut packet; the send slot Channel.sending is refilled from the FIFO queue only when it is free (nil); writer payload size and reader packet limit derive from the same config field; queue/slot/buffer fields have frozen writer tables. Level 'other': code-shape clauses.",
		Note:      "Not covered: per-channel ordering under goroutine schedules (relies on Go channel FIFO + single send/recv goroutine), flow control, ping/pong, that consumers do not retain the delivered slice (it aliases the channel buffer). Trusts go/types+go/cfg.",
		Technique: "CFG gate facts, checked-guard dominance, loop-exit reachability on error branches, writer/reader constant-source comparison, who-may-write tables",
		Ref:       "DESIGN.md §2 C43",
	})
	const F = "tm2/pkg/p2p/conn/connection.go"
	mutants("C43",
		Mutant{"capacity-check-weakened", F, "if recvCap < recvReceived {", "if recvCap < recvReceived && recvCap > 0 {", "recv-assembly"},
		Mutant{"partial-message-released", F, "if packet.EOF == byte(0x01) {\n\t\tmsgBytes := ch.recving", "if packet.EOF == byte(0x01) || len(ch.recving) > 1024 {\n\t\tmsgBytes := ch.recving", "recv-assembly"},
		Mutant{"buffer-not-reset", F, "\t\tch.recving = ch.recving[:0] //", "\t\t//", "recv-assembly"},
		Mutant{"recv-error-continues", F, "\t\t\t\t\tc.stopForError(err)\n\t\t\t\t}\n\t\t\t\tbreak FOR_LOOP\n\t\t\t}\n\t\t\tif msgBytes != nil {", "\t\t\t\t\tc.stopForError(err)\n\t\t\t\t}\n\t\t\t\tcontinue FOR_LOOP\n\t\t\t}\n\t\t\tif msgBytes != nil {", "recv-errors"},
		Mutant{"unknown-channel-continues", F, "\t\t\t\tc.stopForError(err)\n\t\t\t\tbreak FOR_LOOP\n\t\t\t}\n\n\t\t\tmsgBytes, err := channel.recvPacketMsg(pkt)", "\t\t\t\tc.stopForError(err)\n\t\t\t\tcontinue FOR_LOOP\n\t\t\t}\n\n\t\t\tmsgBytes, err := channel.recvPacketMsg(pkt)", "recv-errors"},
		Mutant{"incomplete-delivered", F, "if msgBytes != nil {\n\t\t\t\t// NOTE: This means the reactor.Receive", "if msgBytes != nil || pkt.EOF == 0 {\n\t\t\t\t// NOTE: This means the reactor.Receive", "deliver-complete"},
		Mutant{"empty-message-overwritten", F, "\tif ch.sending == nil {\n\t\tif len(ch.sendQueue) == 0 {", "\tif len(ch.sending) == 0 {\n\t\tif len(ch.sendQueue) == 0 {", "dequeue-keeps-message"},
		Mutant{"eof-off-by-one", F, "if len(ch.sending) <= maxSize {", "if len(ch.sending) < maxSize {", "send-framing"},
		Mutant{"remainder-skips-byte", F, "ch.sending = ch.sending[min(maxSize, len(ch.sending)):]", "ch.sending = ch.sending[min(maxSize, len(ch.sending))+1:]", "send-framing"},
		Mutant{"writer-bigger-than-reader", F, "maxPacketMsgPayloadSize: conn.config.MaxPacketMsgPayloadSize,", "maxPacketMsgPayloadSize: conn.config.MaxPacketMsgPayloadSize * 2,", "size-agree"},
		Mutant{"wrong-channel-buffer", F, "channel, ok := c.channelsIdx[pkt.ChannelID]", "channel, ok := c.channelsIdx[pkt.ChannelID|1]", "deliver-complete"},
	)
}

func c43(c *engine.Ctx) {
	c.Explain = "Decides structural necessary conditions of the multiplexed-connection property: (1) recv-assembly: append to Channel.recving only when RecvMessageCapacity >= len(recving)+len(packet.Bytes); message returned only under packet.EOF == 1, taken from recving and followed by the reset before the return; (2) deliver-complete: the single onReceive call gets (pkt.ChannelID, msgBytes) with msgBytes != nil from recvPacketMsg of the channel found under pkt.ChannelID, after checked decode/lookup/recv errors; (3) recv-errors: every stopForError site and every failing branch of those tests leaves the receive loop without reaching onReceive; the packet type switch has exactly Ping/Pong/Msg + an erroring default; (4) send-framing: packet = sending[:min(max,len)], EOF=1 iff len(sending) <= max with the slot cleared, else EOF=0 and the slot advanced by the same amount; the marshalled packet is the one cut; (5) dequeue-keeps-message: the send slot is refilled from sendQueue only when it is free (== nil, the value nextPacketMsg leaves), and only there; (6) size-agree: writer payload limit and reader packet limit both come from config.MaxPacketMsgPayloadSize; (7) writer tables for recving/sending/sendQueue. Not covered: schedules, flow control, aliasing of the delivered slice."
	p := c.Load("tm2/pkg/p2p/conn")
	if p == nil {
		return
	}
	const P = "tm2/pkg/p2p/conn."
	fld := func(q string) *types.Var {
		v := p.Field(P + q)
		if v == nil {
			c.Undecided("anchor", P+q, "field not found")
		}
		return v
	}
	fRecving, fSending, fQueue, fMaxPay := fld("Channel.recving"), fld("Channel.sending"), fld("Channel.sendQueue"), fld("Channel.maxPacketMsgPayloadSize")
	fBytes, fEOF, fChID := fld("PacketMsg.Bytes"), fld("PacketMsg.EOF"), fld("PacketMsg.ChannelID")
	fCap := fld("ChannelDescriptor.RecvMessageCapacity")
	fIdx, fOnRecv, fMaxPkt, fCfgPay := fld("MConnection.channelsIdx"), fld("MConnection.onReceive"), fld("MConnection._maxPacketMsgSize"), fld("MConnConfig.MaxPacketMsgPayloadSize")
	for _, v := range []*types.Var{fRecving, fSending, fQueue, fMaxPay, fBytes, fEOF, fChID, fCap, fIdx, fOnRecv, fMaxPkt, fCfgPay} {
		if v == nil {
			return
		}
	}

	// ---------- (1) recvPacketMsg ----------
	if f := c.MustFunc(P + "(*Channel).recvPacketMsg"); f != nil {
		c43RecvAssembly(c, p, f, fRecving, fBytes, fEOF, fCap)
	}
	// ---------- (2,3) recvRoutine ----------
	if f := c.MustFunc(P + "(*MConnection).recvRoutine"); f != nil {
		c43RecvRoutine(c, p, f, fIdx, fOnRecv, fChID, fMaxPkt)
	}
	// ---------- (4) send framing ----------
	if f := c.MustFunc(P + "(*Channel).nextPacketMsg"); f != nil {
		c43SendFraming(c, p, f, fSending, fMaxPay, fBytes, fEOF, fChID)
	}
	// the packet cut by nextPacketMsg is the one marshalled onto the wire — wherever that happens
	// (Channel.writePacketMsgTo today; it may be inlined into its caller)
	{
		np := c.MustFunc(P + "(*Channel).nextPacketMsg")
		nCut, nWritten := 0, 0
		if np != nil {
			sites, complete := c49CallersOf(p, np)
			for _, cs := range sites {
				nCut++
				f := cs.Fn
				info := f.Info()
				objs := niAssignedFromCall(f, cs)
				ok := false
				for _, s := range f.CallsTo("tm2/pkg/amino.MarshalAnySizedWriter", "tm2/pkg/amino.MarshalSizedWriter") {
					if len(s.Call.Args) != 2 {
						continue
					}
					arg := ast.Unparen(s.Call.Args[1])
					direct := arg == ast.Expr(cs.Call)
					viaVar := len(objs) == 1 && objs[0] != nil && engine.ObjOf(info, arg) == objs[0] && f.Graph().Dominates(cs, s)
					if direct || viaVar {
						ok = true
					}
				}
				if ok {
					nWritten++
				}
				c.Check("send-framing", f.Root().Name+" writes the packet just cut", cs.Pos(), ok, "the marshalled value must be the result of nextPacketMsg()")
			}
			c.Check("send-framing", np.Name+" only called to be written", np.Pos(), complete && nCut >= 1 && nCut == nWritten, "every packet cut from the send slot must be marshalled to the connection")
		}
	}
	// ---------- (5) dequeue ----------
	c43Dequeue(c, p, fSending, fQueue)
	// ---------- (6) size agree ----------
	c43SizeAgree(c, p, fMaxPay, fMaxPkt, fCfgPay)
	// ---------- (7) writer tables ----------
	for _, x := range []struct {
		f     *types.Var
		name  string
		allow []string
	}{
		{fRecving, "Channel.recving", []string{P + "(*Channel).recvPacketMsg"}},
		{fSending, "Channel.sending", []string{P + "(*Channel).isSendPending", P + "(*Channel).nextPacketMsg"}},
		{fQueue, "Channel.sendQueue", nil},
		{fMaxPay, "Channel.maxPacketMsgPayloadSize", nil},
		{fMaxPkt, "MConnection._maxPacketMsgSize", []string{P + "NewMConnectionWithConfig"}},
		{fOnRecv, "MConnection.onReceive", nil},
	} {
		ws := engine.WriterSet(p.FieldWrites(x.f), func(w engine.Write) bool { return w.Kind != "lit" })
		extra := engine.SetDiff(ws, x.allow)
		c.Check("who-may-write", P+x.name, token.NoPos, len(extra) == 0, "writers outside the table: "+join(extra))
	}
}

func c43RecvAssembly(c *engine.Ctx, p *engine.Prog, f *engine.Fn, fRecving, fBytes, fEOF, fCap *types.Var) {
	const rule = "recv-assembly"
	info := f.Info()
	g := f.Graph()
	pkt := paramObj(f, 0)
	// the append
	n := 0
	var appendSite *engine.Site
	for _, w := range p.FieldWrites(fRecving) {
		if w.Fn != f || w.Kind == "lit" {
			continue
		}
		as, ok := w.Node.(*ast.AssignStmt)
		if !ok || len(as.Rhs) != 1 || len(as.Lhs) != 1 {
			c.Check(rule, f.Name+" write to recving recognised", w.Node.Pos(), false, "unexpected write form")
			continue
		}
		call, isCall := ast.Unparen(as.Rhs[0]).(*ast.CallExpr)
		if !isCall || !engine.IsBuiltinCall(info, call, "append") {
			continue // the reset, handled below
		}
		n++
		s := f.SiteOf(as)
		appendSite = s
		okForm := len(call.Args) == 2 && niSelField(info, call.Args[0], fRecving) && niSelField(info, call.Args[1], fBytes) && niMentionsObj(info, call.Args[1], pkt) && call.Ellipsis.IsValid() && w.Direct
		c.Check(rule, f.Name+" appends packet.Bytes to recving", as.Pos(), okForm && s != nil, "")
		okCap, why := false, "no `RecvMessageCapacity >= len(recving)+len(packet.Bytes)` fact holds at the append"
		if s != nil {
			// the test may sit in recvPacketMsg or in a private error helper whose nil result gates the append
			for _, cf := range niFactsDeep(f, s, 2) {
				cmp, ok := niAsCmp(cf.niFact)
				if !ok {
					continue
				}
				finfo := cf.Info()
				for _, cm := range []niCmp{cmp, cmp.niFlip()} {
					if cm.Op != token.GEQ {
						continue
					}
					x, y := c43Resolve(cf.Fn, cm.X), c43Resolve(cf.Fn, cm.Y)
					if !niSelField(finfo, x, fCap) {
						continue
					}
					be, isB := ast.Unparen(y).(*ast.BinaryExpr)
					if !isB || be.Op != token.ADD {
						continue
					}
					a, b := be.X, be.Y
					if niIsLenOfField(finfo, b, fRecving) {
						a, b = b, a
					}
					// the arriving bytes: len(packet.Bytes), possibly passed to the helper as an argument
					arriving := niIsLenOfField(finfo, b, fBytes)
					if ae, afn := cf.ArgOf(b); ae != nil {
						arriving = niIsLenOfField(afn.Info(), ae, fBytes) && niMentionsObj(afn.Info(), ae, pkt)
					}
					if niIsLenOfField(finfo, a, fRecving) && arriving {
						if len(niGateFacts(cf.Gate)) == 1 {
							okCap, why = true, "append only when capacity >= bytes held + bytes arriving"
						} else {
							why = "capacity test is combined with another condition: `" + engine.ExprString(cf.Gate.Cond) + "`"
						}
					}
				}
			}
		}
		c.Check(rule, f.Name+" append after capacity test", as.Pos(), okCap, why)
	}
	c.Floor(rule, n, 1)
	// message release
	nret := 0
	for _, r := range niReturns(f) {
		rs := r.Node.(*ast.ReturnStmt)
		if len(rs.Results) != 2 || isNil(rs.Results[0]) {
			continue
		}
		nret++
		okEOF, whyEOF := false, "no `packet.EOF == 1` fact holds at the release"
		for _, ft := range niFacts(g, r) {
			cmp, ok := niAsCmp(ft)
			if !ok {
				continue
			}
			for _, cm := range []niCmp{cmp, cmp.niFlip()} {
				if cm.Op == token.EQL && niSelField(info, cm.X, fEOF) && niMentionsObj(info, cm.X, pkt) {
					if v, okv := niIntVal(f, cm.Y, 0); okv && v == 1 {
						okEOF, whyEOF = true, "released only on the EOF packet"
					}
				}
			}
		}
		c.Check(rule, f.Name+" message released only on EOF == 1", r.Pos(), okEOF, whyEOF)
		// returned value captured from recving after the append, reset between capture and return
		mo := engine.ObjOf(info, rs.Results[0])
		d := niSingleDef(f, mo)
		okCap := d != nil && niSelField(info, d, fRecving)
		var capSite *engine.Site
		engine.InspectBody(f, func(x ast.Node) {
			if as, ok := x.(*ast.AssignStmt); ok && len(as.Rhs) == 1 && as.Rhs[0] == d {
				capSite = f.SiteOf(as)
			}
		})
		okOrder := capSite != nil && appendSite != nil && g.Dominates(appendSite, capSite)
		c.Check(rule, f.Name+" released message is the assembled buffer", r.Pos(), okCap && okOrder && isNil(rs.Results[1]), "the value returned must be ch.recving captured after the append")
		okReset := false
		for _, w := range p.FieldWrites(fRecving) {
			if w.Fn != f || !w.Direct {
				continue
			}
			as, ok := w.Node.(*ast.AssignStmt)
			if !ok || len(as.Rhs) != 1 {
				continue
			}
			rhs := ast.Unparen(as.Rhs[0])
			isReset := isNil(rhs)
			if se, isS := rhs.(*ast.SliceExpr); isS && niSelField(info, se.X, fRecving) && se.Low == nil && se.High != nil {
				if v, okv := niIntVal(f, se.High, 0); okv && v == 0 {
					isReset = true
				}
			}
			if call, isCall := rhs.(*ast.CallExpr); isCall && engine.IsBuiltinCall(info, call, "make") && len(call.Args) >= 2 {
				if v, okv := niIntVal(f, call.Args[1], 0); okv && v == 0 {
					isReset = true
				}
			}
			if s := f.SiteOf(as); isReset && s != nil && capSite != nil && g.Dominates(capSite, s) && g.Dominates(s, r) {
				okReset = true
			}
		}
		c.Check(rule, f.Name+" buffer reset before the release returns", r.Pos(), okReset, "ch.recving must be emptied between capturing the message and returning it")
	}
	c.Floor(rule+" (release)", nret, 1)
}

// c43Resolve replaces a local by its unique definition (one step).
func c43Resolve(f *engine.Fn, e ast.Expr) ast.Expr {
	if id, ok := ast.Unparen(e).(*ast.Ident); ok {
		if v, ok := f.Info().ObjectOf(id).(*types.Var); ok && !v.IsField() {
			if d := niSingleDef(f, v); d != nil {
				return d
			}
		}
	}
	return e
}

func c43RecvRoutine(c *engine.Ctx, p *engine.Prog, f *engine.Fn, fIdx, fOnRecv, fChID, fMaxPkt *types.Var) {
	const P = "tm2/pkg/p2p/conn."
	info := f.Info()
	g := f.Graph()
	// who calls onReceive (closed under private helpers of recvRoutine)
	var callRefs []engine.Ref
	var valueUses []string
	for _, r := range p.RefsTo(func(o types.Object) bool { return o == types.Object(fOnRecv) }) {
		if r.Fn != nil && r.IsCall {
			callRefs = append(callRefs, r)
		} else if r.Fn != nil && r.Fn.Root().Name != P+"NewMConnectionWithConfig" {
			valueUses = append(valueUses, r.Fn.Root().Name+" (value use)")
		}
	}
	extra := append(p.UnexpectedCallers(callRefs, []string{f.Name}), valueUses...)
	c.Check("who-may-call", P+"MConnection.onReceive", token.NoPos, len(callRefs) >= 1 && len(extra) == 0, "callers outside recvRoutine and its private helpers: "+join(extra))

	var loop ast.Stmt
	engine.InspectBody(f, func(n ast.Node) {
		if fs, ok := n.(*ast.ForStmt); ok && loop == nil {
			loop = fs
		}
	})
	head := niLoopHead(g, loop)
	if loop == nil || head == nil {
		c.Undecided("recv-errors", f.Name, "receive loop not found")
		return
	}
	dec, dobjs := niBoundCall(f, "tm2/pkg/amino.UnmarshalSizedReader")
	if dec == nil || len(dobjs) != 2 {
		c.Undecided("deliver-complete", f.Name, "packet decode call not found as a single bound call")
		return
	}
	// reader limit
	c.Check("size-agree", f.Name+" packet decode bounded by _maxPacketMsgSize", dec.Pos(), len(dec.Call.Args) == 3 && niMentionsField(info, dec.Call.Args[2], fMaxPkt), "")

	// the delivery may sit in recvRoutine or in a private helper called from it
	isOnRecv := func(fn *engine.Fn, n ast.Node) bool {
		call, ok := n.(*ast.CallExpr)
		return ok && niSelField(fn.Info(), call.Fun, fOnRecv)
	}
	onD := f.DeepFind(2, isOnRecv)
	c.Floor("deliver-complete", len(onD), 1)
	// "continuing" exits of a function on the delivery path: for recvRoutine the
	// next loop iteration; for a helper the returns that do not report failure
	// (result true / nil error / no result)
	contBlocks := func(fn *engine.Fn) []*niCfgBlock {
		if fn == f {
			return []*niCfgBlock{head}
		}
		var out []*niCfgBlock
		for _, r := range niReturns(fn) {
			rs := r.Node.(*ast.ReturnStmt)
			if len(rs.Results) == 0 {
				out = append(out, r.Block)
				continue
			}
			last := rs.Results[len(rs.Results)-1]
			tv := fn.Info().Types[last]
			isFalse := tv.Value != nil && tv.Value.ExactString() == "false"
			isErr := !isNil(last) && tv.Value == nil && niIsErrorType(fn.Info().TypeOf(last))
			if !isFalse && !isErr {
				out = append(out, r.Block)
			}
		}
		// falling off the end of a function without results
		return out
	}
	onSitesIn := func(fn *engine.Fn) []*engine.Site {
		var out []*engine.Site
		for _, s := range fn.Calls() {
			if s.Call != nil && niSelField(fn.Info(), s.Call.Fun, fOnRecv) {
				out = append(out, s)
			}
		}
		if fn == f {
			for _, d := range onD {
				if d.Inner != d.Outer {
					out = append(out, d.Outer)
				}
			}
		}
		return out
	}
	// leaves: from block b of fn, neither a continuing exit nor a delivery is reachable
	leaves := func(fn *engine.Fn, b *niCfgBlock) bool {
		fg := fn.Graph()
		for _, t := range contBlocks(fn) {
			if b == t || fg.Reach(b, t, nil) {
				return false
			}
		}
		for _, o := range onSitesIn(fn) {
			if b == o.Block || fg.Reach(b, o.Block, nil) {
				return false
			}
		}
		return true
	}
	// callFails: in recvRoutine the failing result of the helper call leaves the loop
	callFails := func(outer *engine.Site) bool {
		for _, b := range g.CFG.Blocks {
			if !b.Live || len(b.Succs) != 2 || len(b.Nodes) == 0 {
				continue
			}
			cond, ok := b.Nodes[len(b.Nodes)-1].(ast.Expr)
			if !ok {
				continue
			}
			e := ast.Unparen(cond)
			neg := false
			for {
				u, isU := e.(*ast.UnaryExpr)
				if !isU || u.Op != token.NOT {
					break
				}
				neg = !neg
				e = ast.Unparen(u.X)
			}
			var fail *niCfgBlock
			switch x := e.(type) {
			case *ast.CallExpr:
				if x != outer.Call {
					continue
				}
				// boolean result: false means failure
				fail = b.Succs[1]
				if neg {
					fail = b.Succs[0]
				}
			case *ast.BinaryExpr:
				// err-style: v != nil / v == nil with v bound to the call
				if !isNil(x.Y) || (x.Op != token.NEQ && x.Op != token.EQL) {
					continue
				}
				cs, _, _ := niHelperOf(f, x.X, f.SiteOf(cond))
				if cs == nil || cs.Call != outer.Call {
					continue
				}
				failOnTrue := (x.Op == token.NEQ) != neg
				fail = b.Succs[1]
				if failOnTrue {
					fail = b.Succs[0]
				}
			default:
				continue
			}
			return leaves(f, fail)
		}
		return false
	}

	for _, d := range onD {
		D := d.Inner.Fn
		s := d.Inner
		dinfo := D.Info()
		dg := D.Graph()
		key := f.Name + " onReceive"
		rp, robjs := niBoundCall(D, P+"(*Channel).recvPacketMsg")
		if rp == nil || len(robjs) != 2 {
			c.Undecided("deliver-complete", f.Name, "recvPacketMsg not found as a single bound call next to onReceive")
			continue
		}
		// channel lookup
		var chObj, okObj, pktObj types.Object
		engine.InspectBody(D, func(n ast.Node) {
			as, ok := n.(*ast.AssignStmt)
			if !ok || len(as.Lhs) != 2 || len(as.Rhs) != 1 {
				return
			}
			ix, ok := ast.Unparen(as.Rhs[0]).(*ast.IndexExpr)
			if !ok || !niSelField(dinfo, ix.X, fIdx) {
				return
			}
			if niSelField(dinfo, ix.Index, fChID) {
				chObj, okObj = engine.ObjOf(dinfo, as.Lhs[0]), engine.ObjOf(dinfo, as.Lhs[1])
				pktObj = engine.ObjOf(dinfo, ast.Unparen(ix.Index).(*ast.SelectorExpr).X)
			}
		})
		okArgs := len(s.Call.Args) == 2 && niSelField(dinfo, s.Call.Args[0], fChID) && niMentionsObj(dinfo, s.Call.Args[0], pktObj) && engine.ObjOf(dinfo, s.Call.Args[1]) == robjs[0] && robjs[0] != nil
		c.Check("deliver-complete", key+" gets (pkt.ChannelID, completed message)", s.Pos(), okArgs, "")
		okChan := chObj != nil && engine.ObjOf(dinfo, niRecvExpr(rp.Call)) == chObj && len(rp.Call.Args) == 1 && engine.ObjOf(dinfo, rp.Call.Args[0]) == pktObj
		c.Check("deliver-complete", key+" message assembled by the channel looked up under pkt.ChannelID", s.Pos(), okChan, "channelsIdx[pkt.ChannelID].recvPacketMsg(pkt)")
		var nonNil, okFound, chNonNil bool
		for _, ft := range niFacts(dg, s) {
			if engine.ObjOf(dinfo, ft.Expr) == okObj && okObj != nil && ft.Holds {
				okFound = true
			}
			if cmp, isCmp := niAsCmp(ft); isCmp {
				if engine.ObjOf(dinfo, cmp.X) == robjs[0] && isNil(cmp.Y) && cmp.Op == token.NEQ && len(niGateFacts(ft.Gate)) == 1 {
					nonNil = true
				}
				if engine.ObjOf(dinfo, cmp.X) == chObj && isNil(cmp.Y) && cmp.Op == token.NEQ {
					chNonNil = true
				}
			}
		}
		c.Check("deliver-complete", key+" only for a non-nil (completed) message", s.Pos(), nonNil, "must be gated by msgBytes != nil alone")
		c.Check("deliver-complete", key+" only for a known channel", s.Pos(), okFound && chNonNil, "must be on the false side of `!ok || channel == nil`")
		gr := g.CheckedGuard(dec, d.Outer)
		c.Check("deliver-complete", key+" only after checked packet decode", s.Pos(), gr.OK && c39NilTestPasses(gr), gr.Why)
		gr = dg.CheckedGuard(rp, s)
		c.Check("deliver-complete", key+" only after checked recvPacketMsg", s.Pos(), gr.OK && c39NilTestPasses(gr), gr.Why)

		// failing branches of the lookup / recv tests (in D) leave without delivering
		errIs := func(o types.Object) func(ast.Expr) (bool, bool) {
			return func(e ast.Expr) (bool, bool) {
				be, ok := ast.Unparen(e).(*ast.BinaryExpr)
				if !ok || o == nil || engine.ObjOf(dinfo, be.X) != o || !isNil(be.Y) {
					return false, false
				}
				return be.Op == token.NEQ || be.Op == token.EQL, be.Op == token.NEQ
			}
		}
		for _, t := range []struct {
			name string
			pred func(ast.Expr) (bool, bool)
		}{
			{"recvPacketMsg error", errIs(robjs[1])},
			{"unknown channel", func(e ast.Expr) (bool, bool) {
				if okObj == nil {
					return false, false
				}
				// `!ok || channel == nil` (fails when true) or `ok && channel != nil` (fails when false)
				for _, a := range engine.Conjuncts(e, token.LOR) {
					if u, isU := ast.Unparen(a).(*ast.UnaryExpr); isU && u.Op == token.NOT && engine.ObjOf(dinfo, u.X) == okObj {
						return true, true
					}
				}
				for _, a := range engine.Conjuncts(e, token.LAND) {
					if engine.ObjOf(dinfo, a) == okObj {
						return true, false
					}
				}
				return false, false
			}},
		} {
			found, ok := false, true
			for _, b := range dg.CFG.Blocks {
				if !b.Live || len(b.Succs) != 2 || len(b.Nodes) == 0 {
					continue
				}
				cond, isE := b.Nodes[len(b.Nodes)-1].(ast.Expr)
				if !isE {
					continue
				}
				m, failTrue := t.pred(cond)
				if !m {
					continue
				}
				found = true
				fail := b.Succs[0]
				if !failTrue {
					fail = b.Succs[1]
				}
				if !leaves(D, fail) {
					ok = false
				}
			}
			c.Check("recv-errors", f.Name+" "+t.name+" leaves the loop without delivering", D.Pos(), found && ok, "the failing branch must reach neither the next iteration nor onReceive")
		}
		if D != f {
			c.Check("recv-errors", f.Name+" failure reported by "+D.Name+" leaves the loop", d.Outer.Pos(), callFails(d.Outer), "the receive loop must stop when the packet handler reports failure")
		}
	}
	// decode error (in recvRoutine)
	{
		found, ok := false, true
		for _, b := range g.CFG.Blocks {
			if !b.Live || len(b.Succs) != 2 || len(b.Nodes) == 0 {
				continue
			}
			cond, isE := b.Nodes[len(b.Nodes)-1].(ast.Expr)
			if !isE {
				continue
			}
			be, isB := ast.Unparen(cond).(*ast.BinaryExpr)
			if !isB || engine.ObjOf(info, be.X) != dobjs[1] || !isNil(be.Y) || (be.Op != token.NEQ && be.Op != token.EQL) {
				continue
			}
			found = true
			fail := b.Succs[0]
			if be.Op == token.EQL {
				fail = b.Succs[1]
			}
			if !leaves(f, fail) {
				ok = false
			}
		}
		c.Check("recv-errors", f.Name+" packet decode error leaves the loop without delivering", f.Pos(), found && ok, "the failing branch must reach neither the next iteration nor onReceive")
	}
	// every stopForError (direct or in a helper) ends the receive loop
	var stops []engine.DeepSite
	for _, d := range f.DeepCallsTo(2, P+"(*MConnection).stopForError") {
		if !d.Outer.Deferred { // the deferred panic handler runs after the loop has been left
			stops = append(stops, d)
		}
	}
	c.Floor("recv-errors", len(stops), 4)
	for i, d := range stops {
		bad := ""
		if d.Inner == d.Outer {
			for _, sc := range d.Outer.Block.Succs {
				if !leaves(f, sc) {
					bad = "the receive loop continues (or delivers) after stopForError"
				}
			}
		} else {
			h := d.Inner.Fn
			for _, sc := range d.Inner.Block.Succs {
				if !leaves(h, sc) {
					bad = "after stopForError " + h.Name + " can still report success or deliver"
				}
			}
			if len(d.Chain) != 1 {
				bad = "stopForError nested more than one helper deep"
			} else if !callFails(d.Outer) {
				bad = "the receive loop does not stop when " + h.Name + " reports failure"
			}
		}
		c.Check("recv-errors", f.Name+" stopForError #"+string(rune('1'+i))+" leaves the loop", d.Inner.Pos(), bad == "", bad)
	}
	// type switch: Ping, Pong, Msg + erroring default
	okSw := false
	for _, sw := range f.Switches() {
		if sw.Types == nil {
			continue
		}
		_, a := sw.Types[P+"PacketPing"]
		_, b := sw.Types[P+"PacketPong"]
		_, m := sw.Types[P+"PacketMsg"]
		if a && b && m && len(sw.Types) == 3 && sw.HasDefault {
			for _, d := range stops {
				if sw.Default.Pos() <= d.Outer.Pos() && d.Outer.Pos() < sw.Default.End() {
					okSw = true
				}
			}
		}
	}
	c.Check("recv-errors", f.Name+" packet switch = {Ping, Pong, Msg} + erroring default", f.Pos(), okSw, "an unknown packet type must stop the connection")
}

func niIsErrorType(t types.Type) bool {
	if t == nil {
		return false
	}
	return types.Implements(t, types.Universe.Lookup("error").Type().Underlying().(*types.Interface))
}

func c43SendFraming(c *engine.Ctx, p *engine.Prog, f *engine.Fn, fSending, fMaxPay, fBytes, fEOF, fChID *types.Var) {
	const rule = "send-framing"
	info := f.Info()
	g := f.Graph()
	isMax := func(e ast.Expr) bool {
		e = c43Resolve(f, e)
		return niSelField(info, e, fMaxPay)
	}
	// min(max, len(sending)) in either order
	isCut := func(e ast.Expr) bool {
		call, ok := ast.Unparen(c43Resolve(f, e)).(*ast.CallExpr)
		if !ok || !engine.IsBuiltinCall(info, call, "min") || len(call.Args) != 2 {
			return false
		}
		a, b := call.Args[0], call.Args[1]
		if niIsLenOfField(info, a, fSending) {
			a, b = b, a
		}
		return isMax(a) && niIsLenOfField(info, b, fSending)
	}
	var bytesSite *engine.Site
	okBytes := false
	// value given to a field by `x.f = v` or by the literal `T{f: v}`
	fieldVal := func(w engine.Write) (ast.Expr, ast.Node) {
		switch n := w.Node.(type) {
		case *ast.AssignStmt:
			if len(n.Rhs) == 1 && len(n.Lhs) == 1 {
				return n.Rhs[0], n
			}
		case *ast.KeyValueExpr:
			return n.Value, n
		}
		return nil, nil
	}
	for _, w := range p.FieldWrites(fBytes) {
		if w.Fn != f {
			continue
		}
		v, node := fieldVal(w)
		if v == nil {
			continue
		}
		bytesSite = f.SiteOf(node)
		if se, isS := ast.Unparen(v).(*ast.SliceExpr); isS && bytesSite != nil && niSelField(info, se.X, fSending) && se.Low == nil && se.High != nil && isCut(se.High) && len(g.Gates(bytesSite)) == 0 {
			okBytes = true
		}
	}
	c.Check(rule, f.Name+" packet.Bytes = sending[:min(maxPayload, len(sending))]", f.Pos(), okBytes && bytesSite != nil, "")
	// EOF assignments
	n := 0
	for _, w := range p.FieldWrites(fEOF) {
		if w.Fn != f || w.Kind == "lit" {
			continue
		}
		as, ok := w.Node.(*ast.AssignStmt)
		if !ok || len(as.Rhs) != 1 {
			continue
		}
		v, okv := niIntVal(f, as.Rhs[0], 0)
		s := f.SiteOf(as)
		if !okv || s == nil {
			c.Check(rule, f.Name+" EOF value is a constant", as.Pos(), false, "")
			continue
		}
		n++
		var fits, exceeds bool
		for _, ft := range niFacts(g, s) {
			if cmp, isCmp := niAsCmp(ft); isCmp {
				for _, cm := range []niCmp{cmp, cmp.niFlip()} {
					if niIsLenOfField(info, cm.X, fSending) && isMax(cm.Y) && len(niGateFacts(ft.Gate)) == 1 {
						if cm.Op == token.LEQ {
							fits = true
						}
						if cm.Op == token.GTR {
							exceeds = true
						}
					}
				}
			}
		}
		// the slot update in the same branch
		var slotOK bool
		for _, sw := range p.FieldWrites(fSending) {
			if sw.Fn != f || !sw.Direct {
				continue
			}
			sas, ok := sw.Node.(*ast.AssignStmt)
			ss := f.SiteOf(sw.Node)
			if !ok || len(sas.Rhs) != 1 || ss == nil || ss.Block != s.Block {
				continue
			}
			if bytesSite == nil || !g.Dominates(bytesSite, ss) {
				continue
			}
			if v == 1 && isNil(sas.Rhs[0]) {
				slotOK = true
			}
			if v == 0 {
				if se, isS := ast.Unparen(sas.Rhs[0]).(*ast.SliceExpr); isS && niSelField(info, se.X, fSending) && se.High == nil && se.Low != nil && (isCut(se.Low) || isMax(se.Low)) {
					slotOK = true
				}
			}
		}
		switch v {
		case 1:
			c.Check(rule, f.Name+" EOF=1 exactly when len(sending) <= maxPayload", as.Pos(), fits, "the last packet of a message is the one whose remaining bytes fit")
			c.Check(rule, f.Name+" EOF=1 frees the send slot", as.Pos(), slotOK, "ch.sending = nil in the same branch, after the bytes were cut")
		case 0:
			c.Check(rule, f.Name+" EOF=0 exactly when len(sending) > maxPayload", as.Pos(), exceeds, "")
			c.Check(rule, f.Name+" EOF=0 advances the slot by the bytes cut", as.Pos(), slotOK, "ch.sending = ch.sending[min(maxPayload, len(sending)):] in the same branch, after the bytes were cut")
		default:
			c.Check(rule, f.Name+" EOF is 0 or 1", as.Pos(), false, "")
		}
	}
	c.Floor(rule, n, 2)
	okID := false
	for _, w := range p.FieldWrites(fChID) {
		if w.Fn != f {
			continue
		}
		if v, _ := fieldVal(w); v != nil {
			if se, isS := ast.Unparen(c43Resolve(f, v)).(*ast.SelectorExpr); isS && se.Sel.Name == "ID" && niMentionsObj(info, se, niRecv(f)) {
				okID = true
			}
		}
	}
	c.Check(rule, f.Name+" packet carries the channel's own id", f.Pos(), okID, "")
}

func c43Dequeue(c *engine.Ctx, p *engine.Prog, fSending, fQueue *types.Var) {
	const P = "tm2/pkg/p2p/conn."
	const rule = "dequeue-keeps-message"
	n := 0
	var receivers, senders []string
	for _, f := range p.FuncsIn("tm2/pkg/p2p/conn") {
		info := f.Info()
		engine.InspectBody(f, func(x ast.Node) {
			switch st := x.(type) {
			case *ast.UnaryExpr:
				if st.Op != token.ARROW || !niSelField(info, st.X, fQueue) {
					return
				}
				receivers = append(receivers, f.Root().Name)
				n++
				s := f.SiteOf(st)
				as, isAs := (ast.Node)(nil), false
				if s != nil {
					as, isAs = s.Top.(*ast.AssignStmt)
				}
				okDst := false
				if isAs {
					a := as.(*ast.AssignStmt)
					okDst = len(a.Lhs) == 1 && niSelField(info, a.Lhs[0], fSending) && len(a.Rhs) == 1 && ast.Unparen(a.Rhs[0]) == ast.Expr(st)
				}
				c.Check(rule, f.Root().Name+" dequeued message goes into the send slot", st.Pos(), okDst, "ch.sending = <-ch.sendQueue")
				free, why := false, "the dequeue is not gated by `ch.sending == nil`"
				if s != nil {
					for _, ft := range niFacts(f.Graph(), s) {
						cmp, ok := niAsCmp(ft)
						if !ok {
							continue
						}
						for _, cm := range []niCmp{cmp, cmp.niFlip()} {
							if niSelField(info, cm.X, fSending) && isNil(cm.Y) && cm.Op == token.EQL {
								free, why = true, "slot refilled only when free"
							}
							if niIsLenOfField(info, cm.X, fSending) && cm.Op == token.EQL && niIsZero(info, cm.Y) && !free {
								why = "the slot is refilled when len(ch.sending) == 0, which also holds for a loaded zero-length message: that message is overwritten/forgotten and never sent (nextPacketMsg marks a free slot with nil)"
							}
						}
					}
				}
				c.Check(rule, f.Root().Name+" dequeue only when no message is loaded", st.Pos(), free, why)
			case *ast.SendStmt:
				if niSelField(info, st.Chan, fQueue) {
					senders = append(senders, f.Root().Name)
				}
			case *ast.CommClause:
				if ss, ok := st.Comm.(*ast.SendStmt); ok && niSelField(info, ss.Chan, fQueue) {
					senders = append(senders, f.Root().Name)
				}
			}
		})
	}
	c.Floor(rule, n, 1)
	c.Check("who-may-write", P+"Channel.sendQueue receivers", token.NoPos, len(engine.SetDiff(receivers, []string{P + "(*Channel).isSendPending"})) == 0, "receivers: "+join(receivers))
	c.Check("who-may-write", P+"Channel.sendQueue senders", token.NoPos, len(senders) >= 2 && len(engine.SetDiff(senders, []string{P + "(*Channel).sendBytes", P + "(*Channel).trySendBytes"})) == 0, "senders: "+join(senders))
}

func c43SizeAgree(c *engine.Ctx, p *engine.Prog, fMaxPay, fMaxPkt, fCfgPay *types.Var) {
	const P = "tm2/pkg/p2p/conn."
	const rule = "size-agree"
	// Channel.maxPacketMsgPayloadSize literal = conn.config.MaxPacketMsgPayloadSize
	n := 0
	for _, w := range p.FieldWrites(fMaxPay) {
		n++
		ok := false
		if kv, isKV := w.Node.(*ast.KeyValueExpr); isKV && w.Kind == "lit" {
			ok = niSelField(w.Fn.Info(), kv.Value, fCfgPay)
		}
		c.Check(rule, w.Fn.Root().Name+" writer payload limit = config.MaxPacketMsgPayloadSize", w.Node.Pos(), ok, "the per-packet payload the writer cuts must be exactly the configured size the reader's limit is computed from")
	}
	c.Floor(rule, n, 1)
	// _maxPacketMsgSize = maxPacketMsgSize(), which is computed from a PacketMsg with Bytes of the configured size
	m := 0
	for _, w := range p.FieldWrites(fMaxPkt) {
		m++
		ok := false
		if as, isAs := w.Node.(*ast.AssignStmt); isAs && len(as.Rhs) == 1 {
			if call, isCall := ast.Unparen(as.Rhs[0]).(*ast.CallExpr); isCall && niCallee(w.Fn.Info(), call) == P+"(*MConnection).maxPacketMsgSize" {
				ok = true
			}
		}
		c.Check(rule, w.Fn.Root().Name+" reader limit = maxPacketMsgSize()", w.Node.Pos(), ok, "")
	}
	c.Floor(rule+" (reader)", m, 1)
	if f := c.MustFunc(P + "(*MConnection).maxPacketMsgSize"); f != nil {
		info := f.Info()
		ok := false
		engine.InspectBody(f, func(x ast.Node) {
			kv, isKV := x.(*ast.KeyValueExpr)
			if !isKV {
				return
			}
			if k, isVar := engine.ObjOf(info, kv.Key).(*types.Var); isVar && k.Name() == "Bytes" {
				if call, isCall := ast.Unparen(kv.Value).(*ast.CallExpr); isCall && engine.IsBuiltinCall(info, call, "make") && len(call.Args) == 2 && niSelField(info, call.Args[1], fCfgPay) {
					ok = true
				}
			}
		})
		c.Check(rule, f.Name+" sized from a full payload of config.MaxPacketMsgPayloadSize", f.Pos(), ok, "")
	}
}
