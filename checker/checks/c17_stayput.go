package checks

import (
	"go/ast"

	"gnoverif/engine"
)

// C17 extra — the price stays put ONLY in the three stated cases. The main
// check verifies that the three stay-put guards (price 0, ratio 0, used ==
// target) exist; this rule closes the set: every return of the *unmodified*
// last price in calcBlockGasPrice is gated by exactly one of those three
// conditions. Any further early return freezes the price in a case where the
// rule demands a move of at least one unit. (Added after an independently
// seeded change merged the two zero-target division guards into an early
// `if target == 0 { return lastGasPrice }`.)
func init() {
	extend("C17", c17StayPutExact)
	mutants("C17",
		Mutant{"zero-target-freezes-price", "tm2/pkg/sdk/auth/keeper.go", "	// if used gas is right on target, no need to change\n", "	if targetGasInt.Sign() == 0 {\n\t\treturn lastGasPrice\n\t}\n\t// if used gas is right on target, no need to change\n", "stay-put-exact"},
	)
}

func c17StayPutExact(c *engine.Ctx) {
	p := progWith(c, "tm2/pkg/sdk/auth")
	if p == nil {
		return
	}
	f := c.MustFunc("tm2/pkg/sdk/auth.(GasPriceKeeper).calcBlockGasPrice")
	if f == nil {
		return
	}
	info := f.Info()
	g := f.Graph()
	last := paramObj(f, 0)
	var writes []*engine.Site
	engine.InspectBody(f, func(n ast.Node) {
		if as, ok := n.(*ast.AssignStmt); ok {
			for _, l := range as.Lhs {
				if engine.Mentions(info, l, last) {
					if s := f.SiteOf(as); s != nil {
						writes = append(writes, s)
					}
				}
			}
		}
	})
	n := 0
	engine.InspectBody(f, func(x ast.Node) {
		r, ok := x.(*ast.ReturnStmt)
		if !ok || len(r.Results) != 1 || engine.ObjOf(info, r.Results[0]) != last {
			return
		}
		st := f.SiteOf(r)
		if st == nil {
			return
		}
		for _, w := range writes {
			if g.ReachableAfter(w, st) {
				return // returns the updated price
			}
		}
		n++
		// classify by the innermost gate
		gates := g.Gates(st)
		kind := ""
		for _, gt := range gates {
			inner := true
			for _, o := range gates {
				if o.Block != gt.Block && g.BlockDominates(gt.Block, o.Block) {
					inner = false
				}
			}
			if !inner || !gt.OnTrue {
				continue
			}
			full := gt.Full()
			switch {
			case engine.MentionsName(full, "Cmp") && isZeroLit(gt.Cond) && gt.Tag != nil:
				kind = "used==target"
			case engine.MentionsName(gt.Cond, "Amount") && engine.Mentions(info, gt.Cond, last):
				kind = "price==0"
			case engine.MentionsName(gt.Cond, "TargetGasRatio"):
				kind = "ratio==0"
			case engine.MentionsName(gt.Cond, "Cmp"):
				kind = "used==target"
			default:
				kind = "OTHER: " + engine.ExprString(full)
			}
		}
		ok2 := kind == "price==0" || kind == "ratio==0" || kind == "used==target"
		c.Check("stay-put-exact", f.Name+" unmodified return under "+kind, r.Pos(), ok2,
			"the last price is returned unchanged under a condition other than the three stay-put cases (price 0, ratio 0, used == target): when the block used more or less gas than the target the price must move by at least one unit")
	})
	c.Floor("stay-put-exact", n, 3)
}

func isZeroLit(e ast.Expr) bool {
	b, ok := ast.Unparen(e).(*ast.BasicLit)
	return ok && b.Value == "0"
}
