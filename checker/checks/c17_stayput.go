package checks

import (
	"go/types"
	"go/token"
	"go/ast"

	"gnoverif/engine"
)

// C17 extra — the price stays put ONLY in the three stated cases. The main
// check verifies that the three stay-put guards (price 0, ratio 0, used ==
// target) exist; this rule closes the set: every return of the *unmodified*
// last price in calcBlockGasPrice is gated by exactly one of those three
// conditions. Any further early return freezes the price in a case where the
// rule demands a move of at least one unit. (Added after an independently
// seeded change merged the two zero-target division guards into an early
// `if target == 0 { return lastGasPrice }`.)
func init() {
	extend("C17", c17StayPutExact)
	mutants("C17",
		Mutant{"zero-target-freezes-price", "tm2/pkg/sdk/auth/keeper.go", "	// if used gas is right on target, no need to change\n", "	if targetGasInt.Sign() == 0 {\n\t\treturn lastGasPrice\n\t}\n\t// if used gas is right on target, no need to change\n", "stay-put-exact"},
	)
}

func c17StayPutExact(c *engine.Ctx) {
	p := progWith(c, "tm2/pkg/sdk/auth")
	if p == nil {
		return
	}
	f := c.MustFunc("tm2/pkg/sdk/auth.(GasPriceKeeper).calcBlockGasPrice")
	if f == nil {
		return
	}
	info := f.Info()
	g := f.Graph()
	last := paramObj(f, 0)
	var writes []*engine.Site
	engine.InspectBody(f, func(n ast.Node) {
		if as, ok := n.(*ast.AssignStmt); ok {
			for _, l := range as.Lhs {
				if engine.Mentions(info, l, last) {
					if s := f.SiteOf(as); s != nil {
						writes = append(writes, s)
					}
				}
			}
		}
	})
	n := 0
	engine.InspectBody(f, func(x ast.Node) {
		r, ok := x.(*ast.ReturnStmt)
		if !ok || len(r.Results) != 1 || engine.ObjOf(info, r.Results[0]) != last {
			return
		}
		st := f.SiteOf(r)
		if st == nil {
			return
		}
		for _, w := range writes {
			if g.ReachableAfter(w, st) {
				return // returns the updated price
			}
		}
		n++
		// classify by the innermost gate
		gates := g.Gates(st)
		kind := ""
		for _, gt := range gates {
			inner := true
			for _, o := range gates {
				if o.Block != gt.Block && g.BlockDominates(gt.Block, o.Block) {
					inner = false
				}
			}
			if !inner || !gt.OnTrue {
				continue
			}
			full := gt.Full()
			// a package-local predicate helper: every way it can return true must be one of the stay-put cases
			if call, isCall := ast.Unparen(gt.Cond).(*ast.CallExpr); isCall {
				if cs := f.SiteOf(call); cs != nil {
					if fo, _ := cs.Callee.(*types.Func); fo != nil {
						if h := f.Prog.FnOf(fo); h != nil && h.Body != nil {
							if ways, sound := predicateTrueWays(h); sound && len(ways) > 0 {
								kind = ""
								for _, w := range ways {
									k := "OTHER: " + engine.ExprString(w)
									switch {
									case engine.MentionsName(w, "Amount") && engine.MentionsName(w, "Price"):
										k = "price==0"
									case engine.MentionsName(w, "TargetGasRatio"):
										k = "ratio==0"
									}
									if kind == "" || len(k) > 8 && k[:5] == "OTHER" {
										kind = k
									}
								}
								continue
							}
						}
					}
				}
			}
			switch {
			case engine.MentionsName(full, "Cmp") && isZeroLit(gt.Cond) && gt.Tag != nil:
				kind = "used==target"
			case engine.MentionsName(gt.Cond, "Amount") && engine.Mentions(info, gt.Cond, last):
				kind = "price==0"
			case engine.MentionsName(gt.Cond, "TargetGasRatio"):
				kind = "ratio==0"
			case engine.MentionsName(gt.Cond, "Cmp"):
				kind = "used==target"
			default:
				kind = "OTHER: " + engine.ExprString(full)
			}
		}
		ok2 := kind == "price==0" || kind == "ratio==0" || kind == "used==target"
		c.Check("stay-put-exact", f.Name+" unmodified return under "+kind, r.Pos(), ok2,
			"the last price is returned unchanged under a condition other than the three stay-put cases (price 0, ratio 0, used == target): when the block used more or less gas than the target the price must move by at least one unit")
	})
	c.Floor("stay-put-exact", n, 2)
}

// predicateTrueWays lists, for a bool function, the conditions under which it
// returns true: the innermost true-side gate of each `return true`, and the
// ||-disjuncts of each non-constant `return <expr>`. sound=false when a return
// cannot be classified this way.
func predicateTrueWays(h *engine.Fn) (ways []ast.Expr, sound bool) {
	sound = true
	g := h.Graph()
	engine.InspectBody(h, func(n ast.Node) {
		r, ok := n.(*ast.ReturnStmt)
		if !ok {
			return
		}
		if len(r.Results) != 1 {
			sound = false
			return
		}
		e := ast.Unparen(r.Results[0])
		if id, ok := e.(*ast.Ident); ok && (id.Name == "true" || id.Name == "false") {
			if id.Name == "false" {
				return
			}
			st := h.SiteOf(r)
			if st == nil {
				sound = false
				return
			}
			gates := g.Gates(st)
			found := false
			for _, gt := range gates {
				inner := true
				for _, o := range gates {
					if o.Block != gt.Block && g.BlockDominates(gt.Block, o.Block) {
						inner = false
					}
				}
				if inner && gt.OnTrue {
					ways = append(ways, engine.Conjuncts(gt.Full(), token.LOR)...)
					found = true
				}
			}
			if !found {
				sound = false
			}
			return
		}
		ways = append(ways, engine.Conjuncts(e, token.LOR)...)
	})
	return
}

func isZeroLit(e ast.Expr) bool {
	b, ok := ast.Unparen(e).(*ast.BasicLit)
	return ok && b.Value == "0"
}
