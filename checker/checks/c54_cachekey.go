package checks

import (
	"gnoverif/engine"
)

// C54 extra — the parsed-package cache is keyed by what determines its content.
// Processor.processPackageFiles(key, pkg) memoises the parsed files of pkg under
// key. Where pkg was read from a directory in the same function
// (ParsePackage(fset, "", dir)), the directory is what determines the content, so
// the key must be that directory: keying by the declared module path lets two
// directories that declare the same path (a fork, a working copy) alias one entry,
// and formatting a file of the second returns — and `gno fmt -w` writes back — the
// syntax tree of the first.
// (Added after an independently seeded second-round change passed the computed
// but unused `path` instead of `dir`.)
func init() {
	extend("C54", c54CacheKey)
	mutants("C54",
		Mutant{"parse-cache-keyed-by-module-path", "gnovm/pkg/gnofmt/processor.go", "	pkgc := p.processPackageFiles(dir, pkg)", "	pkgc := p.processPackageFiles(path, pkg)", "cache-key-is-source"},
	)
	metaExtra("C54", "cache-key-is-source: where a package is parsed from a directory and memoised in the same function, the cache key is that directory")
}

func c54CacheKey(c *engine.Ctx) {
	p := progWith(c, "gnovm/pkg/gnofmt")
	if p == nil {
		return
	}
	n := 0
	for _, f := range p.FuncsIn("gnovm/pkg/gnofmt") {
		parses := f.CallsTo("gnovm/pkg/gnofmt.ParsePackage")
		memos := f.CallsTo("gnovm/pkg/gnofmt.(*Processor).processPackageFiles")
		if len(parses) == 0 || len(memos) == 0 {
			continue
		}
		info := f.Info()
		for _, m := range memos {
			if len(m.Call.Args) < 1 {
				continue
			}
			n++
			key := engine.ObjOf(info, m.Call.Args[0])
			ok := false
			src := ""
			for _, ps := range parses {
				if len(ps.Call.Args) == 3 {
					src = engine.ExprString(ps.Call.Args[2])
					if d := engine.ObjOf(info, ps.Call.Args[2]); d != nil && d == key {
						ok = true
					}
				}
			}
			c.Check("cache-key-is-source", f.Name+" processPackageFiles("+engine.ExprString(m.Call.Args[0])+", …)", m.Pos(), ok,
				"the package is parsed from `"+src+"` in this function, so the memo key must be that directory; any other key (e.g. the declared module path) lets two directories share one cache entry")
		}
	}
	c.Floor("cache-key-is-source", n, 1)
}
