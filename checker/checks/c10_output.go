package checks

import (
	"go/ast"
	"go/types"

	"gnoverif/engine"
)

// C10 extra — VM output is metered: the meteredWriter hands bytes to its parent
// writer only in Flush, and Flush charges stream-output gas for exactly the
// bytes it writes, before writing them. (Added after an independently seeded
// change gave WriteString an unbuffered fast path that wrote to the parent
// without charging.)
func init() {
	extend("C10", c10Output)
	mutants("C10",
		Mutant{"output-fast-path-unmetered", "gnovm/pkg/gnolang/values_string_stream.go", "func (mw *meteredWriter) WriteString(s string) {\n", "func (mw *meteredWriter) WriteString(s string) {\n\tif len(s) > len(mw.buf) {\n\t\tmw.Flush()\n\t\tif _, err := io.WriteString(mw.parent, s); err != nil {\n\t\t\tpanic(err)\n\t\t}\n\t\treturn\n\t}\n", "output-sink"},
		Mutant{"output-charge-after-write", "gnovm/pkg/gnolang/values_string_stream.go", "	if mw.gasMeter != nil {\n\t\tmw.gasMeter.ConsumeGas(streamOutputGas(n), \"stream output\")\n\t}\n\tif _, err := mw.parent.Write(mw.buf[:n]); err != nil {\n\t\tpanic(fmt.Sprintf(\"meteredWriter: parent write failed: %v\", err))\n\t}\n", "	if _, err := mw.parent.Write(mw.buf[:n]); err != nil {\n\t\tpanic(fmt.Sprintf(\"meteredWriter: parent write failed: %v\", err))\n\t}\n\tif mw.gasMeter != nil {\n\t\tmw.gasMeter.ConsumeGas(streamOutputGas(n), \"stream output\")\n\t}\n", "output-charge"},
		Mutant{"output-charge-constant", "gnovm/pkg/gnolang/values_string_stream.go", "mw.gasMeter.ConsumeGas(streamOutputGas(n), \"stream output\")", "mw.gasMeter.ConsumeGas(streamOutputGas(1), \"stream output\")", "output-charge"},
	)
}

func c10Output(c *engine.Ctx) {
	p := progWith(c, "gnovm/pkg/gnolang")
	if p == nil {
		return
	}
	const MW = "gnovm/pkg/gnolang.(*meteredWriter)."
	parent := p.Field("gnovm/pkg/gnolang.meteredWriter.parent")
	if parent == nil {
		c.Undecided("output-sink", "meteredWriter.parent", "field not found")
		return
	}
	// every *use* (read) of mw.parent: only Flush may use it; constructors/Release only assign it.
	uses := 0
	for _, r := range p.RefsTo(func(o types.Object) bool { return o == types.Object(parent) }) {
		if r.Fn == nil {
			continue
		}
		// is this reference the LHS of an assignment?
		isAssign := false
		engine.InspectBody(r.Fn, func(n ast.Node) {
			if as, ok := n.(*ast.AssignStmt); ok {
				for _, l := range as.Lhs {
					if se, ok := l.(*ast.SelectorExpr); ok && se.Sel == r.Ident {
						isAssign = true
					}
				}
			}
			if kv, ok := n.(*ast.KeyValueExpr); ok && kv.Key == ast.Expr(r.Ident) {
				isAssign = true
			}
		})
		if isAssign {
			continue
		}
		uses++
		ok := r.Fn.Root().Name == MW+"Flush"
		c.Check("output-sink", "meteredWriter.parent used in "+r.Fn.Root().Name, r.Ident.Pos(), ok,
			"the parent writer may be reached only through Flush, which charges output gas; any other path emits unmetered bytes")
	}
	c.Floor("output-sink", uses, 1)

	f := c.MustFunc(MW + "Flush")
	if f == nil {
		return
	}
	g := f.Graph()
	var writes, charges []*engine.Site
	for _, s := range f.Calls() {
		if sel, ok := s.Call.Fun.(*ast.SelectorExpr); ok {
			if inner, ok := sel.X.(*ast.SelectorExpr); ok && inner.Sel.Name == "parent" {
				writes = append(writes, s)
			}
			if inner, ok := sel.X.(*ast.SelectorExpr); ok && inner.Sel.Name == "gasMeter" && sel.Sel.Name == "ConsumeGas" {
				charges = append(charges, s)
			}
		}
	}
	c.Floor("output-charge writes", len(writes), 1)
	c.Floor("output-charge charges", len(charges), 1)
	info := f.Info()
	for _, w := range writes {
		// the byte count written: mw.buf[:n] → n
		var nObj types.Object
		if len(w.Call.Args) == 1 {
			if sl, ok := ast.Unparen(w.Call.Args[0]).(*ast.SliceExpr); ok && sl.High != nil && sl.Low == nil {
				nObj = engine.ObjOf(info, sl.High)
			}
		}
		ok, why := false, "no ConsumeGas(streamOutputGas(<bytes written>)) precedes the parent write"
		for _, ch := range charges {
			// the charge must come first on every metered path: the only gate allowed between is `gasMeter != nil`
			if !g.ReachableAfter(ch, w) || g.ReachableAfter(w, ch) {
				why = "the charge does not precede the write"
				continue
			}
			gatesOK := true
			for _, gt := range g.Gates(ch) {
				if !(gt.OnTrue && engine.MentionsName(gt.Cond, "gasMeter") && len(engine.Atoms(gt.Cond)) == 1) {
					// gates shared with the write (e.g. n == 0 early return) are fine
					shared := false
					for _, gw := range g.Gates(w) {
						if gw.Block == gt.Block && gw.OnTrue == gt.OnTrue {
							shared = true
						}
					}
					if !shared {
						gatesOK = false
						why = "the charge is additionally conditional on `" + engine.ExprString(gt.Cond) + "`"
					}
				}
			}
			// amount: streamOutputGas(n) with the same n
			amtOK := false
			if len(ch.Call.Args) >= 1 {
				if call, ok := ast.Unparen(ch.Call.Args[0]).(*ast.CallExpr); ok && len(call.Args) == 1 {
					if fn, _ := engine.ObjOf(info, call.Fun).(*types.Func); fn != nil && fn.Name() == "streamOutputGas" {
						if nObj != nil && engine.ObjOf(info, call.Args[0]) == nObj {
							amtOK = true
						}
					}
				}
			}
			if !amtOK {
				why = "the charged amount is not streamOutputGas(<number of bytes written>)"
			}
			if gatesOK && amtOK {
				ok, why = true, "charged streamOutputGas(n) before parent.Write(buf[:n])"
			}
		}
		c.Check("output-charge", MW+"Flush parent write", w.Pos(), ok, why)
	}
	// streamOutputGas is monotone in its argument: returns a product/sum with positive constants — checked as: no constant return
	if sf := c.MustFunc("gnovm/pkg/gnolang.streamOutputGas"); sf != nil {
		par := paramObj(sf, 0)
		uses := false
		engine.InspectBody(sf, func(n ast.Node) {
			if r, ok := n.(*ast.ReturnStmt); ok {
				for _, e := range r.Results {
					if engine.Mentions(sf.Info(), e, par) {
						uses = true
					}
				}
			}
		})
		c.Check("output-charge", "gnovm/pkg/gnolang.streamOutputGas depends on byte count", sf.Pos(), uses, "the output gas must be a function of the number of bytes")
	}
}
