package checks

// Mutant is a one-edit variant of /repo used to test the checker: the text
// Find (which must occur exactly once in File) is replaced by Replace through
// an overlay; the check must then report a failing obligation whose id
// contains Expect. The variant must still type-check.
type Mutant struct {
	Name, File, Find, Replace, Expect string
}

// MutantMore lists, per "<id>/<mutant name>", further (find, replace-all) pairs
// applied to the same file, for variants that need several cooperating edits to compile.
var MutantMore = map[string][][2]string{}

// Mutants lists the self-test variants per property.
var Mutants = map[string][]Mutant{}

func mutants(id string, ms ...Mutant) { Mutants[id] = append(Mutants[id], ms...) }
