package checks

import (
	"go/ast"
	"go/constant"
	"go/token"
	"go/types"

	"gnoverif/engine"
)

// C38 extra — the height search never drops the file it has just read from the
// search window's lower end. SearchForHeight narrows [min,max] over the rotated
// files; the only thing it learns when it moves the lower bound is that the file
// @index starts before the requested height — the marker may still be later in
// that same file, so the new lower bound may be @index but nothing above it.
// (Added after an independently seeded change set `minVal = index + 1` in the
// binary-search branch: for a layout where the marker sits in the middle of file
// @index the search reported "not found".)
//
// Decided: every re-assignment of the lower bound (the variable initialised from
// group.MinIndex()) assigns the variable passed to group.NewReader as the file
// index, or that variable minus a non-negative constant. `index + c` with c > 0
// is a violation; any other expression is undecided (fails) rather than guessed.
// Not decided: the upper-bound arithmetic and the idxoff stepping.
func init() {
	extend("C38", c38Window)
	mutants("C38",
		Mutant{"binary-search-skips-current-file", "tm2/pkg/bft/wal/wal.go", "							idxoff = 0\n\t\t\t\t\t\t\tminVal = index\n\t\t\t\t\t\t\tdec.Close()\n\t\t\t\t\t\t\tcontinue OUTER_LOOP\n\t\t\t\t\t\t} else { // index == max", "							idxoff = 0\n\t\t\t\t\t\t\tminVal = index + 1\n\t\t\t\t\t\t\tdec.Close()\n\t\t\t\t\t\t\tcontinue OUTER_LOOP\n\t\t\t\t\t\t} else { // index == max", "search-window-keeps-file"},
		Mutant{"backwards-to-binary-skips-current-file", "tm2/pkg/bft/wal/wal.go", "							backoff = 0\n\t\t\t\t\t\t\tminVal = index\n", "							backoff = 0\n\t\t\t\t\t\t\tminVal = index + 1\n", "search-window-keeps-file"},
	)
}

func c38Window(c *engine.Ctx) {
	p := progWith(c, "tm2/pkg/bft/wal")
	if p == nil {
		return
	}
	const name = "tm2/pkg/bft/wal.(*baseWAL).SearchForHeight"
	f := c.MustFunc(name)
	if f == nil {
		return
	}
	info := f.Info()
	// the lower bound: the variable defined from <group>.MinIndex()
	var lower, index types.Object
	engine.InspectBody(f, func(n ast.Node) {
		switch x := n.(type) {
		case *ast.AssignStmt:
			if len(x.Lhs) != len(x.Rhs) {
				return
			}
			for i, r := range x.Rhs {
				call, ok := ast.Unparen(r).(*ast.CallExpr)
				if !ok {
					continue
				}
				if fn, _ := engine.ObjOf(info, call.Fun).(*types.Func); fn != nil && fn.Name() == "MinIndex" && lower == nil {
					lower = engine.ObjOf(info, x.Lhs[i])
				}
			}
		case *ast.CallExpr:
			if fn, _ := engine.ObjOf(info, x.Fun).(*types.Func); fn != nil && fn.Name() == "NewReader" && fn.Pkg() != nil && fn.Pkg().Name() == "autofile" && len(x.Args) >= 1 && index == nil {
				index = engine.ObjOf(info, x.Args[0])
			}
		}
	})
	if lower == nil || index == nil {
		c.Undecided("search-window-keeps-file", name, "could not identify the lower bound (defined from group.MinIndex()) or the file index (first argument of group.NewReader)")
		return
	}
	n := 0
	engine.InspectBody(f, func(x ast.Node) {
		var lhs, rhs ast.Expr
		var pos token.Pos
		switch s := x.(type) {
		case *ast.AssignStmt:
			for i, l := range s.Lhs {
				if engine.ObjOf(info, l) != lower || s.Tok == token.DEFINE {
					continue
				}
				pos = s.Pos()
				lhs = l
				switch {
				case s.Tok == token.ASSIGN && len(s.Lhs) == len(s.Rhs):
					rhs = s.Rhs[i]
				default: // +=, -=, …: not an expression in @index
					rhs = nil
				}
			}
		case *ast.IncDecStmt:
			if engine.ObjOf(info, s.X) == lower {
				lhs, pos = s.X, s.Pos()
			}
		}
		if lhs == nil {
			return
		}
		n++
		key := name + " lower bound := " + exprOrOp(rhs)
		if rhs == nil {
			c.Undecided("search-window-keeps-file", key, "the lower bound is stepped in place; cannot relate the new bound to the file just read")
			return
		}
		off, ok := offsetFrom(info, rhs, index)
		switch {
		case !ok:
			c.Undecided("search-window-keeps-file", key, "new lower bound is not <file index> ± constant")
		default:
			c.Check("search-window-keeps-file", key, pos, off <= 0,
				"the file just read starts before the requested height, so the marker may still be later in that same file: the new lower bound may be the file's index but nothing above it")
		}
	})
	c.Floor("search-window-keeps-file", n, 1)
}

func exprOrOp(e ast.Expr) string {
	if e == nil {
		return "<in-place step>"
	}
	return engine.ExprString(e)
}

// offsetFrom decides whether e is `obj`, `obj + c` or `obj - c` (c a constant) and returns the offset.
func offsetFrom(info *types.Info, e ast.Expr, obj types.Object) (int64, bool) {
	e = ast.Unparen(e)
	if engine.ObjOf(info, e) == obj {
		return 0, true
	}
	b, ok := e.(*ast.BinaryExpr)
	if !ok || (b.Op != token.ADD && b.Op != token.SUB) {
		return 0, false
	}
	cv := func(x ast.Expr) (int64, bool) {
		if tv, ok := info.Types[x]; ok && tv.Value != nil {
			if v, ok := constant.Int64Val(constant.ToInt(tv.Value)); ok {
				return v, true
			}
		}
		return 0, false
	}
	if base, ok := offsetFrom(info, b.X, obj); ok {
		if k, ok := cv(b.Y); ok {
			if b.Op == token.SUB {
				k = -k
			}
			return base + k, true
		}
	}
	if b.Op == token.ADD {
		if base, ok := offsetFrom(info, b.Y, obj); ok {
			if k, ok := cv(b.X); ok {
				return base + k, true
			}
		}
	}
	return 0, false
}
