package checks

import (
	"go/ast"
	"go/token"
	"go/types"
	"sort"
	"strings"

	"gnoverif/engine"
)

// C27 — a crash during commit never leaves a torn state: every physical write
// of a block goes through one WriteSync'ed batch.
func init() {
	register("C27", c27)
	meta("C27", Meta{
		Text:      "Decides the structural clauses behind crash-atomic commits: (1) every use of rootmulti's root DB handle (multiStore.db) is classified — only read methods, one NewBatch in Commit, read-only helpers, the wrap in constructStore; (2) in Commit the sequence commitStores → metadata staged in the collector → metaBatch.Write → collector.Drain(realBatch) → realBatch.WriteSync → refreshQuerySnapshot → setLastCommitID holds in dominance order, each once, every error panics; (3) constructStore hands sub-stores a PrefixDB over a CollectingDB on every live (non-immutable) multiStore and every multiStore literal without a collector is made immutable before use; (4) CollectingDB/batchHandle/BatchCollector touch the real DB only through read methods; (5) Drain has a single caller and Reset none; (6) BaseApp.Commit writes the header into the deliver cache, then MultiWrite, then cms.Commit. Level 'other'.",
		Note:      "Not covered: atomicity/durability of the DB engine's batch, bptree/iavl internals (they only ever see the CollectingDB handle), recovery by replay after reopening. Thorough tier re-checks (1),(5) over all of tm2/pkg/store/... and tm2/pkg/sdk.",
		Technique: "who-may-use table over a struct field (all syntactic uses classified), CFG dominance chain, error-to-panic recognition, local def-use",
		Ref:       "DESIGN.md §2 C27",
	})
	const rs = "tm2/pkg/store/rootmulti/store.go"
	mutants("C27",
		Mutant{"drain-before-metadata", rs, "\tif err := metaBatch.Write(); err != nil {\n\t\tpanic(\"rootmulti: Commit() metadata write failed: \" + err.Error())\n\t}\n", "", "commit-order"},
		Mutant{"write-not-sync", rs, "realBatch.WriteSync(); err != nil", "realBatch.Write(); err != nil", "commit-order"},
		Mutant{"drain-error-dropped", rs, "\tif err := ms.collector.Drain(realBatch); err != nil {\n\t\tpanic(\"rootmulti: Commit() drain failed: \" + err.Error())\n\t}", "\t_ = ms.collector.Drain(realBatch)", "commit-order"},
		Mutant{"snapshot-before-write", rs, "\tms.refreshQuerySnapshot()\n\n\t// Prepare for next version.", "\t// Prepare for next version.", "commit-order"},
		Mutant{"direct-root-write", rs, "\tms.initialVersion = v\n", "\tms.initialVersion = v\n\tms.db.SetSync([]byte(\"s/initial\"), nil)\n", "root-db-use"},
		Mutant{"second-batch", rs, "func (ms *multiStore) setLastCommitID(cid types.CommitID) {\n", "func (ms *multiStore) setLastCommitID(cid types.CommitID) {\n\tb := ms.db.NewBatch()\n\tdefer b.Close()\n", "root-db-use"},
		Mutant{"dedicated-db-bypasses-collector", rs, "if !ms.storeOpts.Immutable && ms.collector != nil {", "if !ms.storeOpts.Immutable && ms.collector != nil && params.db == nil {", "sub-store-db"},
		Mutant{"query-view-left-live", rs, "\tims.storeOpts.Immutable = true\n", "", "sub-store-db"},
		Mutant{"collecting-setsync-passthrough", "tm2/pkg/db/collecting.go", "func (c *CollectingDB) SetSync(key, value []byte) error { c.collector.set(key, value); return nil }", "func (c *CollectingDB) SetSync(key, value []byte) error { return c.real.SetSync(key, value) }", "collecting-layer"},
		Mutant{"drain-drops-deletes", "tm2/pkg/db/collecting.go", "\t\tif op.del {\n\t\t\tif err := dst.Delete(op.key); err != nil {\n\t\t\t\treturn err\n\t\t\t}\n\t\t\tcontinue\n\t\t}", "\t\tif op.del {\n\t\t\tcontinue\n\t\t}", "drain-replay"},
		Mutant{"multiwrite-after-commit", "tm2/pkg/sdk/baseapp.go", "\tapp.deliverState.ms.MultiWrite()\n\tcommitID := app.cms.Commit()", "\tcommitID := app.cms.Commit()\n\tapp.deliverState.ms.MultiWrite()", "app-commit-order"},
	)
}

const (
	c27RM = "tm2/pkg/store/rootmulti"
	c27MS = c27RM + ".(*multiStore)."
	c27DB = "tm2/pkg/db"
)

var c27ReadMethods = map[string]bool{"Get": true, "Has": true, "Iterator": true, "ReverseIterator": true, "NewSnapshot": true, "Print": true, "Stats": true}

func c27(c *engine.Ctx) {
	c.Explain = "Structural clauses of the single-atomic-batch commit (see manifest text): classification of every use of the root DB handle, dominance chain and panicking error checks in rootmulti Commit, CollectingDB wrapping of every live sub-store, read-only layering of CollectingDB over the real DB, single caller of Drain, header→MultiWrite→Commit order in BaseApp.Commit. Not covered: engine batch atomicity, bptree/iavl internals, replay."
	pats := []string{c27RM, c27DB, "tm2/pkg/sdk"}
	if c.Tier == "thorough" {
		pats = []string{"tm2/pkg/store/...", c27DB, "tm2/pkg/sdk", "tm2/pkg/bptree", "tm2/pkg/iavl"}
	}
	p := c.Load(pats...)
	if p == nil {
		return
	}
	c27RootDBUse(c, p)
	c27CommitOrder(c, p)
	c27SubStoreDB(c, p)
	c27Layer(c, p)
	c27AppCommit(c, p)
	c27Drain(c, p)
}

// Drain replays every staged op, in order, into the destination batch.
func c27Drain(c *engine.Ctx, p *engine.Prog) {
	f := c.MustFunc(c27DB + ".(*BatchCollector).Drain")
	if f == nil {
		return
	}
	opsF := p.Field(c27DB + ".BatchCollector.ops")
	delF := p.Field(c27DB + ".collectOp.del")
	keyF, valF := p.Field(c27DB+".collectOp.key"), p.Field(c27DB+".collectOp.val")
	isDel := sfIsField(delF)
	// the destination batch is Drain's parameter; ops come from ranging over c.ops
	dels := sfDeepCallsTo(f, 2, c27DB+".(Batch).Delete")
	sets := sfDeepCallsTo(f, 2, c27DB+".(Batch).Set")
	inOpsLoop := func(d sfDS) bool {
		for x, node := d.ctx, ast.Node(d.site.Node); x != nil; x, node = x.parent, nil {
			if node == nil {
				break
			}
			found := false
			info := x.fn.Info()
			engine.InspectBody(x.fn, func(y ast.Node) {
				if rs, ok := y.(*ast.RangeStmt); ok && sfFieldSel(info, rs.X, opsF) && sfWithin(rs.Body, node) {
					found = true
				}
			})
			if found {
				return true
			}
			if x.parent != nil {
				// the helper is called from inside the loop
				pinfo := x.parent.fn.Info()
				engine.InspectBody(x.parent.fn, func(y ast.Node) {
					if rs, ok := y.(*ast.RangeStmt); ok && sfFieldSel(pinfo, rs.X, opsF) && sfWithin(rs.Body, x.call) {
						found = true
					}
				})
				return found
			}
		}
		return false
	}
	onlyDelAndErr := func(facts []sfFact) bool {
		for _, ft := range facts {
			e := ast.Unparen(ft.e)
			if b, isB := e.(*ast.BinaryExpr); isB && (b.Op == token.LAND || b.Op == token.LOR) {
				continue
			}
			if u, isU := e.(*ast.UnaryExpr); isU && u.Op == token.NOT {
				continue
			}
			if isDel(ft.ctx, e) || sfErrCmp(ft.ctx.fn.Info(), e) {
				continue
			}
			if id, isId := e.(*ast.Ident); isId && sfSingleDef(ft.ctx.fn, ft.ctx.fn.Info().ObjectOf(id)) != nil {
				continue
			}
			return false
		}
		return true
	}
	recvIsDst := func(d sfDS) bool {
		se, ok := ast.Unparen(d.site.Call.Fun).(*ast.SelectorExpr)
		return ok && sfRootParam(d.ctx, se.X) == 0
	}
	errOK := func(d sfDS) bool {
		return sfErrHandled(d.ctx.fn, d.site.Call, false) || c27ReturnsCall(d.ctx.fn, d.site.Call) || sfErrPathChecked(d.ctx.fn, d.site.Call, false)
	}
	n := 0
	ok := len(dels) >= 1 && len(sets) >= 1
	for _, d := range dels {
		facts := d.facts()
		ok = ok && inOpsLoop(d) && recvIsDst(d) && sfKnown(facts, true, isDel) && onlyDelAndErr(facts) && errOK(d) &&
			sfOperandIs(d.ctx, d.arg(0), sfIsField(keyF))
	}
	for _, d := range sets {
		facts := d.facts()
		ok = ok && inOpsLoop(d) && recvIsDst(d) && sfKnown(facts, false, isDel) && onlyDelAndErr(facts) && errOK(d) &&
			sfOperandIs(d.ctx, d.arg(0), sfIsField(keyF)) && sfOperandIs(d.ctx, d.arg(1), sfIsField(valF))
	}
	n++
	c.Check("drain-replay", f.Name+" replays every op (delete→Delete, else→Set(key,val)) and returns errors", f.Pos(), ok, "every staged op must reach the destination batch, in order, with errors propagated")
	// the op log is cleared only after the replay
	cleared, early := false, false
	for _, cx := range sfCtxs(sfRoot(f), 2, nil) {
		info := cx.fn.Info()
		engine.InspectBody(cx.fn, func(x ast.Node) {
			as, isAs := x.(*ast.AssignStmt)
			if !isAs || len(as.Lhs) != 1 || !sfFieldSel(info, as.Lhs[0], opsF) {
				return
			}
			st := cx.fn.SiteOf(as)
			if st == nil {
				return
			}
			me := sfDS{cx, st}
			after := true
			for _, d := range append(append([]sfDS{}, dels...), sets...) {
				if sfDomDS(me, d) || !sfReachAfterDS(d, me) {
					after = false
				}
			}
			if after {
				cleared = true
			} else {
				early = true
			}
		})
	}
	n++
	c.Check("drain-replay", f.Name+" clears the log after the replay only", f.Pos(), cleared && !early, "")
	c.Floor("drain-replay", n, 2)
}

// every syntactic use of multiStore.db classified
func c27RootDBUse(c *engine.Ctx, p *engine.Prog) {
	dbF := p.Field(c27RM + ".multiStore.db")
	if dbF == nil {
		c.Undecided("root-db-use", c27RM+".multiStore.db", "field not found")
		return
	}
	allowedArgOf := map[string]bool{c27DB + ".NewImmutableDB": true}
	n := 0
	counts := map[string]int{}
	for _, f := range p.Funcs() {
		info := f.Info()
		par := sfParents(f.Body)
		engine.InspectBody(f, func(x ast.Node) {
			id, ok := x.(*ast.Ident)
			if !ok {
				return
			}
			v, ok := info.Uses[id].(*types.Var)
			if !ok || v.Origin() != dbF {
				return
			}
			// composite literal key?
			if kv, isKV := par[id].(*ast.KeyValueExpr); isKV && kv.Key == ast.Expr(id) {
				n++
				counts["lit"]++
				c.Check("root-db-use", f.Root().Name+" literal field", id.Pos(), true, "initialisation")
				return
			}
			sel, isSel := par[id].(*ast.SelectorExpr)
			if !isSel || sel.Sel != id {
				n++
				c.Check("root-db-use", f.Root().Name+" unclassified", id.Pos(), false, "use of multiStore.db in an unrecognised position")
				return
			}
			var up ast.Node = par[sel]
			for {
				if pe, isP := up.(*ast.ParenExpr); isP {
					up = par[pe]
					continue
				}
				break
			}
			kind, ok2, why := "", false, ""
			switch u := up.(type) {
			case *ast.SelectorExpr: // ms.db.Method
				if call, isCall := par[u].(*ast.CallExpr); isCall && call.Fun == ast.Expr(u) {
					m := u.Sel.Name
					kind = "method " + m
					switch {
					case c27ReadMethods[m]:
						ok2 = true
					case m == "NewBatch" && sfCallerClosureOK(p, f.Root().Name, map[string]bool{c27MS + "Commit": true}, 3):
						ok2 = true
						counts["newbatch"]++
					default:
						why = "mutating or lifecycle method " + m + " on the root DB outside Commit's single batch"
					}
				} else {
					why = "method value taken"
				}
			case *ast.CallExpr: // argument
				callee := sfCallee(info, u)
				kind = "arg of " + callee
				ok2 = allowedArgOf[callee] || c27ReadOnlyParam(p, info, u, sel, 3)
				if !ok2 {
					why = "root DB passed to " + callee + " (not in the read-only table)"
				}
			case *ast.BinaryExpr:
				kind = "comparison"
				ok2 = u.Op == token.EQL || u.Op == token.NEQ
			case *ast.AssignStmt:
				// raw = ms.db in constructStore, or a write to the field itself
				isLhs := false
				for _, l := range u.Lhs {
					if ast.Unparen(l) == ast.Expr(sel) {
						isLhs = true
					}
				}
				if isLhs {
					kind, why = "field write", "multiStore.db reassigned"
				} else {
					kind = "assigned to local"
					ok2 = sfCallerClosureOK(p, f.Root().Name, map[string]bool{c27MS + "constructStore": true}, 3)
					why = "root DB copied to a local outside constructStore"
				}
			default:
				why = "unrecognised use"
			}
			n++
			c.Check("root-db-use", f.Root().Name+" "+kind, id.Pos(), ok2, why)
		})
	}
	c.Check("root-db-use", c27MS+"Commit opens exactly one real batch", token.NoPos, counts["newbatch"] == 1, "")
	c.Floor("root-db-use", n, 11)
	// read-only helpers really are read-only on their db parameter
	k := 0
	for _, name := range []string{"getLatestVersion", "getCommitInfo"} {
		f := p.Func(c27RM + "." + name)
		if f == nil {
			continue // renamed/inlined: every hand-over of ms.db is checked semantically above (read-only parameter)
		}
		dbp := paramObj(f, 0)
		par := sfParents(f.Body)
		ok := true
		uses := 0
		for _, id := range sfUsesOf(f, dbp) {
			uses++
			sel, isSel := par[id].(*ast.SelectorExpr)
			if !isSel || !c27ReadMethods[sel.Sel.Name] {
				ok = false
			}
		}
		k++
		c.Check("root-db-use", c27RM+"."+name+" only reads its db", f.Pos(), ok && uses > 0, "")
	}
	c.Floor("root-db-readers", k, 0)
	// who may call Drain / Reset
	dr := engine.CallerSet(p.RefsToFunc(c27DB + ".(*BatchCollector).Drain"))
	c.Check("who-may-call", c27DB+".(*BatchCollector).Drain", token.NoPos, len(dr) >= 1 && len(sfWritersOK(p, dr, []string{c27MS + "Commit"})) == 0, "callers: "+join(dr)+" (only Commit or its private helpers may drain)")
	rsf := engine.CallerSet(p.RefsToFunc(c27DB + ".(*BatchCollector).Reset"))
	c.Check("who-may-call", c27DB+".(*BatchCollector).Reset", token.NoPos, len(rsf) == 0, "callers: "+join(rsf)+" (Reset drops staged writes)")
	c.Floor("who-may-call", len(dr), 1)
}

func c27CommitOrder(c *engine.Ctx, p *engine.Prog) {
	f := c.MustFunc(c27MS + "Commit")
	if f == nil {
		return
	}
	collF := p.Field(c27RM + ".multiStore.collector")
	dbF := p.Field(c27RM + ".multiStore.db")
	// provenance of a batch value: collector.NewBatch() / ms.db.NewBatch() (through locals, helper parameters and results)
	fromField := func(fld *types.Var) func(cx *sfCtx, e ast.Expr, at *engine.Site) bool {
		return func(cx *sfCtx, e ast.Expr, at *engine.Site) bool {
			if e == nil {
				return false
			}
			stopAtFieldCalls := func(c2 *sfCtx, cl *ast.CallExpr) bool {
				f2, _ := sfMethodOnField(c2.fn.Info(), cl)
				return f2 != nil
			}
			return sfAllLeafs(sfLeafs(cx, e, at, 5, stopAtFieldCalls), func(l sfLeaf) bool { return l.e != nil && sfFieldCallIs(l.ctx, l.e, fld, "NewBatch") })
		}
	}
	fromCollector, fromRoot := fromField(collF), fromField(dbF)
	recvOf := func(d sfDS) ast.Expr {
		if se, ok := ast.Unparen(d.site.Call.Fun).(*ast.SelectorExpr); ok {
			return se.X
		}
		return nil
	}
	one := func(pred func(d sfDS) bool, pats ...string) *sfDS {
		var out []sfDS
		for _, d := range sfDeepCallsTo(f, 3, pats...) {
			if o := d.outer(); o == nil || o.Deferred {
				continue
			}
			if pred == nil || pred(d) {
				out = append(out, d)
			}
		}
		if len(out) != 1 {
			return nil
		}
		return &out[0]
	}
	steps := []struct {
		name string
		site *sfDS
		errp bool
	}{
		{"commitStores", one(nil, c27RM+".commitStores"), false},
		{"setCommitInfo(metaBatch)", one(func(d sfDS) bool { return fromCollector(d.ctx, d.arg(0), d.site) }, c27RM+".setCommitInfo"), false},
		{"setLatestVersion(metaBatch)", one(func(d sfDS) bool { return fromCollector(d.ctx, d.arg(0), d.site) }, c27RM+".setLatestVersion"), false},
		{"metaBatch.Write", one(func(d sfDS) bool { return fromCollector(d.ctx, recvOf(d), d.site) }, c27DB+".(Batch).Write", c27DB+".(Batch).WriteSync"), true},
		{"collector.Drain(realBatch)", one(func(d sfDS) bool {
			fld, _ := sfMethodOnField(d.info(), d.site.Call)
			return fld == collF && fromRoot(d.ctx, d.arg(0), d.site)
		}, c27DB+".(*BatchCollector).Drain"), true},
		{"realBatch.WriteSync", one(func(d sfDS) bool { return fromRoot(d.ctx, recvOf(d), d.site) }, c27DB+".(Batch).WriteSync"), true},
		{"refreshQuerySnapshot", one(nil, c27MS+"refreshQuerySnapshot"), false},
		{"setLastCommitID", one(nil, c27MS+"setLastCommitID"), false},
	}
	n := 0
	var prev *sfDS
	prevName := "entry"
	for _, st := range steps {
		n++
		if st.site == nil {
			c.Check("commit-order", c27MS+"Commit step "+st.name, f.Pos(), false, "expected exactly one such call (directly or through helpers) with the expected operand provenance")
			prev = nil
			prevName = st.name
			continue
		}
		ok, why := true, ""
		for _, ft := range st.site.facts() {
			e := ast.Unparen(ft.e)
			if b, isB := e.(*ast.BinaryExpr); isB && (b.Op == token.LAND || b.Op == token.LOR) {
				continue
			}
			if !sfErrCmp(ft.ctx.fn.Info(), e) {
				ok, why = false, "step must be unconditional (only preceding error checks may gate it); depends on `"+engine.ExprString(e)+"`"
			}
		}
		if ok && prev != nil {
			ok = sfDomDS(*prev, *st.site)
			why = prevName + " must precede " + st.name + " on every path"
		}
		if ok && st.errp {
			ok = c27ErrPanics(*st.site)
			why = "the error of " + st.name + " must be checked and must panic"
		}
		c.Check("commit-order", c27MS+"Commit step "+st.name, st.site.where(), ok, why)
		prev, prevName = st.site, st.name
	}
	// no plain Write on the real batch
	bad := 0
	for _, d := range sfDeepCallsTo(f, 3, c27DB+".(Batch).Write") {
		if fromRoot(d.ctx, recvOf(d), d.site) {
			bad++
		}
	}
	n++
	c.Check("commit-order", c27MS+"Commit flushes the real batch only with WriteSync", f.Pos(), bad == 0, "")
	c.Floor("commit-order", n, 9)
}

// c27ErrPanics: the error of the call is checked and panics where it is made, or
// is returned by the helper and then checked-and-panics at the helper's call site.
func c27ErrPanics(d sfDS) bool {
	if sfErrHandled(d.ctx.fn, d.site.Call, true) {
		return true
	}
	for x := d.ctx; x.parent != nil; x = x.parent {
		inner := d.site.Call
		if x != d.ctx {
			break
		}
		if !sfErrHandled(x.fn, inner, false) && !c27ReturnsCall(x.fn, inner) {
			return false
		}
		return sfErrHandled(x.parent.fn, x.call, true)
	}
	return false
}

// c27ReturnsCall: `return <call>` (the callee's error is the function's result).
func c27ReturnsCall(f *engine.Fn, call *ast.CallExpr) bool {
	for _, r := range sfReturns(f) {
		for _, e := range r.Results {
			if ast.Unparen(e) == ast.Expr(call) {
				return true
			}
		}
	}
	return false
}

// c27ReadOnlyParam: arg is passed to an in-program function whose corresponding
// parameter is only ever the receiver of read methods (or handed on to such a function).
func c27ReadOnlyParam(p *engine.Prog, info *types.Info, call *ast.CallExpr, arg ast.Expr, depth int) bool {
	fn, _ := engine.ObjOf(info, call.Fun).(*types.Func)
	h := p.FnOf(fn)
	if h == nil || depth <= 0 {
		return false
	}
	idx := -1
	for i, a := range call.Args {
		if ast.Unparen(a) == ast.Unparen(arg) {
			idx = i
		}
	}
	obj := paramObj(h, idx)
	if idx < 0 || obj == nil {
		return false
	}
	par := sfParents(h.Body)
	uses := 0
	for _, body := range append([]*engine.Fn{h}, h.AllLits()...) {
		ok := true
		ast.Inspect(body.Body, func(x ast.Node) bool {
			id, isId := x.(*ast.Ident)
			if !isId || h.Info().Uses[id] != obj {
				return true
			}
			uses++
			switch u := par[id].(type) {
			case *ast.SelectorExpr:
				if cl, isC := par[u].(*ast.CallExpr); !isC || cl.Fun != ast.Expr(u) || !c27ReadMethods[u.Sel.Name] {
					ok = false
				}
			case *ast.CallExpr:
				if !c27ReadOnlyParam(p, h.Info(), u, id, depth-1) {
					ok = false
				}
			default:
				ok = false
			}
			return true
		})
		if !ok {
			return false
		}
	}
	return uses > 0
}

// c27OnlyErrGates: every gate of s is an `err != nil` test on its false branch.
func c27OnlyErrGates(f *engine.Fn, s *engine.Site) bool {
	for _, g := range f.Graph().Gates(s) {
		if g.OnTrue || !sfErrCmp(f.Info(), g.Cond) {
			return false
		}
	}
	return true
}

func c27SubStoreDB(c *engine.Ctx, p *engine.Prog) {
	n := 0
	f := c.MustFunc(c27MS + "constructStore")
	if f != nil {
		info := f.Info()
		g := f.Graph()
		collF := p.Field(c27RM + ".multiStore.collector")
		wrap := f.CallsTo(c27DB + ".NewCollectingDB")
		pfx := f.CallsTo(c27DB + ".NewPrefixDB")
		ok := len(wrap) == 1 && len(pfx) == 1
		why := "expected one NewCollectingDB and one NewPrefixDB call"
		if ok {
			w, px := wrap[0], pfx[0]
			as, isAs := w.Top.(*ast.AssignStmt)
			rawObj := engine.ObjOf(info, px.Call.Args[0])
			// raw = NewCollectingDB(raw, ms.collector)
			ok = isAs && len(as.Lhs) == 1 && rawObj != nil && engine.ObjOf(info, as.Lhs[0]) == rawObj &&
				engine.ObjOf(info, w.Call.Args[0]) == rawObj && sfFieldSel(info, w.Call.Args[1], collF)
			why = "the DB handed to NewPrefixDB must be the variable re-assigned from NewCollectingDB(raw, ms.collector)"
			if ok {
				// what the wrap depends on: only "not immutable" and "collector present"
				root := sfRoot(f)
				sawAny := false
				for _, ft := range sfFactsAt(root, w) {
					e := ast.Unparen(ft.e)
					if b, isB := e.(*ast.BinaryExpr); isB && (b.Op == token.LAND || b.Op == token.LOR) {
						continue
					}
					if u, isU := e.(*ast.UnaryExpr); isU && u.Op == token.NOT {
						continue
					}
					good := false
					if fld := sfSelField(ft.ctx.fn.Info(), e); fld != nil && fld.Name() == "Immutable" && !ft.val {
						good = true
					}
					if a, b, op, isC := sfCmp(e); isC && isNil(b) && sfOperandIs(ft.ctx, a, sfIsField(collF)) && ((op == token.NEQ) == ft.val) {
						good = true
					}
					if id, isId := e.(*ast.Ident); isId && sfSingleDef(ft.ctx.fn, ft.ctx.fn.Info().ObjectOf(id)) != nil {
						good = true // an alias; its definition was expanded and is judged on its own
					}
					sawAny = true
					if !good {
						ok = false
						why = "wrap additionally depends on `" + engine.ExprString(e) + "`: some live sub-store would write straight to the real DB"
					}
				}
				_ = sawAny
				if ok {
					ok = g.ReachableAfter(w, px) && !g.ReachableAfter(px, w)
					why = "the wrap must happen before NewPrefixDB"
				}
				// no later re-assignment of raw between wrap and prefix
				if ok {
					defs, clean := sfDefs(f, rawObj)
					ok = clean
					for _, d := range defs {
						if d.Pos() > as.End() {
							ok = false
						}
					}
					why = "raw is re-assigned after the CollectingDB wrap"
					// raw is only ever wrapped: every use is an assignment target or an argument of the two wrappers
					if ok {
						par := sfParents(f.Body)
						for _, id := range sfUsesOf(f, rawObj) {
							switch u := par[id].(type) {
							case *ast.AssignStmt:
							case *ast.CallExpr:
								if cn := sfCallee(info, u); cn != c27DB+".NewCollectingDB" && cn != c27DB+".NewPrefixDB" {
									ok, why = false, "the raw root DB handle is passed to "+cn
								}
							default:
								ok, why = false, "the raw root DB handle is used directly in constructStore"
							}
						}
					}
				}
			}
			// constructor receives the prefix db
			if ok {
				ok = false
				why = "the store constructor must receive the PrefixDB built over raw"
				for _, s := range f.Calls() {
					if s.Call == nil || len(s.Call.Args) != 2 {
						continue
					}
					if fld := sfSelField(info, s.Call.Fun); fld != nil && fld.Name() == "constructor" {
						if sfDerives(f, s.Call.Args[0], func(e ast.Expr) bool { return ast.Unparen(e) == ast.Expr(px.Call) }, 2) {
							ok = true
						}
					}
				}
			}
		}
		n++
		c.Check("sub-store-db", c27MS+"constructStore wraps live sub-stores in a CollectingDB", f.Pos(), ok, why)
	}
	// multiStore literals: collector set, or made immutable before any method call
	msT := p.Named(c27RM + ".multiStore")
	for _, fn := range p.FuncsIn(c27RM) {
		info := fn.Info()
		engine.InspectBody(fn, func(x ast.Node) {
			cl, ok := x.(*ast.CompositeLit)
			if !ok || msT == nil {
				return
			}
			t := info.TypeOf(cl)
			if t == nil || !types.Identical(t, msT) {
				return
			}
			hasColl := false
			for _, el := range cl.Elts {
				if kv, isKV := el.(*ast.KeyValueExpr); isKV {
					if id, isId := kv.Key.(*ast.Ident); isId && id.Name == "collector" {
						hasColl = true
					}
				}
			}
			n++
			if hasColl {
				c.Check("sub-store-db", fn.Root().Name+" multiStore literal has a collector", cl.Pos(), true, "")
				return
			}
			// find `v := &multiStore{…}` and `v.storeOpts.Immutable = true` dominating every method call on v
			var vobj types.Object
			engine.InspectBody(fn, func(y ast.Node) {
				if as, isAs := y.(*ast.AssignStmt); isAs && len(as.Lhs) == 1 && len(as.Rhs) == 1 && sfWithin(as.Rhs[0], cl) {
					vobj = engine.ObjOf(info, as.Lhs[0])
				}
			})
			var imm *engine.Site
			engine.InspectBody(fn, func(y ast.Node) {
				as, isAs := y.(*ast.AssignStmt)
				if !isAs || len(as.Lhs) != 1 || len(as.Rhs) != 1 {
					return
				}
				fld := sfSelField(info, as.Lhs[0])
				if fld == nil || fld.Name() != "Immutable" || !engine.Mentions(info, as.Lhs[0], vobj) {
					return
				}
				if id, isId := as.Rhs[0].(*ast.Ident); isId && id.Name == "true" {
					imm = fn.SiteOf(as)
				}
			})
			ok2 := vobj != nil && imm != nil
			if ok2 {
				for _, s := range fn.Calls() {
					if se, isSel := ast.Unparen(s.Call.Fun).(*ast.SelectorExpr); isSel && engine.ObjOf(info, se.X) == vobj {
						if !fn.Graph().Dominates(imm, s) {
							ok2 = false
						}
					}
				}
			}
			c.Check("sub-store-db", fn.Root().Name+" collector-less multiStore literal is immutable before use", cl.Pos(), ok2,
				"a multiStore without a collector must get storeOpts.Immutable = true before any method runs on it (else its sub-stores write to the real DB unbatched)")
		})
	}
	c.Floor("sub-store-db", n, 3)
}

func c27Layer(c *engine.Ctx, p *engine.Prog) {
	realF := p.Field(c27DB + ".CollectingDB.real")
	if realF == nil {
		c.Undecided("collecting-layer", c27DB+".CollectingDB.real", "field not found")
		return
	}
	n := 0
	for _, f := range p.FuncsIn(c27DB) {
		info := f.Info()
		par := sfParents(f.Body)
		engine.InspectBody(f, func(x ast.Node) {
			id, ok := x.(*ast.Ident)
			if !ok {
				return
			}
			v, ok := info.Uses[id].(*types.Var)
			if !ok || v.Origin() != realF {
				return
			}
			n++
			if kv, isKV := par[id].(*ast.KeyValueExpr); isKV && kv.Key == ast.Expr(id) {
				c.Check("collecting-layer", f.Root().Name+" literal field", id.Pos(), true, "")
				return
			}
			sel, _ := par[id].(*ast.SelectorExpr)
			var m *ast.SelectorExpr
			if sel != nil {
				m, _ = par[sel].(*ast.SelectorExpr)
			}
			ok2 := false
			name := "?"
			if m != nil {
				if call, isCall := par[m].(*ast.CallExpr); isCall && call.Fun == ast.Expr(m) {
					name = m.Sel.Name
					ok2 = c27ReadMethods[name]
				}
			}
			c.Check("collecting-layer", f.Root().Name+" real."+name, id.Pos(), ok2, "CollectingDB may only read the real DB; writes must go to the collector")
		})
	}
	c.Floor("collecting-layer", n, 8)
	// the write methods route to the collector
	k := 0
	for _, m := range []string{"Set", "SetSync", "Delete", "DeleteSync"} {
		f := c.MustFunc(c27DB + ".(*CollectingDB)." + m)
		if f == nil {
			continue
		}
		want := c27DB + ".(*BatchCollector).set"
		if strings.HasPrefix(m, "Delete") {
			want = c27DB + ".(*BatchCollector).delete"
		}
		calls := sfDeepCallsTo(f, 2, want)
		unconditional := len(calls) >= 1
		for _, d := range calls {
			unconditional = unconditional && len(d.facts()) == 0
		}
		k++
		c.Check("collecting-layer", f.Name+" routes to the collector", f.Pos(), unconditional, "expected an unconditional call to "+want)
	}
	for _, m := range []string{"NewBatch", "NewBatchWithSize"} {
		f := c.MustFunc(c27DB + ".(*CollectingDB)." + m)
		if f == nil {
			continue
		}
		ok := false
		bh := p.Named(c27DB + ".batchHandle")
		ast.Inspect(f.Body, func(x ast.Node) bool {
			if cl, isCL := x.(*ast.CompositeLit); isCL && bh != nil && types.Identical(f.Info().TypeOf(cl), bh) {
				ok = true
			}
			return true
		})
		k++
		c.Check("collecting-layer", f.Name+" returns a collector batch", f.Pos(), ok && len(f.Calls()) == 0, "")
	}
	c.Floor("collecting-route", k, 6)
}

func c27AppCommit(c *engine.Ctx, p *engine.Prog) {
	f := c.MustFunc("tm2/pkg/sdk.(*BaseApp).Commit")
	if f == nil {
		return
	}
	mw := sfDeepCallsTo(f, 2, "tm2/pkg/store/types.(MultiStore).MultiWrite")
	cm := sfDeepCallsTo(f, 2, "tm2/pkg/store/types.(Committer).Commit", "tm2/pkg/store/types.(CommitMultiStore).Commit")
	hs := sfDeepCallsTo(f, 2, "tm2/pkg/store/types.(Store).Set")
	n := 0
	ok := len(mw) == 1 && len(cm) == 1 && sfDomDS(mw[0], cm[0])
	n++
	c.Check("app-commit-order", f.Name+" MultiWrite before cms.Commit", f.Pos(), ok, "the deliver cache must be flushed into the sub-stores before the multistore commits (else its writes land in the next block's batch)")
	ok = len(hs) >= 1 && len(mw) == 1
	if ok {
		for _, s := range hs {
			ok = ok && sfDomDS(s, mw[0])
		}
	}
	n++
	c.Check("app-commit-order", f.Name+" header written into the deliver cache before MultiWrite", f.Pos(), ok, "the last-header write must travel in the same batch as the block state")
	c.Floor("app-commit-order", n, 2)
	_ = sort.Strings
}
