package checks

import (
	"go/ast"
	"go/token"
	"go/types"
	"strings"

	"golang.org/x/tools/go/cfg"

	"gnoverif/engine"
)

// C16 — session keys cannot exceed their spend limit or allowed actions.
func init() {
	register("C16", c16)
	meta("C16", Meta{
		Text:      "Decides the debit-gate structure: every entry through which a signer's balance can be debited on behalf of a transaction passes a successful session-spend deduction for the SAME address and the SAME coins first — bank.SendCoins before sendCoins, InputOutputCoins per input before SubtractCoins, lockStorageDeposit before the unrestricted transfer, the ante's phase 2b (DeductSessionSpend on the first signer's session, un-skippable when a session exists) before DeductFees — and the remaining debit paths are the frozen exempt set (storage refunds from a realm's deposit address, realm burns). DeductSessionSpend commits SpendUsed only below the limit test on used+amount, resets only under the period condition, and shares its zero/empty-limit/period conditions with CheckSessionSpend; CheckAndDeductSessionSpend persists after a successful deduction of the session found under the signer's address. In ante phase 1 a session enters the per-tx map only if it exists and is not expired, under the master address it was looked up with; session-signed signatures are verified against the session account; the map is published in the context on the success path. The gno.land ante runs checkSessionRestrictions on every non-aborting path, which aborts for always-denied messages (auth/*, vm/add_package), unparsable or non-matching AllowPaths, for every (message, signer) with a session; entryMatchesMsg grants only on wildcard or equal route and type, and for path entries on equality or a \"/\"-separated prefix.",
		Note:      "Not covered: the arithmetic of limits (Coins.Add/IsAllGTE), AllowPaths grammar, that realm code cannot otherwise move the master's coins (C08), genesis-mode signature skipping, multi-message rollback semantics (C02). CHA over BankKeeperI is restricted to non-test packages.",
		Technique: "debit-gate table (who-may-call + checked-guard dominance with argument identity), conditional must-pass on go/cfg, sibling comparison of normalised guard conditions, gate analysis of grant/deny functions",
		Ref:       "DESIGN.md §2 C16",
	})
	mutants("C16",
		Mutant{"send-hook-dropped", "tm2/pkg/sdk/bank/keeper.go", "\tif err := auth.CheckAndDeductSessionSpend(ctx, bank.acck, fromAddr, amt); err != nil {\n\t\treturn err\n\t}\n\n\treturn bank.sendCoins(", "\tif err := auth.CheckAndDeductSessionSpend(ctx, bank.acck, toAddr, amt); err != nil {\n\t\treturn err\n\t}\n\n\treturn bank.sendCoins(", "debit-gate"},
		Mutant{"multisend-hook-unchecked", "tm2/pkg/sdk/bank/keeper.go", "\t\tif err := auth.CheckAndDeductSessionSpend(ctx, bank.acck, in.Address, in.Coins); err != nil {\n\t\t\treturn err\n\t\t}", "\t\tif err := auth.CheckAndDeductSessionSpend(ctx, bank.acck, in.Address, in.Coins); err != nil && len(inputs) > 1 {\n\t\t\treturn err\n\t\t}", "debit-gate"},
		Mutant{"deposit-not-counted", "gno.land/pkg/sdk/vm/keeper.go", "\tif err := auth.CheckAndDeductSessionSpend(ctx, vm.acck, caller, d); err != nil {\n\t\treturn fmt.Errorf(\"unable to lock deposit %s, %w\", rlm.Path, err)\n\t}\n", "", "debit-gate"},
		Mutant{"fee-not-counted-sometimes", "tm2/pkg/sdk/auth/ante.go", "\t\t\tif da, ok := sessionAccounts[signerAddrs[0]]; ok {\n\t\t\t\tif err := DeductSessionSpend(", "\t\t\tif da, ok := sessionAccounts[signerAddrs[0]]; ok && !simulate {\n\t\t\t\tif err := DeductSessionSpend(", "debit-gate"},
		Mutant{"new-unrestricted-caller", "tm2/pkg/sdk/bank/handler.go", "\terr := bh.bank.InputOutputCoins(ctx, msg.Inputs, msg.Outputs)", "\terr := bh.bank.SendCoinsUnrestricted(ctx, msg.Inputs[0].Address, msg.Outputs[0].Address, msg.Inputs[0].Coins)", "who-may-call"},
		Mutant{"limit-check-after-commit", "tm2/pkg/sdk/auth/spend.go", "\tif !da.GetSpendLimit().IsAllGTE(newUsed) {\n\t\treturn std.ErrSessionNotAllowed(fmt.Sprintf(\n\t\t\t\"session spend limit exceeded:", "\tif !da.GetSpendLimit().IsAllGTE(amount) {\n\t\treturn std.ErrSessionNotAllowed(fmt.Sprintf(\n\t\t\t\"session spend limit exceeded:", "spend-limit"},
		Mutant{"reset-condition-diverges", "tm2/pkg/sdk/auth/spend.go", "\tif da.GetSpendPeriod() > 0 && blockTime >= da.GetSpendReset()+da.GetSpendPeriod() {\n\t\tda.SetSpendUsed(nil)", "\tif blockTime >= da.GetSpendReset()+da.GetSpendPeriod() {\n\t\tda.SetSpendUsed(nil)", "spend-sibling"},
		Mutant{"deduct-not-persisted", "tm2/pkg/sdk/auth/spend.go", "\tak.SetSessionAccount(ctx, signerAddr, da.(std.Account))\n", "\t_ = ak\n", "spend-persist"},
		Mutant{"expired-session-accepted", "tm2/pkg/sdk/auth/ante.go", "if da.GetExpiresAt() > 0 && newCtx.BlockTime().Unix() >= da.GetExpiresAt() {", "if da.GetExpiresAt() > 0 && newCtx.BlockTime().Unix() > da.GetExpiresAt()+3600 {", "session-admission"},
		Mutant{"session-map-not-published", "tm2/pkg/sdk/auth/ante.go", "\t\tif len(sessionAccounts) > 0 {\n", "\t\tif len(sessionAccounts) > 1 {\n", "session-published"},
		Mutant{"restrictions-skipped-on-path", "gno.land/pkg/gnoland/app.go", "\t\t\tif sessRes, sessAbort := checkSessionRestrictions(newCtx, tx); sessAbort {", "\t\t\tif sessRes, sessAbort := checkSessionRestrictions(newCtx, tx); sessAbort && !simulate {", "restrictions-run"},
		Mutant{"addpkg-allowed", "gno.land/pkg/gnoland/app.go", "\tif msg.Route() == \"vm\" && msg.Type() == \"add_package\" {\n\t\treturn true\n\t}", "\tif msg.Route() == \"vm\" && msg.Type() == \"add_package\" && false {\n\t\treturn true\n\t}", "always-denied"},
		Mutant{"allowpaths-mismatch-ignored", "gno.land/pkg/gnoland/app.go", "\t\t\tif !anyEntryMatches(entries, msg) {", "\t\t\tif !anyEntryMatches(entries, msg) && len(entries) > 0 {", "restrictions-deny"},
		Mutant{"path-prefix-attack", "gno.land/pkg/gnoland/app.go", "strings.HasPrefix(path, e.Path+\"/\")", "strings.HasPrefix(path, e.Path)", "entry-match"},
		Mutant{"type-not-compared", "gno.land/pkg/gnoland/app.go", "\tif e.Route != msg.Route() || e.Type != msg.Type() {", "\tif e.Route != msg.Route() && e.Type != msg.Type() {", "entry-match"},
	)
}

const c16A = "tm2/pkg/sdk/auth"

func c16(c *engine.Ctx) {
	c.Explain = "Decides the structural debit gates of session spending, the commit/limit structure of DeductSessionSpend and its agreement with CheckSessionSpend, session admission (existence, expiry) and publication in the ante, and the deny/grant structure of checkSessionRestrictions/entryMatchesMsg (see manifest text). Not covered: limit arithmetic, AllowPaths grammar, realm-level spending (C08)."
	pats := []string{c16A, c08Bank, c08VM, "gno.land/pkg/gnoland"}
	if c.Tier == "thorough" {
		pats = []string{"gnovm/...", "tm2/...", "gno.land/..."}
	}
	p := c.Load(pats...)
	if p == nil {
		return
	}
	c16gates(c, p)
	c16spend(c, p)
	c16ante(c, p)
	c16restrict(c, p)
}

// c16gated: call `debit` is dominated by a checked, successful CheckAndDeductSessionSpend
// whose (addr, coins) arguments are the same expressions as debit's (addrIdx, coinsIdx).
func c16gated(f *engine.Fn, debit *engine.Site, addrIdx, coinsIdx int) (bool, string) {
	g := f.Graph()
	why := "no dominating CheckAndDeductSessionSpend"
	for _, h := range f.CallsTo(c16A + ".CheckAndDeductSessionSpend") {
		r := g.CheckedGuard(h, debit)
		if !r.OK {
			why = "hook result does not gate the debit: " + r.Why
			continue
		}
		if !c09errNilSide(r) {
			why = "debit is reached on the hook's error path"
			continue
		}
		if len(engine.Atoms(r.Cond)) != 1 {
			why = "the hook's error test is weakened: `" + engine.ExprString(r.Cond) + "`"
			continue
		}
		if engine.ExprString(kcArg(h, 2)) != engine.ExprString(kcArg(debit, addrIdx)) {
			why = "hook charges `" + engine.ExprString(kcArg(h, 2)) + "` but `" + engine.ExprString(kcArg(debit, addrIdx)) + "` is debited"
			continue
		}
		if engine.ExprString(kcArg(h, 3)) != engine.ExprString(kcArg(debit, coinsIdx)) {
			why = "hook counts `" + engine.ExprString(kcArg(h, 3)) + "` but `" + engine.ExprString(kcArg(debit, coinsIdx)) + "` is moved"
			continue
		}
		// the expressions must denote the same values at both sites: only params / range vars / single-def locals
		ok := true
		for _, e := range []ast.Expr{kcArg(h, 2), kcArg(h, 3)} {
			ast.Inspect(e, func(n ast.Node) bool {
				if id, isID := n.(*ast.Ident); isID {
					if v, isVar := f.Info().ObjectOf(id).(*types.Var); isVar && !v.IsField() {
						if rhs, okd := kcDefs(f, v); len(rhs) > 1 || (!okd && kcParamIndex(f, v) >= 0) {
							ok = false
						}
					}
				}
				return true
			})
		}
		if !ok {
			why = "address/coins variables are reassigned between hook and debit"
			continue
		}
		return true, "gated by " + engine.ExprString(h.Call)
	}
	return false, why
}

func c16gates(c *engine.Ctx, p *engine.Prog) {
	B := c08Bank + ".(BankKeeper)."
	V := c08VM + ".(*VMKeeper)."
	bk := p.Named(c08Bank + ".BankKeeper")
	if bk == nil {
		c.Undecided("anchor", c08Bank+".BankKeeper", "type not found")
		return
	}
	n := 0
	if f := c.MustFunc(B + "SendCoins"); f != nil {
		for _, s := range f.CallsTo(B + "sendCoins") {
			n++
			ok, why := c16gated(f, s, 1, 3)
			kcAt(c, p, "debit-gate", f.Name+" -> sendCoins", s.Pos(), ok, why)
		}
	}
	if f := c.MustFunc(B + "InputOutputCoins"); f != nil {
		for _, s := range f.CallsTo(B + "SubtractCoins") {
			n++
			ok, why := c16gated(f, s, 1, 2)
			kcAt(c, p, "debit-gate", f.Name+" -> SubtractCoins", s.Pos(), ok, why)
		}
	}
	if f := c.MustFunc(V + "lockStorageDeposit"); f != nil {
		for _, s := range f.CallsTo(c08VM + ".(BankKeeperI).SendCoinsUnrestricted") {
			n++
			ok, why := c16gated(f, s, 1, 3)
			kcAt(c, p, "debit-gate", f.Name+" -> SendCoinsUnrestricted", s.Pos(), ok, why)
		}
	}
	c.Floor("debit-gate", n, 3)

	// closure of the table: who reaches the debit primitives
	tbl := []struct {
		m     string
		allow []string
	}{
		{"sendCoins", []string{B + "SendCoins"}},
		{"SubtractCoins", []string{B + "InputOutputCoins", B + "sendCoins", B + "BurnCoins" /* exempt: realm burn, see SubtractCoins doc */}},
		{"subtractCoinsUnrestricted", []string{B + "SendCoinsUnrestricted"}},
		{"subtract", []string{B + "SubtractCoins", B + "subtractCoinsUnrestricted"}},
		{"SendCoinsUnrestricted", []string{V + "lockStorageDeposit", V + "refundStorageDeposit" /* exempt: from = realm deposit address */, c16A + ".DeductFees"}},
		{"SetCoins", []string{"gno.land/pkg/gnoland.(InitChainerConfig).applyBalance" /* genesis */}},
		{"BurnCoins", []string{c08VM + ".(*SDKBanker).RemoveCoin"}},
	}
	for _, t := range tbl {
		refs := kcFilterRefs(p, kcMethodRefs(p, bk, t.m))
		kcCallerTable(c, p, "who-may-call", B+t.m, refs, t.allow, t.allow)
	}
	// exempt edge: refund debits a derived deposit address, never a signer
	if f := c.MustFunc(V + "refundStorageDeposit"); f != nil {
		for _, s := range f.CallsTo(c08VM + ".(BankKeeperI).SendCoinsUnrestricted") {
			from := kcResolve(f, kcArg(s, 1))
			ok := kcIsCallTo(f.Info(), from, "gnovm/pkg/gnolang.DeriveStorageDepositCryptoAddr") != nil
			kcAt(c, p, "debit-gate", f.Name+" exempt: debits a realm deposit address", s.Pos(), ok, "from is `"+engine.ExprString(from)+"`")
		}
	}

	// fees: ante phase 2b
	refs := p.RefsToFunc(c16A + ".DeductFees")
	kcCallerTable(c, p, "who-may-call", c16A+".DeductFees", kcFilterRefs(p, refs), []string{c16A + ".NewAnteHandler"}, []string{c16A + ".NewAnteHandler"})
	nf := 0
	for _, r := range refs {
		if r.Fn == nil || !r.IsCall || kcInTestSupport(p, r.Fn) {
			continue
		}
		f := r.Fn
		info := f.Info()
		g := f.Graph()
		sessMap := kcSessionMapObj(f)
		if sessMap == nil {
			c.Undecided("debit-gate", f.Root().Name+" ante fee deduction", "the per-tx session map (published under std.SessionAccountsContextKey) was not found in the ante closure")
		}
		for _, fee := range f.CallsTo(c16A + ".DeductFees") {
			nf++
			ok, why := false, "no DeductSessionSpend on the fee-payer's session gates DeductFees"
			for _, d := range f.CallsTo(c16A + ".DeductSessionSpend") {
				// (da, ok) := sessionAccounts[signerAddrs[0]] ; gate ok==true encloses d
				daObj := engine.ObjOf(info, kcArg(d, 0))
				var condBlock *cfg.Block
				var mapKey ast.Expr
				for _, gt := range g.Gates(d) {
					id, isID := ast.Unparen(gt.Cond).(*ast.Ident)
					if !isID || !gt.OnTrue {
						continue
					}
					okObj := info.ObjectOf(id)
					engine.InspectBody(f, func(nd ast.Node) {
						as, isAs := nd.(*ast.AssignStmt)
						if !isAs || len(as.Lhs) != 2 || len(as.Rhs) != 1 || info.ObjectOf(as.Lhs[1].(*ast.Ident)) != okObj || engine.ObjOf(info, as.Lhs[0]) != daObj {
							return
						}
						if ix, isIx := ast.Unparen(as.Rhs[0]).(*ast.IndexExpr); isIx && sessMap != nil && engine.ObjOf(info, ix.X) == sessMap {
							condBlock, mapKey = gt.Block, ix.Index
						}
					})
				}
				if condBlock == nil {
					// weakened or absent lookup condition
					for _, gt := range g.Gates(d) {
						if len(engine.Atoms(gt.Cond)) > 1 && strings.Contains(engine.ExprString(gt.Cond), "ok") {
							why = "the session-exists test is combined with another condition: `" + engine.ExprString(gt.Cond) + "`"
						}
					}
					continue
				}
				// every path from the ok-true branch to DeductFees passes d
				trueSucc := condBlock.Succs[0]
				if trueSucc != d.Block && g.Reach(trueSucc, fee.Block, map[*cfg.Block]bool{d.Block: true}) {
					why = "DeductFees is reachable with a session present without DeductSessionSpend"
					continue
				}
				// the cond block dominates DeductFees (no path around the lookup)
				if !g.BlockDominates(condBlock, fee.Block) {
					why = "the session lookup does not dominate DeductFees"
					continue
				}
				// error of d aborts
				r2 := g.CheckedGuard(d, fee)
				_ = r2
				errAborts := false
				for _, cb := range g.CFG.Blocks {
					if !cb.Live || len(cb.Succs) != 2 || len(cb.Nodes) == 0 || !g.BlockDominates(d.Block, cb) {
						continue
					}
					cond, isExpr := cb.Nodes[len(cb.Nodes)-1].(ast.Expr)
					be, isB := ast.Unparen(cond).(*ast.BinaryExpr)
					if !isExpr || !isB || be.Op != token.NEQ || !isNil(be.Y) {
						continue
					}
					if as, isAs := d.Top.(*ast.AssignStmt); !isAs || engine.ObjOf(info, as.Lhs[0]) != engine.ObjOf(info, be.X) {
						continue
					}
					if !g.Reach(cb.Succs[0], fee.Block, map[*cfg.Block]bool{cb: true}) {
						errAborts = true
					}
				}
				if !errAborts {
					why = "a failed DeductSessionSpend does not prevent DeductFees"
					continue
				}
				// same payer and same coins
				if engine.ExprString(kcArg(d, 1)) != engine.ExprString(kcArg(fee, 4)) {
					why = "session charged `" + engine.ExprString(kcArg(d, 1)) + "`, fees deducted `" + engine.ExprString(kcArg(fee, 4)) + "`"
					continue
				}
				mk, isIx := ast.Unparen(mapKey).(*ast.IndexExpr)
				pa, isIx2 := ast.Unparen(kcArg(fee, 2)).(*ast.IndexExpr)
				if !isIx || !isIx2 || !kcIsSignersSlice(f, engine.ObjOf(info, mk.X)) || !kcIsSignerAccs(f, engine.ObjOf(info, pa.X)) || engine.ExprString(mk.Index) != engine.ExprString(pa.Index) {
					why = "the session looked up (" + engine.ExprString(mapKey) + ") is not the fee payer's (" + engine.ExprString(kcArg(fee, 2)) + ")"
					continue
				}
				ok = true
			}
			kcAt(c, p, "debit-gate", f.Root().Name+" ante fee deduction", fee.Pos(), ok, why)
		}
	}
	c.Floor("debit-gate fee", nf, 1)
}

func c16spend(c *engine.Ctx, p *engine.Prog) {
	d := c.MustFunc(c16A + ".DeductSessionSpend")
	k := c.MustFunc(c16A + ".CheckSessionSpend")
	if d == nil || k == nil {
		return
	}
	// sibling: normalised if-conditions (params by index)
	norm := func(f *engine.Fn) []string {
		var out []string
		engine.InspectBody(f, func(n ast.Node) {
			is, ok := n.(*ast.IfStmt)
			if !ok {
				return
			}
			s := engine.ExprString(is.Cond)
			// replace parameter names by $i (whole-word)
			k := 0
			for _, fld := range f.Type.Params.List {
				for _, nm := range fld.Names {
					s = c16replaceWord(s, nm.Name, "$"+itoa(k))
					k++
				}
			}
			out = append(out, s)
		})
		return out
	}
	dn, kn := norm(d), norm(k)
	c.Floor("spend-sibling", len(dn), 4)
	// the first three conditions (zero amount, empty limit, period reset) must be identical
	same := len(dn) >= 3 && len(kn) >= 3
	for i := 0; same && i < 3; i++ {
		if dn[i] != kn[i] {
			same = false
		}
	}
	kcAt(c, p, "spend-sibling", "CheckSessionSpend ≡ DeductSessionSpend (zero / empty-limit / period-reset conditions)", d.Pos(), same,
		"Deduct: "+strings.Join(dn, " ; ")+"  |  Check: "+strings.Join(kn, " ; "))

	for _, f := range []*engine.Fn{d, k} {
		info := f.Info()
		g := f.Graph()
		da, amount, bt := paramObj(f, 0), paramObj(f, 1), paramObj(f, 2)
		// success exits: `return nil` after the limit test must be gated by IsAllGTE(newUsed) with newUsed = <used>.Add(amount)
		nEx := 0
		for _, ex := range kcNormalExits(f) {
			rs, isRet := ex.Node.(*ast.ReturnStmt)
			if !isRet || len(rs.Results) != 1 || !isNil(rs.Results[0]) {
				continue
			}
			zero := false
			for _, ft := range kcFacts(g, ex) {
				if call, isCall := ast.Unparen(ft.Expr).(*ast.CallExpr); isCall && ft.Val {
					if se, isSel := call.Fun.(*ast.SelectorExpr); isSel && se.Sel.Name == "IsZero" && engine.ObjOf(info, se.X) == amount {
						zero = true
					}
				}
			}
			if zero {
				continue // nothing to spend
			}
			nEx++
			okLim, okNonEmpty := false, false
			why := "success is not gated by SpendLimit.IsAllGTE(used + amount)"
			for _, ft := range kcFacts(g, ex) {
				call, isCall := ast.Unparen(ft.Expr).(*ast.CallExpr)
				if isCall && ft.Val && len(call.Args) == 1 {
					if se, isSel := call.Fun.(*ast.SelectorExpr); isSel && se.Sel.Name == "IsAllGTE" && engine.ExprString(se.X) == da.Name()+".GetSpendLimit()" {
						nu := engine.ObjOf(info, call.Args[0])
						def := kcSingleDef(f, nu)
						if dc, isC := def.(*ast.CallExpr); isC && len(dc.Args) == 1 && engine.ObjOf(info, dc.Args[0]) == amount {
							if ds, isS := dc.Fun.(*ast.SelectorExpr); isS && ds.Sel.Name == "Add" {
								used := engine.ExprString(ds.X)
								if used == da.Name()+".GetSpendUsed()" {
									okLim = true
								} else if uo := engine.ObjOf(info, ds.X); uo != nil {
									// local: only da.GetSpendUsed() or nil (under the reset condition)
									rhs, okd := kcDefs(f, uo)
									okLim = okd && len(rhs) > 0
									for _, r := range rhs {
										if !(engine.ExprString(r) == da.Name()+".GetSpendUsed()" || isNil(r)) {
											okLim = false
										}
									}
								}
								if !okLim {
									why = "the amount compared with the limit is `" + engine.ExprString(def) + "`"
								}
							}
						} else {
							why = "the quantity compared with the limit is `" + engine.ExprString(call.Args[0]) + "`, not used.Add(amount)"
						}
					}
				}
				x, y, op, okc := kcCmp(ft)
				if okc && op == token.NEQ {
					if lc, isC := x.(*ast.CallExpr); isC && engine.IsBuiltinCall(info, lc, "len") && engine.ExprString(lc.Args[0]) == da.Name()+".GetSpendLimit()" {
						if lit, isLit := y.(*ast.BasicLit); isLit && lit.Value == "0" {
							okNonEmpty = true
						}
					}
				}
			}
			kcAt(c, p, "spend-limit", f.Name+" succeeds only within the limit", ex.Pos(), okLim, why)
			kcAt(c, p, "spend-limit", f.Name+" rejects sessions without a spend limit", ex.Pos(), okNonEmpty, "")
		}
		c.Floor("spend-limit "+f.Name, nEx, 1)
		_ = bt
	}
	// Deduct: SetSpendUsed(newUsed) only after the limit test; reset only under the period condition
	{
		f := d
		info := f.Info()
		g := f.Graph()
		da, amount, bt := paramObj(f, 0), paramObj(f, 1), paramObj(f, 2)
		sets := f.CallsTo("tm2/pkg/std.(DelegatedAccount).SetSpendUsed")
		c.Floor("spend-limit commits", len(sets), 2)
		committed := false
		for _, s := range sets {
			arg := kcArg(s, 0)
			if isNil(arg) {
				// reset: must be under the period condition, together with SetSpendReset(blockTime)
				ok := false
				for _, gt := range g.Gates(s) {
					if !gt.OnTrue {
						continue
					}
					cj := engine.Conjuncts(gt.Cond, token.LAND)
					if len(cj) != 2 {
						continue
					}
					a, isA := ast.Unparen(cj[0]).(*ast.BinaryExpr)
					be, isB := ast.Unparen(cj[1]).(*ast.BinaryExpr)
					if !isA || !isB || a.Op != token.GTR || engine.ExprString(a.X) != da.Name()+".GetSpendPeriod()" || engine.ExprString(a.Y) != "0" {
						continue
					}
					sum, isSum := ast.Unparen(be.Y).(*ast.BinaryExpr)
					if be.Op == token.GEQ && engine.ObjOf(info, be.X) == bt && isSum && sum.Op == token.ADD &&
						engine.ExprString(sum.X) == da.Name()+".GetSpendReset()" && engine.ExprString(sum.Y) == da.Name()+".GetSpendPeriod()" {
						ok = true
					}
				}
				rs := f.CallsTo("tm2/pkg/std.(DelegatedAccount).SetSpendReset")
				okR := len(rs) == 1 && rs[0].Block == s.Block && engine.ObjOf(info, kcArg(rs[0], 0)) == bt
				kcAt(c, p, "spend-limit", f.Name+" period reset only when the period elapsed", s.Pos(), ok && okR, "SetSpendUsed(nil)+SetSpendReset(blockTime) must sit under `period > 0 && blockTime >= reset+period`")
				continue
			}
			committed = true
			nu := engine.ObjOf(info, arg)
			ok := false
			for _, ft := range kcFacts(g, s) {
				if call, isCall := ast.Unparen(ft.Expr).(*ast.CallExpr); isCall && ft.Val && len(call.Args) == 1 && engine.ObjOf(info, call.Args[0]) == nu && nu != nil {
					if se, isSel := call.Fun.(*ast.SelectorExpr); isSel && se.Sel.Name == "IsAllGTE" {
						ok = true
					}
				}
			}
			kcAt(c, p, "spend-limit", f.Name+" commits exactly the tested total", s.Pos(), ok, "SetSpendUsed(v) must be confined to SpendLimit.IsAllGTE(v)")
			// every non-zero success return passes the commit
			for _, ex := range kcNormalExits(f) {
				rs, isRet := ex.Node.(*ast.ReturnStmt)
				if isRet && len(rs.Results) == 1 && isNil(rs.Results[0]) && g.ReachableAfter(s, ex) {
					kcAt(c, p, "spend-limit", f.Name+" success implies the spend was recorded", ex.Pos(), g.Dominates(s, ex), "")
				}
			}
		}
		if !committed {
			kcAt(c, p, "spend-limit", f.Name+" commits exactly the tested total", f.Pos(), false, "no SetSpendUsed(newUsed)")
		}
		_ = amount
	}
	// who mutates spend state
	kcCallerTable(c, p, "who-may-call", "DelegatedAccount.SetSpendUsed", kcFilterRefs(p, p.RefsToFunc("tm2/pkg/std.(DelegatedAccount).SetSpendUsed", "tm2/pkg/std.(*BaseSessionAccount).SetSpendUsed")),
		[]string{c16A + ".DeductSessionSpend"}, []string{c16A + ".DeductSessionSpend"})
	kcCallerTable(c, p, "who-may-call", c16A+".DeductSessionSpend", kcFilterRefs(p, p.RefsToFunc(c16A+".DeductSessionSpend")),
		[]string{c16A + ".CheckAndDeductSessionSpend", c16A + ".NewAnteHandler"}, []string{c16A + ".CheckAndDeductSessionSpend", c16A + ".NewAnteHandler"})

	// CheckAndDeductSessionSpend
	if f := c.MustFunc(c16A + ".CheckAndDeductSessionSpend"); f != nil {
		info := f.Info()
		g := f.Graph()
		signer, amount := kcParam(f, "signerAddr"), kcParam(f, "amount")
		ds := f.CallsTo(c16A + ".DeductSessionSpend")
		ps := f.CallsTo(c16A + ".(SessionAccountSetter).SetSessionAccount")
		c.Floor("spend-persist", len(ds), 1)
		for _, dsite := range ds {
			daO := engine.ObjOf(info, kcArg(dsite, 0))
			// da := sessions[signerAddr]
			okDa := false
			engine.InspectBody(f, func(nd ast.Node) {
				as, isAs := nd.(*ast.AssignStmt)
				if isAs && len(as.Lhs) == 2 && len(as.Rhs) == 1 && engine.ObjOf(info, as.Lhs[0]) == daO {
					if ix, isIx := ast.Unparen(as.Rhs[0]).(*ast.IndexExpr); isIx && engine.ObjOf(info, ix.Index) == signer {
						okDa = true
					}
				}
			})
			kcAt(c, p, "spend-persist", f.Name+" charges the session filed under the debited signer", dsite.Pos(), okDa && engine.ObjOf(info, kcArg(dsite, 1)) == amount, "")
			// error propagates
			okErr := false
			for _, ex := range kcNormalExits(f) {
				if r := g.CheckedGuard(dsite, ex); r.OK && !c09errNilSide(r) {
					if rs, isRet := ex.Node.(*ast.ReturnStmt); isRet && len(rs.Results) == 1 && !isNil(rs.Results[0]) {
						okErr = true
					}
				}
			}
			kcAt(c, p, "spend-persist", f.Name+" returns the limit error", dsite.Pos(), okErr, "")
			okP := false
			for _, ps1 := range ps {
				if r := g.CheckedGuard(dsite, ps1); r.OK && c09errNilSide(r) && engine.ObjOf(info, kcArg(ps1, 1)) == signer && engine.Mentions(info, kcArg(ps1, 2), daO) && kcMustFollowOK(f, dsite, ps1) {
					okP = true
				}
			}
			kcAt(c, p, "spend-persist", f.Name+" persists the updated session", dsite.Pos(), okP, "SetSessionAccount(ctx, signerAddr, da) must follow every successful deduction")
		}
		// the context key read is the one the ante publishes
		nkey := 0
		engine.InspectBody(f, func(nd ast.Node) {
			if cl, isCL := nd.(*ast.CompositeLit); isCL && engine.TypeName(info.TypeOf(cl)) == "tm2/pkg/std.SessionAccountsContextKey" {
				nkey++
			}
		})
		kcAt(c, p, "spend-persist", f.Name+" reads std.SessionAccountsContextKey", f.Pos(), nkey == 1, "")
	}
}

func c16replaceWord(s, w, r string) string {
	var out strings.Builder
	isW := func(b byte) bool {
		return b == '_' || (b >= '0' && b <= '9') || (b >= 'a' && b <= 'z') || (b >= 'A' && b <= 'Z')
	}
	for i := 0; i < len(s); {
		if strings.HasPrefix(s[i:], w) && (i == 0 || !isW(s[i-1]) && s[i-1] != '.') && (i+len(w) == len(s) || !isW(s[i+len(w)])) {
			out.WriteString(r)
			i += len(w)
			continue
		}
		out.WriteByte(s[i])
		i++
	}
	return out.String()
}

func c16anteLit(c *engine.Ctx, p *engine.Prog) *engine.Fn {
	root := c.MustFunc(c16A + ".NewAnteHandler")
	if root == nil {
		return nil
	}
	for _, l := range root.AllLits() {
		if len(l.CallsTo(c16A+".DeductFees")) > 0 {
			return l
		}
	}
	c.Undecided("anchor", c16A+".NewAnteHandler closure", "ante closure (the literal calling DeductFees) not found")
	return nil
}

func c16ante(c *engine.Ctx, p *engine.Prog) {
	f := c16anteLit(c, p)
	if f == nil {
		return
	}
	info := f.Info()
	g := f.Graph()
	sessMap := kcSessionMapObj(f)
	if sessMap == nil {
		c.Undecided("session-published", "ante: session map", "no ctx.WithValue(std.SessionAccountsContextKey{}, <map>) in the ante closure")
		return
	}
	// map inserts
	n := 0
	engine.InspectBody(f, func(nd ast.Node) {
		as, isAs := nd.(*ast.AssignStmt)
		if !isAs || len(as.Lhs) != 1 {
			return
		}
		ix, isIx := ast.Unparen(as.Lhs[0]).(*ast.IndexExpr)
		if !isIx || engine.ObjOf(info, ix.X) != sessMap {
			return
		}
		n++
		s := f.SiteOf(as)
		daO := engine.ObjOf(info, as.Rhs[0])
		// da := sa.(DelegatedAccount); sa := ak.GetSessionAccount(newCtx, signerAddr, stdSigs[i].SessionAddr)
		var saO types.Object
		if ta, isTA := ast.Unparen(kcSingleDef(f, daO)).(*ast.TypeAssertExpr); isTA {
			saO = engine.ObjOf(info, ta.X)
		}
		var get *ast.CallExpr
		if saO != nil {
			if gc, isC := ast.Unparen(kcSingleDef(f, saO)).(*ast.CallExpr); isC {
				if se, isSel := gc.Fun.(*ast.SelectorExpr); isSel && se.Sel.Name == "GetSessionAccount" {
					get = gc
				}
			}
		}
		okKey := get != nil && len(get.Args) == 3 && engine.ExprString(get.Args[1]) == engine.ExprString(ix.Index) && strings.HasSuffix(engine.ExprString(get.Args[2]), ".SessionAddr")
		kcAt(c, p, "session-admission", "ante: session filed under the master it was looked up with", as.Pos(), okKey, "sessionAccounts[k] = da requires da from GetSessionAccount(ctx, k, sig.SessionAddr)")
		var exists, fresh bool
		for _, ft := range kcFacts(g, s) {
			x, y, op, okc := kcCmp(ft)
			if okc && op == token.NEQ && engine.ObjOf(info, x) == saO && saO != nil && isNil(y) {
				exists = true
			}
		}
		for _, gt := range g.Gates(s) {
			if gt.OnTrue {
				continue
			}
			cj := engine.Conjuncts(gt.Cond, token.LAND)
			if len(cj) != 2 {
				continue
			}
			a, isA := ast.Unparen(cj[0]).(*ast.BinaryExpr)
			b, isB := ast.Unparen(cj[1]).(*ast.BinaryExpr)
			if !isA || !isB {
				continue
			}
			exp := daO.Name() + ".GetExpiresAt()"
			if a.Op == token.GTR && engine.ExprString(a.X) == exp && engine.ExprString(a.Y) == "0" &&
				b.Op == token.GEQ && engine.ExprString(b.Y) == exp && strings.HasSuffix(engine.ExprString(b.X), ".BlockTime().Unix()") {
				fresh = true
			}
		}
		kcAt(c, p, "session-admission", "ante: unknown (revoked) session rejected", as.Pos(), exists, "admission must be unreachable when GetSessionAccount returned nil")
		kcAt(c, p, "session-admission", "ante: expired session rejected", as.Pos(), fresh, "admission must be unreachable when expiresAt > 0 && blockTime >= expiresAt (exactly)")
	})
	c.Floor("session-admission", n, 1)

	// signatures of session signers are verified against the session account
	var sigAcc types.Object
	engine.InspectBody(f, func(nd ast.Node) {
		// the account whose key verifies the signature: the receiver of the SetSequence calls
		if call, isCall := nd.(*ast.CallExpr); isCall {
			if se, isSel := call.Fun.(*ast.SelectorExpr); isSel && se.Sel.Name == "SetSequence" {
				if o := engine.ObjOf(info, se.X); o != nil && kcIsIdent(se.X) {
					sigAcc = o
				}
			}
		}
	})
	if sigAcc == nil {
		c.Undecided("session-admission", "ante: sigAcc", "variable holding the account whose key verifies the signature not found")
	} else {
		okS, okM := false, false
		engine.InspectBody(f, func(nd ast.Node) {
			as, isAs := nd.(*ast.AssignStmt)
			if !isAs || len(as.Lhs) != 1 || engine.ObjOf(info, as.Lhs[0]) != sigAcc {
				return
			}
			s := f.SiteOf(as)
			// facts on a comma-ok variable of a lookup in the session map
			var isSess, notSess bool
			var daFromMap types.Object
			for _, ft := range kcFacts(g, s) {
				id, isID := ft.Expr.(*ast.Ident)
				if !isID {
					continue
				}
				engine.InspectBody(f, func(n2 ast.Node) {
					a2, isA := n2.(*ast.AssignStmt)
					if !isA || len(a2.Lhs) != 2 || len(a2.Rhs) != 1 || engine.ObjOf(info, a2.Lhs[1]) != info.ObjectOf(id) {
						return
					}
					if ix, isIx := ast.Unparen(a2.Rhs[0]).(*ast.IndexExpr); isIx && engine.ObjOf(info, ix.X) == sessMap {
						if kx, isKx := ast.Unparen(ix.Index).(*ast.IndexExpr); isKx && kcIsSignersSlice(f, engine.ObjOf(info, kx.X)) {
							isSess, notSess = ft.Val, !ft.Val
							daFromMap = engine.ObjOf(info, a2.Lhs[0])
						}
					}
				})
			}
			if ta, isTA := ast.Unparen(as.Rhs[0]).(*ast.TypeAssertExpr); isTA && isSess && daFromMap != nil && engine.ObjOf(info, ta.X) == daFromMap {
				okS = true
			}
			if ix, isIx := ast.Unparen(as.Rhs[0]).(*ast.IndexExpr); isIx && notSess && kcIsSignerAccs(f, engine.ObjOf(info, ix.X)) {
				okM = true
			}
		})
		kcAt(c, p, "session-admission", "ante: session-signed signatures verify against the session account", f.Pos(), okS && okM, "sigAcc must be the session account iff the signer used a session")
		// VerifyBytes uses sigAcc's key and gates the sequence bump / persist
		for _, st := range f.CallsTo(c16A+".(AccountKeeper).SetSessionAccount", c16A+".(AccountKeeperI).SetSessionAccount") {
			ok := false
			for _, v := range f.CallsTo("tm2/pkg/crypto.(PubKey).VerifyBytes") {
				if g.Dominates(v, st) {
					ok = true
				}
			}
			kcAt(c, p, "session-admission", "ante: session state persisted only after signature verification", st.Pos(), ok, "")
		}
	}

	// publication
	pub := false
	for i, st := range f.Body.List {
		is, isIf := st.(*ast.IfStmt)
		if !isIf || is.Else != nil {
			continue
		}
		be, isB := ast.Unparen(is.Cond).(*ast.BinaryExpr)
		if !isB || be.Op != token.GTR || !engine.IsLenOf(info, be.X, sessMap) || engine.ExprString(be.Y) != "0" {
			continue
		}
		for _, b := range is.Body.List {
			as, isAs := b.(*ast.AssignStmt)
			if !isAs || len(as.Lhs) != 1 || as.Tok != token.ASSIGN {
				continue
			}
			call, isCall := ast.Unparen(as.Rhs[0]).(*ast.CallExpr)
			if !isCall || len(call.Args) != 2 || !strings.HasSuffix(engine.ExprString(call.Fun), ".WithValue") {
				continue
			}
			if engine.TypeName(info.TypeOf(call.Args[0])) != "tm2/pkg/std.SessionAccountsContextKey" || engine.ObjOf(info, call.Args[1]) != sessMap {
				continue
			}
			// the returned context is the variable assigned
			for _, later := range f.Body.List[i+1:] {
				if rs, isRet := later.(*ast.ReturnStmt); isRet && len(rs.Results) == 3 && engine.ExprString(rs.Results[0]) == engine.ExprString(as.Lhs[0]) && engine.ExprString(rs.Results[2]) == "false" {
					pub = true
				}
			}
		}
	}
	kcAt(c, p, "session-published", "ante: session map published in the returned context whenever non-empty", f.Pos(), pub, "`if len(sessionAccounts) > 0 { newCtx = newCtx.WithValue(std.SessionAccountsContextKey{}, sessionAccounts) }` must precede the success return of newCtx")
}

func c16restrict(c *engine.Ctx, p *engine.Prog) {
	G := "gno.land/pkg/gnoland."
	// app ante closure
	refs := p.RefsToFunc(G + "checkSessionRestrictions")
	kcCallerTable(c, p, "who-may-call", G+"checkSessionRestrictions", refs, []string{G + "NewAppWithOptions"}, []string{G + "NewAppWithOptions"})
	n := 0
	for _, r := range refs {
		if r.Fn == nil || !r.IsCall {
			continue
		}
		f := r.Fn
		info := f.Info()
		g := f.Graph()
		cs := f.CallsTo(G + "checkSessionRestrictions")
		var ah *engine.Site
		for _, s := range f.Calls() {
			// the wrapped handler: a local variable defined as auth.NewAnteHandler(...)
			if v, isVar := s.Callee.(*types.Var); isVar && !v.IsField() {
				if d := kcSingleDef(f, v); d != nil && kcIsCallTo(info, d, c16A+".NewAnteHandler") != nil {
					ah = s
				}
			}
		}
		if ah == nil || len(cs) != 1 {
			kcAt(c, p, "restrictions-run", f.Root().Name+" ante wrapper shape", f.Pos(), false, "expected one authAnteHandler call and one checkSessionRestrictions call")
			continue
		}
		n++
		s := cs[0]
		// ctx passed is the auth ante's resulting context
		as, isAs := ah.Top.(*ast.AssignStmt)
		okCtx := isAs && len(as.Lhs) == 3 && engine.ObjOf(info, as.Lhs[0]) == engine.ObjOf(info, kcArg(s, 0)) && g.Dominates(ah, s)
		kcAt(c, p, "restrictions-run", f.Root().Name+" restrictions see the auth ante's context", s.Pos(), okCtx, "")
		var abortO types.Object
		if isAs && len(as.Lhs) == 3 {
			abortO = engine.ObjOf(info, as.Lhs[2])
		}
		// every normal exit after the auth ante either has abort==true or passed the restriction check
		okAll := true
		why := ""
		for _, ex := range kcNormalExits(f) {
			if !g.ReachableAfter(ah, ex) {
				continue
			}
			if g.Dominates(s, ex) {
				// after the check: if sessAbort may be true here, the third result must be true
				rg := g.CheckedGuard(s, ex)
				if rg.OK && rg.OnTrue {
					if len(engine.Atoms(rg.Cond)) != 1 {
						okAll, why = false, "the restriction verdict is combined with another condition: `"+engine.ExprString(rg.Cond)+"`"
					}
					rs, isRet := ex.Node.(*ast.ReturnStmt)
					if !isRet || len(rs.Results) != 3 || engine.ExprString(rs.Results[2]) != "true" {
						okAll, why = false, "a restriction abort does not return abort=true"
					}
				} else if rg.OK && !rg.OnTrue {
					if len(engine.Atoms(rg.Cond)) != 1 {
						okAll, why = false, "the restriction verdict is combined with another condition: `"+engine.ExprString(rg.Cond)+"`"
					}
				} else {
					okAll, why = false, "an exit after the restriction check does not depend on its verdict"
				}
				continue
			}
			gated := false
			for _, ft := range kcFacts(g, ex) {
				if id, isID := ft.Expr.(*ast.Ident); isID && ft.Val && info.ObjectOf(id) == abortO && abortO != nil {
					gated = true
				}
			}
			if !gated {
				okAll, why = false, "an exit bypasses checkSessionRestrictions without the auth ante having aborted"
			}
		}
		kcAt(c, p, "restrictions-run", f.Root().Name+" every non-aborting path runs checkSessionRestrictions", s.Pos(), okAll, why)
	}
	c.Floor("restrictions-run", n, 1)

	// checkSessionRestrictions deny structure
	if f := c.MustFunc(G + "checkSessionRestrictions"); f != nil {
		info := f.Info()
		g := f.Graph()
		type chk struct {
			callee string
			onTrue bool // abort when the call's verdict is true
			errRes bool
		}
		for _, ck := range []chk{{G + "sessionAlwaysDenied", true, false}, {G + "parseAllowPaths", false, true}, {G + "anyEntryMatches", false, false}} {
			sites := f.CallsTo(ck.callee)
			if len(sites) != 1 {
				kcAt(c, p, "restrictions-deny", f.Name+" "+ck.callee, f.Pos(), false, "expected exactly one call")
				continue
			}
			s := sites[0]
			ok, why := false, "no abort return depends on this check"
			for _, ex := range kcNormalExits(f) {
				rs, isRet := ex.Node.(*ast.ReturnStmt)
				if !isRet || len(rs.Results) != 2 || engine.ExprString(rs.Results[1]) != "true" {
					continue
				}
				r := g.CheckedGuard(s, ex)
				if !r.OK {
					continue
				}
				// the abort must be the innermost consequence of this check (cond block's direct branch)
				neg := isNot(r.Cond)
				atoms := engine.Atoms(r.Cond)
				if len(atoms) != 1 {
					why = "the check is combined with another condition: `" + engine.ExprString(r.Cond) + "`"
					continue
				}
				switch {
				case ck.errRes:
					if c09errNilSide(engine.GuardResult{OK: true, Cond: r.Cond, OnTrue: !r.OnTrue}) {
						ok = true
					}
				case ck.onTrue:
					ok = ok || (r.OnTrue && !neg) || (!r.OnTrue && neg)
				default:
					ok = ok || (r.OnTrue && neg) || (!r.OnTrue && !neg)
				}
				// exits deeper in the chain are also "guarded" by earlier checks; require the exit to be in the branch directly
			}
			kcAt(c, p, "restrictions-deny", f.Name+" aborts on "+ck.callee[strings.LastIndexByte(ck.callee, '.')+1:], s.Pos(), ok, why)
			// the only way to skip the check is: signer has no session, or an earlier check aborted
			for _, gt := range g.Gates(s) {
				txt := engine.ExprString(gt.Cond)
				allowed := false
				gc, gv := ast.Unparen(gt.Cond), gt.OnTrue
				if u, isU := gc.(*ast.UnaryExpr); isU && u.Op == token.NOT {
					gc, gv = ast.Unparen(u.X), !gv
				}
				if id, isID := gc.(*ast.Ident); isID && gv {
					// ok of sessions[signer]
					engine.InspectBody(f, func(nd ast.Node) {
						if as, isAs := nd.(*ast.AssignStmt); isAs && len(as.Lhs) == 2 && len(as.Rhs) == 1 && info.ObjectOf(id) == engine.ObjOf(info, as.Lhs[1]) {
							if _, isIx := ast.Unparen(as.Rhs[0]).(*ast.IndexExpr); isIx {
								allowed = true
							}
						}
					})
				}
				if !gt.OnTrue && len(engine.Atoms(gt.Cond)) == 1 {
					if kcIsCallTo(info, gc, G+"sessionAlwaysDenied") != nil {
						allowed = true // an earlier deny check that did not fire
					}
					if be, isB := gc.(*ast.BinaryExpr); isB && (be.Op == token.NEQ || be.Op == token.EQL) && (isNil(be.Y) || isNil(be.X)) {
						allowed = true // error / absence test whose failing branch leaves
					}
				}
				if !allowed {
					kcAt(c, p, "restrictions-deny", f.Name+" "+ck.callee[strings.LastIndexByte(ck.callee, '.')+1:]+" skipped under extra condition", s.Pos(), false, "check additionally depends on `"+txt+"`")
				}
			}
			// inside the loops over tx.GetMsgs() and msg.GetSigners()
			depth := 0
			engine.InspectBody(f, func(nd ast.Node) {
				if rs, isR := nd.(*ast.RangeStmt); isR && rs.Body.Pos() <= s.Pos() && s.Pos() < rs.Body.End() {
					if x := engine.ExprString(rs.X); strings.HasSuffix(x, ".GetMsgs()") || strings.HasSuffix(x, ".GetSigners()") {
						depth++
					}
				}
			})
			kcAt(c, p, "restrictions-deny", f.Name+" "+ck.callee[strings.LastIndexByte(ck.callee, '.')+1:]+" applied to every message and signer", s.Pos(), depth == 2, "")
		}
		// entries come from the session's own AllowPaths; msg is the loop's message
		if ps := f.CallsTo(G + "parseAllowPaths"); len(ps) == 1 {
			arg := kcIsCallTo(info, kcArg(ps[0], 0), G+"sessionAllowPathsRaw")
			okSess := false
			if arg != nil {
				so := engine.ObjOf(info, arg.Args[0])
				engine.InspectBody(f, func(nd ast.Node) {
					if as, isAs := nd.(*ast.AssignStmt); isAs && len(as.Lhs) == 2 && engine.ObjOf(info, as.Lhs[0]) == so {
						if _, isIx := ast.Unparen(as.Rhs[0]).(*ast.IndexExpr); isIx {
							okSess = true
						}
					}
				})
			}
			kcAt(c, p, "restrictions-deny", f.Name+" matches against the signer's own session", ps[0].Pos(), okSess, "")
		}
	}
	// sessionAlwaysDenied
	if f := c.MustFunc(G + "sessionAlwaysDenied"); f != nil {
		g := f.Graph()
		n := 0
		for _, ex := range kcNormalExits(f) {
			rs, isRet := ex.Node.(*ast.ReturnStmt)
			if !isRet || len(rs.Results) != 1 || engine.ExprString(rs.Results[0]) != "false" {
				continue
			}
			n++
			var notAuth, notAddPkg bool
			for _, ft := range kcFacts(g, ex) {
				x, y, op, okc := kcCmp(ft)
				if okc && op == token.NEQ && strings.HasSuffix(engine.ExprString(x), ".Route()") && engine.ExprString(y) == `"auth"` {
					notAuth = true
				}
			}
			for _, gt := range g.Gates(ex) {
				if gt.OnTrue {
					continue
				}
				cj := engine.Conjuncts(gt.Cond, token.LAND)
				if len(cj) == 2 {
					a, b := engine.ExprString(cj[0]), engine.ExprString(cj[1])
					if strings.HasSuffix(a, `.Route() == "vm"`) && strings.HasSuffix(b, `.Type() == "add_package"`) {
						notAddPkg = true
					}
				}
			}
			kcAt(c, p, "always-denied", f.Name+" permits only non-auth messages", ex.Pos(), notAuth, "")
			kcAt(c, p, "always-denied", f.Name+" never permits vm/add_package", ex.Pos(), notAddPkg, "`return false` must be unreachable when Route()==\"vm\" && Type()==\"add_package\" (exactly)")
		}
		c.Floor("always-denied", n, 1)
	}
	// entryMatchesMsg
	if f := c.MustFunc(G + "entryMatchesMsg"); f != nil {
		info := f.Info()
		g := f.Graph()
		e, msg := paramObj(f, 0), paramObj(f, 1)
		n := 0
		for _, ex := range kcNormalExits(f) {
			rs, isRet := ex.Node.(*ast.ReturnStmt)
			if !isRet || len(rs.Results) != 1 || engine.ExprString(rs.Results[0]) == "false" {
				continue
			}
			n++
			var wild, route, typ bool
			for _, ft := range kcFacts(g, ex) {
				if kcSelOf(info, ft.Expr, e, "Wildcard") && ft.Val {
					wild = true
				}
				x, y, op, okc := kcCmp(ft)
				if !okc || op != token.EQL {
					continue
				}
				if kcSelOf(info, x, e, "Route") && engine.ExprString(y) == msg.Name()+".Route()" {
					route = true
				}
				if kcSelOf(info, x, e, "Type") && engine.ExprString(y) == msg.Name()+".Type()" {
					typ = true
				}
			}
			kcAt(c, p, "entry-match", f.Name+" grants only on wildcard or equal route and type", ex.Pos(), wild || (route && typ), "a granting return must be confined to e.Wildcard, or e.Route == msg.Route() and e.Type == msg.Type()")
			if engine.ExprString(rs.Results[0]) != "true" {
				// path rule
				ok := false
				if be, isB := ast.Unparen(rs.Results[0]).(*ast.BinaryExpr); isB && be.Op == token.LOR {
					l, isL := ast.Unparen(be.X).(*ast.BinaryExpr)
					rc := kcIsCallTo(info, be.Y, "strings.HasPrefix")
					if isL && l.Op == token.EQL && rc != nil && len(rc.Args) == 2 {
						po := engine.ObjOf(info, l.X)
						parts := kcConcatParts(rc.Args[1])
						if po != nil && kcSelOf(info, l.Y, e, "Path") && engine.ObjOf(info, rc.Args[0]) == po && len(parts) == 2 && kcSelOf(info, parts[0], e, "Path") {
							if s, oks := kcStrLit(info, parts[1]); oks && s == "/" {
								// path := pp.GetPkgPath() of msg
								if d := kcSingleDef(f, po); d != nil && strings.HasSuffix(engine.ExprString(d), ".GetPkgPath()") {
									ok = true
								}
							}
						}
					}
				}
				kcAt(c, p, "entry-match", f.Name+" path entries match exactly or by \"/\"-separated prefix", ex.Pos(), ok, "expected `path == e.Path || strings.HasPrefix(path, e.Path+\"/\")`")
			} else if !wild {
				// unconditional grant for route/type entries requires an empty path entry
				okEmpty := false
				for _, ft := range kcFacts(g, ex) {
					x, y, op, okc := kcCmp(ft)
					if okc && op == token.EQL && kcSelOf(info, x, e, "Path") && engine.ExprString(y) == `""` {
						okEmpty = true
					}
				}
				kcAt(c, p, "entry-match", f.Name+" pathless grant only for entries without a path", ex.Pos(), okEmpty, "")
			}
		}
		c.Floor("entry-match", n, 3)
	}
	if f := c.MustFunc(G + "anyEntryMatches"); f != nil {
		g := f.Graph()
		ok := true
		n := 0
		for _, ex := range kcNormalExits(f) {
			rs, isRet := ex.Node.(*ast.ReturnStmt)
			if !isRet || len(rs.Results) != 1 || engine.ExprString(rs.Results[0]) != "true" {
				continue
			}
			n++
			hit := false
			for _, ft := range kcFacts(g, ex) {
				if kcIsCallTo(f.Info(), ft.Expr, G+"entryMatchesMsg") != nil && ft.Val {
					hit = true
				}
			}
			if !hit {
				ok = false
			}
		}
		kcAt(c, p, "entry-match", f.Name+" true only when some entry matches", f.Pos(), ok && n >= 1, "")
	}
}
