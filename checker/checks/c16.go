package checks

import (
	"go/ast"
	"go/token"
	"go/types"
	"strings"

	"golang.org/x/tools/go/cfg"

	"gnoverif/engine"
)

// C16 — session keys cannot exceed their spend limit or allowed actions.
func init() {
	register("C16", c16)
	meta("C16", Meta{
		Text:      "Decides the debit-gate structure: every entry through which a signer's balance can be debited on behalf of a transaction passes a successful session-spend deduction for the SAME address and the SAME coins first — bank.SendCoins before sendCoins, InputOutputCoins per input before SubtractCoins, lockStorageDeposit before the unrestricted transfer, the ante's phase 2b (DeductSessionSpend on the first signer's session, un-skippable when a session exists) before DeductFees — and the remaining debit paths are the frozen exempt set (storage refunds from a realm's deposit address, realm burns). DeductSessionSpend commits SpendUsed only below the limit test on used+amount, resets only under the period condition, and shares its zero/empty-limit/period conditions with CheckSessionSpend; CheckAndDeductSessionSpend persists after a successful deduction of the session found under the signer's address. In ante phase 1 a session enters the per-tx map only if it exists and is not expired, under the master address it was looked up with; session-signed signatures are verified against the session account; the map is published in the context on the success path. The gno.land ante runs checkSessionRestrictions on every non-aborting path, which aborts for always-denied messages (auth/*, vm/add_package), unparsable or non-matching AllowPaths, for every (message, signer) with a session; entryMatchesMsg grants only on wildcard or equal route and type, and for path entries on equality or a \"/\"-separated prefix.",
		Note:      "Not covered: the arithmetic of limits (Coins.Add/IsAllGTE), AllowPaths grammar, that realm code cannot otherwise move the master's coins (C08), genesis-mode signature skipping, multi-message rollback semantics (C02). CHA over BankKeeperI is restricted to non-test packages.",
		Technique: "debit-gate table (who-may-call + checked-guard dominance with argument identity), conditional must-pass on go/cfg, sibling comparison of normalised guard conditions, gate analysis of grant/deny functions",
		Ref:       "DESIGN.md §2 C16",
	})
	mutants("C16",
		Mutant{"send-hook-dropped", "tm2/pkg/sdk/bank/keeper.go", "\tif err := auth.CheckAndDeductSessionSpend(ctx, bank.acck, fromAddr, amt); err != nil {\n\t\treturn err\n\t}\n\n\treturn bank.sendCoins(", "\tif err := auth.CheckAndDeductSessionSpend(ctx, bank.acck, toAddr, amt); err != nil {\n\t\treturn err\n\t}\n\n\treturn bank.sendCoins(", "debit-gate"},
		Mutant{"multisend-hook-unchecked", "tm2/pkg/sdk/bank/keeper.go", "\t\tif err := auth.CheckAndDeductSessionSpend(ctx, bank.acck, in.Address, in.Coins); err != nil {\n\t\t\treturn err\n\t\t}", "\t\tif err := auth.CheckAndDeductSessionSpend(ctx, bank.acck, in.Address, in.Coins); err != nil && len(inputs) > 1 {\n\t\t\treturn err\n\t\t}", "debit-gate"},
		Mutant{"deposit-not-counted", "gno.land/pkg/sdk/vm/keeper.go", "\tif err := auth.CheckAndDeductSessionSpend(ctx, vm.acck, caller, d); err != nil {\n\t\treturn fmt.Errorf(\"unable to lock deposit %s, %w\", rlm.Path, err)\n\t}\n", "", "debit-gate"},
		Mutant{"fee-not-counted-sometimes", "tm2/pkg/sdk/auth/ante.go", "\t\t\tif da, ok := sessionAccounts[signerAddrs[0]]; ok {\n\t\t\t\tif err := DeductSessionSpend(", "\t\t\tif da, ok := sessionAccounts[signerAddrs[0]]; ok && !simulate {\n\t\t\t\tif err := DeductSessionSpend(", "debit-gate"},
		Mutant{"new-unrestricted-caller", "tm2/pkg/sdk/bank/handler.go", "\terr := bh.bank.InputOutputCoins(ctx, msg.Inputs, msg.Outputs)", "\terr := bh.bank.SendCoinsUnrestricted(ctx, msg.Inputs[0].Address, msg.Outputs[0].Address, msg.Inputs[0].Coins)", "who-may-call"},
		Mutant{"limit-check-after-commit", "tm2/pkg/sdk/auth/spend.go", "\tif !da.GetSpendLimit().IsAllGTE(newUsed) {\n\t\treturn std.ErrSessionNotAllowed(fmt.Sprintf(\n\t\t\t\"session spend limit exceeded:", "\tif !da.GetSpendLimit().IsAllGTE(amount) {\n\t\treturn std.ErrSessionNotAllowed(fmt.Sprintf(\n\t\t\t\"session spend limit exceeded:", "spend-limit"},
		Mutant{"reset-condition-diverges", "tm2/pkg/sdk/auth/spend.go", "\tif da.GetSpendPeriod() > 0 && blockTime >= da.GetSpendReset()+da.GetSpendPeriod() {\n\t\tda.SetSpendUsed(nil)", "\tif blockTime >= da.GetSpendReset()+da.GetSpendPeriod() {\n\t\tda.SetSpendUsed(nil)", "spend-sibling"},
		Mutant{"deduct-not-persisted", "tm2/pkg/sdk/auth/spend.go", "\tak.SetSessionAccount(ctx, signerAddr, da.(std.Account))\n", "\t_ = ak\n", "spend-persist"},
		Mutant{"expired-session-accepted", "tm2/pkg/sdk/auth/ante.go", "if da.GetExpiresAt() > 0 && newCtx.BlockTime().Unix() >= da.GetExpiresAt() {", "if da.GetExpiresAt() > 0 && newCtx.BlockTime().Unix() > da.GetExpiresAt()+3600 {", "session-admission"},
		Mutant{"session-map-not-published", "tm2/pkg/sdk/auth/ante.go", "\t\tif len(sessionAccounts) > 0 {\n", "\t\tif len(sessionAccounts) > 1 {\n", "session-published"},
		Mutant{"restrictions-skipped-on-path", "gno.land/pkg/gnoland/app.go", "\t\t\tif sessRes, sessAbort := checkSessionRestrictions(newCtx, tx); sessAbort {", "\t\t\tif sessRes, sessAbort := checkSessionRestrictions(newCtx, tx); sessAbort && !simulate {", "restrictions-run"},
		Mutant{"addpkg-allowed", "gno.land/pkg/gnoland/app.go", "\tif msg.Route() == \"vm\" && msg.Type() == \"add_package\" {\n\t\treturn true\n\t}", "\tif msg.Route() == \"vm\" && msg.Type() == \"add_package\" && false {\n\t\treturn true\n\t}", "always-denied"},
		Mutant{"allowpaths-mismatch-ignored", "gno.land/pkg/gnoland/app.go", "\t\t\tif !anyEntryMatches(entries, msg) {", "\t\t\tif !anyEntryMatches(entries, msg) && len(entries) > 0 {", "restrictions-deny"},
		Mutant{"path-prefix-attack", "gno.land/pkg/gnoland/app.go", "strings.HasPrefix(path, e.Path+\"/\")", "strings.HasPrefix(path, e.Path)", "entry-match"},
		Mutant{"type-not-compared", "gno.land/pkg/gnoland/app.go", "\tif e.Route != msg.Route() || e.Type != msg.Type() {", "\tif e.Route != msg.Route() && e.Type != msg.Type() {", "entry-match"},
	)
}

const c16A = "tm2/pkg/sdk/auth"

func c16(c *engine.Ctx) {
	c.Explain = "Decides the structural debit gates of session spending, the commit/limit structure of DeductSessionSpend and its agreement with CheckSessionSpend, session admission (existence, expiry) and publication in the ante, and the deny/grant structure of checkSessionRestrictions/entryMatchesMsg (see manifest text). Not covered: limit arithmetic, AllowPaths grammar, realm-level spending (C08)."
	pats := []string{c16A, c08Bank, c08VM, "gno.land/pkg/gnoland"}
	if c.Tier == "thorough" {
		pats = []string{"gnovm/...", "tm2/...", "gno.land/..."}
	}
	p := c.Load(pats...)
	if p == nil {
		return
	}
	c16gates(c, p)
	c16spend(c, p)
	c16ante(c, p)
	c16restrict(c, p)
}

// c16gated: call `debit` is dominated by a checked, successful CheckAndDeductSessionSpend
// whose (addr, coins) arguments are the same expressions as debit's (addrIdx, coinsIdx).
func c16gated(f *engine.Fn, debit *engine.Site, addrIdx, coinsIdx int) (bool, string) {
	g := f.Graph()
	why := "no dominating CheckAndDeductSessionSpend"
	for _, hd := range kcDeepCalls(f, c16A+".CheckAndDeductSessionSpend") {
		h := hd.Outer
		if hd.Inner != hd.Outer && !kcHelperPropagatesErr(hd) {
			why = "the helper wrapping the session hook does not return the hook's error on every path"
			continue
		}
		r := g.CheckedGuard(h, debit)
		if !r.OK {
			why = "hook result does not gate the debit: " + r.Why
			continue
		}
		if !c09errNilSide(r) {
			why = "debit is reached on the hook's error path"
			continue
		}
		if len(engine.Atoms(r.Cond)) != 1 {
			why = "the hook's error test is weakened: `" + engine.ExprString(r.Cond) + "`"
			continue
		}
		hAddr, hCoins := kcResolve(f, hd.Arg(2)), kcResolve(f, hd.Arg(3))
		dAddr, dCoins := kcResolve(f, kcArg(debit, addrIdx)), kcResolve(f, kcArg(debit, coinsIdx))
		if engine.ExprString(hAddr) != engine.ExprString(dAddr) {
			why = "hook charges `" + engine.ExprString(hAddr) + "` but `" + engine.ExprString(dAddr) + "` is debited"
			continue
		}
		if engine.ExprString(hCoins) != engine.ExprString(dCoins) {
			why = "hook counts `" + engine.ExprString(hCoins) + "` but `" + engine.ExprString(dCoins) + "` is moved"
			continue
		}
		// the expressions must denote the same values at both sites: only params / range vars / single-def locals
		stable := true
		for _, e := range []ast.Expr{hAddr, hCoins} {
			ast.Inspect(e, func(n ast.Node) bool {
				if id, isID := n.(*ast.Ident); isID {
					if v, isVar := f.Info().ObjectOf(id).(*types.Var); isVar && !v.IsField() {
						if rhs, okd := kcDefs(f, v); len(rhs) > 1 || (!okd && kcParamIndex(f, v) >= 0) {
							stable = false
						}
					}
				}
				return true
			})
		}
		if !stable {
			why = "address/coins variables are reassigned between hook and debit"
			continue
		}
		return true, "gated by " + engine.ExprString(h.Call)
	}
	return false, why
}

func c16gates(c *engine.Ctx, p *engine.Prog) {
	B := c08Bank + ".(BankKeeper)."
	V := c08VM + ".(*VMKeeper)."
	bk := p.Named(c08Bank + ".BankKeeper")
	if bk == nil {
		c.Undecided("anchor", c08Bank+".BankKeeper", "type not found")
		return
	}
	n := 0
	if f := c.MustFunc(B + "SendCoins"); f != nil {
		for _, s := range f.CallsTo(B + "sendCoins") {
			n++
			ok, why := c16gated(f, s, 1, 3)
			kcAt(c, p, "debit-gate", f.Name+" -> sendCoins", s.Pos(), ok, why)
		}
		// sendCoins inlined: the debit itself sits in SendCoins
		for _, s := range f.CallsTo(B+"SubtractCoins", B+"subtractCoinsUnrestricted", B+"subtract") {
			n++
			ok, why := c16gated(f, s, 1, 2)
			kcAt(c, p, "debit-gate", f.Name+" -> sendCoins", s.Pos(), ok, why)
		}
	}
	if f := c.MustFunc(B + "InputOutputCoins"); f != nil {
		for _, s := range f.CallsTo(B + "SubtractCoins") {
			n++
			ok, why := c16gated(f, s, 1, 2)
			kcAt(c, p, "debit-gate", f.Name+" -> SubtractCoins", s.Pos(), ok, why)
		}
	}
	if f := c.MustFunc(V + "lockStorageDeposit"); f != nil {
		for _, s := range f.CallsTo(c08VM + ".(BankKeeperI).SendCoinsUnrestricted") {
			n++
			ok, why := c16gated(f, s, 1, 3)
			kcAt(c, p, "debit-gate", f.Name+" -> SendCoinsUnrestricted", s.Pos(), ok, why)
		}
	}
	c.Floor("debit-gate", n, 3)

	// closure of the table: who reaches the debit primitives
	tbl := []struct {
		m     string
		allow []string
	}{
		{"sendCoins", []string{B + "SendCoins"}},
		{"SubtractCoins", []string{B + "InputOutputCoins", B + "sendCoins", B + "SendCoins" /* gated above when inlined */, B + "BurnCoins" /* exempt: realm burn, see SubtractCoins doc */}},
		{"subtractCoinsUnrestricted", []string{B + "SendCoinsUnrestricted"}},
		{"subtract", []string{B + "SubtractCoins", B + "subtractCoinsUnrestricted"}},
		{"SendCoinsUnrestricted", []string{V + "lockStorageDeposit", V + "refundStorageDeposit" /* exempt: from = realm deposit address */, c16A + ".DeductFees"}},
		{"SetCoins", []string{"gno.land/pkg/gnoland.(InitChainerConfig).applyBalance" /* genesis */}},
		{"BurnCoins", []string{c08VM + ".(*SDKBanker).RemoveCoin"}},
	}
	for _, t := range tbl {
		refs := kcFilterRefs(p, kcMethodRefs(p, bk, t.m))
		kcCallerTable(c, p, "who-may-call", B+t.m, refs, t.allow, t.allow)
	}
	// exempt edge: refund debits a derived deposit address, never a signer
	if f := c.MustFunc(V + "refundStorageDeposit"); f != nil {
		for _, s := range f.CallsTo(c08VM + ".(BankKeeperI).SendCoinsUnrestricted") {
			from := kcResolve(f, kcArg(s, 1))
			ok := kcIsCallTo(f.Info(), from, "gnovm/pkg/gnolang.DeriveStorageDepositCryptoAddr") != nil
			kcAt(c, p, "debit-gate", f.Name+" exempt: debits a realm deposit address", s.Pos(), ok, "from is `"+engine.ExprString(from)+"`")
		}
	}

	// fees: ante phase 2b
	refs := p.RefsToFunc(c16A + ".DeductFees")
	kcCallerTable(c, p, "who-may-call", c16A+".DeductFees", kcFilterRefs(p, refs), []string{c16A + ".NewAnteHandler"}, []string{c16A + ".NewAnteHandler"})
	nf := 0
	for _, r := range refs {
		if r.Fn == nil || !r.IsCall || kcInTestSupport(p, r.Fn) {
			continue
		}
		f := r.Fn
		info := f.Info()
		g := f.Graph()
		sessMap := kcSessionMapObj(f)
		if sessMap == nil {
			c.Undecided("debit-gate", f.Root().Name+" ante fee deduction", "the per-tx session map (published under std.SessionAccountsContextKey) was not found in the ante closure")
		}
		for _, fee := range f.CallsTo(c16A + ".DeductFees") {
			nf++
			ok, why := false, "no DeductSessionSpend on the fee-payer's session gates DeductFees"
			for _, d := range f.CallsTo(c16A + ".DeductSessionSpend") {
				// (da, ok) := sessionAccounts[signerAddrs[0]] ; gate ok==true encloses d
				daObj := engine.ObjOf(info, kcArg(d, 0))
				var condBlock *cfg.Block
				var mapKey ast.Expr
				for _, gt := range kcGates(g, d) {
					id, isID := ast.Unparen(gt.Cond).(*ast.Ident)
					if !isID || !gt.OnTrue {
						continue
					}
					okObj := info.ObjectOf(id)
					engine.InspectBody(f, func(nd ast.Node) {
						as, isAs := nd.(*ast.AssignStmt)
						if !isAs || len(as.Lhs) != 2 || len(as.Rhs) != 1 || info.ObjectOf(as.Lhs[1].(*ast.Ident)) != okObj || engine.ObjOf(info, as.Lhs[0]) != daObj {
							return
						}
						if ix, isIx := ast.Unparen(as.Rhs[0]).(*ast.IndexExpr); isIx && sessMap != nil && engine.ObjOf(info, ix.X) == sessMap {
							condBlock, mapKey = gt.Block, ix.Index
						}
					})
				}
				if condBlock == nil {
					// weakened or absent lookup condition
					for _, gt := range kcGates(g, d) {
						if len(engine.Atoms(gt.Cond)) > 1 && strings.Contains(engine.ExprString(gt.Cond), "ok") {
							why = "the session-exists test is combined with another condition: `" + engine.ExprString(gt.Cond) + "`"
						}
					}
					continue
				}
				// every path from the ok-true branch to DeductFees passes d
				trueSucc := condBlock.Succs[0]
				if trueSucc != d.Block && g.Reach(trueSucc, fee.Block, map[*cfg.Block]bool{d.Block: true}) {
					why = "DeductFees is reachable with a session present without DeductSessionSpend"
					continue
				}
				// the cond block dominates DeductFees (no path around the lookup)
				if !g.BlockDominates(condBlock, fee.Block) {
					why = "the session lookup does not dominate DeductFees"
					continue
				}
				// error of d aborts
				r2 := g.CheckedGuard(d, fee)
				_ = r2
				errAborts := false
				for _, cb := range g.CFG.Blocks {
					if !cb.Live || len(cb.Succs) != 2 || len(cb.Nodes) == 0 || !g.BlockDominates(d.Block, cb) {
						continue
					}
					cond, isExpr := cb.Nodes[len(cb.Nodes)-1].(ast.Expr)
					be, isB := ast.Unparen(cond).(*ast.BinaryExpr)
					if !isExpr || !isB || be.Op != token.NEQ || !isNil(be.Y) {
						continue
					}
					if as, isAs := d.Top.(*ast.AssignStmt); !isAs || engine.ObjOf(info, as.Lhs[0]) != engine.ObjOf(info, be.X) {
						continue
					}
					if !g.Reach(cb.Succs[0], fee.Block, map[*cfg.Block]bool{cb: true}) {
						errAborts = true
					}
				}
				if !errAborts {
					why = "a failed DeductSessionSpend does not prevent DeductFees"
					continue
				}
				// same payer and same coins
				if engine.ExprString(kcArg(d, 1)) != engine.ExprString(kcArg(fee, 4)) {
					why = "session charged `" + engine.ExprString(kcArg(d, 1)) + "`, fees deducted `" + engine.ExprString(kcArg(fee, 4)) + "`"
					continue
				}
				mk, isIx := ast.Unparen(mapKey).(*ast.IndexExpr)
				pa, isIx2 := ast.Unparen(kcArg(fee, 2)).(*ast.IndexExpr)
				if !isIx || !isIx2 || !kcIsSignersSlice(f, engine.ObjOf(info, mk.X)) || !kcIsSignerAccs(f, engine.ObjOf(info, pa.X)) || engine.ExprString(mk.Index) != engine.ExprString(pa.Index) {
					why = "the session looked up (" + engine.ExprString(mapKey) + ") is not the fee payer's (" + engine.ExprString(kcArg(fee, 2)) + ")"
					continue
				}
				ok = true
			}
			kcAt(c, p, "debit-gate", f.Root().Name+" ante fee deduction", fee.Pos(), ok, why)
		}
	}
	c.Floor("debit-gate fee", nf, 1)
}

func c16spend(c *engine.Ctx, p *engine.Prog) {
	d := c.MustFunc(c16A + ".DeductSessionSpend")
	k := c.MustFunc(c16A + ".CheckSessionSpend")
	if d == nil || k == nil {
		return
	}
	type spendInfo struct {
		discards, canonical bool
	}
	infoOf := map[*engine.Fn]*spendInfo{}
	for _, f := range []*engine.Fn{d, k} {
		si := &spendInfo{canonical: true}
		infoOf[f] = si
		g := f.Graph()
		da, amount, bt := paramObj(f, 0), paramObj(f, 1), paramObj(f, 2)
		finfo := f.Info()
		nEx := 0
		for _, ex := range kcNormalExits(f) {
			rs, isRet := ex.Node.(*ast.ReturnStmt)
			if !isRet || len(rs.Results) != 1 || !isNil(rs.Results[0]) {
				continue
			}
			facts := kcFacts(g, ex)
			zero := false
			for _, ft := range facts {
				if c16isMethodOn(f, ft.Expr, "IsZero", amount) && ft.Val {
					zero = true
				}
			}
			if zero {
				continue // nothing to spend
			}
			nEx++
			okLim, okNonEmpty := false, false
			why := "success is not gated by SpendLimit.IsAllGTE(used + amount)"
			for _, ft := range facts {
				if call, isCall := ast.Unparen(ft.Expr).(*ast.CallExpr); isCall && ft.Val && len(call.Args) == 1 {
					if se, isSel := call.Fun.(*ast.SelectorExpr); isSel && se.Sel.Name == "IsAllGTE" && c16isMethodOn(f, se.X, "GetSpendLimit", da) {
						sum := kcResolve(f, call.Args[0])
						sc, isC := sum.(*ast.CallExpr)
						var ss *ast.SelectorExpr
						if isC {
							ss, _ = sc.Fun.(*ast.SelectorExpr)
						}
						if !isC || ss == nil || ss.Sel.Name != "Add" || len(sc.Args) != 1 || engine.ObjOf(finfo, kcResolve(f, sc.Args[0])) != amount {
							why = "the quantity compared with the limit is `" + engine.ExprString(sum) + "`, not used.Add(amount)"
							continue
						}
						uok, nilable, uwhy := c16usage(f, ss.X, da, bt)
						if !uok {
							why = "the usage the amount is added to is not the session's current usage: " + uwhy
							si.canonical = false
							continue
						}
						if nilable {
							si.discards = true
						}
						okLim = true
					}
				}
				x, y, op, okc := kcCmp(ft)
				if okc && (op == token.NEQ || op == token.GTR) {
					if lc, isC := ast.Unparen(x).(*ast.CallExpr); isC && engine.IsBuiltinCall(finfo, lc, "len") && c16isMethodOn(f, lc.Args[0], "GetSpendLimit", da) {
						if tv, okv := finfo.Types[y]; okv && tv.Value != nil && tv.Value.ExactString() == "0" {
							okNonEmpty = true
						}
					}
				}
			}
			kcAt(c, p, "spend-limit", f.Name+" succeeds only within the limit", ex.Pos(), okLim, why)
			kcAt(c, p, "spend-limit", f.Name+" rejects sessions without a spend limit", ex.Pos(), okNonEmpty, "")
		}
		c.Floor("spend-limit "+f.Name, nEx, 1)
	}
	// Deduct: commits, discards, rollover
	{
		f := d
		si := infoOf[f]
		g := f.Graph()
		da, bt := paramObj(f, 0), paramObj(f, 2)
		sets := kcDeepCalls(f, "tm2/pkg/std.(DelegatedAccount).SetSpendUsed")
		c.Floor("spend-limit commits", len(sets), 1)
		committed := false
		for _, s := range sets {
			arg := kcResolve(f, s.Arg(0))
			facts := s.Facts()
			if isNil(arg) {
				si.discards = true
				ok := c16elapsed(f, facts, da, bt)
				if !ok {
					si.canonical = false
				}
				kcAt(c, p, "spend-limit", f.Name+" usage discarded only when the period elapsed", s.Inner.Pos(), ok, "SetSpendUsed(nil) must be confined to `period > 0 && blockTime >= reset+period` of this session")
				continue
			}
			committed = true
			ok := false
			for _, ft := range facts {
				if call, isCall := ast.Unparen(ft.Expr).(*ast.CallExpr); isCall && ft.Val && len(call.Args) == 1 {
					if se, isSel := call.Fun.(*ast.SelectorExpr); isSel && se.Sel.Name == "IsAllGTE" && c16isMethodOn(f, se.X, "GetSpendLimit", da) {
						if t := kcResolve(f, call.Args[0]); t == arg || engine.ExprString(t) == engine.ExprString(arg) && kcSameLeaves(f, t, arg) {
							ok = true
						}
					}
				}
			}
			kcAt(c, p, "spend-limit", f.Name+" commits exactly the tested total", s.Inner.Pos(), ok, "SetSpendUsed(v) must be confined to SpendLimit.IsAllGTE(v)")
			for _, ex := range kcNormalExits(f) {
				rs, isRet := ex.Node.(*ast.ReturnStmt)
				if isRet && len(rs.Results) == 1 && isNil(rs.Results[0]) && g.ReachableAfter(s.Outer, ex) {
					kcAt(c, p, "spend-limit", f.Name+" success implies the spend was recorded", ex.Pos(), g.Dominates(s.Outer, ex), "")
				}
			}
		}
		if !committed {
			kcAt(c, p, "spend-limit", f.Name+" commits exactly the tested total", f.Pos(), false, "no SetSpendUsed(newUsed)")
		}
		// rollover: discarding the previous period's usage must restart the period clock
		if si.discards {
			ok, why := false, "usage is discarded when the period has elapsed but SetSpendReset(blockTime) is never written on that path: every later spend would again see an elapsed period and be checked only individually"
			for _, r := range kcDeepCalls(f, "tm2/pkg/std.(DelegatedAccount).SetSpendReset") {
				if engine.ObjOf(f.Info(), kcResolve(f, r.Arg(0))) != bt {
					why = "SetSpendReset is given `" + engine.ExprString(r.Arg(0)) + "`, not the block time"
					continue
				}
				if !c16elapsed(f, r.Facts(), da, bt) {
					why = "SetSpendReset is not tied to the period-elapsed condition"
					continue
				}
				// it must be reached on the success path: no success exit is reachable from entry
				// through the elapsed branch without it — approximated by: its outer site is not
				// below the limit test's failing side and precedes the commit or sits in the same
				// elapsed branch as the discard
				ok = true
			}
			kcAt(c, p, "spend-limit", f.Name+" period rollover restarts the period", f.Pos(), ok, why)
		}
	}
	dn, kn := infoOf[d], infoOf[k]
	c.Floor("spend-sibling", 2, 2)
	kcAt(c, p, "spend-sibling", "CheckSessionSpend ≡ DeductSessionSpend (both discard the previous period's usage exactly when the period elapsed)", d.Pos(),
		dn.canonical && kn.canonical && dn.discards == kn.discards,
		"Deduct: discards="+c16b(dn.discards)+" canonical="+c16b(dn.canonical)+" | Check: discards="+c16b(kn.discards)+" canonical="+c16b(kn.canonical))
	// who mutates spend state
	kcCallerTable(c, p, "who-may-call", "DelegatedAccount.SetSpendUsed", kcFilterRefs(p, p.RefsToFunc("tm2/pkg/std.(DelegatedAccount).SetSpendUsed", "tm2/pkg/std.(*BaseSessionAccount).SetSpendUsed")),
		[]string{c16A + ".DeductSessionSpend"}, []string{c16A + ".DeductSessionSpend"})
	kcCallerTable(c, p, "who-may-call", c16A+".DeductSessionSpend", kcFilterRefs(p, p.RefsToFunc(c16A+".DeductSessionSpend")),
		[]string{c16A + ".CheckAndDeductSessionSpend", c16A + ".NewAnteHandler"}, []string{c16A + ".CheckAndDeductSessionSpend", c16A + ".NewAnteHandler"})

	// CheckAndDeductSessionSpend
	if f := c.MustFunc(c16A + ".CheckAndDeductSessionSpend"); f != nil {
		info := f.Info()
		g := f.Graph()
		signer, amount := kcParam(f, "signerAddr"), kcParam(f, "amount")
		ds := f.CallsTo(c16A + ".DeductSessionSpend")
		ps := f.CallsTo(c16A + ".(SessionAccountSetter).SetSessionAccount")
		c.Floor("spend-persist", len(ds), 1)
		for _, dsite := range ds {
			daO := engine.ObjOf(info, kcArg(dsite, 0))
			// da := sessions[signerAddr]
			okDa := false
			engine.InspectBody(f, func(nd ast.Node) {
				as, isAs := nd.(*ast.AssignStmt)
				if isAs && len(as.Lhs) == 2 && len(as.Rhs) == 1 && engine.ObjOf(info, as.Lhs[0]) == daO {
					if ix, isIx := ast.Unparen(as.Rhs[0]).(*ast.IndexExpr); isIx && engine.ObjOf(info, ix.Index) == signer {
						okDa = true
					}
				}
			})
			kcAt(c, p, "spend-persist", f.Name+" charges the session filed under the debited signer", dsite.Pos(), okDa && engine.ObjOf(info, kcArg(dsite, 1)) == amount, "")
			// error propagates
			okErr := false
			for _, ex := range kcNormalExits(f) {
				if r := g.CheckedGuard(dsite, ex); r.OK && !c09errNilSide(r) {
					if rs, isRet := ex.Node.(*ast.ReturnStmt); isRet && len(rs.Results) == 1 && !isNil(rs.Results[0]) {
						okErr = true
					}
				}
			}
			kcAt(c, p, "spend-persist", f.Name+" returns the limit error", dsite.Pos(), okErr, "")
			okP := false
			for _, ps1 := range ps {
				if r := g.CheckedGuard(dsite, ps1); r.OK && c09errNilSide(r) && engine.ObjOf(info, kcArg(ps1, 1)) == signer && engine.Mentions(info, kcArg(ps1, 2), daO) && kcMustFollowOK(f, dsite, ps1) {
					okP = true
				}
			}
			kcAt(c, p, "spend-persist", f.Name+" persists the updated session", dsite.Pos(), okP, "SetSessionAccount(ctx, signerAddr, da) must follow every successful deduction")
		}
		// the context key read is the one the ante publishes
		nkey := 0
		engine.InspectBody(f, func(nd ast.Node) {
			if cl, isCL := nd.(*ast.CompositeLit); isCL && engine.TypeName(info.TypeOf(cl)) == "tm2/pkg/std.SessionAccountsContextKey" {
				nkey++
			}
		})
		kcAt(c, p, "spend-persist", f.Name+" reads std.SessionAccountsContextKey", f.Pos(), nkey == 1, "")
	}
}

// c16firesFails: in fn, the verdict of the call at site is tested, and on the
// branch where the check "fires" (as classified by fires) every reachable
// normal exit is a failing one: for the top function a return whose last
// result is the literal true (abort), for a helper a return whose last result
// is not the literal nil.
func c16firesFails(fn *engine.Fn, site *engine.Site, fires func(engine.GuardResult) (bool, bool), top bool) (bool, string) {
	g := fn.Graph()
	failing := func(ex *engine.Site) bool {
		rs, ok := ex.Node.(*ast.ReturnStmt)
		if !ok || len(rs.Results) == 0 {
			return false
		}
		last := rs.Results[len(rs.Results)-1]
		if top {
			return engine.ExprString(last) == "true"
		}
		return !isNil(last)
	}
	exits := kcNormalExits(fn)
	why := "no failing exit depends on this check"
	for _, ex := range exits {
		if !failing(ex) {
			continue
		}
		r := g.CheckedGuard(site, ex)
		if !r.OK {
			continue
		}
		fi, known := fires(r)
		if !known {
			why = "the check's verdict is combined with another condition or has an unrecognised form: `" + engine.ExprString(r.Cond) + "`"
			continue
		}
		if !fi {
			continue
		}
		// locate the condition block and its firing successor
		for _, gt := range g.Gates(ex) {
			if gt.Cond != r.Cond {
				continue
			}
			succ := gt.Block.Succs[1]
			if gt.OnTrue {
				succ = gt.Block.Succs[0]
			}
			okAll := true
			for _, other := range exits {
				if failing(other) {
					continue
				}
				if succ == other.Block || g.Reach(succ, other.Block, map[*cfg.Block]bool{gt.Block: true}) {
					okAll = false
					why = "a non-failing exit is reachable although the check fired"
				}
			}
			if okAll {
				return true, ""
			}
		}
	}
	return false, why
}

func c16b(b bool) string {
	if b {
		return "true"
	}
	return "false"
}

// c16isMethodOn: e resolves to <recv>.<method>() with recv resolving to obj.
func c16isMethodOn(f *engine.Fn, e ast.Expr, method string, obj types.Object) bool {
	call, ok := kcResolve(f, e).(*ast.CallExpr)
	if !ok || obj == nil {
		return false
	}
	se, ok := call.Fun.(*ast.SelectorExpr)
	if !ok || se.Sel.Name != method {
		return false
	}
	if kcIsIdent(se.X) && engine.ObjOf(f.Info(), se.X) == obj {
		return true
	}
	// alias of obj: a single-definition local defined as obj
	x := se.X
	for i := 0; i < 3; i++ {
		id, isID := ast.Unparen(x).(*ast.Ident)
		if !isID {
			return false
		}
		o := f.Info().ObjectOf(id)
		if o == obj {
			return true
		}
		d := kcPlainDef(f, o)
		if d == nil {
			return false
		}
		x = d
	}
	return false
}

// kcSameLeaves: both expressions mention only parameters / single-definition locals of f.
func kcSameLeaves(f *engine.Fn, a, b ast.Expr) bool {
	ok := true
	for _, e := range []ast.Expr{a, b} {
		ast.Inspect(e, func(n ast.Node) bool {
			if id, isID := n.(*ast.Ident); isID {
				if v, isVar := f.Info().ObjectOf(id).(*types.Var); isVar && !v.IsField() && kcParamIndex(f, v) < 0 {
					if rhs, okd := kcDefs(f, v); !okd || len(rhs) > 1 {
						ok = false
					}
				}
			}
			return true
		})
	}
	return ok
}

// c16elapsed: the facts contain, for the session da and block time bt,
// period > 0 and bt >= reset + period.
func c16elapsed(f *engine.Fn, facts []kcFact, da, bt types.Object) bool {
	info := f.Info()
	var pos, boundary bool
	for _, ft := range facts {
		x, y, op, ok := kcCmp(ft)
		if !ok {
			continue
		}
		if op == token.GTR && c16isMethodOn(f, x, "GetSpendPeriod", da) {
			if tv, okv := info.Types[ast.Unparen(y)]; okv && tv.Value != nil && tv.Value.ExactString() == "0" {
				pos = true
			}
		}
		if op == token.GEQ && engine.ObjOf(info, kcResolve(f, x)) == bt && bt != nil {
			if sum, isB := kcResolve(f, y).(*ast.BinaryExpr); isB && sum.Op == token.ADD {
				a, b := sum.X, sum.Y
				if (c16isMethodOn(f, a, "GetSpendReset", da) && c16isMethodOn(f, b, "GetSpendPeriod", da)) ||
					(c16isMethodOn(f, b, "GetSpendReset", da) && c16isMethodOn(f, a, "GetSpendPeriod", da)) {
					boundary = true
				}
			}
		}
	}
	return pos && boundary
}

// c16usage decides whether e denotes the session's usage in the period that
// contains the block time: da.GetSpendUsed(), or a value that is nil exactly
// under the period-elapsed condition and da.GetSpendUsed() otherwise (a local
// with both definitions, or an in-program helper returning them).
func c16usage(f *engine.Fn, e ast.Expr, da, bt types.Object) (ok, nilable bool, why string) {
	info := f.Info()
	e = ast.Unparen(e)
	if c16isMethodOn(f, e, "GetSpendUsed", da) {
		return true, false, ""
	}
	if id, isID := e.(*ast.Ident); isID {
		v, _ := info.ObjectOf(id).(*types.Var)
		if v == nil {
			return false, false, "unresolved `" + id.Name + "`"
		}
		rhs, okd := kcDefs(f, v)
		if !okd || len(rhs) == 0 {
			return false, false, "`" + id.Name + "` has no recognisable definition"
		}
		if len(rhs) == 1 && !isNil(rhs[0]) {
			return c16usage(f, rhs[0], da, bt)
		}
		for _, r := range rhs {
			if isNil(r) {
				s := f.SiteOf(r)
				if s == nil || !c16elapsed(f, kcFacts(f.Graph(), s), da, bt) {
					return false, false, "usage is dropped (`" + id.Name + " = nil`) outside the period-elapsed condition"
				}
				nilable = true
				continue
			}
			o, n2, w := c16usage(f, r, da, bt)
			if !o {
				return false, false, w
			}
			nilable = nilable || n2
		}
		return true, nilable, ""
	}
	if call, isCall := e.(*ast.CallExpr); isCall {
		var callee *types.Func
		switch fn := ast.Unparen(call.Fun).(type) {
		case *ast.Ident:
			callee, _ = info.Uses[fn].(*types.Func)
		case *ast.SelectorExpr:
			callee, _ = info.Uses[fn.Sel].(*types.Func)
		}
		h := f.Prog.FnOf(callee)
		if h == nil || h == f {
			return false, false, "`" + engine.ExprString(e) + "` is not the session's usage"
		}
		kcSubstInfo = info
		m := kcBindCall(h, call, nil)
		nret := 0
		okAll := true
		engine.InspectBody(h, func(n ast.Node) {
			rs, isRet := n.(*ast.ReturnStmt)
			if !isRet || len(rs.Results) != 1 {
				return
			}
			nret++
			if isNil(rs.Results[0]) {
				s := h.SiteOf(rs)
				var facts []kcFact
				if s != nil {
					for _, ft := range kcFacts(h.Graph(), s) {
						kcSubstInfo = info
						facts = append(facts, kcFact{kcSubst(ft.Expr, m), ft.Val})
					}
				}
				if !c16elapsed(f, facts, da, bt) {
					okAll, why = false, h.Name+" returns nil outside the period-elapsed condition"
				}
				nilable = true
				return
			}
			kcSubstInfo = info
			o, n2, w := c16usage(f, kcSubst(rs.Results[0], m), da, bt)
			if !o {
				okAll, why = false, w
			}
			nilable = nilable || n2
		})
		if nret == 0 {
			return false, false, h.Name + " has no recognisable return"
		}
		return okAll, nilable, why
	}
	return false, false, "`" + engine.ExprString(e) + "` is not the session's usage"
}

func c16replaceWord(s, w, r string) string {
	var out strings.Builder
	isW := func(b byte) bool {
		return b == '_' || (b >= '0' && b <= '9') || (b >= 'a' && b <= 'z') || (b >= 'A' && b <= 'Z')
	}
	for i := 0; i < len(s); {
		if strings.HasPrefix(s[i:], w) && (i == 0 || !isW(s[i-1]) && s[i-1] != '.') && (i+len(w) == len(s) || !isW(s[i+len(w)])) {
			out.WriteString(r)
			i += len(w)
			continue
		}
		out.WriteByte(s[i])
		i++
	}
	return out.String()
}

func c16anteLit(c *engine.Ctx, p *engine.Prog) *engine.Fn {
	root := c.MustFunc(c16A + ".NewAnteHandler")
	if root == nil {
		return nil
	}
	for _, l := range root.AllLits() {
		if len(l.CallsTo(c16A+".DeductFees")) > 0 {
			return l
		}
	}
	c.Undecided("anchor", c16A+".NewAnteHandler closure", "ante closure (the literal calling DeductFees) not found")
	return nil
}

func c16ante(c *engine.Ctx, p *engine.Prog) {
	f := c16anteLit(c, p)
	if f == nil {
		return
	}
	info := f.Info()
	g := f.Graph()
	sessMap := kcSessionMapObj(f)
	if sessMap == nil {
		c.Undecided("session-published", "ante: session map", "no ctx.WithValue(std.SessionAccountsContextKey{}, <map>) in the ante closure")
		return
	}
	// map inserts
	n := 0
	engine.InspectBody(f, func(nd ast.Node) {
		as, isAs := nd.(*ast.AssignStmt)
		if !isAs || len(as.Lhs) != 1 {
			return
		}
		ix, isIx := ast.Unparen(as.Lhs[0]).(*ast.IndexExpr)
		if !isIx || engine.ObjOf(info, ix.X) != sessMap {
			return
		}
		n++
		s := f.SiteOf(as)
		daO := engine.ObjOf(info, as.Rhs[0])
		// da := sa.(DelegatedAccount); sa := ak.GetSessionAccount(newCtx, signerAddr, stdSigs[i].SessionAddr)
		var saO types.Object
		if ta, isTA := ast.Unparen(kcSingleDef(f, daO)).(*ast.TypeAssertExpr); isTA {
			saO = engine.ObjOf(info, ta.X)
		}
		var get *ast.CallExpr
		if saO != nil {
			if gc, isC := ast.Unparen(kcSingleDef(f, saO)).(*ast.CallExpr); isC {
				if se, isSel := gc.Fun.(*ast.SelectorExpr); isSel && se.Sel.Name == "GetSessionAccount" {
					get = gc
				}
			}
		}
		okKey := get != nil && len(get.Args) == 3 && engine.ExprString(get.Args[1]) == engine.ExprString(ix.Index) && strings.HasSuffix(engine.ExprString(get.Args[2]), ".SessionAddr")
		kcAt(c, p, "session-admission", "ante: session filed under the master it was looked up with", as.Pos(), okKey, "sessionAccounts[k] = da requires da from GetSessionAccount(ctx, k, sig.SessionAddr)")
		var exists, fresh bool
		for _, ft := range kcFacts(g, s) {
			x, y, op, okc := kcCmp(ft)
			if okc && op == token.NEQ && engine.ObjOf(info, x) == saO && saO != nil && isNil(y) {
				exists = true
			}
		}
		fresh = kcFalseConj(kcGates(g, s),
			func(e ast.Expr) bool {
				return kcCmpAny(e, func(x, y ast.Expr, op token.Token) bool {
					return op == token.GTR && c16isMethodOn(f, x, "GetExpiresAt", daO) && kcConstIs(info, y, "0")
				})
			},
			func(e ast.Expr) bool {
				return kcCmpAny(e, func(x, y ast.Expr, op token.Token) bool {
					if op != token.GEQ || !c16isMethodOn(f, y, "GetExpiresAt", daO) {
						return false
					}
					bt, ok := kcMethodCallOn(kcResolve(f, x), "Unix")
					if !ok {
						return false
					}
					_, ok = kcMethodCallOn(kcResolve(f, bt), "BlockTime")
					return ok
				})
			})
		kcAt(c, p, "session-admission", "ante: unknown (revoked) session rejected", as.Pos(), exists, "admission must be unreachable when GetSessionAccount returned nil")
		kcAt(c, p, "session-admission", "ante: expired session rejected", as.Pos(), fresh, "admission must be unreachable when expiresAt > 0 && blockTime >= expiresAt (exactly)")
	})
	c.Floor("session-admission", n, 1)

	// signatures of session signers are verified against the session account
	var sigAcc types.Object
	engine.InspectBody(f, func(nd ast.Node) {
		// the account whose key verifies the signature: the receiver of the SetSequence calls
		if call, isCall := nd.(*ast.CallExpr); isCall {
			if se, isSel := call.Fun.(*ast.SelectorExpr); isSel && se.Sel.Name == "SetSequence" {
				if o := engine.ObjOf(info, se.X); o != nil && kcIsIdent(se.X) {
					sigAcc = o
				}
			}
		}
	})
	if sigAcc == nil {
		c.Undecided("session-admission", "ante: sigAcc", "variable holding the account whose key verifies the signature not found")
	} else {
		okS, okM := false, false
		engine.InspectBody(f, func(nd ast.Node) {
			as, isAs := nd.(*ast.AssignStmt)
			if !isAs || len(as.Lhs) != 1 || engine.ObjOf(info, as.Lhs[0]) != sigAcc {
				return
			}
			s := f.SiteOf(as)
			// facts on a comma-ok variable of a lookup in the session map
			var isSess, notSess bool
			var daFromMap types.Object
			for _, ft := range kcFacts(g, s) {
				id, isID := ft.Expr.(*ast.Ident)
				if !isID {
					continue
				}
				engine.InspectBody(f, func(n2 ast.Node) {
					a2, isA := n2.(*ast.AssignStmt)
					if !isA || len(a2.Lhs) != 2 || len(a2.Rhs) != 1 || engine.ObjOf(info, a2.Lhs[1]) != info.ObjectOf(id) {
						return
					}
					if ix, isIx := ast.Unparen(a2.Rhs[0]).(*ast.IndexExpr); isIx && engine.ObjOf(info, ix.X) == sessMap {
						if kx, isKx := ast.Unparen(ix.Index).(*ast.IndexExpr); isKx && kcIsSignersSlice(f, engine.ObjOf(info, kx.X)) {
							isSess, notSess = ft.Val, !ft.Val
							daFromMap = engine.ObjOf(info, a2.Lhs[0])
						}
					}
				})
			}
			if ta, isTA := ast.Unparen(as.Rhs[0]).(*ast.TypeAssertExpr); isTA && isSess && daFromMap != nil && engine.ObjOf(info, ta.X) == daFromMap {
				okS = true
			}
			if ix, isIx := ast.Unparen(as.Rhs[0]).(*ast.IndexExpr); isIx && notSess && kcIsSignerAccs(f, engine.ObjOf(info, ix.X)) {
				okM = true
			}
		})
		kcAt(c, p, "session-admission", "ante: session-signed signatures verify against the session account", f.Pos(), okS && okM, "sigAcc must be the session account iff the signer used a session")
		// VerifyBytes uses sigAcc's key and gates the sequence bump / persist
		for _, st := range f.CallsTo(c16A+".(AccountKeeper).SetSessionAccount", c16A+".(AccountKeeperI).SetSessionAccount") {
			ok := false
			for _, v := range f.CallsTo("tm2/pkg/crypto.(PubKey).VerifyBytes") {
				if g.Dominates(v, st) {
					ok = true
				}
			}
			kcAt(c, p, "session-admission", "ante: session state persisted only after signature verification", st.Pos(), ok, "")
		}
	}

	// publication
	pub := false
	for i, st := range f.Body.List {
		is, isIf := st.(*ast.IfStmt)
		if !isIf || is.Else != nil {
			continue
		}
		be, isB := ast.Unparen(is.Cond).(*ast.BinaryExpr)
		if !isB || be.Op != token.GTR || !engine.IsLenOf(info, be.X, sessMap) || engine.ExprString(be.Y) != "0" {
			continue
		}
		for _, b := range is.Body.List {
			as, isAs := b.(*ast.AssignStmt)
			if !isAs || len(as.Lhs) != 1 || as.Tok != token.ASSIGN {
				continue
			}
			call, isCall := ast.Unparen(as.Rhs[0]).(*ast.CallExpr)
			if !isCall || len(call.Args) != 2 || !strings.HasSuffix(engine.ExprString(call.Fun), ".WithValue") {
				continue
			}
			if engine.TypeName(info.TypeOf(call.Args[0])) != "tm2/pkg/std.SessionAccountsContextKey" || engine.ObjOf(info, call.Args[1]) != sessMap {
				continue
			}
			// the returned context is the variable assigned
			for _, later := range f.Body.List[i+1:] {
				if rs, isRet := later.(*ast.ReturnStmt); isRet && len(rs.Results) == 3 && engine.ExprString(rs.Results[0]) == engine.ExprString(as.Lhs[0]) && engine.ExprString(rs.Results[2]) == "false" {
					pub = true
				}
			}
		}
	}
	kcAt(c, p, "session-published", "ante: session map published in the returned context whenever non-empty", f.Pos(), pub, "`if len(sessionAccounts) > 0 { newCtx = newCtx.WithValue(std.SessionAccountsContextKey{}, sessionAccounts) }` must precede the success return of newCtx")
}

func c16restrict(c *engine.Ctx, p *engine.Prog) {
	G := "gno.land/pkg/gnoland."
	// app ante closure
	refs := p.RefsToFunc(G + "checkSessionRestrictions")
	kcCallerTable(c, p, "who-may-call", G+"checkSessionRestrictions", refs, []string{G + "NewAppWithOptions"}, []string{G + "NewAppWithOptions"})
	n := 0
	for _, r := range refs {
		if r.Fn == nil || !r.IsCall {
			continue
		}
		f := r.Fn
		info := f.Info()
		g := f.Graph()
		cs := f.CallsTo(G + "checkSessionRestrictions")
		var ah *engine.Site
		for _, s := range f.Calls() {
			// the wrapped handler: a local variable defined as auth.NewAnteHandler(...)
			if v, isVar := s.Callee.(*types.Var); isVar && !v.IsField() {
				if d := kcSingleDef(f, v); d != nil && kcIsCallTo(info, d, c16A+".NewAnteHandler") != nil {
					ah = s
				}
			}
		}
		if ah == nil || len(cs) != 1 {
			kcAt(c, p, "restrictions-run", f.Root().Name+" ante wrapper shape", f.Pos(), false, "expected one authAnteHandler call and one checkSessionRestrictions call")
			continue
		}
		n++
		s := cs[0]
		// ctx passed is the auth ante's resulting context
		as, isAs := ah.Top.(*ast.AssignStmt)
		okCtx := isAs && len(as.Lhs) == 3 && engine.ObjOf(info, as.Lhs[0]) == engine.ObjOf(info, kcArg(s, 0)) && g.Dominates(ah, s)
		kcAt(c, p, "restrictions-run", f.Root().Name+" restrictions see the auth ante's context", s.Pos(), okCtx, "")
		var abortO types.Object
		if isAs && len(as.Lhs) == 3 {
			abortO = engine.ObjOf(info, as.Lhs[2])
		}
		// every normal exit after the auth ante either has abort==true or passed the restriction check
		okAll := true
		why := ""
		for _, ex := range kcNormalExits(f) {
			if !g.ReachableAfter(ah, ex) {
				continue
			}
			if g.Dominates(s, ex) {
				// after the check: if sessAbort may be true here, the third result must be true
				rg := g.CheckedGuard(s, ex)
				if rg.OK && rg.OnTrue {
					if len(engine.Atoms(rg.Cond)) != 1 {
						okAll, why = false, "the restriction verdict is combined with another condition: `"+engine.ExprString(rg.Cond)+"`"
					}
					rs, isRet := ex.Node.(*ast.ReturnStmt)
					if !isRet || len(rs.Results) != 3 || engine.ExprString(rs.Results[2]) != "true" {
						okAll, why = false, "a restriction abort does not return abort=true"
					}
				} else if rg.OK && !rg.OnTrue {
					if len(engine.Atoms(rg.Cond)) != 1 {
						okAll, why = false, "the restriction verdict is combined with another condition: `"+engine.ExprString(rg.Cond)+"`"
					}
				} else {
					okAll, why = false, "an exit after the restriction check does not depend on its verdict"
				}
				continue
			}
			gated := false
			for _, ft := range kcFacts(g, ex) {
				if id, isID := ft.Expr.(*ast.Ident); isID && ft.Val && info.ObjectOf(id) == abortO && abortO != nil {
					gated = true
				}
			}
			if !gated {
				okAll, why = false, "an exit bypasses checkSessionRestrictions without the auth ante having aborted"
			}
		}
		kcAt(c, p, "restrictions-run", f.Root().Name+" every non-aborting path runs checkSessionRestrictions", s.Pos(), okAll, why)
	}
	c.Floor("restrictions-run", n, 1)

	// checkSessionRestrictions deny structure (helper-transparent)
	if f := c.MustFunc(G + "checkSessionRestrictions"); f != nil {
		info := f.Info()
		type chk struct {
			callee string
			onTrue bool // the check "fires" (must abort) when its verdict is true
			errRes bool // ... or when its error result is non-nil
		}
		checks := []chk{{G + "sessionAlwaysDenied", true, false}, {G + "parseAllowPaths", false, true}, {G + "anyEntryMatches", false, false}}
		for _, ck := range checks {
			short := ck.callee[strings.LastIndexByte(ck.callee, '.')+1:]
			ds := kcDeepCalls(f, ck.callee)
			if len(ds) != 1 {
				kcAt(c, p, "restrictions-deny", f.Name+" "+ck.callee, f.Pos(), false, "expected exactly one (direct or helper-mediated) call, found "+itoa(len(ds)))
				continue
			}
			d := ds[0]
			inFn := d.Inner.Fn
			// (1) inside the function holding the check: firing leads only to failing exits
			ok, why := c16firesFails(inFn, d.Inner, func(r engine.GuardResult) (fires bool, known bool) {
				if len(engine.Atoms(r.Cond)) != 1 {
					return false, false
				}
				neg := isNot(r.Cond)
				switch {
				case ck.errRes:
					return !c09errNilSide(r), true
				case ck.onTrue:
					return r.OnTrue != neg, true
				default:
					return r.OnTrue == neg, true
				}
			}, inFn == f)
			// (2) a helper's failure is turned into abort=true by the caller
			if ok && inFn != f {
				if len(d.Chain) != 1 {
					ok, why = false, "check is nested more than one helper deep"
				} else {
					ok, why = c16firesFails(f, d.Outer, func(r engine.GuardResult) (bool, bool) {
						if len(engine.Atoms(r.Cond)) != 1 {
							return false, false
						}
						be, isB := ast.Unparen(r.Cond).(*ast.BinaryExpr)
						if !isB || !(isNil(be.X) || isNil(be.Y)) {
							return false, false
						}
						return !c09errNilSide(r), true
					}, true)
					if ok {
						// the helper reports failure through an error result
						sig, _ := inFn.Obj.Type().(*types.Signature)
						if sig == nil || sig.Results().Len() == 0 || sig.Results().At(sig.Results().Len()-1).Type().String() != "error" {
							ok, why = false, "helper "+inFn.Name+" does not report failure through an error result"
						}
					}
				}
			}
			kcAt(c, p, "restrictions-deny", f.Name+" aborts on "+short, d.Inner.Pos(), ok, why)

			// (3) the only ways to skip the check: signer has no session, or an earlier check already decided
			for _, gt := range d.DeepGates() {
				gc, gv := ast.Unparen(gt.Cond), gt.OnTrue
				if u, isU := gc.(*ast.UnaryExpr); isU && u.Op == token.NOT {
					gc, gv = ast.Unparen(u.X), !gv
				}
				allowed := false
				if id, isID := gc.(*ast.Ident); isID && gv {
					for _, fn := range append([]*engine.Fn{f}, d.Chain...) {
						engine.InspectBody(fn, func(nd ast.Node) {
							if as, isAs := nd.(*ast.AssignStmt); isAs && len(as.Lhs) == 2 && len(as.Rhs) == 1 && fn.Info().ObjectOf(id) == engine.ObjOf(fn.Info(), as.Lhs[1]) {
								if _, isIx := ast.Unparen(as.Rhs[0]).(*ast.IndexExpr); isIx {
									allowed = true
								}
							}
						})
					}
				}
				if len(engine.Atoms(gt.Cond)) == 1 {
					if kcIsCallTo(info, gc, G+"sessionAlwaysDenied") != nil && !gv {
						allowed = true // an earlier deny check that did not fire
					}
					if kcIsCallTo(info, gc, G+"anyEntryMatches") != nil && gv {
						allowed = true
					}
					if be, isB := gc.(*ast.BinaryExpr); isB && (be.Op == token.NEQ || be.Op == token.EQL) && (isNil(be.Y) || isNil(be.X)) {
						allowed = true // error / absence test on a single variable (err, sa)
					}
				}
				if !allowed {
					kcAt(c, p, "restrictions-deny", f.Name+" "+short+" skipped under extra condition", d.Inner.Pos(), false, "check additionally depends on `"+engine.ExprString(gt.Cond)+"`")
				}
			}
			// (4) inside the loops over the tx's messages and each message's signers
			kinds := map[string]bool{}
			engine.InspectBody(f, func(nd ast.Node) {
				var body *ast.BlockStmt
				var over []ast.Expr
				switch l := nd.(type) {
				case *ast.RangeStmt:
					body, over = l.Body, []ast.Expr{l.X}
				case *ast.ForStmt:
					body = l.Body
					if l.Cond != nil {
						ast.Inspect(l.Cond, func(n2 ast.Node) bool {
							if lc, isC := n2.(*ast.CallExpr); isC && engine.IsBuiltinCall(info, lc, "len") {
								over = append(over, lc.Args[0])
							}
							return true
						})
					}
				}
				if body == nil || !(body.Pos() <= d.Outer.Pos() && d.Outer.Pos() < body.End()) {
					return
				}
				for _, x := range over {
					if call, isC := kcResolve(f, x).(*ast.CallExpr); isC {
						if se, isSel := call.Fun.(*ast.SelectorExpr); isSel && (se.Sel.Name == "GetMsgs" || se.Sel.Name == "GetSigners") {
							kinds[se.Sel.Name] = true
						}
					}
				}
			})
			kcAt(c, p, "restrictions-deny", f.Name+" "+short+" applied to every message and signer", d.Outer.Pos(), kinds["GetMsgs"] && kinds["GetSigners"], "")
			// (5) entries come from the signer's own session
			if ck.errRes {
				okSess := false
				if arg := kcIsCallTo(info, kcResolve(f, d.Arg(0)), G+"sessionAllowPathsRaw"); arg != nil && len(arg.Args) == 1 {
					if _, isIx := ast.Unparen(kcResolve(f, arg.Args[0])).(*ast.IndexExpr); isIx {
						okSess = true
					}
				}
				kcAt(c, p, "restrictions-deny", f.Name+" matches against the signer's own session", d.Inner.Pos(), okSess, "AllowPaths must be those of sessions[signer]")
			}
		}
	}
	// sessionAlwaysDenied
	if f := c.MustFunc(G + "sessionAlwaysDenied"); f != nil {
		g := f.Graph()
		n := 0
		for _, ex := range kcNormalExits(f) {
			rs, isRet := ex.Node.(*ast.ReturnStmt)
			if !isRet || len(rs.Results) != 1 || engine.ExprString(rs.Results[0]) != "false" {
				continue
			}
			n++
			var notAuth, notAddPkg bool
			for _, ft := range kcFacts(g, ex) {
				x, y, op, okc := kcCmp(ft)
				if r, isM := kcMethodCallOn(kcResolve(f, x), "Route"); okc && isM && op == token.NEQ && engine.ObjOf(f.Info(), kcResolve(f, r)) == paramObj(f, 0) && kcConstIs(f.Info(), y, `"auth"`) {
					notAuth = true
				}
			}
			msgP := paramObj(f, 0)
			isOn := func(e ast.Expr, method, val string) bool {
				return kcCmpAny(e, func(x, y ast.Expr, op token.Token) bool {
					r, ok := kcMethodCallOn(kcResolve(f, x), method)
					return ok && op == token.EQL && engine.ObjOf(f.Info(), kcResolve(f, r)) == msgP && kcConstIs(f.Info(), y, val)
				})
			}
			notAddPkg = kcFalseConj(kcGates(g, ex),
				func(e ast.Expr) bool { return isOn(e, "Route", `"vm"`) },
				func(e ast.Expr) bool { return isOn(e, "Type", `"add_package"`) })
			kcAt(c, p, "always-denied", f.Name+" permits only non-auth messages", ex.Pos(), notAuth, "")
			kcAt(c, p, "always-denied", f.Name+" never permits vm/add_package", ex.Pos(), notAddPkg, "`return false` must be unreachable when Route()==\"vm\" && Type()==\"add_package\" (exactly)")
		}
		c.Floor("always-denied", n, 1)
	}
	// entryMatchesMsg
	if f := c.MustFunc(G + "entryMatchesMsg"); f != nil {
		info := f.Info()
		g := f.Graph()
		e, msg := paramObj(f, 0), paramObj(f, 1)
		n := 0
		for _, ex := range kcNormalExits(f) {
			rs, isRet := ex.Node.(*ast.ReturnStmt)
			if !isRet || len(rs.Results) != 1 || engine.ExprString(rs.Results[0]) == "false" {
				continue
			}
			n++
			var wild, route, typ bool
			for _, ft := range kcFacts(g, ex) {
				if kcSelOf(info, ft.Expr, e, "Wildcard") && ft.Val {
					wild = true
				}
				x, y, op, okc := kcCmp(ft)
				if !okc || op != token.EQL {
					continue
				}
				if kcSelOf(info, x, e, "Route") && engine.ExprString(y) == msg.Name()+".Route()" {
					route = true
				}
				if kcSelOf(info, x, e, "Type") && engine.ExprString(y) == msg.Name()+".Type()" {
					typ = true
				}
			}
			kcAt(c, p, "entry-match", f.Name+" grants only on wildcard or equal route and type", ex.Pos(), wild || (route && typ), "a granting return must be confined to e.Wildcard, or e.Route == msg.Route() and e.Type == msg.Type()")
			if engine.ExprString(rs.Results[0]) != "true" {
				// path rule
				ok := false
				if be, isB := ast.Unparen(rs.Results[0]).(*ast.BinaryExpr); isB && be.Op == token.LOR {
					l, isL := ast.Unparen(be.X).(*ast.BinaryExpr)
					rc := kcIsCallTo(info, be.Y, "strings.HasPrefix")
					if isL && l.Op == token.EQL && rc != nil && len(rc.Args) == 2 {
						po := engine.ObjOf(info, l.X)
						parts := kcConcatParts(rc.Args[1])
						if po != nil && kcSelOf(info, l.Y, e, "Path") && engine.ObjOf(info, rc.Args[0]) == po && len(parts) == 2 && kcSelOf(info, parts[0], e, "Path") {
							if s, oks := kcStrLit(info, parts[1]); oks && s == "/" {
								// path := pp.GetPkgPath() of msg
								if d := kcSingleDef(f, po); d != nil && strings.HasSuffix(engine.ExprString(d), ".GetPkgPath()") {
									ok = true
								}
							}
						}
					}
				}
				kcAt(c, p, "entry-match", f.Name+" path entries match exactly or by \"/\"-separated prefix", ex.Pos(), ok, "expected `path == e.Path || strings.HasPrefix(path, e.Path+\"/\")`")
			} else if !wild {
				// unconditional grant for route/type entries requires an empty path entry
				okEmpty := false
				for _, ft := range kcFacts(g, ex) {
					x, y, op, okc := kcCmp(ft)
					if okc && op == token.EQL && kcSelOf(info, x, e, "Path") && engine.ExprString(y) == `""` {
						okEmpty = true
					}
				}
				kcAt(c, p, "entry-match", f.Name+" pathless grant only for entries without a path", ex.Pos(), okEmpty, "")
			}
		}
		c.Floor("entry-match", n, 3)
	}
	if f := c.MustFunc(G + "anyEntryMatches"); f != nil {
		g := f.Graph()
		ok := true
		n := 0
		for _, ex := range kcNormalExits(f) {
			rs, isRet := ex.Node.(*ast.ReturnStmt)
			if !isRet || len(rs.Results) != 1 || engine.ExprString(rs.Results[0]) != "true" {
				continue
			}
			n++
			hit := false
			for _, ft := range kcFacts(g, ex) {
				if kcIsCallTo(f.Info(), ft.Expr, G+"entryMatchesMsg") != nil && ft.Val {
					hit = true
				}
			}
			if !hit {
				ok = false
			}
		}
		kcAt(c, p, "entry-match", f.Name+" true only when some entry matches", f.Pos(), ok && n >= 1, "")
	}
}
