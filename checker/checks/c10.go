package checks

import (
	"go/ast"
	"go/constant"
	"go/token"
	"go/types"
	"strconv"
	"strings"

	"gnoverif/engine"
)

// C10 — gas metering is sound and consistent: every unit of VM work passes a
// charge, the meters cannot be escaped, and what is reported is bounded.
func init() {
	register("C10", c10)
	meta("C10", Meta{
		Text: "Decides structural necessary conditions of gas soundness: (1) every case of the op dispatch switch in Machine.runOnce charges a positive constant through m.incrCPU before any other work, or panics, or delegates to a doOp* handler computed to charge m.incrCPU(const >= 1) on all its normal exits (today doOpPrecall, doOpAdd/Sub/Mul/Quo, doOpSelector, doOpConvert, doOpInc/Dec) or to the two native-body handlers that charge through chargeNativeGas; unknown ops panic; all OpCPU* constants and GasFactorCPU are >= 1; incrCPU forwards to GasMeter.ConsumeGas whenever a meter is installed; (2) every Allocator.New* constructor passes an Allocate*/New* call on every normal exit, every Allocate* wrapper reaches Allocate, and Allocate adds the size to alloc.bytes, panics above maxBytes and charges the gas meter on every normal exit; (3) basicGasMeter.ConsumeGas rejects negative amounts, adds with overflow.Add and panics with OutOfGasError whenever consumed > limit, IsOutOfGas/IsPastLimit compare consumed with limit; (4) cache store Get/Set/Delete charge before the parent read resp. before recording the write when a gas context is present, and the deduplication refund equals the recorded previous charge; (5) the ante handler installs SetGasMeter(ctx, tx.Fee.GasWanted) before any metered work and never hands the unmetered context to later calls (frozen exemption: the single FeeCollectorAddress params read); SetGasMeter yields an infinite meter only for height 0 / the replay key; (6) runTx refuses a deliver tx when the block meter is out of gas before running ante or msgs, charges the tx's GasConsumedToLimit to the block meter on every exit; (7) VALUE RULE: the GasUsed reported for an out-of-gas tx is clamped to the limit. Level 'other'.",
		Note:      "Not covered: that per-element work inside handlers is charged proportionally; equality of charges across runs and cache states (C01); termination proofs; gas of native bodies beyond the presence of a calibrated entry. Known deviation: rule gasused-clamped fails on runTx's out-of-gas recovery (GasUsed taken from GasConsumed(), which exceeds GasWanted); pinned by TestTxGasLimits.",
		Technique: "switch-clause exhaustiveness with per-clause dominance, all-exits-pass reachability on go/cfg, constant evaluation via go/types, value-origin of the reported GasUsed",
		Ref:       "DESIGN.md §2 C10",
	})
	const gl = "gnovm/pkg/gnolang/"
	mutants("C10",
		Mutant{"op-charge-dropped", gl + "machine.go", "case OpIfCond:\n\t\t\tm.incrCPU(OpCPUIfCond)\n", "case OpIfCond:\n", "op-metered OpIfCond"},
		Mutant{"op-charge-after-handler", gl + "machine.go", "m.incrCPU(OpCPUForLoop)\n\t\t\tm.doOpExec(op)", "m.doOpExec(op)\n\t\t\tm.incrCPU(OpCPUForLoop)", "op-metered OpForLoop"},
		Mutant{"op-cost-zero", gl + "machine.go", "OpCPUIfCond              = 87 ", "OpCPUIfCond              = 0 ", "op-cost"},
		Mutant{"precall-bound-unmetered", gl + "op_call.go", "case *BoundMethodValue:\n\t\tm.incrCPU(OpCPUPrecallBoundMethod)\n", "case *BoundMethodValue:\n", "self-charging gnovm/pkg/gnolang.(*Machine).doOpPrecall"},
		Mutant{"native-missing-entry-silent", gl + "native_gas.go", "if m.GasMeter == nil {\n\t\t\t// Test/no-meter Machine", "if m.GasMeter == nil || fv.NativePkg != \"\" {\n\t\t\t// Test/no-meter Machine", "self-charging gnovm/pkg/gnolang.(*Machine).chargeNativeGas"},
		Mutant{"alloc-new-unaccounted", gl + "alloc.go", "func (alloc *Allocator) NewMap(t Type) *MapValue {\n\talloc.AllocateMap()\n", "func (alloc *Allocator) NewMap(t Type) *MapValue {\n", "alloc-accounted gnovm/pkg/gnolang.(*Allocator).NewMap"},
		Mutant{"alloc-gas-skipped-after-gc", gl + "alloc.go", "\t\t\t// retry after GC\n\t\t\talloc.bytes += size\n\t\t\tif alloc.bytes > alloc.maxBytes {\n\t\t\t\tpanic(\"allocation limit exceeded\")\n\t\t\t}\n", "\t\t\t// retry after GC\n\t\t\talloc.bytes += size\n\t\t\tif alloc.bytes > alloc.maxBytes {\n\t\t\t\tpanic(\"allocation limit exceeded\")\n\t\t\t}\n\t\t\treturn\n", "alloc-charge"},
		Mutant{"meter-limit-off-by-one", "tm2/pkg/store/types/gas.go", "g.totalCharge += amount\n\tif consumed > g.limit {", "g.totalCharge += amount\n\tif consumed > g.limit+1 {", "meter-limit"},
		Mutant{"meter-negative-accepted", "tm2/pkg/store/types/gas.go", "func (g *basicGasMeter) ConsumeGas(amount Gas, descriptor string) {\n\tif amount < 0 {", "func (g *basicGasMeter) ConsumeGas(amount Gas, descriptor string) {\n\tif amount < 0 && descriptor == \"\" {", "meter-negative"},
		Mutant{"cache-read-before-charge", "tm2/pkg/store/cache/store.go", "\t\t\t\tgctx.WillGet() // flat ReadCostFlat (non-depth store)\n\t\t\t\tgas = gctx.Config.ReadCostFlat\n\t\t\t}\n\t\t\tvalue = store.parent.Get(nil, key)", "\t\t\t\tgas = gctx.Config.ReadCostFlat\n\t\t\t}\n\t\t\tvalue = store.parent.Get(nil, key)", "store-charge tm2/pkg/store/cache.(*cacheStore).Get"},
		Mutant{"cache-refund-not-recorded-charge", "tm2/pkg/store/cache/store.go", "gas = overflow.Addp(rdGas, wdGas)\n\t\t\tgctx.ConsumeGas(gas, \"DepthDelete\")", "gas = overflow.Addp(rdGas, wdGas)\n\t\t\tgctx.ConsumeGas(rdGas, \"DepthDelete\")", "store-refund-pairing tm2/pkg/store/cache.(*cacheStore).Delete"},
		Mutant{"ante-uses-unmetered-ctx", "tm2/pkg/sdk/auth/ante.go", "signerAccs[i], res = GetSignerAcc(newCtx, ak, signerAddr)", "signerAccs[i], res = GetSignerAcc(ctx, ak, signerAddr)", "ante-metered"},
		Mutant{"setgasmeter-always-infinite-in-check", "tm2/pkg/sdk/auth/ante.go", "if ctx.BlockHeight() == 0 {\n\t\treturn ctx.WithGasMeter(store.NewInfiniteGasMeter())", "if ctx.BlockHeight() == 0 || ctx.IsCheckTx() {\n\t\treturn ctx.WithGasMeter(store.NewInfiniteGasMeter())", "setgasmeter"},
		Mutant{"block-gas-check-after-ante", "tm2/pkg/sdk/baseapp.go", "if mode == RunTxModeDeliver && ctx.BlockGasMeter().IsOutOfGas() {", "if mode == RunTxModeDeliver && ctx.BlockGasMeter().IsOutOfGas() && len(txBytes) == 0 {", "block-gas"},
	)
}

func c10(c *engine.Ctx) {
	c.Explain = "Decides necessary structural conditions of gas soundness: per-op CPU charge before work in Machine.runOnce (every case, unknown ops panic, costs >= 1), self-charging handlers charge on all normal exits, allocator constructors account and charge on all exits with a hard byte cap, basicGasMeter.ConsumeGas is overflow-checked/non-negative/panics past the limit, cache-store I/O is charged before the parent is touched and dedup refunds equal the recorded charge, the ante handler installs the GasWanted meter before metered work, runTx refuses txs once the block meter is exhausted and charges GasConsumedToLimit to the block, and (value rule) the GasUsed reported for an out-of-gas tx is clamped to the limit. Not covered: proportionality of per-element charges, run-to-run equality of charges (C01), termination."
	p := c.Load("gnovm/pkg/gnolang", "tm2/pkg/store/types", "tm2/pkg/store/cache", "tm2/pkg/sdk", "tm2/pkg/sdk/auth")
	if p == nil {
		return
	}
	gbC10Ops(c, p)
	gbC10Alloc(c, p)
	gbC10Meter(c, p)
	gbC10CacheStore(c, p)
	gbC10Ante(c, p)
	gbC10RunTx(c, p)
}

const gbIncr = gbM + "incrCPU"

// gbPosConstArg: call's i-th argument is a compile-time integer constant >= 1.
func gbPosConstArg(info *types.Info, call *ast.CallExpr, i int) bool {
	if len(call.Args) <= i {
		return false
	}
	if v, ok := gbConstInt(info, call.Args[i]); ok {
		return v >= 1
	}
	// base + (non-negative per-N term): one operand of a top-level sum is a constant >= 1
	if bx, ok := ast.Unparen(call.Args[i]).(*ast.BinaryExpr); ok && bx.Op == token.ADD {
		for _, side := range []ast.Expr{bx.X, bx.Y} {
			if v, ok := gbConstInt(info, side); ok && v >= 1 {
				return true
			}
		}
	}
	return false
}

// gbNormalExits: live blocks that leave the function normally (explicit return or
// falling off the end) — i.e. no successors and not ending in a no-return call.
func gbNormalExits(f *engine.Fn) []*cfgBlock {
	g := f.Graph()
	var out []*cfgBlock
	for _, b := range g.CFG.Blocks {
		if !b.Live || len(b.Succs) != 0 {
			continue
		}
		if len(b.Nodes) > 0 {
			if es, ok := b.Nodes[len(b.Nodes)-1].(*ast.ExprStmt); ok {
				if call, ok := es.X.(*ast.CallExpr); ok && !f.Prog.MayReturn(f.Info(), call) {
					continue
				}
			}
		}
		out = append(out, b)
	}
	return out
}

// gbExitWithout returns a normal exit block reachable from entry without
// executing any of the given sites (nil if every normal exit passes one).
// allow(b) may bless an exit block (e.g. gated by "no meter installed").
func gbExitWithout(f *engine.Fn, sites []*engine.Site, allow func(b *cfgBlock) bool) *cfgBlock {
	g := f.Graph()
	avoid := map[*cfgBlock]bool{}
	for _, s := range sites {
		if !s.Deferred && !s.InGo {
			avoid[s.Block] = true
		}
	}
	if len(g.CFG.Blocks) == 0 {
		return nil
	}
	entry := g.CFG.Blocks[0]
	if avoid[entry] {
		return nil
	}
	for _, ex := range gbNormalExits(f) {
		if avoid[ex] {
			continue
		}
		if g.Reach(entry, ex, avoid) {
			if allow != nil && allow(ex) {
				continue
			}
			return ex
		}
	}
	return nil
}

func gbBlockPos(f *engine.Fn, b *cfgBlock) string {
	if b == nil {
		return "-"
	}
	if len(b.Nodes) > 0 {
		return f.Prog.Pos(b.Nodes[len(b.Nodes)-1].Pos())
	}
	return f.Prog.Pos(f.Body.End())
}

// ---------- (1) ops ----------
func gbC10Ops(c *engine.Ctx, p *engine.Prog) {
	// a handler is self-charging when every normal exit of it passes
	// m.incrCPU(const >= 1 [+ per-N]) — computed, and reported once per handler.
	nativeHandlers := map[string]bool{gbM + "doOpCallNativeBody": true, gbM + "doOpCallDeferNativeBody": true}
	selfMemo := map[string]bool{}
	selfCharging := func(name string) bool {
		if nativeHandlers[name] {
			return true // decided below through chargeNativeGas
		}
		if v, ok := selfMemo[name]; ok {
			return v
		}
		h := p.Func(name)
		if h == nil || !strings.HasPrefix(name, gbM+"doOp") {
			selfMemo[name] = false
			return false
		}
		var charges []*engine.Site
		for _, s := range h.CallsTo(gbIncr) {
			if gbPosConstArg(h.Info(), s.Call, 0) {
				charges = append(charges, s)
			}
		}
		ex := gbExitWithout(h, charges, nil)
		ok := ex == nil && len(charges) > 0
		selfMemo[name] = ok
		c.Check("self-charging", h.Name, h.Pos(), ok, "a handler dispatched without a charge must pass m.incrCPU(const >= 1) on every normal exit; uncharged exit near "+gbBlockPos(h, ex))
		return ok
	}
	ignorable := func(name string) bool {
		return strings.HasPrefix(name, "gnovm/pkg/benchops.") || name == gbM+"Debug"
	}
	f := c.MustFunc(gbM + "runOnce")
	if f != nil {
		info := f.Info()
		g := f.Graph()
		var sw *engine.SwitchInfo
		for _, s := range f.Switches() {
			if s.Consts != nil && s.Tag != nil {
				if t := info.TypeOf(s.Tag); t != nil && engine.TypeName(t) == "gnovm/pkg/gnolang.Op" {
					sw = s
				}
			}
		}
		if sw == nil {
			c.Undecided("op-metered", f.Name, "no switch over a value of type Op")
		} else {
			n := 0
			for _, name := range engine.SortedKeys(sw.Consts) {
				cc := sw.Consts[name]
				n++
				var sites []*engine.Site
				for _, s := range f.Calls() {
					if cc.Pos() <= s.Pos() && s.Pos() < cc.End() && !ignorable(s.CalleeName()) {
						sites = append(sites, s)
					}
				}
				ok, why := false, "case neither charges m.incrCPU(const >= 1) before all other work, nor panics, nor delegates to a self-charging handler"
				switch {
				case len(cc.Body) == 0:
					why = "empty case: the op is executed for free"
				case f.ClausePanics(cc):
					ok, why = true, "case panics (op not supported)"
				default:
					var charge *engine.Site
					for _, s := range sites {
						if s.CalleeName() == gbIncr && gbPosConstArg(info, s.Call, 0) {
							if charge == nil || g.Dominates(s, charge) {
								charge = s
							}
						}
					}
					if charge != nil {
						ok, why = true, "m.incrCPU("+engine.ExprString(charge.Call.Args[0])+") precedes all other work of the case"
						for _, s := range sites {
							if s != charge && !g.Dominates(charge, s) {
								ok, why = false, "`"+s.CalleeName()+"` runs before (or without) the charge"
							}
						}
					} else {
						// delegation: every non-ignorable call is a self-charging handler
						all := len(sites) > 0
						for _, s := range sites {
							if !selfCharging(s.CalleeName()) {
								all = false
							}
						}
						if all {
							ok, why = true, "delegates to self-charging handler "+sites[0].CalleeName()
						}
					}
				}
				c.Check("op-metered", name, cc.Pos(), ok, why)
			}
			c.Floor("op-metered", n, 95)
			c.Check("op-metered", "default", sw.Stmt.Pos(), sw.HasDefault && f.ClausePanics(sw.Default), "ops without a case must panic (never run unmetered)")
		}
	}
	// self-charging handlers
	c.Floor("self-charging handlers", len(selfMemo), 9)
	for _, nm := range []string{"doOpCallNativeBody", "doOpCallDeferNativeBody"} {
		h := c.MustFunc(gbM + nm)
		if h == nil {
			continue
		}
		g := h.Graph()
		info := h.Info()
		charges := h.CallsTo(gbM + "chargeNativeGas")
		n := 0
		for _, s := range h.Calls() {
			sel, ok := ast.Unparen(s.Call.Fun).(*ast.SelectorExpr)
			if !ok || sel.Sel.Name != "nativeBody" {
				continue
			}
			n++
			ok2, why := false, "the native body runs without a dominating chargeNativeGas on the same function value"
			for _, ch := range charges {
				if g.Dominates(ch, s) && len(ch.Call.Args) == 1 && engine.ObjOf(info, ch.Call.Args[0]) != nil && engine.ObjOf(info, ch.Call.Args[0]) == engine.ObjOf(info, sel.X) {
					ok2, why = true, "chargeNativeGas(fv) dominates fv.nativeBody(m)"
				}
			}
			c.Check("self-charging", h.Name, s.Pos(), ok2, why)
		}
		c.Floor("self-charging "+nm, n, 1)
	}
	if h := c.MustFunc(gbM + "chargeNativeGas"); h != nil {
		g := h.Graph()
		charges := h.CallsTo(gbIncr)
		// exits without a charge are allowed only under `m.GasMeter == nil` as the sole condition
		ex := gbExitWithout(h, charges, func(b *cfgBlock) bool {
			if len(b.Nodes) == 0 {
				return false
			}
			st := h.SiteOf(b.Nodes[len(b.Nodes)-1])
			if st == nil {
				return false
			}
			for _, gt := range g.Gates(st) {
				if bx, ok := ast.Unparen(gt.Cond).(*ast.BinaryExpr); ok && gt.OnTrue && bx.Op == token.EQL && isNil(bx.Y) {
					if sel, ok := ast.Unparen(bx.X).(*ast.SelectorExpr); ok && sel.Sel.Name == "GasMeter" {
						return true
					}
				}
			}
			return false
		})
		c.Check("self-charging", h.Name, h.Pos(), ex == nil && len(charges) >= 2, "every normal exit must pass m.incrCPU unless no gas meter is installed (a native without a calibrated entry must panic); uncharged exit near "+gbBlockPos(h, ex))
		// the flat uverse charge is a positive constant
		okFlat := false
		for _, s := range charges {
			if gbPosConstArg(h.Info(), s.Call, 0) {
				okFlat = true
			}
		}
		c.Check("self-charging", h.Name+" flat uverse charge", h.Pos(), okFlat, "uverse natives are charged a positive flat constant")
	}
	// incrCPU forwards to the meter
	if h := c.MustFunc(gbIncr); h != nil {
		g := h.Graph()
		info := h.Info()
		cons := h.CallsTo("tm2/pkg/store/types.(GasMeter).ConsumeGas")
		ok, why := false, "no GasMeter.ConsumeGas call"
		for _, s := range cons {
			ok, why = true, "ConsumeGas(cycles*GasFactorCPU) whenever m.GasMeter != nil"
			gates := g.Gates(s)
			for _, gt := range gates {
				bx, isB := ast.Unparen(gt.Cond).(*ast.BinaryExpr)
				if !(isB && gt.OnTrue && bx.Op == token.NEQ && isNil(bx.Y) && engine.MentionsName(bx.X, "GasMeter")) {
					ok, why = false, "charge additionally depends on `"+engine.ExprString(gt.Cond)+"`"
				}
			}
			// amount derives from the cycles parameter through overflow.Mulp
			d := gbCollectDefs(h)
			amt := false
			if len(s.Call.Args) == 2 {
				var visit func(e ast.Expr)
				seen := map[types.Object]bool{}
				visit = func(e ast.Expr) {
					ast.Inspect(e, func(n ast.Node) bool {
						if id, isId := n.(*ast.Ident); isId {
							o := info.ObjectOf(id)
							if o == paramObj(h, 0) {
								amt = true
							}
							if o != nil && !seen[o] {
								seen[o] = true
								for _, r := range d.defs[o] {
									visit(r)
								}
							}
						}
						return true
					})
				}
				visit(s.Call.Args[0])
			}
			if !amt {
				ok, why = false, "the charged amount does not depend on the cycles argument"
			}
		}
		c.Check("op-cost", h.Name+" forwards to GasMeter", h.Pos(), ok, why)
	}
	// constants
	pk := p.Pkg("gnovm/pkg/gnolang")
	if pk != nil {
		n := 0
		sc := pk.Types.Scope()
		for _, name := range sc.Names() {
			k, ok := sc.Lookup(name).(*types.Const)
			if !ok || !(strings.HasPrefix(name, "OpCPU") || name == "GasFactorCPU") {
				continue
			}
			v := constant.ToInt(k.Val())
			if v.Kind() != constant.Int {
				continue
			}
			n++
			iv, exact := constant.Int64Val(v)
			c.Check("op-cost", name, k.Pos(), exact && iv >= 1, "cost constant = "+v.String()+" (must be >= 1: zero-cost work is unbounded work)")
		}
		c.Floor("op-cost", n, 100)
	}
}

// ---------- (2) allocator ----------
func gbC10Alloc(c *engine.Ctx, p *engine.Prog) {
	const A = gbG + "(*Allocator)."
	nNew, nWrap := 0, 0
	for _, f := range p.FuncsIn("gnovm/pkg/gnolang") {
		if f.Obj == nil || !strings.HasPrefix(f.Name, A) {
			continue
		}
		short := strings.TrimPrefix(f.Name, A)
		switch {
		case strings.HasPrefix(short, "New"):
			nNew++
			var acc []*engine.Site
			for _, s := range f.Calls() {
				n := s.CalleeName()
				if (strings.HasPrefix(n, A+"Allocate") || strings.HasPrefix(n, A+"New")) && n != f.Name {
					acc = append(acc, s)
				}
			}
			ex := gbExitWithout(f, acc, nil)
			c.Check("alloc-accounted", f.Name, f.Pos(), len(acc) > 0 && ex == nil, "every normal exit of a constructor must pass an Allocate*/New* call; unaccounted exit near "+gbBlockPos(f, ex))
		case strings.HasPrefix(short, "Allocate") && short != "Allocate":
			nWrap++
			var acc []*engine.Site
			for _, s := range f.Calls() {
				n := s.CalleeName()
				if strings.HasPrefix(n, A+"Allocate") && n != f.Name {
					acc = append(acc, s)
				}
			}
			ex := gbExitWithout(f, acc, nil)
			c.Check("alloc-accounted", f.Name, f.Pos(), len(acc) > 0 && ex == nil, "every Allocate* wrapper must reach Allocate on every normal exit")
		}
	}
	c.Floor("alloc-accounted New*", nNew, 15)
	c.Floor("alloc-accounted Allocate*", nWrap, 15)

	f := c.MustFunc(A + "Allocate")
	if f == nil {
		return
	}
	g := f.Graph()
	info := f.Info()
	recv := types.Object(nil)
	if f.Decl.Recv != nil && len(f.Decl.Recv.List) == 1 && len(f.Decl.Recv.List[0].Names) == 1 {
		recv = info.ObjectOf(f.Decl.Recv.List[0].Names[0])
	}
	size := paramObj(f, 0)
	// (a) bytes accounting on every exit — directly or through a private helper all of whose exits account
	isAllocVar := func(o types.Object) bool {
		v, ok := o.(*types.Var)
		return ok && engine.TypeName(v.Type()) == "*gnovm/pkg/gnolang.Allocator"
	}
	isAdd := func(fn *engine.Fn, n ast.Node) bool {
		as, ok := n.(*ast.AssignStmt)
		if !ok || as.Tok != token.ADD_ASSIGN || len(as.Lhs) != 1 {
			return false
		}
		sel, ok := ast.Unparen(as.Lhs[0]).(*ast.SelectorExpr)
		if !ok || sel.Sel.Name != "bytes" || !isAllocVar(engine.ObjOf(fn.Info(), sel.X)) {
			return false
		}
		o := engine.ObjOf(fn.Info(), as.Rhs[0])
		return o != nil && gbIsParam(fn, o)
	}
	recvNilExit := func(fn *engine.Fn, b *cfgBlock) bool {
		for _, ft := range gbExitFacts(fn, b) {
			if x, isNilHolds, ok := gbIsNilCmp(ft); ok && isNilHolds && isAllocVar(engine.ObjOf(fn.Info(), x)) {
				return true
			}
		}
		return false
	}
	ex, nAdds := gbAllExitsPassDeep(f, 2, isAdd, recvNilExit)
	c.Check("alloc-charge", f.Name+" bytes += size on every exit", f.Pos(), nAdds > 0 && ex == nil, "every normal exit (non-nil allocator) must have added size to alloc.bytes (directly or in a helper); exit near "+gbBlockPos(f, ex))
	// (b) gas on every exit, gated only by gasMeter != nil
	cons := f.CallsTo("tm2/pkg/store/types.(GasMeter).ConsumeGas")
	okGas, whyGas := len(cons) > 0, "allocation gas charged on every normal exit when a meter is installed"
	if len(cons) == 0 {
		whyGas = "no gasMeter.ConsumeGas call"
	}
	avoid := map[*cfgBlock]bool{}
	for _, s := range cons {
		avoid[s.Block] = true
		for _, ft := range gbFactsOf(g.Gates(s)) {
			x, isNilHolds, ok := gbIsNilCmp(ft)
			if ok && !isNilHolds && (engine.MentionsName(x, "gasMeter") || engine.ObjOf(info, x) == recv) {
				continue
			}
			okGas, whyGas = false, "allocation gas additionally depends on `"+engine.ExprString(ft.E)+"`"
		}
		if len(s.Call.Args) == 2 {
			if call, ok := ast.Unparen(s.Call.Args[0]).(*ast.CallExpr); !ok || gbCalleeName(info, call) != gbG+"allocGas" || len(call.Args) != 1 || engine.ObjOf(info, call.Args[0]) != size {
				okGas, whyGas = false, "charged amount is not allocGas(size)"
			}
		}
	}
	if okGas {
		// every normal exit passes either the charge or the `gasMeter != nil` test's false branch that directly follows
		// => equivalently: every exit passes the block holding the `alloc.gasMeter != nil` condition
		var condBlocks []*cfgBlock
		for _, s := range cons {
			for _, gt := range g.Gates(s) {
				if engine.MentionsName(gt.Cond, "gasMeter") {
					condBlocks = append(condBlocks, gt.Block)
				}
			}
		}
		av := map[*cfgBlock]bool{}
		for _, b := range condBlocks {
			av[b] = true
		}
		for _, exb := range gbNormalExits(f) {
			if av[exb] || recvNilExit(f, exb) {
				continue
			}
			if g.Reach(g.CFG.Blocks[0], exb, av) {
				okGas, whyGas = false, "a normal exit near "+gbBlockPos(f, exb)+" skips the allocation-gas charge"
			}
		}
	}
	c.Check("alloc-charge", f.Name+" gas on every exit", f.Pos(), okGas, whyGas)
	// (c) cap: every accounting of size (direct or in a helper) is either under "sum <= maxBytes"
	// or followed, in its own function, by a panic under "bytes > maxBytes"
	capPanics := 0
	isPanicCall := func(fn *engine.Fn, n ast.Node) bool {
		call, ok := n.(*ast.CallExpr)
		return ok && engine.IsBuiltinCall(fn.Info(), call, "panic")
	}
	overCap := func(ft gbFact) bool { // "x > maxBytes" holds
		_, y, op, ok := gbCmp(ft)
		return ok && op == token.GTR && engine.MentionsName(y, "maxBytes")
	}
	underCap := func(ft gbFact) bool { // "maxBytes >= x" holds
		x, _, op, ok := gbCmp(ft)
		return ok && op == token.GEQ && engine.MentionsName(x, "maxBytes")
	}
	for _, ds := range f.DeepFind(2, isPanicCall) {
		for _, ft := range gbFactsOf(ds.DeepGates()) {
			if overCap(ft) {
				capPanics++
				break
			}
		}
	}
	c.Check("alloc-charge", f.Name+" hard cap", f.Pos(), capPanics >= 1, "allocations that would exceed maxBytes must panic")
	nA := 0
	for _, ds := range f.DeepFind(2, isAdd) {
		nA++
		ok := false
		for _, ft := range gbFactsOf(ds.DeepGates()) {
			if underCap(ft) {
				ok = true
			}
		}
		if !ok {
			h := ds.Inner.Fn
			hg := h.Graph()
			for _, s := range h.CallsTo("builtin.panic") {
				if !hg.Dominates(ds.Inner, s) {
					continue
				}
				for _, ft := range gbFactsOf(hg.Gates(s)) {
					if x, _, _, isCmp := gbCmp(ft); isCmp && overCap(ft) && engine.MentionsName(x, "bytes") {
						ok = true
					}
				}
			}
		}
		c.Check("alloc-charge", f.Name+" bytes += size #"+strconv.Itoa(nA)+" is capped", ds.Inner.Pos(), ok, "each accounting of size must be under (or followed by) the maxBytes test")
	}
	c.Floor("alloc-charge accounting sites", nA, 1)
}

// ---------- (3) meter ----------
func gbC10Meter(c *engine.Ctx, p *engine.Prog) {
	const T = "tm2/pkg/store/types."
	f := c.MustFunc(T + "(*basicGasMeter).ConsumeGas")
	if f != nil {
		g := f.Graph()
		info := f.Info()
		amount := paramObj(f, 0)
		// facts holding at each panic (polarity-aware; follows IsPastLimit())
		recvObj := types.Object(nil)
		if f.Decl.Recv != nil && len(f.Decl.Recv.List) == 1 && len(f.Decl.Recv.List[0].Names) == 1 {
			recvObj = info.ObjectOf(f.Decl.Recv.List[0].Names[0])
		}
		isRecvField := func(e ast.Expr, name string) bool {
			sel, ok := ast.Unparen(e).(*ast.SelectorExpr)
			return ok && sel.Sel.Name == name && engine.ObjOf(info, sel.X) == recvObj
		}
		// the store `g.consumed = v`
		var store *engine.Site
		var stored types.Object
		engine.InspectBody(f, func(n ast.Node) {
			if as, isA := n.(*ast.AssignStmt); isA && as.Tok == token.ASSIGN && len(as.Lhs) == 1 && len(as.Rhs) == 1 && isRecvField(as.Lhs[0], "consumed") {
				store = f.SiteOf(as)
				stored = engine.ObjOf(info, as.Rhs[0])
			}
		})
		okNeg := false
		var limitPanic *engine.Site
		var limitCond *cfgBlock
		okLimit, whyLimit := false, "no panic(OutOfGasError) gated solely by `consumed > limit`"
		for _, s := range f.CallsTo("builtin.panic") {
			gates := g.Gates(s)
			for _, gt := range gates {
				var fs []gbFact
				gbSplitFact(gt.Cond, gt.OnTrue, &fs)
				if len(fs) != 1 {
					continue // combined with another condition
				}
				ft := fs[0]
				// amount < 0 holds
				if x, y, op, ok := gbCmp(ft); ok && op == token.GTR {
					// normalised: x > y ; amount < 0 reads 0 > amount
					if v, isC := gbConstInt(info, x); isC && v == 0 && engine.ObjOf(info, y) == amount && len(gates) == 1 {
						okNeg = true
					}
					// v > g.limit
					if isRecvField(y, "limit") && len(s.Call.Args) == 1 && strings.Contains(engine.TypeName(info.TypeOf(s.Call.Args[0])), "OutOfGasError") {
						isStoredVar := stored != nil && engine.ObjOf(info, x) == stored
						isField := isRecvField(x, "consumed") && store != nil && g.Dominates(store, s)
						if isStoredVar || isField {
							limitPanic, limitCond, okLimit = s, gt.Block, true
						} else {
							whyLimit = "the value compared with the limit is not the value stored as consumed"
						}
					}
				}
				// g.IsPastLimit() holds, after the new total was stored
				if call, ok := gbFactCall(ft); ok && ft.Pos && gbCalleeName(info, call) == T+"(*basicGasMeter).IsPastLimit" && len(s.Call.Args) == 1 && strings.Contains(engine.TypeName(info.TypeOf(s.Call.Args[0])), "OutOfGasError") {
					if sel, isSel := ast.Unparen(call.Fun).(*ast.SelectorExpr); isSel && engine.ObjOf(info, sel.X) == recvObj {
						if store != nil && g.Dominates(store, s) {
							limitPanic, limitCond, okLimit = s, gt.Block, true // IsPastLimit itself is decided below (consumed > limit)
						} else {
							whyLimit = "IsPastLimit() is consulted before the new total is stored"
						}
					}
				}
			}
		}
		c.Check("meter-negative", f.Name, f.Pos(), okNeg, "a negative amount must panic unconditionally (else gas can be minted)")
		c.Check("meter-limit", f.Name, f.Pos(), okLimit, whyLimit)
		// the limit test is reached on every normal path: every normal exit passes the block of the comparison
		if limitPanic != nil {
			ok := limitCond != nil
			if ok {
				av := map[*cfgBlock]bool{limitCond: true}
				for _, ex := range gbNormalExits(f) {
					if ex != limitCond && g.Reach(g.CFG.Blocks[0], ex, av) {
						ok = false
					}
				}
			}
			c.Check("meter-limit", f.Name+" limit test on every exit", f.Pos(), ok, "no normal exit may skip the consumed > limit test")
		}
		// overflow-checked sum: the stored value comes from overflow.Add whose ok result, when false, panics
		okAdd := false
		for _, s := range f.CallsTo("tm2/pkg/overflow.Add") {
			vs := gbAssignedVars(f, s)
			if len(vs) == 2 && vs[1] != nil && vs[0] != nil && vs[0] == stored {
				for _, ps := range f.CallsTo("builtin.panic") {
					for _, ft := range gbFactsOf(g.Gates(ps)) {
						if id, isId := ast.Unparen(ft.E).(*ast.Ident); isId && !ft.Pos && info.ObjectOf(id) == vs[1] {
							okAdd = true
						}
					}
				}
			}
		}
		c.Check("meter-overflow", f.Name, f.Pos(), okAdd, "consumed + amount must be computed with overflow.Add and panic on overflow")
	}
	for nm, op := range map[string]token.Token{"IsPastLimit": token.GTR, "IsOutOfGas": token.GEQ} {
		h := c.MustFunc(T + "(*basicGasMeter)." + nm)
		if h == nil {
			continue
		}
		ok := false
		engine.InspectBody(h, func(n ast.Node) {
			if r, isR := n.(*ast.ReturnStmt); isR && len(r.Results) == 1 {
				if bx, isB := ast.Unparen(r.Results[0]).(*ast.BinaryExpr); isB && bx.Op == op && engine.MentionsName(bx.X, "consumed") && engine.MentionsName(bx.Y, "limit") {
					ok = true
				}
			}
		})
		c.Check("meter-limit", h.Name, h.Pos(), ok, "must be `consumed "+op.String()+" limit`")
	}
	if h := c.MustFunc(T + "(*basicGasMeter).GasConsumedToLimit"); h != nil {
		// returns g.limit under IsPastLimit, else consumed
		g := h.Graph()
		ok := false
		engine.InspectBody(h, func(n ast.Node) {
			if r, isR := n.(*ast.ReturnStmt); isR && len(r.Results) == 1 && engine.MentionsName(r.Results[0], "limit") {
				if st := h.SiteOf(r); st != nil {
					for _, gt := range g.Gates(st) {
						if call, isC := ast.Unparen(gt.Cond).(*ast.CallExpr); isC && gt.OnTrue && strings.HasSuffix(gbCalleeName(h.Info(), call), ".IsPastLimit") {
							ok = true
						}
					}
				}
			}
		})
		c.Check("meter-limit", h.Name, h.Pos(), ok, "must return the limit when past the limit")
	}
	if h := c.MustFunc(T + "(passthroughGasMeter).ConsumeGas"); h != nil {
		nb := len(h.CallsTo(T + "(GasMeter).ConsumeGas"))
		nh := len(h.CallsTo(T + "(*basicGasMeter).ConsumeGas"))
		c.Check("meter-limit", h.Name, h.Pos(), nb >= 1 && nh >= 1 && len(h.Graph().Gates(h.Calls()[0])) == 0, "passthrough must charge both the base and the head meter unconditionally")
	}
}

func limitPanicOr(f *engine.Fn, s *engine.Site) *engine.Site {
	if s != nil {
		return s
	}
	return f.Calls()[0]
}

// ---------- (4) cache store ----------
func gbC10CacheStore(c *engine.Ctx, p *engine.Prog) {
	const S = "tm2/pkg/store/cache.(*cacheStore)."
	const GC = "tm2/pkg/store/types.(*GasContext)."
	isGctxNonNil := func(f *engine.Fn, e ast.Expr) bool {
		bx, ok := ast.Unparen(e).(*ast.BinaryExpr)
		return ok && bx.Op == token.NEQ && isNil(bx.Y) && engine.ObjOf(f.Info(), bx.X) == paramObj(f, 0)
	}
	// Get: parent.Get under gctx != nil is preceded by a charge
	if f := c.MustFunc(S + "Get"); f != nil {
		g := f.Graph()
		charges := f.CallsTo(GC+"ConsumeGas", GC+"WillGet")
		n := 0
		for _, s := range f.CallsTo("tm2/pkg/store/types.(Store).Get") {
			metered := false
			for _, ft := range gbFactsOf(g.Gates(s)) {
				if x, isNilHolds, ok := gbIsNilCmp(ft); ok && !isNilHolds && engine.ObjOf(f.Info(), x) == paramObj(f, 0) {
					metered = true
				}
			}
			if !metered {
				continue
			}
			n++
			c.Check("store-charge", f.Name+" parent read", s.Pos(), g.MustPass(s, charges), "with a gas context, every path to the parent read must first charge the read (ConsumeGas/WillGet)")
			// per-byte part afterwards
			did := false
			for _, dg := range f.CallsTo(GC + "DidGet") {
				if g.Dominates(s, dg) {
					did = true
				}
			}
			c.Check("store-charge", f.Name+" per-byte charge", s.Pos(), did, "the value's per-byte read cost must be charged after the read")
		}
		c.Floor("store-charge Get", n, 1)
		// the parent read on a miss happens on both branches: no path from a cache miss to the return without a parent read when gctx!=nil is covered above
	}
	for _, nm := range []string{"Set", "Delete"} {
		f := c.MustFunc(S + nm)
		if f == nil {
			continue
		}
		g := f.Graph()
		info := f.Info()
		charges := f.CallsTo(GC+"ConsumeGas", GC+"WillSet", GC+"WillDelete")
		tg := f.CallsTo(S + "setCacheValue")
		c.Floor("store-charge "+nm, len(tg), 1)
		for _, t := range tg {
			// find the `gctx != nil` branching block dominating t... the write is after the if; check that
			// from the true successor of that condition the write is unreachable without a charge.
			ok, why := false, "no `gctx != nil` branch found before the write"
			for _, b := range g.CFG.Blocks {
				if !b.Live || len(b.Succs) != 2 || len(b.Nodes) == 0 {
					continue
				}
				cond, isE := b.Nodes[len(b.Nodes)-1].(ast.Expr)
				if !isE || !isGctxNonNil(f, cond) || !g.BlockDominates(b, t.Block) {
					continue
				}
				avoid := map[*cfgBlock]bool{}
				for _, ch := range charges {
					avoid[ch.Block] = true
				}
				if g.Reach(b.Succs[0], t.Block, avoid) {
					ok, why = false, "with a gas context the write can be recorded without a charge"
				} else {
					ok, why = true, "every metered path to the write passes ConsumeGas/Will*"
				}
			}
			c.Check("store-charge", f.Name+" write", t.Pos(), ok, why)
		}
		// refund pairing: chargedGas[k] = X where X is exactly what was charged; refund amount read from chargedGas[k]
		var recorded types.Object
		engine.InspectBody(f, func(n ast.Node) {
			if as, ok := n.(*ast.AssignStmt); ok && len(as.Lhs) == 1 && len(as.Rhs) == 1 {
				if ix, ok := ast.Unparen(as.Lhs[0]).(*ast.IndexExpr); ok && engine.MentionsName(ix.X, "chargedGas") {
					recorded = engine.ObjOf(info, as.Rhs[0])
				}
			}
		})
		okPair, whyPair := recorded != nil, "store.chargedGas[k] records the charged amount"
		if recorded == nil {
			whyPair = "no store.chargedGas[k] = <var> record found"
		} else {
			d := gbCollectDefs(f)
			for _, ch := range charges {
				switch ch.CalleeName() {
				case GC + "ConsumeGas":
					if len(ch.Call.Args) < 1 || engine.ObjOf(info, ch.Call.Args[0]) != recorded {
						okPair, whyPair = false, "ConsumeGas charges `"+engine.ExprString(ch.Call.Args[0])+"` but `"+recorded.Name()+"` is recorded for the later refund"
					}
				default:
					vs := gbAssignedVars(f, ch)
					if len(vs) != 1 || vs[0] != recorded {
						okPair, whyPair = false, "the amount returned by "+ch.CalleeName()+" is not what is recorded"
					}
				}
			}
			_ = d
			// refund argument comes from the chargedGas map
			for _, rf := range f.CallsTo(GC + "RefundGas") {
				fromMap := false
				if len(rf.Call.Args) == 1 {
					if o := engine.ObjOf(info, rf.Call.Args[0]); o != nil {
						for _, r := range d.defs[o] {
							if ix, ok := ast.Unparen(r).(*ast.IndexExpr); ok && engine.MentionsName(ix.X, "chargedGas") {
								fromMap = true
							}
						}
					}
				}
				if !fromMap {
					okPair, whyPair = false, "refund amount is not the previously recorded charge"
				}
			}
		}
		c.Check("store-refund-pairing", f.Name, f.Pos(), okPair, whyPair)
	}
}

// ---------- (5) ante ----------
func gbC10Ante(c *engine.Ctx, p *engine.Prog) {
	const A = "tm2/pkg/sdk/auth."
	root := c.MustFunc(A + "NewAnteHandler")
	if root != nil {
		var f *engine.Fn
		for _, l := range root.Lits {
			if l.Type.Results != nil && len(l.Type.Results.List) == 3 {
				f = l
			}
		}
		if f == nil {
			c.Undecided("ante-metered", root.Name, "ante closure (3 results) not found")
		} else {
			g := f.Graph()
			info := f.Info()
			ctxP := paramObj(f, 0)
			txP := paramObj(f, 1)
			sets := f.CallsTo(A + "SetGasMeter")
			ok, why := len(sets) == 1, "exactly one SetGasMeter call"
			var set *engine.Site
			var newCtx types.Object
			if ok {
				set = sets[0]
				// argument shape
				if len(set.Call.Args) != 2 || engine.ObjOf(info, set.Call.Args[0]) != ctxP {
					ok, why = false, "SetGasMeter is not applied to the incoming context"
				} else if sel, isSel := ast.Unparen(set.Call.Args[1]).(*ast.SelectorExpr); !isSel || sel.Sel.Name != "GasWanted" || gbHeadIdent(info, sel) != txP {
					ok, why = false, "gas limit is not tx.Fee.GasWanted"
				}
				if vs := gbAssignedVars(f, set); len(vs) == 1 && vs[0] != nil {
					newCtx = vs[0]
				} else {
					ok, why = false, "SetGasMeter result is not bound"
				}
			}
			c.Check("ante-metered", "SetGasMeter(ctx, tx.Fee.GasWanted)", f.Pos(), ok, why)
			if ok {
				// no ConsumeGas / keeper call before; no call passing the un-metered ctx after (other than Value / BlockHeight reads)
				n := 0
				feeCollBudget := 1
				for _, s := range f.Calls() {
					if s == set || s.Deferred {
						continue
					}
					name := s.CalleeName()
					passesCtx := false
					for _, a := range s.Call.Args {
						if engine.ObjOf(info, a) == ctxP {
							passesCtx = true
						}
					}
					consumes := strings.HasSuffix(name, ".ConsumeGas")
					if consumes {
						n++
						c.Check("ante-metered", "charge after SetGasMeter: "+name, s.Pos(), g.Dominates(set, s) && engine.Mentions(info, s.Call.Fun, newCtx), "gas must be charged on the GasWanted-limited meter of newCtx")
					}
					if passesCtx && g.ReachableAfter(set, s) && name == A+"(AccountKeeper).FeeCollectorAddress" && feeCollBudget > 0 {
						// frozen exemption: one bounded params read (the fee collector address) goes
						// through the incoming context; its store-read gas is not billed to the tx meter.
						feeCollBudget--
						continue
					}
					if passesCtx && g.ReachableAfter(set, s) {
						n++
						c.Check("ante-metered", "unmetered ctx passed to "+name, s.Pos(), false, "after SetGasMeter the metered newCtx must be used; the incoming ctx still carries the un-limited meter")
					}
					if passesCtx && !g.ReachableAfter(set, s) {
						// before SetGasMeter: only the mempool fee check is allowed
						n++
						c.Check("ante-metered", "pre-meter call "+name, s.Pos(), name == A+"EnsureSufficientMempoolFees", "only the local min-fee check may run before the tx meter is installed")
					}
				}
				c.Floor("ante-metered", n, 2)
				// every use of keepers (calls with newCtx as argument) is dominated by SetGasMeter
				m := 0
				for _, s := range f.CallsToDeep() {
					_ = s
				}
				for _, s := range f.Calls() {
					for _, a := range s.Call.Args {
						if engine.ObjOf(info, a) == newCtx && s != set {
							m++
							if !g.Dominates(set, s) {
								c.Check("ante-metered", "newCtx used before SetGasMeter in "+s.CalleeName(), s.Pos(), false, "")
							}
						}
					}
				}
				c.Floor("ante-metered newCtx uses", m, 5)
			}
		}
	}
	if f := c.MustFunc(A + "SetGasMeter"); f != nil {
		g := f.Graph()
		info := f.Info()
		d := gbCollectDefs(f)
		n := 0
		for _, s := range f.CallsTo("tm2/pkg/store/types.NewInfiniteGasMeter", "var.NewInfiniteGasMeter") {
			n++
			ok := false
			why := "an infinite meter may be installed only for block height 0 or under SkipGasMeteringKey"
			for _, ft := range gbFactsOf(g.Gates(s)) {
				if ft.Pos && gbMeteringOffCond(f, ft.E, 1) {
					ok = true
				}
			}
			_ = d
			_ = info
			c.Check("setgasmeter", f.Name+" infinite meter #"+strconv.Itoa(n), s.Pos(), ok, why)
		}
		c.Floor("setgasmeter infinite", n, 1)
		lim := f.CallsTo("tm2/pkg/store/types.NewGasMeter", "var.NewGasMeter")
		okL := false
		for _, s := range lim {
			if len(s.Call.Args) == 1 && engine.ObjOf(info, s.Call.Args[0]) == paramObj(f, 1) {
				okL = true
			}
		}
		c.Check("setgasmeter", f.Name+" limited meter", f.Pos(), okL, "the default path must install NewGasMeter(gasLimit)")
	}
}

// ---------- (6)+(7) runTx ----------
func gbC10RunTx(c *engine.Ctx, p *engine.Prog) {
	const B = "tm2/pkg/sdk.(*BaseApp)."
	f := c.MustFunc(B + "runTx")
	if f == nil {
		return
	}
	g := f.Graph()
	info := f.Info()
	// (6a) block-gas-exhausted refusal dominates ante and msgs
	var work []*engine.Site
	for _, s := range f.Calls() {
		if s.CalleeName() == B+"runMsgs" || s.CalleeName() == "field.anteHandler" {
			work = append(work, s)
		}
	}
	c.Floor("block-gas work sites", len(work), 2)
	for _, w := range work {
		ok, why := false, "no `mode == RunTxModeDeliver && BlockGasMeter().IsOutOfGas()` refusal gates this call"
		d := gbCollectDefs(f)
		isDeliverTest := func(e ast.Expr) bool {
			e = d.resolveLocal(e)
			bx, isB := ast.Unparen(e).(*ast.BinaryExpr)
			if !isB || bx.Op != token.EQL {
				return false
			}
			for _, side := range []ast.Expr{bx.X, bx.Y} {
				if id, isId := ast.Unparen(side).(*ast.Ident); isId && id.Name == "RunTxModeDeliver" {
					return true
				}
			}
			return false
		}
		isBlockOOG := func(e ast.Expr) bool {
			e = d.resolveLocal(e)
			call, isC := ast.Unparen(e).(*ast.CallExpr)
			return isC && strings.HasSuffix(gbCalleeName(info, call), ".IsOutOfGas") && engine.MentionsName(call, "BlockGasMeter")
		}
		for _, gt := range g.Gates(w) {
			// the refusing side of the gate: conjunction (target on the false side) of nothing but the
			// deliver-mode test and the block-meter test; or, with nested ifs, the block-meter test alone
			if gt.OnTrue {
				continue
			}
			hasOOG, other := false, false
			for _, a := range engine.Conjuncts(gt.Cond, token.LAND) {
				switch {
				case isBlockOOG(a):
					hasOOG = true
				case isDeliverTest(a):
				default:
					other = true
				}
			}
			if hasOOG && !other {
				ok, why = true, "refused when the block gas meter is exhausted"
			}
		}
		c.Check("block-gas", f.Name+" refusal before "+w.CalleeName(), w.Pos(), ok, why)
	}
	// (6b) block charge: some literal of runTx calls BlockGasMeter().ConsumeGas(GasMeter().GasConsumedToLimit()) and is deferred
	var chargeLit *engine.Fn
	for _, l := range f.AllLits() {
		for _, s := range l.Calls() {
			if strings.HasSuffix(s.CalleeName(), ".ConsumeGas") && engine.MentionsName(s.Call.Fun, "BlockGasMeter") && len(s.Call.Args) == 2 {
				if call, ok := ast.Unparen(s.Call.Args[0]).(*ast.CallExpr); ok && strings.HasSuffix(gbCalleeName(info, call), ".GasConsumedToLimit") && !engine.MentionsName(call, "BlockGasMeter") {
					chargeLit = l
				}
			}
		}
	}
	c.Check("block-gas", f.Name+" charges tx gas to block meter", f.Pos(), chargeLit != nil, "a closure must charge GasMeter().GasConsumedToLimit() to BlockGasMeter()")
	if chargeLit != nil {
		// deferred: either `defer func(){…}()` directly or via a variable bound to the literal
		deferred := false
		engine.InspectBody(f, func(n ast.Node) {
			ds, ok := n.(*ast.DeferStmt)
			if !ok {
				return
			}
			if fl, ok := ast.Unparen(ds.Call.Fun).(*ast.FuncLit); ok && fl == chargeLit.Lit {
				deferred = true
			}
			if id, ok := ast.Unparen(ds.Call.Fun).(*ast.Ident); ok {
				d := gbCollectDefs(f)
				for _, r := range d.defs[info.ObjectOf(id)] {
					if fl, ok := ast.Unparen(r).(*ast.FuncLit); ok && fl == chargeLit.Lit {
						deferred = true
					}
				}
			}
		})
		c.Check("block-gas", f.Name+" block charge deferred", f.Pos(), deferred, "the block charge must run on every exit (defer), including panics")
	}

	// (7) value rule: what is reported as GasUsed on the out-of-gas path
	n := 0
	for _, l := range f.AllLits() {
		d := gbCollectDefs(l)
		for _, sw := range l.Switches() {
			if sw.Types == nil {
				continue
			}
			for tn, cc := range sw.Types {
				if !strings.HasSuffix(tn, "OutOfGasError") {
					continue
				}
				for _, st := range cc.Body {
					ast.Inspect(st, func(x ast.Node) bool {
						as, ok := x.(*ast.AssignStmt)
						if !ok || len(as.Lhs) != len(as.Rhs) {
							return true
						}
						for i, lh := range as.Lhs {
							sel, ok := ast.Unparen(lh).(*ast.SelectorExpr)
							if !ok || sel.Sel.Name != "GasUsed" {
								continue
							}
							n++
							clamped, src := gbGasSource(d, l.Info(), as.Rhs[i])
							c.Check("gasused-clamped", f.Name+" out-of-gas recovery", as.Pos(), clamped, "GasUsed reported for an out-of-gas tx comes from "+src+"; the meter records the failing charge before panicking, so GasConsumed() > limit = GasWanted (property: reported gas used <= gas wanted); GasConsumedToLimit() is the clamped value")
						}
						return true
					})
				}
			}
		}
	}
	c.Floor("gasused-clamped", n, 1)
}

// gbGasSource follows e through local definitions to the meter accessor it comes from.
func gbGasSource(d *gbDefs, info *types.Info, e ast.Expr) (clamped bool, src string) {
	seen := map[types.Object]bool{}
	src = "`" + engine.ExprString(e) + "`"
	var walk func(e ast.Expr) (bool, bool)
	walk = func(e ast.Expr) (found, clamp bool) {
		switch x := ast.Unparen(e).(type) {
		case *ast.CallExpr:
			n := gbCalleeName(info, x)
			if strings.HasSuffix(n, ".GasConsumedToLimit") {
				src = n
				return true, true
			}
			if strings.HasSuffix(n, ".GasConsumed") {
				src = n
				return true, false
			}
			if n == "builtin.min" {
				src = "min(…)"
				return true, true
			}
		case *ast.Ident:
			o := info.ObjectOf(x)
			if o == nil || seen[o] {
				return false, false
			}
			seen[o] = true
			for _, r := range d.defs[o] {
				if f, cl := walk(r); f {
					return f, cl
				}
			}
		}
		return false, false
	}
	_, clamped = walk(e)
	return clamped, src
}

// gbMeteringOffCond: e (evaluated in fn) being true implies "block height 0" or "the
// SkipGasMeteringKey flag is set": `ctx.BlockHeight() == 0`, a variable defined from
// ctx.Value(SkipGasMeteringKey{}), a disjunction of such, or a call of a private bool
// predicate every true-capable return of which is itself such a condition.
func gbMeteringOffCond(fn *engine.Fn, e ast.Expr, depth int) bool {
	info := fn.Info()
	d := gbCollectDefs(fn)
	switch x := ast.Unparen(e).(type) {
	case *ast.BinaryExpr:
		if x.Op == token.LOR {
			return gbMeteringOffCond(fn, x.X, depth) && gbMeteringOffCond(fn, x.Y, depth)
		}
		if x.Op == token.EQL {
			for _, pr := range [][2]ast.Expr{{x.X, x.Y}, {x.Y, x.X}} {
				if call, isC := ast.Unparen(pr[0]).(*ast.CallExpr); isC && strings.HasSuffix(gbCalleeName(info, call), ".BlockHeight") {
					if v, isK := gbConstInt(info, pr[1]); isK && v == 0 {
						return true
					}
				}
			}
		}
	case *ast.Ident:
		o := info.ObjectOf(x)
		if o == nil || len(d.defs[o]) == 0 {
			return false
		}
		for _, r := range d.defs[o] {
			if !engine.MentionsName(r, "SkipGasMeteringKey") {
				return false
			}
		}
		return true
	case *ast.CallExpr:
		if depth <= 0 {
			return false
		}
		cs := fn.SiteOf(x)
		if cs == nil {
			return false
		}
		fo, _ := cs.Callee.(*types.Func)
		h := fn.Prog.FnOf(fo)
		if h == nil || fo.Exported() {
			return false
		}
		hg := h.Graph()
		n, all := 0, true
		engine.InspectBody(h, func(nd ast.Node) {
			r, ok := nd.(*ast.ReturnStmt)
			if !ok {
				return
			}
			n++
			if len(r.Results) != 1 {
				all = false
				return
			}
			res := ast.Unparen(r.Results[0])
			if id, isId := res.(*ast.Ident); isId && id.Name == "false" {
				return
			}
			if id, isId := res.(*ast.Ident); isId && id.Name == "true" {
				good := false
				if st := h.SiteOf(r); st != nil {
					for _, ft := range gbFactsOf(hg.Gates(st)) {
						if ft.Pos && gbMeteringOffCond(h, ft.E, depth-1) {
							good = true
						}
					}
				}
				if !good {
					all = false
				}
				return
			}
			if !gbMeteringOffCond(h, res, depth-1) {
				all = false
			}
		})
		return n > 0 && all
	}
	return false
}
