package checks

import (
	"go/ast"
	"go/token"
	"go/types"
	"sort"
	"strings"

	"gnoverif/engine"
)

// C28 — queries never interfere with consensus and see one committed version.
func init() {
	register("C28", c28)
	meta("C28", Meta{
		Text:      "Decides structural necessary conditions of query isolation: (1) BaseApp's fields are partitioned by their writers (init-time only / atomic / consensus-mutable) and no function reachable from BaseApp.Query (incl. Simulate and runTx) touches a consensus-mutable field, except Simulate's pre-first-commit fallback; (2) in runTx every MultiWrite/WriteCheckpoint is unreachable in simulate mode; (3) custom queries and Simulate build their context on the result of MultiImmutableCacheWrapWithVersion, check its error and defer its release; store queries try QueryImmutable first; (4) rootmulti: query stores are immut.New wrappers over a multiStore built on the ref-counted snapshot, Load+acquire happen under snapshotMu.RLock with release on the error path, Swap+release under snapshotMu.Lock, the snapshot is closed only at refcount zero, immut stores cannot write; (5) the query ABCI connection gets a client on its own mutex, every localClient call into the application holds the client's mutex; (6) VM keeper query entry points use a throw-away transaction store and never the tx store or its commit. Level 'other'.",
		Note:      "Not covered: actual schedules/data races inside gnovm caches, snapshot semantics of the DB engine, goroutines started by handlers. Reachability is the static in-package call graph (interface calls into other packages are covered by the per-package rules 4-6).",
		Technique: "who-may-write field partition + in-package reachability, CFG gates, dominance / lock pairing, local def-use",
		Ref:       "DESIGN.md §2 C28",
	})
	const ba = "tm2/pkg/sdk/baseapp.go"
	const hp = "tm2/pkg/sdk/helpers.go"
	const rs = "tm2/pkg/store/rootmulti/store.go"
	mutants("C28",
		Mutant{"custom-query-reads-checkstate", ba, "ctx := NewContext(RunTxModeCheck, cacheMS, app.getLastBlockHeader(), app.logger).WithMinGasPrices(app.minGasPrices)", "ctx := NewContext(RunTxModeCheck, cacheMS, app.checkState.ctx.BlockHeader(), app.logger).WithMinGasPrices(app.minGasPrices)", "query-reach"},
		Mutant{"simulate-reads-voteinfos", hp, "\t\tWithMinGasPrices(app.minGasPrices).\n\t\tWithConsensusParams(app.consensusParams)\n\n\treturn app.runTx(ctx, txBytes)", "\t\tWithMinGasPrices(app.minGasPrices).\n\t\tWithVoteInfos(app.voteInfos).\n\t\tWithConsensusParams(app.consensusParams)\n\n\treturn app.runTx(ctx, txBytes)", "query-reach"},
		Mutant{"consensus-params-updated-per-block", ba, "\tif app.endBlocker != nil {\n\t\t// we need to load", "\tapp.setConsensusParams(app.consensusParams)\n\tif app.endBlocker != nil {\n\t\t// we need to load", "query-reach"},
		Mutant{"simulate-flushes", ba, "\t// (from getContextForTx) discards everything.\n\tif mode != RunTxModeDeliver {\n\t\treturn result\n\t}", "\t// (from getContextForTx) discards everything.\n\tif mode == RunTxModeCheck {\n\t\treturn result\n\t}", "sim-no-write"},
		Mutant{"custom-query-on-live-store", ba, "ctx := NewContext(RunTxModeCheck, cacheMS, app.getLastBlockHeader(), app.logger).WithMinGasPrices(app.minGasPrices)", "_ = cacheMS\n\tctx := NewContext(RunTxModeCheck, app.cms.MultiCacheWrap(), app.getLastBlockHeader(), app.logger).WithMinGasPrices(app.minGasPrices)", "query-view"},
		Mutant{"custom-query-rewrapped-live", ba, "\tres = handler.Query(ctx, req)\n\treturn\n}", "\tres = handler.Query(ctx.WithMultiStore(app.cms.MultiCacheWrap()), req)\n\treturn\n}", "query-cms-use"},
		Mutant{"simulate-leaks-snapshot", hp, "\tdefer release()\n\n\tctx := NewContext(RunTxModeSimulate", "\t_ = release\n\n\tctx := NewContext(RunTxModeSimulate", "query-view"},
		Mutant{"store-query-live-first", ba, "\t\tresp, err := iq.QueryImmutable(req)\n\t\tif err == nil {", "\t\tresp, err := iq.QueryImmutable(req)\n\t\tif err == nil && req.Prove {", "query-view"},
		Mutant{"query-stores-mutable", rs, "stores[storeKey] = immut.New(store)", "stores[storeKey] = store\n\t\t_ = immut.New", "immut-wrap"},
		Mutant{"acquire-outside-lock", rs, "\tms.snapshotMu.RLock()\n\trs := ms.querySnapshot.Load()", "\trs := ms.querySnapshot.Load()\n\tms.snapshotMu.RLock()", "snapshot-pin"},
		Mutant{"no-release-on-load-error", rs, "\t\trelease() // don't leak the snapshot ref on error\n", "", "snapshot-pin"},
		Mutant{"close-before-zero", rs, "if rs.refs.Add(-1) == 0 {", "if rs.refs.Add(-1) <= 1 {", "snapshot-pin"},
		Mutant{"query-shares-consensus-mutex", "tm2/pkg/bft/proxy/client.go", "return abcicli.NewLocalClient(&l.queryMtx, l.app), nil", "return abcicli.NewLocalClient(&l.mtx, l.app), nil", "query-mutex"},
		Mutant{"query-conn-on-mutating-client", "tm2/pkg/bft/appconn/multi_app_conn.go", "querycli, err := app.clientCreator.NewReadOnlyABCIClient()", "querycli, err := app.clientCreator.NewABCIClient()", "query-mutex"},
		Mutant{"keeper-query-uses-tx-store", "gno.land/pkg/sdk/vm/keeper.go", "func (vm *VMKeeper) QueryStorage(ctx sdk.Context, pkgPath string) (string, error) {\n\tctx = ctx.WithGasMeter(store.NewGasMeter(maxGasQuery))\n\tstore := vm.newGnoTransactionStore(ctx) // throwaway (never committed)", "func (vm *VMKeeper) QueryStorage(ctx sdk.Context, pkgPath string) (string, error) {\n\tctx = ctx.WithGasMeter(store.NewGasMeter(maxGasQuery))\n\tstore := vm.getGnoTransactionStore(ctx)", "keeper-query"},
	)
}

const (
	c28SDK = "tm2/pkg/sdk"
	c28BA  = c28SDK + ".(*BaseApp)."
)

func c28(c *engine.Ctx) {
	c.Explain = "Structural clauses of query isolation (see manifest text): BaseApp field partition by writers and no consensus-mutable field access from Query-reachable code; no store flush in simulate mode; queries built on the immutable versioned view with error check and deferred release; immut wrapping, snapshot reference pinning under snapshotMu, close at refcount zero; separate query mutex; keeper query entry points on throw-away transaction stores. Not covered: real schedules, gnovm-internal caches, DB engine snapshot semantics."
	p := c.Load(c28SDK, "tm2/pkg/store/rootmulti", "tm2/pkg/store/immut", "tm2/pkg/bft/proxy", "tm2/pkg/bft/appconn", "tm2/pkg/bft/abci/client", "gno.land/pkg/sdk/vm")
	if p == nil {
		return
	}
	c28Partition(c, p)
	c28SimNoWrite(c, p)
	c28QueryView(c, p)
	c28Rootmulti(c, p)
	c28Mutex(c, p)
	c28Keeper(c, p)
}

func c28Partition(c *engine.Ctx, p *engine.Prog) {
	app := p.Named(c28SDK + ".BaseApp")
	if app == nil {
		c.Undecided("field-partition", c28SDK+".BaseApp", "type not found")
		return
	}
	st := app.Underlying().(*types.Struct)
	// init-time writers: constructor, sealed-guarded setters, and private setters whose callers are init-time
	initWriter := func(name string) (bool, string) {
		if name == c28SDK+".NewBaseApp" {
			return true, "constructor"
		}
		f := p.Func(name)
		if f == nil {
			return false, "unknown function"
		}
		// setter guarded by `if app.sealed { panic }`
		sealed := p.Field(c28SDK + ".BaseApp.sealed")
		guard := false
		engine.InspectBody(f, func(x ast.Node) {
			if is, ok := x.(*ast.IfStmt); ok && sfFieldSel(f.Info(), is.Cond, sealed) && len(is.Body.List) > 0 {
				if es, ok := is.Body.List[len(is.Body.List)-1].(*ast.ExprStmt); ok {
					if cl, ok := es.X.(*ast.CallExpr); ok && !p.MayReturn(f.Info(), cl) {
						guard = true
					}
				}
			}
		})
		if guard {
			return true, "sealed-guarded setter"
		}
		return false, ""
	}
	privateInit := map[string][]string{ // private setter -> allowed callers (root names)
		c28BA + "setMinGasPrices":    {c28SDK + ".SetMinGasPrices"},
		c28BA + "setConsensusParams": {c28BA + "initFromMainStore", c28BA + "InitChain"},
		c28BA + "Seal":               {c28BA + "initFromMainStore"},
	}
	mutable := map[*types.Var]bool{}
	n := 0
	for i := 0; i < st.NumFields(); i++ {
		fld := st.Field(i)
		tn := engine.TypeName(fld.Type())
		if strings.HasPrefix(tn, "sync/atomic.") {
			n++
			c.Check("field-partition", c28SDK+".BaseApp."+fld.Name()+" atomic", fld.Pos(), true, "shared, accessed through sync/atomic")
			continue
		}
		ws := engine.WriterSet(p.FieldWrites(fld), nil)
		var non []string
		for _, w := range ws {
			if ok, _ := initWriter(w); ok {
				continue
			}
			if allowed, isPriv := privateInit[w]; isPriv {
				callers := engine.CallerSet(p.RefsToFunc(w))
				if len(engine.SetDiff(callers, allowed)) == 0 {
					continue
				}
				non = append(non, w+" (called from "+join(engine.SetDiff(callers, allowed))+")")
				continue
			}
			non = append(non, w)
		}
		if len(non) > 0 {
			mutable[fld] = true
		}
		kind := "init-only"
		if len(non) > 0 {
			kind = "consensus-mutable"
		}
		n++
		c.Check("field-partition", c28SDK+".BaseApp."+fld.Name()+" classified", fld.Pos(), true, kind+"; non-init writers: "+join(non))
	}
	// the partition must contain the known consensus state (sanity: the classifier is not vacuous)
	for _, nm := range []string{"checkState", "deliverState", "voteInfos"} {
		c.Check("field-partition", c28SDK+".BaseApp."+nm+" is consensus-mutable", token.NoPos, mutable[p.Field(c28SDK+".BaseApp."+nm)], "expected a per-block writer")
	}
	c.Floor("field-partition", n, 20)

	// reachability from Query
	root := c.MustFunc(c28BA + "Query")
	sim := c.MustFunc(c28BA + "Simulate")
	if root == nil || sim == nil {
		return
	}
	reach := map[*engine.Fn]bool{}
	var visit func(f *engine.Fn)
	visit = func(f *engine.Fn) {
		f = f.Root()
		if reach[f] {
			return
		}
		reach[f] = true
		for _, body := range append([]*engine.Fn{f}, f.AllLits()...) {
			for _, s := range body.Calls() {
				fn, ok := s.Callee.(*types.Func)
				if !ok {
					continue
				}
				callee := p.FnOf(fn)
				if callee == nil || callee.Pkg.PkgPath != engine.ModPrefix+c28SDK {
					continue
				}
				if f == sim && c28PreCommitOnly(body, s) {
					continue
				}
				visit(callee)
			}
		}
	}
	visit(root)
	var names []string
	for f := range reach {
		names = append(names, f.Name)
	}
	sort.Strings(names)
	k := 0
	for _, nm := range names {
		f := p.Func(nm)
		var bad []string
		for _, body := range append([]*engine.Fn{f}, f.AllLits()...) {
			ast.Inspect(body.Body, func(x ast.Node) bool {
				se, ok := x.(*ast.SelectorExpr)
				if !ok {
					return true
				}
				if v, ok := body.Info().Uses[se.Sel].(*types.Var); ok && mutable[v.Origin()] {
					if f == sim {
						if st := body.SiteOf(se); st != nil && c28PreCommitOnly(body, st) {
							return true
						}
					}
					bad = append(bad, v.Name())
				}
				return true
			})
		}
		k++
		c.Check("query-reach", nm+" touches no consensus-mutable BaseApp field", f.Pos(), len(bad) == 0, "reads/writes: "+join(bad)+" (these fields are written by block execution on the consensus connection)")
	}
	c.Floor("query-reach", k, 10)
	// in Query-reachable code the live multistore is used only to obtain the versioned immutable view / the last commit id
	cmsF := p.Field(c28SDK + ".BaseApp.cms")
	allowedCMS := map[string]bool{"MultiImmutableCacheWrapWithVersion": true, "LastCommitID": true}
	u := 0
	for _, nm := range names {
		f := p.Func(nm)
		for _, body := range append([]*engine.Fn{f}, f.AllLits()...) {
			for _, s := range body.Calls() {
				fld, m := sfMethodOnField(body.Info(), s.Call)
				if fld != cmsF || cmsF == nil {
					continue
				}
				if f == sim && c28PreCommitOnly(body, s) {
					continue
				}
				u++
				c.Check("query-cms-use", nm+" app.cms."+m, s.Pos(), allowedCMS[m], "query paths may call only MultiImmutableCacheWrapWithVersion / LastCommitID on the live CommitMultiStore")
			}
		}
	}
	c.Floor("query-cms-use", u, 3)
	has := func(n string) bool { return reach[p.Func(n)] }
	c.Check("query-reach", "closure contains Simulate, runTx and the three handlers", token.NoPos,
		has(c28BA+"Simulate") && has(c28BA+"runTx") && has(c28SDK+".handleQueryCustom") && has(c28SDK+".handleQueryStore") && has(c28SDK+".handleQueryApp"), "")
}

// c28PreCommitOnly: the site runs only when no block has been committed yet
// (`header == nil || header.GetHeight() < 1` holds).
func c28PreCommitOnly(f *engine.Fn, s *engine.Site) bool {
	isNilHdr := func(cx *sfCtx, e ast.Expr, op token.Token) bool {
		_, b, o, ok := sfCmp(e)
		return ok && o == op && isNil(b)
	}
	lowHeight := func(cx *sfCtx, e ast.Expr, op token.Token) bool {
		a, b, o, ok := sfCmp(e)
		if !ok || o != op {
			return false
		}
		if k, isK := sfConstInt(cx.fn.Info(), b); !isK || k != 1 {
			return false
		}
		return sfOperandIs(cx, a, func(c2 *sfCtx, x ast.Expr) bool {
			cl, isC := ast.Unparen(x).(*ast.CallExpr)
			return isC && strings.HasSuffix(sfCallee(c2.fn.Info(), cl), ".GetHeight")
		})
	}
	for _, ft := range sfFactsAt(sfRoot(f), s) {
		b, isB := ast.Unparen(ft.e).(*ast.BinaryExpr)
		if !isB {
			continue
		}
		// header == nil || height < 1   holds
		if ft.val && b.Op == token.LOR {
			dj := engine.Conjuncts(b, token.LOR)
			if len(dj) == 2 && ((isNilHdr(ft.ctx, dj[0], token.EQL) && lowHeight(ft.ctx, dj[1], token.LSS)) || (isNilHdr(ft.ctx, dj[1], token.EQL) && lowHeight(ft.ctx, dj[0], token.LSS))) {
				return true
			}
		}
		// header != nil && height >= 1  does not hold
		if !ft.val && b.Op == token.LAND {
			cj := engine.Conjuncts(b, token.LAND)
			if len(cj) == 2 && ((isNilHdr(ft.ctx, cj[0], token.NEQ) && lowHeight(ft.ctx, cj[1], token.GEQ)) || (isNilHdr(ft.ctx, cj[1], token.NEQ) && lowHeight(ft.ctx, cj[0], token.GEQ))) {
				return true
			}
		}
	}
	return false
}

func c28SimNoWrite(c *engine.Ctx, p *engine.Prog) {
	f := c.MustFunc(c28BA + "runTx")
	if f == nil {
		return
	}
	n := 0
	// "mode" is whatever originates from a Mode() call (local of runTx, captured by its closures, or passed to helpers)
	isMode := func(cx *sfCtx, e ast.Expr) bool {
		return sfOperandIs(cx, e, func(c2 *sfCtx, x ast.Expr) bool {
			cl, ok := ast.Unparen(x).(*ast.CallExpr)
			return ok && strings.HasSuffix(sfCallee(c2.fn.Info(), cl), ".Mode")
		})
	}
	modeIs := func(name string, op token.Token) func(*sfCtx, ast.Expr) bool {
		return func(cx *sfCtx, e ast.Expr) bool {
			a, b, o, ok := sfCmp(e)
			if !ok {
				return false
			}
			if k, isK := engine.ObjOf(cx.fn.Info(), a).(*types.Const); isK && k.Name() == name {
				a, b = b, a
			}
			k, isK := engine.ObjOf(cx.fn.Info(), b).(*types.Const)
			return o == op && isK && k.Name() == name && isMode(cx, a)
		}
	}
	for _, body := range append([]*engine.Fn{f}, f.AllLits()...) {
		stop := func(nm string) bool { return nm == c28BA+"runMsgs" || nm == c28BA+"cacheTxContext" }
		for _, d := range sfDeepCalls(body, 2, stop, func(cx *sfCtx, s *engine.Site) bool {
			return engine.MatchName(s.CalleeName(), "tm2/pkg/store/types.(MultiStore).MultiWrite", "tm2/pkg/store/types.(Checkpointable).WriteCheckpoint", "tm2/pkg/store/types.(Store).Write")
		}) {
			facts := d.facts()
			ok := sfKnown(facts, true, modeIs("RunTxModeDeliver", token.EQL)) || sfKnown(facts, true, modeIs("RunTxModeCheck", token.EQL)) ||
				sfKnown(facts, false, modeIs("RunTxModeDeliver", token.NEQ)) || sfKnown(facts, false, modeIs("RunTxModeCheck", token.NEQ))
			n++
			c.Check("sim-no-write", body.Name+" "+d.callee(), d.where(), ok, "a store flush in runTx must be unreachable when mode == RunTxModeSimulate")
		}
	}
	c.Floor("sim-no-write", n, 4)
}

func c28QueryView(c *engine.Ctx, p *engine.Prog) {
	n := 0
	const wrap = "tm2/pkg/store/types.(CommitMultiStore).MultiImmutableCacheWrapWithVersion"
	for _, name := range []string{c28SDK + ".handleQueryCustom", c28BA + "Simulate"} {
		f := c.MustFunc(name)
		if f == nil {
			continue
		}
		info := f.Info()
		ws := f.CallsTo(wrap)
		if len(ws) != 1 {
			c.Undecided("query-view", name, "expected exactly one MultiImmutableCacheWrapWithVersion call")
			continue
		}
		w := ws[0]
		as, _ := w.Top.(*ast.AssignStmt)
		if as == nil || len(as.Lhs) != 3 {
			c.Undecided("query-view", name, "result of MultiImmutableCacheWrapWithVersion not bound to (ms, release, err)")
			continue
		}
		msObj, relObj := engine.ObjOf(info, as.Lhs[0]), engine.ObjOf(info, as.Lhs[1])
		// every NewContext on the non-fallback path takes msObj
		cnt := 0
		for _, s := range f.CallsTo(c28SDK + ".NewContext") {
			cnt++
			n++
			viaWrap := sfAllLeafs(sfLeafs(sfRoot(f), s.Call.Args[1], s, 3, func(cx *sfCtx, cl *ast.CallExpr) bool { return true }), func(l sfLeaf) bool {
				return l.e != nil && ast.Unparen(l.e) == ast.Expr(w.Call) && l.idx == 0
			})
			_ = msObj
			c.Check("query-view", name+" context over the immutable versioned view", s.Pos(), viaWrap && f.Graph().Dominates(w, s),
				"NewContext must receive the MultiStore returned by MultiImmutableCacheWrapWithVersion")
		}
		n++
		c.Check("query-view", name+" builds a query context", f.Pos(), cnt >= 1, "")
		n++
		c.Check("query-view", name+" checks the view error", w.Pos(), sfErrHandled(f, w.Call, false), "")
		rel := false
		for _, s := range f.Calls() {
			if s.Deferred && engine.ObjOf(info, s.Call.Fun) == relObj && relObj != nil {
				if ds := f.SiteOf(c28DeferOf(f, s.Call)); ds != nil {
					extra := 0
					for _, g := range f.Graph().Gates(ds) {
						if g.Block != w.Block && f.Graph().BlockDominates(g.Block, w.Block) {
							continue // guard that already precedes the acquisition
						}
						if !sfErrCmp(f.Info(), g.Cond) || g.OnTrue {
							extra++
						}
					}
					if extra == 0 && f.Graph().Dominates(w, ds) {
						rel = true
					}
				}
			}
		}
		n++
		c.Check("query-view", name+" defers release of the snapshot reference", w.Pos(), rel, "release() must be deferred on every path that obtained the view")
	}
	if f := c.MustFunc(c28SDK + ".handleQueryStore"); f != nil {
		iq := f.CallsTo("tm2/pkg/store/types.(ImmutableQueryer).QueryImmutable")
		live := f.CallsTo("tm2/pkg/store/types.(Queryable).Query")
		ok := len(iq) == 1 && len(live) == 1 && f.Graph().ReachableAfter(iq[0], live[0])
		if ok {
			// the snapshot answer is returned whenever err == nil: the return inside `if err == nil` is gated only by that test and the type assertion
			ok = false
			info := f.Info()
			for _, r := range sfReturns(f) {
				st := f.SiteOf(r)
				if st == nil || !f.Graph().Dominates(iq[0], st) || f.Graph().ReachableAfter(live[0], st) {
					continue
				}
				gs := f.Graph().Gates(st)
				good := len(gs) > 0
				for _, g := range gs {
					if sfErrCmp(f.Info(), g.Cond) && len(engine.Atoms(g.Cond)) == 1 {
						_, _, op, _ := sfCmp(g.Cond)
						if (op == token.EQL) != g.OnTrue {
							good = false
						}
						continue
					}
					if id, isId := ast.Unparen(g.Cond).(*ast.Ident); isId && g.OnTrue {
						// comma-ok of the ImmutableQueryer assertion
						defs, _ := sfDefs(f, info.ObjectOf(id))
						isTA := false
						for _, d := range defs {
							if _, ok := ast.Unparen(d).(*ast.TypeAssertExpr); ok {
								isTA = true
							}
						}
						if isTA {
							continue
						}
					}
					// earlier early-return guards (Height/Prove) gate on their false branch
					if !g.OnTrue && f.Graph().BlockDominates(g.Block, iq[0].Block) {
						continue
					}
					good = false
				}
				if good {
					ok = true
				}
			}
		}
		n++
		c.Check("query-view", c28SDK+".handleQueryStore prefers the snapshot-isolated path", f.Pos(), ok, "QueryImmutable must be tried first and its answer returned whenever it succeeds; the live path only on error")
	}
	c.Floor("query-view", n, 9)
}

// c28DeferOf returns the DeferStmt whose call is cl.
func c28DeferOf(f *engine.Fn, cl *ast.CallExpr) ast.Node {
	var out ast.Node = cl
	engine.InspectBody(f, func(x ast.Node) {
		if d, ok := x.(*ast.DeferStmt); ok && d.Call == cl {
			out = d
		}
	})
	return out
}

func c28Rootmulti(c *engine.Ctx, p *engine.Prog) {
	const RM = "tm2/pkg/store/rootmulti"
	const MS = RM + ".(*multiStore)."
	n := 0
	if f := c.MustFunc(MS + "MultiImmutableCacheWrapWithVersion"); f != nil {
		info := f.Info()
		cm := f.CallsTo("tm2/pkg/store/cachemulti.New")
		ia := f.CallsTo(MS + "immutableAtVersion")
		ok := len(cm) == 1 && len(ia) == 1
		why := "expected one immutableAtVersion and one cachemulti.New call"
		if ok {
			mobj := engine.ObjOf(info, cm[0].Call.Args[0])
			cnt, bad := 0, 0
			engine.InspectBody(f, func(x ast.Node) {
				as, isAs := x.(*ast.AssignStmt)
				if !isAs || len(as.Lhs) != 1 {
					return
				}
				ix, isIx := as.Lhs[0].(*ast.IndexExpr)
				if !isIx || engine.ObjOf(info, ix.X) != mobj {
					return
				}
				cnt++
				if _, isC := sfIsCallTo(info, as.Rhs[0], "tm2/pkg/store/immut.New"); !isC {
					bad++
				}
			})
			ok = mobj != nil && cnt >= 1 && bad == 0
			why = "every store handed to the query cache-multistore must be wrapped by immut.New"
			if ok {
				// the map is freshly made here (not ims.stores itself)
				defs, clean := sfDefs(f, mobj)
				ok = clean && len(defs) == 1
				if ok {
					cl, isC := ast.Unparen(defs[0]).(*ast.CallExpr)
					ok = isC && engine.IsBuiltinCall(info, cl, "make")
				}
				why = "the stores map must be a fresh map filled only with immut wrappers"
			}
		}
		n++
		c.Check("immut-wrap", MS+"MultiImmutableCacheWrapWithVersion", f.Pos(), ok, why)
	}
	for _, m := range []string{"Set", "Delete", "Write"} {
		name := "tm2/pkg/store/immut.(immutStore)." + m
		f := c.MustFunc(name)
		if f == nil {
			continue
		}
		n++
		c.Check("immut-wrap", name+" cannot return normally", f.Pos(), p.NoReturn(f.Obj), "a write through an immutable query store must panic")
	}
	c.Floor("immut-wrap", n, 4)

	k := 0
	snapF := p.Field(RM + ".multiStore.querySnapshot")
	muF := p.Field(RM + ".multiStore.snapshotMu")
	// underLock: every protected site is dominated by a Lock of the mutex field and cannot run after an Unlock
	underLock := func(f *engine.Fn, lockM, unlockM string, protected []sfDS) bool {
		locks := sfDeepFieldCalls(f, 3, muF, lockM)
		unlocks := sfDeepFieldCalls(f, 3, muF, unlockM)
		if len(locks) == 0 || len(unlocks) == 0 || len(protected) == 0 {
			return false
		}
		for _, pt := range protected {
			held := false
			for _, l := range locks {
				if sfDomDS(l, pt) {
					held = true
				}
			}
			if !held {
				return false
			}
			for _, u := range unlocks {
				if u.site.Deferred {
					continue // runs when the function that locked returns
				}
				if sfReachAfterDS(u, pt) {
					return false
				}
			}
		}
		return true
	}
	notNil := func(facts []sfFact, what func(*sfCtx, ast.Expr) bool) bool {
		return sfKnown(facts, true, func(cx *sfCtx, e ast.Expr) bool {
			a, b, op, isC := sfCmp(e)
			return isC && op == token.NEQ && isNil(b) && (what == nil || what(cx, a))
		}) || sfKnown(facts, false, func(cx *sfCtx, e ast.Expr) bool {
			a, b, op, isC := sfCmp(e)
			return isC && op == token.EQL && isNil(b) && (what == nil || what(cx, a))
		})
	}
	if f := c.MustFunc(MS + "immutableAtVersion"); f != nil {
		_ = f.Info()
		ld := sfDeepFieldCalls(f, 3, snapF, "Load")
		acq := sfDeepCallsTo(f, 3, RM+".(*refSnapshot).acquire")
		ok := len(ld) >= 1 && len(acq) >= 1 && underLock(f, "RLock", "RUnlock", append(append([]sfDS{}, ld...), acq...))
		for _, a := range acq {
			okA := false
			for _, l := range ld {
				if sfDomDS(l, a) {
					okA = true
				}
			}
			ok = ok && okA
		}
		k++
		c.Check("snapshot-pin", MS+"immutableAtVersion Load+acquire under snapshotMu.RLock", f.Pos(), ok, "RLock must dominate Load and acquire; RUnlock only afterwards")
		// acquire only on a non-nil snapshot, and the matching release is what is handed out
		ok = len(acq) >= 1
		for _, a := range acq {
			ok = ok && notNil(a.facts(), nil)
		}
		// a "release value": originates from the method value <refSnapshot>.release (or a no-op literal on the fallback path)
		isReleaseValue := func(cx *sfCtx, e ast.Expr, at *engine.Site) bool {
			real := 0
			ok := sfAllLeafs(sfLeafs(cx, e, at, 5, nil), func(l sfLeaf) bool {
				if l.e == nil {
					return false
				}
				if _, isLit := ast.Unparen(l.e).(*ast.FuncLit); isLit {
					return true
				}
				se, isSel := ast.Unparen(l.e).(*ast.SelectorExpr)
				if !isSel {
					return false
				}
				fn, isFn := l.ctx.fn.Info().Uses[se.Sel].(*types.Func)
				if isFn && engine.FuncName(fn) == RM+".(*refSnapshot).release" {
					real++
					return true
				}
				return false
			})
			return ok && real >= 1
		}
		handsOut := false
		for _, r := range sfReturns(f) {
			if len(r.Results) == 3 && !isNil(r.Results[1]) && isReleaseValue(sfRoot(f), r.Results[1], f.SiteOf(r)) {
				handsOut = true
			}
		}
		k++
		c.Check("snapshot-pin", MS+"immutableAtVersion hands out the matching release", f.Pos(), ok && handsOut, "the acquired reference's release method must be the returned release func")
		// error path of LoadVersion releases
		lv := sfDeepCallsTo(f, 2, MS+"LoadVersion")
		ok = false
		if len(lv) == 1 {
			for _, s := range f.Calls() {
				if s.Deferred || !sfDomDS(lv[0], sfDS{sfRoot(f), s}) || !isReleaseValue(sfRoot(f), s.Call.Fun, s) {
					continue
				}
				facts := sfFactsAt(sfRoot(f), s)
				failed := sfKnown(facts, true, func(cx *sfCtx, e ast.Expr) bool {
					_, _, op, isC := sfCmp(e)
					return isC && op == token.NEQ && sfErrCmp(cx.fn.Info(), e)
				}) || sfKnown(facts, false, func(cx *sfCtx, e ast.Expr) bool {
					_, _, op, isC := sfCmp(e)
					return isC && op == token.EQL && sfErrCmp(cx.fn.Info(), e)
				})
				if failed {
					ok = true
				}
			}
		}
		k++
		c.Check("snapshot-pin", MS+"immutableAtVersion releases on LoadVersion error", f.Pos(), ok, "the snapshot reference must not leak when the view cannot be built")
		// the view's db is the snapshot (or the immutable wrapper), never ms.db itself
		ok = false
		ast.Inspect(f.Body, func(x ast.Node) bool {
			kv, isKV := x.(*ast.KeyValueExpr)
			if !isKV {
				return true
			}
			if id, isId := kv.Key.(*ast.Ident); isId && id.Name == "db" {
				isView := func(cx *sfCtx, e ast.Expr) bool {
					_, a := sfIsCallTo(cx.fn.Info(), e, "tm2/pkg/db.NewSnapshotDB")
					_, b := sfIsCallTo(cx.fn.Info(), e, "tm2/pkg/db.NewImmutableDB")
					return a || b
				}
				ok = sfAllLeafs(sfLeafs(sfRoot(f), kv.Value, f.SiteOf(kv), 5, func(cx *sfCtx, cl *ast.CallExpr) bool { return isView(cx, cl) }), func(l sfLeaf) bool {
					return l.e != nil && isView(l.ctx, l.e)
				})
			}
			return true
		})
		k++
		c.Check("snapshot-pin", MS+"immutableAtVersion view reads a frozen or write-proof DB", f.Pos(), ok, "ims.db must be NewSnapshotDB(rs.snap) or NewImmutableDB(ms.db)")
	}
	if f := c.MustFunc(MS + "QueryImmutable"); f != nil {
		info := f.Info()
		ia := f.CallsTo(MS + "immutableAtVersion")
		ok := false
		if len(ia) == 1 {
			for _, s := range f.Calls() {
				if !s.Deferred {
					continue
				}
				// the deferred callee is result #1 of immutableAtVersion
				if sfAllLeafs(sfLeafs(sfRoot(f), s.Call.Fun, s, 3, func(cx *sfCtx, cl *ast.CallExpr) bool { return true }), func(l sfLeaf) bool {
					return l.e != nil && ast.Unparen(l.e) == ast.Expr(ia[0].Call) && l.idx == 1
				}) {
					ok = true
				}
			}
		}
		_ = info
		k++
		c.Check("snapshot-pin", MS+"QueryImmutable defers release", f.Pos(), ok, "")
	}
	if f := c.MustFunc(MS + "refreshQuerySnapshot"); f != nil {
		sw := sfDeepFieldCalls(f, 3, snapF, "Swap")
		rel := sfDeepCallsTo(f, 3, RM+".(*refSnapshot).release")
		ok := len(sw) >= 1 && len(rel) >= 1 && underLock(f, "Lock", "Unlock", append(append([]sfDS{}, sw...), rel...))
		for _, r := range rel {
			after := false
			for _, w := range sw {
				if sfDomDS(w, r) {
					after = true
				}
			}
			ok = ok && after
		}
		k++
		c.Check("snapshot-pin", MS+"refreshQuerySnapshot Swap+release under snapshotMu.Lock", f.Pos(), ok, "")
	}
	if f := c.MustFunc(RM + ".(*refSnapshot).release"); f != nil {
		cl := f.CallsTo("tm2/pkg/db.(Snapshot).Close")
		ok := len(cl) == 1 && sfHolds(f, cl[0], true, func(e ast.Expr) bool {
			a, b, op, isC := sfCmp(e)
			if !isC || op != token.EQL || !sfIsIntLit(b, "0") {
				return false
			}
			call, isCall := ast.Unparen(a).(*ast.CallExpr)
			return isCall && strings.HasSuffix(sfCallee(f.Info(), call), ".Add") && len(call.Args) == 1 && sfIsIntLit(call.Args[0], "-1")
		})
		k++
		c.Check("snapshot-pin", RM+".(*refSnapshot).release closes only at zero", f.Pos(), ok, "snap.Close() must be gated by refs.Add(-1) == 0")
	}
	c.Floor("snapshot-pin", k, 7)
}

func c28Mutex(c *engine.Ctx, p *engine.Prog) {
	const PX = "tm2/pkg/bft/proxy"
	n := 0
	fieldArg := func(f *engine.Fn) *types.Var {
		for _, s := range f.CallsTo("tm2/pkg/bft/abci/client.NewLocalClient") {
			if u, ok := ast.Unparen(s.Call.Args[0]).(*ast.UnaryExpr); ok && u.Op == token.AND {
				return sfSelField(f.Info(), u.X)
			}
		}
		return nil
	}
	a := c.MustFunc(PX + ".(*localClientCreator).NewABCIClient")
	b := c.MustFunc(PX + ".(*localClientCreator).NewReadOnlyABCIClient")
	if a != nil && b != nil {
		fa, fb := fieldArg(a), fieldArg(b)
		n++
		c.Check("query-mutex", PX+".localClientCreator query client has its own mutex", b.Pos(), fa != nil && fb != nil && fa != fb,
			"NewReadOnlyABCIClient must pass a mutex field different from the consensus/mempool one")
	}
	if f := c.MustFunc("tm2/pkg/bft/appconn.(*multi).OnStart"); f != nil {
		info := f.Info()
		from := func(m string) func(ast.Expr) bool {
			return func(e ast.Expr) bool {
				cl, ok := ast.Unparen(e).(*ast.CallExpr)
				return ok && strings.HasSuffix(sfCallee(info, cl), ".(ClientCreator)."+m)
			}
		}
		for _, tc := range []struct{ conn, creator string }{{"NewQuery", "NewReadOnlyABCIClient"}, {"NewMempool", "NewABCIClient"}, {"NewConsensus", "NewABCIClient"}} {
			ss := f.CallsTo("tm2/pkg/bft/appconn." + tc.conn)
			ok := len(ss) == 1 && sfDerives(f, ss[0].Call.Args[0], from(tc.creator), 2)
			n++
			c.Check("query-mutex", "tm2/pkg/bft/appconn.(*multi).OnStart "+tc.conn+" <- "+tc.creator, f.Pos(), ok, "")
		}
	}
	// every localClient method that calls into the Application holds the client's mutex
	k := 0
	for _, f := range sfMethodsOf(p, "tm2/pkg/bft/abci/client", "localClient") {
		callsApp := false
		for _, s := range f.Calls() {
			if strings.HasPrefix(s.CalleeName(), "tm2/pkg/bft/abci/types.(Application).") {
				callsApp = true
			}
		}
		if !callsApp {
			continue
		}
		ok, why := locksFirst(f, "mtx")
		k++
		c.Check("query-mutex", f.Name+" holds the client mutex", f.Pos(), ok, why)
	}
	c.Floor("query-mutex", n+k, 4+18)
}

func c28Keeper(c *engine.Ctx, p *engine.Prog) {
	const VM = "gno.land/pkg/sdk/vm"
	const K = VM + ".(*VMKeeper)."
	n := 0
	for _, f := range sfMethodsOf(p, VM, "VMKeeper") {
		short := strings.TrimPrefix(f.Name, K)
		if !strings.HasPrefix(short, "Query") && short != "withQueryEvalMachine" && short != "exportObject" {
			continue
		}
		// through private helpers and closures, any depth up to 3
		count := func(pats ...string) int {
			k := 0
			for _, body := range append([]*engine.Fn{f}, f.AllLits()...) {
				k += len(sfDeepCallsTo(body, 3, pats...))
			}
			return k
		}
		fresh := count(K + "newGnoTransactionStore")
		viaHelper := 0
		tx := count(K+"getGnoTransactionStore", K+"CommitGnoTransactionStore", K+"MakeGnoTransactionStore")
		wr := 0
		for _, s := range f.CallsToDeep(".Write") {
			if strings.Contains(s.CalleeName(), "TransactionStore") || strings.Contains(s.CalleeName(), "gnolang") {
				wr++
			}
		}
		n++
		c.Check("keeper-query", f.Name, f.Pos(), (fresh >= 1 || viaHelper >= 1) && tx == 0 && wr == 0,
			"query entry points must work on a throw-away transaction store (newGnoTransactionStore), never on the tx store or its commit")
	}
	c.Floor("keeper-query", n, 12)
}
