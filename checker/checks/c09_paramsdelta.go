package checks

import (
	"go/ast"
	"strings"

	"gnoverif/engine"
)

// C09 extra — every params-store write made by the vm package on behalf of a
// realm accounts its byte delta: the int returned by ParamsKeeperI.Set* is bound
// and passed, with the same key, to recordParamsDelta on every path. (Added
// after an independently seeded change made UpdateStrings write through the
// keeper directly, dropping the delta.)
func init() {
	extend("C09", c09ParamsDelta)
	mutants("C09",
		Mutant{"params-write-bypasses-delta", "gno.land/pkg/sdk/vm/builtins.go", "	prm.SetStrings(key, updatedList)\n", "	prm.pmk.SetStrings(prm.ctx, key, updatedList)\n", "params-write-accounted"},
		Mutant{"params-delta-dropped", "gno.land/pkg/sdk/vm/builtins.go", "		diff := prm.pmk.SetBytes(prm.ctx, key, value)\n\t\trecordParamsDelta(prm.ctx, prm.pmk, key, diff)\n", "		diff := prm.pmk.SetBytes(prm.ctx, key, value)\n\t\t_ = diff\n", "params-write-accounted"},
	)
}

func c09ParamsDelta(c *engine.Ctx) {
	p := progWith(c, "gno.land/pkg/sdk/vm")
	if p == nil {
		return
	}
	n := 0
	for _, f := range p.FuncsIn("gno.land/pkg/sdk/vm") {
		for _, s := range f.Calls() {
			name := s.CalleeName()
			if !strings.HasPrefix(name, "gno.land/pkg/sdk/vm.(ParamsKeeperI).Set") && !strings.HasPrefix(name, "tm2/pkg/sdk/params.(ParamsKeeperI).Set") {
				continue
			}
			switch name[strings.LastIndex(name, ".")+1:] {
			case "SetString", "SetBool", "SetInt64", "SetUint64", "SetBytes", "SetStrings":
			default:
				continue // SetStruct/SetAny write module-level params (vm's own), never realm-attributable keys
			}
			// meta-key bookkeeping writes (FlushParamsRealmAccum) are the accounting itself
			root := f.Root().Name
			if root == "gno.land/pkg/sdk/vm.FlushParamsRealmAccum" {
				continue
			}
			n++
			key := root + " " + name[strings.LastIndex(name, ".")+1:]
			as, ok := s.Top.(*ast.AssignStmt)
			if !ok || len(as.Lhs) != 1 {
				c.Check("params-write-accounted", key, s.Pos(), false, "the byte delta returned by the params write is dropped; it must be passed to recordParamsDelta so the realm's storage/deposit follows its params bytes")
				continue
			}
			diff := engine.ObjOf(f.Info(), as.Lhs[0])
			okRec, why := false, "no recordParamsDelta(…, key, diff) follows the write on every path"
			for _, r := range f.CallsTo("gno.land/pkg/sdk/vm.recordParamsDelta") {
				if len(r.Call.Args) != 4 || engine.ObjOf(f.Info(), r.Call.Args[3]) != diff {
					continue
				}
				// same key expression as the write
				if len(s.Call.Args) >= 2 && engine.ExprString(r.Call.Args[2]) != engine.ExprString(s.Call.Args[1]) {
					why = "recordParamsDelta is called with a different key than the write"
					continue
				}
				g := f.Graph()
				if g.Dominates(s, r) && len(g.Gates(r)) == len(g.Gates(s)) {
					okRec = true
				} else {
					why = "recordParamsDelta is conditional or does not follow the write"
				}
			}
			c.Check("params-write-accounted", key, s.Pos(), okRec, why)
		}
	}
	c.Floor("params-write-accounted", n, 6)
}
