package checks

import (
	"go/ast"
	"go/token"
	"go/types"
	"strings"

	"gnoverif/engine"
)

// C01 — deterministic replay: no order-sensitive map iteration and no
// process-level nondeterminism source in the consensus path; gas independent of
// process-lifetime caches; both boot paths populate the stdlib byte cache.
func init() {
	register("C01", c01)
	meta("C01", Meta{
		Text:      "Decides that the consensus-path packages (gnolang VM, stdlib natives, vm keeper, gnoland app, tm2 sdk/auth/bank/params, store layers, bptree, iavl, std) contain no source of process-level nondeterminism: every `range` over a Go map is classified order-insensitive by a body recogniser (keyed writes into maps, deletes, commutative integer accumulation, collect-then-sort, constant-result existence tests) or is listed in a frozen exemption table with a reason; every time/rand/env call, go statement and select is listed likewise; amino-decode gas is charged before the process-wide decode cache is consulted; the stdlib byte cache has a single writer and is populated on both the restart and the genesis boot path; the multistore commit hash is built from a sorted map. Level 'other': absence of the known sources, not equality of hashes.",
		Note:      "Not covered: hash equality across DB backends/restarts (a behaviour), third-party nondeterminism, float formatting, goroutine interleavings inside exempted helpers (iavl/bptree exporters, pruning). New map-range sites that the recogniser cannot classify fail until reviewed and tabled.",
		Technique: "R-DET: typed AST enumeration of map ranges / nondeterminism sources over the consensus packages with a body classifier and an exemption table; go/cfg dominance (gas before cache); who-may-write/who-may-call tables",
		Ref:       "DESIGN.md §2 C01",
	})
	mutants("C01",
		Mutant{"foreign-realm-map-order", "gnovm/pkg/gnolang/realm.go", "	for _, pid := range pids {\n\t\tfr := rlm.touchedForeignRealms[pid]\n", "	for pid := range rlm.touchedForeignRealms {\n\t\tfr := rlm.touchedForeignRealms[pid]\n", "det-map-range"},
		Mutant{"deposit-unsorted", "gno.land/pkg/sdk/vm/keeper.go", "	slices.SortFunc(sortedRealm, strings.Compare)\n", "", "det-map-range"},
		Mutant{"cache-write-unsorted", "tm2/pkg/store/cache/store.go", "	sort.Strings(keys)\n\n\t// Use Batch if the parent is a dbadapter", "	// Use Batch if the parent is a dbadapter", "det-map-range"},
		Mutant{"time-in-keeper", "gno.land/pkg/sdk/vm/keeper.go", "func (vm *VMKeeper) CommitGnoTransactionStore(ctx sdk.Context) {\n", "func (vm *VMKeeper) CommitGnoTransactionStore(ctx sdk.Context) {\n\t_ = time.Now()\n", "det-source"},
		Mutant{"gas-after-cache", "gnovm/pkg/gnolang/store.go", "			gas := overflow.Mulp(ds.gasConfig.GasAminoDecode, store.Gas(len(bz)))\n\t\t\tds.consumeGas(gas, GasAminoDecodeDesc)\n\t\t\tif trace.StoreGasEnabled {\n\t\t\t\ttrace.Store(\"DECODE_TYPE\", gas, []byte(key), len(bz), \"none\")\n\t\t\t}\n\t\t\tcacheSum := sha256.Sum256(bz)\n\t\t\tvar tt Type\n\t\t\tif val, ok := ds.aminoCache.Get(cacheSum[:]); ok {\n\t\t\t\ttt = copyTypeWithRefs(val)\n\t\t\t} else {\n", "			gas := overflow.Mulp(ds.gasConfig.GasAminoDecode, store.Gas(len(bz)))\n\t\t\tif trace.StoreGasEnabled {\n\t\t\t\ttrace.Store(\"DECODE_TYPE\", gas, []byte(key), len(bz), \"none\")\n\t\t\t}\n\t\t\tcacheSum := sha256.Sum256(bz)\n\t\t\tvar tt Type\n\t\t\tif val, ok := ds.aminoCache.Get(cacheSum[:]); ok {\n\t\t\t\ttt = copyTypeWithRefs(val)\n\t\t\t} else {\n\t\t\t\tds.consumeGas(gas, GasAminoDecodeDesc)\n", "gas-before-cache"},
		Mutant{"restart-skips-stdlib-cache", "gno.land/pkg/sdk/vm/keeper.go", "		vm.gnoStore.PopulateStdlibCache(stdlibs.InitOrder())\n\n\t\tlogger.Debug", "		logger.Debug", "stdlib-cache-boot"},
		Mutant{"stdlib-cache-second-writer", "gnovm/pkg/gnolang/store.go", "		ds.cacheTypes[tid] = tt\n\t}\n}\n", "		ds.cacheTypes[tid] = tt\n\t\tds.stdlibKeyBytes[string(tid)] = nil\n\t}\n}\n", "who-may-write"},
		Mutant{"new-map-range-with-store-write", "tm2/pkg/sdk/bank/supply.go", "		if amount != 0 {\n\t\t\tstor.Set(nil, SupplyKey(denom), encodeBalance(amount))", "		if amount != 0 {\n\t\t\tstor.Set(ctx.GasContext(), SupplyKey(denom), encodeBalance(amount))", "det-map-range"},
	)
}

// consensus-path packages scanned by R-DET.
var c01Packages = []string{
	"gnovm/pkg/gnolang", "gnovm/stdlibs/...", "gno.land/pkg/sdk/vm", "gno.land/pkg/gnoland",
	"tm2/pkg/sdk", "tm2/pkg/sdk/auth", "tm2/pkg/sdk/bank", "tm2/pkg/sdk/params",
	"tm2/pkg/store/...", "tm2/pkg/bptree", "tm2/pkg/iavl", "tm2/pkg/std", "tm2/pkg/bft/types", "tm2/pkg/crypto/merkle",
}

// c01PureFuncs: repo functions confirmed by reading to be free of side effects
// (usable inside an order-insensitive loop body).
var c01PureFuncs = map[string]bool{
	"tm2/pkg/db.IsKeyInDomain": true,
}

// c01MapExempt: map-range sites the recogniser cannot classify, confirmed by
// reading. Key: function name + " range " + ranged expression.
var c01MapExempt = map[string]string{
	"gno.land/pkg/gnoland.LoadGenesisParamsFile range m":        "genesis-file generation helper (params TOML → GenesisState), not on the replay path; params are later applied by key",
	"gno.land/pkg/gnoland.LoadGenesisParamsFile range values":   "same helper; RealmParams are applied by key",
	"gno.land/pkg/gnoland.LoadGenesisParamsFile range vmparams": "same helper; each name sets a distinct field, unknown name is an error either way",
	"gnovm/pkg/gnolang.(*Attributes).GetAttributeKeys range attr.data": "preprocessor attribute keys for debugging/transcription; not used by execution or persistence",
	"gnovm/pkg/gnolang.(*defaultStore).GarbageCollectObjectCache range ds.cacheObjects": "keyed deletes from two in-memory maps guarded by per-object pure getters; no gas, no store access",
	"gnovm/pkg/gnolang.(*defaultStore).Print range ds.cacheTypes":                       "debug printing only",
	"gnovm/pkg/gnolang.applySpecifics range lookup":                                     "defines names into a temporary static block used only to evaluate one generic type expression; lookups are by name, result independent of definition order",
	"tm2/pkg/iavl.(*nodeDB).DeleteVersionsFrom range ndb.versionReaders":                "existence test for active readers; only the error text depends on order and pruning is not part of the replicated state machine",
	"tm2/pkg/iavl.(*nodeDB).deleteVersionsTo range ndb.versionReaders":                  "same existence test",
	"tm2/pkg/sdk/bank.(BankKeeper).RecomputeSupply range totals":                        "keyed Set with a nil gas context (no metering): final store content independent of order",
	"tm2/pkg/store/cache.(*cacheStore).Print range store.cache":                         "debug printing only",
	"tm2/pkg/store/cachemulti.(Store).WriteCheckpoint range cms.stores":                 "sub-stores are independent key spaces with independent parents; flush uses a nil gas context",
	"tm2/pkg/store/cachemulti.(Store).MultiWrite range cms.stores":                      "same: independent sub-stores, unmetered flush",
	"tm2/pkg/store/cachemulti.(Store).Checkpoint range cms.stores":                      "same: per-store snapshot",
	"tm2/pkg/store/cachemulti.(Store).HasCheckpoint range cms.stores":                   "boolean OR over stores",
	"tm2/pkg/store/cachemulti.NewFromStores range stores":                               "keyed insert of CacheWrap() per store",
	"tm2/pkg/store/rootmulti.(*multiStore).SetStoreOptions range ms.stores":             "same option applied to every store",
	"tm2/pkg/store/rootmulti.(*multiStore).LoadVersion range ms.storesParams":           "stores loaded independently into a keyed map; an error aborts node start regardless of which store reports first",
	"tm2/pkg/store/rootmulti.(*multiStore).SetInitialVersion range ms.stores":           "same value applied to every store",
	"tm2/pkg/store/rootmulti.(*multiStore).nameToKey range ms.storesParams":             "lookup by unique name",
	"tm2/pkg/store/rootmulti.commitStores range storeMap":                               "each sub-store commits independently into the shared collector (keyed writes); the commit hash is taken from SimpleHashFromMap (sorted) — checked by rule commit-hash-sorted",
	"tm2/pkg/store/rootmulti.(*multiStore).MultiImmutableCacheWrapWithVersion range ims.stores": "keyed insert of immutable wrappers",
	"tm2/pkg/crypto/merkle.SimpleHashFromMap range m":   "collects into a simpleMap, which sorts its pairs before hashing (rule commit-hash-sorted checks Sort)",
	"tm2/pkg/crypto/merkle.SimpleProofsFromMap range m": "same: collected into a simpleMap and sorted before proofs are built",
}

// exemptions whose reason is "the store calls are unmetered (nil gas context)".
var c01ExemptNeedsNilGas = map[string]bool{
	"tm2/pkg/sdk/bank.(BankKeeper).RecomputeSupply range totals": true,
}

// c01SourceExempt: nondeterminism-source sites (time/rand/env/go/select),
// keyed by enclosing root function + kind.
var c01SourceExempt = map[string]string{
	"gno.land/pkg/gnoland.(InitChainerConfig).InitChainer time.Now":   "elapsed-time logging of genesis loading; value only reaches the logger",
	"gno.land/pkg/gnoland.(InitChainerConfig).InitChainer time.Since": "same",
	"gno.land/pkg/gnoland.NewDefaultGenesisConfig time.Now":           "builds a fresh genesis document for in-memory/dev nodes; replay uses the stored genesis",
	"gno.land/pkg/sdk/vm.(*VMKeeper).Initialize time.Now":             "elapsed-time logging of package preprocessing at boot",
	"gno.land/pkg/sdk/vm.(*VMKeeper).Initialize time.Since":           "same",
	"gnovm/pkg/gnolang.init go":                                       "debug HTTP/pprof server behind the debug flag",
	"gnovm/pkg/gnolang.(*defaultStore).IterMemPackage go":             "producer goroutine feeding a channel in store iteration order (sequential consumer); used by genesis export/boot, not by tx execution",
	"tm2/pkg/bptree.(*ImmutableTree).Export go":                       "tree exporter (state sync tooling), read-only",
	"tm2/pkg/iavl.newExporter go":                                     "tree exporter, read-only",
	"tm2/pkg/iavl.(*Importer).writeNode go":                           "importer batches written in order via a result channel; tooling",
	"tm2/pkg/iavl.newNodeDB go":                                       "background pruning worker; pruning removes only orphaned versions and is not hashed",
	"tm2/pkg/store/iavl.newIAVLIterator go":                           "iterator producer goroutine, sequential hand-off over an unbuffered channel",
	"gno.land/pkg/gnoland.ReadGenesisTxs select":                      "genesis tx file reader with context cancellation; order fixed by the file",
	"tm2/pkg/bptree.(*Exporter).send select":                          "exporter cancellation",
	"tm2/pkg/iavl.(*Exporter).export select":                          "exporter cancellation",
	"tm2/pkg/iavl.(*nodeDB).startPruning select":                      "pruning worker loop",
	"tm2/pkg/std.ParseTxs select":                                     "tx file reader with context cancellation; order fixed by the reader",
	"tm2/pkg/store/iavl.(*iavlIterator).iterateRoutine select":        "iterator producer with quit channel; sequential hand-off",
}

func c01(c *engine.Ctx) {
	c.Explain = "R-DET over the consensus-path packages: every range-over-map site is order-insensitive by recogniser or tabled with a reason; every time/rand/env/go/select site is tabled; consumeGas dominates aminoCache.Get; stdlibKeyBytes has one writer and both boot paths populate it; commitInfo.Hash is built from a sorted map; ABCIResult covers Error, Data, Events. Not covered: equality of hashes across backends/restarts, third-party code."
	p := c.Load(c01Packages...)
	if p == nil {
		return
	}
	nMap, nSrc := 0, 0
	usedMap := map[string]bool{}
	usedSrc := map[string]bool{}
	for _, f := range p.Funcs() {
		root := f.Root().Name
		engine.InspectBody(f, func(n ast.Node) {
			switch x := n.(type) {
			case *ast.RangeStmt:
				t := f.Info().TypeOf(x.X)
				if t == nil {
					return
				}
				if _, ok := t.Underlying().(*types.Map); !ok {
					return
				}
				nMap++
				key := root + " range " + engine.ExprString(x.X)
				if why, ok := c01MapExempt[key]; ok {
					usedMap[key] = true
					okCond, whyCond := true, ""
					if c01ExemptNeedsNilGas[key] {
						// the exemption's reason is "unmetered": every store call in the body must pass a nil gas context
						ast.Inspect(x.Body, func(n ast.Node) bool {
							call, isCall := n.(*ast.CallExpr)
							if !isCall || len(call.Args) == 0 {
								return true
							}
							if sel, isSel := call.Fun.(*ast.SelectorExpr); isSel {
								switch sel.Sel.Name {
								case "Set", "Get", "Delete", "Has", "Iterator", "ReverseIterator":
									if tv, has := f.Info().Types[call.Args[0]]; !has || !tv.IsNil() {
										okCond, whyCond = false, "store call `"+engine.ExprString(call)+"` inside the map range is metered (non-nil gas context): gas at an out-of-gas point would depend on map order"
									}
								}
							}
							return true
						})
					}
					c.Check("det-map-range", key, x.Pos(), okCond, "tabled: "+why+" "+whyCond)
					return
				}
				ok, why := c01OrderInsensitive(f, x)
				c.Check("det-map-range", key, x.Pos(), ok, why)
			case *ast.GoStmt:
				nSrc++
				key := root + " go"
				_, ok := c01SourceExempt[key]
				usedSrc[key] = true
				c.Check("det-source", key, x.Pos(), ok, "goroutine started in a consensus-path package without a table entry")
			case *ast.SelectStmt:
				nSrc++
				key := root + " select"
				_, ok := c01SourceExempt[key]
				usedSrc[key] = true
				c.Check("det-source", key, x.Pos(), ok, "select in a consensus-path package without a table entry")
			}
		})
		for _, s := range f.Calls() {
			n := s.CalleeName()
			kind := ""
			switch {
			case strings.HasPrefix(n, "time.Now"), strings.HasPrefix(n, "time.Since"), strings.HasPrefix(n, "time.Until"):
				kind = n
			case strings.HasPrefix(n, "math/rand"), strings.HasPrefix(n, "crypto/rand"):
				kind = n
			case n == "os.Getenv" || n == "os.LookupEnv" || n == "os.Environ" || n == "os.Hostname" || n == "os.Getpid" || strings.HasPrefix(n, "runtime.NumGoroutine") || strings.HasPrefix(n, "runtime.NumCPU") || strings.HasPrefix(n, "runtime.GOMAXPROCS"):
				kind = n
			}
			if kind == "" {
				continue
			}
			nSrc++
			key := root + " " + kind
			_, ok := c01SourceExempt[key]
			usedSrc[key] = true
			c.Check("det-source", key, s.Pos(), ok, "process-level nondeterminism source in a consensus-path package without a table entry")
		}
	}
	c.Floor("det-map-range", nMap, 30)
	c.Floor("det-source", nSrc, 15)

	// gas-before-cache: every aminoCache.Get is dominated by consumeGas.
	nGet := 0
	for _, f := range p.FuncsIn("gnovm/pkg/gnolang") {
		for _, s := range f.Calls() {
			sel, ok := s.Call.Fun.(*ast.SelectorExpr)
			if !ok || sel.Sel.Name != "Get" {
				continue
			}
			inner, ok := sel.X.(*ast.SelectorExpr)
			if !ok || inner.Sel.Name != "aminoCache" {
				continue
			}
			nGet++
			guards := f.CallsTo("gnovm/pkg/gnolang.(*defaultStore).consumeGas")
			c.Check("gas-before-cache", f.Name+" aminoCache.Get", s.Pos(), f.Graph().MustPass(s, guards),
				"decode gas must be charged on every path before the process-wide decode cache is consulted, otherwise gas depends on cache warmth")
		}
	}
	c.Floor("gas-before-cache", nGet, 1)

	// stdlib byte cache: single writer, and both boot paths populate it.
	if fv := p.Field("gnovm/pkg/gnolang.defaultStore.stdlibKeyBytes"); fv == nil {
		c.Undecided("who-may-write", "defaultStore.stdlibKeyBytes", "field not found")
	} else {
		ws := engine.WriterSet(p.FieldWrites(fv), func(w engine.Write) bool { return w.Kind != "lit" })
		extra := engine.SetDiff(ws, []string{"gnovm/pkg/gnolang.(*defaultStore).populateStdlibCache"})
		c.Check("who-may-write", "gnovm/pkg/gnolang.defaultStore.stdlibKeyBytes", fv.Pos(), len(extra) == 0 && len(ws) >= 1,
			"only populateStdlibCache may fill the byte cache (it bypasses I/O gas); writers: "+join(ws))
	}
	pop := []string{"gnovm/pkg/gnolang.(*defaultStore).PopulateStdlibCache", "gnovm/pkg/gnolang.(*defaultStore).PopulateStdlibCacheFrom", "gnovm/pkg/gnolang.(Store).PopulateStdlibCache", "gnovm/pkg/gnolang.(Store).PopulateStdlibCacheFrom"}
	callers := engine.CallerSet(p.RefsToFunc(pop...))
	allowed := []string{"gno.land/pkg/sdk/vm.(*VMKeeper).Initialize", "gno.land/pkg/sdk/vm.(*VMKeeper).PopulateStdlibCache", "gno.land/pkg/sdk/vm.(*VMKeeper).PopulateStdlibCacheFrom"}
	c.Check("who-may-call", "gnolang Store.PopulateStdlibCache*", token.NoPos, len(engine.SetDiff(callers, allowed)) == 0, "callers: "+join(callers))
	if f := c.MustFunc("gno.land/pkg/sdk/vm.(*VMKeeper).Initialize"); f != nil {
		sites := f.CallsTo(pop...)
		ok := len(sites) > 0
		why := "restart path must populate the stdlib byte cache (else a restarted node charges I/O gas that a non-restarted node does not)"
		for _, s := range sites {
			for _, gt := range f.Graph().Gates(s) {
				other := gt.Block.Succs[0]
				if gt.OnTrue {
					other = gt.Block.Succs[1]
				}
				if len(other.Succs) == 0 && other.Return() == nil {
					continue // the other branch panics: a sanity assertion, not a condition
				}
				if !engine.MentionsName(gt.Cond, "NumMemPackages") {
					ok, why = false, "population additionally depends on `"+engine.ExprString(gt.Cond)+"`"
				}
			}
		}
		c.Check("stdlib-cache-boot", f.Name, f.Pos(), ok, why)
	}
	if f := c.MustFunc("gno.land/pkg/gnoland.(InitChainerConfig).loadStdlibs"); f != nil {
		sites := f.CallsTo("gno.land/pkg/sdk/vm.(VMKeeperI).PopulateStdlibCacheFrom", "gno.land/pkg/sdk/vm.(*VMKeeper).PopulateStdlibCacheFrom", "gno.land/pkg/sdk/vm.(VMKeeperI).PopulateStdlibCache")
		ok := len(sites) > 0
		for _, s := range sites {
			if len(f.Graph().Gates(s)) != 0 {
				ok = false
			}
		}
		c.Check("stdlib-cache-boot", f.Name, f.Pos(), ok, "genesis path must unconditionally populate the stdlib byte cache")
	}

	// commit hash from a sorted map.
	if f := c.MustFunc("tm2/pkg/store/rootmulti.(commitInfo).Hash"); f != nil {
		ok := len(f.CallsTo("tm2/pkg/crypto/merkle.SimpleHashFromMap")) == 1
		c.Check("commit-hash-sorted", f.Name, f.Pos(), ok, "commit hash must be computed from a key-sorted map, commitStores collects infos in map order")
	}
	if f := c.MustFunc("tm2/pkg/crypto/merkle.(*simpleMap).Sort"); f != nil {
		ok := len(f.CallsTo("sort.(*KVPairs).Sort", "tm2/pkg/crypto/merkle.(KVPairs).Sort", ".Sort")) >= 1
		c.Check("commit-hash-sorted", f.Name, f.Pos(), ok, "simpleMap must sort its pairs before hashing")
	}
	// BaseApp.Commit returns cms.Commit()'s hash and writes the deliver state first.
	if f := c.MustFunc("tm2/pkg/sdk.(*BaseApp).Commit"); f != nil {
		g := f.Graph()
		mw := f.CallsTo(".MultiWrite")
		cm := f.CallsTo("tm2/pkg/store/types.(CommitMultiStore).Commit", "tm2/pkg/store/types.(Committer).Commit")
		c.Floor("app-commit", len(cm), 1)
		for _, s := range cm {
			c.Check("app-commit", f.Name+" MultiWrite before cms.Commit", s.Pos(), len(mw) > 0 && g.MustPass(s, mw), "deliver-state writes must be flushed before the multistore is committed")
		}
	}
	// ABCIResult covers Error, Data, Events.
	if f := c.MustFunc("tm2/pkg/bft/types.NewResultFromResponse"); f != nil {
		want := map[string]bool{"Error": false, "Data": false, "Events": false}
		engine.InspectBody(f, func(n ast.Node) {
			if kv, ok := n.(*ast.KeyValueExpr); ok {
				if id, ok := kv.Key.(*ast.Ident); ok {
					if se, ok := kv.Value.(*ast.SelectorExpr); ok && se.Sel.Name == id.Name {
						if _, w := want[id.Name]; w {
							want[id.Name] = true
						}
					}
				}
			}
		})
		for k, v := range want {
			c.Check("results-hash", f.Name+" field "+k, f.Pos(), v, "the results hash must cover "+k)
		}
	}
	// stale table entries are reported (not failures of the property, but the table must stay exact)
	for k := range c01MapExempt {
		if !usedMap[k] {
			c.Check("det-table-stale", k, token.NoPos, true, "table entry no longer matches a site (harmless)")
		}
	}
}

// c01OrderInsensitive recognises loop bodies whose effect does not depend on
// iteration order.
func c01OrderInsensitive(f *engine.Fn, rs *ast.RangeStmt) (bool, string) {
	info := f.Info()
	var appended []types.Object
	var bad string
	pureCall := func(call *ast.CallExpr) bool {
		switch fn := ast.Unparen(call.Fun).(type) {
		case *ast.Ident:
			if b, ok := info.Uses[fn].(*types.Builtin); ok {
				switch b.Name() {
				case "len", "cap", "append", "delete", "make", "new", "min", "max", "copy":
					return true
				}
				return false
			}
			if _, ok := info.Uses[fn].(*types.TypeName); ok {
				return true // conversion
			}
		case *ast.SelectorExpr:
			if o, ok := info.Uses[fn.Sel].(*types.Func); ok && o.Pkg() != nil {
				if c01PureFuncs[engine.FuncName(o)] {
					return true
				}
				switch o.Pkg().Path() {
				case "strings", "bytes", "strconv", "unicode", "unicode/utf8", "math", "math/bits":
					return true
				}
			}
			if _, ok := info.Uses[fn.Sel].(*types.TypeName); ok {
				return true
			}
		case *ast.ArrayType, *ast.MapType:
			return true
		}
		return false
	}
	exprPure := func(e ast.Node) bool {
		ok := true
		ast.Inspect(e, func(n ast.Node) bool {
			switch x := n.(type) {
			case *ast.CallExpr:
				if !pureCall(x) {
					ok = false
				}
			case *ast.FuncLit:
				ok = false
			case *ast.UnaryExpr:
				if x.Op == token.ARROW {
					ok = false
				}
			}
			return ok
		})
		return ok
	}
	isLocalToLoop := func(o types.Object) bool {
		return o != nil && o.Pos() >= rs.Pos() && o.Pos() < rs.End()
	}
	var stmts func(list []ast.Stmt)
	stmts = func(list []ast.Stmt) {
		for _, st := range list {
			if bad != "" {
				return
			}
			switch s := st.(type) {
			case *ast.AssignStmt:
				for _, r := range s.Rhs {
					if !exprPure(r) {
						bad = "assignment from impure expression `" + engine.ExprString(r) + "`"
					}
				}
				for i, l := range s.Lhs {
					l = ast.Unparen(l)
					if id, ok := l.(*ast.Ident); ok && id.Name == "_" {
						continue
					}
					if ix, ok := l.(*ast.IndexExpr); ok {
						if _, isMap := info.TypeOf(ix.X).Underlying().(*types.Map); isMap {
							if !exprPure(ix.Index) {
								bad = "impure map index"
							}
							continue // keyed write
						}
					}
					o := engine.ObjOf(info, l)
					if isLocalToLoop(o) {
						continue
					}
					// x += int / x |= …  (commutative accumulate on integers/bools)
					if s.Tok == token.ADD_ASSIGN || s.Tok == token.OR_ASSIGN || s.Tok == token.AND_ASSIGN || s.Tok == token.XOR_ASSIGN {
						if b, ok := info.TypeOf(l).Underlying().(*types.Basic); ok && b.Info()&(types.IsInteger|types.IsBoolean) != 0 {
							continue
						}
					}
					// s = append(s, …) — collect, must be sorted afterwards
					if i < len(s.Rhs) {
						if call, ok := s.Rhs[i].(*ast.CallExpr); ok && engine.IsBuiltinCall(info, call, "append") && len(call.Args) > 0 && engine.ObjOf(info, call.Args[0]) == o && o != nil {
							appended = append(appended, o)
							continue
						}
					}
					// boolean flag set to a constant
					if i < len(s.Rhs) {
						if tv, ok := info.Types[s.Rhs[i]]; ok && tv.Value != nil && s.Tok == token.ASSIGN {
							continue
						}
					}
					bad = "write to `" + engine.ExprString(l) + "` depends on iteration order"
				}
			case *ast.IncDecStmt:
				if b, ok := info.TypeOf(s.X).Underlying().(*types.Basic); !ok || b.Info()&types.IsInteger == 0 {
					bad = "inc/dec of non-integer"
				}
			case *ast.ExprStmt:
				call, ok := s.X.(*ast.CallExpr)
				if !ok || !(engine.IsBuiltinCall(info, call, "delete")) || !exprPure(call) {
					bad = "call `" + engine.ExprString(s.X) + "` inside a map range (side effects may depend on order)"
				}
			case *ast.IfStmt:
				if s.Init != nil {
					stmts([]ast.Stmt{s.Init})
				}
				if !exprPure(s.Cond) {
					bad = "impure condition `" + engine.ExprString(s.Cond) + "`"
				}
				stmts(s.Body.List)
				if s.Else != nil {
					switch e := s.Else.(type) {
					case *ast.BlockStmt:
						stmts(e.List)
					case *ast.IfStmt:
						stmts([]ast.Stmt{e})
					}
				}
			case *ast.BlockStmt:
				stmts(s.List)
			case *ast.BranchStmt:
				if s.Tok != token.CONTINUE {
					bad = "break/goto makes the visited subset order-dependent"
				}
			case *ast.ReturnStmt:
				for _, r := range s.Results {
					if tv, ok := info.Types[r]; !ok || (tv.Value == nil && !tv.IsNil()) {
						bad = "returns a non-constant value from inside the loop"
					}
				}
			case *ast.DeclStmt, *ast.EmptyStmt:
			default:
				bad = "unrecognised statement in loop body"
			}
		}
	}
	stmts(rs.Body.List)
	if bad != "" {
		return false, bad + " — classify by reading and add to the exemption table, or iterate sorted keys"
	}
	// collected slices must be sorted after the loop, before any other use.
	for _, o := range appended {
		sorted := false
		engine.InspectBody(f, func(n ast.Node) {
			call, ok := n.(*ast.CallExpr)
			if !ok || call.Pos() < rs.End() || len(call.Args) == 0 {
				return
			}
			name := ""
			if fn, _ := engine.ObjOf(info, call.Fun).(*types.Func); fn != nil {
				name = engine.FuncName(fn)
			}
			if engine.ObjOf(info, call.Args[0]) != o {
				return
			}
			if strings.HasPrefix(name, "sort.") || strings.HasPrefix(name, "slices.Sort") || strings.HasSuffix(name, ".SortBalances") || strings.Contains(name, "Sort") {
				sorted = true
			}
		})
		if !sorted {
			return false, "slice `" + o.Name() + "` is filled in map order and not sorted afterwards"
		}
	}
	return true, "order-insensitive body (keyed writes / commutative accumulation / collect-then-sort / constant result)"
}
