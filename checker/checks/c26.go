package checks

import (
	"go/ast"
	"go/token"
	"go/types"
	"strings"

	"gnoverif/engine"
)

// C26 — the bptree fast index never serves a stale value: eager same-batch
// maintenance is unavoidable on every successful Set/Remove, reads trust an
// entry only behind the checksum/length/version guards and only from a clean
// committed view, read-only loads never rebuild, the stamp policy is
// rebuild-if-behind / fail-if-ahead.
func init() {
	register("C26", c26)
	meta("C26", Meta{
		Text:      "Decides structural necessary conditions of 'a fast-index hit equals the authoritative tree': (1) pairing — values are staged only by Set and Importer.Add; in Set every staged value is followed, on every path to a success return, by setFastIndex for the same key/valueKey/value; in Remove every success return after the root was published passes deleteFastIndex(key); both results are error-tested (their failure poisons the session: C23); Import drops the whole index behind a tested dropFastIndex and Importer.Commit suppresses the completeness stamp around SaveVersion and restores the option on every exit; (2) fastGet reports a hit only behind the DB-error/nil, checksum, length and `vkVersion(payload) > s` tests and returns a copy; (3) fastGet has exactly two callers: MutableTree.Get behind fastReadable() — which requires root == lastSaved — and ImmutableTree.Get behind the snapshot's `fast` flag, each passing its own version; (4) ImmutableTree.fast is written only by newImmutable (committed views) and getImmutable, where it additionally requires a readable stamp >= the snapshot version; (5) all index and stamp writes go through ndb.batch (no direct DB write in the package), fastDBKey has a closed caller set; (6) rebuild policy — rebuildFastIndex is called only by ensureFastIndex, only when the stamp is absent or behind, a stamp ahead is an error; ensureFastIndex is called only by Load; LoadReadonly's callee closure contains no batch write/commit; the store's immutable views never call Load; (7) SaveVersion stages the stamp for the version it saves before the (tested) Commit. Level 'other': code shape over all paths, not crash/interleaving behaviour.",
		Note:      "Not covered: crash points inside the DB engine's batch write, concurrent interleavings of query loads with commits (only the structural 'read-only load never writes' clause), rootmulti's CollectingDB iterator behaviour, completeness of the index (a performance property).",
		Technique: "go/cfg must-pass-after / checked-guard analysis, who-may-call and who-may-write tables, callee-closure reachability",
		Ref:       "DESIGN.md §2 C26",
	})
	const mt = "tm2/pkg/bptree/mutable_tree.go"
	const fi = "tm2/pkg/bptree/fast_index.go"
	mutants("C26",
		Mutant{"set-update-skips-index", mt, "\t// for key with the new value; the old vk is already orphaned above.\n\tif err := t.ndb.setFastIndex(key, vk, value); err != nil {\n\t\tt.poisoned = err\n\t\treturn updated, err\n\t}\n", "", "set-indexes"},
		Mutant{"remove-conditional-unindex", mt, "\tif err := t.ndb.deleteFastIndex(key); err != nil {\n\t\tt.poisoned = err\n\t\treturn val, true, err\n\t}\n", "\tif oldVK == nil {\n\t\tif err := t.ndb.deleteFastIndex(key); err != nil {\n\t\t\tt.poisoned = err\n\t\t\treturn val, true, err\n\t\t}\n\t}\n", "remove-unindexes"},
		Mutant{"fastget-no-version-guard", fi, "\tif vkVersion(payload) > s {\n\t\treturn nil, false // entry newer than the snapshot\n\t}\n", "", "fastget-guards"},
		Mutant{"fastget-guard-off-by-one", fi, "\tif vkVersion(payload) > s {", "\tif vkVersion(payload) > s+1 {", "fastget-guards"},
		Mutant{"fastget-ignores-checksum", fi, "\tpayload, err := verifyChecksum(data)\n\tif err != nil || len(payload) < 8 {\n\t\treturn nil, false\n\t}\n\tif vkVersion", "\tpayload, err := verifyChecksum(data)\n\tif err != nil && len(payload) < 8 {\n\t\treturn nil, false\n\t}\n\tif vkVersion", "fastget-guards"},
		Mutant{"dirty-tree-reads-index", mt, "\treturn t.ndb.opts.FastIndex && t.root == t.lastSaved", "\treturn t.ndb.opts.FastIndex && t.root != nil", "fastget-callers"},
		Mutant{"snapshot-ignores-stamp", mt, "\t\timm.fast = err == nil && ok && stamp >= version", "\t\timm.fast = err == nil && ok && stamp >= 0", "snapshot-stamp"},
		Mutant{"readonly-load-rebuilds", mt, "\treturn t.loadVersionDiscovered(latest)\n}\n\n// LoadVersion loads a specific version", "\tv, err := t.loadVersionDiscovered(latest)\n\tif err == nil {\n\t\terr = t.ensureFastIndex()\n\t}\n\treturn v, err\n}\n\n// LoadVersion loads a specific version", "rebuild-policy"},
		Mutant{"rebuild-when-ahead", fi, "\tif !ok || stamp < t.version {\n\t\treturn t.rebuildFastIndex()", "\tif !ok || stamp != t.version {\n\t\treturn t.rebuildFastIndex()", "rebuild-policy"},
		Mutant{"import-keeps-index", "tm2/pkg/bptree/import.go", "\tif err := t.ndb.dropFastIndex(); err != nil {\n\t\treturn nil, err\n\t}\n\treturn &Importer{", "\treturn &Importer{", "import-drops-index"},
		Mutant{"index-written-directly", fi, "\treturn ndb.batch.Set(fastDBKey(userKey), sealChecksum(rec))", "\treturn ndb.db.Set(fastDBKey(userKey), sealChecksum(rec))", "index-writes-batched"},
		Mutant{"immutable-store-loads-rw", "tm2/pkg/store/bptree/store.go", "\tlatestV, err := st.mtree.LoadReadonly()\n\tif err != nil {\n\t\treturn err\n\t}\n\tif ver == 0 {", "\tlatestV, err := st.mtree.Load()\n\tif err != nil {\n\t\treturn err\n\t}\n\tif ver == 0 {", "rebuild-policy"},
		Mutant{"stamp-after-commit", mt, "\tif err := t.ndb.setFastIndexVersion(version); err != nil {\n\t\treturn nil, 0, err\n\t}\n\n\t// Commit batch (nodes + root + orphan list, atomically)\n\tif err := t.ndb.Commit(); err != nil {\n\t\treturn nil, 0, err\n\t}\n", "\t// Commit batch (nodes + root + orphan list, atomically)\n\tif err := t.ndb.Commit(); err != nil {\n\t\treturn nil, 0, err\n\t}\n\tif err := t.ndb.setFastIndexVersion(version); err != nil {\n\t\treturn nil, 0, err\n\t}\n", "stamp-with-commit"},
	)
}

// tgErrChecked: the call's error result is tested and the target lies on the nil side.
func tgErrChecked(f *engine.Fn, call, target *engine.Site) bool {
	r := f.Graph().CheckedGuard(call, target)
	return r.OK && tgIsErrTest(f.Info(), r.Cond) && !r.OnTrue && len(engine.Atoms(r.Cond)) == 1
}

// tgClosure returns the rendered names of all functions statically reachable
// from f through calls resolved inside the loaded packages, plus the names of
// external callees met on the way.
func tgClosure(p *engine.Prog, f *engine.Fn) map[string]bool {
	seen := map[string]bool{}
	var visit func(fn *engine.Fn)
	visit = func(fn *engine.Fn) {
		if fn == nil || seen[fn.Name] {
			return
		}
		seen[fn.Name] = true
		var all []*engine.Fn
		all = append(all, fn)
		all = append(all, fn.AllLits()...)
		for _, x := range all {
			for _, s := range x.Calls() {
				n := s.CalleeName()
				if n == "" {
					continue
				}
				if o, ok := s.Callee.(*types.Func); ok {
					if g := p.FnOf(o); g != nil {
						visit(g)
						continue
					}
				}
				seen[n] = true
			}
		}
	}
	visit(f)
	return seen
}

func c26(c *engine.Ctx) {
	c.Explain = "Decides the structural clauses of fast-index freshness: unavoidable same-batch maintenance on every successful Set/Remove (and index drop on Import), fastGet's hit guards (db error/nil, checksum, length, entry version <= snapshot), its two callers and their clean-view gates (root == lastSaved; snapshot.fast with stamp >= version), batch-only index writes, rebuild-if-behind / error-if-ahead stamp policy reachable only from Load, read-only loads free of writes, stamp staged before the tested Commit. Not covered: crash points inside a batch write, goroutine interleavings, CollectingDB iterator semantics."
	p := c.Load("tm2/pkg/bptree", "tm2/pkg/store/bptree")
	if p == nil {
		return
	}
	const P = "tm2/pkg/bptree."
	const T = P + "(*MutableTree)."
	const N = P + "(*nodeDB)."
	const S = "tm2/pkg/store/bptree."
	rootF := p.Field(P + "MutableTree.root")
	lastF := p.Field(P + "MutableTree.lastSaved")
	verF := p.Field(P + "MutableTree.version")
	optF := p.Field(P + "Options.FastIndex")
	immFast := p.Field(P + "ImmutableTree.fast")
	immVer := p.Field(P + "ImmutableTree.version")
	for nm, f := range map[string]*types.Var{"MutableTree.root": rootF, "MutableTree.lastSaved": lastF, "MutableTree.version": verF, "Options.FastIndex": optF, "ImmutableTree.fast": immFast, "ImmutableTree.version": immVer} {
		if f == nil {
			c.Undecided("anchor", P+nm, "field not found")
			return
		}
	}

	// ---- (1) pairing
	{
		callers, nonCalls := tgCallersOf(p, N+"SaveValue")
		c.Check("value-stagers", N+"SaveValue", token.NoPos, len(engine.SetDiff(callers, []string{T + "Set", P + "(*Importer).Add"})) == 0 && len(nonCalls) == 0 && len(callers) == 2, "callers: "+join(callers))
	}
	if f := c.MustFunc(T + "Set"); f != nil {
		info := f.Info()
		saves := f.CallsTo(N + "SaveValue")
		sets := f.CallsTo(N + "setFastIndex")
		c.Floor("set-indexes", len(saves), 2)
		keyP, valP := paramObj(f, 0), paramObj(f, 1)
		for i, sv := range saves {
			label := f.Name + " SaveValue#" + tgOrdinalByGate(f, sv)
			_ = i
			ok, bad := tgAfterMustPass(f, sv, sets, tgReturnsNilErr)
			why := "every success return after staging the value passes setFastIndex"
			if !ok {
				why = "a success return (`" + tgRetKey(bad) + "`) is reachable after SaveValue without setFastIndex"
			}
			c.Check("set-indexes", label+" followed by setFastIndex", sv.Pos(), ok, why)
			// argument agreement and error test for the index call that follows
			okArgs, okErr := false, false
			for _, st := range sets {
				if !f.Graph().ReachableAfter(sv, st) || !f.Graph().Dominates(sv, st) {
					continue
				}
				if len(st.Call.Args) == 3 && len(sv.Call.Args) == 2 &&
					engine.ObjOf(info, st.Call.Args[0]) == keyP &&
					engine.ObjOf(info, st.Call.Args[1]) == engine.ObjOf(info, sv.Call.Args[1]) && engine.ObjOf(info, st.Call.Args[1]) != nil &&
					engine.ObjOf(info, st.Call.Args[2]) == valP && engine.ObjOf(info, sv.Call.Args[0]) == valP {
					okArgs = true
				}
				for _, r := range tgSuccessReturns(f) {
					if f.Graph().ReachableAfter(st, r) && tgErrChecked(f, st, r) {
						okErr = true
					}
				}
			}
			c.Check("set-indexes", label+" same key/valueKey/value indexed", sv.Pos(), okArgs, "setFastIndex(key, vk, value) must index exactly what SaveValue(value, vk) staged for the key argument")
			c.Check("set-indexes", label+" index error is tested", sv.Pos(), okErr, "success must lie on the `err == nil` side of setFastIndex")
		}
	}
	if f := c.MustFunc(T + "Remove"); f != nil {
		info := f.Info()
		dels := f.CallsTo(N + "deleteFastIndex")
		ws := tgFieldAssigns(f, rootF)
		c.Floor("remove-unindexes", len(ws), 1)
		for _, w := range ws {
			ok, bad := tgAfterMustPass(f, w, dels, tgReturnsNilErr)
			why := "every success return after the removal was published passes deleteFastIndex"
			if !ok {
				why = "a success return (`" + tgRetKey(bad) + "`) is reachable after `t.root = …` without deleteFastIndex"
			}
			c.Check("remove-unindexes", f.Name+" published removal followed by deleteFastIndex", w.Pos(), ok, why)
		}
		okArg, okErr := false, false
		for _, d := range dels {
			if len(d.Call.Args) == 1 && engine.ObjOf(info, d.Call.Args[0]) == paramObj(f, 0) {
				okArg = true
			}
			for _, r := range tgSuccessReturns(f) {
				if f.Graph().ReachableAfter(d, r) && tgErrChecked(f, d, r) {
					okErr = true
				}
			}
		}
		c.Check("remove-unindexes", f.Name+" deletes the entry of the removed key", f.Pos(), okArg, "deleteFastIndex must be called with the key argument")
		c.Check("remove-unindexes", f.Name+" index error is tested", f.Pos(), okErr, "success must lie on the `err == nil` side of deleteFastIndex")
	}
	if f := c.MustFunc(T + "Import"); f != nil {
		drops := f.CallsTo(N + "dropFastIndex")
		succ := tgSuccessReturns(f)
		c.Floor("import-drops-index", len(succ), 1)
		for _, r := range succ {
			ok := false
			for _, d := range drops {
				if tgErrChecked(f, d, r) {
					ok = true
				}
			}
			c.Check("import-drops-index", f.Name+" importer handed out only after dropFastIndex succeeded", r.Pos(), ok, "Importer.Commit bypasses per-entry maintenance, so the old index must be dropped (tested) before an Importer exists")
		}
	}
	if f := c.MustFunc(N + "dropFastIndex"); f != nil {
		g := f.Graph()
		dl := f.CallsTo("tm2/pkg/db.(Batch).Delete")
		cm := f.CallsTo(N + "Commit")
		cl := f.CallsTo(N + "clearFastIndex")
		ok := len(dl) == 1 && len(cm) == 1 && len(cl) == 1 && g.Dominates(dl[0], cm[0]) && g.Dominates(cm[0], cl[0]) &&
			len(dl[0].Call.Args) == 1 && engine.MentionsName(dl[0].Call.Args[0], "metaFastVersionKey")
		c.Check("import-drops-index", f.Name+" stamp deleted and committed before the entries are cleared", f.Pos(), ok, "order must be batch.Delete(stamp) → Commit → clearFastIndex so that an abort leaves no trusted stamp over a partial index")
	}
	if f := c.MustFunc(P + "(*Importer).Commit"); f != nil {
		g := f.Graph()
		info := f.Info()
		ws := tgFieldAssigns(f, optF)
		svs := f.CallsTo(T + "SaveVersion")
		okOff, okBack := false, false
		var prev types.Object
		engine.InspectBody(f, func(n ast.Node) {
			if as, ok := n.(*ast.AssignStmt); ok && as.Tok == token.DEFINE && len(as.Lhs) == 1 && len(as.Rhs) == 1 && tgSelField(info, as.Rhs[0]) == optF.Origin() {
				prev = engine.ObjOf(info, as.Lhs[0])
			}
		})
		for _, w := range ws {
			rhs := tgRHSFor(f, w.Node.(*ast.AssignStmt), optF)
			for _, sv := range svs {
				if id, ok := ast.Unparen(rhs).(*ast.Ident); ok && id.Name == "false" && g.Dominates(w, sv) {
					okOff = true
				}
				if prev != nil && engine.ObjOf(info, rhs) == prev && g.Dominates(sv, w) {
					// restored before any return that follows SaveVersion
					okBack = true
					for _, r := range tgReturnSites(f) {
						if g.ReachableAfter(sv, r) && !g.Dominates(w, r) {
							okBack = false
						}
					}
				}
			}
		}
		c.Check("import-drops-index", f.Name+" stamp suppressed around SaveVersion", f.Pos(), okOff && len(svs) == 1, "opts.FastIndex = false must dominate the SaveVersion call (the cleared index must not be stamped complete)")
		c.Check("import-drops-index", f.Name+" option restored on every exit", f.Pos(), okBack, "opts.FastIndex must be restored from the saved value before every return that follows SaveVersion")
	}
	{
		ws := engine.WriterSet(p.FieldWrites(optF), func(w engine.Write) bool { return w.Kind != "lit" })
		c.Check("import-drops-index", "writers of Options.FastIndex", token.NoPos, len(engine.SetDiff(ws, []string{P + "FastIndexOption", P + "(*Importer).Commit"})) == 0, "writers: "+join(ws))
	}

	// ---- (2) fastGet guards
	if f := c.MustFunc(N + "fastGet"); f != nil {
		info := f.Info()
		sP := paramObj(f, 1)
		var hits []*engine.Site
		for _, r := range tgReturnSites(f) {
			rs := r.Node.(*ast.ReturnStmt)
			if len(rs.Results) == 2 {
				if id, ok := ast.Unparen(rs.Results[1]).(*ast.Ident); ok && id.Name == "true" {
					hits = append(hits, r)
				} else if !ok || id.Name != "false" {
					hits = append(hits, r) // a computed verdict counts as a potential hit
				}
			}
		}
		c.Floor("fastget-guards", len(hits), 1)
		var payload types.Object
		vcs := f.CallsTo(P + "verifyChecksum")
		for _, v := range vcs {
			if as, ok := v.Top.(*ast.AssignStmt); ok && len(as.Lhs) == 2 {
				payload = engine.ObjOf(info, as.Lhs[0])
			}
		}
		gets := f.CallsTo("tm2/pkg/db.(DB).Get")
		for _, r := range hits {
			rs := r.Node.(*ast.ReturnStmt)
			gates := f.Graph().Gates(r)
			// every failing atom must sit in a `||` chain on the false side
			has := func(pred func(a ast.Expr) bool) bool {
				for _, gt := range gates {
					if gt.OnTrue {
						continue
					}
					for _, a := range engine.Conjuncts(gt.Cond, token.LOR) {
						if pred(a) {
							return true
						}
					}
				}
				return false
			}
			errOf := func(call []*engine.Site) types.Object {
				for _, s := range call {
					if as, ok := s.Top.(*ast.AssignStmt); ok && len(as.Lhs) == 2 {
						return engine.ObjOf(info, as.Lhs[1])
					}
				}
				return nil
			}
			isErrNe := func(a ast.Expr, e types.Object) bool {
				b, ok := ast.Unparen(a).(*ast.BinaryExpr)
				return ok && e != nil && b.Op == token.NEQ && isNil(b.Y) && engine.ObjOf(info, b.X) == e
			}
			getErr, vcErr := errOf(gets), errOf(vcs)
			var data types.Object
			for _, s := range gets {
				if as, ok := s.Top.(*ast.AssignStmt); ok && len(as.Lhs) == 2 {
					data = engine.ObjOf(info, as.Lhs[0])
				}
			}
			c.Check("fastget-guards", f.Name+" hit behind db error test", r.Pos(), has(func(a ast.Expr) bool { return isErrNe(a, getErr) }) && len(gets) == 1, "a DB read error must fall back to the tree walk")
			c.Check("fastget-guards", f.Name+" hit behind missing-entry test", r.Pos(), has(func(a ast.Expr) bool {
				b, ok := ast.Unparen(a).(*ast.BinaryExpr)
				return ok && data != nil && b.Op == token.EQL && isNil(b.Y) && engine.ObjOf(info, b.X) == data
			}), "a missing entry must fall back to the tree walk")
			// checksum err: note err variable is shared (`payload, err :=` redeclares) — accept the err object of the verifyChecksum assignment
			c.Check("fastget-guards", f.Name+" hit behind checksum test", r.Pos(), len(vcs) == 1 && has(func(a ast.Expr) bool { return isErrNe(a, vcErr) }) && f.Graph().CheckedGuard(vcs[0], r).OK, "a corrupt entry must fall back to the tree walk")
			c.Check("fastget-guards", f.Name+" hit behind length test", r.Pos(), has(func(a ast.Expr) bool {
				b, ok := ast.Unparen(a).(*ast.BinaryExpr)
				if !ok || b.Op != token.LSS || !engine.IsLenOf(info, b.X, payload) {
					return false
				}
				tv := info.Types[b.Y]
				return tv.Value != nil && tv.Value.String() == "8"
			}), "an entry shorter than its 8-byte version prefix must fall back")
			c.Check("fastget-guards", f.Name+" hit behind entry-version test", r.Pos(), has(func(a ast.Expr) bool {
				b, ok := ast.Unparen(a).(*ast.BinaryExpr)
				if !ok || (b.Op != token.GTR && b.Op != token.GEQ) || engine.ObjOf(info, b.Y) != sP {
					return false
				}
				call, ok := ast.Unparen(b.X).(*ast.CallExpr)
				if !ok || len(call.Args) != 1 || engine.ObjOf(info, call.Args[0]) != payload {
					return false
				}
				s := f.SiteOf(call)
				return s != nil && s.CalleeName() == P+"vkVersion"
			}), "a hit requires the false side of `vkVersion(payload) > s` with s the snapshot version argument")
			// returns a copy of the value part
			okCopy := false
			if call, ok := ast.Unparen(rs.Results[0]).(*ast.CallExpr); ok {
				if s := f.SiteOf(call); s != nil && s.CalleeName() == P+"copyKey" && len(call.Args) == 1 {
					if sl, ok := ast.Unparen(call.Args[0]).(*ast.SliceExpr); ok && engine.ObjOf(info, sl.X) == payload && sl.Low != nil {
						if tv := info.Types[sl.Low]; tv.Value != nil && tv.Value.String() == "8" {
							okCopy = true
						}
					}
				}
			}
			c.Check("fastget-guards", f.Name+" returns a copy of payload[8:]", r.Pos(), okCopy, "the value handed out must be copyKey(payload[8:])")
		}
	}

	// ---- (3) callers of fastGet
	{
		callers, nonCalls := tgCallersOf(p, N+"fastGet")
		c.Check("fastget-callers", N+"fastGet", token.NoPos, len(engine.SetDiff(callers, []string{T + "Get", P + "(*ImmutableTree).Get"})) == 0 && len(nonCalls) == 0 && len(callers) == 2, "callers: "+join(callers))
	}
	if f := c.MustFunc(T + "Get"); f != nil {
		info := f.Info()
		fg := f.CallsTo(N + "fastGet")
		c.Floor("fastget-callers Get", len(fg), 1)
		for _, s := range fg {
			gt, ok := tgGateOn(f, s, func(e ast.Expr) bool {
				call, isCall := ast.Unparen(e).(*ast.CallExpr)
				if !isCall {
					return false
				}
				cs := f.SiteOf(call)
				return cs != nil && cs.CalleeName() == T+"fastReadable"
			})
			c.Check("fastget-callers", f.Name+" fast read behind fastReadable()", s.Pos(), ok && gt.OnTrue, "the working tree may consult the index only when fastReadable() holds")
			c.Check("fastget-callers", f.Name+" fast read at the tree's own version", s.Pos(), len(s.Call.Args) == 2 && tgSelField(info, s.Call.Args[1]) == verF.Origin() && engine.ObjOf(info, s.Call.Args[0]) == paramObj(f, 0), "fastGet(key, t.version)")
		}
	}
	if f := c.MustFunc(T + "fastReadable"); f != nil {
		info := f.Info()
		rets := tgReturnSites(f)
		ok := len(rets) == 1
		if ok {
			rs := rets[0].Node.(*ast.ReturnStmt)
			hasClean, hasOpt := false, false
			if len(rs.Results) == 1 {
				for _, cj := range engine.Conjuncts(rs.Results[0], token.LAND) {
					if b, isB := ast.Unparen(cj).(*ast.BinaryExpr); isB && b.Op == token.EQL {
						x, y := tgSelField(info, b.X), tgSelField(info, b.Y)
						if (x == rootF.Origin() && y == lastF.Origin()) || (x == lastF.Origin() && y == rootF.Origin()) {
							hasClean = true
						}
					}
					if tgSelField(info, cj) == optF.Origin() {
						hasOpt = true
					}
				}
			}
			ok = hasClean && hasOpt
		}
		c.Check("fastget-callers", f.Name+" requires a clean session", f.Pos(), ok, "fastReadable must be the conjunction of opts.FastIndex and `t.root == t.lastSaved` (no staged mutation)")
	}
	if f := c.MustFunc(P + "(*ImmutableTree).Get"); f != nil {
		info := f.Info()
		fg := f.CallsTo(N + "fastGet")
		c.Floor("fastget-callers ImmutableTree.Get", len(fg), 1)
		for _, s := range fg {
			gt, ok := tgGateOn(f, s, func(e ast.Expr) bool {
				for _, cj := range engine.Conjuncts(e, token.LAND) {
					if tgSelField(info, cj) == immFast.Origin() {
						return true
					}
				}
				return false
			})
			c.Check("fastget-callers", f.Name+" fast read behind the snapshot's fast flag", s.Pos(), ok && gt.OnTrue, "a snapshot may consult the index only when its `fast` flag is set")
			c.Check("fastget-callers", f.Name+" fast read at the snapshot's own version", s.Pos(), len(s.Call.Args) == 2 && tgSelField(info, s.Call.Args[1]) == immVer.Origin() && engine.ObjOf(info, s.Call.Args[0]) == paramObj(f, 0), "fastGet(key, t.version)")
		}
	}

	// ---- (4) snapshot flag
	{
		ws := engine.WriterSet(p.FieldWrites(immFast), func(w engine.Write) bool { return w.Kind != "lit" })
		c.Check("snapshot-stamp", "writers of ImmutableTree.fast", token.NoPos, len(engine.SetDiff(ws, []string{T + "newImmutable", T + "getImmutable"})) == 0 && len(ws) == 2, "writers: "+join(ws))
		lit := 0
		for _, w := range p.FieldWrites(immFast) {
			if w.Kind == "lit" {
				lit++
			}
		}
		c.Check("snapshot-stamp", "ImmutableTree.fast never set in a literal", token.NoPos, lit == 0, "the flag must only be raised by newImmutable/getImmutable")
	}
	if f := c.MustFunc(T + "newImmutable"); f != nil {
		info := f.Info()
		cm := paramObj(f, 2)
		for _, w := range tgFieldAssigns(f, immFast) {
			gt, ok := tgGateOn(f, w, func(e ast.Expr) bool { return engine.ObjOf(info, e) == cm && cm != nil })
			rhs := tgRHSFor(f, w.Node.(*ast.AssignStmt), immFast)
			c.Check("snapshot-stamp", f.Name+" only committed views get the flag", w.Pos(), ok && gt.OnTrue && tgSelField(info, rhs) == optF.Origin(), "imm.fast = opts.FastIndex only on the `committed` branch (a read-your-writes snapshot must not read the committed index)")
		}
	}
	if f := c.MustFunc(T + "getImmutable"); f != nil {
		info := f.Info()
		verP := paramObj(f, 0)
		ws := tgFieldAssigns(f, immFast)
		c.Floor("snapshot-stamp", len(ws), 1)
		var stamp, okv, errv types.Object
		for _, s := range f.CallsTo(N + "getFastIndexVersion") {
			if as, ok := s.Top.(*ast.AssignStmt); ok && len(as.Lhs) == 3 {
				stamp, okv, errv = engine.ObjOf(info, as.Lhs[0]), engine.ObjOf(info, as.Lhs[1]), engine.ObjOf(info, as.Lhs[2])
			}
		}
		for _, w := range ws {
			rhs := tgRHSFor(f, w.Node.(*ast.AssignStmt), immFast)
			hasStamp, hasOK, hasErr := false, false, false
			for _, cj := range engine.Conjuncts(rhs, token.LAND) {
				if b, isB := ast.Unparen(cj).(*ast.BinaryExpr); isB {
					if b.Op == token.GEQ && engine.ObjOf(info, b.X) == stamp && engine.ObjOf(info, b.Y) == verP && stamp != nil {
						hasStamp = true
					}
					if b.Op == token.LEQ && engine.ObjOf(info, b.Y) == stamp && engine.ObjOf(info, b.X) == verP && stamp != nil {
						hasStamp = true
					}
					if b.Op == token.EQL && engine.ObjOf(info, b.X) == errv && isNil(b.Y) && errv != nil {
						hasErr = true
					}
				}
				if engine.ObjOf(info, cj) == okv && okv != nil {
					hasOK = true
				}
			}
			c.Check("snapshot-stamp", f.Name+" flag requires stamp >= snapshot version", w.Pos(), hasStamp && hasOK && hasErr, "imm.fast must be `err == nil && ok && stamp >= version`: an index stamped behind the snapshot can hold stale entries that pass the per-entry guard")
			gt, ok := tgGateOn(f, w, func(e ast.Expr) bool { return tgSelField(info, e) == immFast.Origin() })
			c.Check("snapshot-stamp", f.Name+" flag can only be lowered", w.Pos(), ok && gt.OnTrue, "the stamp test may only refine a flag that newImmutable raised")
		}
	}

	// ---- (5) batch-only writes
	{
		callers, _ := tgCallersOf(p, P+"fastDBKey")
		c.Check("index-writes-batched", P+"fastDBKey callers", token.NoPos, len(engine.SetDiff(callers, []string{N + "setFastIndex", N + "deleteFastIndex", N + "fastGet"})) == 0 && len(callers) == 3, "callers: "+join(callers))
		for _, fn := range []struct{ name, via string }{{N + "setFastIndex", "tm2/pkg/db.(Batch).Set"}, {N + "deleteFastIndex", "tm2/pkg/db.(Batch).Delete"}} {
			f := c.MustFunc(fn.name)
			if f == nil {
				continue
			}
			ok := false
			for _, k := range f.CallsTo(P + "fastDBKey") {
				for _, b := range f.CallsTo(fn.via) {
					if len(b.Call.Args) > 0 && containsExpr(b.Call.Args[0], k.Call) {
						if se, isSel := ast.Unparen(b.Call.Fun).(*ast.SelectorExpr); isSel && engine.MentionsName(se.X, "batch") {
							ok = true
						}
					}
				}
			}
			c.Check("index-writes-batched", fn.name+" stages through ndb.batch", f.Pos(), ok, "the index key must be the key argument of ndb.batch."+fn.via[strings.LastIndexByte(fn.via, '.')+1:])
			// gated by the option only
			for _, b := range f.CallsTo(fn.via) {
				gs := f.Graph().Gates(b)
				okg := len(gs) == 1 && !gs[0].OnTrue && isNot(gs[0].Cond) && tgSelField(f.Info(), tgStripNot(gs[0].Cond)) == optF.Origin()
				c.Check("index-writes-batched", fn.name+" unconditional when the feature is on", b.Pos(), okg, "the only condition on staging the entry must be `!opts.FastIndex → return nil`")
			}
		}
		// no direct DB write anywhere in the package
		direct := []string{}
		reads := 0
		for _, f := range p.FuncsIn("tm2/pkg/bptree") {
			for _, s := range f.Calls() {
				n := s.CalleeName()
				switch n {
				case "tm2/pkg/db.(DB).Set", "tm2/pkg/db.(DB).SetSync", "tm2/pkg/db.(DB).Delete", "tm2/pkg/db.(DB).DeleteSync":
					direct = append(direct, f.Root().Name)
				case "tm2/pkg/db.(DB).Get", "tm2/pkg/db.(DB).Has", "tm2/pkg/db.(DB).Iterator":
					reads++
				}
			}
		}
		c.Check("index-writes-batched", "tm2/pkg/bptree has no direct DB write", token.NoPos, len(direct) == 0, "direct writers: "+join(tgUniq(direct)))
		c.Floor("index-writes-batched db reads examined", reads, 8)
		// stamp key references
		o := p.Object(P + "metaFastVersionKey")
		users := map[string]bool{}
		for _, r := range p.RefsTo(func(x types.Object) bool { return x == o && o != nil }) {
			if r.Fn != nil {
				users[r.Fn.Root().Name] = true
			}
		}
		us := engine.SortedKeys(users)
		c.Check("index-writes-batched", P+"metaFastVersionKey users", token.NoPos, len(engine.SetDiff(us, []string{N + "setFastIndexVersion", N + "getFastIndexVersion", N + "dropFastIndex"})) == 0 && len(us) == 3, "users: "+join(us))
	}

	// ---- (6) rebuild policy
	{
		callers, nonCalls := tgCallersOf(p, T+"rebuildFastIndex")
		c.Check("rebuild-policy", T+"rebuildFastIndex callers", token.NoPos, len(engine.SetDiff(callers, []string{T + "ensureFastIndex"})) == 0 && len(nonCalls) == 0 && len(callers) == 1, "callers: "+join(callers))
		callers, nonCalls = tgCallersOf(p, T+"ensureFastIndex")
		c.Check("rebuild-policy", T+"ensureFastIndex callers", token.NoPos, len(engine.SetDiff(callers, []string{T + "Load"})) == 0 && len(nonCalls) == 0 && len(callers) == 1, "callers: "+join(callers))
		callers, nonCalls = tgCallersOf(p, T+"Load")
		c.Check("rebuild-policy", T+"Load callers", token.NoPos, len(engine.SetDiff(callers, []string{T + "LoadVersion", S + "(*Store).LoadLatestVersion", S + "(*Store).LoadVersion"})) == 0 && len(nonCalls) == 0, "callers: "+join(callers))
		callers, _ = tgCallersOf(p, N+"clearFastIndex")
		c.Check("rebuild-policy", N+"clearFastIndex callers", token.NoPos, len(engine.SetDiff(callers, []string{T + "rebuildFastIndex", N + "dropFastIndex"})) == 0, "callers: "+join(callers))
	}
	if f := c.MustFunc(T + "ensureFastIndex"); f != nil {
		info := f.Info()
		var stamp, okv types.Object
		for _, s := range f.CallsTo(N + "getFastIndexVersion") {
			if as, ok := s.Top.(*ast.AssignStmt); ok && len(as.Lhs) == 3 {
				stamp, okv = engine.ObjOf(info, as.Lhs[0]), engine.ObjOf(info, as.Lhs[1])
			}
		}
		rb := f.CallsTo(T + "rebuildFastIndex")
		c.Floor("rebuild-policy", len(rb), 1)
		cmpStamp := func(e ast.Expr, op token.Token) bool {
			b, ok := ast.Unparen(e).(*ast.BinaryExpr)
			if !ok {
				return false
			}
			if b.Op == op && engine.ObjOf(info, b.X) == stamp && tgSelField(info, b.Y) == verF.Origin() {
				return true
			}
			return b.Op == engine.Flip(op) && engine.ObjOf(info, b.Y) == stamp && tgSelField(info, b.X) == verF.Origin()
		}
		for _, s := range rb {
			ok := false
			why := "rebuild must be on the true side of exactly `!ok || stamp < t.version`"
			for _, gt := range f.Graph().Gates(s) {
				if !gt.OnTrue {
					continue
				}
				atoms := engine.Conjuncts(gt.Cond, token.LOR)
				nOK, nLess, other := 0, 0, 0
				for _, a := range atoms {
					switch {
					case isNot(a) && engine.ObjOf(info, tgStripNot(a)) == okv && okv != nil:
						nOK++
					case stamp != nil && cmpStamp(a, token.LSS):
						nLess++
					default:
						other++
					}
				}
				if nOK == 1 && nLess == 1 && other == 0 {
					ok = true
				}
			}
			// and behind the tested stamp read
			okRead := false
			for _, gs := range f.CallsTo(N + "getFastIndexVersion") {
				if tgErrChecked(f, gs, s) {
					okRead = true
				}
			}
			c.Check("rebuild-policy", f.Name+" rebuilds only when the stamp is absent or behind", s.Pos(), ok && okRead, why)
		}
		// stamp ahead -> error
		okAhead := false
		for _, r := range tgReturnSites(f) {
			rs := r.Node.(*ast.ReturnStmt)
			if tgReturnsNilErr(rs) {
				continue
			}
			if gt, ok := tgGateOn(f, r, func(e ast.Expr) bool { return stamp != nil && cmpStamp(e, token.GTR) }); ok && gt.OnTrue {
				okAhead = true
			}
		}
		c.Check("rebuild-policy", f.Name+" a stamp ahead of the loaded version is an error", f.Pos(), okAhead, "`stamp > t.version` must return a non-nil error (never trust, never rebuild from an outdated root)")
		// success (trust) only when neither behind nor ahead
		for _, r := range tgSuccessReturns(f) {
			gts := f.Graph().Gates(r)
			off := false
			for _, gt := range gts {
				if isNot(gt.Cond) && tgSelField(info, tgStripNot(gt.Cond)) == optF.Origin() && gt.OnTrue {
					off = true
				}
			}
			if off {
				continue
			}
			a, b := false, false
			for _, gt := range gts {
				if !gt.OnTrue {
					for _, x := range engine.Conjuncts(gt.Cond, token.LOR) {
						if cmpStamp(x, token.LSS) {
							a = true
						}
						if cmpStamp(x, token.GTR) {
							b = true
						}
					}
				}
			}
			c.Check("rebuild-policy", f.Name+" trusts the index only when stamp == version", r.Pos(), a && b, "the nil return with the feature on must exclude both `stamp < t.version` and `stamp > t.version`")
		}
	}
	if f := c.MustFunc(T + "LoadReadonly"); f != nil {
		cl := tgClosure(p, f)
		var bad []string
		for n := range cl {
			switch {
			case n == T+"ensureFastIndex", n == T+"rebuildFastIndex", n == N+"setFastIndex", n == N+"deleteFastIndex", n == N+"setFastIndexVersion",
				n == N+"clearFastIndex", n == N+"dropFastIndex", n == N+"Commit",
				strings.HasPrefix(n, "tm2/pkg/db.(Batch).Set"), strings.HasPrefix(n, "tm2/pkg/db.(Batch).Delete"), strings.HasPrefix(n, "tm2/pkg/db.(Batch).Write"),
				strings.HasPrefix(n, "tm2/pkg/db.(DB).Set"), strings.HasPrefix(n, "tm2/pkg/db.(DB).Delete"):
				bad = append(bad, n)
			}
		}
		c.Check("rebuild-policy", f.Name+" callee closure performs no write", f.Pos(), len(bad) == 0 && len(cl) >= 5, "a read-only load must never stage, commit or rebuild; reaches: "+join(bad))
	}
	for _, nm := range []string{"LoadLatestVersion", "LoadVersion"} {
		f := c.MustFunc(S + "(*Store)." + nm)
		if f == nil {
			continue
		}
		info := f.Info()
		for _, s := range f.CallsTo(T + "Load") {
			// the immutable branch returns before: the Load call is on the false side of opts.Immutable
			gt, ok := tgGateOn(f, s, func(e ast.Expr) bool {
				se, isSel := ast.Unparen(e).(*ast.SelectorExpr)
				return isSel && se.Sel.Name == "Immutable" && info.TypeOf(e) != nil
			})
			c.Check("rebuild-policy", f.Name+" read-write Load only for mutable stores", s.Pos(), ok && !gt.OnTrue, "MutableTree.Load (which may rebuild the index) must be on the false side of `st.opts.Immutable`")
		}
	}
	if f := c.MustFunc(S + "(*Store).loadImmutableView"); f != nil {
		cl := tgClosure(p, f)
		c.Check("rebuild-policy", f.Name+" never reaches Load/ensureFastIndex", f.Pos(), !cl[T+"Load"] && !cl[T+"ensureFastIndex"] && cl[T+"LoadReadonly"], "immutable (query) views must load through LoadReadonly")
	}

	// ---- (7) stamp staged before the tested Commit, for the saved version
	if f := c.MustFunc(T + "SaveVersion"); f != nil {
		info := f.Info()
		g := f.Graph()
		st := f.CallsTo(N + "setFastIndexVersion")
		cm := f.CallsTo(N + "Commit")
		sr := f.CallsTo(N + "SaveRoot")
		c.Floor("stamp-with-commit", len(st), 1)
		for _, s := range st {
			ok := len(cm) == 1 && g.Dominates(s, cm[0]) && tgErrChecked(f, s, cm[0])
			c.Check("stamp-with-commit", f.Name+" stamp staged (and tested) before Commit", s.Pos(), ok, "the completeness stamp must ride the same batch as the entries it describes")
			same := len(sr) > 0
			for _, r := range sr {
				if len(r.Call.Args) < 1 || len(s.Call.Args) != 1 || engine.ObjOf(info, r.Call.Args[0]) != engine.ObjOf(info, s.Call.Args[0]) || engine.ObjOf(info, s.Call.Args[0]) == nil {
					same = false
				}
			}
			c.Check("stamp-with-commit", f.Name+" stamp names the version being saved", s.Pos(), same, "setFastIndexVersion must receive the same version variable as SaveRoot")
		}
	}
	if f := c.MustFunc(T + "rebuildFastIndex"); f != nil {
		g := f.Graph()
		info := f.Info()
		cl := f.CallsTo(N + "clearFastIndex")
		st := f.CallsTo(N + "setFastIndexVersion")
		cm := f.CallsTo(N + "Commit")
		ok := len(cl) == 1 && len(st) == 1 && len(cm) >= 1
		if ok {
			ok = g.Dominates(cl[0], st[0]) && tgSelField(info, st[0].Call.Args[0]) == verF.Origin()
			last := false
			for _, k := range cm {
				if g.Dominates(st[0], k) {
					last = true
				}
			}
			ok = ok && last
		}
		c.Check("stamp-with-commit", f.Name+" clear → walk → stamp(t.version) → Commit", f.Pos(), ok, "a rebuild must clear stale entries first and stamp the rebuilt index with the loaded version in the final commit")
	}
	tgDebug(c)
}

// tgOrdinalByGate names a call site by the field/ident conditions it depends
// on (stable under line moves): e.g. "[t.root == nil]" vs "[]".
func tgOrdinalByGate(f *engine.Fn, s *engine.Site) string {
	var parts []string
	for _, gt := range f.Graph().Gates(s) {
		b, ok := ast.Unparen(gt.Cond).(*ast.BinaryExpr)
		if !ok || !(isNil(b.Y) && (b.Op == token.EQL || b.Op == token.NEQ)) {
			continue
		}
		if _, isSel := ast.Unparen(b.X).(*ast.SelectorExpr); !isSel {
			continue
		}
		pre := ""
		if !gt.OnTrue {
			pre = "!"
		}
		parts = append(parts, pre+"("+engine.ExprString(gt.Cond)+")")
	}
	return "[" + strings.Join(parts, ",") + "]"
}
