package checks

import (
	"go/ast"
	"go/token"
	"go/types"
	"strings"

	"gnoverif/engine"
)

// C26 — the bptree fast index never serves a stale value: eager same-batch
// maintenance is unavoidable on every successful Set/Remove, reads trust an
// entry only behind the checksum/length/version guards and only from a clean
// committed view, read-only loads never rebuild, the stamp policy is
// rebuild-if-behind / fail-if-ahead.
func init() {
	register("C26", c26)
	meta("C26", Meta{
		Text:      "Decides structural necessary conditions of 'a fast-index hit equals the authoritative tree': (1) pairing — values are staged only by Set and Importer.Add; in Set every staged value is followed, on every path to a success return, by setFastIndex for the same key/valueKey/value; in Remove every success return after the root was published passes deleteFastIndex(key); both results are error-tested (their failure poisons the session: C23); Import drops the whole index behind a tested dropFastIndex and Importer.Commit suppresses the completeness stamp around SaveVersion and restores the option on every exit; (2) fastGet reports a hit only behind the DB-error/nil, checksum, length and `vkVersion(payload) > s` tests and returns a copy; (3) fastGet has exactly two callers: MutableTree.Get behind fastReadable() — which requires root == lastSaved — and ImmutableTree.Get behind the snapshot's `fast` flag, each passing its own version; (4) ImmutableTree.fast is written only by newImmutable (committed views) and getImmutable, where it additionally requires a readable stamp >= the snapshot version; (5) all index and stamp writes go through ndb.batch (no direct DB write in the package), fastDBKey has a closed caller set; (6) rebuild policy — rebuildFastIndex is called only by ensureFastIndex, only when the stamp is absent or behind, a stamp ahead is an error; ensureFastIndex is called only by Load; LoadReadonly's callee closure contains no batch write/commit; the store's immutable views never call Load; (7) SaveVersion stages the stamp for the version it saves before the (tested) Commit. Level 'other': code shape over all paths, not crash/interleaving behaviour.",
		Note:      "Not covered: crash points inside the DB engine's batch write, concurrent interleavings of query loads with commits (only the structural 'read-only load never writes' clause), rootmulti's CollectingDB iterator behaviour, completeness of the index (a performance property).",
		Technique: "go/cfg must-pass-after / checked-guard analysis, who-may-call and who-may-write tables, callee-closure reachability",
		Ref:       "DESIGN.md §2 C26",
	})
	const mt = "tm2/pkg/bptree/mutable_tree.go"
	const fi = "tm2/pkg/bptree/fast_index.go"
	mutants("C26",
		Mutant{"set-update-skips-index", mt, "\t// for key with the new value; the old vk is already orphaned above.\n\tif err := t.ndb.setFastIndex(key, vk, value); err != nil {\n\t\tt.poisoned = err\n\t\treturn updated, err\n\t}\n", "", "set-indexes"},
		Mutant{"remove-conditional-unindex", mt, "\tif err := t.ndb.deleteFastIndex(key); err != nil {\n\t\tt.poisoned = err\n\t\treturn val, true, err\n\t}\n", "\tif oldVK == nil {\n\t\tif err := t.ndb.deleteFastIndex(key); err != nil {\n\t\t\tt.poisoned = err\n\t\t\treturn val, true, err\n\t\t}\n\t}\n", "remove-unindexes"},
		Mutant{"fastget-no-version-guard", fi, "\tif vkVersion(payload) > s {\n\t\treturn nil, false // entry newer than the snapshot\n\t}\n", "", "fastget-guards"},
		Mutant{"fastget-guard-off-by-one", fi, "\tif vkVersion(payload) > s {", "\tif vkVersion(payload) > s+1 {", "fastget-guards"},
		Mutant{"fastget-ignores-checksum", fi, "\tpayload, err := verifyChecksum(data)\n\tif err != nil || len(payload) < 8 {\n\t\treturn nil, false\n\t}\n\tif vkVersion", "\tpayload, err := verifyChecksum(data)\n\tif err != nil && len(payload) < 8 {\n\t\treturn nil, false\n\t}\n\tif vkVersion", "fastget-guards"},
		Mutant{"dirty-tree-reads-index", mt, "\treturn t.ndb.opts.FastIndex && t.root == t.lastSaved", "\treturn t.ndb.opts.FastIndex && t.root != nil", "fastget-callers"},
		Mutant{"snapshot-ignores-stamp", mt, "\t\timm.fast = err == nil && ok && stamp >= version", "\t\timm.fast = err == nil && ok && stamp >= 0", "snapshot-stamp"},
		Mutant{"readonly-load-rebuilds", mt, "\treturn t.loadVersionDiscovered(latest)\n}\n\n// LoadVersion loads a specific version", "\tv, err := t.loadVersionDiscovered(latest)\n\tif err == nil {\n\t\terr = t.ensureFastIndex()\n\t}\n\treturn v, err\n}\n\n// LoadVersion loads a specific version", "rebuild-policy"},
		Mutant{"rebuild-when-ahead", fi, "\tif !ok || stamp < t.version {\n\t\treturn t.rebuildFastIndex()", "\tif !ok || stamp != t.version {\n\t\treturn t.rebuildFastIndex()", "rebuild-policy"},
		Mutant{"import-keeps-index", "tm2/pkg/bptree/import.go", "\tif err := t.ndb.dropFastIndex(); err != nil {\n\t\treturn nil, err\n\t}\n\treturn &Importer{", "\treturn &Importer{", "import-drops-index"},
		Mutant{"index-written-directly", fi, "\treturn ndb.batch.Set(fastDBKey(userKey), sealChecksum(rec))", "\treturn ndb.db.Set(fastDBKey(userKey), sealChecksum(rec))", "index-writes-batched"},
		Mutant{"immutable-store-loads-rw", "tm2/pkg/store/bptree/store.go", "\tlatestV, err := st.mtree.LoadReadonly()\n\tif err != nil {\n\t\treturn err\n\t}\n\tif ver == 0 {", "\tlatestV, err := st.mtree.Load()\n\tif err != nil {\n\t\treturn err\n\t}\n\tif ver == 0 {", "rebuild-policy"},
		Mutant{"stamp-after-commit", mt, "\tif err := t.ndb.setFastIndexVersion(version); err != nil {\n\t\treturn nil, 0, err\n\t}\n\n\t// Commit batch (nodes + root + orphan list, atomically)\n\tif err := t.ndb.Commit(); err != nil {\n\t\treturn nil, 0, err\n\t}\n", "\t// Commit batch (nodes + root + orphan list, atomically)\n\tif err := t.ndb.Commit(); err != nil {\n\t\treturn nil, 0, err\n\t}\n\tif err := t.ndb.setFastIndexVersion(version); err != nil {\n\t\treturn nil, 0, err\n\t}\n", "stamp-with-commit"},
	)
}

// tgErrChecked: the call's error result is tested and the target lies on the nil side.
func tgErrChecked(f *engine.Fn, call, target *engine.Site) bool {
	r := f.Graph().CheckedGuard(call, target)
	return r.OK && tgIsErrTest(f.Info(), r.Cond) && !r.OnTrue && len(engine.Atoms(r.Cond)) == 1
}

// tgClosure returns the rendered names of all functions statically reachable
// from f through calls resolved inside the loaded packages, plus the names of
// external callees met on the way.
func tgClosure(p *engine.Prog, f *engine.Fn) map[string]bool {
	seen := map[string]bool{}
	var visit func(fn *engine.Fn)
	visit = func(fn *engine.Fn) {
		if fn == nil || seen[fn.Name] {
			return
		}
		seen[fn.Name] = true
		var all []*engine.Fn
		all = append(all, fn)
		all = append(all, fn.AllLits()...)
		for _, x := range all {
			for _, s := range x.Calls() {
				n := s.CalleeName()
				if n == "" {
					continue
				}
				if o, ok := s.Callee.(*types.Func); ok {
					if g := p.FnOf(o); g != nil {
						visit(g)
						continue
					}
				}
				seen[n] = true
			}
		}
	}
	visit(f)
	return seen
}

func c26(c *engine.Ctx) {
	c.Explain = "Decides the structural clauses of fast-index freshness: unavoidable same-batch maintenance on every successful Set/Remove (and index drop on Import), fastGet's hit guards (db error/nil, checksum, length, entry version <= snapshot), its two callers and their clean-view gates (root == lastSaved; snapshot.fast with stamp >= version), batch-only index writes, rebuild-if-behind / error-if-ahead stamp policy reachable only from Load, read-only loads free of writes, stamp staged before the tested Commit. Not covered: crash points inside a batch write, goroutine interleavings, CollectingDB iterator semantics."
	p := c.Load("tm2/pkg/bptree", "tm2/pkg/store/bptree")
	if p == nil {
		return
	}
	const P = "tm2/pkg/bptree."
	const T = P + "(*MutableTree)."
	const N = P + "(*nodeDB)."
	const S = "tm2/pkg/store/bptree."
	rootF := p.Field(P + "MutableTree.root")
	lastF := p.Field(P + "MutableTree.lastSaved")
	verF := p.Field(P + "MutableTree.version")
	optF := p.Field(P + "Options.FastIndex")
	immFast := p.Field(P + "ImmutableTree.fast")
	immVer := p.Field(P + "ImmutableTree.version")
	for nm, f := range map[string]*types.Var{"MutableTree.root": rootF, "MutableTree.lastSaved": lastF, "MutableTree.version": verF, "Options.FastIndex": optF, "ImmutableTree.fast": immFast, "ImmutableTree.version": immVer} {
		if f == nil {
			c.Undecided("anchor", P+nm, "field not found")
			return
		}
	}

	// ---- (1) pairing
	{
		tgTableCallers(c, p, "value-stagers", N+"SaveValue", []string{T + "Set", P + "(*Importer).Add"}, N+"SaveValue")
	}
	if f := c.MustFunc(T + "Set"); f != nil {
		// helper-transparent: SaveValue+setFastIndex may live in a private helper of Set
		ds := f.DeepCallsTo(2, N+"SaveValue")
		c.Floor("set-indexes", len(ds), 1)
		keyP, valP := paramObj(f, 0), paramObj(f, 1)
		seen := map[*engine.Site]bool{}
		for _, d := range ds {
			if seen[d.Inner] {
				continue // the same helper site reached from several call sites of Set
			}
			seen[d.Inner] = true
			// level chain down to the function that contains the SaveValue call
			l := &tgLevel{F: f}
			cur, okChain := f, true
			for _, h := range d.Chain {
				var site *engine.Site
				for _, s := range cur.Calls() {
					if fn, _ := s.Callee.(*types.Func); fn != nil && p.FnOf(fn) == h && (cur != f || s == d.Outer) {
						site = s
					}
				}
				if site == nil {
					okChain = false
					break
				}
				l = &tgLevel{F: h, Parent: l, Call: site.Call, Site: site}
				cur = h
			}
			if !okChain {
				c.Check("set-indexes", f.Name+" helper chain", d.Outer.Pos(), false, "could not follow the helper chain to SaveValue")
				continue
			}
			lf := l.F
			li := lf.Info()
			sv := d.Inner
			sets := lf.CallsTo(N + "setFastIndex")
			label := f.Name + " SaveValue" + tgIf(lf != f, " (in "+lf.Name+")") + "#" + tgOrdinalByGate(lf, sv)
			ok, bad := tgAfterMustPass(lf, sv, sets, tgReturnsNilErr)
			why := "every success return after staging the value passes setFastIndex"
			if !ok {
				why = "a success return (`" + tgRetKey(bad) + "`) is reachable after SaveValue without setFastIndex"
			}
			c.Check("set-indexes", label+" followed by setFastIndex", sv.Pos(), ok, why)
			okArgs, okErr := false, false
			res := func(e ast.Expr) types.Object {
				o, top := tgResolveObj(l, engine.ObjOf(li, e))
				if top.Parent != nil {
					return nil
				}
				return o
			}
			for _, st := range sets {
				if !lf.Graph().Dominates(sv, st) {
					continue
				}
				if len(st.Call.Args) == 3 && len(sv.Call.Args) == 2 &&
					res(st.Call.Args[0]) == keyP && keyP != nil &&
					engine.ObjOf(li, st.Call.Args[1]) == engine.ObjOf(li, sv.Call.Args[1]) && engine.ObjOf(li, st.Call.Args[1]) != nil &&
					res(st.Call.Args[2]) == valP && res(sv.Call.Args[0]) == valP && valP != nil {
					okArgs = true
				}
				for _, r := range tgSuccessReturns(lf) {
					if lf.Graph().ReachableAfter(st, r) && tgErrChecked(lf, st, r) {
						okErr = true
					}
				}
			}
			// a helper's error must reach Set's caller: returned directly or tested
			for x := l; x.Parent != nil && okErr; x = x.Parent {
				pf := x.Parent.F
				direct := false
				if rs, isRet := x.Site.Top.(*ast.ReturnStmt); isRet && len(rs.Results) > 0 && ast.Unparen(rs.Results[len(rs.Results)-1]) == ast.Expr(x.Call) {
					direct = true
				}
				if !direct {
					tested := false
					for _, r := range tgSuccessReturns(pf) {
						if pf.Graph().ReachableAfter(x.Site, r) && tgErrChecked(pf, x.Site, r) {
							tested = true
						}
					}
					okErr = tested
				}
			}
			c.Check("set-indexes", label+" same key/valueKey/value indexed", sv.Pos(), okArgs, "setFastIndex(key, vk, value) must index exactly what SaveValue(value, vk) staged for Set's key and value arguments")
			c.Check("set-indexes", label+" index error is tested", sv.Pos(), okErr, "success must lie on the `err == nil` side of setFastIndex (and of the helper that wraps it)")
		}
	}
	if f := c.MustFunc(T + "Remove"); f != nil {
		info := f.Info()
		dels := f.CallsTo(N + "deleteFastIndex")
		ws := tgFieldAssigns(f, rootF)
		c.Floor("remove-unindexes", len(ws), 1)
		for _, w := range ws {
			ok, bad := tgAfterMustPass(f, w, dels, tgReturnsNilErr)
			why := "every success return after the removal was published passes deleteFastIndex"
			if !ok {
				why = "a success return (`" + tgRetKey(bad) + "`) is reachable after `t.root = …` without deleteFastIndex"
			}
			c.Check("remove-unindexes", f.Name+" published removal followed by deleteFastIndex", w.Pos(), ok, why)
		}
		okArg, okErr := false, false
		for _, d := range dels {
			if len(d.Call.Args) == 1 && engine.ObjOf(info, d.Call.Args[0]) == paramObj(f, 0) {
				okArg = true
			}
			for _, r := range tgSuccessReturns(f) {
				if f.Graph().ReachableAfter(d, r) && tgErrChecked(f, d, r) {
					okErr = true
				}
			}
		}
		c.Check("remove-unindexes", f.Name+" deletes the entry of the removed key", f.Pos(), okArg, "deleteFastIndex must be called with the key argument")
		c.Check("remove-unindexes", f.Name+" index error is tested", f.Pos(), okErr, "success must lie on the `err == nil` side of deleteFastIndex")
	}
	if f := c.MustFunc(T + "Import"); f != nil {
		drops := f.CallsTo(N + "dropFastIndex")
		succ := tgSuccessReturns(f)
		c.Floor("import-drops-index", len(succ), 1)
		for _, r := range succ {
			ok := false
			for _, d := range drops {
				if tgErrChecked(f, d, r) {
					ok = true
				}
			}
			c.Check("import-drops-index", f.Name+" importer handed out only after dropFastIndex succeeded", r.Pos(), ok, "Importer.Commit bypasses per-entry maintenance, so the old index must be dropped (tested) before an Importer exists")
		}
	}
	if f := c.MustFunc(N + "dropFastIndex"); f != nil {
		g := f.Graph()
		dl := f.CallsTo("tm2/pkg/db.(Batch).Delete")
		cm := f.CallsTo(N + "Commit")
		cl := f.CallsTo(N + "clearFastIndex")
		ok := len(dl) == 1 && len(cm) == 1 && len(cl) == 1 && g.Dominates(dl[0], cm[0]) && g.Dominates(cm[0], cl[0]) &&
			len(dl[0].Call.Args) == 1 && engine.MentionsName(dl[0].Call.Args[0], "metaFastVersionKey")
		c.Check("import-drops-index", f.Name+" stamp deleted and committed before the entries are cleared", f.Pos(), ok, "order must be batch.Delete(stamp) → Commit → clearFastIndex so that an abort leaves no trusted stamp over a partial index")
	}
	if f := c.MustFunc(P + "(*Importer).Commit"); f != nil {
		g := f.Graph()
		info := f.Info()
		ws := tgFieldAssigns(f, optF)
		svs := f.CallsTo(T + "SaveVersion")
		okOff, okBack := false, false
		var prev types.Object
		engine.InspectBody(f, func(n ast.Node) {
			if as, ok := n.(*ast.AssignStmt); ok && as.Tok == token.DEFINE && len(as.Lhs) == 1 && len(as.Rhs) == 1 && tgSelField(info, as.Rhs[0]) == optF.Origin() {
				prev = engine.ObjOf(info, as.Lhs[0])
			}
		})
		for _, w := range ws {
			rhs := tgRHSFor(f, w.Node.(*ast.AssignStmt), optF)
			for _, sv := range svs {
				if id, ok := ast.Unparen(rhs).(*ast.Ident); ok && id.Name == "false" && g.Dominates(w, sv) {
					okOff = true
				}
				if prev != nil && engine.ObjOf(info, rhs) == prev && g.Dominates(sv, w) {
					// restored before any return that follows SaveVersion
					okBack = true
					for _, r := range tgReturnSites(f) {
						if g.ReachableAfter(sv, r) && !g.Dominates(w, r) {
							okBack = false
						}
					}
				}
			}
		}
		c.Check("import-drops-index", f.Name+" stamp suppressed around SaveVersion", f.Pos(), okOff && len(svs) == 1, "opts.FastIndex = false must dominate the SaveVersion call (the cleared index must not be stamped complete)")
		c.Check("import-drops-index", f.Name+" option restored on every exit", f.Pos(), okBack, "opts.FastIndex must be restored from the saved value before every return that follows SaveVersion")
	}
	{
		tgTableWriters(c, p, "import-drops-index", "writers of Options.FastIndex", p.FieldWrites(optF), func(w engine.Write) bool { return w.Kind != "lit" }, []string{P + "FastIndexOption", P + "(*Importer).Commit"})
	}

	// ---- (2) fastGet guards (helper-transparent: the decoding may live in a private function
	// whose result fastGet returns directly; helper parameters are resolved to fastGet's arguments)
	if f := c.MustFunc(N + "fastGet"); f != nil {
		sP := paramObj(f, 1)
		type hit struct {
			l *tgLevel
			r *engine.Site
		}
		var hits []hit
		var collect func(l *tgLevel, depth int)
		collect = func(l *tgLevel, depth int) {
			for _, r := range tgReturnSites(l.F) {
				rs := r.Node.(*ast.ReturnStmt)
				switch len(rs.Results) {
				case 2:
					if id, ok := ast.Unparen(rs.Results[1]).(*ast.Ident); ok && id.Name == "false" {
						continue
					}
					hits = append(hits, hit{l, r})
				case 1:
					call, ok := ast.Unparen(rs.Results[0]).(*ast.CallExpr)
					if !ok {
						hits = append(hits, hit{l, r})
						continue
					}
					var h *engine.Fn
					if s := l.F.SiteOf(call); s != nil {
						if fn, _ := s.Callee.(*types.Func); fn != nil {
							h = p.FnOf(fn)
						}
					}
					if h == nil || depth <= 0 {
						hits = append(hits, hit{l, r}) // verdict computed somewhere we cannot follow
						continue
					}
					collect(&tgLevel{F: h, Parent: l, Call: call, Site: r}, depth-1)
				}
			}
		}
		collect(&tgLevel{F: f}, 2)
		c.Floor("fastget-guards", len(hits), 1)
		for _, h := range hits {
			facts := tgChainFacts(h.l, h.r)
			// locate, on the chain, the DB read and the checksum verification and their result variables
			var data, getErr, payload, vcErr types.Object
			nGet, nVC := 0, 0
			var vcSite *engine.Site
			var vcLevel *tgLevel
			for l := h.l; l != nil; l = l.Parent {
				for _, s := range l.F.CallsTo("tm2/pkg/db.(DB).Get") {
					nGet++
					if as, ok := s.Top.(*ast.AssignStmt); ok && len(as.Lhs) == 2 {
						data, getErr = engine.ObjOf(l.F.Info(), as.Lhs[0]), engine.ObjOf(l.F.Info(), as.Lhs[1])
					}
				}
				for _, s := range l.F.CallsTo(P + "verifyChecksum") {
					nVC++
					vcSite, vcLevel = s, l
					if as, ok := s.Top.(*ast.AssignStmt); ok && len(as.Lhs) == 2 {
						payload, vcErr = engine.ObjOf(l.F.Info(), as.Lhs[0]), engine.ObjOf(l.F.Info(), as.Lhs[1])
					}
				}
			}
			any := func(pred func(tgFact) bool) bool {
				for _, ft := range facts {
					if pred(ft) {
						return true
					}
				}
				return false
			}
			isConst8 := func(info *types.Info, e ast.Expr) bool {
				tv := info.Types[e]
				return tv.Value != nil && tv.Value.String() == "8"
			}
			name := f.Name
			c.Check("fastget-guards", name+" hit behind db error test", h.r.Pos(), nGet == 1 && any(func(ft tgFact) bool { return tgFactIsNil(ft, getErr, true) }), "a DB read error must fall back to the tree walk")
			c.Check("fastget-guards", name+" hit behind missing-entry test", h.r.Pos(), any(func(ft tgFact) bool { return tgFactIsNil(ft, data, false) }), "a missing entry must fall back to the tree walk")
			// the checksum is verified on the record that was read (helper parameter resolved to fastGet's variable)
			okVC := nVC == 1 && any(func(ft tgFact) bool { return tgFactIsNil(ft, vcErr, true) })
			if okVC {
				okVC = false
				if len(vcSite.Call.Args) == 1 {
					ro, _ := tgResolveObj(vcLevel, engine.ObjOf(vcLevel.F.Info(), vcSite.Call.Args[0]))
					okVC = ro != nil && ro == data
				}
			}
			c.Check("fastget-guards", name+" hit behind checksum test", h.r.Pos(), okVC, "a corrupt entry must fall back to the tree walk (verifyChecksum of the record read, error tested)")
			c.Check("fastget-guards", name+" hit behind length test", h.r.Pos(), any(func(ft tgFact) bool {
				info := ft.Fn.Info()
				return tgFactOrd(ft, func(e ast.Expr) bool { return engine.IsLenOf(info, e, payload) }, func(e ast.Expr) bool { return isConst8(info, e) }, token.GEQ)
			}), "an entry shorter than its 8-byte version prefix must fall back")
			c.Check("fastget-guards", name+" hit behind entry-version test", h.r.Pos(), any(func(ft tgFact) bool {
				info := ft.Fn.Info()
				var lvl *tgLevel
				for l := h.l; l != nil; l = l.Parent {
					if l.F == ft.Fn {
						lvl = l
					}
				}
				return lvl != nil && tgFactOrd(ft, func(e ast.Expr) bool {
					call, ok := ast.Unparen(e).(*ast.CallExpr)
					if !ok || len(call.Args) != 1 || engine.ObjOf(info, call.Args[0]) != payload {
						return false
					}
					s := ft.Fn.SiteOf(call)
					return s != nil && s.CalleeName() == P+"vkVersion"
				}, func(e ast.Expr) bool {
					o, top := tgResolveObj(lvl, engine.ObjOf(info, e))
					return o != nil && o == sP && top.Parent == nil
				}, token.LEQ, token.LSS)
			}), "a hit requires `vkVersion(payload) <= s` with s the snapshot version argument of fastGet")
			// returns a copy of the value part
			okCopy := false
			rs := h.r.Node.(*ast.ReturnStmt)
			if call, ok := ast.Unparen(rs.Results[0]).(*ast.CallExpr); ok && len(rs.Results) == 2 {
				info := h.l.F.Info()
				if s := h.l.F.SiteOf(call); s != nil && s.CalleeName() == P+"copyKey" && len(call.Args) == 1 {
					if sl, ok := ast.Unparen(call.Args[0]).(*ast.SliceExpr); ok && engine.ObjOf(info, sl.X) == payload && sl.Low != nil && isConst8(info, sl.Low) {
						okCopy = true
					}
				}
			}
			c.Check("fastget-guards", name+" returns a copy of payload[8:]", h.r.Pos(), okCopy, "the value handed out must be copyKey(payload[8:])")
		}
	}

	// ---- (3) callers of fastGet
	{
		tgTableCallers(c, p, "fastget-callers", N+"fastGet", []string{T + "Get", P + "(*ImmutableTree).Get"}, N+"fastGet")
	}
	if f := c.MustFunc(T + "Get"); f != nil {
		info := f.Info()
		fg := f.CallsTo(N + "fastGet")
		c.Floor("fastget-callers Get", len(fg), 1)
		for _, s := range fg {
			gt, ok := tgGateOn(f, s, func(e ast.Expr) bool {
				call, isCall := ast.Unparen(e).(*ast.CallExpr)
				if !isCall {
					return false
				}
				cs := f.SiteOf(call)
				return cs != nil && cs.CalleeName() == T+"fastReadable"
			})
			c.Check("fastget-callers", f.Name+" fast read behind fastReadable()", s.Pos(), ok && gt.OnTrue, "the working tree may consult the index only when fastReadable() holds")
			c.Check("fastget-callers", f.Name+" fast read at the tree's own version", s.Pos(), len(s.Call.Args) == 2 && tgSelField(info, s.Call.Args[1]) == verF.Origin() && engine.ObjOf(info, s.Call.Args[0]) == paramObj(f, 0), "fastGet(key, t.version)")
		}
	}
	if f := c.MustFunc(T + "fastReadable"); f != nil {
		info := f.Info()
		rets := tgReturnSites(f)
		ok := len(rets) == 1
		if ok {
			rs := rets[0].Node.(*ast.ReturnStmt)
			hasClean, hasOpt := false, false
			if len(rs.Results) == 1 {
				for _, cj := range engine.Conjuncts(rs.Results[0], token.LAND) {
					if b, isB := ast.Unparen(cj).(*ast.BinaryExpr); isB && b.Op == token.EQL {
						x, y := tgSelField(info, b.X), tgSelField(info, b.Y)
						if (x == rootF.Origin() && y == lastF.Origin()) || (x == lastF.Origin() && y == rootF.Origin()) {
							hasClean = true
						}
					}
					if tgSelField(info, cj) == optF.Origin() {
						hasOpt = true
					}
				}
			}
			ok = hasClean && hasOpt
		}
		c.Check("fastget-callers", f.Name+" requires a clean session", f.Pos(), ok, "fastReadable must be the conjunction of opts.FastIndex and `t.root == t.lastSaved` (no staged mutation)")
	}
	if f := c.MustFunc(P + "(*ImmutableTree).Get"); f != nil {
		info := f.Info()
		fg := f.CallsTo(N + "fastGet")
		c.Floor("fastget-callers ImmutableTree.Get", len(fg), 1)
		for _, s := range fg {
			gt, ok := tgGateOn(f, s, func(e ast.Expr) bool {
				for _, cj := range engine.Conjuncts(e, token.LAND) {
					if tgSelField(info, cj) == immFast.Origin() {
						return true
					}
				}
				return false
			})
			c.Check("fastget-callers", f.Name+" fast read behind the snapshot's fast flag", s.Pos(), ok && gt.OnTrue, "a snapshot may consult the index only when its `fast` flag is set")
			c.Check("fastget-callers", f.Name+" fast read at the snapshot's own version", s.Pos(), len(s.Call.Args) == 2 && tgSelField(info, s.Call.Args[1]) == immVer.Origin() && engine.ObjOf(info, s.Call.Args[0]) == paramObj(f, 0), "fastGet(key, t.version)")
		}
	}

	// ---- (4) snapshot flag
	{
		tgTableWriters(c, p, "snapshot-stamp", "writers of ImmutableTree.fast", p.FieldWrites(immFast), func(w engine.Write) bool { return w.Kind != "lit" }, []string{T + "newImmutable", T + "getImmutable"})
		lit := 0
		for _, w := range p.FieldWrites(immFast) {
			if w.Kind == "lit" {
				lit++
			}
		}
		c.Check("snapshot-stamp", "ImmutableTree.fast never set in a literal", token.NoPos, lit == 0, "the flag must only be raised by newImmutable/getImmutable")
	}
	if f := c.MustFunc(T + "newImmutable"); f != nil {
		info := f.Info()
		cm := paramObj(f, 2)
		for _, w := range tgFieldAssigns(f, immFast) {
			gt, ok := tgGateOn(f, w, func(e ast.Expr) bool { return engine.ObjOf(info, e) == cm && cm != nil })
			rhs := tgRHSFor(f, w.Node.(*ast.AssignStmt), immFast)
			c.Check("snapshot-stamp", f.Name+" only committed views get the flag", w.Pos(), ok && gt.OnTrue && tgSelField(info, rhs) == optF.Origin(), "imm.fast = opts.FastIndex only on the `committed` branch (a read-your-writes snapshot must not read the committed index)")
		}
	}
	if f := c.MustFunc(T + "getImmutable"); f != nil {
		info := f.Info()
		ws := tgFieldAssigns(f, immFast)
		c.Floor("snapshot-stamp", len(ws), 1)
		// facts required of the value assigned to imm.fast: either the conjunction itself, or a private
		// boolean helper all of whose non-false returns imply them
		type stampCtx struct {
			l     *tgLevel
			facts []tgFact
		}
		for _, w := range ws {
			rhs := tgRHSFor(f, w.Node.(*ast.AssignStmt), immFast)
			var ctxs []stampCtx
			root := &tgLevel{F: f}
			if call, isCall := ast.Unparen(rhs).(*ast.CallExpr); isCall {
				var h *engine.Fn
				if s := f.SiteOf(call); s != nil {
					if fn, _ := s.Callee.(*types.Func); fn != nil {
						h = p.FnOf(fn)
					}
				}
				if h != nil {
					l := &tgLevel{F: h, Parent: root, Call: call, Site: w}
					for _, r := range tgReturnSites(h) {
						rs := r.Node.(*ast.ReturnStmt)
						if len(rs.Results) != 1 {
							continue
						}
						if id, ok := ast.Unparen(rs.Results[0]).(*ast.Ident); ok && id.Name == "false" {
							continue
						}
						facts := tgGateFacts(h, r)
						if id, ok := ast.Unparen(rs.Results[0]).(*ast.Ident); !ok || id.Name != "true" {
							facts = append(facts, tgFactsOfCond(h, rs.Results[0], true)...)
						}
						ctxs = append(ctxs, stampCtx{l, facts})
					}
				}
			}
			if len(ctxs) == 0 {
				ctxs = append(ctxs, stampCtx{root, tgFactsOfCond(f, rhs, true)})
			}
			okAll := true
			for _, cx := range ctxs {
				var stamp, okv, errv types.Object
				for _, s := range cx.l.F.CallsTo(N + "getFastIndexVersion") {
					if as, ok := s.Top.(*ast.AssignStmt); ok && len(as.Lhs) == 3 {
						li := cx.l.F.Info()
						stamp, okv, errv = engine.ObjOf(li, as.Lhs[0]), engine.ObjOf(li, as.Lhs[1]), engine.ObjOf(li, as.Lhs[2])
					}
				}
				hasStamp, hasOK, hasErr := false, false, false
				for _, ft := range cx.facts {
					li := ft.Fn.Info()
					if tgFactOrd(ft, func(e ast.Expr) bool { return stamp != nil && engine.ObjOf(li, e) == stamp }, func(e ast.Expr) bool {
						o, top := tgResolveObj(cx.l, engine.ObjOf(li, e))
						return o != nil && o == paramObj(f, 0) && top.Parent == nil
					}, token.GEQ) {
						hasStamp = true
					}
					if tgFactBool(ft, okv, true) {
						hasOK = true
					}
					if tgFactIsNil(ft, errv, true) {
						hasErr = true
					}
				}
				if !(hasStamp && hasOK && hasErr) {
					okAll = false
				}
			}
			c.Check("snapshot-stamp", f.Name+" flag requires stamp >= snapshot version", w.Pos(), okAll, "imm.fast may only become true when `err == nil && ok && stamp >= version` (directly or through a private helper): an index stamped behind the snapshot can hold stale entries that pass the per-entry guard")
			gt, ok := tgGateOn(f, w, func(e ast.Expr) bool { return tgSelField(info, e) == immFast.Origin() })
			c.Check("snapshot-stamp", f.Name+" flag can only be lowered", w.Pos(), ok && gt.OnTrue, "the stamp test may only refine a flag that newImmutable raised")
		}
	}

	// ---- (5) batch-only writes
	{
		tgTableCallers(c, p, "index-writes-batched", P+"fastDBKey callers", []string{N + "setFastIndex", N + "deleteFastIndex", N + "fastGet"}, P+"fastDBKey")
		for _, fn := range []struct{ name, via string }{{N + "setFastIndex", "tm2/pkg/db.(Batch).Set"}, {N + "deleteFastIndex", "tm2/pkg/db.(Batch).Delete"}} {
			f := c.MustFunc(fn.name)
			if f == nil {
				continue
			}
			ok := false
			for _, k := range f.CallsTo(P + "fastDBKey") {
				for _, b := range f.CallsTo(fn.via) {
					if len(b.Call.Args) > 0 && containsExpr(b.Call.Args[0], k.Call) {
						if se, isSel := ast.Unparen(b.Call.Fun).(*ast.SelectorExpr); isSel && engine.MentionsName(se.X, "batch") {
							ok = true
						}
					}
				}
			}
			c.Check("index-writes-batched", fn.name+" stages through ndb.batch", f.Pos(), ok, "the index key must be the key argument of ndb.batch."+fn.via[strings.LastIndexByte(fn.via, '.')+1:])
			// gated by the option only
			for _, b := range f.CallsTo(fn.via) {
				gs := f.Graph().Gates(b)
				okg := len(gs) == 1 && !gs[0].OnTrue && isNot(gs[0].Cond) && tgSelField(f.Info(), tgStripNot(gs[0].Cond)) == optF.Origin()
				c.Check("index-writes-batched", fn.name+" unconditional when the feature is on", b.Pos(), okg, "the only condition on staging the entry must be `!opts.FastIndex → return nil`")
			}
		}
		// no direct DB write anywhere in the package
		direct := []string{}
		reads := 0
		for _, f := range p.FuncsIn("tm2/pkg/bptree") {
			for _, s := range f.Calls() {
				n := s.CalleeName()
				switch n {
				case "tm2/pkg/db.(DB).Set", "tm2/pkg/db.(DB).SetSync", "tm2/pkg/db.(DB).Delete", "tm2/pkg/db.(DB).DeleteSync":
					direct = append(direct, f.Root().Name)
				case "tm2/pkg/db.(DB).Get", "tm2/pkg/db.(DB).Has", "tm2/pkg/db.(DB).Iterator":
					reads++
				}
			}
		}
		c.Check("index-writes-batched", "tm2/pkg/bptree has no direct DB write", token.NoPos, len(direct) == 0, "direct writers: "+join(tgUniq(direct)))
		c.Floor("index-writes-batched db reads examined", reads, 8)
		// stamp key references
		tgTableObjUsers(c, p, "index-writes-batched", P+"metaFastVersionKey users", p.Object(P+"metaFastVersionKey"), []string{N + "setFastIndexVersion", N + "getFastIndexVersion", N + "dropFastIndex"})
	}

	// ---- (6) rebuild policy
	{
		tgTableCallers(c, p, "rebuild-policy", T+"rebuildFastIndex callers", []string{T + "ensureFastIndex"}, T+"rebuildFastIndex")
		tgTableCallers(c, p, "rebuild-policy", T+"ensureFastIndex callers", []string{T + "Load"}, T+"ensureFastIndex")
		tgTableCallers(c, p, "rebuild-policy", T+"Load callers", []string{T + "LoadVersion", S + "(*Store).LoadLatestVersion", S + "(*Store).LoadVersion"}, T+"Load")
		tgTableCallers(c, p, "rebuild-policy", N+"clearFastIndex callers", []string{T + "rebuildFastIndex", N + "dropFastIndex"}, N+"clearFastIndex")
	}
	if f := c.MustFunc(T + "ensureFastIndex"); f != nil {
		info := f.Info()
		var stamp, okv types.Object
		for _, s := range f.CallsTo(N + "getFastIndexVersion") {
			if as, ok := s.Top.(*ast.AssignStmt); ok && len(as.Lhs) == 3 {
				stamp, okv = engine.ObjOf(info, as.Lhs[0]), engine.ObjOf(info, as.Lhs[1])
			}
		}
		rb := f.CallsTo(T + "rebuildFastIndex")
		c.Floor("rebuild-policy", len(rb), 1)
		cmpStamp := func(e ast.Expr, op token.Token) bool {
			b, ok := ast.Unparen(e).(*ast.BinaryExpr)
			if !ok {
				return false
			}
			if b.Op == op && engine.ObjOf(info, b.X) == stamp && tgSelField(info, b.Y) == verF.Origin() {
				return true
			}
			return b.Op == engine.Flip(op) && engine.ObjOf(info, b.Y) == stamp && tgSelField(info, b.X) == verF.Origin()
		}
		for _, s := range rb {
			// some fact at the call site says: (stamp absent) or (stamp behind the loaded version) — in
			// any syntactic form (one `||` test, two consecutive ifs, swapped operands)
			ok := false
			why := "rebuild must be reachable only when `!ok || stamp < t.version`"
			for _, ft := range tgGateFacts(f, s) {
				all := true
				for _, d := range tgDisjuncts(ft) {
					absent := tgFactBool(d, okv, false)
					behind := tgFactOrd(d, func(e ast.Expr) bool { return stamp != nil && engine.ObjOf(info, e) == stamp }, func(e ast.Expr) bool { return tgSelField(info, e) == verF.Origin() }, token.LSS)
					if !absent && !behind {
						all = false
					}
				}
				if all {
					ok = true
				}
			}
			// and behind the tested stamp read
			okRead := false
			for _, gs := range f.CallsTo(N + "getFastIndexVersion") {
				if tgErrChecked(f, gs, s) {
					okRead = true
				}
			}
			c.Check("rebuild-policy", f.Name+" rebuilds only when the stamp is absent or behind", s.Pos(), ok && okRead, why)
		}
		// stamp ahead -> error
		okAhead := false
		for _, r := range tgReturnSites(f) {
			rs := r.Node.(*ast.ReturnStmt)
			if tgReturnsNilErr(rs) {
				continue
			}
			if gt, ok := tgGateOn(f, r, func(e ast.Expr) bool { return stamp != nil && cmpStamp(e, token.GTR) }); ok && gt.OnTrue {
				okAhead = true
			}
		}
		c.Check("rebuild-policy", f.Name+" a stamp ahead of the loaded version is an error", f.Pos(), okAhead, "`stamp > t.version` must return a non-nil error (never trust, never rebuild from an outdated root)")
		// success (trust) only when neither behind nor ahead
		for _, r := range tgSuccessReturns(f) {
			gts := f.Graph().Gates(r)
			off := false
			for _, gt := range gts {
				if isNot(gt.Cond) && tgSelField(info, tgStripNot(gt.Cond)) == optF.Origin() && gt.OnTrue {
					off = true
				}
			}
			if off {
				continue
			}
			a, b := false, false
			for _, gt := range gts {
				if !gt.OnTrue {
					for _, x := range engine.Conjuncts(gt.Cond, token.LOR) {
						if cmpStamp(x, token.LSS) {
							a = true
						}
						if cmpStamp(x, token.GTR) {
							b = true
						}
					}
				}
			}
			c.Check("rebuild-policy", f.Name+" trusts the index only when stamp == version", r.Pos(), a && b, "the nil return with the feature on must exclude both `stamp < t.version` and `stamp > t.version`")
		}
	}
	if f := c.MustFunc(T + "LoadReadonly"); f != nil {
		cl := tgClosure(p, f)
		var bad []string
		for n := range cl {
			switch {
			case n == T+"ensureFastIndex", n == T+"rebuildFastIndex", n == N+"setFastIndex", n == N+"deleteFastIndex", n == N+"setFastIndexVersion",
				n == N+"clearFastIndex", n == N+"dropFastIndex", n == N+"Commit",
				strings.HasPrefix(n, "tm2/pkg/db.(Batch).Set"), strings.HasPrefix(n, "tm2/pkg/db.(Batch).Delete"), strings.HasPrefix(n, "tm2/pkg/db.(Batch).Write"),
				strings.HasPrefix(n, "tm2/pkg/db.(DB).Set"), strings.HasPrefix(n, "tm2/pkg/db.(DB).Delete"):
				bad = append(bad, n)
			}
		}
		c.Check("rebuild-policy", f.Name+" callee closure performs no write", f.Pos(), len(bad) == 0 && len(cl) >= 5, "a read-only load must never stage, commit or rebuild; reaches: "+join(bad))
	}
	for _, nm := range []string{"LoadLatestVersion", "LoadVersion"} {
		f := c.MustFunc(S + "(*Store)." + nm)
		if f == nil {
			continue
		}
		info := f.Info()
		for _, s := range f.CallsTo(T + "Load") {
			// the immutable branch returns before: the Load call is on the false side of opts.Immutable
			gt, ok := tgGateOn(f, s, func(e ast.Expr) bool {
				se, isSel := ast.Unparen(e).(*ast.SelectorExpr)
				return isSel && se.Sel.Name == "Immutable" && info.TypeOf(e) != nil
			})
			c.Check("rebuild-policy", f.Name+" read-write Load only for mutable stores", s.Pos(), ok && !gt.OnTrue, "MutableTree.Load (which may rebuild the index) must be on the false side of `st.opts.Immutable`")
		}
	}
	if f := c.MustFunc(S + "(*Store).loadImmutableView"); f != nil {
		cl := tgClosure(p, f)
		c.Check("rebuild-policy", f.Name+" never reaches Load/ensureFastIndex", f.Pos(), !cl[T+"Load"] && !cl[T+"ensureFastIndex"] && cl[T+"LoadReadonly"], "immutable (query) views must load through LoadReadonly")
	}

	// ---- (7) stamp staged before the tested Commit, for the saved version
	if f := c.MustFunc(T + "SaveVersion"); f != nil {
		info := f.Info()
		g := f.Graph()
		st := f.CallsTo(N + "setFastIndexVersion")
		cm := f.CallsTo(N + "Commit")
		sr := f.CallsTo(N + "SaveRoot")
		c.Floor("stamp-with-commit", len(st), 1)
		for _, s := range st {
			ok := len(cm) == 1 && g.Dominates(s, cm[0]) && tgErrChecked(f, s, cm[0])
			c.Check("stamp-with-commit", f.Name+" stamp staged (and tested) before Commit", s.Pos(), ok, "the completeness stamp must ride the same batch as the entries it describes")
			same := len(sr) > 0
			for _, r := range sr {
				if len(r.Call.Args) < 1 || len(s.Call.Args) != 1 || engine.ObjOf(info, r.Call.Args[0]) != engine.ObjOf(info, s.Call.Args[0]) || engine.ObjOf(info, s.Call.Args[0]) == nil {
					same = false
				}
			}
			c.Check("stamp-with-commit", f.Name+" stamp names the version being saved", s.Pos(), same, "setFastIndexVersion must receive the same version variable as SaveRoot")
		}
	}
	if f := c.MustFunc(T + "rebuildFastIndex"); f != nil {
		g := f.Graph()
		info := f.Info()
		cl := f.CallsTo(N + "clearFastIndex")
		st := f.CallsTo(N + "setFastIndexVersion")
		cm := f.CallsTo(N + "Commit")
		ok := len(cl) == 1 && len(st) == 1 && len(cm) >= 1
		if ok {
			ok = g.Dominates(cl[0], st[0]) && tgSelField(info, st[0].Call.Args[0]) == verF.Origin()
			last := false
			for _, k := range cm {
				if g.Dominates(st[0], k) {
					last = true
				}
			}
			ok = ok && last
		}
		c.Check("stamp-with-commit", f.Name+" clear → walk → stamp(t.version) → Commit", f.Pos(), ok, "a rebuild must clear stale entries first and stamp the rebuilt index with the loaded version in the final commit")
	}
	tgDebug(c)
}

// tgOrdinalByGate names a call site by the field/ident conditions it depends
// on (stable under line moves): e.g. "[t.root == nil]" vs "[]".
func tgOrdinalByGate(f *engine.Fn, s *engine.Site) string {
	var parts []string
	for _, gt := range f.Graph().Gates(s) {
		b, ok := ast.Unparen(gt.Cond).(*ast.BinaryExpr)
		if !ok || !(isNil(b.Y) && (b.Op == token.EQL || b.Op == token.NEQ)) {
			continue
		}
		if _, isSel := ast.Unparen(b.X).(*ast.SelectorExpr); !isSel {
			continue
		}
		pre := ""
		if !gt.OnTrue {
			pre = "!"
		}
		parts = append(parts, pre+"("+engine.ExprString(gt.Cond)+")")
	}
	return "[" + strings.Join(parts, ",") + "]"
}
