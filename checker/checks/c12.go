package checks

import (
	"go/ast"
	"go/token"
	"go/types"
	"strconv"
	"strings"

	"gnoverif/engine"
)

// C12 — published package code is immutable and namespace-protected.
func init() {
	register("C12", c12)
	meta("C12", Meta{
		Text: "Decides, on every path of VMKeeper.AddPackage to the point where the package is run and stored (Machine.RunMemPackage), that all admission guards were passed with their failing branch returning an error: mempackage validation, production-file presence, chain-domain prefix, existing-public-package rejection, realm-or-/p/ path, _test/_filetest suffix, reserved run path, type check, gnomod parse, no public-over-private override, namespace permission, CLA. Also: the prior blobs are deleted only for an existing private package at the same path; the code-blob writers are closed (who-may-call tables for Store.AddMemPackage / DeleteMemPackage / setMemPackageBlob and the pkg: key constructors); only AddPackage (and boot-time stdlib loading) runs a mempackage with save=true, MsgRun never; checkNamespacePermission returns success only when the registry is unconfigured/undeployed or the registry call returned true; QueryFile returns the stored file body unmodified; DidUpdate's /p/-immutability panics are present on the nil-realm and own-realm branches. Level 'other'.",
		Note:      "Not covered: semantics of the path regular expressions and of ValidateMemPackageAny, the behaviour of the names-registry realm, equality of query output with the deployed bytes beyond 'body returned as stored', metadata patching of gnomod.toml. Quick tier closes the who-may-call tables over gnolang + vm; thorough tier over gnovm/... and gno.land/... (tooling callers frozen by name).",
		Technique: "go/cfg verdict-gating of guards (polarity-aware), who-may-call tables, constant-argument rule, return-value origin",
		Ref:       "DESIGN.md §2 C12",
	})
	const k = "gno.land/pkg/sdk/vm/keeper.go"
	mutants("C12",
		Mutant{"exists-check-private-only-inverted", k, "if pv != nil && !pv.Private {\n\t\treturn ErrPkgAlreadyExists", "if pv != nil && !pv.Private && ctx.BlockHeight() == 0 {\n\t\treturn ErrPkgAlreadyExists", "addpkg-guard existing-public-package"},
		Mutant{"domain-check-dropped", k, "if !strings.HasPrefix(pkgPath, chainDomain+\"/\") {\n\t\treturn ErrInvalidPkgPath(\"invalid domain: \" + pkgPath)\n\t}\n\n\tpv := gnostore.GetPackage(pkgPath, false)", "pv := gnostore.GetPackage(pkgPath, false)", "addpkg-guard chain-domain"},
		Mutant{"typecheck-error-ignored", k, "_, err = gno.TypeCheckMemPackage(memPkg, opts)\n\tif err != nil {\n\t\treturn ErrTypeCheck(err)\n\t}\n", "_, err = gno.TypeCheckMemPackage(memPkg, opts)\n", "addpkg-guard type-check"},
		Mutant{"namespace-check-only-at-genesis", k, "if err := vm.checkNamespacePermission(ctx, creator, pkgPath); err != nil {\n\t\treturn err\n\t}", "if err := vm.checkNamespacePermission(ctx, creator, pkgPath); err != nil && ctx.BlockHeight() > 0 {\n\t\treturn err\n\t}", "addpkg-guard namespace"},
		Mutant{"delete-before-exists-check", k, "if pv != nil {\n\t\t// A private package is being redeployed", "if pv != nil || msg.MaxDeposit.IsZero() {\n\t\t// A private package is being redeployed", "delete-only-private"},
		Mutant{"msgrun-saves-package", k, "_, pv := m.RunMemPackage(memPkg, false)", "_, pv := m.RunMemPackage(memPkg, true)", "save-only-addpkg"},
		Mutant{"namespace-unauthorized-accepted", k, "if !result {\n\t\treturn ErrUnauthorizedUser(\n\t\t\tfmt.Sprintf(\"%s is not authorized", "if !result && namespace == \"\" {\n\t\treturn ErrUnauthorizedUser(\n\t\t\tfmt.Sprintf(\"%s is not authorized", "namespace-verdict"},
		Mutant{"second-blob-writer", "gnovm/pkg/gnolang/store.go", "func (ds *defaultStore) DeleteMemPackage(path string) {\n", "func (ds *defaultStore) ReplaceMemPackage(mpkg *std.MemPackage) {\n\tds.setMemPackageBlob([]byte(backendPackagePathKey(mpkg.Path)), mpkg)\n}\n\nfunc (ds *defaultStore) DeleteMemPackage(path string) {\n", "who-may-call"},
		Mutant{"p-immutable-gate-stage-dropped", "gnovm/pkg/gnolang/realm.go", "if m != nil && m.Stage == StageRun &&\n\t\trlm.ID.IsImmutablePkg() && !rlm.ID.IsStdlibPkg() {", "if m != nil && m.Stage == StageRun &&\n\t\trlm.ID.IsImmutablePkg() && rlm.ID.IsStdlibPkg() {", "p-immutable"},
		Mutant{"qfile-body-rewritten", k, "return memFile.Body, nil", "return strings.TrimSpace(memFile.Body), nil", "qfile-as-stored"},
	)
}

func c12(c *engine.Ctx) {
	c.Explain = "Decides that every path of VMKeeper.AddPackage to RunMemPackage (which runs and stores the package) passed the admission guards with an error return on their failing side (validation, prod files, chain domain, existing public package, realm//p/ path, _test suffix, run path, type check, gnomod parse, public-over-private, namespace permission, CLA); prior blobs are deleted only for an existing private package; writers of package code blobs are a closed table; only AddPackage/boot stdlib loading save a mempackage; namespace check succeeds only on registry verdict true (or registry unconfigured/undeployed); QueryFile returns the stored body; /p/ immutability gates in DidUpdate are present. Not covered: regex/path-validation semantics, registry realm behaviour, gnomod.toml metadata patch."
	pats := []string{"gno.land/pkg/sdk/vm", "gnovm/pkg/gnolang"}
	if c.Tier == "thorough" {
		pats = []string{"gno.land/...", "gnovm/..."}
	}
	p := c.Load(pats...)
	if p == nil {
		return
	}
	gbC12AddPackage(c, p)
	gbC12Writers(c, p)
	gbC12Namespace(c, p)
	if f := c.MustFunc(gbV + "(*VMKeeper).QueryFile"); f != nil {
		info := f.Info()
		d := gbCollectDefs(f)
		n := 0
		ok := false
		engine.InspectBody(f, func(x ast.Node) {
			r, isR := x.(*ast.ReturnStmt)
			if !isR || len(r.Results) != 2 || !isNil(r.Results[1]) {
				return
			}
			sel, isSel := ast.Unparen(r.Results[0]).(*ast.SelectorExpr)
			if isSel && sel.Sel.Name == "Body" {
				n++
				for _, call := range d.roots(sel.X).calls {
					if strings.HasSuffix(gbCalleeName(info, call), ".GetMemFile") {
						ok = true
					}
				}
			}
		})
		// any successful return on the file branch must be that selector
		bad := false
		engine.InspectBody(f, func(x ast.Node) {
			r, isR := x.(*ast.ReturnStmt)
			if !isR || len(r.Results) != 2 || !isNil(r.Results[1]) {
				return
			}
			if engine.MentionsName(r.Results[0], "Body") {
				if _, isSel := ast.Unparen(r.Results[0]).(*ast.SelectorExpr); !isSel {
					bad = true
				}
			}
		})
		c.Check("qfile-as-stored", f.Name, f.Pos(), ok && n == 1 && !bad, "the file query must return store.GetMemFile(dir, name).Body unchanged")
	}
	if f := c.MustFunc(gbG + "(*Realm).DidUpdate"); f != nil {
		gbDidUpdateGates(c, f, "didupdate-backstop", "p-immutable")
	}
}

// gbLit: value of the call `g` at the target given the gate (cond, onTrue).
// strict=false when cond is a conjunction on its false side / disjunction on its
// true side (only "one of" is known).
func gbLit(gt engine.Gate, call ast.Node) (known, val, strict bool) {
	parts := engine.Conjuncts(gt.Cond, token.LAND)
	mode := token.LAND
	if len(parts) == 1 {
		parts = engine.Conjuncts(gt.Cond, token.LOR)
		mode = token.LOR
		if len(parts) == 1 {
			mode = token.ILLEGAL
		}
	}
	for _, pt := range parts {
		neg := false
		x := ast.Unparen(pt)
		if u, ok := x.(*ast.UnaryExpr); ok && u.Op == token.NOT {
			neg = true
			x = ast.Unparen(u.X)
		}
		if x != call {
			continue
		}
		// literal value at target
		litTrue := gt.OnTrue
		switch {
		case mode == token.ILLEGAL:
			strict = true
		case mode == token.LAND && gt.OnTrue:
			strict = true
		case mode == token.LOR && !gt.OnTrue:
			strict = true
		default:
			strict = false
		}
		v := litTrue
		if neg {
			v = !v
		}
		return true, v, strict
	}
	return false, false, false
}

func gbC12AddPackage(c *engine.Ctx, p *engine.Prog) {
	f := c.MustFunc(gbV + "(*VMKeeper).AddPackage")
	if f == nil {
		return
	}
	g := f.Graph()
	info := f.Info()
	d := gbCollectDefs(f)
	targets := f.CallsTo(gbM + "RunMemPackage")
	c.Floor("addpkg-guard targets", len(targets), 1)
	msg := paramObj(f, 1)
	// path variable: the one passed to GetPackage
	var pathObj, pvObj types.Object
	for _, s := range f.Calls() {
		if strings.HasSuffix(s.CalleeName(), ".GetPackage") && len(s.Call.Args) == 2 {
			pathObj = engine.ObjOf(info, s.Call.Args[0])
			if vs := gbAssignedVars(f, s); len(vs) == 1 {
				pvObj = vs[0]
			}
		}
	}
	if pathObj == nil || pvObj == nil {
		c.Undecided("addpkg-guard", f.Name, "pv := gnostore.GetPackage(pkgPath, false) not found")
		return
	}
	// pkgPath must be the message's package path
	okPath := false
	for _, r := range d.defs[pathObj] {
		if engine.ExprString(r) == msg.Name()+".Package.Path" {
			okPath = true
		}
	}
	c.Check("addpkg-guard", "path under test is msg.Package.Path", f.Pos(), okPath, "the guards must inspect the path the package will be stored under")
	isPath := func(e ast.Expr) bool { return engine.ObjOf(info, e) == pathObj }
	isPkg := func(e ast.Expr) bool { // memPkg / msg.Package
		if o := engine.ObjOf(info, e); o != nil {
			for _, r := range d.defs[o] {
				if engine.ExprString(r) == msg.Name()+".Package" {
					return true
				}
			}
		}
		return engine.ExprString(e) == msg.Name()+".Package"
	}

	type errGuard struct {
		key, callee string
		arg         int
		argOK       func(ast.Expr) bool
	}
	errGuards := []errGuard{
		{"mempackage-validation", gbG + "ValidateMemPackageAny", 0, isPkg},
		{"type-check", gbG + "TypeCheckMemPackage", 0, isPkg},
		{"gnomod-parse", "gnovm/pkg/gnomod.ParseMemPackage", 0, isPkg},
		{"namespace", gbV + "(*VMKeeper).checkNamespacePermission", 2, isPath},
		{"cla", gbV + "(*VMKeeper).checkCLASignature", -1, nil},
	}
	type boolGuard struct {
		key, callee string
		arg         int
		argOK       func(ast.Expr) bool
		want        bool // value of the predicate required when the package is stored
		strict      bool
	}
	boolGuards := []boolGuard{
		{"prod-files", gbV + "hasProdGnoFile", 0, isPkg, true, true},
		{"chain-domain", "strings.HasPrefix", 0, isPath, true, true},
		{"realm-or-p-path", gbG + "IsRealmPath", 0, isPath, true, false},
		{"realm-or-p-path", gbG + "IsPPackagePath", 0, isPath, true, false},
		{"test-suffix", "strings.HasSuffix", 0, isPath, false, true},
	}
	for _, t := range targets {
		for _, eg := range errGuards {
			sites := f.CallsTo(eg.callee)
			ok, why := false, "guard call not found"
			for _, gs := range sites {
				if eg.arg >= 0 && (len(gs.Call.Args) <= eg.arg || !eg.argOK(gs.Call.Args[eg.arg])) {
					why = "guard is applied to a different value"
					continue
				}
				ok, why = gbErrGuard(f, gs, t)
				if ok {
					break
				}
			}
			c.Check("addpkg-guard", eg.key, t.Pos(), ok, why)
		}
		seenAny := map[string]bool{}
		// gates of the store point, including those of a private error helper's success return
		// (e.g. `if err := checkDeployablePkgPath(pkgPath); err != nil { return err }`)
		hgs := f.GatesWithHelpers(t, 1)
		type gateCall struct {
			site *engine.Site
			gate engine.Gate
		}
		// pathArg: in f the argument must satisfy okArg; in a helper it must be a parameter that
		// the call of the helper in f binds to such an argument
		pathArg := func(in *engine.Fn, arg ast.Expr, okArg func(ast.Expr) bool) bool {
			if in == f {
				return okArg(arg)
			}
			po := engine.ObjOf(in.Info(), arg)
			if po == nil {
				return false
			}
			for i := 0; ; i++ {
				q := paramObj(in, i)
				if q == nil {
					return false
				}
				if q != po {
					continue
				}
				for _, cs := range f.CallsTo(in.Name) {
					if len(cs.Call.Args) > i && okArg(cs.Call.Args[i]) {
						return true
					}
				}
				return false
			}
		}
		gateCalls := func(callee string, argIdx int, okArg func(ast.Expr) bool) []gateCall {
			var out []gateCall
			for _, hg := range hgs {
				for _, a := range engine.Atoms(hg.Gate.Cond) {
					call, isC := ast.Unparen(a).(*ast.CallExpr)
					if !isC || gbCalleeName(hg.In.Info(), call) != callee || len(call.Args) <= argIdx {
						continue
					}
					if !pathArg(hg.In, call.Args[argIdx], okArg) {
						continue
					}
					if st := hg.In.SiteOf(call); st != nil {
						out = append(out, gateCall{st, hg.Gate})
					}
				}
			}
			return out
		}
		for _, bg := range boolGuards {
			sites := f.CallsTo(bg.callee)
			n := 0
			ok, why := false, "predicate not found in a gate of the run/store point"
			anyOK, anyWhy := false, ""
			for _, cand := range gateCalls(bg.callee, bg.arg, bg.argOK) {
				{
					gs := cand.site
					gt := cand.gate
					known, val, strict := gbLit(gt, gs.Node)
					if !known {
						continue
					}
					n++
					gok, gwhy := true, bg.callee+" == "+strconv.FormatBool(val)+" whenever the package is stored"
					switch {
					case val != bg.want:
						gok, gwhy = false, "package is stored when "+bg.callee+" is "+strconv.FormatBool(val)
					case bg.strict && !strict:
						gok, gwhy = false, "predicate is weakened by a combined condition `"+engine.ExprString(gt.Cond)+"`"
					}
					if !bg.strict && gok {
						// any-of group: every member of the condition must belong to the same group
						for _, pt := range engine.Conjuncts(gt.Cond, token.LAND) {
							x := ast.Unparen(pt)
							if u, isU := x.(*ast.UnaryExpr); isU {
								x = ast.Unparen(u.X)
							}
							call, isC := x.(*ast.CallExpr)
							cn := ""
							if isC {
								cn = gbCalleeName(info, call)
							}
							if cn != gbG+"IsRealmPath" && cn != gbG+"IsPPackagePath" {
								gok, gwhy = false, "path-kind test combined with `"+engine.ExprString(pt)+"`"
							}
						}
					}
					if gok {
						anyOK, anyWhy = true, gwhy
					}
					ok, why = gok, gwhy
					if bg.key == "test-suffix" {
						seenAny[engine.ExprString(gs.Call.Args[1])] = gok
					}
				}
			}
			if !bg.strict && anyOK {
				// the predicate may be reused by later, unrelated tests (e.g. `gm.Private && !IsRealmPath`);
				// one well-formed realm-or-/p/ gate suffices
				ok, why = true, anyWhy
			}
			if bg.key == "test-suffix" {
				ok = seenAny[`"_test"`] && seenAny[`"_filetest"`]
				if !ok {
					why = "both the _test and the _filetest suffix must be rejected"
				}
			}
			if bg.callee == "strings.HasPrefix" && ok {
				// the prefix must be chainDomain + "/"
				ok = false
				why = "prefix is not chainDomain + \"/\""
				for _, gs := range sites {
					if len(gs.Call.Args) == 2 {
						if bx, isB := ast.Unparen(gs.Call.Args[1]).(*ast.BinaryExpr); isB && bx.Op == token.ADD && engine.ExprString(bx.Y) == `"/"` {
							for _, call := range d.roots(bx.X).calls {
								if strings.HasSuffix(gbCalleeName(info, call), ".getChainDomainParam") {
									ok, why = true, "path has prefix chainDomain/"
								}
							}
						}
					}
				}
			}
			c.Check("addpkg-guard", bg.key+" "+bg.callee[strings.LastIndex(bg.callee, ".")+1:], t.Pos(), ok && n > 0, why)
		}
		// reserved run path: `_, ok := IsGnoRunPath(p); ok` -> return
		{
			ok, why := false, "IsGnoRunPath verdict does not gate the store"
			for _, hg := range hgs {
				var fs []gbFact
				gbSplitFact(hg.Gate.Cond, hg.Gate.OnTrue, &fs)
				for _, ft := range fs {
					id, isId := ast.Unparen(ft.E).(*ast.Ident)
					if !isId || ft.Pos {
						continue
					}
					o := hg.In.Info().ObjectOf(id)
					for _, gs := range hg.In.CallsTo(gbG + "IsGnoRunPath") {
						vs := gbAssignedVars(hg.In, gs)
						if len(vs) == 2 && vs[1] == o && o != nil && len(gs.Call.Args) == 1 && pathArg(hg.In, gs.Call.Args[0], isPath) {
							ok, why = true, "run paths are rejected"
						}
					}
				}
			}
			c.Check("addpkg-guard", "reserved-run-path", t.Pos(), ok, why)
		}
		// existing public package; public over private: a non-nil-error return R whose facts that
		// distinguish it from the store point are exactly the expected ones (form-independent:
		// `a && b`, nested ifs, if/else, renamed locals all read the same).
		classify := func(ft gbFact) string {
			if x, isNilHolds, ok := gbIsNilCmp(ft); ok && engine.ObjOf(info, x) == pvObj {
				if isNilHolds {
					return "pv==nil"
				}
				return "pv!=nil"
			}
			if sel, ok := ast.Unparen(ft.E).(*ast.SelectorExpr); ok && sel.Sel.Name == "Private" {
				who := "new"
				if engine.ObjOf(info, sel.X) == pvObj {
					who = "pv"
				}
				if ft.Pos {
					return who + ".Private"
				}
				return "!" + who + ".Private"
			}
			return "?" + engine.ExprString(ft.E)
		}
		tGates := map[*cfgBlock]bool{} // gate blocks of the store point, keyed with polarity
		tPol := map[*cfgBlock]bool{}
		for _, gt := range g.Gates(t) {
			tGates[gt.Block] = true
			tPol[gt.Block] = gt.OnTrue
		}
		findReturn := func(expected []string) (bool, string) {
			why := "no error return distinguished from storing by exactly {" + strings.Join(expected, ", ") + "}"
			found := false
			engine.InspectBody(f, func(n ast.Node) {
				r, isR := n.(*ast.ReturnStmt)
				if !isR || found || len(r.Results) != 1 || isNil(r.Results[0]) {
					return
				}
				rs := f.SiteOf(r)
				if rs == nil {
					return
				}
				gates := g.Gates(rs)
				all := map[string]bool{}
				for _, ft := range gbFactsOf(gates) {
					all[classify(ft)] = true
				}
				for _, e := range expected {
					if !all[e] {
						return
					}
				}
				// distinguishing gates: gate R but not (with the same polarity) the store point
				var dist []engine.Gate
				dominatesStore := false
				for _, gt := range gates {
					if tGates[gt.Block] && tPol[gt.Block] == gt.OnTrue {
						continue
					}
					dist = append(dist, gt)
					if g.BlockDominates(gt.Block, t.Block) {
						dominatesStore = true
					}
				}
				var dfs []gbFact
				for _, gt := range dist {
					gbSplitFact(gt.Cond, gt.OnTrue, &dfs)
				}
				exp := map[string]bool{}
				for _, e := range expected {
					exp[e] = true
				}
				for _, ft := range dfs {
					if k := classify(ft); !exp[k] {
						why = "the rejecting return additionally depends on `" + strings.TrimPrefix(k, "?") + "`"
						return
					}
				}
				if len(dist) == 0 || !dominatesStore {
					why = "the rejecting test does not lie on every path to the store point"
					return
				}
				found = true
			})
			if found {
				why = "present"
			}
			return found, why
		}
		okEx, whyEx := findReturn([]string{"pv!=nil", "!pv.Private"})
		c.Check("addpkg-guard", "existing-public-package", t.Pos(), okEx, "an error return under exactly `pv != nil && !pv.Private` must precede storing (an existing public package can never be replaced): "+whyEx)
		okPriv, whyPriv := findReturn([]string{"pv!=nil", "pv.Private", "!new.Private"})
		c.Check("addpkg-guard", "no-public-over-private", t.Pos(), okPriv, "an error return under exactly `pv != nil && pv.Private && !gm.Private` must precede storing: "+whyPriv)
	}

	// delete only for an existing private package at the same path
	dels := f.DeepCallsTo(2, gbG+"(Store).DeleteMemPackage", gbG+"(TransactionStore).DeleteMemPackage", gbG+"(*defaultStore).DeleteMemPackage")
	c.Floor("delete-only-private", len(dels), 1)
	for _, dd := range dels {
		ds := dd.Outer
		ok, why := true, "deleted only when the looked-up package exists and is private, same path"
		if dd.Inner == dd.Outer {
			if len(ds.Call.Args) != 1 || !isPath(ds.Call.Args[0]) {
				ok, why = false, "deletes a different path than the one looked up"
			}
		} else {
			passes := false
			for _, a := range ds.Call.Args {
				if isPath(a) {
					passes = true
				}
			}
			if !passes {
				ok, why = false, "the helper that deletes is not given the looked-up path"
			}
		}
		nonNil, private := false, false
		for _, ft := range gbFactsOf(g.Gates(ds)) {
			if x, isNilHolds, isCmp := gbIsNilCmp(ft); isCmp && !isNilHolds && engine.ObjOf(info, x) == pvObj {
				nonNil = true
			}
			if sel, isSel := ast.Unparen(ft.E).(*ast.SelectorExpr); isSel && sel.Sel.Name == "Private" && ft.Pos && engine.ObjOf(info, sel.X) == pvObj {
				private = true
			}
		}
		if !nonNil || !private {
			ok, why = false, "DeleteMemPackage must be reached only when `pv != nil` and `pv.Private` hold (after the public-package rejection)"
		}
		c.Check("delete-only-private", f.Name, ds.Pos(), ok, why)
	}
}

// gbErrGuard: `err` bound from guard call gs is tested `err != nil` with a
// branch that cannot reach target, with no re-assignment of err in between.
func gbErrGuard(f *engine.Fn, gs, target *engine.Site) (bool, string) {
	g := f.Graph()
	info := f.Info()
	r := g.CheckedGuard(gs, target)
	if !r.OK {
		return false, "error result does not gate storing: " + r.Why
	}
	bx, ok := ast.Unparen(r.Cond).(*ast.BinaryExpr)
	if !ok || bx.Op != token.NEQ || !isNil(bx.Y) {
		return false, "error verdict is combined with another condition: `" + engine.ExprString(r.Cond) + "`"
	}
	if r.OnTrue {
		return false, "package is stored on the error branch"
	}
	e := engine.ObjOf(info, bx.X)
	bound := false
	for _, v := range gbAssignedVars(f, gs) {
		if v != nil && v == e {
			bound = true
		}
	}
	if !bound {
		return false, "tested variable is not the guard's error result"
	}
	cs := f.SiteOf(r.Cond)
	// no other assignment to e between the guard and the test
	bad := false
	engine.InspectBody(f, func(n ast.Node) {
		as, ok := n.(*ast.AssignStmt)
		if !ok || ast.Node(as) == gs.Top {
			return
		}
		for _, l := range as.Lhs {
			if engine.ObjOf(info, l) == e {
				if st := f.SiteOf(as); st != nil && cs != nil && g.Dominates(gs, st) && g.ReachableAfter(st, cs) && g.Dominates(st, cs) {
					bad = true
				}
			}
		}
	})
	if bad {
		return false, "the error variable is overwritten before it is tested"
	}
	return true, "error return precedes storing"
}

func gbC12Writers(c *engine.Ctx, p *engine.Prog) {
	thorough := c.Tier == "thorough"
	table := []struct {
		what  string
		pats  []string
		allow []string
		tools []string // additional callers seen only in the thorough load (tooling, not chain code)
	}{
		{"Store.AddMemPackage", []string{gbG + "(Store).AddMemPackage", gbG + "(TransactionStore).AddMemPackage", gbG + "(*defaultStore).AddMemPackage"},
			[]string{gbM + "runMemPackage"},
			[]string{"gnovm/cmd/gno.execLint", "gnovm/cmd/gno.lintTypeCheck", "gnovm/pkg/test.StoreWithOptions", "gnovm/pkg/test.loadStdlib", "gnovm/pkg/test.(*TestOptions).runTestFiles", "gnovm/pkg/test.Test", "gnovm/pkg/test.LoadImports"}},
		{"Store.DeleteMemPackage", []string{gbG + "(Store).DeleteMemPackage", gbG + "(TransactionStore).DeleteMemPackage", gbG + "(*defaultStore).DeleteMemPackage"},
			[]string{gbV + "(*VMKeeper).AddPackage"}, nil},
		{"setMemPackageBlob", []string{gbG + "(*defaultStore).setMemPackageBlob"},
			[]string{gbG + "(*defaultStore).AddMemPackage"}, nil},
		{"pkg: key constructors", []string{gbG + "backendPackagePathKey", gbG + "backendPackageAllButProdKey"},
			[]string{gbG + "(*defaultStore).AddMemPackage", gbG + "(*defaultStore).DeleteMemPackage", gbG + "(*defaultStore).getMemPackage",
				gbG + "(*defaultStore).getMemPackageAllButProd", gbG + "backendPackageAllButProdKey", gbG + "isMemPackage"}, nil},
	}
	for _, row := range table {
		refs := p.RefsToFunc(row.pats...)
		callers := engine.CallerSet(refs)
		allow := row.allow
		if thorough {
			allow = append(append([]string{}, allow...), row.tools...)
		}
		extra := p.UnexpectedCallers(refs, allow)
		c.Check("who-may-call", row.what, token.NoPos, len(callers) > 0 && len(extra) == 0, "callers: "+join(callers)+"; not in the frozen table (nor private helpers of it): "+join(extra))
	}
	// writes under the pkg: keys happen only through iavlStore.Set/Delete in setMemPackageBlob / DeleteMemPackage:
	// every function that both constructs a pkg: key and calls Set/Delete on a store is in the writer table
	writerAllow := map[string]bool{gbG + "(*defaultStore).AddMemPackage": true, gbG + "(*defaultStore).DeleteMemPackage": true, gbG + "(*defaultStore).setMemPackageBlob": true}
	n := 0
	for _, f := range p.FuncsIn("gnovm/pkg/gnolang") {
		if len(f.CallsTo(gbG+"backendPackagePathKey", gbG+"backendPackageAllButProdKey")) == 0 {
			continue
		}
		writes := false
		for _, s := range f.Calls() {
			nm := s.CalleeName()
			if strings.HasSuffix(nm, "tm2/pkg/store/types.(Store).Set") || strings.HasSuffix(nm, "tm2/pkg/store/types.(Store).Delete") || nm == gbG+"(*defaultStore).setMemPackageBlob" {
				// does the key argument derive from a pkg: key constructor?
				if len(s.Call.Args) >= 2 {
					d := gbCollectDefs(f)
					keyArg := s.Call.Args[1]
					if nm == gbG+"(*defaultStore).setMemPackageBlob" {
						keyArg = s.Call.Args[0]
					}
					for _, call := range d.roots(keyArg).calls {
						cn := gbCalleeName(f.Info(), call)
						if cn == gbG+"backendPackagePathKey" || cn == gbG+"backendPackageAllButProdKey" {
							writes = true
						}
					}
				}
			}
		}
		if writes {
			n++
			c.Check("who-may-write", "pkg: blob keys in "+f.Root().Name, f.Pos(), writerAllow[f.Root().Name], "only AddMemPackage/DeleteMemPackage may write or delete package code blobs")
		}
	}
	c.Floor("who-may-write", n, 2)

	// save=true only from AddPackage and boot stdlib loading
	nSave := 0
	saveAllow := map[string]bool{gbV + "(*VMKeeper).AddPackage": true, gbV + "loadStdlibPackage": true}
	for _, f := range p.FuncsIn("gno.land/pkg/sdk/vm") {
		for _, s := range f.CallsTo(gbM+"RunMemPackage", gbM+"RunMemPackageWithOverrides") {
			if len(s.Call.Args) < 2 {
				continue
			}
			nSave++
			tv := f.Info().Types[s.Call.Args[1]]
			isConst := tv.Value != nil
			save := isConst && tv.Value.String() == "true"
			ok := isConst && (!save || saveAllow[f.Root().Name])
			c.Check("save-only-addpkg", f.Root().Name+" RunMemPackage(save="+engine.ExprString(s.Call.Args[1])+")", s.Pos(), ok, "a mempackage may be persisted (save=true) only by AddPackage and boot-time stdlib loading; the flag must be a constant")
		}
	}
	c.Floor("save-only-addpkg", nSave, 3)
	// inside runMemPackage the store write is gated by save
	if f := p.Func(gbM + "runMemPackage"); f != nil {
		g := f.Graph()
		for _, s := range f.CallsTo(gbG+"(Store).AddMemPackage", gbG+"(TransactionStore).AddMemPackage") {
			ok := false
			for _, gt := range g.Gates(s) {
				if id, isId := ast.Unparen(gt.Cond).(*ast.Ident); isId && gt.OnTrue && id.Name == "save" && gbIsParam(f, f.Info().ObjectOf(id)) {
					ok = true
				}
			}
			c.Check("save-only-addpkg", f.Name+" AddMemPackage under save", s.Pos(), ok, "the mempackage is stored only when save is set")
		}
	} else {
		c.Undecided("anchor", gbM+"runMemPackage", "anchored function not found")
	}
}

func gbC12Namespace(c *engine.Ctx, p *engine.Prog) {
	f := c.MustFunc(gbV + "(*VMKeeper).checkNamespacePermission")
	if f == nil {
		return
	}
	g := f.Graph()
	info := f.Info()
	d := gbCollectDefs(f)
	calls := f.CallsTo(gbV + "(*VMKeeper).callRealmBool")
	c.Floor("namespace-verdict registry call", len(calls), 1)
	n := 0
	engine.InspectBody(f, func(x ast.Node) {
		r, ok := x.(*ast.ReturnStmt)
		if !ok || len(r.Results) != 1 || !isNil(r.Results[0]) {
			return
		}
		n++
		st := f.SiteOf(r)
		if st == nil {
			c.Check("namespace-verdict", "success return #"+strconv.Itoa(n), r.Pos(), false, "cannot locate")
			return
		}
		// (a) registry unconfigured / undeployed
		for _, gt := range g.Gates(st) {
			bx, isB := ast.Unparen(gt.Cond).(*ast.BinaryExpr)
			if !isB || !gt.OnTrue || bx.Op != token.EQL {
				continue
			}
			fromParam, fromGet := false, false
			for _, call := range d.roots(bx.X).calls {
				cn := gbCalleeName(info, call)
				if strings.HasSuffix(cn, ".getSysNamesPkgParam") {
					fromParam = true
				}
				if strings.HasSuffix(cn, ".GetPackage") {
					fromGet = true
				}
			}
			if engine.ExprString(bx.Y) == `""` && fromParam {
				c.Check("namespace-verdict", "success return #"+strconv.Itoa(n)+" (registry not configured)", r.Pos(), true, "sysnames package parameter empty")
				return
			}
			if isNil(bx.Y) && fromGet {
				c.Check("namespace-verdict", "success return #"+strconv.Itoa(n)+" (registry not deployed)", r.Pos(), true, "registry realm absent")
				return
			}
		}
		// (b) registry said yes
		ok2, why := false, "success is returned without a registry verdict of true"
		for _, cs := range calls {
			vs := gbAssignedVars(f, cs)
			if len(vs) != 2 || vs[0] == nil || vs[1] == nil {
				continue
			}
			if eok, _ := gbErrGuardVar(f, cs, st, vs[1]); !eok {
				why = "registry call error does not prevent success"
				continue
			}
			for _, gt := range g.Gates(st) {
				if u, isU := ast.Unparen(gt.Cond).(*ast.UnaryExpr); isU && u.Op == token.NOT && !gt.OnTrue && engine.ObjOf(info, u.X) == vs[0] {
					ok2, why = true, "reached only when the registry returned true and no error"
				}
				if id, isId := ast.Unparen(gt.Cond).(*ast.Ident); isId && gt.OnTrue && info.ObjectOf(id) == vs[0] {
					ok2, why = true, "reached only when the registry returned true and no error"
				}
			}
			// the namespace passed to the registry is derived from the path, the address from creator
			if ok2 {
				usesPath := false
				for _, a := range cs.Call.Args {
					if ch := d.roots(a); ch.objs[paramObj(f, 2)] {
						usesPath = true
					}
					ast.Inspect(a, func(nn ast.Node) bool {
						if id, isId := nn.(*ast.Ident); isId {
							if d.roots(id).objs[paramObj(f, 2)] {
								usesPath = true
							}
							for _, r := range d.defs[info.ObjectOf(id)] {
								if engine.Mentions(info, r, paramObj(f, 2)) || gbMentionsDerived(d, info, r, paramObj(f, 2)) {
									usesPath = true
								}
							}
						}
						return true
					})
				}
				if !usesPath {
					ok2, why = false, "the namespace given to the registry is not derived from the package path"
				}
			}
		}
		c.Check("namespace-verdict", "success return #"+strconv.Itoa(n)+" (registry verdict)", r.Pos(), ok2, why)
	})
	c.Floor("namespace-verdict", n, 3)
}

// gbMentionsDerived: e mentions a variable one of whose definitions mentions root (two steps).
func gbMentionsDerived(d *gbDefs, info *types.Info, e ast.Expr, root types.Object) bool {
	found := false
	ast.Inspect(e, func(n ast.Node) bool {
		if id, ok := n.(*ast.Ident); ok {
			for _, r := range d.defs[info.ObjectOf(id)] {
				if engine.Mentions(info, r, root) {
					found = true
				}
			}
		}
		return !found
	})
	return found
}

// gbErrGuardVar is gbErrGuard for a known error variable of a multi-result call.
func gbErrGuardVar(f *engine.Fn, gs, target *engine.Site, e types.Object) (bool, string) {
	g := f.Graph()
	info := f.Info()
	for _, gt := range g.Gates(target) {
		bx, ok := ast.Unparen(gt.Cond).(*ast.BinaryExpr)
		if ok && bx.Op == token.NEQ && isNil(bx.Y) && engine.ObjOf(info, bx.X) == e && !gt.OnTrue {
			if cs := f.SiteOf(gt.Cond); cs != nil && g.Dominates(gs, cs) {
				return true, ""
			}
		}
	}
	return false, "no `err != nil` return between the call and the target"
}
