package checks

import (
	"fmt"
	"go/ast"
	"go/token"
	"go/types"
	"strings"

	"gnoverif/engine"
)

// C52 — gnoweb: every byte the gnoweb markdown extensions write to the HTML
// output is a constant, a number, or went through an HTML escaper; URLs are
// scheme-filtered; raw-HTML mode is reachable only through cfg.UnsafeHTML.
func init() {
	register("C52", c52)
	meta("C52", Meta{
		Text:      "Decides, for every write to the HTML output writer (goldmark util.BufWriter) in gno.land/pkg/gnoweb/markdown and for the plain-text fallback in gno.land/pkg/gnoweb, that each written value is a compile-time constant, a formatted number, the result of an HTML escaper (HTMLEscapeString, html.EscapeString, template.HTMLEscapeString, goldmark util.EscapeHTML), or is built only from such values (local variables by all their assignments, struct fields by all their writes in the package, node attributes by all SetAttributeString sites, helper results by all their return statements); that the link destination is written only when !IsDangerousURL(destination) holds and through URLEscape+EscapeHTML; that the output writer is handed only to a frozen set of external renderers; that every reference to goldmark's WithUnsafe sits on the true side of a test of the AppConfig.UnsafeHTML field, a field no code in the package sets and the default config leaves false; that the default goldmark options install the image validator and the inner <gno-foreign> instance is built without renderer options. Level 'other': a taint rule over the extension code, not a proof about goldmark's core renderer.",
		Note:      "Not covered: goldmark core (paragraphs, images, raw HTML stripping in safe mode, IsDangerousURL's scheme list), chroma's formatter, html/template components, the gnoweb frontend JS, the cmd/gnoweb flag default. Sanitiser functions are trusted by name.",
		Technique: "R-TAINT (AST value-origin with per-package field/attribute/return summaries), R-DOM gate on the URL write, R-WHO on WithUnsafe and on the writer",
		Ref:       "DESIGN.md §2 C52",
	})
	mutants("C52",
		Mutant{"form-description-unescaped", "gno.land/pkg/gnoweb/markdown/ext_forms.go", "\t\tfmt.Fprintf(w, `<div id=\"%s\" class=\"gno-form_description\">%s%s</div>`+\"\\n\",\n\t\t\tHTMLEscapeString(descID), HTMLEscapeString(e.Description), requiredBadge)", "\t\tfmt.Fprintf(w, `<div id=\"%s\" class=\"gno-form_description\">%s%s</div>`+\"\\n\",\n\t\t\tHTMLEscapeString(descID), e.Description, requiredBadge)", "html-sink gno.land/pkg/gnoweb/markdown.(*FormRenderer).renderInput ← e.Description"},
		Mutant{"foreign-label-unescaped", "gno.land/pkg/gnoweb/markdown/ext_foreign.go", "escLabel := htmlpkg.EscapeString(label)", "escLabel := htmlpkg.UnescapeString(label)", "html-sink gno.land/pkg/gnoweb/markdown.(*foreignRendererHTML)"},
		Mutant{"alert-kind-from-document", "gno.land/pkg/gnoweb/markdown/ext_alert.go", "\tdefault:\n\t\treturn AlertTypeInfo, \"info\"", "\tdefault:\n\t\treturn AlertTypeInfo, kind", "html-sink gno.land/pkg/gnoweb/markdown.(*AlertHTMLRenderer).renderAlert"},
		Mutant{"dangerous-url-gate-dropped", "gno.land/pkg/gnoweb/markdown/ext_links.go", "if !html.IsDangerousURL(n.Destination) {", "if !html.IsDangerousURL(n.Destination) || n.LinkType == GnoLinkTypeInternal {", "url-gate"},
		Mutant{"link-attr-name-from-title", "gno.land/pkg/gnoweb/markdown/ext_links.go", "attrs = append(attrs, attr{\"title\", string(n.Title)})", "attrs = append(attrs, attr{string(n.Title), \"title\"})", "html-sink gno.land/pkg/gnoweb/markdown.renderStringAttributes ← attr.name"},
		Mutant{"unsafe-html-by-default", "gno.land/pkg/gnoweb/app.go", "\t\tRenderConfig:            NewDefaultRenderConfig(),\n", "\t\tRenderConfig:            NewDefaultRenderConfig(),\n\t\tUnsafeHTML:              true,\n", "unsafe-default"},
		Mutant{"unsafe-ungated", "gno.land/pkg/gnoweb/app.go", "\tif cfg.UnsafeHTML {\n\t\trcfg.GoldmarkOptions", "\tif cfg.UnsafeHTML || cfg.Analytics {\n\t\trcfg.GoldmarkOptions", "unsafe-gate"},
		Mutant{"plaintext-fallback-unescaped", "gno.land/pkg/gnoweb/render.go", "`<pre class=\"gno-render-plaintext\">`+html.EscapeString(string(src))+`</pre>`", "`<pre class=\"gno-render-plaintext\">`+html.UnescapeString(string(src))+`</pre>`", "html-sink gno.land/pkg/gnoweb.writeMarkdownPlainText"},
	)
}

const (
	c52MD  = "gno.land/pkg/gnoweb/markdown"
	c52Web = "gno.land/pkg/gnoweb"
	c52GM  = "github.com/yuin/goldmark"
)

var c52Sanitisers = map[string]bool{
	c52MD + ".HTMLEscapeString":          true,
	"html/template.HTMLEscapeString":     true,
	"html.EscapeString":                  true,
	"golang.org/x/net/html.EscapeString": true,
	c52GM + "/util.EscapeHTML":           true,
}

// functions whose result contains no HTML-special byte that was not in an argument
var c52Passthrough = map[string]bool{
	"strings.ToLower": true, "strings.ToUpper": true, "strings.TrimSpace": true,
	"fmt.Sprintf": true, "fmt.Sprint": true,
	c52MD + ".titleCase":                  true,
	c52GM + "/util.StringToReadOnlyBytes": true,
	c52GM + "/util.BytesToReadOnlyString": true,
}

// external functions that may receive the output writer (each renders with its own escaping)
var c52WriterSinksOK = map[string]string{
	"fmt.Fprintf": "sink, arguments checked", "fmt.Fprint": "sink, arguments checked", "fmt.Fprintln": "sink, arguments checked",
	"io.WriteString":                                                      "sink, arguments checked",
	c52GM + ".(Markdown).Convert":                                         "inner goldmark instance (core renderer, safe mode)",
	"github.com/alecthomas/chroma/v2.(Formatter).Format":                  "chroma HTML formatter escapes token text",
	"github.com/alecthomas/chroma/v2/formatters/html.(*Formatter).Format": "chroma HTML formatter escapes token text",
	"gno.land/pkg/gnoweb/components.(*TemplateComponent).Render":          "html/template component (contextual auto-escaping)",
	"gno.land/pkg/gnoweb/components.(Component).Render":                   "html/template component (contextual auto-escaping)",
}

type c52Taint struct {
	p        *engine.Prog
	pkgs     map[*types.Package]bool
	memoVar  map[types.Object]int // 1 in progress, 2 safe, 3 unsafe
	memoWhy  map[types.Object]string
	memoRet  map[string]int
	memoAttr map[string]int
}

func (t *c52Taint) fnOf(pos token.Pos, pkg *types.Package) *engine.Fn {
	return t.p.EnclosingFn(pkg.Path(), pos)
}

// safe decides whether expression e (evaluated in f) can contain an unescaped HTML-special byte.
func (t *c52Taint) safe(f *engine.Fn, e ast.Expr) (bool, string) {
	info := f.Info()
	e = ast.Unparen(e)
	if tv, ok := info.Types[e]; ok && tv.Value != nil {
		return true, ""
	}
	if tt := info.TypeOf(e); tt != nil {
		if b, ok := tt.Underlying().(*types.Basic); ok && b.Info()&(types.IsInteger|types.IsBoolean|types.IsFloat) != 0 {
			return true, ""
		}
	}
	switch x := e.(type) {
	case *ast.BinaryExpr:
		if x.Op == token.ADD {
			if ok, why := t.safe(f, x.X); !ok {
				return false, why
			}
			return t.safe(f, x.Y)
		}
	case *ast.CallExpr:
		if tv, ok := info.Types[x.Fun]; ok && tv.IsType() && len(x.Args) == 1 {
			return t.safe(f, x.Args[0]) // conversion
		}
		name := ceCallName(info, x)
		if c52Sanitisers[name] {
			return true, ""
		}
		if c52Passthrough[name] {
			for _, a := range x.Args {
				if ok, why := t.safe(f, a); !ok {
					return false, why
				}
			}
			return true, ""
		}
		if fo := c52CalleeFunc(info, x); fo != nil && t.pkgs[fo.Pkg()] {
			return t.retSafe(fo, 0)
		}
		return false, "result of " + ceNameOr(name, engine.ExprString(x.Fun)) + " is not known to be escaped"
	case *ast.TypeAssertExpr:
		return t.safe(f, x.X)
	case *ast.StarExpr:
		return false, "dereference of " + engine.ExprString(x.X)
	case *ast.SelectorExpr:
		if sel := info.Selections[x]; sel != nil && sel.Kind() == types.FieldVal {
			if v, ok := sel.Obj().(*types.Var); ok && t.pkgs[v.Pkg()] {
				return t.fieldSafe(v)
			}
		}
		return false, "field " + engine.ExprString(x) + " of an external type"
	case *ast.Ident:
		o := info.ObjectOf(x)
		if v, ok := o.(*types.Var); ok {
			return t.varSafe(f, v)
		}
	case *ast.IndexExpr:
		return t.safe(f, x.X)
	}
	return false, "expression " + engine.ExprString(e) + " not recognised as escaped"
}

func ceNameOr(a, b string) string {
	if a != "" {
		return a
	}
	return b
}

func c52CalleeFunc(info *types.Info, call *ast.CallExpr) *types.Func {
	switch f := ast.Unparen(call.Fun).(type) {
	case *ast.Ident:
		fo, _ := info.Uses[f].(*types.Func)
		return fo
	case *ast.SelectorExpr:
		fo, _ := info.Uses[f.Sel].(*types.Func)
		return fo
	}
	return nil
}

// varSafe: a local variable is safe when every value assigned to it is safe.
func (t *c52Taint) varSafe(f *engine.Fn, v *types.Var) (bool, string) {
	switch t.memoVar[v] {
	case 1, 2:
		return true, ""
	case 3:
		return false, t.memoWhy[v]
	}
	t.memoVar[v] = 1
	ok, why := t.varSafe1(f, v)
	if ok {
		t.memoVar[v] = 2
	} else {
		t.memoVar[v] = 3
		t.memoWhy[v] = why
	}
	return ok, why
}

func (t *c52Taint) varSafe1(f *engine.Fn, v *types.Var) (bool, string) {
	if v.IsField() {
		return t.fieldSafe(v)
	}
	root := f.Root()
	info := root.Info()
	if v.Pkg() != nil && v.Parent() == v.Pkg().Scope() {
		return false, "package-level variable " + v.Name()
	}
	// parameter?
	isParam := false
	walkParams := func(ft *ast.FuncType, recv *ast.FieldList) {
		for _, fl := range []*ast.FieldList{ft.Params, ft.Results, recv} {
			if fl == nil {
				continue
			}
			for _, fld := range fl.List {
				for _, nm := range fld.Names {
					if info.ObjectOf(nm) == v {
						isParam = true
					}
				}
			}
		}
	}
	if root.Decl != nil {
		walkParams(root.Type, root.Decl.Recv)
	} else {
		walkParams(root.Type, nil)
	}
	for _, l := range root.AllLits() {
		walkParams(l.Type, nil)
	}
	if isParam {
		return t.paramSafe(root, v)
	}
	ok, why := true, ""
	found := 0
	fail := func(s string) {
		if ok {
			ok, why = false, s
		}
	}
	ast.Inspect(root.Body, func(n ast.Node) bool {
		switch x := n.(type) {
		case *ast.AssignStmt:
			for i, l := range x.Lhs {
				if engine.ObjOf(info, l) != v {
					continue
				}
				if _, isId := ast.Unparen(l).(*ast.Ident); !isId {
					continue
				}
				found++
				fn := t.p.EnclosingFn(root.Pkg.PkgPath, x.Pos())
				if fn == nil {
					fn = root
				}
				if len(x.Rhs) == len(x.Lhs) {
					if s, w := t.safe(fn, x.Rhs[i]); !s {
						fail(v.Name() + " ← " + w)
					}
					continue
				}
				// tuple from a single call / comma-ok
				switch r := ast.Unparen(x.Rhs[0]).(type) {
				case *ast.CallExpr:
					name := ceCallName(info, r)
					if strings.HasSuffix(name, ").AttributeString") || strings.HasSuffix(name, ").Attribute") {
						if i == 0 && len(r.Args) == 1 {
							if s, w := t.attrSafe(fn, r.Args[0]); !s {
								fail(v.Name() + " ← " + w)
							}
							continue
						}
					}
					if fo := c52CalleeFunc(info, r); fo != nil && t.pkgs[fo.Pkg()] {
						if s, w := t.retSafe(fo, i); !s {
							fail(v.Name() + " ← " + w)
						}
						continue
					}
					fail(v.Name() + " ← result of " + ceNameOr(name, engine.ExprString(r.Fun)))
				case *ast.TypeAssertExpr:
					if i == 0 {
						if s, w := t.safe(fn, r.X); !s {
							fail(v.Name() + " ← " + w)
						}
					}
				default:
					if i == 0 {
						fail(v.Name() + " ← " + engine.ExprString(x.Rhs[0]))
					}
				}
			}
		case *ast.ValueSpec:
			for i, nm := range x.Names {
				if info.ObjectOf(nm) != v {
					continue
				}
				found++
				if len(x.Values) == len(x.Names) {
					fn := t.p.EnclosingFn(root.Pkg.PkgPath, x.Pos())
					if fn == nil {
						fn = root
					}
					if s, w := t.safe(fn, x.Values[i]); !s {
						fail(v.Name() + " ← " + w)
					}
				} else if len(x.Values) != 0 {
					fail(v.Name() + " ← tuple initialiser")
				}
			}
		case *ast.RangeStmt:
			if x.Value != nil && engine.ObjOf(info, x.Value) == v {
				found++
				// element of the ranged collection: safe when the collection is
				if s, w := t.safe(root, x.X); !s {
					fail(v.Name() + " ← element of " + w)
				}
			}
			if x.Key != nil && engine.ObjOf(info, x.Key) == v {
				found++
				if _, isMap := info.TypeOf(x.X).Underlying().(*types.Map); isMap {
					fail(v.Name() + " ← map key of " + engine.ExprString(x.X))
				}
			}
		case *ast.UnaryExpr:
			if x.Op == token.AND && engine.ObjOf(info, x.X) == v {
				if _, isId := ast.Unparen(x.X).(*ast.Ident); isId {
					fail("address of " + v.Name() + " escapes")
				}
			}
		case *ast.TypeSwitchStmt:
			// bound variable of a type switch
			if as, isAs := x.Assign.(*ast.AssignStmt); isAs {
				for _, cc := range x.Body.List {
					if info.Implicits[cc] == v {
						found++
						if s, w := t.safe(root, as.Rhs[0].(*ast.TypeAssertExpr).X); !s {
							fail(v.Name() + " ← " + w)
						}
					}
				}
			}
		}
		return true
	})
	if found == 0 && ok {
		return false, "no assignment to " + v.Name() + " found"
	}
	return ok, why
}

// paramSafe: a parameter of an unexported declared function is safe when the
// corresponding argument is safe at every call site in the analysed packages and
// the function is never used as a value (extract-helper refactors pass escaped or
// constant data down).
func (t *c52Taint) paramSafe(root *engine.Fn, v *types.Var) (bool, string) {
	if root.Decl == nil || root.Obj == nil || root.Obj.Exported() {
		return false, "parameter " + v.Name() + " of an exported function or literal (callers unknown)"
	}
	idx, k := -1, 0
	for _, fld := range root.Type.Params.List {
		if _, variadic := fld.Type.(*ast.Ellipsis); variadic {
			for range fld.Names {
				k++
			}
			continue
		}
		for _, nm := range fld.Names {
			if root.Info().ObjectOf(nm) == v {
				idx = k
			}
			k++
		}
	}
	if idx < 0 {
		return false, "parameter " + v.Name() + " (receiver, result or variadic)"
	}
	refs := t.p.RefsTo(func(o types.Object) bool { return o == types.Object(root.Obj) })
	if len(refs) == 0 {
		return false, "parameter " + v.Name() + ": no caller found"
	}
	for _, r := range refs {
		if !r.IsCall || r.Fn == nil {
			return false, "parameter " + v.Name() + ": " + root.Name + " is used as a value"
		}
		var call *ast.CallExpr
		ast.Inspect(r.Fn.Body, func(n ast.Node) bool {
			if ce, ok := n.(*ast.CallExpr); ok && ce.Pos() <= r.Ident.Pos() && r.Ident.End() <= ce.Fun.End() {
				call = ce
			}
			return true
		})
		if call == nil || idx >= len(call.Args) {
			return false, "parameter " + v.Name() + ": call site not resolved"
		}
		if ok, why := t.safe(r.Fn, call.Args[idx]); !ok {
			return false, v.Name() + " ← (argument in " + r.Fn.Root().Name + ") " + why
		}
	}
	return true, ""
}

// fieldSafe: a field of a package-local struct is safe when every value stored in it is.
func (t *c52Taint) fieldSafe(fld *types.Var) (bool, string) {
	fld = fld.Origin()
	switch t.memoVar[fld] {
	case 1, 2:
		return true, ""
	case 3:
		return false, t.memoWhy[fld]
	}
	t.memoVar[fld] = 1
	ok, why := true, ""
	fail := func(s string) {
		if ok {
			ok, why = false, s
		}
	}
	writes := 0
	for _, w := range t.p.FieldWrites(fld) {
		switch w.Kind {
		case "lit":
			writes++
			kv := w.Node.(*ast.KeyValueExpr)
			if s, y := t.safe(w.Fn, kv.Value); !s {
				fail("field " + fld.Name() + " ← " + y)
			}
		case "assign":
			as, isAs := w.Node.(*ast.AssignStmt)
			if !isAs || !w.Direct || len(as.Lhs) != len(as.Rhs) {
				fail("field " + fld.Name() + " written in an unrecognised form")
				continue
			}
			for i, l := range as.Lhs {
				if se, isSel := ast.Unparen(l).(*ast.SelectorExpr); isSel {
					if v, _ := w.Fn.Info().Uses[se.Sel].(*types.Var); v != nil && v.Origin() == fld {
						writes++
						if s, y := t.safe(w.Fn, as.Rhs[i]); !s {
							fail("field " + fld.Name() + " ← " + y)
						}
					}
				}
			}
		default:
			fail("field " + fld.Name() + ": " + w.Kind + " of the field")
		}
	}
	// positional composite literals
	for _, f := range t.p.Funcs() {
		info := f.Info()
		engine.InspectBody(f, func(n ast.Node) {
			cl, isCl := n.(*ast.CompositeLit)
			if !isCl || len(cl.Elts) == 0 {
				return
			}
			if _, kv := cl.Elts[0].(*ast.KeyValueExpr); kv {
				return
			}
			st, isSt := info.TypeOf(cl).Underlying().(*types.Struct)
			if !isSt {
				return
			}
			for i := 0; i < st.NumFields() && i < len(cl.Elts); i++ {
				if st.Field(i).Origin() == fld {
					writes++
					if s, y := t.safe(f, cl.Elts[i]); !s {
						fail("field " + fld.Name() + " ← " + y)
					}
				}
			}
		})
	}
	if writes == 0 && ok {
		ok, why = false, "field "+fld.Name()+" is never written in the analysed packages (value origin unknown)"
	}
	if ok {
		t.memoVar[fld] = 2
	} else {
		t.memoVar[fld] = 3
		t.memoWhy[fld] = why
	}
	return ok, why
}

// retSafe: result #i of a package function is safe when every return statement returns a safe value there.
func (t *c52Taint) retSafe(fo *types.Func, i int) (bool, string) {
	key := fmt.Sprintf("%s#%d", engine.FuncName(fo), i)
	switch t.memoRet[key] {
	case 1, 2:
		return true, ""
	case 3:
		return false, "result of " + engine.FuncName(fo) + " is not always escaped"
	}
	fn := t.p.FnOf(fo)
	if fn == nil {
		return false, "result of " + engine.FuncName(fo) + " (body not analysed)"
	}
	t.memoRet[key] = 1
	ok, why := true, ""
	n := 0
	engine.InspectBody(fn, func(nd ast.Node) {
		r, isRet := nd.(*ast.ReturnStmt)
		if !isRet {
			return
		}
		n++
		if i >= len(r.Results) {
			ok, why = false, "bare/tuple return in "+engine.FuncName(fo)
			return
		}
		if s, y := t.safe(fn, r.Results[i]); !s && ok {
			ok, why = false, "return of "+engine.FuncName(fo)+": "+y
		}
	})
	if n == 0 {
		ok, why = false, "no return in "+engine.FuncName(fo)
	}
	if ok {
		t.memoRet[key] = 2
	} else {
		t.memoRet[key] = 3
	}
	return ok, why
}

// attrSafe: node attribute `name` is safe when every SetAttributeString(name, v) in the packages stores a safe v.
func (t *c52Taint) attrSafe(f *engine.Fn, nameExpr ast.Expr) (bool, string) {
	name, ok := t.attrName(f, nameExpr)
	if !ok {
		return false, "attribute with non-constant name"
	}
	switch t.memoAttr[name] {
	case 1, 2:
		return true, ""
	case 3:
		return false, "node attribute " + name + " may hold unescaped document text"
	}
	t.memoAttr[name] = 1
	good, why := true, ""
	n := 0
	for _, g := range t.p.Funcs() {
		for _, s := range g.Calls() {
			cn := s.CalleeName()
			if !(strings.HasSuffix(cn, ").SetAttributeString") || strings.HasSuffix(cn, ").SetAttribute")) || len(s.Call.Args) != 2 {
				continue
			}
			an, isC := t.attrName(g, s.Call.Args[0])
			if !isC {
				good, why = false, "SetAttribute with a non-constant name in "+g.Name
				continue
			}
			if an != name {
				continue
			}
			n++
			if s2, y := t.safe(g, s.Call.Args[1]); !s2 && good {
				good, why = false, "node attribute "+name+" set in "+g.Name+": "+y
			}
		}
	}
	if n == 0 {
		good, why = false, "node attribute "+name+" is never set in the analysed packages (may come from the document)"
	}
	if good {
		t.memoAttr[name] = 2
	} else {
		t.memoAttr[name] = 3
	}
	return good, why
}

// attrName resolves an attribute-name expression: a string constant, []byte("const"),
// or a package-level variable initialised that way and never reassigned.
func (t *c52Taint) attrName(f *engine.Fn, e ast.Expr) (string, bool) {
	info := f.Info()
	e = ast.Unparen(e)
	if tv, ok := info.Types[e]; ok && tv.Value != nil {
		return tv.Value.ExactString(), true
	}
	if call, ok := e.(*ast.CallExpr); ok && len(call.Args) == 1 {
		if tv, ok := info.Types[call.Fun]; ok && tv.IsType() {
			return t.attrName(f, call.Args[0])
		}
	}
	id, ok := e.(*ast.Ident)
	if !ok {
		return "", false
	}
	v, ok := info.ObjectOf(id).(*types.Var)
	if !ok || v.Pkg() == nil || v.Parent() != v.Pkg().Scope() {
		return "", false
	}
	// never reassigned, address never taken
	for _, g := range t.p.Funcs() {
		bad := false
		engine.InspectBody(g, func(n ast.Node) {
			switch x := n.(type) {
			case *ast.AssignStmt:
				for _, l := range x.Lhs {
					if b := ast.Unparen(l); engine.ObjOf(g.Info(), b) == v {
						bad = true
					}
					if ix, ok := ast.Unparen(l).(*ast.IndexExpr); ok && engine.ObjOf(g.Info(), ix.X) == v {
						bad = true
					}
				}
			case *ast.UnaryExpr:
				if x.Op == token.AND && engine.ObjOf(g.Info(), x.X) == v {
					bad = true
				}
			}
		})
		if bad {
			return "", false
		}
	}
	for _, pk := range t.p.Pkgs {
		if pk.Types != v.Pkg() {
			continue
		}
		for _, file := range pk.Syntax {
			for _, d := range file.Decls {
				gd, ok := d.(*ast.GenDecl)
				if !ok || gd.Tok != token.VAR {
					continue
				}
				for _, sp := range gd.Specs {
					vs := sp.(*ast.ValueSpec)
					for i, nm := range vs.Names {
						if pk.TypesInfo.Defs[nm] == v && len(vs.Values) == len(vs.Names) {
							// evaluate initialiser with the package's info
							tmp := &engine.Fn{Prog: t.p, Pkg: pk}
							return t.attrName(tmp, vs.Values[i])
						}
					}
				}
			}
		}
	}
	return "", false
}

func c52IsBufWriter(t types.Type) bool {
	n, ok := types.Unalias(t).(*types.Named)
	return ok && n.Obj().Pkg() != nil && n.Obj().Pkg().Path() == c52GM+"/util" && n.Obj().Name() == "BufWriter"
}

func c52(c *engine.Ctx) {
	c.Explain = "R-TAINT over gno.land/pkg/gnoweb/markdown (+ the plain-text fallback in gno.land/pkg/gnoweb): every value written to the HTML output writer is a constant, a formatted number, an HTML-escaper result, or built only from such values (locals by all assignments, package struct fields by all writes, node attributes by all SetAttributeString sites, helper results by all returns); the link destination is written only under !IsDangerousURL(destination) and through URLEscape+EscapeHTML; the writer is passed only to a frozen set of external renderers; every reference to goldmark's WithUnsafe is on the true side of a test of AppConfig.UnsafeHTML, a field nothing in the package sets; default goldmark options install the image validator; the <gno-foreign> inner instance has no renderer options. Not covered: goldmark core, chroma, html/template components, frontend JS, the CLI flag default."
	p := c.Load(c52Web, c52MD)
	if p == nil {
		return
	}
	t := &c52Taint{p: p, pkgs: map[*types.Package]bool{}, memoVar: map[types.Object]int{}, memoWhy: map[types.Object]string{}, memoRet: map[string]int{}, memoAttr: map[string]int{}}
	for _, pk := range p.Pkgs {
		t.pkgs[pk.Types] = true
	}

	nData, nConst, nEscape := 0, 0, 0
	for _, f := range p.Funcs() {
		inMD := f.Pkg.PkgPath == engine.ModPrefix+c52MD
		isFallback := f.Name == c52Web+".writeMarkdownPlainText"
		if !inMD && !isFallback {
			continue
		}
		info := f.Info()
		consts := 0
		for _, s := range f.Calls() {
			call := s.Call
			name := s.CalleeName()
			var data []ast.Expr
			format := ""
			isSink := false
			switch {
			case name == "fmt.Fprintf" || name == "fmt.Fprint" || name == "fmt.Fprintln" || name == "io.WriteString":
				if len(call.Args) == 0 {
					continue
				}
				wt := info.TypeOf(call.Args[0])
				if !(c52IsBufWriter(wt) || (isFallback && wt != nil && types.TypeString(wt, nil) == "io.Writer")) {
					continue
				}
				isSink = true
				data = call.Args[1:]
				if name == "fmt.Fprintf" && len(data) > 0 {
					tv, ok := info.Types[data[0]]
					if !ok || tv.Value == nil {
						c.Check("html-sink", f.Name+" ← <format>", s.Pos(), false, "Fprintf format is not a constant")
						continue
					}
					format = tv.Value.ExactString()
					data = data[1:]
				}
			default:
				se, ok := ast.Unparen(call.Fun).(*ast.SelectorExpr)
				if !ok || !c52IsBufWriter(info.TypeOf(se.X)) {
					break
				}
				switch se.Sel.Name {
				case "Write", "WriteString":
					isSink, data = true, call.Args
				case "WriteByte", "WriteRune":
					isSink = true
					if tv, ok := info.Types[call.Args[0]]; !ok || tv.Value == nil {
						c.Check("html-sink", f.Name+" ← "+engine.ExprString(call.Args[0]), s.Pos(), false, "single byte/rune written to the HTML output is not a constant")
						nData++
					} else {
						consts++
					}
					continue
				}
			}
			if !isSink {
				// the writer handed to someone else?
				for _, a := range call.Args {
					if c52IsBufWriter(info.TypeOf(a)) {
						if fo := c52CalleeFunc(info, call); fo != nil && t.pkgs[fo.Pkg()] {
							continue // package-local renderer helper: analysed itself
						}
						nEscape++
						reason, ok := c52WriterSinksOK[name]
						c.Check("writer-escape", f.Name+" → "+ceNameOr(name, engine.ExprString(call.Fun)), s.Pos(), ok, "HTML output writer handed to a function outside the frozen renderer table "+reason)
					}
				}
				continue
			}
			for _, d := range data {
				if tv, ok := info.Types[d]; ok && tv.Value != nil {
					consts++
					continue
				}
				nData++
				ok, why := t.safe(f, d)
				if ok && strings.Contains(format, "%c") {
					ok, why = false, "%c in format turns a number into a raw character"
				}
				c.Check("html-sink", f.Name+" ← "+engine.ExprString(d), s.Pos(), ok, why)
			}
			if len(data) == 0 {
				consts++
			}
		}
		if consts > 0 {
			nConst += consts
			c.Check("html-sink", f.Name+" (constant writes)", f.Pos(), true, fmt.Sprintf("%d writes of compile-time constants", consts))
		}
	}
	c.Floor("html-sink(data)", nData, 75)
	c.Floor("html-sink(const)", nConst, 50)
	c.Floor("writer-escape", nEscape, 3)

	// ---- URL gate ----
	// Every write of a link/image destination to the HTML writer, wherever in the
	// package it lives (the href emission may sit in a helper), is reached only when
	// IsDangerousURL(destination) is false, and goes through URLEscape + EscapeHTML.
	{
		n := 0
		for _, f := range p.FuncsIn(c52MD) {
			info := f.Info()
			g := f.Graph()
			for _, s := range f.Calls() {
				se, ok := ast.Unparen(s.Call.Fun).(*ast.SelectorExpr)
				if !ok || !c52IsBufWriter(info.TypeOf(se.X)) || len(s.Call.Args) != 1 {
					continue
				}
				var dest ast.Expr
				ast.Inspect(s.Call.Args[0], func(nd ast.Node) bool {
					if x, ok := nd.(*ast.SelectorExpr); ok && x.Sel.Name == "Destination" {
						if sel := info.Selections[x]; sel != nil && sel.Kind() == types.FieldVal {
							dest = x
						}
					}
					return true
				})
				if dest == nil {
					continue
				}
				n++
				ok2, why := false, "no `!IsDangerousURL("+engine.ExprString(dest)+")` test gates the href write"
				for _, gt := range g.Gates(s) {
					full := ast.Unparen(gt.Full())
					// facts holding at the site: conjuncts on the true side, disjuncts on the false side
					var atoms []ast.Expr
					if gt.OnTrue {
						atoms = engine.Conjuncts(full, token.LAND)
					} else {
						atoms = engine.Conjuncts(full, token.LOR)
					}
					for _, a := range atoms {
						cond := ast.Unparen(a)
						neg := false
						if u, isU := cond.(*ast.UnaryExpr); isU && u.Op == token.NOT {
							cond, neg = ast.Unparen(u.X), true
						}
						call, isCall := cond.(*ast.CallExpr)
						if !isCall || ceCallName(info, call) != c52GM+"/renderer/html.IsDangerousURL" || len(call.Args) != 1 {
							continue
						}
						// the fact at the site is "IsDangerousURL(dest) == false" iff neg == gt.OnTrue
						if engine.ExprString(call.Args[0]) == engine.ExprString(dest) && neg == gt.OnTrue {
							ok2, why = true, "href written only when IsDangerousURL(destination) is false"
						}
					}
					if !ok2 && engine.MentionsName(gt.Cond, "IsDangerousURL") {
						why = "IsDangerousURL test does not establish a safe scheme at the write: `" + engine.ExprString(gt.Cond) + "`"
					}
				}
				chain := engine.ExprString(s.Call.Args[0])
				if ok2 && !(strings.Contains(chain, "EscapeHTML(") && strings.Contains(chain, "URLEscape(")) {
					ok2, why = false, "destination is not written through util.EscapeHTML(util.URLEscape(..))"
				}
				c.Check("url-gate", f.Name+" href ← "+engine.ExprString(dest), s.Pos(), ok2, why)
			}
		}
		c.Floor("url-gate", n, 1)
	}

	// ---- WithUnsafe only under cfg.UnsafeHTML ----
	refs := p.RefsToFunc(c52GM + "/renderer/html.WithUnsafe")
	c.Floor("unsafe-gate", len(refs), 1)
	for _, r := range refs {
		if r.Fn == nil {
			c.Check("unsafe-gate", "<package-level>", r.Ident.Pos(), false, "WithUnsafe referenced at package level")
			continue
		}
		// Wherever the option is built (NewRouter or a private config helper), the
		// reference itself must sit on the true side of the AppConfig.UnsafeHTML field.
		key := "WithUnsafe in " + r.Fn.Root().Name
		site := r.Fn.SiteOf(r.Ident)
		ok, why := false, "WithUnsafe is not gated by the AppConfig.UnsafeHTML field"
		isFlag := func(e ast.Expr) bool {
			e = ast.Unparen(e)
			// a single-definition local holding the flag
			if id, isId := e.(*ast.Ident); isId {
				if def := ceSingleDef(r.Fn, r.Fn.Info().ObjectOf(id)); def != nil {
					e = ast.Unparen(def)
				}
			}
			se, isSel := e.(*ast.SelectorExpr)
			if !isSel {
				return false
			}
			v, _ := r.Fn.Info().Uses[se.Sel].(*types.Var)
			return v != nil && v == p.Field(c52Web+".AppConfig.UnsafeHTML")
		}
		if site != nil {
			for _, gt := range r.Fn.Graph().Gates(site) {
				var atoms []ast.Expr
				if gt.OnTrue {
					atoms = engine.Conjuncts(gt.Full(), token.LAND)
				} else {
					atoms = engine.Conjuncts(gt.Full(), token.LOR)
				}
				for _, a := range atoms {
					a = ast.Unparen(a)
					neg := false
					if u, isU := a.(*ast.UnaryExpr); isU && u.Op == token.NOT {
						a, neg = u.X, true
					}
					if isFlag(a) && neg != gt.OnTrue {
						ok, why = true, "reached only when cfg.UnsafeHTML is true"
					}
				}
				if !ok && engine.MentionsName(gt.Cond, "UnsafeHTML") {
					why = "the UnsafeHTML test does not by itself imply UnsafeHTML at the reference: `" + engine.ExprString(gt.Cond) + "`"
				}
			}
		}
		c.Check("unsafe-gate", key, r.Ident.Pos(), ok, why)
	}
	if fld := p.Field(c52Web + ".AppConfig.UnsafeHTML"); fld == nil {
		c.Undecided("anchor", c52Web+".AppConfig.UnsafeHTML", "field not found")
	} else {
		ws := engine.WriterSet(p.FieldWrites(fld), nil)
		c.Check("unsafe-default", c52Web+".AppConfig.UnsafeHTML", fld.Pos(), len(ws) == 0, "the safe default requires that no code in gnoweb sets UnsafeHTML (zero value false); written by: "+join(ws))
	}
	// any other goldmark renderer option in the default options / inner instance
	for _, fn := range []string{c52Web + ".NewDefaultGoldmarkOptions", c52MD + ".buildInnerForeignMarkdown"} {
		if f := c.MustFunc(fn); f != nil {
			bad := f.CallsToDeep(c52GM+".WithRendererOptions", c52GM+"/renderer/html.WithUnsafe")
			c.Check("unsafe-default", fn+" renderer options", f.Pos(), len(bad) == 0, "the default/inner goldmark instance must not carry renderer options (WithUnsafe would pass raw HTML through)")
		}
	}
	if f := c.MustFunc(c52Web + ".NewDefaultGoldmarkOptions"); f != nil {
		iv := f.CallsToDeep(c52MD + ".WithImageValidator")
		ok := false
		for _, s := range iv {
			// the validator must be an argument of NewGnoExtension
			for _, e := range f.CallsToDeep(c52MD + ".NewGnoExtension") {
				for _, a := range e.Call.Args {
					if a == ast.Expr(s.Call) {
						ok = true
					}
				}
			}
		}
		c.Check("image-validator", c52Web+".NewDefaultGoldmarkOptions", f.Pos(), ok, "default options must install the Gno extension with an image URL validator")
	}
	if f := c.MustFunc(c52MD + ".(*imgValidatorTransformer).Transform"); f != nil {
		// the destination is erased on the false branch of valFunc(dest)
		n := 0
		for _, l := range append([]*engine.Fn{f}, f.AllLits()...) {
			info := l.Info()
			engine.InspectBody(l, func(nd ast.Node) {
				as, ok := nd.(*ast.AssignStmt)
				if !ok || len(as.Lhs) != 1 {
					return
				}
				se, ok := as.Lhs[0].(*ast.SelectorExpr)
				if !ok || se.Sel.Name != "Destination" {
					return
				}
				n++
				site := l.SiteOf(as)
				good, why := false, "erasure of the image destination is not gated by `!valFunc(destination)` alone"
				if site != nil {
					for _, gt := range l.Graph().Gates(site) {
						cond := ast.Unparen(gt.Cond)
						if u, isU := cond.(*ast.UnaryExpr); isU && u.Op == token.NOT && gt.OnTrue {
							if call, isCall := ast.Unparen(u.X).(*ast.CallExpr); isCall {
								if fs, isSel := call.Fun.(*ast.SelectorExpr); isSel && fs.Sel.Name == "valFunc" && engine.MentionsName(call.Args[0], "Destination") {
									good, why = true, "destination erased whenever the validator rejects it"
								}
							}
						}
					}
				}
				_ = info
				c.Check("image-validator", f.Name+" erase", as.Pos(), good, why)
			})
		}
		c.Floor("image-validator", n, 1)
	}
}
