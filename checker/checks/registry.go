// Package checks holds one file per property: the rule instances (tables
// confirmed by reading /repo) applied with the engine's rule templates.
package checks

import "gnoverif/engine"

// Meta is what MANIFEST.json says about a check.
type Meta struct {
	Text      string // level_claimed.text: what is decided and why that level
	Note      string // level_note: what is assumed / not covered
	Technique string
	Ref       string // DESIGN.md section
}

// Registry maps property id to its check.
var Registry = map[string]func(*engine.Ctx){}

// Metas maps property id to its manifest text.
var Metas = map[string]Meta{}

func register(id string, f func(*engine.Ctx)) { Registry[id] = f }

func meta(id string, m Meta) { Metas[id] = m }

// NotApplicable lists the properties not claimed, with the reason.
var NotApplicable = map[string]string{}
