// Package checks holds one file per property: the rule instances (tables
// confirmed by reading /repo) applied with the engine's rule templates.
package checks

import (
	"strings"

	"gnoverif/engine"
)

// Meta is what MANIFEST.json says about a check.
type Meta struct {
	Text      string // level_claimed.text: what is decided and why that level
	Note      string // level_note: what is assumed / not covered
	Technique string
	Ref       string // DESIGN.md section
}

// Registry maps property id to its check.
var Registry = map[string]func(*engine.Ctx){}

// Metas maps property id to its manifest text.
var Metas = map[string]Meta{}

func register(id string, f func(*engine.Ctx)) { Registry[id] = f }

func meta(id string, m Meta) { Metas[id] = m }

// NotApplicable lists the properties not claimed, with the reason.
var NotApplicable = map[string]string{}

// Extras holds additional rule sets appended to a property's check (added
// after independently seeded changes showed a gap); they run after the main
// check with the same Ctx.
var Extras = map[string][]func(*engine.Ctx){}

func extend(id string, f func(*engine.Ctx)) { Extras[id] = append(Extras[id], f) }

// MetaExtras holds one sentence per extra rule set, appended to the property's
// manifest text ("Additional rules: …").
var MetaExtras = map[string][]string{}

func metaExtra(id, sentence string) { MetaExtras[id] = append(MetaExtras[id], sentence) }

// Run executes a property's check and its extras.
func Run(id string, c *engine.Ctx) bool {
	fn, ok := Registry[id]
	if !ok {
		return false
	}
	fn(c)
	for _, x := range Extras[id] {
		x(c)
	}
	return true
}

// progWith returns c.Prog when it already has all the named packages loaded
// with syntax, else loads them.
func progWith(c *engine.Ctx, rel ...string) *engine.Prog {
	if c.Prog != nil {
		all := true
		for _, r := range rel {
			if strings.HasSuffix(r, "/...") {
				found := false
				for _, pk := range c.Prog.Pkgs {
					if strings.HasPrefix(engine.Rel(pk.PkgPath), strings.TrimSuffix(r, "/...")) {
						found = true
					}
				}
				if !found {
					all = false
				}
				continue
			}
			if c.Prog.Pkg(r) == nil {
				all = false
			}
		}
		if all {
			return c.Prog
		}
	}
	return c.Load(rel...)
}
