package checks

import (
	"go/ast"
	"go/token"
	"go/types"
	"strings"

	"gnoverif/engine"
)

// C50 extra — rotation selection. When a node is off by two, a double rotation
// (first rotate the heavy child the other way, then the node) restores balance
// only if the heavy child itself leans the OTHER way, strictly: with a heavy
// child of balance exactly 0 (which happens after a Remove, never after a Set)
// the double rotation leaves the demoted child with subtrees two apart. So in
// balance(), the rotation applied to a child — any rotateLeft/rotateRight call
// whose receiver is not balance's own receiver — must sit under the fact
//   child.calcBalance() < 0   for child.rotateLeft()   (left-right case)
//   child.calcBalance() > 0   for child.rotateRight()  (right-left case)
// (equivalently the negation of `>= 0` / `<= 0`). A non-strict fact is a
// violation. (Added after an independently seeded change made both selection
// tests strict the other way round, `> 0` / `< 0`, symmetric and therefore
// invisible to the mirror rule.)
func init() {
	extend("C50", c50RotSel)
	const nf = "examples/gno.land/p/nt/avl/v0/node.gno"
	mutants("C50",
		Mutant{"balance-selection-insert-only", nf, "if node.getLeftNode().calcBalance() >= 0 {", "if node.getLeftNode().calcBalance() > 0 {", "rotation-selection"},
		Mutant{"balance-selection-insert-only-right", nf, "if node.getRightNode().calcBalance() <= 0 {", "if node.getRightNode().calcBalance() < 0 {", "rotation-selection"},
	)
}

func c50RotSel(c *engine.Ctx) {
	if c.Prog == nil {
		return
	}
	N := c50Pkg + ".(*Node)."
	bal := c.MustFunc(N + "balance")
	if bal == nil {
		return
	}
	info := bal.Info()
	recv := cjRecv(bal)
	n := 0
	for _, s := range bal.Calls() {
		name := s.CalleeName()
		if name != N+"rotateLeft" && name != N+"rotateRight" {
			continue
		}
		sel, ok := s.Call.Fun.(*ast.SelectorExpr)
		if !ok {
			continue
		}
		if id, ok := ast.Unparen(sel.X).(*ast.Ident); ok && info.ObjectOf(id) == recv {
			continue // the rotation of the node itself
		}
		n++
		want := token.LSS // child.rotateLeft(): child must lean right, strictly
		if strings.HasSuffix(name, "rotateRight") {
			want = token.GTR
		}
		key := "balance: " + engine.ExprString(s.Call) + " only when the child leans the other way strictly"
		var seen []string
		ok = false
		for _, ft := range cjFactsAt(bal, s) {
			x, op, y, isCmp := cjCmpFact(ft)
			if !isCmp {
				continue
			}
			x, y = cjResolveLocal(bal, x), cjResolveLocal(bal, y)
			if isCalcBalanceOfChild(info, y, recv) {
				x, y, op = y, x, engine.Flip(op)
			}
			if !isCalcBalanceOfChild(info, x, recv) {
				continue
			}
			k, isK := cjConstOf(info, y)
			if !isK {
				continue
			}
			seen = append(seen, "calcBalance() "+op.String()+" "+engine.ExprString(y))
			// strict lean: < 0, <= -1  resp.  > 0, >= 1
			switch want {
			case token.LSS:
				if (op == token.LSS && k <= 0) || (op == token.LEQ && k <= -1) {
					ok = true
				}
			case token.GTR:
				if (op == token.GTR && k >= 0) || (op == token.GEQ && k >= 1) {
					ok = true
				}
			}
		}
		why := "no test of the child's balance factor gates the child rotation"
		if len(seen) > 0 {
			why = "facts at the child rotation: " + strings.Join(seen, "; ") + " — a heavy child with balance 0 must get the single rotation"
		}
		c.Check("rotation-selection", key, s.Pos(), ok, why)
	}
	c.Floor("rotation-selection", n, 2)
}

// isCalcBalanceOfChild: e is <child>.calcBalance() where <child> is not the receiver itself.
func isCalcBalanceOfChild(info *types.Info, e ast.Expr, recv types.Object) bool {
	call, ok := ast.Unparen(e).(*ast.CallExpr)
	if !ok {
		return false
	}
	sel, ok := call.Fun.(*ast.SelectorExpr)
	if !ok || sel.Sel.Name != "calcBalance" {
		return false
	}
	if id, ok := ast.Unparen(sel.X).(*ast.Ident); ok && info.ObjectOf(id) == recv {
		return false
	}
	return true
}
