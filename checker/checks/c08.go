package checks

import (
	"go/ast"
	"go/token"
	"go/types"
	"strings"

	"gnoverif/engine"
)

// C08 — coins leave an address only with that address's authority.
func init() {
	register("C08", c08)
	meta("C08", Meta{
		Text:      "Decides, over all paths and all call sites in the loaded build, the gates between Gno code and the bank: (gno) the bodyless natives bankerSendCoins/IssueCoin/RemoveCoin are referenced only from the methods of the unexported type banker; banker.SendCoins reaches the native only when b.pkgAddr == from and the type is not Readonly, passing that same from; Issue/RemoveCoin only for BankerTypeRealmIssue and after assertCoinDenom(denom, b.pkgPath) on the very denom passed on, and assertCoinDenom cannot return unless denom has the prefix \"/\"+pkgPath+\":\"; banker values are built only by keyed literals in NewBanker/NewReadonlyBanker, their fields are never assigned, and NewBanker returns only when rlm.IsCurrent() and (for OriginSend) rlm.Previous().IsUserCall(), binding pkgAddr/pkgPath to that rlm. (Go) ExecContext.Banker's mutating methods are referenced only from the chain/banker natives; X_bankerSendCoins sends under btOriginSend only below the IsAllGTE(spent) test and then records spent, under the Realm types unconditionally, never otherwise; SDKBanker.Issue/RemoveCoin mint/burn only after assertIssuable on the same denom; who-may-call tables for every bank primitive that debits, mints, burns or replaces balances; every keeper/handler transfer names as `from` a field the message declares as signer; storage-deposit refunds leave the deposit address of the realm whose diff is negative.",
		Note:      "Not covered: the VM's realm semantics (that IsCurrent/Previous/IsUserCall mean what they say, that unexported Gno names are unreachable from other packages), balance arithmetic, contribs/ and misc/ modules (separate Go modules, not loaded). Test-support stdlibs under gnovm/tests are excluded from who-may-call by path.",
		Technique: "R-GNO (AST+go/cfg gates on banker.gno with package-local resolution), go/cfg gate analysis, who-may-call tables closed over interfaces, argument-provenance (single-definition) rule",
		Ref:       "DESIGN.md §2 C08",
	})
	mutants("C08",
		Mutant{"gno-from-check-weakened", "gnovm/stdlibs/chain/banker/banker.gno", "if b.pkgAddr != from {", "if b.pkgAddr != from && b.bt == BankerTypeOriginSend {", "gno-send-gate"},
		Mutant{"gno-iscurrent-dropped", "gnovm/stdlibs/chain/banker/banker.gno", "if !rlm.IsCurrent() {", "if !rlm.IsCurrent() && bt == BankerTypeRealmIssue {", "gno-newbanker-gate"},
		Mutant{"gno-banker-for-previous", "gnovm/stdlibs/chain/banker/banker.gno", "pkgAddr: rlm.Address(),", "pkgAddr: rlm.Previous().Address(),", "gno-newbanker-binding"},
		Mutant{"gno-denom-check-other-var", "gnovm/stdlibs/chain/banker/banker.gno", "\tassertCoinDenom(denom, b.pkgPath)\n\tbankerRemoveCoin(", "\tassertCoinDenom(\"/\"+b.pkgPath+\":abc\", b.pkgPath)\n\tbankerRemoveCoin(", "gno-issue-gate"},
		Mutant{"gno-prefix-no-colon", "gnovm/stdlibs/chain/banker/banker.gno", "prefix := \"/\" + pkgPath + \":\"", "prefix := \"/\" + pkgPath", "gno-denom-prefix"},
		Mutant{"gno-native-from-helper", "gnovm/stdlibs/chain/banker/banker.gno", "func expandNative(cz chain.Coins) (denoms []string, amounts []int64) {", "func SendRaw(from, to string, cz chain.Coins) {\n\td, a := expandNative(cz)\n\tbankerSendCoins(2, from, to, d, a)\n}\n\nfunc expandNative(cz chain.Coins) (denoms []string, amounts []int64) {", "gno-native-callers"},
		Mutant{"go-originsend-limit-negated", "gnovm/stdlibs/chain/banker/banker.go", "if !ctx.OriginSend.IsAllGTE(spent) {", "if !ctx.OriginSend.IsAllGTE(amt) {", "origin-send-limit"},
		Mutant{"go-originsend-not-recorded", "gnovm/stdlibs/chain/banker/banker.go", "\t\t*ctx.OriginSendSpent = spent\n", "\t\t_ = spent\n", "origin-send-limit"},
		Mutant{"go-issue-unchecked", "gno.land/pkg/sdk/vm/builtins.go", "func (bnk *SDKBanker) RemoveCoin(b32addr crypto.Bech32Address, denom string, amount int64) {\n\tassertIssuable(denom)", "func (bnk *SDKBanker) RemoveCoin(b32addr crypto.Bech32Address, denom string, amount int64) {\n\tassertIssuable(\"/x:abc\")", "issuable-gate"},
		Mutant{"go-banker-unrestricted", "gno.land/pkg/sdk/vm/builtins.go", "err := bnk.vmk.bank.SendCoins(bnk.ctx, from, to, amt)", "err := bnk.vmk.bank.SendCoinsUnrestricted(bnk.ctx, from, to, amt)", "who-may-call"},
		Mutant{"go-call-send-from-pkg", "gno.land/pkg/sdk/vm/keeper.go", "\terr = vm.bank.SendCoins(ctx, caller, pkgAddr, send)\n\tif err != nil {\n\t\treturn \"\", err\n\t}\n\tcx := xn.(*gno.CallExpr)", "\terr = vm.bank.SendCoins(ctx, pkgAddr, caller, send)\n\tif err != nil {\n\t\treturn \"\", err\n\t}\n\tcx := xn.(*gno.CallExpr)", "from-is-signer"},
		Mutant{"go-refund-on-growth", "gno.land/pkg/sdk/vm/keeper.go", "\t\tif diff > 0 {\n\t\t\t// lock deposit", "\t\tif diff > 0 && depositAmt > 0 {\n\t\t\t// lock deposit", "refund-on-release"},
	)
}

const (
	c08Gno  = "gno:gnovm/stdlibs/chain/banker"
	c08BkGo = "gnovm/stdlibs/chain/banker"
	c08Bank = "tm2/pkg/sdk/bank"
	c08VM   = "gno.land/pkg/sdk/vm"
)

func c08(c *engine.Ctx) {
	c.Explain = "Decides the structural gates between Gno code and the bank (see manifest text): native reachability and guard conditions in chain/banker/banker.gno (R-GNO), the origin-send limit and issuance guards on the Go side, who-may-call tables for every debit/mint/burn/replace primitive of the bank keeper closed over all interfaces it is reachable through, provenance of the `from` argument of every keeper-initiated transfer (a declared signer field), and the release-only condition of storage-deposit refunds. Not covered: realm-identity semantics inside the VM, balance arithmetic, contribs/misc modules."
	c08gno(c)
	c08go(c)
}

// ---------------------------------------------------------------- .gno side

func c08gno(c *engine.Ctx) {
	gp := c.LoadGno("gnovm/stdlibs/chain/banker")
	if gp == nil {
		return
	}
	pk := gp.Pkgs[0]
	info := pk.TypesInfo
	M := c08Gno + ".(banker)."

	// (G1) natives referenced only from banker's methods.
	natives := map[string]string{
		"bankerSendCoins":  M + "SendCoins",
		"bankerIssueCoin":  M + "IssueCoin",
		"bankerRemoveCoin": M + "RemoveCoin",
	}
	n1 := 0
	for _, nat := range engine.SortedKeys(natives) {
		obj, _ := pk.Types.Scope().Lookup(nat).(*types.Func)
		if obj == nil {
			c.Undecided("anchor", c08Gno+"."+nat, "native binding not declared in banker.gno")
			continue
		}
		// must stay bodyless (a native): a Gno body would replace the Go guard chain
		for _, file := range pk.Syntax {
			for _, d := range file.Decls {
				if fd, ok := d.(*ast.FuncDecl); ok && fd.Name.Name == nat && fd.Recv == nil {
					kcAt(c, gp, "gno-native-bodyless", nat, fd.Pos(), fd.Body == nil, "native binding must have no Gno body")
				}
			}
		}
		refs := gp.RefsToFunc(c08Gno + "." + nat)
		n1 += len(refs)
		callers := engine.CallerSet(refs)
		extra := engine.SetDiff(callers, []string{natives[nat]})
		notCall := 0
		for _, r := range refs {
			if !r.IsCall {
				notCall++
			}
		}
		c.CheckAt("gno-native-callers", nat, "-", len(extra) == 0 && notCall == 0 && len(refs) > 0,
			"referenced from "+join(callers)+" (only "+natives[nat]+" may call it; value uses: "+itoa(notCall)+")")
	}
	c.Floor("gno-native-callers", n1, 3)

	// (G2) banker.SendCoins gate.
	if f := kcFunc(c, gp, M+"SendCoins"); f != nil {
		g := f.Graph()
		recv := kcRecv(f)
		sites := f.CallsTo(c08Gno + ".bankerSendCoins")
		c.Floor("gno-send-gate", len(sites), 1)
		for _, s := range sites {
			fromArg := kcStripConv(info, kcArg(s, 1))
			fromObj := engine.ObjOf(info, fromArg)
			okFrom, okRO := false, false
			for _, ft := range kcFacts(g, s) {
				x, y, op, ok := kcCmp(ft)
				if !ok {
					continue
				}
				if op == token.EQL && fromObj != nil && kcParamIndex(f, fromObj) >= 0 &&
					((kcSelOf(info, x, recv, "pkgAddr") && engine.ObjOf(info, y) == fromObj && kcIsIdent(y)) ||
						(kcSelOf(info, y, recv, "pkgAddr") && engine.ObjOf(info, x) == fromObj && kcIsIdent(x))) {
					okFrom = true
				}
				if op == token.NEQ && ((kcSelOf(info, x, recv, "bt") && kcConstName(info, y) == "BankerTypeReadonly") ||
					(kcSelOf(info, y, recv, "bt") && kcConstName(info, x) == "BankerTypeReadonly")) {
					okRO = true
				}
			}
			kcAt(c, gp, "gno-send-gate", M+"SendCoins from==pkgAddr", s.Pos(), okFrom,
				"the native send must execute only when b.pkgAddr == from, with that `from` parameter as its from-argument")
			kcAt(c, gp, "gno-send-gate", M+"SendCoins not-readonly", s.Pos(), okRO,
				"the native send must execute only when b.bt != BankerTypeReadonly")
			// from must not be reassigned
			if fromObj != nil {
				rhs, okd := kcDefs(f, fromObj)
				kcAt(c, gp, "gno-send-gate", M+"SendCoins from not reassigned", s.Pos(), okd && len(rhs) == 0, "parameter `from` must not be reassigned between the test and the send")
			}
		}
	}

	// (G3) Issue/Remove gates.
	for _, nm := range []string{"IssueCoin", "RemoveCoin"} {
		f := kcFunc(c, gp, M+nm)
		if f == nil {
			continue
		}
		g := f.Graph()
		recv := kcRecv(f)
		sites := f.CallsTo(c08Gno + ".banker" + nm)
		c.Floor("gno-issue-gate "+nm, len(sites), 1)
		for _, s := range sites {
			denomArg := kcStripConv(info, kcArg(s, 2))
			denomObj := engine.ObjOf(info, denomArg)
			okT := false
			for _, ft := range kcFacts(g, s) {
				x, y, op, ok := kcCmp(ft)
				if ok && op == token.EQL && ((kcSelOf(info, x, recv, "bt") && kcConstName(info, y) == "BankerTypeRealmIssue") ||
					(kcSelOf(info, y, recv, "bt") && kcConstName(info, x) == "BankerTypeRealmIssue")) {
					okT = true
				}
			}
			kcAt(c, gp, "gno-issue-gate", M+nm+" type==RealmIssue", s.Pos(), okT, "the native must execute only when b.bt == BankerTypeRealmIssue")
			okD := false
			why := "no dominating assertCoinDenom(denom, b.pkgPath) on the denom passed to the native"
			for _, a := range f.CallsTo(c08Gno + ".assertCoinDenom") {
				if !g.Dominates(a, s) {
					continue
				}
				if denomObj != nil && kcParamIndex(f, denomObj) >= 0 && kcSameObj(info, kcArg(a, 0), denomArg) && kcSelOf(info, kcArg(a, 1), recv, "pkgPath") {
					okD = true
				} else {
					why = "assertCoinDenom is applied to `" + engine.ExprString(a.Call) + "`, not to (the denom passed on, b.pkgPath)"
				}
			}
			if denomObj != nil {
				if rhs, okd := kcDefs(f, denomObj); !okd || len(rhs) != 0 {
					okD, why = false, "parameter denom is reassigned"
				}
			}
			kcAt(c, gp, "gno-issue-gate", M+nm+" assertCoinDenom", s.Pos(), okD, why)
		}
	}

	// (G3b) assertCoinDenom returns only for denoms prefixed "/"+pkgPath+":".
	if f := kcFunc(c, gp, c08Gno+".assertCoinDenom"); f != nil {
		g := f.Graph()
		denom, pkgPath := paramObj(f, 0), paramObj(f, 1)
		exits := kcNormalExits(f)
		c.Floor("gno-denom-prefix", len(exits), 1)
		for _, ex := range exits {
			ok, why := false, "no strings.HasPrefix(denom, \"/\"+pkgPath+\":\") test gates the normal return"
			for _, ft := range kcFacts(g, ex) {
				call := kcIsCallTo(info, ft.Expr, "strings.HasPrefix")
				if call == nil || !ft.Val || len(call.Args) != 2 {
					continue
				}
				if engine.ObjOf(info, call.Args[0]) != denom {
					why = "HasPrefix is not applied to the denom parameter"
					continue
				}
				pe := kcResolve(f, call.Args[1])
				parts := kcConcatParts(pe)
				if len(parts) == 3 {
					a, oka := kcStrLit(info, parts[0])
					b, okb := kcStrLit(info, parts[2])
					if oka && okb && a == "/" && b == ":" && engine.ObjOf(info, parts[1]) == pkgPath && kcIsIdent(parts[1]) {
						ok = true
						continue
					}
				}
				why = "prefix tested is `" + engine.ExprString(pe) + "`, expected \"/\" + pkgPath + \":\""
			}
			kcAt(c, gp, "gno-denom-prefix", c08Gno+".assertCoinDenom", ex.Pos(), ok, why)
		}
		for _, o := range []types.Object{denom, pkgPath} {
			if o != nil {
				rhs, okd := kcDefs(f, o)
				kcAt(c, gp, "gno-denom-prefix", c08Gno+".assertCoinDenom param "+o.Name()+" not reassigned", f.Pos(), okd && len(rhs) == 0, "")
			}
		}
	}

	// (G4) construction of banker values.
	bankerT := gp.Named(c08Gno + ".banker")
	if bankerT == nil {
		c.Undecided("anchor", c08Gno+".banker", "type banker not found")
		return
	}
	nl := 0
	allowedCtor := map[string]bool{c08Gno + ".NewBanker": true, c08Gno + ".NewReadonlyBanker": true}
	isBanker := func(t types.Type) bool {
		if t == nil {
			return false
		}
		if pt, ok := t.Underlying().(*types.Pointer); ok {
			t = pt.Elem()
		}
		n, ok := types.Unalias(t).(*types.Named)
		return ok && n.Obj() == bankerT.Obj()
	}
	for _, file := range pk.Syntax {
		ast.Inspect(file, func(n ast.Node) bool {
			switch x := n.(type) {
			case *ast.CompositeLit:
				if !isBanker(info.TypeOf(x)) {
					return true
				}
				nl++
				fn := gp.EnclosingFn(pk.PkgPath, x.Pos())
				name := "<package-level>"
				if fn != nil {
					name = fn.Root().Name
				}
				keyed := true
				for _, el := range x.Elts {
					if _, ok := el.(*ast.KeyValueExpr); !ok {
						keyed = false
					}
				}
				kcAt(c, gp, "gno-banker-construction", "literal in "+name, x.Pos(), allowedCtor[name] && keyed, "banker{…} literals may occur (keyed) only in NewBanker / NewReadonlyBanker")
			case *ast.CallExpr:
				// conversion banker(x) or new(banker)
				if tv, ok := info.Types[x.Fun]; ok && tv.IsType() && isBanker(tv.Type) {
					kcAt(c, gp, "gno-banker-construction", "conversion to banker", x.Pos(), false, "conversion to banker forges a banker value")
				}
				if id, ok := x.Fun.(*ast.Ident); ok && id.Name == "new" && len(x.Args) == 1 {
					if tv, ok := info.Types[x.Args[0]]; ok && tv.IsType() && isBanker(tv.Type) {
						kcAt(c, gp, "gno-banker-construction", "new(banker)", x.Pos(), false, "banker values must come from the constructors")
					}
				}
			}
			return true
		})
	}
	c.Floor("gno-banker-construction", nl, 2)
	for _, fld := range []string{"bt", "pkgAddr", "pkgPath"} {
		fv := gp.Field(c08Gno + ".banker." + fld)
		if fv == nil {
			c.Undecided("anchor", c08Gno+".banker."+fld, "field not found")
			continue
		}
		ws := gp.FieldWrites(fv)
		bad := engine.WriterSet(ws, func(w engine.Write) bool { return !(w.Kind == "lit" && allowedCtor[w.Fn.Root().Name]) })
		c.CheckAt("gno-banker-fields", "banker."+fld, "-", len(bad) == 0, "field written outside the constructor literals by: "+join(bad))
	}

	// NewReadonlyBanker: literal carries bt: BankerTypeReadonly only.
	if f := kcFunc(c, gp, c08Gno+".NewReadonlyBanker"); f != nil {
		engine.InspectBody(f, func(n ast.Node) {
			if cl, ok := n.(*ast.CompositeLit); ok && isBanker(info.TypeOf(cl)) {
				ok := true
				sawBT := false
				for _, el := range cl.Elts {
					kv, _ := el.(*ast.KeyValueExpr)
					if kv == nil {
						ok = false
						continue
					}
					k, _ := kv.Key.(*ast.Ident)
					if k != nil && k.Name == "bt" && kcConstName(info, kv.Value) == "BankerTypeReadonly" {
						sawBT = true
					} else {
						ok = false
					}
				}
				kcAt(c, gp, "gno-newbanker-binding", c08Gno+".NewReadonlyBanker literal", cl.Pos(), ok && sawBT, "the capability-free constructor must yield bt: BankerTypeReadonly and nothing else")
			}
		})
	}

	// NewBanker: gates and binding.
	if f := kcFunc(c, gp, c08Gno+".NewBanker"); f != nil {
		g := f.Graph()
		bt, rlm := paramObj(f, 0), paramObj(f, 1)
		nlit := 0
		engine.InspectBody(f, func(n ast.Node) {
			cl, ok := n.(*ast.CompositeLit)
			if !ok || !isBanker(info.TypeOf(cl)) {
				return
			}
			nlit++
			s := f.SiteOf(cl)
			if s == nil {
				c.Undecided("gno-newbanker-gate", c08Gno+".NewBanker literal", "literal not located in the CFG")
				return
			}
			// binding
			want := map[string]string{"pkgAddr": "Address", "pkgPath": "PkgPath"}
			seen := map[string]bool{}
			okBT := false
			for _, el := range cl.Elts {
				kv, _ := el.(*ast.KeyValueExpr)
				if kv == nil {
					continue
				}
				k, _ := kv.Key.(*ast.Ident)
				if k == nil {
					continue
				}
				if k.Name == "bt" && engine.ObjOf(info, kv.Value) == bt && kcIsIdent(kv.Value) {
					okBT = true
				}
				if m, ok := want[k.Name]; ok {
					if call, ok := ast.Unparen(kv.Value).(*ast.CallExpr); ok && len(call.Args) == 0 {
						if se, ok := call.Fun.(*ast.SelectorExpr); ok && se.Sel.Name == m && kcIsIdent(se.X) && engine.ObjOf(info, se.X) == rlm {
							seen[k.Name] = true
						}
					}
				}
			}
			kcAt(c, gp, "gno-newbanker-binding", c08Gno+".NewBanker literal", cl.Pos(), okBT && seen["pkgAddr"] && seen["pkgPath"],
				"the banker must be bound to bt, rlm.Address() and rlm.PkgPath() of the realm value that was tested")
			// gates
			var okCur, okRO, okMax, okOrigin bool
			for _, ft := range kcFacts(g, s) {
				if call, ok := ast.Unparen(ft.Expr).(*ast.CallExpr); ok && ft.Val && len(call.Args) == 0 {
					if se, ok := call.Fun.(*ast.SelectorExpr); ok && se.Sel.Name == "IsCurrent" && kcIsIdent(se.X) && engine.ObjOf(info, se.X) == rlm {
						okCur = true
					}
				}
				x, y, op, ok := kcCmp(ft)
				if !ok {
					continue
				}
				if op == token.NEQ && engine.ObjOf(info, x) == bt && kcConstName(info, y) == "BankerTypeReadonly" {
					okRO = true
				}
				if op == token.LSS && engine.ObjOf(info, x) == bt && kcConstName(info, y) == "maxBanker" {
					okMax = true
				}
			}
			// origin-send: a gate on the false branch whose condition is exactly
			// bt == BankerTypeOriginSend && !rlm.Previous().IsUserCall()
			okOrigin = kcFalseConj(kcGates(g, s),
				func(e ast.Expr) bool {
					return kcCmpAny(e, func(x, y ast.Expr, op token.Token) bool {
						return op == token.EQL && engine.ObjOf(info, x) == bt && kcConstName(info, y) == "BankerTypeOriginSend"
					})
				},
				func(e ast.Expr) bool {
					u, ok := e.(*ast.UnaryExpr)
					if !ok || u.Op != token.NOT {
						return false
					}
					prev, ok := kcMethodCallOn(kcResolve(f, u.X), "IsUserCall")
					if !ok {
						return false
					}
					r, ok := kcMethodCallOn(kcResolve(f, prev), "Previous")
					return ok && engine.ObjOf(info, r) == rlm
				})
			kcAt(c, gp, "gno-newbanker-gate", c08Gno+".NewBanker rlm.IsCurrent", cl.Pos(), okCur, "a banker may be constructed only when rlm.IsCurrent() holds (un-weakened)")
			kcAt(c, gp, "gno-newbanker-gate", c08Gno+".NewBanker bt!=Readonly", cl.Pos(), okRO, "")
			kcAt(c, gp, "gno-newbanker-gate", c08Gno+".NewBanker bt<maxBanker", cl.Pos(), okMax, "")
			kcAt(c, gp, "gno-newbanker-gate", c08Gno+".NewBanker origin-send previous-is-user-call", cl.Pos(), okOrigin,
				"construction must be unreachable when bt == BankerTypeOriginSend && !rlm.Previous().IsUserCall() (exactly these two conjuncts)")
		})
		c.Floor("gno-newbanker-gate", nlit, 1)
		for _, o := range []types.Object{bt, rlm} {
			if o != nil {
				rhs, okd := kcDefs(f, o)
				kcAt(c, gp, "gno-newbanker-gate", c08Gno+".NewBanker param "+o.Name()+" not reassigned", f.Pos(), okd && len(rhs) == 0, "")
			}
		}
	}
}

func kcConstName(info *types.Info, e ast.Expr) string {
	if e == nil {
		return ""
	}
	if k, ok := engine.ObjOf(info, e).(*types.Const); ok {
		return k.Name()
	}
	return ""
}

func itoa(n int) string {
	if n == 0 {
		return "0"
	}
	s := ""
	neg := n < 0
	if neg {
		n = -n
	}
	for n > 0 {
		s = string(rune('0'+n%10)) + s
		n /= 10
	}
	if neg {
		s = "-" + s
	}
	return s
}

// ---------------------------------------------------------------- Go side

func c08go(c *engine.Ctx) {
	pats := []string{"gnovm/stdlibs/...", "gnovm/tests/stdlibs/...", c08VM, c08Bank, "tm2/pkg/sdk/auth", "gno.land/pkg/gnoland"}
	if c.Tier == "thorough" {
		pats = []string{"gnovm/...", "tm2/...", "gno.land/..."}
	}
	p := c.Load(pats...)
	if p == nil {
		return
	}

	// (W1) ExecContext.Banker mutators referenced only by the natives.
	ifc := "gnovm/stdlibs/internal/execctx.(BankerInterface)."
	for m, nat := range map[string]string{"SendCoins": "X_bankerSendCoins", "IssueCoin": "X_bankerIssueCoin", "RemoveCoin": "X_bankerRemoveCoin"} {
		refs := kcFilterRefs(p, p.RefsToFunc(ifc+m, c08BkGo+".(BankerInterface)."+m))
		kcCallerTable(c, p, "who-may-call", ifc+m, refs, []string{c08BkGo + "." + nat}, []string{c08BkGo + "." + nat})
	}
	// SDKBanker's methods themselves: only reachable through the interface
	for _, m := range []string{"SendCoins", "IssueCoin", "RemoveCoin"} {
		refs := kcFilterRefs(p, p.RefsToFunc(c08VM+".(*SDKBanker)."+m))
		kcCallerTable(c, p, "who-may-call", c08VM+".(*SDKBanker)."+m, refs, nil, nil)
	}

	// (W2) origin-send limit.
	if f := c.MustFunc(c08BkGo + ".X_bankerSendCoins"); f != nil {
		bt := kcParam(f, "bt")
		sends := kcDeepCalls(f, ifc+"SendCoins") // direct or through an extracted helper
		c.Floor("origin-send-limit", len(sends), 2)
		nOrigin := 0
		for _, sd := range sends {
			s := sd.Outer
			// banker types under which this send can execute (switch or if-chain alike)
			var names []string
			other := kcReachableWith(f, s, bt, nil)
			for _, k := range []string{"btReadonly", "btOriginSend", "btRealmSend", "btRealmIssue"} {
				kc, _ := f.Pkg.Types.Scope().Lookup(k).(*types.Const)
				if kc == nil {
					c.Undecided("anchor", c08BkGo+"."+k, "banker type constant not found")
					other = true
					continue
				}
				if kcReachableWith(f, s, bt, kc.Val()) {
					names = append(names, k)
				}
			}
			key := f.Name + " send under case " + strings.Join(names, ",")
			switch {
			case other || len(names) == 0:
				kcAt(c, p, "origin-send-limit", f.Name+" send outside a banker-type case", s.Pos(), false, "every send must be confined to known banker types (reachable for an unlisted type value)")
			case len(names) == 1 && names[0] == "btOriginSend":
				nOrigin++
				// analysed in the function that holds the send (the native itself or the helper)
				hf, in := sd.Inner.Fn, sd.Inner
				hg := hf.Graph()
				amtS := engine.ExprString(kcResolve(hf, kcArg(in, 2)))
				ok, why := false, "no `!ctx.OriginSend.IsAllGTE(spent)` early exit gates the send"
				var spentE ast.Expr
				for _, ft := range kcFacts(hg, in) {
					call, isCall := ast.Unparen(ft.Expr).(*ast.CallExpr)
					if !isCall || !ft.Val || len(call.Args) != 1 {
						continue
					}
					se, isSel := call.Fun.(*ast.SelectorExpr)
					if !isSel || se.Sel.Name != "IsAllGTE" {
						continue
					}
					if x, isx := ast.Unparen(kcResolve(hf, se.X)).(*ast.SelectorExpr); !isx || x.Sel.Name != "OriginSend" {
						why = "IsAllGTE is not applied to ctx.OriginSend"
						continue
					}
					def := kcResolve(hf, call.Args[0])
					dc, _ := def.(*ast.CallExpr)
					if dc == nil || len(dc.Args) != 1 || engine.ExprString(kcResolve(hf, dc.Args[0])) != amtS {
						why = "the quantity compared with OriginSend is `" + engine.ExprString(call.Args[0]) + "`, not (already spent).Add(amount being sent)"
						continue
					}
					ds, _ := dc.Fun.(*ast.SelectorExpr)
					if ds == nil || ds.Sel.Name != "Add" || !engine.MentionsName(ds.X, "OriginSendSpent") {
						why = "spent is not computed as (*ctx.OriginSendSpent).Add(amt)"
						continue
					}
					ok, spentE = true, def
				}
				kcAt(c, p, "origin-send-limit", key+" gated by OriginSend.IsAllGTE(spent+amt)", in.Pos(), ok, why)
				// spent recorded after the send on every normal path
				rec := false
				engine.InspectBody(hf, func(n ast.Node) {
					as, isAs := n.(*ast.AssignStmt)
					if !isAs || len(as.Lhs) != 1 || len(as.Rhs) != 1 || as.Tok != token.ASSIGN {
						return
					}
					st, isStar := ast.Unparen(as.Lhs[0]).(*ast.StarExpr)
					if !isStar {
						return
					}
					if x, isx := ast.Unparen(st.X).(*ast.SelectorExpr); !isx || x.Sel.Name != "OriginSendSpent" {
						return
					}
					if spentE == nil || kcResolve(hf, as.Rhs[0]) != spentE {
						return
					}
					if as2 := hf.SiteOf(as); as2 != nil && hg.Dominates(in, as2) && kcMustFollow(hf, in, as2) {
						rec = true
					}
				})
				if hf != f && rec {
					// nothing may be skipped between the helper and the native's return
					rec = true
				}
				kcAt(c, p, "origin-send-limit", key+" records spent", in.Pos(), rec, "`*ctx.OriginSendSpent = spent` must follow the send on every normally returning path")
			default:
				for _, nm := range names {
					if nm != "btRealmSend" && nm != "btRealmIssue" {
						kcAt(c, p, "origin-send-limit", key, s.Pos(), false, "send under banker type "+nm+" (only OriginSend/RealmSend/RealmIssue may send)")
					}
				}
			}
		}
		c.Floor("origin-send-limit origin case", nOrigin, 1)
	}

	// (W3) issuance guard.
	if f := c.MustFunc(c08VM + ".assertIssuable"); f != nil {
		g := f.Graph()
		d := paramObj(f, 0)
		exits := kcNormalExits(f)
		c.Floor("issuable-gate wrapper", len(exits), 1)
		for _, ex := range exits {
			ok := false
			for _, ft := range kcFacts(g, ex) {
				if call := kcIsCallTo(f.Info(), ft.Expr, "tm2/pkg/std.IsRealmDenom"); call != nil && ft.Val && len(call.Args) == 1 && engine.ObjOf(f.Info(), call.Args[0]) == d && kcIsIdent(call.Args[0]) {
					ok = true
				}
			}
			kcAt(c, p, "issuable-gate", f.Name+" returns only for realm denoms", ex.Pos(), ok, "assertIssuable must return normally only when std.IsRealmDenom(denom)")
		}
	}
	for _, pr := range [][2]string{{"IssueCoin", "MintCoins"}, {"RemoveCoin", "BurnCoins"}} {
		f := c.MustFunc(c08VM + ".(*SDKBanker)." + pr[0])
		if f == nil {
			continue
		}
		info := f.Info()
		g := f.Graph()
		denom := kcParam(f, "denom")
		tg := f.CallsTo(c08VM+".(BankKeeperI)."+pr[1], c08Bank+".(BankKeeper)."+pr[1], c08Bank+".(BankKeeperI)."+pr[1])
		c.Floor("issuable-gate "+pr[0], len(tg), 1)
		for _, t := range tg {
			ok, why := false, "no dominating assertIssuable(denom)"
			for _, a := range f.CallsTo(c08VM + ".assertIssuable") {
				if g.Dominates(a, t) && denom != nil && engine.ObjOf(info, kcArg(a, 0)) == denom && kcIsIdent(kcArg(a, 0)) {
					ok = true
				} else {
					why = "assertIssuable is applied to `" + engine.ExprString(kcArg(a, 0)) + "` or does not dominate"
				}
			}
			// every Denom of the coins passed must be that denom
			if ok {
				coins := kcArg(t, 2)
				nden := 0
				ast.Inspect(coins, func(n ast.Node) bool {
					if kv, isKV := n.(*ast.KeyValueExpr); isKV {
						if k, isID := kv.Key.(*ast.Ident); isID && k.Name == "Denom" {
							nden++
							if engine.ObjOf(info, kv.Value) != denom {
								ok, why = false, "coin minted/burned carries denom `"+engine.ExprString(kv.Value)+"`, not the checked one"
							}
						}
					}
					return true
				})
				if nden == 0 {
					ok, why = false, "cannot see the denom of the coins passed to "+pr[1]
				}
				if rhs, okd := kcDefs(f, denom); !okd || len(rhs) != 0 {
					ok, why = false, "denom is reassigned"
				}
			}
			kcAt(c, p, "issuable-gate", f.Name+" -> "+pr[1], t.Pos(), ok, why)
		}
	}

	// (W4) who-may-call tables for the bank primitives.
	bk := p.Named(c08Bank + ".BankKeeper")
	if bk == nil {
		c.Undecided("anchor", c08Bank+".BankKeeper", "type not found")
		return
	}
	B := c08Bank + ".(BankKeeper)."
	V := c08VM + ".(*VMKeeper)."
	tbl := []struct {
		m     string
		allow []string
	}{
		{"MintCoins", []string{c08VM + ".(*SDKBanker).IssueCoin", "gno.land/pkg/gnoland.NewAppWithOptions"}},
		{"BurnCoins", []string{c08VM + ".(*SDKBanker).RemoveCoin"}},
		{"SetCoins", []string{"gno.land/pkg/gnoland.(InitChainerConfig).applyBalance"}},
		{"SubtractCoins", []string{B + "InputOutputCoins", B + "sendCoins", B + "SendCoins" /* when sendCoins is inlined */, B + "BurnCoins"}},
		{"subtractCoinsUnrestricted", []string{B + "SendCoinsUnrestricted"}},
		{"subtract", []string{B + "SubtractCoins", B + "subtractCoinsUnrestricted"}},
		{"sendCoins", []string{B + "SendCoins"}},
		{"SendCoinsUnrestricted", []string{V + "lockStorageDeposit", V + "refundStorageDeposit", "tm2/pkg/sdk/auth.DeductFees"}},
		{"SendCoins", []string{V + "AddPackage", V + "Call", V + "Run", c08VM + ".(*SDKBanker).SendCoins", c08Bank + ".(bankHandler).handleMsgSend"}},
		{"InputOutputCoins", []string{c08Bank + ".(bankHandler).handleMsgMultiSend"}},
		{"setSplitBalance", []string{B + "subtract", B + "AddCoins", B + "SetCoins"}},
		{"setAccountTierCoins", []string{B + "subtract", B + "SetCoins"}},
	}
	for _, t := range tbl {
		refs := kcFilterRefs(p, kcMethodRefs(p, bk, t.m))
		kcCallerTable(c, p, "who-may-call", B+t.m, refs, t.allow, t.allow)
	}

	// (W5) `from` of keeper/handler initiated transfers is a declared signer.
	c08signer(c, p, V+"AddPackage", "SendCoins", 1, "Creator")
	c08signer(c, p, V+"Call", "SendCoins", 1, "Caller")
	c08signer(c, p, V+"Run", "SendCoins", 1, "Caller")
	c08signer(c, p, c08Bank+".(bankHandler).handleMsgSend", "SendCoins", 1, "FromAddress")
	for _, h := range [][2]string{{"AddPackage", "Creator"}, {"Call", "Caller"}, {"Run", "Caller"}} {
		c08signer(c, p, V+h[0], "processStorageDeposit", 1, h[1])
	}
	// processStorageDeposit -> lockStorageDeposit -> SendCoinsUnrestricted: caller threaded unchanged
	if f := c.MustFunc(V + "processStorageDeposit"); f != nil {
		info := f.Info()
		caller := paramObj(f, 1)
		ls := f.CallsTo(V + "lockStorageDeposit")
		c.Floor("from-is-signer lock", len(ls), 1)
		for _, s := range ls {
			ok := caller != nil && engine.ObjOf(info, kcArg(s, 1)) == caller && kcIsIdent(kcArg(s, 1))
			if rhs, okd := kcDefs(f, caller); !okd || len(rhs) != 0 {
				ok = false
			}
			kcAt(c, p, "from-is-signer", f.Name+" -> lockStorageDeposit payer", s.Pos(), ok, "the deposit payer passed on must be processStorageDeposit's caller parameter, unmodified")
		}
		kcCallerTable(c, p, "who-may-call", V+"processStorageDeposit", p.RefsToFunc(V+"processStorageDeposit"), []string{V + "AddPackage", V + "Call", V + "Run"}, nil)
		kcCallerTable(c, p, "who-may-call", V+"lockStorageDeposit", p.RefsToFunc(V+"lockStorageDeposit"), []string{V + "processStorageDeposit"}, nil)
		kcCallerTable(c, p, "who-may-call", V+"refundStorageDeposit", p.RefsToFunc(V+"refundStorageDeposit"), []string{V + "processStorageDeposit"}, nil)

		// refund only on release, for the realm whose diff it is
		g := f.Graph()
		rs := f.CallsTo(V + "refundStorageDeposit")
		c.Floor("refund-on-release", len(rs), 1)
		for _, s := range rs {
			ok, why := false, "the refund is not confined to the branch where the realm's byte diff is negative"
			var pos, nonzero bool
			var diffObj types.Object
			for _, ft := range kcFacts(g, s) {
				x, y, op, okc := kcCmp(ft)
				if !okc {
					continue
				}
				if lit, isLit := y.(*ast.BasicLit); isLit && lit.Value == "0" && kcIsIdent(x) {
					o := engine.ObjOf(info, x)
					if op == token.LEQ || op == token.LSS {
						pos, diffObj = true, o
					}
					if op == token.NEQ {
						nonzero = true
						if diffObj == nil {
							diffObj = o
						}
					}
					if op == token.LSS {
						nonzero = true
					}
				}
			}
			if pos && nonzero && diffObj != nil {
				// rlm passed must be GetPackageRealm(path) with diff := realmDiffs[path]
				rl := kcResolve(f, kcArg(s, 2))
				dd := kcSingleDef(f, diffObj)
				rc, _ := rl.(*ast.CallExpr)
				ix, _ := ast.Unparen(dd).(*ast.IndexExpr)
				if rc != nil && ix != nil && len(rc.Args) == 1 && kcSameObj(info, rc.Args[0], ix.Index) {
					if se, isSel := rc.Fun.(*ast.SelectorExpr); isSel && se.Sel.Name == "GetPackageRealm" {
						ok = true
					}
				}
				if !ok {
					why = "the realm refunded is not the realm whose diff was tested"
				}
			}
			kcAt(c, p, "refund-on-release", f.Name+" -> refundStorageDeposit", s.Pos(), ok, why)
		}
	}
	if f := c.MustFunc(V + "lockStorageDeposit"); f != nil {
		info := f.Info()
		caller := paramObj(f, 1)
		ss := f.CallsTo(c08VM + ".(BankKeeperI).SendCoinsUnrestricted")
		c.Floor("from-is-signer lock-transfer", len(ss), 1)
		for _, s := range ss {
			ok := caller != nil && engine.ObjOf(info, kcArg(s, 1)) == caller && kcIsIdent(kcArg(s, 1))
			if rhs, okd := kcDefs(f, caller); !okd || len(rhs) != 0 {
				ok = false
			}
			kcAt(c, p, "from-is-signer", f.Name+" transfer from payer", s.Pos(), ok, "the deposit is debited from lockStorageDeposit's caller parameter")
		}
	}
	if f := c.MustFunc(V + "refundStorageDeposit"); f != nil {
		info := f.Info()
		rlm := paramObj(f, 2)
		ss := f.CallsTo(c08VM + ".(BankKeeperI).SendCoinsUnrestricted")
		c.Floor("refund-on-release transfer", len(ss), 1)
		for _, s := range ss {
			ok := false
			from := kcResolve(f, kcArg(s, 1))
			if call := kcIsCallTo(info, from, "gnovm/pkg/gnolang.DeriveStorageDepositCryptoAddr"); call != nil && len(call.Args) == 1 && kcSelOf(info, call.Args[0], rlm, "Path") {
				ok = true
			}
			kcAt(c, p, "refund-on-release", f.Name+" debits the realm's own deposit address", s.Pos(), ok, "from must be DeriveStorageDepositCryptoAddr(rlm.Path) of the realm parameter")
		}
	}
	// fee payer: DeductFees debits acc.GetAddress() of its account parameter; ante passes signerAccs[0]
	if f := c.MustFunc("tm2/pkg/sdk/auth.DeductFees"); f != nil {
		info := f.Info()
		acc := kcParam(f, "acc")
		ss := f.CallsTo("tm2/pkg/sdk/auth.(BankKeeperI).SendCoinsUnrestricted")
		c.Floor("from-is-signer fee", len(ss), 1)
		for _, s := range ss {
			from := kcResolve(f, kcArg(s, 1))
			ok := false
			if call, isCall := from.(*ast.CallExpr); isCall && len(call.Args) == 0 {
				if se, isSel := call.Fun.(*ast.SelectorExpr); isSel && se.Sel.Name == "GetAddress" && engine.ObjOf(info, se.X) == acc && kcIsIdent(se.X) {
					ok = true
				}
			}
			kcAt(c, p, "from-is-signer", f.Name+" fee payer", s.Pos(), ok, "fees are debited from acc.GetAddress() of the account parameter")
		}
		refs := p.RefsToFunc("tm2/pkg/sdk/auth.DeductFees")
		n := 0
		for _, r := range refs {
			if r.Fn == nil || !r.IsCall {
				continue
			}
			var call *ast.CallExpr
			for _, s := range r.Fn.Calls() {
				if s.Call != nil && engine.ObjOf(r.Fn.Info(), s.Call.Fun) != nil && s.CalleeName() == "tm2/pkg/sdk/auth.DeductFees" && s.Call.Fun.Pos() <= r.Ident.Pos() && r.Ident.End() <= s.Call.Fun.End() {
					call = s.Call
				}
			}
			if call == nil {
				continue
			}
			n++
			ok := false
			if ix, isIx := ast.Unparen(call.Args[2]).(*ast.IndexExpr); isIx && kcIsSignerAccs(r.Fn, engine.ObjOf(r.Fn.Info(), ix.X)) {
				if lit, isLit := ix.Index.(*ast.BasicLit); isLit && lit.Value == "0" {
					ok = true
				}
			}
			kcAt(c, p, "from-is-signer", r.Fn.Root().Name+" -> DeductFees payer", call.Pos(), ok, "the fee payer must be signerAccs[0] (resolved from tx.GetSigners())")
		}
		c.Floor("from-is-signer DeductFees callers", n, 1)
	}
}

// c08signer checks that in handler fn every call of a method/function named
// callee passes, as argument argIdx, a value defined as msg.<field>, and that
// the message type's GetSigners returns exactly that field.
func c08signer(c *engine.Ctx, p *engine.Prog, fn, callee string, argIdx int, field string) {
	f := p.Func(fn)
	if f == nil {
		c.Undecided("anchor", fn, "anchored function not found")
		return
	}
	info := f.Info()
	msg := kcParam(f, "msg")
	if msg == nil {
		c.Undecided("from-is-signer", fn, "handler has no parameter named msg")
		return
	}
	sites := f.CallsToDeep("." + callee)
	n := 0
	for _, s := range sites {
		n++
		e := kcResolve(f, kcArg(s, argIdx))
		ok := kcSelOf(info, e, msg, field)
		kcAt(c, p, "from-is-signer", fn+" -> "+callee+" from=msg."+field, s.Pos(), ok,
			"argument `"+engine.ExprString(kcArg(s, argIdx))+"` resolves to `"+engine.ExprString(e)+"`; the debited address must be msg."+field+" (single definition)")
	}
	c.Floor("from-is-signer "+fn+" -> "+callee, n, 1)
	// GetSigners of the message type returns that field
	mt := msg.Type()
	if pt, ok := mt.(*types.Pointer); ok {
		mt = pt.Elem()
	}
	named, _ := types.Unalias(mt).(*types.Named)
	if named == nil {
		c.Undecided("from-is-signer", fn+" message type", "not a named type")
		return
	}
	gsName := engine.Rel(named.Obj().Pkg().Path()) + ".(" + named.Obj().Name() + ").GetSigners"
	gs := p.Func(gsName)
	if gs == nil {
		c.Undecided("anchor", gsName, "GetSigners not found")
		return
	}
	recv := kcRecv(gs)
	ok := false
	nret := 0
	engine.InspectBody(gs, func(nd ast.Node) {
		r, isR := nd.(*ast.ReturnStmt)
		if !isR || len(r.Results) != 1 {
			return
		}
		nret++
		cl, isCL := ast.Unparen(r.Results[0]).(*ast.CompositeLit)
		ok = isCL && len(cl.Elts) == 1 && kcSelOf(gs.Info(), cl.Elts[0], recv, field)
	})
	kcAt(c, p, "from-is-signer", gsName+" returns "+field, gs.Pos(), ok && nret == 1, "the message's only signer must be its "+field+" field")
}
