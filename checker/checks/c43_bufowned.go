package checks

import (
	"go/ast"
	"go/types"

	"gnoverif/engine"
)

// C43 extra — each channel owns its reassembly buffer. recvPacketMsg appends
// every packet's bytes to ch.recving; append writes in place while the slice has
// spare capacity, so two channels whose buffers are windows into one backing
// array overwrite each other's partially assembled messages as soon as one grows
// past its window. Rule: every value stored in Channel.recving is a fresh
// allocation (make / a composite literal / a clone), a capacity-clipped slice
// (x[a:b:c]), or derived from the field itself (append(ch.recving, …),
// ch.recving[:0]); a slice of a parameter or of any other variable is a
// violation. (Added after an independently seeded second-round change carved
// all channels' initial buffers out of one allocation with `recvBuf[:0]`.)
func init() {
	extend("C43", c43BufOwned)
	mutants("C43",
		Mutant{"recv-buffer-aliases-packet", "tm2/pkg/p2p/conn/connection.go", "ch.recving = ch.recving[:0] //", "ch.recving = packet.Bytes[:0] //", "recv-buffer-owned"},
	)
}

func c43BufOwned(c *engine.Ctx) {
	p := progWith(c, "tm2/pkg/p2p/conn")
	if p == nil {
		return
	}
	fld := p.Field("tm2/pkg/p2p/conn.Channel.recving")
	if fld == nil {
		c.Undecided("recv-buffer-owned", "Channel.recving", "field not found (renamed?)")
		return
	}
	n := 0
	for _, w := range p.FieldWrites(fld) {
		if !w.Direct {
			continue
		}
		var val ast.Expr
		switch x := w.Node.(type) {
		case *ast.AssignStmt:
			if len(x.Lhs) == len(x.Rhs) {
				for i, l := range x.Lhs {
					if sel, ok := ast.Unparen(l).(*ast.SelectorExpr); ok && w.Fn.Info().ObjectOf(sel.Sel) == types.Object(fld) {
						val = x.Rhs[i]
					}
				}
			}
		case *ast.KeyValueExpr:
			val = x.Value
		}
		n++
		ok := val != nil && ownedBuffer(w.Fn, val, fld, 0)
		c.Check("recv-buffer-owned", w.Fn.Name+" stores Channel.recving = "+exprOrOp(val), w.Node.Pos(), ok,
			"the reassembly buffer must be a fresh allocation, a capacity-clipped slice, or derived from the channel's own buffer: a window into storage shared with other channels is overwritten by their appends")
	}
	c.Floor("recv-buffer-owned", n, 2)
}

func ownedBuffer(f *engine.Fn, e ast.Expr, fld *types.Var, depth int) bool {
	info := f.Info()
	e = ast.Unparen(e)
	isSelf := func(x ast.Expr) bool {
		sel, ok := ast.Unparen(x).(*ast.SelectorExpr)
		return ok && info.ObjectOf(sel.Sel) == types.Object(fld)
	}
	switch x := e.(type) {
	case *ast.SelectorExpr:
		return isSelf(x)
	case *ast.CompositeLit:
		return true
	case *ast.SliceExpr:
		if x.Slice3 && x.Max != nil {
			return true // capacity-clipped: append past it reallocates
		}
		return isSelf(x.X)
	case *ast.CallExpr:
		if engine.IsBuiltinCall(info, x, "make") {
			return true
		}
		if engine.IsBuiltinCall(info, x, "append") && len(x.Args) >= 1 {
			return ownedBuffer(f, x.Args[0], fld, depth+1) || isNilExpr(info, x.Args[0])
		}
		if fn, _ := engine.ObjOf(info, x.Fun).(*types.Func); fn != nil && fn.Pkg() != nil && (fn.Pkg().Path() == "bytes" || fn.Pkg().Path() == "slices") && (fn.Name() == "Clone" || fn.Name() == "Clip") {
			return true
		}
		return false
	case *ast.Ident:
		if x.Name == "nil" {
			return true
		}
		if depth < 3 {
			if d := niSingleDef(f, info.ObjectOf(x)); d != nil {
				return ownedBuffer(f, d, fld, depth+1)
			}
		}
		return false
	}
	return false
}

func isNilExpr(info *types.Info, e ast.Expr) bool {
	id, ok := niStripConv(info, e).(*ast.Ident)
	return ok && id.Name == "nil"
}
