package checks

import (
	"fmt"
	"go/ast"
	"go/parser"
	"go/token"
	"go/types"
	"os"
	"path/filepath"
	"reflect"
	"sort"
	"strconv"
	"strings"

	"gnoverif/engine"
)

// C21 — the forked parser is source-identical to go/parser except for the
// callback hook, which observes and never steers.
func init() {
	register("C21", c21)
	meta("C21", Meta{
		Text:      "Decides that every top-level declaration of gnovm/pkg/parser/{parser,resolver,interface}.go is syntactically identical (positions and comments ignored) to the declaration of the same name in the Go standard library parser shipped at /usr/lib/go-1.23/src/go/parser — or, for declarations that drifted because the fork base is newer than 1.23.5, to the go1.25.9 parser when that source is on disk — except for the Gno delta, which is itself decided: the parser struct gains exactly the callback field; next0 gains exactly one statement `if p.callback != nil { p.callback(<field reads>) }`; ParseFile2/ParseExprFrom2/ParseExpr2 equal ParseFile/ParseExprFrom/ParseExpr of the fork modulo the extra parameter and `p.callback = callback`; the callback field is referenced nowhere else. Level 'other': source identity with the upstream parser is a sufficient structural reason for behavioural identity of the identical parts; nothing is executed.",
		Note:      "Not decided: parseParameterList (differs from both the 1.23.5 and the 1.25.9 source because the fork base is ≈go1.24, which is not on disk) — listed in a frozen residual table; if the go1.25.9 source is absent the other drifted declarations (init, parseParamDecl, extractName, parseFile, ParseFile, ParseExprFrom) are also not decided. go/scanner, go/ast and go/token are the standard library's own. Behaviour of user callbacks (they may panic) is outside the parser. Source identity is by design sensitive to edits of the fork: besides the exact Gno delta only two equivalent arrangements are recognised — a base entry point that is exactly `return <twin>(params..., nil)` while the twin minus its callback equals upstream's base function, and the observing hook statement as the sole content of one private *parser method called once from next0; any other edit of the fork, however harmless, is reported.",
		Technique: "R-SIB source identity on position-free AST dumps against the upstream source, frozen drift table, R-WHO on the callback field",
		Ref:       "DESIGN.md §2 C21",
	})
	mutants("C21",
		Mutant{"fork-changes-nesting-limit", "gnovm/pkg/parser/parser.go", "const maxNestLev int = 1e5", "const maxNestLev int = 1e4", "same-as-upstream gnovm/pkg/parser.maxNestLev"},
		Mutant{"fork-changes-error-recovery", "gnovm/pkg/parser/parser.go", "\t\tdefault:\n\t\t\tp.errorExpected(p.pos, \"';'\")\n\t\t\tp.advance(stmtStart)\n\t\t}", "\t\tdefault:\n\t\t\tp.errorExpected(p.pos, \"';'\")\n\t\t}", "same-as-upstream gnovm/pkg/parser.(*parser).expectSemi"},
		Mutant{"fork-drops-branch-kind", "gnovm/pkg/parser/parser.go", "\tcase token.BREAK, token.CONTINUE, token.GOTO, token.FALLTHROUGH:\n\t\ts = p.parseBranchStmt(p.tok)", "\tcase token.BREAK, token.CONTINUE, token.GOTO:\n\t\ts = p.parseBranchStmt(p.tok)", "same-as-upstream gnovm/pkg/parser.(*parser).parseStmt"},
		Mutant{"callback-steers-parser", "gnovm/pkg/parser/parser.go", "\t\tif p.callback != nil {\n\t\t\tp.callback(p.tok, p.nestLev)\n\t\t}", "\t\tif p.callback != nil {\n\t\t\tp.callback(p.tok, p.nestLev)\n\t\t\tp.nestLev = 0\n\t\t}", "callback-hook gnovm/pkg/parser.(*parser).next0"},
		Mutant{"parsefile2-drops-recover", "gnovm/pkg/parser/interface.go", "\t\t// Ensure the start/end are consistent,\n\t\t// whether parsing succeeded or not.\n\t\tf.FileStart = token.Pos(file.Base())\n\t\tf.FileEnd = token.Pos(file.Base() + file.Size())\n\n\t\tp.errors.Sort()\n\t\terr = p.errors.Err()\n\t}()\n\n\t// parse source\n\tp.init(file, text, mode)\n\tp.callback = callback", "\t\t// Ensure the start/end are consistent,\n\t\t// whether parsing succeeded or not.\n\t\tf.FileStart = token.Pos(file.Base())\n\t\tf.FileEnd = token.Pos(file.Base() + file.Size())\n\n\t\terr = p.errors.Err()\n\t}()\n\n\t// parse source\n\tp.init(file, text, mode)\n\tp.callback = callback", "twin-entry gnovm/pkg/parser.ParseFile2"},
		Mutant{"callback-used-elsewhere", "gnovm/pkg/parser/parser.go", "func (p *parser) next() {\n", "func (p *parser) next() {\n\tif p.callback != nil && p.tok == token.ILLEGAL {\n\t\treturn\n\t}\n", "callback-refs"},
		Mutant{"resolver-changed", "gnovm/pkg/parser/resolver.go", "const maxScopeDepth int = 1e3", "const maxScopeDepth int = 1e2", "same-as-upstream gnovm/pkg/parser.maxScopeDepth"},
	)
}

const (
	c21Fork    = "gnovm/pkg/parser"
	c21Oracle  = "/usr/lib/go-1.23/src/go/parser"
	c21Oracle2 = "/root/go/pkg/mod/golang.org/toolchain@v0.0.1-go1.25.9.linux-amd64/src/go/parser"
	c21TP      = "/usr/lib/go-1.23/src/go/internal/typeparams/typeparams.go"
)

// declarations that legitimately differ from the 1.23.5 source because the fork
// was taken from a newer release (≈go1.24); confirmed by reading the diff.
var c21Drift = map[string]string{
	"(*parser).init":               "newer base: init takes *token.File (file registered by the caller)",
	"(*parser).parseParamDecl":     "newer base: trace label",
	"(*parser).parseParameterList": "newer base: error messages for mixed named/unnamed parameters",
	"extractName":                  "newer base: preserves parentheses (ParenExpr) for syntax-tree fidelity",
	"(*parser).parseFile":          "newer base: FileStart/FileEnd set by the caller's defer",
	"ParseFile":                    "newer base: registers the file first, sets FileStart/FileEnd in the defer",
	"ParseExprFrom":                "newer base: registers the file in the caller",
}

// of those, declarations that also differ from the go1.25.9 source: not decided at all.
var c21Residual = map[string]string{
	"(*parser).parseParameterList": "go1.24 version: differs from 1.23.5 (messages) and from 1.25.9 (dddok parameter); fork base not on disk",
}

// the Gno delta
var c21GnoAdded = map[string]bool{"ParserCallback": true, "ParseFile2": true, "ParseExprFrom2": true, "ParseExpr2": true, "packIndexExpr": true}

type c21Decl struct {
	name string
	node ast.Node
	file string
	line int
}

// c21Parse parses the given files of dir and returns decls by name.
func c21Parse(dir string, files []string) (map[string]*c21Decl, error) {
	fset := token.NewFileSet()
	out := map[string]*c21Decl{}
	for _, fn := range files {
		path := filepath.Join(dir, fn)
		src, err := ceReadAbs(path)
		if err != nil {
			return nil, err
		}
		f, err := parser.ParseFile(fset, path, src, parser.SkipObjectResolution)
		if err != nil {
			return nil, err
		}
		add := func(name string, n ast.Node) {
			po := fset.Position(n.Pos())
			out[name] = &c21Decl{name: name, node: n, file: fn, line: po.Line}
		}
		for _, d := range f.Decls {
			switch x := d.(type) {
			case *ast.FuncDecl:
				name := x.Name.Name
				if x.Recv != nil && len(x.Recv.List) == 1 {
					name = "(" + types.ExprString(x.Recv.List[0].Type) + ")." + name
				}
				add(name, x)
			case *ast.GenDecl:
				if x.Tok == token.IMPORT {
					continue
				}
				for _, sp := range x.Specs {
					switch s := sp.(type) {
					case *ast.TypeSpec:
						add(s.Name.Name, s)
					case *ast.ValueSpec:
						if x.Tok == token.CONST && len(x.Specs) > 1 {
							// iota groups: identity of the whole group
							add("const-group:"+x.Specs[0].(*ast.ValueSpec).Names[0].Name, x)
							goto nextDecl
						}
						for _, id := range s.Names {
							add(id.Name, s)
						}
					}
				}
			nextDecl:
			}
		}
	}
	return out, nil
}

// ceAstDump renders an AST position-free: node kinds, field names, identifiers,
// literals and operators; token.Pos, comments, Obj/Scope are skipped. renames
// maps identifier spellings (and their occurrences inside string literals).
func ceAstDump(n ast.Node, renames map[string]string) string {
	var sb strings.Builder
	var walk func(v reflect.Value)
	posT := reflect.TypeOf(token.NoPos)
	walk = func(v reflect.Value) {
		switch v.Kind() {
		case reflect.Interface, reflect.Pointer:
			if v.IsNil() {
				sb.WriteString("nil ")
				return
			}
			if v.Kind() == reflect.Pointer {
				switch v.Interface().(type) {
				case *ast.Object, *ast.Scope, *ast.CommentGroup, *ast.Comment:
					return
				}
			}
			walk(v.Elem())
		case reflect.Struct:
			t := v.Type()
			sb.WriteString(t.Name() + "{")
			for i := 0; i < t.NumField(); i++ {
				f := v.Field(i)
				if f.Type() == posT {
					// keep only the presence bit where it is syntax (e.g. Ellipsis, Lparen of GenDecl, Arrow)
					switch t.Name() + "." + t.Field(i).Name {
					case "CallExpr.Ellipsis", "GenDecl.Lparen", "TypeSpec.Assign", "RangeStmt.TokPos", "StructType.Incomplete":
						if f.Interface().(token.Pos).IsValid() {
							sb.WriteString(t.Field(i).Name + ":set ")
						}
					}
					continue
				}
				switch t.Field(i).Name {
				case "Doc", "Comment", "Obj", "Scope", "Unresolved", "Comments":
					continue
				}
				sb.WriteString(t.Field(i).Name + ":")
				walk(f)
			}
			sb.WriteString("} ")
		case reflect.Slice:
			sb.WriteString("[")
			for i := 0; i < v.Len(); i++ {
				walk(v.Index(i))
			}
			sb.WriteString("] ")
		case reflect.String:
			s := v.String()
			if r, ok := renames[s]; ok {
				s = r
			} else {
				for from, to := range renames {
					if strings.Contains(s, from) && strings.HasPrefix(s, "\"") {
						s = strings.ReplaceAll(s, from, to)
					}
				}
			}
			sb.WriteString(strconv.Quote(s) + " ")
		case reflect.Int, reflect.Int64, reflect.Int32:
			if tk, ok := v.Interface().(token.Token); ok {
				sb.WriteString(tk.String() + " ")
			} else {
				fmt.Fprintf(&sb, "%d ", v.Int())
			}
		case reflect.Bool:
			fmt.Fprintf(&sb, "%v ", v.Bool())
		default:
			fmt.Fprintf(&sb, "?%s ", v.Kind())
		}
	}
	walk(reflect.ValueOf(n))
	return sb.String()
}

// c21Normalise rewrites the oracle's `typeparams.PackIndexExpr(...)` to the fork's local helper.
func c21Normalise(n ast.Node) {
	ast.Inspect(n, func(x ast.Node) bool {
		if call, ok := x.(*ast.CallExpr); ok {
			if se, ok := call.Fun.(*ast.SelectorExpr); ok {
				if id, ok := se.X.(*ast.Ident); ok && id.Name == "typeparams" && se.Sel.Name == "PackIndexExpr" {
					call.Fun = &ast.Ident{Name: "packIndexExpr"}
				}
			}
		}
		return true
	})
}

func c21FirstDiff(a, b string) string {
	i := 0
	for i < len(a) && i < len(b) && a[i] == b[i] {
		i++
	}
	lo := i - 60
	if lo < 0 {
		lo = 0
	}
	cut := func(s string) string {
		hi := i + 60
		if hi > len(s) {
			hi = len(s)
		}
		if lo > len(s) {
			return ""
		}
		return s[lo:hi]
	}
	return "fork …" + cut(a) + "… vs upstream …" + cut(b) + "…"
}

func c21(c *engine.Ctx) {
	c.Explain = "Decides source identity (position- and comment-free AST equality, per top-level declaration) between gnovm/pkg/parser/{parser,resolver,interface}.go and the Go standard library parser at " + c21Oracle + " (go1.23.5), with declarations that drifted because the fork base is newer decided against the go1.25.9 source when present; decides the Gno delta exactly: one extra struct field `callback`, one extra statement in next0 that only calls the callback with field reads, three *2 entry points equal to their base entry points modulo the callback parameter and `p.callback = callback`; the callback field is referenced only there. Not decided: parseParameterList (go1.24 text not on disk), the scanner/ast/token packages (standard library), what a user callback does."
	files := []string{"parser.go", "resolver.go", "interface.go"}
	forkDir := filepath.Join(engine.RepoDir(), c21Fork)
	fork, err := c21Parse(forkDir, files)
	if err != nil {
		c.Undecided("parse", c21Fork, err.Error())
		return
	}
	up, err := c21Parse(c21Oracle, files)
	if err != nil {
		c.Undecided("oracle", c21Oracle, "upstream parser source not readable: "+err.Error())
		return
	}
	var up2 map[string]*c21Decl
	if _, e := os.Stat(c21Oracle2); e == nil {
		up2, _ = c21Parse(c21Oracle2, files)
	}
	if up2 == nil {
		c.Assume = append(c.Assume, "go1.25.9 parser source not on disk: declarations in the upstream-drift table are not decided")
	} else {
		c.Assume = append(c.Assume, "drifted declarations are decided against the go1.25.9 parser source at "+c21Oracle2+" (the fork base ≈go1.24 lies between the two oracles)")
	}
	for _, d := range up {
		c21Normalise(d.node)
	}
	for _, d := range up2 {
		c21Normalise(d.node)
	}
	where := func(d *c21Decl) string { return fmt.Sprintf("%s/%s:%d", c21Fork, d.file, d.line) }
	key := func(name string) string { return c21Fork + "." + name }

	names := engine.SortedKeys(fork)
	// upstream text a (possibly drifted) declaration must equal
	upstreamOf := func(name string) (dump, which string, decided bool) {
		if _, drift := c21Drift[name]; drift {
			if _, res := c21Residual[name]; res || up2 == nil || up2[name] == nil {
				return "", "", false
			}
			return ceAstDump(up2[name].node, nil), "go1.25.9", true
		}
		if u := up[name]; u != nil {
			return ceAstDump(u.node, nil), "go1.23.5", true
		}
		return "", "", false
	}
	// the *2 twins with the callback removed (computed once; the twin rule and the
	// "base entry point delegates to its twin" form both use it)
	twinPairs := [][2]string{{"ParseFile2", "ParseFile"}, {"ParseExprFrom2", "ParseExprFrom"}, {"ParseExpr2", "ParseExpr"}}
	stripped := map[string]string{}    // base name -> dump of twin minus callback, renamed to base
	strippedWhy := map[string]string{} // base name -> why the twin is not "base + callback"
	for _, pr := range twinPairs {
		if d2 := fork[pr[0]]; d2 != nil {
			stripped[pr[1]], strippedWhy[pr[1]] = c21StripTwin(d2.node.(*ast.FuncDecl), pr[1], fork)
		}
	}
	delegates := map[string]bool{}
	for _, pr := range twinPairs {
		if d1 := fork[pr[1]]; d1 != nil && c21DelegatesToTwin(d1.node.(*ast.FuncDecl), pr[0]) {
			delegates[pr[1]] = true
		}
	}
	// a private helper holding nothing but the observing hook (extract-method form of the next0 delta)
	hookHelper := ""
	for _, name := range names {
		if _, inUp := up[name]; inUp || c21GnoAdded[name] {
			continue
		}
		if fd, ok := fork[name].node.(*ast.FuncDecl); ok && c21IsHookHelper(fd) {
			hookHelper = name
		}
	}

	nSame, nDrift := 0, 0
	for _, name := range names {
		d := fork[name]
		if c21GnoAdded[name] || name == "parser" || name == "(*parser).next0" || (name == hookHelper && hookHelper != "") {
			continue // decided by the delta rules below
		}
		if delegates[name] {
			// base entry point == its twin called with a nil callback; the twin minus the
			// callback must then be upstream's base function
			want, which, decided := upstreamOf(name)
			if !decided {
				continue
			}
			if _, drift := c21Drift[name]; drift {
				nDrift++
			} else {
				nSame++
			}
			same := strippedWhy[name] == "" && stripped[name] == want
			det := "delegates to " + name + "2 with a nil callback; the twin minus the callback is identical to " + which
			if !same {
				det = "delegates to " + name + "2, but the twin minus the callback is not " + which + "'s " + name + ": " + strippedWhy[name] + " " + c21FirstDiff(stripped[name], want)
			}
			c.CheckAt("same-as-upstream", key(name), where(d), same, det)
			continue
		}
		fd := ceAstDump(d.node, nil)
		u, ok := up[name]
		if ok && ceAstDump(u.node, nil) == fd {
			nSame++
			c.CheckAt("same-as-upstream", key(name), where(d), true, "identical to go1.23.5")
			continue
		}
		if _, drift := c21Drift[name]; drift {
			if _, res := c21Residual[name]; res {
				continue // not decided; listed in Note
			}
			if up2 == nil {
				continue
			}
			nDrift++
			u2, ok2 := up2[name]
			same := ok2 && ceAstDump(u2.node, nil) == fd
			det := "identical to go1.25.9 (" + c21Drift[name] + ")"
			if !same {
				det = "differs from both go1.23.5 and go1.25.9"
				if ok2 {
					det += ": " + c21FirstDiff(fd, ceAstDump(u2.node, nil))
				}
			}
			c.CheckAt("same-as-upstream", key(name), where(d), same, det)
			continue
		}
		det := "declaration does not exist in go/parser"
		if ok {
			det = "differs from go/parser: " + c21FirstDiff(fd, ceAstDump(u.node, nil))
		}
		c.CheckAt("same-as-upstream", key(name), where(d), false, det)
	}
	// nothing of upstream may be missing from the fork
	for _, name := range engine.SortedKeys(up) {
		if _, ok := fork[name]; !ok {
			c.CheckAt("same-as-upstream", key(name), c21Fork, false, "declaration of go/parser is missing from the fork")
		}
	}
	c.Floor("same-as-upstream", nSame, 124)
	if up2 != nil {
		c.Floor("same-as-upstream(drift)", nDrift, 6)
	}

	// imports: the fork must sit on the same scanner/ast/token packages as upstream
	for _, fn := range files {
		fi, e1 := c21Imports(filepath.Join(forkDir, fn))
		ui, e2 := c21Imports(filepath.Join(c21Oracle, fn))
		if e1 != nil || e2 != nil {
			c.Undecided("same-imports", c21Fork+"/"+fn, "cannot read imports")
			continue
		}
		extra := engine.SetDiff(fi, ui)
		missing := engine.SetDiff(engine.SetDiff(ui, fi), []string{"go/internal/typeparams"})
		c.CheckAt("same-imports", c21Fork+"/"+fn, c21Fork+"/"+fn, len(extra) == 0 && len(missing) == 0,
			"fork imports must equal upstream's (minus go/internal/typeparams): extra "+join(extra)+", missing "+join(missing))
	}

	// packIndexExpr ≡ go/internal/typeparams.PackIndexExpr
	if d := fork["packIndexExpr"]; d == nil {
		c.Undecided("anchor", key("packIndexExpr"), "helper not found")
	} else if src, err := ceReadAbs(c21TP); err != nil {
		c.Undecided("oracle", c21TP, err.Error())
	} else {
		fs := token.NewFileSet()
		f, err := parser.ParseFile(fs, c21TP, src, parser.SkipObjectResolution)
		var o *ast.FuncDecl
		if err == nil {
			for _, dd := range f.Decls {
				if fd, ok := dd.(*ast.FuncDecl); ok && fd.Name.Name == "PackIndexExpr" {
					o = fd
				}
			}
		}
		if o == nil {
			c.Undecided("oracle", c21TP, "PackIndexExpr not found")
		} else {
			a := ceAstDump(d.node, nil)
			b := ceAstDump(o, map[string]string{"PackIndexExpr": "packIndexExpr"})
			c.CheckAt("same-as-upstream", key("packIndexExpr"), where(d), a == b, "local copy of go/internal/typeparams.PackIndexExpr: "+c21FirstDiff(a, b))
		}
	}

	// ---- the Gno delta ----
	// parser struct: upstream fields + callback
	if d, u := fork["parser"], up["parser"]; d == nil || u == nil {
		c.Undecided("anchor", key("parser"), "parser struct not found")
	} else {
		ts := d.node.(*ast.TypeSpec)
		st, _ := ts.Type.(*ast.StructType)
		ok, why := false, "parser is not a struct"
		if st != nil {
			var kept []*ast.Field
			extra := []string{}
			for _, f := range st.Fields.List {
				if len(f.Names) == 1 && f.Names[0].Name == "callback" {
					extra = append(extra, "callback "+types.ExprString(f.Type))
					continue
				}
				kept = append(kept, f)
			}
			cp := *st
			cp.Fields = &ast.FieldList{List: kept}
			tcp := *ts
			tcp.Type = &cp
			a, b := ceAstDump(&tcp, nil), ceAstDump(u.node, nil)
			ok = a == b && len(extra) == 1 && extra[0] == "callback func(tok token.Token, nestLev int)"
			why = "parser struct must be upstream's plus `callback func(tok token.Token, nestLev int)`; extra=" + join(extra)
			if a != b {
				why += "; " + c21FirstDiff(a, b)
			}
		}
		c.CheckAt("callback-hook", key("parser"), where(d), ok, why)
	}
	// next0: upstream + exactly one observing statement (inline, or a call of the hook helper)
	if d, u := fork["(*parser).next0"], up["(*parser).next0"]; d == nil || u == nil {
		c.Undecided("anchor", key("(*parser).next0"), "next0 not found")
	} else {
		fd := d.node.(*ast.FuncDecl)
		recv := c21RecvName(fd)
		hooks := 0
		pure := true
		helperShort := ""
		if hookHelper != "" {
			helperShort = fork[hookHelper].node.(*ast.FuncDecl).Name.Name
		}
		// the helper is used by next0 only
		if helperShort != "" {
			uses := 0
			for _, dd := range fork {
				ast.Inspect(dd.node, func(x ast.Node) bool {
					if se, ok := x.(*ast.SelectorExpr); ok && se.Sel.Name == helperShort {
						uses++
					}
					return true
				})
			}
			if uses != 1 {
				pure = false
			}
		}
		c21RemoveStmts(fd.Body, func(s ast.Stmt) bool {
			if es, ok := s.(*ast.ExprStmt); ok && helperShort != "" {
				if call, ok := es.X.(*ast.CallExpr); ok && len(call.Args) == 0 && types.ExprString(call.Fun) == recv+"."+helperShort {
					hooks++
					return true
				}
			}
			is, ok := s.(*ast.IfStmt)
			if !ok || !engine.MentionsName(is.Cond, "callback") {
				return false
			}
			hooks++
			if !c21PureHook(is, recv) {
				pure = false
			}
			return true
		})
		a, b := ceAstDump(fd, nil), ceAstDump(u.node, nil)
		ok := hooks == 1 && pure && a == b
		why := fmt.Sprintf("next0 must be upstream's next0 plus one `if p.callback != nil { p.callback(p.tok, p.nestLev) }` (inline or as the only content of a private helper called once) (hooks=%d, observing-only=%v)", hooks, pure)
		if a != b {
			why += "; " + c21FirstDiff(a, b)
		}
		c.CheckAt("callback-hook", key("(*parser).next0"), where(d), ok, why)
	}
	// *2 entry points ≡ base entry points (of the fork, or of upstream when the base delegates to the twin)
	twins := 0
	for _, pr := range twinPairs {
		d2, d1 := fork[pr[0]], fork[pr[1]]
		if d2 == nil || d1 == nil {
			c.Undecided("anchor", key(pr[0]), "entry point not found")
			continue
		}
		twins++
		why := strippedWhy[pr[1]]
		if why == "" {
			if delegates[pr[1]] {
				if want, which, decided := upstreamOf(pr[1]); decided && stripped[pr[1]] != want {
					why = pr[0] + " is not " + which + "'s " + pr[1] + " plus the callback: " + c21FirstDiff(stripped[pr[1]], want)
				}
			} else if b := ceAstDump(d1.node, nil); stripped[pr[1]] != b {
				why = pr[0] + " is not " + pr[1] + " plus the callback: " + c21FirstDiff(stripped[pr[1]], b)
			}
		}
		c.CheckAt("twin-entry", key(pr[0]), where(d2), why == "", why)
	}
	c.Floor("twin-entry", twins, 3)
	// ParserCallback type
	if d := fork["ParserCallback"]; d == nil {
		c.Undecided("anchor", key("ParserCallback"), "type not found")
	} else {
		ts := d.node.(*ast.TypeSpec)
		c.CheckAt("callback-hook", key("ParserCallback"), where(d), types.ExprString(ts.Type) == "func(tok token.Token, nestedLevel int)",
			"callback receives the token kind and the nesting level by value: got "+types.ExprString(ts.Type))
	}

	// ---- R-WHO on the callback field (typed) ----
	if p := c.Load(c21Fork); p != nil {
		fld := p.Field(c21Fork + ".parser.callback")
		if fld == nil {
			c.Undecided("anchor", c21Fork+".parser.callback", "field not found")
		} else {
			refs := p.RefsTo(func(o types.Object) bool { return o == fld })
			users := engine.CallerSet(refs)
			allowed := []string{c21Fork + ".(*parser).next0", c21Fork + ".ParseFile2", c21Fork + ".ParseExprFrom2"}
			if hookHelper != "" {
				allowed = append(allowed, c21Fork+"."+hookHelper)
			}
			extra := engine.SetDiff(users, allowed)
			c.Check("callback-refs", c21Fork+".parser.callback", fld.Pos(), len(extra) == 0 && len(users) >= 1, "callback field may be referenced only by next0 (or its hook helper) and the two *2 entry points; referenced by: "+join(users))
		}
	}

}

func c21RecvName(fd *ast.FuncDecl) string {
	if fd.Recv != nil && len(fd.Recv.List) == 1 && len(fd.Recv.List[0].Names) == 1 {
		return fd.Recv.List[0].Names[0].Name
	}
	return ""
}

// c21PureHook: `if R.callback != nil { R.callback(R.tok|R.nestLev ...) }` and nothing else.
func c21PureHook(is *ast.IfStmt, recv string) bool {
	if recv == "" || is.Init != nil || is.Else != nil || len(is.Body.List) != 1 || types.ExprString(is.Cond) != recv+".callback != nil" {
		return false
	}
	es, ok := is.Body.List[0].(*ast.ExprStmt)
	if !ok {
		return false
	}
	call, ok := es.X.(*ast.CallExpr)
	if !ok || types.ExprString(call.Fun) != recv+".callback" {
		return false
	}
	for _, a := range call.Args {
		se, ok := a.(*ast.SelectorExpr)
		if !ok || types.ExprString(se.X) != recv || (se.Sel.Name != "tok" && se.Sel.Name != "nestLev") {
			return false // only value-typed scalar fields may be handed out
		}
	}
	return true
}

// c21IsHookHelper: an unexported, parameterless, resultless *parser method whose
// whole body is the observing hook.
func c21IsHookHelper(fd *ast.FuncDecl) bool {
	if fd.Recv == nil || len(fd.Recv.List) != 1 || types.ExprString(fd.Recv.List[0].Type) != "*parser" || ast.IsExported(fd.Name.Name) {
		return false
	}
	if fd.Type.Params.NumFields() != 0 || (fd.Type.Results != nil && fd.Type.Results.NumFields() != 0) || fd.Body == nil || len(fd.Body.List) != 1 {
		return false
	}
	is, ok := fd.Body.List[0].(*ast.IfStmt)
	return ok && c21PureHook(is, c21RecvName(fd))
}

// c21DelegatesToTwin: the body is exactly `return <twin>(<own parameters in order>, nil)`.
func c21DelegatesToTwin(fd *ast.FuncDecl, twin string) bool {
	if fd.Body == nil || len(fd.Body.List) != 1 {
		return false
	}
	r, ok := fd.Body.List[0].(*ast.ReturnStmt)
	if !ok || len(r.Results) != 1 {
		return false
	}
	call, ok := r.Results[0].(*ast.CallExpr)
	if !ok || types.ExprString(call.Fun) != twin || call.Ellipsis.IsValid() {
		return false
	}
	var params []string
	for _, f := range fd.Type.Params.List {
		for _, n := range f.Names {
			params = append(params, n.Name)
		}
	}
	if len(call.Args) != len(params)+1 || types.ExprString(call.Args[len(params)]) != "nil" {
		return false
	}
	for i, pn := range params {
		if id, ok := call.Args[i].(*ast.Ident); !ok || id.Name != pn {
			return false
		}
	}
	return true
}

// c21StripTwin removes the callback from a *2 entry point (trailing ParserCallback
// parameter; the single `<parser>.callback = <param>` statement, or the single
// forwarding of the parameter to another *2 function) and renames it to base.
// It edits fd in place and returns its dump; why is non-empty when the callback is
// used in any other way.
func c21StripTwin(fd *ast.FuncDecl, base string, fork map[string]*c21Decl) (dump, why string) {
	cb := ""
	ps := fd.Type.Params.List
	if n := len(ps); n == 0 || len(ps[n-1].Names) != 1 || types.ExprString(ps[n-1].Type) != "ParserCallback" {
		why = "last parameter must be a single ParserCallback"
	} else {
		cb = ps[n-1].Names[0].Name
		fd.Type.Params.List = ps[:n-1]
	}
	sets := 0
	c21RemoveStmts(fd.Body, func(s ast.Stmt) bool {
		as, ok := s.(*ast.AssignStmt)
		if !ok || len(as.Lhs) != 1 || len(as.Rhs) != 1 || as.Tok != token.ASSIGN || cb == "" {
			return false
		}
		se, isSel := as.Lhs[0].(*ast.SelectorExpr)
		if _, isId := as.Lhs[0].(*ast.SelectorExpr); !isId || !isSel || se.Sel.Name != "callback" {
			return false
		}
		if _, plain := se.X.(*ast.Ident); !plain || types.ExprString(as.Rhs[0]) != cb {
			return false
		}
		sets++
		return true
	})
	fwd := 0
	ast.Inspect(fd.Body, func(x ast.Node) bool {
		if call, ok := x.(*ast.CallExpr); ok && cb != "" {
			if id, ok := call.Fun.(*ast.Ident); ok && strings.HasSuffix(id.Name, "2") && fork[id.Name] != nil && len(call.Args) > 0 {
				if last, ok := call.Args[len(call.Args)-1].(*ast.Ident); ok && last.Name == cb {
					id.Name = strings.TrimSuffix(id.Name, "2")
					call.Args = call.Args[:len(call.Args)-1]
					fwd++
				}
			}
		}
		return true
	})
	if sets+fwd != 1 && why == "" {
		why = fmt.Sprintf("the callback must be installed exactly once (<parser>.callback = %s: %d, forwarded: %d)", cb, sets, fwd)
	}
	if cb != "" && engine.MentionsName(fd.Body, cb) && why == "" {
		why = "callback is used beyond being installed"
	}
	fd.Name.Name = base
	return ceAstDump(fd, nil), why
}

func c21Imports(path string) ([]string, error) {
	src, err := ceReadAbs(path)
	if err != nil {
		return nil, err
	}
	f, err := parser.ParseFile(token.NewFileSet(), path, src, parser.ImportsOnly)
	if err != nil {
		return nil, err
	}
	var out []string
	for _, im := range f.Imports {
		p, _ := strconv.Unquote(im.Path.Value)
		if im.Name != nil {
			p = im.Name.Name + " " + p
		}
		out = append(out, p)
	}
	sort.Strings(out)
	return out, nil
}

// c21RemoveStmts removes, at any depth of block, statements for which drop returns true.
func c21RemoveStmts(root ast.Node, drop func(ast.Stmt) bool) {
	filter := func(list []ast.Stmt) []ast.Stmt {
		out := list[:0:0]
		for _, s := range list {
			if !drop(s) {
				out = append(out, s)
			}
		}
		return out
	}
	ast.Inspect(root, func(n ast.Node) bool {
		switch x := n.(type) {
		case *ast.BlockStmt:
			x.List = filter(x.List)
		case *ast.CaseClause:
			x.Body = filter(x.Body)
		case *ast.CommClause:
			x.Body = filter(x.Body)
		}
		return true
	})
}

var _ = sort.Strings
