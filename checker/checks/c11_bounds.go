package checks

import (
	"go/ast"
	"go/token"
	"go/types"
	"strings"

	"gnoverif/engine"
)

// C11 extra — user-controlled slice bounds never reach a native Go slice
// expression unchecked. TypedValue.GetSlice / GetSlice2 implement s[a:b(:c)]
// for run-time indices: an out-of-range index must become a Gno exception
// (recoverable by the program, reported as a VM panic otherwise), not a Go
// runtime.boundsError from the interpreter's own slicing. Rule: every use of
// the upper index parameters (high / highVal / maxVal) outside conditions and
// panic arguments is dominated by a comparison of that same parameter with a
// length/capacity, on the side where parameter <= bound, whose other side
// panics. (Added after an independently seeded change compared the string
// length with `low` instead of `high`.)
func init() {
	extend("C11", c11Bounds)
	mutants("C11",
		Mutant{"string-slice-checks-low", "gnovm/pkg/gnolang/values.go", "	case PrimitiveType:\n\t\tif tv.GetLength() < high {", "	case PrimitiveType:\n\t\tif tv.GetLength() < low {", "slice-bound-checked"},
	)
}

func c11Bounds(c *engine.Ctx) {
	p := progWith(c, "gnovm/pkg/gnolang")
	if p == nil {
		return
	}
	total := 0
	for _, spec := range []struct {
		fn     string
		params []int // indices of the upper-bound index parameters
	}{
		{"gnovm/pkg/gnolang.(*TypedValue).GetSlice", []int{2}},
		{"gnovm/pkg/gnolang.(*TypedValue).GetSlice2", []int{2, 3}},
	} {
		f := c.MustFunc(spec.fn)
		if f == nil {
			continue
		}
		info := f.Info()
		g := f.Graph()
		for _, pi := range spec.params {
			par := paramObj(f, pi)
			if par == nil {
				c.Undecided("slice-bound-checked", spec.fn, "parameter not found")
				continue
			}
			// uses of the parameter that matter: inside slice expressions or passed on to constructors
			engine.InspectBody(f, func(n ast.Node) {
				se, ok := n.(*ast.SliceExpr)
				if !ok {
					return
				}
				uses := false
				for _, idx := range []ast.Expr{se.High, se.Max} {
					if idx != nil && engine.Mentions(info, idx, par) {
						uses = true
					}
				}
				if !uses {
					return
				}
				total++
				st := f.SiteOf(se)
				okB := false
				if st != nil {
					for _, gt := range g.Gates(st) {
						// the other branch must not continue normally
						other := gt.Block.Succs[0]
						if gt.OnTrue {
							other = gt.Block.Succs[1]
						}
						if len(other.Succs) != 0 || other.Return() != nil {
							continue
						}
						for _, a := range engine.Atoms(gt.Cond) {
							b, isB := ast.Unparen(a).(*ast.BinaryExpr)
							if !isB {
								continue
							}
							x, y, op := b.X, b.Y, b.Op
							if engine.ObjOf(info, x) == par {
								x, y, op = y, x, engine.Flip(op)
							}
							if engine.ObjOf(info, y) != par || !isLenLike(info, x) {
								continue
							}
							// now: <bound x> op <par>; fact at target
							if !gt.OnTrue {
								op = engine.Negate(op)
							}
							if op == token.GEQ || op == token.GTR {
								okB = true
							}
						}
					}
				}
				c.Check("slice-bound-checked", f.Name+" "+engine.ExprString(se)+" upper index "+par.Name(), se.Pos(), okB,
					"the native slice expression uses `"+par.Name()+"` without a dominating `length/capacity >= "+par.Name()+"` test whose failing side raises a Gno exception: an out-of-range index becomes a Go runtime.boundsError (not recoverable by the program)")
			})
		}
	}
	c.Floor("slice-bound-checked", total, 1)
}

func isLenLike(info *types.Info, e ast.Expr) bool {
	found := false
	ast.Inspect(e, func(n ast.Node) bool {
		call, ok := n.(*ast.CallExpr)
		if !ok {
			return true
		}
		switch fn := ast.Unparen(call.Fun).(type) {
		case *ast.Ident:
			if b, ok := info.Uses[fn].(*types.Builtin); ok && (b.Name() == "len" || b.Name() == "cap") {
				found = true
			}
		case *ast.SelectorExpr:
			if strings.HasPrefix(fn.Sel.Name, "GetLength") || strings.HasPrefix(fn.Sel.Name, "GetCapacity") {
				found = true
			}
		}
		return true
	})
	if id, ok := ast.Unparen(e).(*ast.Ident); ok && !found {
		// a local holding a length: single definition from a len-like call
		_ = id
	}
	return found
}
