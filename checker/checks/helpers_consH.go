package checks

// Helpers shared by the consensus checks C31–C36 (prefix hh).

import (
	"go/ast"
	"go/constant"
	"go/token"
	"go/types"
	"sort"
	"strings"

	"golang.org/x/tools/go/cfg"

	"gnoverif/engine"
)

type hhCfgBlock = cfg.Block

// hhFact is an atomic boolean expression known to be true (or false) at a site.
type hhFact struct {
	E    ast.Expr
	True bool
}

// hhSplit decomposes "e evaluates to truth" into atomic facts: !X flips,
// (A && B)==true gives both, (A || B)==false gives both negated; a compound
// that cannot be split is kept as one fact.
func hhSplit(e ast.Expr, truth bool, out *[]hhFact) {
	e = ast.Unparen(e)
	switch x := e.(type) {
	case *ast.UnaryExpr:
		if x.Op == token.NOT {
			hhSplit(x.X, !truth, out)
			return
		}
	case *ast.BinaryExpr:
		if (x.Op == token.LAND && truth) || (x.Op == token.LOR && !truth) {
			hhSplit(x.X, truth, out)
			hhSplit(x.Y, truth, out)
			return
		}
		// x == true / x != false / x == false / x != true
		if x.Op == token.EQL || x.Op == token.NEQ {
			for _, pr := range [][2]ast.Expr{{x.X, x.Y}, {x.Y, x.X}} {
				if id := hhIdent(pr[1]); id != nil && (id.Name == "true" || id.Name == "false") && id.Obj == nil {
					same := (id.Name == "true") == (x.Op == token.EQL)
					hhSplit(pr[0], truth == same, out)
					return
				}
			}
		}
	}
	*out = append(*out, hhFact{e, truth})
}

// hhFacts lists the atomic facts established by the boolean conditions gating
// site s (conditions dominating s of which exactly one branch reaches s).
// Case expressions of tagged switches are not boolean conditions and are skipped.
func hhFacts(f *engine.Fn, s *engine.Site) []hhFact {
	return hhFactsD(f, s, 2)
}

func hhIsBool(info *types.Info, e ast.Expr) bool {
	t := info.TypeOf(e)
	if t == nil {
		return false
	}
	b, ok := t.Underlying().(*types.Basic)
	return ok && b.Info()&types.IsBoolean != 0
}

// hhCaseGates returns the names of the constants of tagged-switch cases that
// gate the site on their true branch ("PrevoteType").
func hhCaseGates(f *engine.Fn, s *engine.Site) []string {
	var out []string
	info := f.Info()
	for _, gt := range f.Graph().Gates(s) {
		if hhIsBool(info, gt.Cond) || !gt.OnTrue {
			continue
		}
		if k, ok := engine.ObjOf(info, gt.Cond).(*types.Const); ok {
			out = append(out, k.Name())
		}
	}
	return out
}

// hhChain resolves a selector chain root.f1.f2… to its root object and the
// field names (embedded/anonymous fields are dropped, so cs.RoundState.Height
// and cs.Height render alike). ok is false for anything else.
func hhChain(info *types.Info, e ast.Expr) (root types.Object, fields []string, ok bool) {
	e = ast.Unparen(e)
	switch x := e.(type) {
	case *ast.Ident:
		o := info.ObjectOf(x)
		if o == nil {
			return nil, nil, false
		}
		return o, nil, true
	case *ast.StarExpr:
		return hhChain(info, x.X)
	case *ast.SelectorExpr:
		v, isVar := info.ObjectOf(x.Sel).(*types.Var)
		if !isVar || !v.IsField() {
			// package-qualified identifier
			if _, isPkg := info.ObjectOf(hhIdent(x.X)).(*types.PkgName); isPkg {
				o := info.ObjectOf(x.Sel)
				return o, nil, o != nil
			}
			return nil, nil, false
		}
		r, fs, ok := hhChain(info, x.X)
		if !ok {
			return nil, nil, false
		}
		if v.Embedded() {
			return r, fs, true
		}
		return r, append(fs, v.Name()), true
	}
	return nil, nil, false
}

func hhIdent(e ast.Expr) *ast.Ident {
	id, _ := ast.Unparen(e).(*ast.Ident)
	return id
}

// hhIsChain: e is root.fields… (root compared by object identity).
func hhIsChain(info *types.Info, e ast.Expr, root types.Object, fields ...string) bool {
	if root == nil || e == nil {
		return false
	}
	r, fs, ok := hhChain(info, e)
	if ok && r != root {
		// the root may be a local alias of the expected chain
		if e2, changed := hhResolveRoot(info, e); changed {
			return hhIsChain(info, e2, root, fields...)
		}
	}
	if !ok || r != root || len(fs) != len(fields) {
		return false
	}
	for i := range fs {
		if fs[i] != fields[i] {
			return false
		}
	}
	return true
}

// hhRecv returns the receiver object of a method declaration.
func hhRecv(f *engine.Fn) types.Object {
	r := f.Root()
	if r.Decl == nil || r.Decl.Recv == nil || len(r.Decl.Recv.List) == 0 || len(r.Decl.Recv.List[0].Names) == 0 {
		return nil
	}
	return r.Info().ObjectOf(r.Decl.Recv.List[0].Names[0])
}

// hhMethodCall: e is a call of a method named `name` (resolved callee must be
// a *types.Func of that name); returns the receiver expression and the call.
func hhMethodCall(info *types.Info, e ast.Expr, name string) (recv ast.Expr, call *ast.CallExpr, ok bool) {
	c, isCall := ast.Unparen(e).(*ast.CallExpr)
	if !isCall {
		return nil, nil, false
	}
	sel, isSel := ast.Unparen(c.Fun).(*ast.SelectorExpr)
	if !isSel || sel.Sel.Name != name {
		return nil, nil, false
	}
	if _, isFn := info.ObjectOf(sel.Sel).(*types.Func); !isFn {
		return nil, nil, false
	}
	return sel.X, c, true
}

// hhNilCmp recognises `x != nil` / `x == nil` (either side) and returns x and
// whether the comparison is "!= nil".
func hhNilCmp(e ast.Expr) (x ast.Expr, notNil bool, ok bool) {
	b, isb := ast.Unparen(e).(*ast.BinaryExpr)
	if !isb || (b.Op != token.EQL && b.Op != token.NEQ) {
		return nil, false, false
	}
	switch {
	case isNil(b.Y):
		return b.X, b.Op == token.NEQ, true
	case isNil(b.X):
		return b.Y, b.Op == token.NEQ, true
	}
	return nil, false, false
}

// hhKnownNonNil / hhKnownNil: the facts establish chain root.fields != nil (== nil).
func hhKnowsNil(info *types.Info, facts []hhFact, root types.Object, fields ...string) (known bool, nonNil bool) {
	for _, ft := range facts {
		x, notNil, ok := hhNilCmp(ft.E)
		if !ok || !hhIsChain(info, x, root, fields...) {
			continue
		}
		return true, notNil == ft.True
	}
	return false, false
}

// hhIdentFact: the facts contain the bare identifier obj with the given truth.
func hhIdentFact(info *types.Info, facts []hhFact, obj types.Object, truth bool) bool {
	if obj == nil {
		return false
	}
	for _, ft := range facts {
		if id := hhIdent(ft.E); id != nil && info.ObjectOf(id) == obj && ft.True == truth {
			return true
		}
	}
	return false
}

// hhLenZero recognises `len(X) == 0` / `len(X) != 0` / `0 == len(X)`; returns
// X and whether the atom says "is empty".
func hhLenZero(info *types.Info, e ast.Expr) (x ast.Expr, empty bool, ok bool) {
	b, isb := ast.Unparen(e).(*ast.BinaryExpr)
	if !isb || (b.Op != token.EQL && b.Op != token.NEQ) {
		return nil, false, false
	}
	l, z := b.X, b.Y
	if hhIsIntLit(info, l, 0) {
		l, z = z, l
	}
	if !hhIsIntLit(info, z, 0) {
		return nil, false, false
	}
	c, isc := ast.Unparen(l).(*ast.CallExpr)
	if !isc || len(c.Args) != 1 || !engine.IsBuiltinCall(info, c, "len") {
		return nil, false, false
	}
	return c.Args[0], b.Op == token.EQL, true
}

func hhIsIntLit(info *types.Info, e ast.Expr, v int64) bool {
	tv, ok := info.Types[e]
	if !ok || tv.Value == nil || tv.Value.Kind() != constant.Int {
		return false
	}
	n, exact := constant.Int64Val(tv.Value)
	return exact && n == v
}

// hhConstName returns the name of the constant e resolves to ("" otherwise).
func hhConstName(info *types.Info, e ast.Expr) string {
	if k, ok := engine.ObjOf(info, e).(*types.Const); ok {
		return k.Name()
	}
	return ""
}

// hhAssignsTo lists the assignment statements (and var specs / range clauses)
// in f's own body that assign the object.
func hhAssignsTo(f *engine.Fn, obj types.Object) []ast.Node {
	var out []ast.Node
	if obj != nil && f.Body != nil && !(f.Body.Pos() <= obj.Pos() && obj.Pos() < f.Body.End()) && !(f.Pos() <= obj.Pos() && obj.Pos() < f.Body.Pos()) {
		// a local of another function of the package (seen through an inlined helper)
		if g := f.Prog.EnclosingFn(f.Pkg.PkgPath, obj.Pos()); g != nil && g != f {
			return hhAssignsTo(g, obj)
		}
	}
	info := f.Info()
	engine.InspectBody(f, func(n ast.Node) {
		switch x := n.(type) {
		case *ast.AssignStmt:
			for _, l := range x.Lhs {
				if id := hhIdent(l); id != nil && info.ObjectOf(id) == obj {
					out = append(out, x)
				}
			}
		case *ast.ValueSpec:
			for _, id := range x.Names {
				if info.ObjectOf(id) == obj {
					out = append(out, x)
				}
			}
		case *ast.RangeStmt:
			for _, l := range []ast.Expr{x.Key, x.Value} {
				if id := hhIdent(l); id != nil && info.ObjectOf(id) == obj {
					out = append(out, x)
				}
			}
		case *ast.IncDecStmt:
			if id := hhIdent(x.X); id != nil && info.ObjectOf(id) == obj {
				out = append(out, x)
			}
		case *ast.UnaryExpr:
			if x.Op == token.AND {
				if id := hhIdent(x.X); id != nil && info.ObjectOf(id) == obj {
					out = append(out, x)
				}
			}
		}
	})
	return out
}

// hhSingleDef: obj is assigned exactly once in f (no re-binding, no &obj) and
// returns the defining statement together with the index of obj on its LHS.
func hhSingleDef(f *engine.Fn, obj types.Object) (*ast.AssignStmt, int) {
	as := hhAssignsTo(f, obj)
	if len(as) != 1 {
		return nil, -1
	}
	st, ok := as[0].(*ast.AssignStmt)
	if !ok {
		return nil, -1
	}
	for i, l := range st.Lhs {
		if id := hhIdent(l); id != nil && f.Info().ObjectOf(id) == obj {
			return st, i
		}
	}
	return nil, -1
}

// hhDefExpr returns the expression a singly-defined local is initialised from
// (only for 1:1 assignments), else nil.
func hhDefExpr(f *engine.Fn, obj types.Object) ast.Expr {
	if as := hhAssignsTo(f, obj); len(as) == 1 {
		if vs, ok := as[0].(*ast.ValueSpec); ok && len(vs.Values) == len(vs.Names) {
			for i, id := range vs.Names {
				if f.Info().ObjectOf(id) == obj {
					return vs.Values[i]
				}
			}
		}
	}
	st, i := hhSingleDef(f, obj)
	if st == nil || len(st.Lhs) != len(st.Rhs) {
		return nil
	}
	return st.Rhs[i]
}

// hhResultVars returns the LHS objects of the assignment whose single RHS is the call.
func hhResultVars(f *engine.Fn, s *engine.Site) []types.Object {
	st, ok := s.Top.(*ast.AssignStmt)
	if !ok || len(st.Rhs) != 1 || ast.Unparen(st.Rhs[0]) != ast.Expr(s.Call) {
		return nil
	}
	var out []types.Object
	for _, l := range st.Lhs {
		id := hhIdent(l)
		if id == nil || id.Name == "_" {
			out = append(out, nil)
			continue
		}
		out = append(out, f.Info().ObjectOf(id))
	}
	return out
}

// hhFieldAssign describes `root.fields… = rhs` statements.
type hhFieldAssign struct {
	Stmt   *ast.AssignStmt
	Fields []string
	Rhs    ast.Expr
	Site   *engine.Site
}

// hhFieldAssigns lists 1:1 assignments in f's body whose LHS is a selector
// chain rooted at root.
func hhFieldAssigns(f *engine.Fn, root types.Object) []hhFieldAssign {
	var out []hhFieldAssign
	info := f.Info()
	engine.InspectBody(f, func(n ast.Node) {
		st, ok := n.(*ast.AssignStmt)
		if !ok || len(st.Lhs) != len(st.Rhs) {
			return
		}
		for i, l := range st.Lhs {
			r, fs, ok := hhChain(info, l)
			if !ok || r != root || len(fs) == 0 {
				continue
			}
			out = append(out, hhFieldAssign{Stmt: st, Fields: fs, Rhs: st.Rhs[i], Site: f.SiteOf(st)})
		}
	})
	return out
}

// hhDominatingAssign: some assignment root.field = <rhs accepted by pred>
// dominates the site.
func hhDominatingAssign(f *engine.Fn, s *engine.Site, root types.Object, field string, pred func(ast.Expr) bool) bool {
	g := f.Graph()
	for _, a := range hhFieldAssigns(f, root) {
		if len(a.Fields) == 1 && a.Fields[0] == field && a.Site != nil && pred(a.Rhs) && g.Dominates(a.Site, s) {
			return true
		}
	}
	return false
}

// hhIsMinusOne: e is the constant -1.
func hhIsMinusOne(info *types.Info, e ast.Expr) bool { return hhIsIntLit(info, e, -1) }

// hhCmp recognises a binary comparison and returns it normalised so that the
// operator reads left-to-right with the given truth applied.
func hhCmp(ft hhFact) (x ast.Expr, op token.Token, y ast.Expr, ok bool) {
	b, isb := ast.Unparen(ft.E).(*ast.BinaryExpr)
	if !isb {
		return nil, 0, nil, false
	}
	switch b.Op {
	case token.LSS, token.LEQ, token.GTR, token.GEQ, token.EQL, token.NEQ:
	default:
		return nil, 0, nil, false
	}
	op = b.Op
	if !ft.True {
		op = engine.Negate(op)
	}
	return b.X, op, b.Y, true
}

// hhHasCmp: the facts contain  X op Y  (or the flipped  Y op' X) with X, Y
// accepted by the predicates.
func hhHasCmp(facts []hhFact, op token.Token, px, py func(ast.Expr) bool) bool {
	for _, ft := range facts {
		x, o, y, ok := hhCmp(ft)
		if !ok {
			continue
		}
		if o == op && px(x) && py(y) {
			return true
		}
		if engine.Flip(o) == op && px(y) && py(x) {
			return true
		}
	}
	return false
}

// hhSetEq compares two string sets; returns extra (in got, not allowed) and missing.
func hhExtra(got, allowed []string) []string {
	e := engine.SetDiff(got, allowed)
	sort.Strings(e)
	return e
}

// hhCallArgIs: the i-th argument of the call is accepted by pred.
func hhArg(c *ast.CallExpr, i int) ast.Expr {
	if c == nil || i >= len(c.Args) {
		return nil
	}
	return c.Args[i]
}

// hhRender renders an expression compactly for keys.
func hhRender(e ast.Expr) string {
	if e == nil {
		return "<nil>"
	}
	s := engine.ExprString(e)
	s = strings.Join(strings.Fields(s), " ")
	if len(s) > 60 {
		s = s[:60] + "…"
	}
	return s
}

// hhPkgFuncs filters names by package prefix.
func hhWithPrefix(xs []string, prefix string) []string {
	var out []string
	for _, x := range xs {
		if strings.HasPrefix(x, prefix) {
			out = append(out, x)
		}
	}
	return out
}

// hhCalleeIs reports whether the site's resolved callee matches.
func hhCalleeIs(s *engine.Site, pats ...string) bool {
	return s != nil && engine.MatchName(s.CalleeName(), pats...)
}

// hhErrGuard: the result of guard call `gs` (an error) gates target so that
// the target is reached only when the error is nil. Recognises
// `if err := G(); err != nil { leave }` and `err := G(); if err != nil {…}`.
func hhErrGuard(f *engine.Fn, gs, target *engine.Site) (bool, string) {
	g := f.Graph()
	r := g.CheckedGuard(gs, target)
	if !r.OK {
		return false, r.Why
	}
	var facts []hhFact
	hhSplit(r.Cond, r.OnTrue, &facts)
	for _, ft := range facts {
		if _, notNil, ok := hhNilCmp(ft.E); ok {
			if notNil != ft.True {
				return true, "reached only when the returned error is nil"
			}
			return false, "target is reached when the error is non-nil"
		}
	}
	return false, "guard result is tested by `" + engine.ExprString(r.Cond) + "`, not by a nil comparison"
}

// hhBoolGuard: the boolean result of guard call gs gates the target with the
// given polarity (want=true: target reached only when the call returned true).
func hhBoolGuard(f *engine.Fn, gs, target *engine.Site, want bool) (bool, string) {
	g := f.Graph()
	r := g.CheckedGuard(gs, target)
	if !r.OK {
		return false, r.Why
	}
	var facts []hhFact
	hhSplit(r.Cond, r.OnTrue, &facts)
	vars := hhResultVars(f, gs)
	for _, ft := range facts {
		e := ast.Unparen(ft.E)
		if e == ast.Expr(gs.Call) {
			if ft.True == want {
				return true, "ok"
			}
			return false, "target reached on the opposite verdict of the guard"
		}
		if id := hhIdent(e); id != nil {
			for _, v := range vars {
				if v != nil && f.Info().ObjectOf(id) == v {
					if ft.True == want {
						return true, "ok"
					}
					return false, "target reached on the opposite verdict of the guard"
				}
			}
		}
	}
	return false, "guard verdict is not tested as a plain boolean in `" + engine.ExprString(r.Cond) + "`"
}

// hhWholeWrites lists the root functions that assign a whole value of the
// named struct type to something other than a plain local variable
// (x.f = T{…}, *p = v, a[i] = v).
func hhWholeWrites(p *engine.Prog, n *types.Named) []string {
	m := map[string]bool{}
	for _, f := range p.Funcs() {
		info := f.Info()
		engine.InspectBody(f, func(x ast.Node) {
			as, ok := x.(*ast.AssignStmt)
			if !ok {
				return
			}
			for _, l := range as.Lhs {
				t := info.TypeOf(l)
				if t == nil || !types.Identical(t, n) {
					continue
				}
				if id := hhIdent(l); id != nil {
					if v, isVar := info.ObjectOf(id).(*types.Var); isVar && !v.IsField() && v.Parent() != v.Pkg().Scope() {
						continue // local copy
					}
					if id.Name == "_" {
						continue
					}
				}
				m[f.Root().Name] = true
			}
		})
	}
	return engine.SortedKeys(m)
}

// hhNorm renders an expression structurally with resolved symbols: selector
// chains are printed from their root (roots listed in names are printed under
// the given role name, embedded fields dropped), singly-defined locals of f are
// replaced by their defining expression (depth-limited), calls by the
// rendered callee and arguments. Two expressions with the same hhNorm denote
// the same computation on the same objects, whatever the local names are.
func hhNorm(f *engine.Fn, e ast.Expr, names map[types.Object]string, depth int) string {
	info := f.Info()
	e = ast.Unparen(e)
	if st, isStar := e.(*ast.StarExpr); isStar {
		return "*" + hhNorm(f, st.X, names, depth)
	}
	if r, fs, ok := hhChain(info, e); ok {
		if nm, known := names[r]; known {
			return strings.Join(append([]string{nm}, fs...), ".")
		}
		if len(fs) == 0 {
			switch o := r.(type) {
			case *types.Var:
				if o.Pkg() != nil && o.Parent() == o.Pkg().Scope() {
					return engine.Rel(o.Pkg().Path()) + "." + o.Name()
				}
				if !o.IsField() && depth > 0 {
					if d := hhDefExpr(f, o); d != nil {
						return hhNorm(f, d, names, depth-1)
					}
				}
				return "?" + o.Name()
			case *types.Const:
				return o.Name()
			case *types.Nil:
				return "nil"
			case *types.Func:
				return engine.FuncName(o)
			case *types.TypeName:
				return o.Name()
			case *types.Builtin:
				return o.Name()
			}
		}
		if v, isVar := r.(*types.Var); isVar && !v.IsField() && depth > 0 {
			if d := hhDefExpr(f, v); d != nil {
				return strings.Join(append([]string{hhNorm(f, d, names, depth-1)}, fs...), ".")
			}
		}
		return strings.Join(append([]string{"?" + r.Name()}, fs...), ".")
	}
	switch x := e.(type) {
	case *ast.BasicLit:
		return x.Value
	case *ast.BinaryExpr:
		return hhNorm(f, x.X, names, depth) + " " + x.Op.String() + " " + hhNorm(f, x.Y, names, depth)
	case *ast.UnaryExpr:
		return x.Op.String() + hhNorm(f, x.X, names, depth)
	case *ast.StarExpr:
		return "*" + hhNorm(f, x.X, names, depth)
	case *ast.IndexExpr:
		return hhNorm(f, x.X, names, depth) + "[" + hhNorm(f, x.Index, names, depth) + "]"
	case *ast.CallExpr:
		if n, ok := hhInlineCall(f, x, 3); ok {
			return hhNorm(f, n, names, depth)
		}
		var args []string
		for _, a := range x.Args {
			args = append(args, hhNorm(f, a, names, depth))
		}
		fun := ""
		if sel, ok := ast.Unparen(x.Fun).(*ast.SelectorExpr); ok {
			if fn, isFn := info.ObjectOf(sel.Sel).(*types.Func); isFn {
				if sig, _ := fn.Type().(*types.Signature); sig != nil && sig.Recv() != nil {
					fun = hhNorm(f, sel.X, names, depth) + "." + fn.Name()
				} else {
					fun = engine.FuncName(fn)
				}
			}
		}
		if fun == "" {
			fun = hhNorm(f, x.Fun, names, depth)
		}
		return fun + "(" + strings.Join(args, ", ") + ")"
	case *ast.SelectorExpr:
		return hhNorm(f, x.X, names, depth) + "." + x.Sel.Name
	case *ast.CompositeLit:
		var els []string
		for _, el := range x.Elts {
			if kv, ok := el.(*ast.KeyValueExpr); ok {
				k := engine.ExprString(kv.Key)
				els = append(els, k+": "+hhNorm(f, kv.Value, names, depth))
			} else {
				els = append(els, hhNorm(f, el, names, depth))
			}
		}
		t := ""
		if tt := info.TypeOf(x); tt != nil {
			t = engine.TypeName(tt)
		}
		return t + "{" + strings.Join(els, ", ") + "}"
	}
	return "?" + engine.ExprString(e)
}

// hhReach returns the declared functions of the given packages (module-relative
// paths) reachable through statically resolved calls from the roots.
func hhReach(p *engine.Prog, roots []*engine.Fn, pkgs ...string) []*engine.Fn {
	in := map[string]bool{}
	for _, k := range pkgs {
		in[engine.ModPrefix+k] = true
	}
	seen := map[*engine.Fn]bool{}
	var out []*engine.Fn
	var visit func(f *engine.Fn)
	visit = func(f *engine.Fn) {
		if f == nil || seen[f] || !in[f.Pkg.PkgPath] {
			return
		}
		seen[f] = true
		out = append(out, f)
		fs := append([]*engine.Fn{f}, f.AllLits()...)
		for _, x := range fs {
			for _, s := range x.Calls() {
				if fn, ok := s.Callee.(*types.Func); ok {
					visit(p.FnOf(fn))
				}
			}
		}
	}
	for _, r := range roots {
		visit(r)
	}
	sort.Slice(out, func(i, j int) bool { return out[i].Name < out[j].Name })
	return out
}

// hhFieldDerefs lists the field selections v.f in f's body (not nested
// literals) whose base is the identifier obj.
func hhFieldDerefs(f *engine.Fn, obj types.Object) []*ast.SelectorExpr {
	var out []*ast.SelectorExpr
	info := f.Info()
	engine.InspectBody(f, func(n ast.Node) {
		sel, ok := n.(*ast.SelectorExpr)
		if !ok {
			return
		}
		id := hhIdent(sel.X)
		if id == nil || info.ObjectOf(id) != obj {
			return
		}
		if s := info.Selections[sel]; s != nil && s.Kind() == types.FieldVal {
			out = append(out, sel)
		}
	})
	return out
}

// hhEnclosingRange returns the innermost range statement of f whose body contains n.
func hhEnclosingRange(f *engine.Fn, n ast.Node) *ast.RangeStmt {
	var best *ast.RangeStmt
	engine.InspectBody(f, func(x ast.Node) {
		if rs, ok := x.(*ast.RangeStmt); ok && rs.Body.Pos() <= n.Pos() && n.End() <= rs.Body.End() {
			if best == nil || best.Body.Pos() <= rs.Body.Pos() {
				best = rs
			}
		}
	})
	return best
}

// hhSameChain: two expressions are the same selector chain on the same root.
func hhSameChain(info *types.Info, a, b ast.Expr) bool {
	ra, fa, oka := hhChain(info, a)
	rb, fb, okb := hhChain(info, b)
	if !oka || !okb || ra != rb || len(fa) != len(fb) {
		return false
	}
	for i := range fa {
		if fa[i] != fb[i] {
			return false
		}
	}
	return true
}

// hhSufficient lists the atoms each of which, on its own, sends control to
// site s: for every gate of s, the condition is decomposed the other way
// round than hhSplit — (A || B) true / (A && B) false yield each operand, a
// conjunction that must hold as a whole yields nothing (the atom alone is not
// sufficient: the test has been weakened by the other conjuncts).
func hhSufficient(f *engine.Fn, s *engine.Site) []hhFact {
	var out []hhFact
	if s == nil {
		return nil
	}
	info := f.Info()
	var rec func(e ast.Expr, truth bool)
	rec = func(e ast.Expr, truth bool) {
		e = ast.Unparen(e)
		switch x := e.(type) {
		case *ast.UnaryExpr:
			if x.Op == token.NOT {
				rec(x.X, !truth)
				return
			}
		case *ast.BinaryExpr:
			if (x.Op == token.LOR && truth) || (x.Op == token.LAND && !truth) {
				rec(x.X, truth)
				rec(x.Y, truth)
				return
			}
			if x.Op == token.LOR || x.Op == token.LAND {
				return
			}
		}
		if n, ok := hhInlineCall(f, e, 3); ok {
			rec(n, truth)
			return
		}
		out = append(out, hhFact{e, truth})
	}
	for _, gt := range f.Graph().Gates(s) {
		if hhIsBool(info, gt.Cond) {
			rec(gt.Cond, gt.OnTrue)
		}
	}
	return out
}

// hhCtx renders the facts gating a site as sorted normalised strings
// ("x < y", "!f(a)", "ok").
func hhCtx(f *engine.Fn, s *engine.Site, names map[types.Object]string, depth int) []string {
	return hhRenderFacts(f, hhFacts(f, s), names, depth)
}

// hhRenderFacts renders facts (already in f's terms) as sorted, de-duplicated strings.
func hhRenderFacts(f *engine.Fn, facts []hhFact, names map[types.Object]string, depth int) []string {
	var xs []string
	seen := map[string]bool{}
	defer func() {}()
	for _, ft := range facts {
		if x, op, y, isCmp := hhCmp(ft); isCmp {
			xs = append(xs, hhNorm(f, x, names, depth)+" "+op.String()+" "+hhNorm(f, y, names, depth))
			continue
		}
		t := hhNorm(f, ft.E, names, depth)
		if !ft.True {
			t = "!" + t
		}
		xs = append(xs, t)
	}
	sort.Strings(xs)
	_ = seen
	return xs
}

// hhExit is one way a function leaves: the returned expressions and the
// facts under which that happens, in the root function's terms. Exits that
// return the call of an unexported same-package helper are expanded into the
// helper's own exits.
type hhExit struct {
	Results []ast.Expr
	Facts   []hhFact
	Pos     token.Pos
}

func hhExits(fn *engine.Fn, depth int) []hhExit {
	var out []hhExit
	for _, rb := range fn.Graph().ReturnBlocks() {
		ret := rb.Return()
		rs := fn.SiteOf(ret)
		if ret == nil || rs == nil {
			continue
		}
		facts := hhFacts(fn, rs)
		if len(ret.Results) == 1 && depth > 0 {
			if call, ok := ast.Unparen(ret.Results[0]).(*ast.CallExpr); ok {
				if h := hhCalleeFn(fn, call); h != nil && h.Obj != nil && !h.Obj.Exported() {
					bind := hhBind(h, call)
					for _, ex := range hhExits(h, depth-1) {
						e2 := hhExit{Pos: ret.Pos()}
						for _, r := range ex.Results {
							e2.Results = append(e2.Results, hhIntoCaller(h, bind, r))
						}
						e2.Facts = append(e2.Facts, facts...)
						for _, ft := range ex.Facts {
							e2.Facts = append(e2.Facts, hhFact{hhIntoCaller(h, bind, ft.E), ft.True})
						}
						out = append(out, e2)
					}
					continue
				}
			}
		}
		out = append(out, hhExit{Results: ret.Results, Facts: facts, Pos: ret.Pos()})
	}
	return out
}

// hhSortedJoin sorts a "; "-separated list.
func hhSortedJoin(s string) string {
	xs := strings.Split(s, "; ")
	sort.Strings(xs)
	return strings.Join(xs, "; ")
}

// ======================================================================
// Helper transparency (robustness against extract/inline-helper refactors)
// ======================================================================
//
// All functions of one package share one types.Info, so an expression of a
// same-package helper can be rewritten into the caller's terms by substituting
// the helper's parameters (and receiver) by the argument expressions of the
// call: the result is an ordinary ast.Expr whose identifiers still resolve.

// hhSubst clones e, replacing identifiers resolving to keys of m. Unchanged
// sub-trees keep their identity (so info.Types still knows them).
func hhSubst(info *types.Info, e ast.Expr, m map[types.Object]ast.Expr) ast.Expr {
	if e == nil || len(m) == 0 {
		return e
	}
	switch x := e.(type) {
	case *ast.Ident:
		if o := info.ObjectOf(x); o != nil {
			if r, ok := m[o]; ok {
				return r
			}
		}
		return x
	case *ast.ParenExpr:
		if n := hhSubst(info, x.X, m); n != x.X {
			return &ast.ParenExpr{Lparen: x.Lparen, X: n, Rparen: x.Rparen}
		}
	case *ast.SelectorExpr:
		if n := hhSubst(info, x.X, m); n != x.X {
			return &ast.SelectorExpr{X: n, Sel: x.Sel}
		}
	case *ast.StarExpr:
		if n := hhSubst(info, x.X, m); n != x.X {
			return &ast.StarExpr{Star: x.Star, X: n}
		}
	case *ast.UnaryExpr:
		if n := hhSubst(info, x.X, m); n != x.X {
			return &ast.UnaryExpr{OpPos: x.OpPos, Op: x.Op, X: n}
		}
	case *ast.BinaryExpr:
		a, b := hhSubst(info, x.X, m), hhSubst(info, x.Y, m)
		if a != x.X || b != x.Y {
			return &ast.BinaryExpr{X: a, OpPos: x.OpPos, Op: x.Op, Y: b}
		}
	case *ast.IndexExpr:
		a, b := hhSubst(info, x.X, m), hhSubst(info, x.Index, m)
		if a != x.X || b != x.Index {
			return &ast.IndexExpr{X: a, Lbrack: x.Lbrack, Index: b, Rbrack: x.Rbrack}
		}
	case *ast.SliceExpr:
		a, l, h, mx := hhSubst(info, x.X, m), hhSubst(info, x.Low, m), hhSubst(info, x.High, m), hhSubst(info, x.Max, m)
		if a != x.X || l != x.Low || h != x.High || mx != x.Max {
			return &ast.SliceExpr{X: a, Lbrack: x.Lbrack, Low: l, High: h, Max: mx, Slice3: x.Slice3, Rbrack: x.Rbrack}
		}
	case *ast.TypeAssertExpr:
		if n := hhSubst(info, x.X, m); n != x.X {
			return &ast.TypeAssertExpr{X: n, Lparen: x.Lparen, Type: x.Type, Rparen: x.Rparen}
		}
	case *ast.KeyValueExpr:
		if n := hhSubst(info, x.Value, m); n != x.Value {
			return &ast.KeyValueExpr{Key: x.Key, Colon: x.Colon, Value: n}
		}
	case *ast.CompositeLit:
		changed := false
		els := make([]ast.Expr, len(x.Elts))
		for i, el := range x.Elts {
			els[i] = hhSubst(info, el, m)
			if els[i] != el {
				changed = true
			}
		}
		if changed {
			return &ast.CompositeLit{Type: x.Type, Lbrace: x.Lbrace, Elts: els, Rbrace: x.Rbrace}
		}
	case *ast.CallExpr:
		changed := false
		fun := hhSubst(info, x.Fun, m)
		if fun != x.Fun {
			changed = true
		}
		args := make([]ast.Expr, len(x.Args))
		for i, a := range x.Args {
			args[i] = hhSubst(info, a, m)
			if args[i] != a {
				changed = true
			}
		}
		if changed {
			return &ast.CallExpr{Fun: fun, Lparen: x.Lparen, Args: args, Ellipsis: x.Ellipsis, Rparen: x.Rparen}
		}
	}
	return e
}

// hhCalleeFn returns the same-package function (with body) a call resolves to.
func hhCalleeFn(f *engine.Fn, call *ast.CallExpr) *engine.Fn {
	var id *ast.Ident
	switch x := ast.Unparen(call.Fun).(type) {
	case *ast.Ident:
		id = x
	case *ast.SelectorExpr:
		id = x.Sel
	}
	if id == nil {
		return nil
	}
	fn, ok := f.Info().ObjectOf(id).(*types.Func)
	if !ok {
		return nil
	}
	h := f.Prog.FnOf(fn)
	if h == nil || h.Pkg != f.Pkg || h.Decl == nil {
		return nil
	}
	if sig, _ := fn.Type().(*types.Signature); sig != nil && sig.Recv() != nil {
		if _, isIface := sig.Recv().Type().Underlying().(*types.Interface); isIface {
			return nil
		}
	}
	return h
}

// hhBind maps the parameters (and receiver) of helper h to the argument
// expressions of the call (already expressed in the caller's terms).
func hhBind(h *engine.Fn, call *ast.CallExpr) map[types.Object]ast.Expr {
	m := map[types.Object]ast.Expr{}
	info := h.Info()
	if h.Decl.Recv != nil && len(h.Decl.Recv.List) == 1 && len(h.Decl.Recv.List[0].Names) == 1 {
		if sel, ok := ast.Unparen(call.Fun).(*ast.SelectorExpr); ok {
			if o := info.ObjectOf(h.Decl.Recv.List[0].Names[0]); o != nil {
				m[o] = sel.X
			}
		}
	}
	i := 0
	for _, fld := range h.Decl.Type.Params.List {
		for _, nm := range fld.Names {
			if i < len(call.Args) {
				if o := info.ObjectOf(nm); o != nil {
					m[o] = call.Args[i]
				}
			}
			i++
		}
	}
	return m
}

// hhExprHelper recognises a helper whose body is straight-line single
// definitions followed by one `return expr`; it returns that expression with
// the locals substituted (still in the helper's parameters).
func hhExprHelper(h *engine.Fn) (ast.Expr, bool) {
	if h == nil || h.Body == nil || len(h.Body.List) == 0 || len(h.Body.List) > 6 {
		return nil, false
	}
	info := h.Info()
	loc := map[types.Object]ast.Expr{}
	for i, st := range h.Body.List {
		last := i == len(h.Body.List)-1
		switch s := st.(type) {
		case *ast.AssignStmt:
			if last || s.Tok != token.DEFINE || len(s.Lhs) != len(s.Rhs) {
				return nil, false
			}
			for j, l := range s.Lhs {
				id := hhIdent(l)
				if id == nil {
					return nil, false
				}
				loc[info.ObjectOf(id)] = hhSubst(info, s.Rhs[j], loc)
			}
		case *ast.ReturnStmt:
			if !last || len(s.Results) != 1 {
				return nil, false
			}
			return hhSubst(info, s.Results[0], loc), true
		default:
			return nil, false
		}
	}
	return nil, false
}

// hhInlineCall rewrites a call of an expression-like same-package helper into
// the helper's result expression in the caller's terms.
func hhInlineCall(f *engine.Fn, e ast.Expr, depth int) (ast.Expr, bool) {
	call, ok := ast.Unparen(e).(*ast.CallExpr)
	if !ok || depth <= 0 {
		return e, false
	}
	h := hhCalleeFn(f, call)
	if h == nil {
		return e, false
	}
	if h.Obj == nil || h.Obj.Exported() {
		return e, false // exported functions are vocabulary, not refactoring artefacts
	}
	ret, ok := hhExprHelper(h)
	if !ok {
		return e, false
	}
	out := hhSubst(f.Info(), ret, hhBind(h, call))
	if n, ok2 := hhInlineCall(f, out, depth-1); ok2 {
		out = n
	}
	return out, true
}

// hhSplitF is hhSplit that additionally looks through expression-like helper
// calls (`if !signedBy(v, c, i)` is the helper's returned condition).
func hhSplitF(f *engine.Fn, e ast.Expr, truth bool, out *[]hhFact) {
	var tmp []hhFact
	hhSplit(e, truth, &tmp)
	for _, ft := range tmp {
		if n, ok := hhInlineCall(f, ft.E, 3); ok {
			hhSplitF(f, n, ft.True, out)
			continue
		}
		// a boolean local defined once by a compound condition
		// (`crossed := a < q && q <= b; if crossed && …`)
		if id := hhIdent(ft.E); id != nil {
			if v, isVar := f.Info().ObjectOf(id).(*types.Var); isVar && !v.IsField() && v.Pkg() != nil && v.Parent() != v.Pkg().Scope() {
				if d := hhDefExpr(f, v); d != nil {
					switch dx := ast.Unparen(d).(type) {
					case *ast.BinaryExpr:
						switch dx.Op {
						case token.LAND, token.LOR, token.EQL, token.NEQ, token.LSS, token.LEQ, token.GTR, token.GEQ:
							hhSplitF(f, d, ft.True, out)
							continue
						}
					case *ast.UnaryExpr:
						if dx.Op == token.NOT {
							hhSplitF(f, d, ft.True, out)
							continue
						}
					}
				}
			}
		}
		*out = append(*out, ft)
	}
}

// hhSuccessFacts: the facts established by "the call returned a nil error",
// for a same-package helper with exactly one `return …, nil` exit: the facts
// gating that exit, in the caller's terms.
func hhSuccessFacts(f *engine.Fn, call *ast.CallExpr, depth int) []hhFact {
	if depth <= 0 {
		return nil
	}
	h := hhCalleeFn(f, call)
	if h == nil {
		return nil
	}
	var nilRets []*ast.ReturnStmt
	bad := false
	for _, rb := range h.Graph().ReturnBlocks() {
		r := rb.Return()
		if r == nil || len(r.Results) == 0 {
			bad = true
			continue
		}
		if isNil(r.Results[len(r.Results)-1]) {
			nilRets = append(nilRets, r)
		}
	}
	if bad || len(nilRets) != 1 {
		return nil
	}
	rs := h.SiteOf(nilRets[0])
	if rs == nil {
		return nil
	}
	m := hhBind(h, call)
	var out []hhFact
	for _, ft := range hhFactsD(h, rs, depth-1) {
		out = append(out, hhFact{hhSubst(h.Info(), ft.E, m), ft.True})
	}
	return out
}

// hhErrSource finds the call whose error result the identifier in a nil
// comparison holds at the gate: the assignment of that variable from a call
// that dominates the gate with no other assignment in between.
func hhErrSource(f *engine.Fn, v types.Object, gate *hhCfgBlock) *ast.CallExpr {
	g := f.Graph()
	var best *engine.Site
	var bestCall *ast.CallExpr
	for _, a := range hhAssignsTo(f, v) {
		as, ok := a.(*ast.AssignStmt)
		if !ok || len(as.Rhs) != 1 {
			continue
		}
		call, ok := ast.Unparen(as.Rhs[0]).(*ast.CallExpr)
		if !ok {
			continue
		}
		s := f.SiteOf(as)
		if s == nil || !(s.Block == gate || g.BlockDominates(s.Block, gate)) {
			continue
		}
		if best == nil || g.Dominates(best, s) {
			best, bestCall = s, call
		}
	}
	if best == nil {
		return nil
	}
	// no later assignment between best and the gate
	for _, a := range hhAssignsTo(f, v) {
		s := f.SiteOf(a)
		if s == nil || s == best || s.Node == best.Node {
			continue
		}
		if g.Dominates(best, s) && (s.Block == gate || g.BlockDominates(s.Block, gate)) {
			return nil
		}
	}
	return bestCall
}

// hhFactsD is hhFacts with helper transparency: helper-call atoms are
// inlined, and `err == nil` facts about a same-package helper contribute the
// facts of the helper's single success exit.
func hhFactsD(f *engine.Fn, s *engine.Site, depth int) []hhFact {
	var out []hhFact
	if s == nil {
		return nil
	}
	info := f.Info()
	for _, gt := range f.Graph().Gates(s) {
		if !hhIsBool(info, gt.Cond) {
			continue
		}
		var fs []hhFact
		hhSplitF(f, gt.Cond, gt.OnTrue, &fs)
		out = append(out, fs...)
		if depth <= 0 {
			continue
		}
		for _, ft := range fs {
			x, notNil, ok := hhNilCmp(ft.E)
			if !ok || notNil == ft.True { // only "== nil" facts
				continue
			}
			var call *ast.CallExpr
			if c, isCall := ast.Unparen(x).(*ast.CallExpr); isCall {
				call = c
			} else if id := hhIdent(x); id != nil {
				call = hhErrSource(f, info.ObjectOf(id), gt.Block)
			}
			if call != nil {
				out = append(out, hhSuccessFacts(f, call, depth)...)
			}
		}
	}
	return out
}

// hhDeepCalls: calls matching pats made by f directly or through in-program helpers.
func hhDeepCalls(f *engine.Fn, pats ...string) []engine.DeepSite {
	var out []engine.DeepSite
	for _, d := range f.DeepCallsTo(3, pats...) {
		if !hhChainStopped(d) {
			out = append(out, d)
		}
	}
	return out
}

// hhDeepMap returns the substitution that rewrites expressions of the
// function containing d.Inner into the terms of d.Outer's function.
func hhDeepMap(d engine.DeepSite) func(ast.Expr) ast.Expr {
	if d.Inner == d.Outer || len(d.Chain) == 0 {
		return func(e ast.Expr) ast.Expr { return e }
	}
	// compose level by level
	type level struct {
		h *engine.Fn
		m map[types.Object]ast.Expr
	}
	var levels []level
	call := d.Outer.Call
	for i, h := range d.Chain {
		m := hhBind(h, call)
		// arguments of this level are in the previous helper's terms: rewrite them
		for k, v := range m {
			for j := len(levels) - 1; j >= 0; j-- {
				v = hhSubst(levels[j].h.Info(), v, levels[j].m)
			}
			m[k] = v
		}
		levels = append(levels, level{h, m})
		if i+1 < len(d.Chain) {
			next := d.Chain[i+1]
			call = nil
			for _, s := range h.Calls() {
				if fn, _ := s.Callee.(*types.Func); fn != nil && h.Prog.FnOf(fn) == next {
					call = s.Call
				}
			}
			if call == nil {
				break
			}
		}
	}
	return func(e ast.Expr) ast.Expr {
		if len(levels) == 0 {
			return e
		}
		l := levels[len(levels)-1]
		return hhIntoCaller(l.h, l.m, e)
	}
}

// hhLevels lists, outermost first, the (function, site) pairs of a deep site:
// (f, call of helper1), (helper1, call of helper2), …, (helperN, inner site).
type hhLevel struct {
	Fn   *engine.Fn
	Site *engine.Site
}

func hhLevels(f *engine.Fn, d engine.DeepSite) []hhLevel {
	out := []hhLevel{{f, d.Outer}}
	if d.Inner == d.Outer {
		return out
	}
	for i, h := range d.Chain {
		var at *engine.Site
		if i == len(d.Chain)-1 {
			at = d.Inner
		} else {
			for _, s := range h.Calls() {
				if fn, _ := s.Callee.(*types.Func); fn != nil && h.Prog.FnOf(fn) == d.Chain[i+1] {
					at = s
				}
			}
		}
		if at == nil {
			return out
		}
		out = append(out, hhLevel{h, at})
	}
	return out
}

// hhErrReturned: in fn, a non-nil error of the call at site s leaves fn
// through a return of a non-nil last result.
func hhErrReturned(fn *engine.Fn, s *engine.Site) bool {
	for _, rb := range fn.Graph().ReturnBlocks() {
		ret := rb.Return()
		if ret == nil || len(ret.Results) == 0 || isNil(ret.Results[len(ret.Results)-1]) {
			continue
		}
		if ast.Unparen(ret.Results[len(ret.Results)-1]) == ast.Expr(s.Call) {
			return true // return call(...)
		}
		rs := fn.SiteOf(ret)
		if rs == nil {
			continue
		}
		if ok, _ := hhErrGuardInv(fn, s, rs); ok {
			return true
		}
	}
	return false
}

// hhDescend: while every deep site in the given groups is reached through one
// and the same helper call of f, continue the analysis inside that helper.
func hhDescend(f *engine.Fn, pats ...[]string) *engine.Fn {
	for depth := 0; depth < 3; depth++ {
		var common *engine.Fn
		var outer *engine.Site
		ok := true
		n := 0
		for _, ps := range pats {
			for _, d := range hhDeepCalls(f, ps...) {
				n++
				if d.Inner == d.Outer || len(d.Chain) == 0 {
					ok = false
					continue
				}
				if common == nil {
					common, outer = d.Chain[0], d.Outer
				} else if common != d.Chain[0] || outer != d.Outer {
					ok = false
				}
			}
		}
		if !ok || common == nil || n == 0 {
			return f
		}
		f = common
	}
	return f
}

// hhDeepFacts: facts at the outer site plus the facts gating the inner site
// inside the helpers, rewritten into the outer function's terms.
func hhDeepFacts(f *engine.Fn, d engine.DeepSite) []hhFact {
	out := hhFacts(f, d.Outer)
	if d.Inner == d.Outer || len(d.Chain) == 0 {
		return out
	}
	// per level: facts at the call of the next helper (or the inner site)
	call := d.Outer.Call
	var maps []struct {
		h *engine.Fn
		m map[types.Object]ast.Expr
	}
	for i, h := range d.Chain {
		m := hhBind(h, call)
		for k, v := range m {
			for j := len(maps) - 1; j >= 0; j-- {
				v = hhSubst(maps[j].h.Info(), v, maps[j].m)
			}
			m[k] = v
		}
		maps = append(maps, struct {
			h *engine.Fn
			m map[types.Object]ast.Expr
		}{h, m})
		var at *engine.Site
		if i == len(d.Chain)-1 {
			at = d.Inner
		} else {
			for _, s := range h.Calls() {
				if fn, _ := s.Callee.(*types.Func); fn != nil && h.Prog.FnOf(fn) == d.Chain[i+1] {
					at = s
				}
			}
		}
		if at == nil {
			break
		}
		for _, ft := range hhFacts(h, at) {
			out = append(out, hhFact{hhSubst(h.Info(), ft.E, m), ft.True})
		}
		call = at.Call
	}
	return out
}

// hhDeepArg returns the i-th argument of the inner call in the outer function's terms.
func hhDeepArg(d engine.DeepSite, i int) ast.Expr {
	a := hhArg(d.Inner.Call, i)
	if a == nil {
		return nil
	}
	return hhDeepMap(d)(a)
}

// hhDeepRecv returns the receiver expression of the inner method call in the
// outer function's terms.
func hhDeepRecv(d engine.DeepSite) ast.Expr {
	sel, ok := ast.Unparen(d.Inner.Call.Fun).(*ast.SelectorExpr)
	if !ok {
		return nil
	}
	return hhDeepMap(d)(sel.X)
}

// hhDeepErrGuard: target (a site of f) is reached only when the deep call
// returned a nil error. Directly: hhErrGuard. Through helpers: the call of the
// outermost helper error-guards the target, and inside each helper every exit
// with a nil error is itself error-guarded by the next call on the chain
// (other exits must return that call's error or a non-nil error).
func hhDeepErrGuard(f *engine.Fn, d engine.DeepSite, target *engine.Site) (bool, string) {
	if ok, why := hhErrGuard(f, d.Outer, target); !ok {
		return false, why
	}
	if d.Inner == d.Outer {
		return true, "reached only when the returned error is nil"
	}
	for i, h := range d.Chain {
		var at *engine.Site
		if i == len(d.Chain)-1 {
			at = d.Inner
		} else {
			for _, s := range h.Calls() {
				if fn, _ := s.Callee.(*types.Func); fn != nil && h.Prog.FnOf(fn) == d.Chain[i+1] {
					at = s
				}
			}
		}
		if at == nil {
			return false, "helper chain not resolvable"
		}
		info := h.Info()
		n := 0
		for _, rb := range h.Graph().ReturnBlocks() {
			r := rb.Return()
			if r == nil || len(r.Results) == 0 {
				return false, "helper " + h.Name + " has a bare return"
			}
			last := r.Results[len(r.Results)-1]
			if ast.Unparen(last) == ast.Expr(at.Call) {
				continue // return inner(...)
			}
			rs := h.SiteOf(r)
			if isNil(last) {
				n++
				if ok, why := hhErrGuard(h, at, rs); !ok {
					return false, "helper " + h.Name + " can report success although the call failed: " + why
				}
				continue
			}
			// `return err` of the call under err != nil, or any explicit non-nil error value
			if id := hhIdent(last); id != nil {
				if _, isVar := info.ObjectOf(id).(*types.Var); isVar {
					rv := hhResultVars(h, at)
					isErrVar := false
					for _, v := range rv {
						if v != nil && v == info.ObjectOf(id) {
							isErrVar = true
						}
					}
					if isErrVar {
						continue
					}
					if v := info.ObjectOf(id).(*types.Var); v.Parent() == v.Pkg().Scope() {
						continue // package-level error value
					}
					// another error known to be non-nil here (`if err := g(); err != nil { return err }`)
					if k, nn := hhKnowsNil(info, hhFactsD(h, rs, 0), info.ObjectOf(id)); k && nn {
						continue
					}
					return false, "helper " + h.Name + " returns an unrelated error variable"
				}
			}
		}
		_ = n
	}
	return true, "reached only when the (helper-wrapped) call succeeded"
}

// hhDeepAssign is a field assignment `root.fields… = rhs` made by f directly
// or inside a same-program helper, expressed in f's terms.
type hhDeepAssign struct {
	Fields []string
	Rhs    ast.Expr // in f's terms
	Lhs    ast.Expr
	D      engine.DeepSite
	Stmt   *ast.AssignStmt
}

// hhDeepFieldAssigns lists 1:1 assignments whose LHS, rewritten into f's
// terms, is a selector chain rooted at root (f's receiver, say), following
// helper calls up to depth 3.
func hhDeepFieldAssigns(f *engine.Fn, root types.Object) []hhDeepAssign {
	var out []hhDeepAssign
	ds := f.DeepFind(3, func(fn *engine.Fn, n ast.Node) bool {
		st, ok := n.(*ast.AssignStmt)
		if !ok || len(st.Lhs) != len(st.Rhs) {
			return false
		}
		for _, l := range st.Lhs {
			if _, fs, ok := hhChain(fn.Info(), l); ok && len(fs) > 0 {
				return true
			}
		}
		return false
	})
	info := f.Info()
	for _, d := range ds {
		if hhChainStopped(d) {
			continue
		}
		st := d.Inner.Node.(*ast.AssignStmt)
		mp := hhDeepMap(d)
		for i, l := range st.Lhs {
			le := mp(l)
			r, fs, ok := hhChain(info, le)
			if !ok || r != root || len(fs) == 0 {
				continue
			}
			out = append(out, hhDeepAssign{Fields: fs, Rhs: mp(st.Rhs[i]), Lhs: le, D: d, Stmt: st})
		}
	}
	return out
}

// hhDeepDominatingAssign: an assignment root.field = <rhs accepted by pred>
// (direct or inside a helper) whose outer site dominates s.
func hhDeepDominatingAssign(f *engine.Fn, s *engine.Site, root types.Object, field string, pred func(ast.Expr) bool) bool {
	g := f.Graph()
	for _, a := range hhDeepFieldAssigns(f, root) {
		if len(a.Fields) != 1 || a.Fields[0] != field || !pred(a.Rhs) {
			continue
		}
		if a.D.Outer == s || a.D.Outer.Node == s.Node {
			// same helper call performs the assignment and contains the target: order inside the helper
			continue
		}
		if g.Dominates(a.D.Outer, s) {
			// inside helpers the assignment must be unconditional w.r.t. the helper body
			if a.D.Inner != a.D.Outer && !hhInnerAlways(a.D) {
				continue
			}
			return true
		}
	}
	return false
}

// hhLiftCallers replaces, in a caller/writer set, every function that is not
// in `allowed` but is an unexported function/method of a loaded package by its
// own callers (transitively, bounded): an extracted helper is judged by who
// calls it. The result is the set of "root" callers.
func hhLiftCallers(p *engine.Prog, callers, allowed []string) []string {
	ok := map[string]bool{}
	for _, a := range allowed {
		ok[a] = true
	}
	seen := map[string]bool{}
	out := map[string]bool{}
	var visit func(name string, depth int)
	visit = func(name string, depth int) {
		if seen[name] {
			return
		}
		seen[name] = true
		if ok[name] || depth <= 0 {
			out[name] = true
			return
		}
		fn := p.Func(name)
		if fn == nil || fn.Obj == nil || fn.Obj.Exported() {
			out[name] = true
			return
		}
		cs := engine.CallerSet(p.RefsToFunc(name))
		if len(cs) == 0 {
			out[name] = true
			return
		}
		for _, r := range p.RefsToFunc(name) {
			if !r.IsCall { // used as a value: cannot be followed
				out[name] = true
				return
			}
		}
		for _, c2 := range cs {
			if c2 == name {
				continue
			}
			visit(c2, depth-1)
		}
	}
	for _, c := range callers {
		visit(c, 3)
	}
	return engine.SortedKeys(out)
}

// hhExitSites returns the sites at which h leaves normally: return
// statements and the fall-off-the-end block.
func hhExitSites(h *engine.Fn) []*engine.Site {
	var out []*engine.Site
	g := h.Graph()
	for _, b := range g.CFG.Blocks {
		if !b.Live || len(b.Succs) != 0 {
			continue
		}
		if r := b.Return(); r != nil {
			if s := h.SiteOf(r); s != nil {
				out = append(out, s)
			}
			continue
		}
		if len(b.Nodes) == 0 {
			// empty exit block: represent it by a synthetic site in that block
			out = append(out, &engine.Site{Fn: h, Node: h.Body, Block: b, Idx: 0, Top: h.Body})
			continue
		}
		last := b.Nodes[len(b.Nodes)-1]
		if es, ok := last.(*ast.ExprStmt); ok {
			if call, isCall := es.X.(*ast.CallExpr); isCall && !h.Prog.MayReturn(h.Info(), call) {
				continue // panics
			}
		}
		out = append(out, &engine.Site{Fn: h, Node: last, Block: b, Idx: len(b.Nodes), Ord: 1 << 30, Top: last})
	}
	return out
}

// hhDeepMustSucceed: target is reached only if the deep call succeeded (nil
// error), also when the helper that wraps the call returns nothing and
// panics/exits on failure itself (`cs.mustValidate(block)`).
func hhDeepMustSucceed(f *engine.Fn, d engine.DeepSite, target *engine.Site) (bool, string) {
	if ok, why := hhDeepErrGuard(f, d, target); ok {
		return true, why
	}
	if d.Inner == d.Outer || len(d.Chain) != 1 {
		return hhDeepErrGuard(f, d, target)
	}
	h := d.Chain[0]
	if h.Type.Results != nil && len(h.Type.Results.List) > 0 {
		return hhDeepErrGuard(f, d, target)
	}
	if !f.Graph().Dominates(d.Outer, target) {
		return false, "helper call does not dominate the target"
	}
	for _, ex := range hhExitSites(h) {
		if ok, why := hhErrGuard(h, d.Inner, ex); !ok {
			return false, "helper " + h.Name + " can return normally although the call failed: " + why
		}
	}
	return true, "helper returns only when the call succeeded"
}

// hhCurProg is the program of the check being run (set by hhUse); it lets
// expression matchers resolve single-definition locals without threading the
// function through every call.
var hhCurProg *engine.Prog

func hhUse(p *engine.Prog) { hhCurProg = p }

// hhResolve replaces a local identifier that has exactly one definition by
// its defining expression (two levels), so `prevotes := cs.Votes.Prevotes(r);
// prevotes.TwoThirdsMajority()` reads like the un-hoisted form.
func hhResolve(f *engine.Fn, e ast.Expr) ast.Expr {
	for i := 0; i < 2 && e != nil; i++ {
		id := hhIdent(e)
		if id == nil {
			return e
		}
		v, ok := f.Info().ObjectOf(id).(*types.Var)
		if !ok || v.IsField() || v.Pkg() == nil || v.Parent() == v.Pkg().Scope() {
			return e
		}
		d := hhDefExpr(f, v)
		if d == nil {
			return e
		}
		e = d
	}
	return e
}

// hhResolveRoot rewrites root.f1.f2 where root is a single-definition local
// whose definition is itself a selector chain (an alias such as
// `locked := cs.LockedBlock`) into the aliased chain.
func hhResolveRoot(info *types.Info, e ast.Expr) (ast.Expr, bool) {
	if hhCurProg == nil {
		return e, false
	}
	r, _, ok := hhChain(info, e)
	if !ok {
		return e, false
	}
	v, isVar := r.(*types.Var)
	if !isVar || v.IsField() || v.Pkg() == nil || v.Parent() == v.Pkg().Scope() {
		return e, false
	}
	f := hhCurProg.EnclosingFn(v.Pkg().Path(), v.Pos())
	if f == nil {
		return e, false
	}
	d := hhDefExpr(f, v)
	if d == nil {
		return e, false
	}
	if _, _, isChain := hhChain(info, d); !isChain {
		return e, false
	}
	return hhSubst(info, e, map[types.Object]ast.Expr{r: d}), true
}

// hhStop names functions that are rule anchors themselves: deep searches must
// not look *through* them (they are checked on their own), only through
// ordinary helpers. Set per check with hhSetStops.
var hhStop = map[string]bool{}

func hhSetStops(names ...string) {
	hhStop = map[string]bool{}
	for _, n := range names {
		hhStop[n] = true
	}
}

func hhChainStopped(d engine.DeepSite) bool {
	for _, h := range d.Chain {
		if hhStop[h.Name] {
			return true
		}
	}
	return false
}

// hhInnerAlways: inside every helper on the chain, the step towards the inner
// site is executed on every path that returns normally (it dominates all the
// helper's normal exits) — the helper cannot come back without having done it.
func hhInnerAlways(d engine.DeepSite) bool {
	for i, h := range d.Chain {
		var at *engine.Site
		if i == len(d.Chain)-1 {
			at = d.Inner
		} else {
			for _, s := range h.Calls() {
				if fn, _ := s.Callee.(*types.Func); fn != nil && h.Prog.FnOf(fn) == d.Chain[i+1] {
					at = s
				}
			}
		}
		if at == nil {
			return false
		}
		for _, ex := range hhExitSites(h) {
			if !(h.Graph().Dominates(at, ex) || at.Block == ex.Block) {
				return false
			}
		}
	}
	return true
}

// hhIntoCaller rewrites an expression of helper h into the caller's terms:
// single-definition locals of h are replaced by their definitions (two
// levels), then parameters/receiver by the call's arguments.
func hhIntoCaller(h *engine.Fn, bind map[types.Object]ast.Expr, e ast.Expr) ast.Expr {
	info := h.Info()
	for i := 0; i < 2; i++ {
		loc := map[types.Object]ast.Expr{}
		ast.Inspect(e, func(n ast.Node) bool {
			id, ok := n.(*ast.Ident)
			if !ok {
				return true
			}
			v, isVar := info.ObjectOf(id).(*types.Var)
			if !isVar || v.IsField() || v.Pkg() == nil || v.Parent() == v.Pkg().Scope() {
				return true
			}
			if _, isParam := bind[v]; isParam {
				return true
			}
			if !(h.Body.Pos() <= v.Pos() && v.Pos() < h.Body.End()) {
				return true
			}
			if d := hhDefExpr(h, v); d != nil {
				loc[v] = d
			}
			return true
		})
		if len(loc) == 0 {
			break
		}
		e = hhSubst(info, e, loc)
	}
	return hhSubst(info, e, bind)
}
