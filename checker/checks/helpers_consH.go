package checks

// Helpers shared by the consensus checks C31–C36 (prefix hh).

import (
	"go/ast"
	"go/constant"
	"go/token"
	"go/types"
	"sort"
	"strings"

	"gnoverif/engine"
)

// hhFact is an atomic boolean expression known to be true (or false) at a site.
type hhFact struct {
	E    ast.Expr
	True bool
}

// hhSplit decomposes "e evaluates to truth" into atomic facts: !X flips,
// (A && B)==true gives both, (A || B)==false gives both negated; a compound
// that cannot be split is kept as one fact.
func hhSplit(e ast.Expr, truth bool, out *[]hhFact) {
	e = ast.Unparen(e)
	switch x := e.(type) {
	case *ast.UnaryExpr:
		if x.Op == token.NOT {
			hhSplit(x.X, !truth, out)
			return
		}
	case *ast.BinaryExpr:
		if (x.Op == token.LAND && truth) || (x.Op == token.LOR && !truth) {
			hhSplit(x.X, truth, out)
			hhSplit(x.Y, truth, out)
			return
		}
	}
	*out = append(*out, hhFact{e, truth})
}

// hhFacts lists the atomic facts established by the boolean conditions gating
// site s (conditions dominating s of which exactly one branch reaches s).
// Case expressions of tagged switches are not boolean conditions and are skipped.
func hhFacts(f *engine.Fn, s *engine.Site) []hhFact {
	var out []hhFact
	if s == nil {
		return nil
	}
	info := f.Info()
	for _, gt := range f.Graph().Gates(s) {
		if !hhIsBool(info, gt.Cond) {
			continue
		}
		hhSplit(gt.Cond, gt.OnTrue, &out)
	}
	return out
}

func hhIsBool(info *types.Info, e ast.Expr) bool {
	t := info.TypeOf(e)
	if t == nil {
		return false
	}
	b, ok := t.Underlying().(*types.Basic)
	return ok && b.Info()&types.IsBoolean != 0
}

// hhCaseGates returns the names of the constants of tagged-switch cases that
// gate the site on their true branch ("PrevoteType").
func hhCaseGates(f *engine.Fn, s *engine.Site) []string {
	var out []string
	info := f.Info()
	for _, gt := range f.Graph().Gates(s) {
		if hhIsBool(info, gt.Cond) || !gt.OnTrue {
			continue
		}
		if k, ok := engine.ObjOf(info, gt.Cond).(*types.Const); ok {
			out = append(out, k.Name())
		}
	}
	return out
}

// hhChain resolves a selector chain root.f1.f2… to its root object and the
// field names (embedded/anonymous fields are dropped, so cs.RoundState.Height
// and cs.Height render alike). ok is false for anything else.
func hhChain(info *types.Info, e ast.Expr) (root types.Object, fields []string, ok bool) {
	e = ast.Unparen(e)
	switch x := e.(type) {
	case *ast.Ident:
		o := info.ObjectOf(x)
		if o == nil {
			return nil, nil, false
		}
		return o, nil, true
	case *ast.StarExpr:
		return hhChain(info, x.X)
	case *ast.SelectorExpr:
		v, isVar := info.ObjectOf(x.Sel).(*types.Var)
		if !isVar || !v.IsField() {
			// package-qualified identifier
			if _, isPkg := info.ObjectOf(hhIdent(x.X)).(*types.PkgName); isPkg {
				o := info.ObjectOf(x.Sel)
				return o, nil, o != nil
			}
			return nil, nil, false
		}
		r, fs, ok := hhChain(info, x.X)
		if !ok {
			return nil, nil, false
		}
		if v.Embedded() {
			return r, fs, true
		}
		return r, append(fs, v.Name()), true
	}
	return nil, nil, false
}

func hhIdent(e ast.Expr) *ast.Ident {
	id, _ := ast.Unparen(e).(*ast.Ident)
	return id
}

// hhIsChain: e is root.fields… (root compared by object identity).
func hhIsChain(info *types.Info, e ast.Expr, root types.Object, fields ...string) bool {
	if root == nil || e == nil {
		return false
	}
	r, fs, ok := hhChain(info, e)
	if !ok || r != root || len(fs) != len(fields) {
		return false
	}
	for i := range fs {
		if fs[i] != fields[i] {
			return false
		}
	}
	return true
}

// hhRecv returns the receiver object of a method declaration.
func hhRecv(f *engine.Fn) types.Object {
	r := f.Root()
	if r.Decl == nil || r.Decl.Recv == nil || len(r.Decl.Recv.List) == 0 || len(r.Decl.Recv.List[0].Names) == 0 {
		return nil
	}
	return r.Info().ObjectOf(r.Decl.Recv.List[0].Names[0])
}

// hhMethodCall: e is a call of a method named `name` (resolved callee must be
// a *types.Func of that name); returns the receiver expression and the call.
func hhMethodCall(info *types.Info, e ast.Expr, name string) (recv ast.Expr, call *ast.CallExpr, ok bool) {
	c, isCall := ast.Unparen(e).(*ast.CallExpr)
	if !isCall {
		return nil, nil, false
	}
	sel, isSel := ast.Unparen(c.Fun).(*ast.SelectorExpr)
	if !isSel || sel.Sel.Name != name {
		return nil, nil, false
	}
	if _, isFn := info.ObjectOf(sel.Sel).(*types.Func); !isFn {
		return nil, nil, false
	}
	return sel.X, c, true
}

// hhNilCmp recognises `x != nil` / `x == nil` (either side) and returns x and
// whether the comparison is "!= nil".
func hhNilCmp(e ast.Expr) (x ast.Expr, notNil bool, ok bool) {
	b, isb := ast.Unparen(e).(*ast.BinaryExpr)
	if !isb || (b.Op != token.EQL && b.Op != token.NEQ) {
		return nil, false, false
	}
	switch {
	case isNil(b.Y):
		return b.X, b.Op == token.NEQ, true
	case isNil(b.X):
		return b.Y, b.Op == token.NEQ, true
	}
	return nil, false, false
}

// hhKnownNonNil / hhKnownNil: the facts establish chain root.fields != nil (== nil).
func hhKnowsNil(info *types.Info, facts []hhFact, root types.Object, fields ...string) (known bool, nonNil bool) {
	for _, ft := range facts {
		x, notNil, ok := hhNilCmp(ft.E)
		if !ok || !hhIsChain(info, x, root, fields...) {
			continue
		}
		return true, notNil == ft.True
	}
	return false, false
}

// hhIdentFact: the facts contain the bare identifier obj with the given truth.
func hhIdentFact(info *types.Info, facts []hhFact, obj types.Object, truth bool) bool {
	if obj == nil {
		return false
	}
	for _, ft := range facts {
		if id := hhIdent(ft.E); id != nil && info.ObjectOf(id) == obj && ft.True == truth {
			return true
		}
	}
	return false
}

// hhLenZero recognises `len(X) == 0` / `len(X) != 0` / `0 == len(X)`; returns
// X and whether the atom says "is empty".
func hhLenZero(info *types.Info, e ast.Expr) (x ast.Expr, empty bool, ok bool) {
	b, isb := ast.Unparen(e).(*ast.BinaryExpr)
	if !isb || (b.Op != token.EQL && b.Op != token.NEQ) {
		return nil, false, false
	}
	l, z := b.X, b.Y
	if hhIsIntLit(info, l, 0) {
		l, z = z, l
	}
	if !hhIsIntLit(info, z, 0) {
		return nil, false, false
	}
	c, isc := ast.Unparen(l).(*ast.CallExpr)
	if !isc || len(c.Args) != 1 || !engine.IsBuiltinCall(info, c, "len") {
		return nil, false, false
	}
	return c.Args[0], b.Op == token.EQL, true
}

func hhIsIntLit(info *types.Info, e ast.Expr, v int64) bool {
	tv, ok := info.Types[e]
	if !ok || tv.Value == nil || tv.Value.Kind() != constant.Int {
		return false
	}
	n, exact := constant.Int64Val(tv.Value)
	return exact && n == v
}

// hhConstName returns the name of the constant e resolves to ("" otherwise).
func hhConstName(info *types.Info, e ast.Expr) string {
	if k, ok := engine.ObjOf(info, e).(*types.Const); ok {
		return k.Name()
	}
	return ""
}

// hhAssignsTo lists the assignment statements (and var specs / range clauses)
// in f's own body that assign the object.
func hhAssignsTo(f *engine.Fn, obj types.Object) []ast.Node {
	var out []ast.Node
	info := f.Info()
	engine.InspectBody(f, func(n ast.Node) {
		switch x := n.(type) {
		case *ast.AssignStmt:
			for _, l := range x.Lhs {
				if id := hhIdent(l); id != nil && info.ObjectOf(id) == obj {
					out = append(out, x)
				}
			}
		case *ast.ValueSpec:
			for _, id := range x.Names {
				if info.ObjectOf(id) == obj {
					out = append(out, x)
				}
			}
		case *ast.RangeStmt:
			for _, l := range []ast.Expr{x.Key, x.Value} {
				if id := hhIdent(l); id != nil && info.ObjectOf(id) == obj {
					out = append(out, x)
				}
			}
		case *ast.IncDecStmt:
			if id := hhIdent(x.X); id != nil && info.ObjectOf(id) == obj {
				out = append(out, x)
			}
		case *ast.UnaryExpr:
			if x.Op == token.AND {
				if id := hhIdent(x.X); id != nil && info.ObjectOf(id) == obj {
					out = append(out, x)
				}
			}
		}
	})
	return out
}

// hhSingleDef: obj is assigned exactly once in f (no re-binding, no &obj) and
// returns the defining statement together with the index of obj on its LHS.
func hhSingleDef(f *engine.Fn, obj types.Object) (*ast.AssignStmt, int) {
	as := hhAssignsTo(f, obj)
	if len(as) != 1 {
		return nil, -1
	}
	st, ok := as[0].(*ast.AssignStmt)
	if !ok {
		return nil, -1
	}
	for i, l := range st.Lhs {
		if id := hhIdent(l); id != nil && f.Info().ObjectOf(id) == obj {
			return st, i
		}
	}
	return nil, -1
}

// hhDefExpr returns the expression a singly-defined local is initialised from
// (only for 1:1 assignments), else nil.
func hhDefExpr(f *engine.Fn, obj types.Object) ast.Expr {
	if as := hhAssignsTo(f, obj); len(as) == 1 {
		if vs, ok := as[0].(*ast.ValueSpec); ok && len(vs.Values) == len(vs.Names) {
			for i, id := range vs.Names {
				if f.Info().ObjectOf(id) == obj {
					return vs.Values[i]
				}
			}
		}
	}
	st, i := hhSingleDef(f, obj)
	if st == nil || len(st.Lhs) != len(st.Rhs) {
		return nil
	}
	return st.Rhs[i]
}

// hhResultVars returns the LHS objects of the assignment whose single RHS is the call.
func hhResultVars(f *engine.Fn, s *engine.Site) []types.Object {
	st, ok := s.Top.(*ast.AssignStmt)
	if !ok || len(st.Rhs) != 1 || ast.Unparen(st.Rhs[0]) != ast.Expr(s.Call) {
		return nil
	}
	var out []types.Object
	for _, l := range st.Lhs {
		id := hhIdent(l)
		if id == nil || id.Name == "_" {
			out = append(out, nil)
			continue
		}
		out = append(out, f.Info().ObjectOf(id))
	}
	return out
}

// hhFieldAssign describes `root.fields… = rhs` statements.
type hhFieldAssign struct {
	Stmt   *ast.AssignStmt
	Fields []string
	Rhs    ast.Expr
	Site   *engine.Site
}

// hhFieldAssigns lists 1:1 assignments in f's body whose LHS is a selector
// chain rooted at root.
func hhFieldAssigns(f *engine.Fn, root types.Object) []hhFieldAssign {
	var out []hhFieldAssign
	info := f.Info()
	engine.InspectBody(f, func(n ast.Node) {
		st, ok := n.(*ast.AssignStmt)
		if !ok || len(st.Lhs) != len(st.Rhs) {
			return
		}
		for i, l := range st.Lhs {
			r, fs, ok := hhChain(info, l)
			if !ok || r != root || len(fs) == 0 {
				continue
			}
			out = append(out, hhFieldAssign{Stmt: st, Fields: fs, Rhs: st.Rhs[i], Site: f.SiteOf(st)})
		}
	})
	return out
}

// hhDominatingAssign: some assignment root.field = <rhs accepted by pred>
// dominates the site.
func hhDominatingAssign(f *engine.Fn, s *engine.Site, root types.Object, field string, pred func(ast.Expr) bool) bool {
	g := f.Graph()
	for _, a := range hhFieldAssigns(f, root) {
		if len(a.Fields) == 1 && a.Fields[0] == field && a.Site != nil && pred(a.Rhs) && g.Dominates(a.Site, s) {
			return true
		}
	}
	return false
}

// hhIsMinusOne: e is the constant -1.
func hhIsMinusOne(info *types.Info, e ast.Expr) bool { return hhIsIntLit(info, e, -1) }

// hhCmp recognises a binary comparison and returns it normalised so that the
// operator reads left-to-right with the given truth applied.
func hhCmp(ft hhFact) (x ast.Expr, op token.Token, y ast.Expr, ok bool) {
	b, isb := ast.Unparen(ft.E).(*ast.BinaryExpr)
	if !isb {
		return nil, 0, nil, false
	}
	switch b.Op {
	case token.LSS, token.LEQ, token.GTR, token.GEQ, token.EQL, token.NEQ:
	default:
		return nil, 0, nil, false
	}
	op = b.Op
	if !ft.True {
		op = engine.Negate(op)
	}
	return b.X, op, b.Y, true
}

// hhHasCmp: the facts contain  X op Y  (or the flipped  Y op' X) with X, Y
// accepted by the predicates.
func hhHasCmp(facts []hhFact, op token.Token, px, py func(ast.Expr) bool) bool {
	for _, ft := range facts {
		x, o, y, ok := hhCmp(ft)
		if !ok {
			continue
		}
		if o == op && px(x) && py(y) {
			return true
		}
		if engine.Flip(o) == op && px(y) && py(x) {
			return true
		}
	}
	return false
}

// hhSetEq compares two string sets; returns extra (in got, not allowed) and missing.
func hhExtra(got, allowed []string) []string {
	e := engine.SetDiff(got, allowed)
	sort.Strings(e)
	return e
}

// hhCallArgIs: the i-th argument of the call is accepted by pred.
func hhArg(c *ast.CallExpr, i int) ast.Expr {
	if c == nil || i >= len(c.Args) {
		return nil
	}
	return c.Args[i]
}

// hhRender renders an expression compactly for keys.
func hhRender(e ast.Expr) string {
	if e == nil {
		return "<nil>"
	}
	s := engine.ExprString(e)
	s = strings.Join(strings.Fields(s), " ")
	if len(s) > 60 {
		s = s[:60] + "…"
	}
	return s
}

// hhPkgFuncs filters names by package prefix.
func hhWithPrefix(xs []string, prefix string) []string {
	var out []string
	for _, x := range xs {
		if strings.HasPrefix(x, prefix) {
			out = append(out, x)
		}
	}
	return out
}

// hhCalleeIs reports whether the site's resolved callee matches.
func hhCalleeIs(s *engine.Site, pats ...string) bool {
	return s != nil && engine.MatchName(s.CalleeName(), pats...)
}

// hhErrGuard: the result of guard call `gs` (an error) gates target so that
// the target is reached only when the error is nil. Recognises
// `if err := G(); err != nil { leave }` and `err := G(); if err != nil {…}`.
func hhErrGuard(f *engine.Fn, gs, target *engine.Site) (bool, string) {
	g := f.Graph()
	r := g.CheckedGuard(gs, target)
	if !r.OK {
		return false, r.Why
	}
	var facts []hhFact
	hhSplit(r.Cond, r.OnTrue, &facts)
	for _, ft := range facts {
		if _, notNil, ok := hhNilCmp(ft.E); ok {
			if notNil != ft.True {
				return true, "reached only when the returned error is nil"
			}
			return false, "target is reached when the error is non-nil"
		}
	}
	return false, "guard result is tested by `" + engine.ExprString(r.Cond) + "`, not by a nil comparison"
}

// hhBoolGuard: the boolean result of guard call gs gates the target with the
// given polarity (want=true: target reached only when the call returned true).
func hhBoolGuard(f *engine.Fn, gs, target *engine.Site, want bool) (bool, string) {
	g := f.Graph()
	r := g.CheckedGuard(gs, target)
	if !r.OK {
		return false, r.Why
	}
	var facts []hhFact
	hhSplit(r.Cond, r.OnTrue, &facts)
	vars := hhResultVars(f, gs)
	for _, ft := range facts {
		e := ast.Unparen(ft.E)
		if e == ast.Expr(gs.Call) {
			if ft.True == want {
				return true, "ok"
			}
			return false, "target reached on the opposite verdict of the guard"
		}
		if id := hhIdent(e); id != nil {
			for _, v := range vars {
				if v != nil && f.Info().ObjectOf(id) == v {
					if ft.True == want {
						return true, "ok"
					}
					return false, "target reached on the opposite verdict of the guard"
				}
			}
		}
	}
	return false, "guard verdict is not tested as a plain boolean in `" + engine.ExprString(r.Cond) + "`"
}

// hhWholeWrites lists the root functions that assign a whole value of the
// named struct type to something other than a plain local variable
// (x.f = T{…}, *p = v, a[i] = v).
func hhWholeWrites(p *engine.Prog, n *types.Named) []string {
	m := map[string]bool{}
	for _, f := range p.Funcs() {
		info := f.Info()
		engine.InspectBody(f, func(x ast.Node) {
			as, ok := x.(*ast.AssignStmt)
			if !ok {
				return
			}
			for _, l := range as.Lhs {
				t := info.TypeOf(l)
				if t == nil || !types.Identical(t, n) {
					continue
				}
				if id := hhIdent(l); id != nil {
					if v, isVar := info.ObjectOf(id).(*types.Var); isVar && !v.IsField() && v.Parent() != v.Pkg().Scope() {
						continue // local copy
					}
					if id.Name == "_" {
						continue
					}
				}
				m[f.Root().Name] = true
			}
		})
	}
	return engine.SortedKeys(m)
}

// hhNorm renders an expression structurally with resolved symbols: selector
// chains are printed from their root (roots listed in names are printed under
// the given role name, embedded fields dropped), singly-defined locals of f are
// replaced by their defining expression (depth-limited), calls by the
// rendered callee and arguments. Two expressions with the same hhNorm denote
// the same computation on the same objects, whatever the local names are.
func hhNorm(f *engine.Fn, e ast.Expr, names map[types.Object]string, depth int) string {
	info := f.Info()
	e = ast.Unparen(e)
	if st, isStar := e.(*ast.StarExpr); isStar {
		return "*" + hhNorm(f, st.X, names, depth)
	}
	if r, fs, ok := hhChain(info, e); ok {
		if nm, known := names[r]; known {
			return strings.Join(append([]string{nm}, fs...), ".")
		}
		if len(fs) == 0 {
			switch o := r.(type) {
			case *types.Var:
				if o.Pkg() != nil && o.Parent() == o.Pkg().Scope() {
					return engine.Rel(o.Pkg().Path()) + "." + o.Name()
				}
				if !o.IsField() && depth > 0 {
					if d := hhDefExpr(f, o); d != nil {
						return hhNorm(f, d, names, depth-1)
					}
				}
				return "?" + o.Name()
			case *types.Const:
				return o.Name()
			case *types.Nil:
				return "nil"
			case *types.Func:
				return engine.FuncName(o)
			case *types.TypeName:
				return o.Name()
			case *types.Builtin:
				return o.Name()
			}
		}
		if v, isVar := r.(*types.Var); isVar && !v.IsField() && depth > 0 {
			if d := hhDefExpr(f, v); d != nil {
				return strings.Join(append([]string{hhNorm(f, d, names, depth-1)}, fs...), ".")
			}
		}
		return strings.Join(append([]string{"?" + r.Name()}, fs...), ".")
	}
	switch x := e.(type) {
	case *ast.BasicLit:
		return x.Value
	case *ast.BinaryExpr:
		return hhNorm(f, x.X, names, depth) + " " + x.Op.String() + " " + hhNorm(f, x.Y, names, depth)
	case *ast.UnaryExpr:
		return x.Op.String() + hhNorm(f, x.X, names, depth)
	case *ast.StarExpr:
		return "*" + hhNorm(f, x.X, names, depth)
	case *ast.IndexExpr:
		return hhNorm(f, x.X, names, depth) + "[" + hhNorm(f, x.Index, names, depth) + "]"
	case *ast.CallExpr:
		var args []string
		for _, a := range x.Args {
			args = append(args, hhNorm(f, a, names, depth))
		}
		fun := ""
		if sel, ok := ast.Unparen(x.Fun).(*ast.SelectorExpr); ok {
			if fn, isFn := info.ObjectOf(sel.Sel).(*types.Func); isFn {
				if sig, _ := fn.Type().(*types.Signature); sig != nil && sig.Recv() != nil {
					fun = hhNorm(f, sel.X, names, depth) + "." + fn.Name()
				} else {
					fun = engine.FuncName(fn)
				}
			}
		}
		if fun == "" {
			fun = hhNorm(f, x.Fun, names, depth)
		}
		return fun + "(" + strings.Join(args, ", ") + ")"
	case *ast.SelectorExpr:
		return hhNorm(f, x.X, names, depth) + "." + x.Sel.Name
	case *ast.CompositeLit:
		var els []string
		for _, el := range x.Elts {
			if kv, ok := el.(*ast.KeyValueExpr); ok {
				k := engine.ExprString(kv.Key)
				els = append(els, k+": "+hhNorm(f, kv.Value, names, depth))
			} else {
				els = append(els, hhNorm(f, el, names, depth))
			}
		}
		t := ""
		if tt := info.TypeOf(x); tt != nil {
			t = engine.TypeName(tt)
		}
		return t + "{" + strings.Join(els, ", ") + "}"
	}
	return "?" + engine.ExprString(e)
}

// hhReach returns the declared functions of the given packages (module-relative
// paths) reachable through statically resolved calls from the roots.
func hhReach(p *engine.Prog, roots []*engine.Fn, pkgs ...string) []*engine.Fn {
	in := map[string]bool{}
	for _, k := range pkgs {
		in[engine.ModPrefix+k] = true
	}
	seen := map[*engine.Fn]bool{}
	var out []*engine.Fn
	var visit func(f *engine.Fn)
	visit = func(f *engine.Fn) {
		if f == nil || seen[f] || !in[f.Pkg.PkgPath] {
			return
		}
		seen[f] = true
		out = append(out, f)
		fs := append([]*engine.Fn{f}, f.AllLits()...)
		for _, x := range fs {
			for _, s := range x.Calls() {
				if fn, ok := s.Callee.(*types.Func); ok {
					visit(p.FnOf(fn))
				}
			}
		}
	}
	for _, r := range roots {
		visit(r)
	}
	sort.Slice(out, func(i, j int) bool { return out[i].Name < out[j].Name })
	return out
}

// hhFieldDerefs lists the field selections v.f in f's body (not nested
// literals) whose base is the identifier obj.
func hhFieldDerefs(f *engine.Fn, obj types.Object) []*ast.SelectorExpr {
	var out []*ast.SelectorExpr
	info := f.Info()
	engine.InspectBody(f, func(n ast.Node) {
		sel, ok := n.(*ast.SelectorExpr)
		if !ok {
			return
		}
		id := hhIdent(sel.X)
		if id == nil || info.ObjectOf(id) != obj {
			return
		}
		if s := info.Selections[sel]; s != nil && s.Kind() == types.FieldVal {
			out = append(out, sel)
		}
	})
	return out
}

// hhEnclosingRange returns the innermost range statement of f whose body contains n.
func hhEnclosingRange(f *engine.Fn, n ast.Node) *ast.RangeStmt {
	var best *ast.RangeStmt
	engine.InspectBody(f, func(x ast.Node) {
		if rs, ok := x.(*ast.RangeStmt); ok && rs.Body.Pos() <= n.Pos() && n.End() <= rs.Body.End() {
			if best == nil || best.Body.Pos() <= rs.Body.Pos() {
				best = rs
			}
		}
	})
	return best
}

// hhSameChain: two expressions are the same selector chain on the same root.
func hhSameChain(info *types.Info, a, b ast.Expr) bool {
	ra, fa, oka := hhChain(info, a)
	rb, fb, okb := hhChain(info, b)
	if !oka || !okb || ra != rb || len(fa) != len(fb) {
		return false
	}
	for i := range fa {
		if fa[i] != fb[i] {
			return false
		}
	}
	return true
}

// hhSufficient lists the atoms each of which, on its own, sends control to
// site s: for every gate of s, the condition is decomposed the other way
// round than hhSplit — (A || B) true / (A && B) false yield each operand, a
// conjunction that must hold as a whole yields nothing (the atom alone is not
// sufficient: the test has been weakened by the other conjuncts).
func hhSufficient(f *engine.Fn, s *engine.Site) []hhFact {
	var out []hhFact
	if s == nil {
		return nil
	}
	info := f.Info()
	var rec func(e ast.Expr, truth bool)
	rec = func(e ast.Expr, truth bool) {
		e = ast.Unparen(e)
		switch x := e.(type) {
		case *ast.UnaryExpr:
			if x.Op == token.NOT {
				rec(x.X, !truth)
				return
			}
		case *ast.BinaryExpr:
			if (x.Op == token.LOR && truth) || (x.Op == token.LAND && !truth) {
				rec(x.X, truth)
				rec(x.Y, truth)
				return
			}
			if x.Op == token.LOR || x.Op == token.LAND {
				return
			}
		}
		out = append(out, hhFact{e, truth})
	}
	for _, gt := range f.Graph().Gates(s) {
		if hhIsBool(info, gt.Cond) {
			rec(gt.Cond, gt.OnTrue)
		}
	}
	return out
}

// hhCtx renders the facts gating a site as sorted normalised strings
// ("x < y", "!f(a)", "ok").
func hhCtx(f *engine.Fn, s *engine.Site, names map[types.Object]string, depth int) []string {
	var xs []string
	for _, ft := range hhFacts(f, s) {
		if x, op, y, isCmp := hhCmp(ft); isCmp {
			xs = append(xs, hhNorm(f, x, names, depth)+" "+op.String()+" "+hhNorm(f, y, names, depth))
			continue
		}
		t := hhNorm(f, ft.E, names, depth)
		if !ft.True {
			t = "!" + t
		}
		xs = append(xs, t)
	}
	sort.Strings(xs)
	return xs
}

// hhSortedJoin sorts a "; "-separated list.
func hhSortedJoin(s string) string {
	xs := strings.Split(s, "; ")
	sort.Strings(xs)
	return strings.Join(xs, "; ")
}
