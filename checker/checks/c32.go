package checks

import (
	"go/ast"
	"go/token"
	"go/types"
	"sort"
	"strings"

	"golang.org/x/tools/go/cfg"

	"gnoverif/engine"
)

// C32 — every applied block is validated; validation covers every header field
// and cannot dereference a nil obtained from attacker-controlled lookups.
func init() {
	register("C32", c32)
	meta("C32", Meta{
		Text:      "Decides the structural clauses of block validation: (1) every field of types.Header is either compared in State.ValidateBlock with the value derived from state (per-field table of the expected state expression; mismatch branch returns an error) or bound to the block's own content in Block.ValidateBasic, and every field enters Header.Hash; (2) ValidateBlock verifies LastCommit with state.LastValidators.VerifyCommit(state.ChainID, state.LastBlockID, block.Height-1, block.LastCommit) on every non-genesis path to success; (3) execBlockOnProxyApp is reached only after a successful ValidateBlock of the same block (ApplyBlock) and has no other caller except the replay helper; the fast-sync loop saves/applies a block only after VerifyCommit of that block with the next block's LastCommit, and blocks enter the pool only after Block.ValidateBasic; (4) on the validation path (functions reachable from ValidateBlock/VerifyFutureCommit) no *Validator returned by GetByIndex/GetByAddress and no element of a []*CommitSig is dereferenced without a nil test (or the size-equality idiom), and pointer fields of the decoded block are used only after the ValidateBasic nil tests. Level 'other'.",
		Note:      "Not covered: that the compared state values are themselves right, signature cryptography, amino decoding, arithmetic overflow in time/median computations, panics from index expressions other than the nil dereferences listed. Interface-dispatched callees are not followed.",
		Technique: "per-field comparison table over go/cfg gate facts with resolved-symbol normalisation; dominance/error-guard; who-may-call; may-be-nil dereference rule over a static call closure",
		Ref:       "DESIGN.md §2 C32",
	})
	const V = "tm2/pkg/bft/state/validation.go"
	mutants("C32",
		Mutant{"apphash-unchecked", V, "if !bytes.Equal(block.AppHash, state.AppHash) {", "if !bytes.Equal(block.AppHash, state.AppHash) && len(block.AppHash) > 64 {", "header-validated"},
		Mutant{"valhash-vs-next", V, "if !bytes.Equal(block.ValidatorsHash, state.Validators.Hash()) {", "if !bytes.Equal(block.ValidatorsHash, state.NextValidators.Hash()) {", "header-validated"},
		Mutant{"height-off", V, "if block.Height != state.LastBlockHeight+1 {", "if block.Height < state.LastBlockHeight+1 {", "header-validated"},
		Mutant{"time-not-monotonic", V, "if !block.Time.After(state.LastBlockTime) {", "if block.Time.Before(state.LastBlockTime) {", "header-validated"},
		Mutant{"genesis-time-unchecked", V, "\t\tgenesisTime := state.LastBlockTime\n\t\tif !block.Time.Equal(genesisTime) {", "\t\tgenesisTime := state.LastBlockTime\n\t\tif block.Time.Before(genesisTime) {", "header-validated"},
		Mutant{"commit-vs-current-valset", V, "err := state.LastValidators.VerifyCommit(", "err := state.Validators.VerifyCommit(", "last-commit-verified"},
		Mutant{"commit-check-skipped-for-empty", V, "\tisGenesisBlock := block.Height == state.InitialHeight\n", "\tisGenesisBlock := block.Height == state.InitialHeight || len(block.LastCommit.Precommits) == 0\n", "last-commit-verified"},
		Mutant{"hash-skips-field", "tm2/pkg/bft/types/block.go", "\t\tbytesOrNil(h.AppHash),\n", "", "header-hash"},
		Mutant{"apply-without-validate", "tm2/pkg/bft/state/execution.go", "if err := state.ValidateBlock(block); err != nil {\n\t\treturn state, InvalidBlockError(err)\n\t}", "if err := state.ValidateBlock(block); err != nil {\n\t\tblockExec.logger.Error(\"invalid block\", \"err\", InvalidBlockError(err))\n\t}", "validate-before-exec"},
		Mutant{"fastsync-verify-ignored", "tm2/pkg/bft/blockchain/reactor.go", "\t\t\tif err != nil {\n\t\t\t\tbcR.Logger.Error(\"Error in validation\", \"err\", err)", "\t\t\tif err != nil && first.Height > 1 {\n\t\t\t\tbcR.Logger.Error(\"Error in validation\", \"err\", err)", "validate-before-exec"},
		Mutant{"pool-accepts-unvalidated", "tm2/pkg/bft/blockchain/reactor.go", "func (m *bcBlockResponseMessage) ValidateBasic() error {\n\treturn m.Block.ValidateBasic()", "func (m *bcBlockResponseMessage) ValidateBasic() error {\n\treturn nil", "validate-before-exec"},
		Mutant{"nil-lastcommit-accepted", "tm2/pkg/bft/types/block.go", "\tif b.LastCommit == nil {\n\t\treturn errors.New(\"nil LastCommit\")\n\t}", "\tif b.LastCommit == nil && b.Height > 1 {\n\t\treturn errors.New(\"nil LastCommit\")\n\t}", "ptr-nil"},
		Mutant{"nil-precommit-deref", "tm2/pkg/bft/types/block.go", "\t\t// It's OK for precommits to be missing.\n\t\tif precommit == nil {\n\t\t\tcontinue\n\t\t}", "\t\t// It's OK for precommits to be missing.\n\t\tif precommit == nil && round > 0 {\n\t\t\tcontinue\n\t\t}", "elem-nil"},
		Mutant{"mediantime-trusts-validator-index", "tm2/pkg/bft/state/state.go", "\t\t\t_, validator := validators.GetByIndex(i)\n\t\t\tif validator == nil {\n\t\t\t\tcontinue\n\t\t\t}\n", "\t\t\t_, validator := validators.GetByIndex(vote.ValidatorIndex)\n", "lookup-nil"},
		Mutant{"size-check-dropped", "tm2/pkg/bft/types/validator_set.go", "\tif vals.Size() != len(commit.Precommits) {\n\t\treturn NewErrInvalidCommitPrecommits(vals.Size(), len(commit.Precommits))\n\t}\n\tif height != commit.Height() {", "\tif vals.Size() < len(commit.Precommits) {\n\t\treturn NewErrInvalidCommitPrecommits(vals.Size(), len(commit.Precommits))\n\t}\n\tif height != commit.Height() {", "lookup-nil"},
	)
}

// expected state-side expression per header field compared in ValidateBlock
// ("cmp": block.F != X ; "bytes": !bytes.Equal(block.F, X) ; "equals": !block.F.Equals(X)).
var c32HeaderTable = []struct{ Field, Form, Other string }{
	{"Version", "cmp", "state.BlockVersion"},
	{"AppVersion", "cmp", "state.AppVersion"},
	{"ChainID", "cmp", "state.ChainID"},
	{"Height", "cmp", "state.LastBlockHeight + 1"},
	{"LastBlockID", "equals", "state.LastBlockID"},
	{"TotalTxs", "cmp", "state.LastBlockTotalTx + int64(len(block.Txs))"},
	{"AppHash", "bytes", "state.AppHash"},
	{"ConsensusHash", "bytes", "state.ConsensusParams.Hash()"},
	{"LastResultsHash", "bytes", "state.LastResultsHash"},
	{"ValidatorsHash", "bytes", "state.Validators.Hash()"},
	{"NextValidatorsHash", "bytes", "state.NextValidators.Hash()"},
	{"Time", "after", "state.LastBlockTime"},
	{"Time", "equal", "tm2/pkg/bft/state.MedianTime(block.LastCommit, state.LastValidators)"},
	{"Time", "equal", "state.LastBlockTime"}, // genesis block: exactly the genesis time
	{"ProposerAddress", "member", "state.Validators"},
}

var c32BasicTable = []struct{ Field, Form, Other string }{
	{"NumTxs", "cmp", "int64(len(block.Txs))"},
	{"LastCommitHash", "bytes", "block.LastCommit.Hash()"},
	{"DataHash", "bytes", "block.Hash()"}, // b.Data.Hash(): Data is embedded, rendered as block.Hash() on the Data method; disambiguated by callee below
}

func c32(c *engine.Ctx) {
	c.Explain = "Decides structural necessary conditions of 'every applied block is valid and validation is total': header-field coverage of State.ValidateBlock/Block.ValidateBasic against a per-field table of the expected state expression, every field hashed by Header.Hash; LastCommit verified by state.LastValidators.VerifyCommit on every non-genesis success path; execBlockOnProxyApp only behind a successful ValidateBlock (ApplyBlock) or the replay helper; fast-sync saves/applies only after VerifyCommit and pools only blocks that passed Block.ValidateBasic; no dereference of a possibly-nil *Validator lookup result, []*CommitSig element or decoded pointer field on the validation path. Not covered: correctness of the state values themselves, cryptography, decoding, other run-time panics."
	p := c.Load("tm2/pkg/bft/state", "tm2/pkg/bft/types", "tm2/pkg/bft/blockchain", "tm2/pkg/bft/consensus")
	if p == nil {
		return
	}
	hhUse(p)
	hhSetStops()
	hdr := p.Named("tm2/pkg/bft/types.Header")
	var hdrFields []string
	if hdr == nil {
		c.Undecided("anchor", "tm2/pkg/bft/types.Header", "type not found")
	} else if st, ok := hdr.Underlying().(*types.Struct); ok {
		for i := 0; i < st.NumFields(); i++ {
			hdrFields = append(hdrFields, st.Field(i).Name())
		}
	}
	c.Floor("header fields", len(hdrFields), 16)
	covered := map[string]bool{}

	// ---- (1a) ValidateBlock compares each state-determined field ----
	vb := c.MustFunc("tm2/pkg/bft/state.(State).ValidateBlock")
	if vb != nil {
		recv := hhRecv(vb)
		block := paramObj(vb, 0)
		names := map[types.Object]string{recv: "state", block: "block"}
		found := c32Mismatches(vb, block, names)
		for _, row := range c32HeaderTable {
			key := "Header." + row.Field + " (" + row.Form + ") vs " + row.Other
			got, seen := found[row.Field+"/"+row.Form]
			ok := false
			for _, g := range got {
				if g == row.Other {
					ok = true
				}
			}
			why := "mismatch returns an error"
			if !seen {
				why = "no error return is gated by a stand-alone " + row.Form + "-test of block." + row.Field
			} else if !ok {
				why = "block." + row.Field + " is tested against `" + strings.Join(got, "` / `") + "`, expected `" + row.Other + "`"
			}
			c.Check("header-validated", key, vb.Pos(), ok, why)
			if ok {
				covered[row.Field] = true
			}
		}
	}
	// ---- (1b) Block.ValidateBasic binds the self-describing fields ----
	bvb := c.MustFunc("tm2/pkg/bft/types.(*Block).ValidateBasic")
	if bvb != nil {
		recv := hhRecv(bvb)
		names := map[types.Object]string{recv: "block"}
		found := c32Mismatches(bvb, recv, names)
		for _, row := range c32BasicTable {
			key := "Header." + row.Field + " (" + row.Form + ") vs own content"
			got := found[row.Field+"/"+row.Form]
			ok := false
			for _, g := range got {
				switch row.Field {
				case "DataHash":
					ok = ok || g == "block.Hash()@tm2/pkg/bft/types.(*Data).Hash" || strings.HasPrefix(g, "block.Data.Hash()")
				default:
					ok = ok || strings.HasPrefix(g, row.Other)
				}
			}
			c.Check("header-validated", key, bvb.Pos(), ok, "tested against `"+strings.Join(got, "` / `")+"`")
			if ok {
				covered[row.Field] = true
			}
		}
	}
	for _, fld := range hdrFields {
		c.Check("header-validated", "Header."+fld+" covered", token.NoPos, covered[fld], "every header field must be validated against state or bound to the block's content")
	}

	// ---- (1c) Header.Hash covers every field ----
	if f := c.MustFunc("tm2/pkg/bft/types.(*Header).Hash"); f != nil && hdr != nil {
		recv := hhRecv(f)
		info := f.Info()
		in := map[string]bool{}
		for _, r := range f.Graph().ReturnBlocks() {
			ret := r.Return()
			if ret == nil {
				continue
			}
			ast.Inspect(ret, func(n ast.Node) bool {
				if call, ok := n.(*ast.CallExpr); ok && len(call.Args) == 1 {
					if fn, isFn := engine.ObjOf(info, call.Fun).(*types.Func); isFn && fn.Name() == "bytesOrNil" {
						if rt, fs, ok := hhChain(info, call.Args[0]); ok && rt == recv && len(fs) == 1 {
							in[fs[0]] = true
						}
					}
				}
				return true
			})
		}
		for _, fld := range hdrFields {
			c.Check("header-hash", "Header."+fld+" in Header.Hash", f.Pos(), in[fld], "field must be an element of the merkle-hashed slice")
		}
	}

	// ---- (2) LastCommit verification in ValidateBlock ----
	if vb != nil {
		info := vb.Info()
		recv := hhRecv(vb)
		block := paramObj(vb, 0)
		names := map[types.Object]string{recv: "state", block: "block"}
		vcs := hhDeepCalls(vb, "tm2/pkg/bft/types.(*ValidatorSet).VerifyCommit")
		c.Floor("last-commit-verified", len(vcs), 1)
		for _, vd := range vcs {
			vd := vd
			s := vd.Outer
			mp := hhDeepMap(vd)
			rx := mp(ast.Unparen(vd.Inner.Call.Fun).(*ast.SelectorExpr).X)
			var args []string
			for _, a := range vd.Inner.Call.Args {
				args = append(args, hhNorm(vb, mp(a), names, 2))
			}
			sig := hhNorm(vb, rx, names, 2) + ".VerifyCommit(" + strings.Join(args, ", ") + ")"
			want := "state.LastValidators.VerifyCommit(state.ChainID, state.LastBlockID, block.Height - 1, block.LastCommit)"
			c.Check("last-commit-verified", vb.Name+" VerifyCommit arguments", s.Pos(), sig == want, "got `"+sig+"`, want `"+want+"`")
			levels := hhLevels(vb, vd)
			// its error is returned (at every level of the helper chain)
			okRet := true
			for _, lv := range levels {
				if !hhErrReturned(lv.Fn, lv.Site) {
					okRet = false
				}
			}
			c.Check("last-commit-verified", vb.Name+" VerifyCommit error returned", s.Pos(), okRet, "a non-nil VerifyCommit error must be returned")
			// gates of the call: only `!isGenesisBlock`, isGenesisBlock := block.Height == state.InitialHeight
			var extra []string
			var genesisGate *engine.Gate
			var genesisFn *engine.Fn
			for li, lv := range levels {
				gs := lv.Fn.Graph().Gates(lv.Site)
				for i := range gs {
					gt := gs[i]
					if !hhIsBool(info, gt.Cond) {
						continue
					}
					toVB := func(e ast.Expr) ast.Expr { return e }
					if li > 0 {
						// condition of a helper: rewrite into ValidateBlock's terms
						sub := engine.DeepSite{Outer: vd.Outer, Inner: lv.Site, Chain: vd.Chain[:li]}
						toVB = hhDeepMap(sub)
					}
					cond := toVB(gt.Cond)
					var fs []hhFact
					hhSplit(gt.Cond, gt.OnTrue, &fs)
					if len(fs) == 1 {
						fs[0].E = hhResolve(vb, toVB(hhResolve(lv.Fn, fs[0].E)))
						var fs2 []hhFact
						hhSplit(fs[0].E, fs[0].True, &fs2)
						if len(fs2) == 1 {
							fs = fs2
						}
						if x, op, y, isCmp := hhCmp(fs[0]); isCmp && op == token.NEQ {
							n1 := hhNorm(vb, x, names, 2) + " == " + hhNorm(vb, y, names, 2)
							n2 := hhNorm(vb, y, names, 2) + " == " + hhNorm(vb, x, names, 2)
							if n1 == "block.Height == state.InitialHeight" || n2 == "block.Height == state.InitialHeight" {
								genesisGate, genesisFn = &gs[i], lv.Fn
								continue
							}
						}
					}
					// gates that merely passed earlier validation (error returns) are fine: the
					// other branch must leave the function with a non-nil error
					if c32OtherBranchErrs(lv.Fn, gt) {
						continue
					}
					extra = append(extra, hhNorm(vb, cond, names, 2))
				}
			}
			c.Check("last-commit-verified", vb.Name+" VerifyCommit skipped only for the genesis block", s.Pos(), genesisGate != nil && len(extra) == 0,
				"VerifyCommit must be conditional only on !(block.Height == state.InitialHeight); other conditions: "+join(extra))
			// every `return nil` passes VerifyCommit unless the genesis branch was taken
			if genesisGate != nil {
				n := 0
				for _, lv := range levels {
					g := lv.Fn.Graph()
					for _, rb := range g.ReturnBlocks() {
						ret := rb.Return()
						if len(ret.Results) == 0 || !isNil(ret.Results[len(ret.Results)-1]) {
							continue
						}
						n++
						rs := lv.Fn.SiteOf(ret)
						avoid := map[*cfg.Block]bool{lv.Site.Block: true}
						if lv.Fn == genesisFn {
							// the branch of the gate that does NOT lead to VerifyCommit is the genesis branch
							gb := genesisGate.Block.Succs[0]
							if genesisGate.OnTrue {
								gb = genesisGate.Block.Succs[1]
							}
							avoid[gb] = true
						}
						ok := rs != nil && !g.Reach(g.CFG.Blocks[0], rs.Block, avoid)
						c.Check("last-commit-verified", lv.Fn.Name+" success return passes VerifyCommit", ret.Pos(), ok, "a path reaches `return nil` without VerifyCommit and without being the genesis block")
					}
				}
				c.Floor("last-commit-verified success returns", n, 1)
			}
		}
	}

	// ---- (3) validation before execution ----
	if f := c.MustFunc("tm2/pkg/bft/state.(*BlockExecutor).ApplyBlock"); f != nil {
		info := f.Info()
		st, blk := paramObj(f, 0), paramObj(f, 2)
		ex := hhDeepCalls(f, "tm2/pkg/bft/state.execBlockOnProxyApp")
		c.Floor("validate-before-exec ApplyBlock", len(ex), 1)
		for _, ed := range ex {
			ed := ed
			s := ed.Outer
			ok, why := false, "no ValidateBlock(block) on the state/block being executed"
			if engine.ObjOf(info, hhDeepArg(ed, 2)) != blk || engine.ObjOf(info, hhDeepArg(ed, 3)) != st {
				why = "execBlockOnProxyApp does not execute ApplyBlock's own (block, state) parameters"
			} else {
				for _, vd := range hhDeepCalls(f, "tm2/pkg/bft/state.(State).ValidateBlock") {
					rx := hhDeepRecv(vd)
					if engine.ObjOf(info, rx) != st || engine.ObjOf(info, hhDeepArg(vd, 0)) != blk {
						continue
					}
					if len(hhAssignsTo(f, blk)) != 0 {
						why = "block parameter reassigned"
						continue
					}
					// state may be reassigned only after the execution
					stOK := true
					for _, a := range hhAssignsTo(f, st) {
						if as := f.SiteOf(a); as != nil && !f.Graph().Dominates(s, as) {
							stOK = false
						}
					}
					if !stOK {
						why = "state reassigned between validation and execution"
						continue
					}
					if ok, why = hhDeepMustSucceed(f, vd, s); ok {
						break
					}
				}
			}
			c.Check("validate-before-exec", f.Name+" -> execBlockOnProxyApp", s.Pos(), ok, why)
		}
	}
	for _, w := range []struct {
		fn      string
		allowed []string
	}{
		{"tm2/pkg/bft/state.execBlockOnProxyApp", []string{"tm2/pkg/bft/state.(*BlockExecutor).ApplyBlock", "tm2/pkg/bft/state.ExecCommitBlock"}},
		{"tm2/pkg/bft/state.ExecCommitBlock", []string{"tm2/pkg/bft/consensus.(*Handshaker).replayBlocks"}},
		{"tm2/pkg/bft/state.(*BlockExecutor).ApplyBlock", []string{"tm2/pkg/bft/consensus.(*ConsensusState).finalizeCommit", "tm2/pkg/bft/consensus.(*Handshaker).replayBlock", "tm2/pkg/bft/blockchain.(*BlockchainReactor).poolRoutine"}},
		{"tm2/pkg/bft/abci/client.(Client).DeliverTxAsync", []string{"tm2/pkg/bft/state.execBlockOnProxyApp"}},
		{"tm2/pkg/bft/appconn.(Consensus).DeliverTxAsync", []string{"tm2/pkg/bft/state.execBlockOnProxyApp"}},
	} {
		callers := hhLiftCallers(p, engine.CallerSet(p.RefsToFunc(w.fn)), w.allowed)
		extra := hhExtra(callers, w.allowed)
		if strings.Contains(w.fn, "DeliverTxAsync") {
			// interface may be declared on either type; only one of the two rows matches
			if len(callers) == 0 {
				continue
			}
		}
		c.Check("validate-before-exec", "callers of "+w.fn, token.NoPos, len(extra) == 0 && len(callers) > 0, "callers: "+join(callers))
	}
	if f0 := c.MustFunc("tm2/pkg/bft/blockchain.(*BlockchainReactor).poolRoutine"); f0 != nil {
		// if verification and application moved together into one helper, analyse that helper
		f := hhDescend(f0, []string{"tm2/pkg/bft/types.(*ValidatorSet).VerifyCommit"}, []string{"tm2/pkg/bft/state.(*BlockExecutor).ApplyBlock"}, []string{".SaveBlock"})
		info := f.Info()
		vcs := hhDeepCalls(f, "tm2/pkg/bft/types.(*ValidatorSet).VerifyCommit")
		n := 0
		for _, pat := range []string{"tm2/pkg/bft/state.(*BlockExecutor).ApplyBlock", ".SaveBlock"} {
			for _, sd := range hhDeepCalls(f, pat) {
				sd := sd
				s := sd.Outer
				n++
				barg := 0
				if strings.HasSuffix(pat, "ApplyBlock") {
					barg = 2
				}
				first := engine.ObjOf(info, hhDeepArg(sd, barg))
				ok, why := false, "no VerifyCommit guard"
				for _, v := range vcs {
					v := v
					if g, w := hhDeepErrGuard(f, v, s); !g {
						why = "VerifyCommit does not gate: " + w
						continue
					}
					names := map[types.Object]string{first: "first"}
					a1 := hhNorm(f, hhDeepArg(v, 1), names, 3)
					a2 := hhNorm(f, hhDeepArg(v, 2), names, 1)
					sec, sf, isCh := hhChain(info, hhDeepArg(v, 3))
					switch {
					case first == nil:
						why = "block argument is not a variable"
					case a2 != "first.Height":
						why = "VerifyCommit height is `" + a2 + "`, want first.Height"
					case !strings.Contains(a1, "Hash: first.Hash()") && !strings.Contains(a1, "first.Hash()"):
						why = "VerifyCommit block id is not built from first.Hash(): `" + a1 + "`"
					case !isCh || len(sf) != 1 || sf[0] != "LastCommit" || sec == first:
						why = "VerifyCommit must use the next block's LastCommit"
					default:
						ok, why = true, "saved/applied only after +2/3 of the current validators signed this block"
					}
					if ok {
						// verified against the same state that ApplyBlock receives
						rx := hhDeepRecv(v)
						if r, fs, isC := hhChain(info, rx); !isC || len(fs) != 1 || fs[0] != "Validators" {
							ok, why = false, "VerifyCommit must be called on state.Validators"
						} else if barg == 2 && engine.ObjOf(info, hhDeepArg(sd, 0)) != r {
							ok, why = false, "ApplyBlock receives a different state than the one whose validators verified the commit"
						}
						break
					}
				}
				c.Check("validate-before-exec", f0.Name+" -> "+sd.Inner.CalleeName(), s.Pos(), ok, why)
			}
		}
		c.Floor("validate-before-exec poolRoutine", n, 2)
	}
	if f := c.MustFunc("tm2/pkg/bft/blockchain.(*BlockchainReactor).Receive"); f != nil {
		adds := hhDeepCalls(f, "tm2/pkg/bft/blockchain.(*BlockPool).AddBlock")
		c.Floor("validate-before-exec Receive", len(adds), 1)
		for _, ad := range adds {
			s := ad.Outer
			ok, why := false, "no msg.ValidateBasic() guard"
			for _, v := range hhDeepCalls(f, "tm2/pkg/bft/blockchain.(BlockchainMessage).ValidateBasic") {
				if ok, why = hhDeepErrGuard(f, v, s); ok {
					break
				}
			}
			c.Check("validate-before-exec", f.Name+" -> BlockPool.AddBlock", s.Pos(), ok, why)
		}
		callers := hhLiftCallers(p, engine.CallerSet(p.RefsToFunc("tm2/pkg/bft/blockchain.(*BlockPool).AddBlock")), []string{f.Name})
		c.Check("validate-before-exec", "callers of BlockPool.AddBlock", token.NoPos, len(hhExtra(callers, []string{f.Name})) == 0 && len(callers) == 1, "callers: "+join(callers))
	}
	if f := c.MustFunc("tm2/pkg/bft/blockchain.(*bcBlockResponseMessage).ValidateBasic"); f != nil {
		info := f.Info()
		recv := hhRecv(f)
		ok := true
		n := 0
		for _, rb := range f.Graph().ReturnBlocks() {
			ret := rb.Return()
			n++
			if len(ret.Results) != 1 {
				ok = false
				continue
			}
			rx, _, isM := hhMethodCall(info, ret.Results[0], "ValidateBasic")
			if !(isM && hhIsChain(info, rx, recv, "Block")) {
				// an explicit error is fine, nil is not
				if isNil(ret.Results[0]) {
					ok = false
				}
			}
		}
		has := len(f.CallsTo("tm2/pkg/bft/types.(*Block).ValidateBasic")) > 0
		c.Check("validate-before-exec", f.Name+" delegates to Block.ValidateBasic", f.Pos(), ok && has && n > 0, "a block response is valid only if m.Block.ValidateBasic() says so")
	}

	// ---- (4) may-be-nil dereferences on the validation path ----
	var roots []*engine.Fn
	if vb != nil {
		roots = append(roots, vb)
	}
	if f := c.MustFunc("tm2/pkg/bft/types.(*ValidatorSet).VerifyFutureCommit"); f != nil {
		roots = append(roots, f)
	}
	if f := c.MustFunc("tm2/pkg/bft/types.(*ValidatorSet).VerifyCommit"); f != nil {
		roots = append(roots, f)
	}
	scope := hhReach(p, roots, "tm2/pkg/bft/state", "tm2/pkg/bft/types")
	c.Floor("validation-path functions", len(scope), 15)
	nLookup, nElem, nSB := 0, 0, 0
	commitSig := p.Named("tm2/pkg/bft/types.CommitSig")
	for _, f := range scope {
		info := f.Info()
		// lookups
		for _, s := range f.CallsTo("tm2/pkg/bft/types.(*ValidatorSet).GetByIndex", "tm2/pkg/bft/types.(*ValidatorSet).GetByAddress") {
			rv := hhResultVars(f, s)
			short := s.CalleeName()[strings.LastIndex(s.CalleeName(), "("):]
			if len(rv) != 2 {
				if _, isExpr := s.Top.(*ast.ExprStmt); isExpr {
					continue
				}
				c.Check("lookup-nil", f.Name+" result of "+short+" not bound", s.Pos(), false, "cannot track the looked-up validator")
				nLookup++
				continue
			}
			v := rv[1]
			if v == nil {
				continue
			}
			nLookup++
			key := f.Name + " " + v.Name() + " <- " + short
			derefs := hhFieldDerefs(f, v)
			ok, why := true, "no dereference"
			if st, _ := hhSingleDef(f, v); st == nil && len(derefs) > 0 {
				ok, why = false, "validator variable assigned more than once"
			}
			sizeEq, sizeWhy := c32SizeEqIdiom(f, s)
			for _, d := range derefs {
				ds := f.SiteOf(d)
				if ds == nil {
					continue
				}
				if k, nn := hhKnowsNil(info, hhFacts(f, ds), v); k && nn {
					if ok {
						why = "dereferenced under `" + v.Name() + " != nil`"
					}
					continue
				}
				if sizeEq {
					if ok {
						why = "index is the range key of a slice whose length was tested equal to Size()"
					}
					continue
				}
				ok, why = false, "`"+hhRender(d)+"` dereferences the *Validator returned by "+short+"("+hhRender(hhArg(s.Call, 0))+") without a nil test ("+sizeWhy+"); the lookup returns nil for an unknown key"
			}
			c.Check("lookup-nil", key, s.Pos(), ok, why)
		}
		// elements of []*CommitSig
		if commitSig != nil {
			check := func(v types.Object, pos token.Pos, how string) {
				derefs := hhFieldDerefs(f, v)
				if len(derefs) == 0 {
					return
				}
				nElem++
				ok, why := true, "every dereference under `"+v.Name()+" != nil`"
				for _, d := range derefs {
					ds := f.SiteOf(d)
					if ds == nil {
						continue
					}
					if k, nn := hhKnowsNil(info, hhFacts(f, ds), v); !(k && nn) {
						ok, why = false, "`"+hhRender(d)+"` dereferences a commit signature that may be nil (amino nil_elements)"
					}
				}
				c.Check("elem-nil", f.Name+" "+v.Name()+" ("+how+")", pos, ok, why)
			}
			isSigSlice := func(e ast.Expr) bool {
				t := info.TypeOf(e)
				if t == nil {
					return false
				}
				sl, ok := t.Underlying().(*types.Slice)
				if !ok {
					return false
				}
				pt, ok := sl.Elem().(*types.Pointer)
				return ok && types.Identical(pt.Elem(), commitSig)
			}
			engine.InspectBody(f, func(n ast.Node) {
				switch x := n.(type) {
				case *ast.RangeStmt:
					if x.Value != nil && isSigSlice(x.X) {
						if id := hhIdent(x.Value); id != nil && id.Name != "_" {
							check(info.ObjectOf(id), x.Pos(), "range element")
						}
					}
				case *ast.AssignStmt:
					if len(x.Lhs) == 1 && len(x.Rhs) == 1 {
						if ix, ok := ast.Unparen(x.Rhs[0]).(*ast.IndexExpr); ok && isSigSlice(ix.X) {
							if id := hhIdent(x.Lhs[0]); id != nil {
								check(info.ObjectOf(id), x.Pos(), "indexed element")
							}
						}
					}
				case *ast.SelectorExpr:
					if ix, ok := ast.Unparen(x.X).(*ast.IndexExpr); ok && isSigSlice(ix.X) {
						nElem++
						okc, whyc := c32ElemViaCallers(p, f, ix.X, ix.Index)
						c.Check("elem-nil", f.Name+" direct "+hhRender(x), x.Pos(), okc, "element of []*CommitSig dereferenced without binding and nil test; "+whyc)
					}
				}
			})
		}
		// sign-bytes of a possibly-nil vote
		for _, s := range f.CallsTo("tm2/pkg/bft/types.(*Commit).VoteSignBytes", "tm2/pkg/bft/types.(*Commit).GetVote") {
			if f.Name == "tm2/pkg/bft/types.(*Commit).VoteSignBytes" || f.Name == "tm2/pkg/bft/types.(*Commit).GetByIndex" {
				continue // thin wrappers; their callers are checked
			}
			nSB++
			idxArg := hhArg(s.Call, len(s.Call.Args)-1)
			rs := hhEnclosingRange(f, s.Call)
			ok, why := false, "index is not the key of an enclosing range over the commit's Precommits"
			if rs != nil && rs.Key != nil && rs.Value != nil && engine.ObjOf(info, rs.Key) != nil && engine.ObjOf(info, rs.Key) == engine.ObjOf(info, idxArg) {
				rx := ast.Unparen(s.Call.Fun).(*ast.SelectorExpr).X
				r1, f1, ok1 := hhChain(info, rs.X)
				r2, f2, ok2 := hhChain(info, rx)
				if ok1 && ok2 && r1 == r2 && len(f2) == 0 && len(f1) == 1 && f1[0] == "Precommits" {
					v := engine.ObjOf(info, rs.Value)
					if k, nn := hhKnowsNil(info, hhFacts(f, s), v); k && nn {
						ok, why = true, "called only for a non-nil element at that index"
					} else {
						why = "not under a nil test of the range element (GetVote returns nil for a missing precommit)"
					}
				}
			}
			if !ok {
				// a helper whose callers establish the fact
				rx := ast.Unparen(s.Call.Fun).(*ast.SelectorExpr).X
				slice := &ast.SelectorExpr{X: rx, Sel: ast.NewIdent("Precommits")}
				if okc, _ := c32ElemViaCallersChain(p, f, rx, slice, idxArg); okc {
					ok, why = true, "every caller passes the index of a non-nil range element"
				}
			}
			c.Check("elem-nil", f.Name+" "+s.CalleeName()[strings.LastIndex(s.CalleeName(), ".")+1:]+"(idx)", s.Pos(), ok, why)
		}
	}
	c.Floor("lookup-nil", nLookup, 3)
	c.Floor("elem-nil", nElem+nSB, 6)

	// pointer fields of the decoded block
	if vb != nil && bvb != nil {
		info := vb.Info()
		block := paramObj(vb, 0)
		var guard *engine.Site
		for _, s := range vb.CallsTo("tm2/pkg/bft/types.(*Block).ValidateBasic") {
			if engine.ObjOf(info, ast.Unparen(s.Call.Fun).(*ast.SelectorExpr).X) == block {
				guard = s
			}
		}
		c.Check("ptr-nil", vb.Name+" calls block.ValidateBasic()", vb.Pos(), guard != nil, "stateless validation (nil LastCommit test) must run first")
		n := 0
		seen := map[string]bool{}
		// uses of block.LastCommit in ValidateBlock and in the helpers it calls
		uses := vb.DeepFind(2, func(fn *engine.Fn, x ast.Node) bool {
			e, ok := x.(*ast.SelectorExpr)
			if !ok {
				return false
			}
			_, fs, isC := hhChain(fn.Info(), e)
			return isC && len(fs) >= 1 && fs[0] == "LastCommit"
		})
		for _, d := range uses {
			if hhChainStopped(d) {
				continue
			}
			e := hhDeepMap(d)(d.Inner.Node.(ast.Expr))
			r, fs, isC := hhChain(info, e)
			if !isC || r != block || len(fs) == 0 || fs[0] != "LastCommit" {
				continue
			}
			key := vb.Name + " use of block." + strings.Join(fs, ".")
			if seen[key] && len(fs) == 1 {
				continue
			}
			s := d.Outer
			if guard == nil || s == guard {
				continue
			}
			if d.Inner != d.Outer && len(d.Chain) > 0 && d.Chain[0].Name == "tm2/pkg/bft/types.(*Block).ValidateBasic" {
				continue // the guard itself
			}
			n++
			ok2, why := hhErrGuard(vb, guard, s)
			if !seen[key] || !ok2 {
				c.Check("ptr-nil", key, d.Inner.Pos(), ok2, "block.LastCommit may be nil before Block.ValidateBasic succeeded: "+why)
			}
			seen[key] = true
		}
		c.Floor("ptr-nil ValidateBlock", n, 3)

		// inside Block.ValidateBasic
		info = bvb.Info()
		recv := hhRecv(bvb)
		nb, nl := 0, 0
		okB, okL := true, true
		var badB, badL string
		engine.InspectBody(bvb, func(x ast.Node) {
			sel, ok := x.(*ast.SelectorExpr)
			if !ok {
				return
			}
			s := bvb.SiteOf(sel)
			if s == nil {
				return
			}
			if id := hhIdent(sel.X); id != nil && info.ObjectOf(id) == recv {
				nb++
				if k, nn := hhKnowsNil(info, hhFacts(bvb, s), recv); !(k && nn) {
					okB, badB = false, hhRender(sel)
				}
			}
			if hhIsChain(info, sel.X, recv, "LastCommit") {
				// Commit.Hash tolerates a nil receiver; everything else needs the nil test
				if fn, isFn := info.ObjectOf(sel.Sel).(*types.Func); isFn && fn.Name() == "Hash" {
					return
				}
				nl++
				if k, nn := hhKnowsNil(info, hhFacts(bvb, s), recv, "LastCommit"); !(k && nn) {
					okL, badL = false, hhRender(sel)
				}
			}
		})
		c.Check("ptr-nil", bvb.Name+" receiver", bvb.Pos(), okB, "`"+badB+"` is evaluated without the `b == nil` test")
		c.Check("ptr-nil", bvb.Name+" b.LastCommit", bvb.Pos(), okL, "`"+badL+"` is evaluated without a stand-alone `b.LastCommit == nil` test")
		c.Floor("ptr-nil Block.ValidateBasic receiver uses", nb, 10)
		c.Floor("ptr-nil Block.ValidateBasic LastCommit uses", nl, 1)
	}
	sort.Strings(hdrFields)
}

// c32Mismatches collects, for every error return of f, the stand-alone
// mismatch tests of header fields of `block` that lead to it: result key is
// "<Field>/<form>", value the normalised other operand(s).
func c32Mismatches(f *engine.Fn, block types.Object, names map[types.Object]string) map[string][]string {
	out := map[string][]string{}
	info := f.Info()
	add := func(k, v string) {
		for _, x := range out[k] {
			if x == v {
				return
			}
		}
		out[k] = append(out[k], v)
	}
	blockField := func(e ast.Expr) (string, bool) {
		r, fs, ok := hhChain(info, e)
		if ok && r == block && len(fs) == 1 {
			return fs[0], true
		}
		return "", false
	}
	for _, ft := range c32ErrConditions(f, 2) {
		{
			// x != y
			if x, op, y, ok := hhCmp(ft); ok && op == token.NEQ {
				if fl, isF := blockField(x); isF {
					add(fl+"/cmp", hhNorm(f, y, names, 2))
				} else if fl, isF := blockField(y); isF {
					add(fl+"/cmp", hhNorm(f, x, names, 2))
				}
				continue
			}
			call, isCall := ast.Unparen(ft.E).(*ast.CallExpr)
			if !isCall || ft.True {
				continue
			}
			// !bytes.Equal(block.F, X)
			if fn, isFn := engine.ObjOf(info, call.Fun).(*types.Func); isFn && engine.FuncName(fn) == "bytes.Equal" && len(call.Args) == 2 {
				other := func(e ast.Expr) string {
					s := hhNorm(f, e, names, 2)
					// disambiguate promoted methods (b.Data.Hash() vs b.Hash())
					if c2, ok := ast.Unparen(e).(*ast.CallExpr); ok {
						if m, ok := engine.ObjOf(info, c2.Fun).(*types.Func); ok && strings.HasSuffix(s, "block.Hash()") {
							s += "@" + engine.FuncName(m)
						}
					}
					return s
				}
				if fl, isF := blockField(call.Args[0]); isF {
					add(fl+"/bytes", other(call.Args[1]))
				} else if fl, isF := blockField(call.Args[1]); isF {
					add(fl+"/bytes", other(call.Args[0]))
				}
				continue
			}
			sel, isSel := ast.Unparen(call.Fun).(*ast.SelectorExpr)
			if !isSel || len(call.Args) != 1 {
				continue
			}
			if fl, isF := blockField(sel.X); isF {
				switch sel.Sel.Name {
				case "Equals":
					add(fl+"/equals", hhNorm(f, call.Args[0], names, 2))
				case "Equal":
					add(fl+"/equal", hhNorm(f, call.Args[0], names, 2))
				case "After":
					add(fl+"/after", hhNorm(f, call.Args[0], names, 2))
				}
				continue
			}
			if fl, isF := blockField(call.Args[0]); isF && (sel.Sel.Name == "Equals" || sel.Sel.Name == "Equal") {
				// state.X.Equals(block.F): symmetric
				k := "equals"
				if sel.Sel.Name == "Equal" {
					k = "equal"
				}
				add(fl+"/"+k, hhNorm(f, sel.X, names, 2))
				continue
			}
			if sel.Sel.Name == "HasAddress" {
				if fl, isF := blockField(call.Args[0]); isF {
					add(fl+"/member", hhNorm(f, sel.X, names, 2))
				}
			}
		}
	}
	return out
}

// hhErrGuardInv: target is reached only when the guard's error is NON-nil.
func hhErrGuardInv(f *engine.Fn, gs, target *engine.Site) (bool, string) {
	r := f.Graph().CheckedGuard(gs, target)
	if !r.OK {
		return false, r.Why
	}
	var facts []hhFact
	hhSplit(r.Cond, r.OnTrue, &facts)
	for _, ft := range facts {
		if _, notNil, ok := hhNilCmp(ft.E); ok {
			return notNil == ft.True, ""
		}
	}
	return false, "not a nil comparison"
}

// c32OtherBranchErrs: the branch of the gate that does NOT lead to the target
// leaves the function through a return of a non-nil error (an earlier
// validation step that passed).
func c32OtherBranchErrs(f *engine.Fn, gt engine.Gate) bool {
	other := gt.Block.Succs[0]
	if gt.OnTrue {
		other = gt.Block.Succs[1]
	}
	// follow straight-line blocks to a return
	for i := 0; i < 8 && other != nil; i++ {
		if ret := other.Return(); ret != nil {
			return len(ret.Results) == 1 && !isNil(ret.Results[0])
		}
		if len(other.Succs) != 1 {
			return false
		}
		other = other.Succs[0]
	}
	return false
}

// c32SizeEqIdiom: the GetByIndex(idx) call is inside `for idx, _ := range E`
// and an error-return gate established R.Size() == len(E) for the same
// receiver R before the loop.
func c32SizeEqIdiom(f *engine.Fn, s *engine.Site) (bool, string) {
	info := f.Info()
	if !strings.HasSuffix(s.CalleeName(), ".GetByIndex") {
		return false, "not an index lookup"
	}
	rs := hhEnclosingRange(f, s.Call)
	if rs == nil || rs.Key == nil || engine.ObjOf(info, rs.Key) == nil || engine.ObjOf(info, rs.Key) != engine.ObjOf(info, hhArg(s.Call, 0)) {
		return false, "index is not the key of an enclosing range"
	}
	if len(hhAssignsTo(f, engine.ObjOf(info, rs.Key))) != 1 {
		return false, "range key reassigned"
	}
	recvX := ast.Unparen(s.Call.Fun).(*ast.SelectorExpr).X
	isSize := func(e ast.Expr) bool {
		rx, _, ok := hhMethodCall(info, e, "Size")
		return ok && hhSameChain(info, rx, recvX)
	}
	isLen := func(e ast.Expr) bool {
		c, ok := ast.Unparen(e).(*ast.CallExpr)
		return ok && len(c.Args) == 1 && engine.IsBuiltinCall(info, c, "len") && hhSameChain(info, c.Args[0], rs.X)
	}
	if hhHasCmp(hhFacts(f, s), token.EQL, isSize, isLen) {
		return true, ""
	}
	return false, "no `Size() == len(...)` fact for the ranged slice"
}

// c32ErrConditions lists the stand-alone conditions that send f to an exit
// with a non-nil error (last result), in f's terms: those gating f's own
// error returns and, for `return err` / `return wrap(err)` where err comes
// from a same-package helper, the helper's own error conditions rewritten
// through the call's argument binding.
func c32ErrConditions(f *engine.Fn, depth int) []hhFact {
	var out []hhFact
	info := f.Info()
	seenCall := map[*ast.CallExpr]bool{}
	for _, rb := range f.Graph().ReturnBlocks() {
		ret := rb.Return()
		if ret == nil || len(ret.Results) == 0 {
			continue
		}
		last := ret.Results[len(ret.Results)-1]
		if isNil(last) {
			continue
		}
		rs := f.SiteOf(ret)
		if rs == nil {
			continue
		}
		out = append(out, hhSufficient(f, rs)...)
		if depth <= 0 {
			continue
		}
		// follow an error obtained from a helper
		var call *ast.CallExpr
		for _, gt := range f.Graph().Gates(rs) {
			var fs []hhFact
			hhSplit(gt.Cond, gt.OnTrue, &fs)
			for _, ft := range fs {
				x, notNil, ok := hhNilCmp(ft.E)
				if !ok || notNil != ft.True {
					continue
				}
				if c2, isCall := ast.Unparen(x).(*ast.CallExpr); isCall {
					call = c2
				} else if id := hhIdent(x); id != nil {
					call = hhErrSource(f, info.ObjectOf(id), gt.Block)
				}
			}
		}
		if c2, isCall := ast.Unparen(last).(*ast.CallExpr); isCall && call == nil {
			call = c2 // return helper(...)
		}
		if call == nil || seenCall[call] {
			continue
		}
		seenCall[call] = true
		h := hhCalleeFn(f, call)
		if h == nil || h.Obj == nil || h.Obj.Exported() {
			continue
		}
		bind := hhBind(h, call)
		for _, ft := range c32ErrConditions(h, depth-1) {
			out = append(out, hhFact{hhIntoCaller(h, bind, ft.E), ft.True})
		}
	}
	return out
}

// c32ElemViaCallers: h is an unexported helper that uses slice[idx] (both
// expressed in h's parameters); every caller calls h with idx = the key of an
// enclosing `range <slice>` whose element is known non-nil at the call.
func c32ElemViaCallers(p *engine.Prog, h *engine.Fn, slice, idx ast.Expr) (bool, string) {
	return c32ElemViaCallersChain(p, h, nil, slice, idx)
}

// commitRecv != nil: the slice is commitRecv.Precommits (synthetic selector).
func c32ElemViaCallersChain(p *engine.Prog, h *engine.Fn, commitRecv, slice, idx ast.Expr) (bool, string) {
	if h.Obj == nil || h.Obj.Exported() || h.Decl == nil {
		return false, "not an unexported helper"
	}
	refs := p.RefsToFunc(h.Name)
	if len(refs) == 0 {
		return false, "helper has no callers"
	}
	for _, r := range refs {
		if !r.IsCall || r.Fn == nil {
			return false, "helper used as a value"
		}
		cf := r.Fn
		info := cf.Info()
		// locate the call expression
		var call *ast.CallExpr
		for _, s := range cf.Calls() {
			if fn, _ := s.Callee.(*types.Func); fn != nil && p.FnOf(fn) == h {
				if s.Call.Pos() <= r.Ident.Pos() && r.Ident.End() <= s.Call.End() {
					call = s.Call
				}
			}
		}
		if call == nil {
			return false, "call site not located in " + cf.Name
		}
		bind := hhBind(h, call)
		idxC := hhIntoCaller(h, bind, idx)
		var root types.Object
		var fields []string
		if commitRecv != nil {
			rc := hhIntoCaller(h, bind, commitRecv)
			r0, f0, ok := hhChain(info, rc)
			if !ok {
				return false, "receiver not a chain at " + cf.Name
			}
			root, fields = r0, append(f0, "Precommits")
		} else {
			r0, f0, ok := hhChain(info, hhIntoCaller(h, bind, slice))
			if !ok {
				return false, "slice not a chain at " + cf.Name
			}
			root, fields = r0, f0
		}
		rs := hhEnclosingRange(cf, call)
		if rs == nil || rs.Key == nil || rs.Value == nil || engine.ObjOf(info, rs.Key) == nil || engine.ObjOf(info, rs.Key) != engine.ObjOf(info, idxC) {
			return false, "caller " + cf.Name + " does not pass the key of an enclosing range"
		}
		if !hhIsChain(info, rs.X, root, fields...) {
			return false, "caller " + cf.Name + " ranges over a different slice"
		}
		cs := cf.SiteOf(call)
		if k, nn := hhKnowsNil(info, hhFacts(cf, cs), engine.ObjOf(info, rs.Value)); !(k && nn) {
			return false, "caller " + cf.Name + " does not test the element for nil"
		}
	}
	return true, "callers establish a non-nil element"
}
